(* C07: hydro task graph.  Executable model only (no proofs).
   (a) a generic task-graph execution model that follows the worker loop of the hydro step in
       src/TaskBasedRadiationHydrodynamicsSimulation.cpp (the `#pragma omp parallel` block with
       `while (number_of_tasks.value() > 0)`), one control point per access to shared data, in the
       order of the code;
   (b) make_graph: a literal model of make_hydro_tasks + set_dependencies + reset_hydro_tasks
       on the neighbour relation of DensitySubGridCreator::create_subgrid.
   Tie: harness/c07/dump_graph.cpp dumps the real task table; props/c07.py diffs it with make_graph,
   evaluates wf_check on the REAL table and replays real-primitive runs through [step]. *)
From Coq Require Import Arith List Bool PeanoNat.
Import ListNotations.

(* ------------------------------------------------------------------ tasks *)
Inductive tkind := GI | GN | GB | SL | PP | FI | FN | FB | UC | UP.
(* GI/FI internal sweeps, GN/FN pair (neighbour) sweeps, GB/FB boundary (ghost) sweeps,
   SL slope limiter, PP predict primitives, UC/UP update conserved / primitives *)

Record task := mkTask {
  kind : tkind;
  sub : nat;                 (* Task::_subgrid *)
  other : option nat;        (* Task::_buffer: the neighbouring subgrid of a pair task *)
  dir : option nat;          (* interaction direction - TRAVELDIRECTION_FACE_X_P: 0..5 = x+ x- y+ y- z+ z- *)
  dep0 : option nat;         (* Task::_dependency[0]: a lock is named by the subgrid whose get_dependency() it is *)
  dep1 : option nat;         (* Task::_dependency[1] *)
  children : list nat;       (* Task::_children[0.._number_of_children) *)
  parents0 : nat             (* the counter written by reset_hydro_tasks *)
}.
Definition graph := list task.
Definition dtask := mkTask GI 0 None None None None [] 0.
Definition tk (g : graph) (t : nat) : task := nth t g dtask.

Fixpoint upd {A} (l : list A) (i : nat) (v : A) : list A :=
  match l, i with
  | [], _ => []
  | _ :: r, 0 => v :: r
  | x :: r, S j => x :: upd r j v
  end.

Definition memb (t : nat) (l : list nat) : bool := existsb (Nat.eqb t) l.
Fixpoint remove1 (t : nat) (l : list nat) : list nat :=
  match l with
  | [] => []
  | x :: r => if x =? t then r else x :: remove1 t r
  end.

(* ------------------------------------------------------------------ locks (ThreadLock = atomic flag) *)
Definition try_lock (a : nat) (h : list nat) : option (list nat) :=
  if memb a h then None else Some (a :: h).
Definition unlock (a : nat) (h : list nat) : list nat := filter (fun x => negb (x =? a)) h.

(* Task::lock_dependency: try [0], then try [1]; if [1] fails [0] is released again (state unchanged) *)
Definition lock_dep (h : list nat) (t : task) : option (list nat) :=
  match dep0 t with
  | None => Some h
  | Some a =>
      match try_lock a h with
      | None => None
      | Some h1 =>
          match dep1 t with
          | None => Some h1
          | Some b => match try_lock b h1 with
                      | None => None
                      | Some h2 => Some h2
                      end
          end
      end
  end.
(* Task::unlock_dependency: [1] then [0] *)
Definition unlock_dep (h : list nat) (t : task) : list nat :=
  match dep0 t with
  | None => h
  | Some a => unlock a (match dep1 t with None => h | Some b => unlock b h end)
  end.
Definition locks (t : task) : list nat :=
  match dep0 t with
  | None => []
  | Some a => a :: match dep1 t with None => [] | Some b => [b] end
  end.
(* subgrids whose data execute_task reads/writes for this task *)
Definition touches (t : task) : list nat :=
  sub t :: match other t with None => [] | Some o => [o] end.

(* ------------------------------------------------------------------ interleaving semantics *)
(* per-thread control points of
     while (number_of_tasks.value() > 0) {                      LoopHead
       current_task = get_task / steal_task                     Fetch   (lock_dependency inside, under the queue lock)
       if (current_task != NO_TASK) {
         start; execute_task; stop                              Run t
         unlock_dependency                                      Unlock t
         for (i < numchild)                                     Release t i
           if (child.decrement_number_of_unfinished_parents() == 0) {
             queue->add_task(child)                             Enq t i
             number_of_tasks.pre_increment() }                  Inc t i
         number_of_tasks.pre_decrement()                        Release t numchild
       } }                                                      Exited                                   *)
Inductive pc := LoopHead | Fetch | Run (t : nat) | Unlock (t : nat) | Release (t k : nat)
              | Enq (t k : nat) | Inc (t k : nat) | Exited.
Inductive event := EStart (t : nat) | EStop (t : nat).
Definition ev_eqb (a b : event) : bool :=
  match a, b with
  | EStart x, EStart y => x =? y
  | EStop x, EStop y => x =? y
  | _, _ => false
  end.

Record state := mkState {
  cnt : list nat;        (* Task::_number_of_unfinished_parents (uint_least8_t) *)
  queue : list nat;      (* union of the per-thread queues (which queue and which position are abstracted) *)
  held : list nat;       (* subgrid locks currently set *)
  ntasks : nat;          (* AtomicValue< uint_fast32_t > number_of_tasks *)
  pcs : list pc;
  rel : list nat;        (* ghost: number of child slots of a task already decremented *)
  log : list event       (* ghost: start/stop events, newest first *)
}.

(* scheduling nondeterminism: which thread moves; at Fetch, which queued task get_task/steal_task
   returns ([None]: NO_TASK - empty queues, nothing lockable, or a lost race) *)
Inductive label := L (thr : nat) (pick : option nat).

Definition dec8 (v : nat) : nat := (v + 255) mod 256.     (* uint_least8_t pre-decrement *)

Definition set_pc (s : state) (i : nat) (p : pc) : state :=
  mkState (cnt s) (queue s) (held s) (ntasks s) (upd (pcs s) i p) (rel s) (log s).

Definition step (g : graph) (s : state) (l : label) : option state :=
  let '(L i pick) := l in
  match nth_error (pcs s) i with
  | None => None
  | Some p =>
      match p with
      | Exited => None
      | LoopHead => Some (set_pc s i (if ntasks s =? 0 then Exited else Fetch))
      | Fetch =>
          match pick with
          | None => Some (set_pc s i LoopHead)
          | Some t =>
              if memb t (queue s) then
                match lock_dep (held s) (tk g t) with
                | None => None
                | Some h' => Some (mkState (cnt s) (remove1 t (queue s)) h' (ntasks s)
                                           (upd (pcs s) i (Run t)) (rel s) (EStart t :: log s))
                end
              else None
          end
      | Run t => Some (mkState (cnt s) (queue s) (held s) (ntasks s) (upd (pcs s) i (Unlock t)) (rel s)
                               (EStop t :: log s))
      | Unlock t => Some (mkState (cnt s) (queue s) (unlock_dep (held s) (tk g t)) (ntasks s)
                                  (upd (pcs s) i (Release t 0)) (rel s) (log s))
      | Release t k =>
          match nth_error (children (tk g t)) k with
          | None => Some (mkState (cnt s) (queue s) (held s) (pred (ntasks s)) (upd (pcs s) i LoopHead)
                                  (rel s) (log s))
          | Some c =>
              let v := dec8 (nth c (cnt s) 0) in
              Some (mkState (upd (cnt s) c v) (queue s) (held s) (ntasks s)
                            (upd (pcs s) i (if v =? 0 then Enq t k else Release t (S k)))
                            (upd (rel s) t (S k)) (log s))
          end
      | Enq t k => Some (mkState (cnt s) (nth k (children (tk g t)) 0 :: queue s) (held s) (ntasks s)
                                 (upd (pcs s) i (Inc t k)) (rel s) (log s))
      | Inc t k => Some (mkState (cnt s) (queue s) (held s) (S (ntasks s)) (upd (pcs s) i (Release t (S k)))
                                 (rel s) (log s))
      end
  end.

(* "reset the hydro tasks and add them to the queue": counters from reset_hydro_tasks, every task whose
   counter is 0 queued and counted *)
Definition init_queue (g : graph) : list nat :=
  filter (fun t => parents0 (tk g t) =? 0) (seq 0 (length g)).
Definition init (g : graph) (nthreads : nat) : state :=
  mkState (map parents0 g) (init_queue g) [] (length (init_queue g)) (repeat LoopHead nthreads)
          (repeat 0 (length g)) [].

(* a schedule is a list of labels; labels that are not enabled are skipped *)
Fixpoint exec (g : graph) (s : state) (sched : list label) : state :=
  match sched with
  | [] => s
  | l :: r => match step g s l with
              | Some s' => exec g s' r
              | None => exec g s r
              end
  end.

(* the next hydro step: the Task objects, the queues and the subgrid locks are reused, the counters are
   rewritten by reset_hydro_tasks, number_of_tasks is a fresh local *)
Definition next_step (g : graph) (nthreads : nat) (s : state) : state :=
  mkState (map parents0 g) (queue s ++ init_queue g) (held s) (length (init_queue g))
          (repeat LoopHead nthreads) (repeat 0 (length g)) [].

(* ------------------------------------------------------------------ measure *)
Definition nch (g : graph) (t : nat) : nat := length (children (tk g t)).
Definition full (g : graph) (t : nat) : nat := 3 * nch g t + 4.
Definition remw (g : graph) (p : pc) : nat :=
  match p with
  | Exited => 0
  | LoopHead | Fetch => 1
  | Run t => 3 * nch g t + 4
  | Unlock t => 3 * nch g t + 3
  | Release t k => 3 * (nch g t - k) + 2
  | Enq t k => 3 * (nch g t - S k) + 4
  | Inc t k => 3 * (nch g t - S k) + 3
  end.
Fixpoint sumn (f : nat -> nat) (n : nat) : nat :=
  match n with
  | 0 => 0
  | S m => sumn f m + f m
  end.
Definition startedb (s : state) (t : nat) : bool := existsb (ev_eqb (EStart t)) (log s).
Definition mu (g : graph) (s : state) : nat :=
  sumn (fun t => if startedb s t then 0 else full g t) (length g) + list_sum (map (remw g) (pcs s)).
(* steps that do not change the measure: the loop head finding work to do, and a fetch that returns NO_TASK *)
Definition idle (s : state) (l : label) : bool :=
  let '(L i pick) := l in
  match nth i (pcs s) Exited with
  | LoopHead => negb (ntasks s =? 0)
  | Fetch => match pick with None => true | Some _ => false end
  | _ => false
  end.

(* ------------------------------------------------------------------ well-formedness check *)
Definition rank_of (k : tkind) : nat :=
  match k with
  | GI | GN | GB => 0
  | SL => 1
  | PP => 2
  | FI | FN | FB => 3
  | UC => 4
  | UP => 5
  end.
Definition incr (l : list nat) (i : nat) : list nat := upd l i (S (nth i l 0)).
Definition indeg_list (g : graph) : list nat :=
  fold_left (fun acc t => fold_left incr (children t) acc) g (repeat 0 (length g)).
Fixpoint list_eqb (a b : list nat) : bool :=
  match a, b with
  | [], [] => true
  | x :: r, y :: q => (x =? y) && list_eqb r q
  | _, _ => false
  end.
Definition locks_distinctb (t : task) : bool :=
  match dep0 t, dep1 t with
  | Some a, Some b => negb (a =? b)
  | _, _ => true
  end.
Definition task_ok (g : graph) (t : task) : bool :=
  forallb (fun c => (c <? length g) && (rank_of (kind t) <? rank_of (kind (tk g c)))) (children t)
  && (length (children t) <=? 7)
  && (parents0 t <? 256)
  && locks_distinctb t
  && forallb (fun x => memb x (locks t)) (touches t).
Definition wf_check (g : graph) : bool :=
  forallb (task_ok g) g && list_eqb (indeg_list g) (map parents0 g).

(* ------------------------------------------------------------------ make_graph *)
Record layout := mkLayout { lnx : nat; lny : nat; lnz : nat; lpx : bool; lpy : bool; lpz : bool }.

Section MakeGraph.
  (* FX = true: the code with the fix of defect D2 (Task::set_extra_dependency stores nullptr when the extra dependency is
     the lock already held in _dependency[0]); FX = false: the pinned commit, where the pointer is stored unconditionally *)
  Variable FX : bool.
  Variable Y : layout.
  Let nx := lnx Y.  Let ny := lny Y.  Let nz := lnz Y.

  Definition nsub : nat := nx * ny * nz.
  (* DensitySubGridCreator::create_subgrid *)
  Definition pix (i : nat) : nat := i / (ny * nz).
  Definition piy (i : nat) : nat := (i - pix i * ny * nz) / nz.
  Definition piz (i : nat) : nat := i - pix i * ny * nz - piy i * nz.
  Definition pidx (x y z : nat) : nat := x * ny * nz + y * nz + z.
  (* cix = ix + 1; if periodic and cix >= n then 0; a subgrid only if 0 <= cix < n *)
  Definition c_up (n : nat) (per : bool) (c : nat) : option nat :=
    if S c <? n then Some (S c) else if per then (if 0 <? n then Some 0 else None) else None.
  Definition c_dn (n : nat) (per : bool) (c : nat) : option nat :=
    if 0 <? c then Some (c - 1) else if per then (if 0 <? n then Some (n - 1) else None) else None.
  (* get_neighbour of the six TRAVELDIRECTION_FACE directions; None = NEIGHBOUR_OUTSIDE ; d = 0..5 = x+ x- y+ y- z+ z- *)
  Definition nb (i d : nat) : option nat :=
    match d with
    | 0 => option_map (fun x => pidx x (piy i) (piz i)) (c_up nx (lpx Y) (pix i))
    | 1 => option_map (fun x => pidx x (piy i) (piz i)) (c_dn nx (lpx Y) (pix i))
    | 2 => option_map (fun y => pidx (pix i) y (piz i)) (c_up ny (lpy Y) (piy i))
    | 3 => option_map (fun y => pidx (pix i) y (piz i)) (c_dn ny (lpy Y) (piy i))
    | 4 => option_map (fun z => pidx (pix i) (piy i) z) (c_up nz (lpz Y) (piz i))
    | _ => option_map (fun z => pidx (pix i) (piy i) z) (c_dn nz (lpz Y) (piz i))
    end.

  (* make_hydro_tasks: the tasks of subgrid i in the order of creation; None = NO_TASK in that slot.
     The counters are those written by reset_hydro_tasks for the slot. *)
  Definition own_task (k : tkind) (i : nat) (p0 : nat) : task := mkTask k i None None (Some i) None [] p0.
  Definition bnd_task (k : tkind) (i d : nat) (p0 : nat) : task := mkTask k i None (Some d) (Some i) None [] p0.
  (* "avoid dining philosophers by sorting the dependencies on subgrid index" *)
  Definition pair_task (k : tkind) (i j d : nat) (p0 : nat) : task :=
    let a := if i <? j then i else j in        (* set_dependency *)
    let b := if i <? j then j else i in        (* set_extra_dependency *)
    mkTask k i (Some j) (Some d) (Some a) (if FX && (b =? a) then None else Some b) [] p0.
  (* positive direction: boundary task if outside, else pair task with the neighbour *)
  Definition pos_slot (kb kn : tkind) (i d : nat) (pb pn : nat) : option task :=
    match nb i d with
    | None => Some (bnd_task kb i d pb)
    | Some j => Some (pair_task kn i j d pn)
    end.
  (* negative direction: only for a non-periodic boundary *)
  Definition neg_slot (kb : tkind) (i d : nat) (pb : nat) : option task :=
    match nb i d with
    | None => Some (bnd_task kb i d pb)
    | Some _ => None
    end.
  Definition slot_tasks (i : nat) : list (option task) :=
    [ Some (own_task GI i 0);
      pos_slot GB GN i 0 0 0; neg_slot GB i 1 0;
      pos_slot GB GN i 2 0 0; neg_slot GB i 3 0;
      pos_slot GB GN i 4 0 0; neg_slot GB i 5 0;
      Some (own_task SL i 7);
      Some (own_task PP i 1);
      Some (own_task FI i 1);
      pos_slot FB FN i 0 1 2; neg_slot FB i 1 1;
      pos_slot FB FN i 2 1 2; neg_slot FB i 3 1;
      pos_slot FB FN i 4 1 2; neg_slot FB i 5 1;
      Some (own_task UC i 7);
      Some (own_task UP i 1) ].

  (* tasks.get_free_element() hands out consecutive indices *)
  Fixpoint number_slots (n : nat) (l : list (option task)) : list (option nat) * list task :=
    match l with
    | [] => ([], [])
    | None :: r => let '(s, ts) := number_slots n r in (None :: s, ts)
    | Some t :: r => let '(s, ts) := number_slots (S n) r in (Some n :: s, t :: ts)
    end.
  Fixpoint make_tasks (is_ : list nat) (acc : list task) (slots : list (list (option nat)))
    : list task * list (list (option nat)) :=
    match is_ with
    | [] => (acc, slots)
    | i :: r => let '(s, ts) := number_slots (length acc) (slot_tasks i) in
                make_tasks r (acc ++ ts) (slots ++ [s])
    end.

  (* set_dependencies *)
  (* NO_TASK cannot be met below when nx, ny, nz >= 1 (slot 0,1,3,5,7.. always hold a task, and a missing
     negative-side task means that the neighbour exists); the code would index out of range, the model uses 0 *)
  Definition oget (o : option nat) : nat := match o with Some x => x | None => 0 end.
  Definition ht (slots : list (list (option nat))) (i s : nat) : option nat := nth s (nth i slots []) None.
  (* get_hydro_task(neg); if NO_TASK: the positive-direction task of the neighbour on that side *)
  Definition neg_or_ngb (slots : list (list (option nat))) (i sneg spos d : nat) : nat :=
    match ht slots i sneg with
    | Some t => t
    | None => oget (ht slots (oget (nb i d)) spos)
    end.
  Definition add_child (tbl : list task) (p c : nat) : list task :=
    match nth_error tbl p with
    | None => tbl
    | Some t => upd tbl p (mkTask (kind t) (sub t) (other t) (dir t) (dep0 t) (dep1 t) (children t ++ [c]) (parents0 t))
    end.
  Definition dep_edges (slots : list (list (option nat))) (i : nat) : list (nat * nat) :=
    let h := fun s => oget (ht slots i s) in
    let igg := h 0 in let igxp := h 1 in let igxn := neg_or_ngb slots i 2 1 1 in
    let igyp := h 3 in let igyn := neg_or_ngb slots i 4 3 3 in
    let igzp := h 5 in let igzn := neg_or_ngb slots i 6 5 5 in
    let isl := h 7 in let ipp := h 8 in let iff := h 9 in
    let ifxp := h 10 in let ifxn := neg_or_ngb slots i 11 10 1 in
    let ifyp := h 12 in let ifyn := neg_or_ngb slots i 13 12 3 in
    let ifzp := h 14 in let ifzn := neg_or_ngb slots i 15 14 5 in
    let icu := h 16 in let ipu := h 17 in
    [ (igg, isl); (igxp, isl); (igxn, isl); (igyp, isl); (igyn, isl); (igzp, isl); (igzn, isl);
      (isl, ipp);
      (ipp, iff); (ipp, ifxp); (ipp, ifxn); (ipp, ifyp); (ipp, ifyn); (ipp, ifzp); (ipp, ifzn);
      (iff, icu); (ifxp, icu); (ifxn, icu); (ifyp, icu); (ifyn, icu); (ifzp, icu); (ifzn, icu);
      (icu, ipu) ].

  Definition make_table : list task * list (list (option nat)) := make_tasks (seq 0 nsub) [] [].
  Definition make_graph : graph :=
    let '(tbl, slots) := make_table in
    fold_left (fun tb i => fold_left (fun tb2 e => add_child tb2 (fst e) (snd e)) (dep_edges slots i) tb)
              (seq 0 nsub) tbl.
  Definition make_slots : list (list (option nat)) := snd make_table.
End MakeGraph.

(* a periodic axis with exactly one subgrid: the subgrid is its own neighbour (the layouts hit by defect D2) *)
Definition self_neighbour (Y : layout) : bool :=
  (lpx Y && (lnx Y =? 1)) || (lpy Y && (lny Y =? 1)) || (lpz Y && (lnz Y =? 1)).

(* enumeration used by the bounded theorem *)
Definition bools := [false; true].
Definition layouts_upto (b : nat) : list layout :=
  flat_map (fun x => flat_map (fun y => flat_map (fun z =>
    flat_map (fun px => flat_map (fun py => map (fun pz => mkLayout x y z px py pz) bools) bools) bools)
    (seq 1 b)) (seq 1 b)) (seq 1 b).
Definition check_layout (Y : layout) : bool := wf_check (make_graph true Y).
Definition check_upto (b : nat) : bool := forallb check_layout (layouts_upto b).

(* ------------------------------------------------------------------ phase ordering check *)
(* The hydro step is a chain of phases  gradient sweeps (GI GN GB) -> slope limiter (SL) -> primitive prediction (PP)
   -> flux sweeps (FI FN FB) -> conserved update (UC) -> primitive update (UP)  = rank_of 0..5.  Semantic requirement
   on the task table: per subgrid s, a task of phase k+1 that touches s is a CHILD of every task of phase k that
   touches s, and every phase has a task touching s (so that the chain of direct edges orders any two phases).
   [phases_ordered_find] returns the first offender; it is evaluated on the dumped REAL tables by props/c07.py. *)
Definition rk (g : graph) (t : nat) : nat := rank_of (kind (tk g t)).
Inductive po_offender :=
  | PoMissingEdge (t1 t2 s : nat)    (* t1, t2 touch s, rank t2 = rank t1 + 1, t2 is not a child of t1 *)
  | PoEmptyPhase (t k s : nat).      (* t touches s but no task of phase k does *)
Fixpoint first_some {A B} (f : A -> option B) (l : list A) : option B :=
  match l with
  | [] => None
  | x :: r => match f x with Some y => Some y | None => first_some f r end
  end.
Definition itasks (g : graph) : list (nat * task) := combine (seq 0 (length g)) g.
Definition touching (g : graph) (s : nat) : list (nat * task) :=
  filter (fun p => memb s (touches (snd p))) (itasks g).
Definition trank (p : nat * task) : nat := rank_of (kind (snd p)).
Definition bad_next (L : list (nat * task)) : option (nat * nat) :=
  first_some (fun p1 => first_some (fun p2 =>
    if trank p2 =? S (trank p1)
    then (if memb (fst p2) (children (snd p1)) then None else Some (fst p1, fst p2))
    else None) L) L.
Definition bad_chain (L : list (nat * task)) : option (nat * nat) :=
  match L with
  | [] => None
  | p :: _ => first_some (fun k => if existsb (fun q => trank q =? k) L then None else Some (fst p, k)) (seq 0 6)
  end.
Definition smax (g : graph) : nat := list_max (flat_map touches g).
Definition phases_ordered_find (g : graph) : option po_offender :=
  first_some (fun s =>
    let L := touching g s in
    match bad_next L with
    | Some (a, b) => Some (PoMissingEdge a b s)
    | None => match bad_chain L with
              | Some (t, k) => Some (PoEmptyPhase t k s)
              | None => None
              end
    end) (seq 0 (S (smax g))).
Definition phases_ordered_check (g : graph) : bool :=
  match phases_ordered_find g with None => true | Some _ => false end.
