(* C15  Voronoi tessellation: specification and soundness of the per-cell certificate checker. *)
From Coq Require Import QArith List Bool ZArith NArith Lia Lqa.
From CMI Require Import Cxx.C15_Defs.
Import ListNotations.
Open Scope Q_scope.

(* ---------------------------------------------------------------------------------------------------------- *)
(* specification *)
Definition peq (a b : pt) : Prop := px a == px b /\ py a == py b /\ pz a == pz b.
Definition closer (gi gk x : pt) : Prop := dist2 x gi <= dist2 x gk.
Definition strictly_closer (gi gk x : pt) : Prop := dist2 x gi < dist2 x gk.
Definition in_box (B : box) (x : pt) : Prop :=
  px (blo B) <= px x <= px (bhi B) /\ py (blo B) <= py x <= py (bhi B) /\ pz (blo B) <= pz x <= pz (bhi B).
(* the Voronoi cell of generator i inside the box *)
Definition vcell (gens : list pt) (B : box) (i : nat) (x : pt) : Prop :=
  in_box B x /\ forall k, (k < length gens)%nat -> closer (gen gens i) (gen gens k) x.
(* the polytope claimed by a neighbour list *)
Definition pcell (gens : list pt) (B : box) (i : nat) (Ni : list nat) (x : pt) : Prop :=
  in_box B x /\ forall j, In j Ni -> closer (gen gens i) (gen gens j) x.
(* bisector plane of i and k as a linear constraint a.x <= b *)
Definition bis_a (gi gk : pt) : pt := pscale 2 (psub gk gi).
Definition bis_b (gi gk : pt) : Q := n2 gk - n2 gi.
Definition on_bisector (gi gk x : pt) : Prop := dot (bis_a gi gk) x == bis_b gi gk.
Definition sat1 (c : cons) (y : pt) : Prop := dot (fst c) y <= snd c.
Definition sat (cs : list cons) (y : pt) : Prop := forall c, In c cs -> sat1 c y.
Definition lerp (t : Q) (x y : pt) : pt := padd (pscale t x) (pscale (1 - t) y).

Ltac pts := repeat match goal with p : pt |- _ => destruct p end.
Ltac unf := unfold closer, strictly_closer, on_bisector, lerp, peq, sat1 in *; unfold bis_a, bis_b, dist2 in *; unfold n2 in *; unfold dot, psub, padd, pscale in *; cbn [px py pz fst snd] in *.

Lemma sq_nn : forall a : Q, 0 <= a * a.
Proof. intros. nra. Qed.
Lemma sq_zero : forall a : Q, a * a <= 0 -> a == 0.
Proof. intros. nra. Qed.
Lemma sq3_zero : forall a b c : Q, a * a + b * b + c * c <= 0 -> a == 0 /\ b == 0 /\ c == 0.
Proof.
  intros a b c H. pose proof (sq_nn a). pose proof (sq_nn b). pose proof (sq_nn c).
  repeat split; apply sq_zero; lra.
Qed.

Ltac cb := cbn [px py pz fst snd] in *.
Ltac usat := unfold sat1, dot in *; cbn [px py pz fst snd] in *.

(* closeness is a LINEAR inequality in x *)
Lemma closer_lin : forall gi gk x, closer gi gk x <-> dot (bis_a gi gk) x <= bis_b gi gk.
Proof. intros. pts. unf. split; intro H; lra. Qed.

Lemma closer_refl : forall g x, closer g g x.
Proof. intros. unfold closer. apply Qle_refl. Qed.

Lemma closer_trans : forall a b c x, closer a b x -> closer b c x -> closer a c x.
Proof. unfold closer. intros. eapply Qle_trans; eauto. Qed.

(* every point has a nearest generator: the cells cover the box *)
Lemma nearest_exists : forall gens x, gens <> [] ->
  exists i, (i < length gens)%nat /\ forall k, (k < length gens)%nat -> closer (gen gens i) (gen gens k) x.
Proof.
  induction gens as [|g rest IH]; intros x Hne; [congruence|].
  destruct rest as [|g' rest'].
  - exists 0%nat. split; [simpl; lia|]. intros k Hk. simpl in Hk. assert (k = 0)%nat by lia. subst. apply closer_refl.
  - destruct (IH x) as [i [Hi Hmin]]; [discriminate|].
    destruct (Qlt_le_dec (dist2 x (gen (g' :: rest') i)) (dist2 x g)) as [Hlt|Hle].
    + exists (S i). split; [simpl in *; lia|]. intros k Hk. destruct k as [|k].
      * unfold gen; simpl. unfold closer. apply Qlt_le_weak. exact Hlt.
      * unfold gen; simpl. apply Hmin. simpl in *. lia.
    + exists 0%nat. split; [simpl; lia|]. intros k Hk. destruct k as [|k].
      * apply closer_refl.
      * unfold gen; simpl. apply closer_trans with (b := gen (g' :: rest') i).
        -- exact Hle.
        -- apply Hmin. simpl in *. lia.
Qed.

Theorem cells_cover_box : forall gens B x, gens <> [] -> in_box B x -> exists i, (i < length gens)%nat /\ vcell gens B i x.
Proof. intros gens B x Hne Hb. destruct (nearest_exists gens x Hne) as [i [Hi H]]. exists i. split; [exact Hi|]. split; assumption. Qed.

(* two cells meet only on their bisector plane *)
Theorem cells_overlap_on_bisector : forall gens B i j x, (i < length gens)%nat -> (j < length gens)%nat ->
  vcell gens B i x -> vcell gens B j x -> on_bisector (gen gens i) (gen gens j) x.
Proof.
  intros gens B i j x Hi Hj [_ H1] [_ H2]. specialize (H1 j Hj). specialize (H2 i Hi).
  unfold closer in H1, H2. revert H1 H2. generalize (gen gens i) (gen gens j). intros [a1 a2 a3] [b1 b2 b3] H1 H2.
  destruct x as [x1 x2 x3]. unf. lra.
Qed.

(* ... hence the interiors are disjoint: a point strictly closer to i than to j is not in cell j *)
Theorem cell_interiors_disjoint : forall gens B i j x, (i < length gens)%nat ->
  strictly_closer (gen gens i) (gen gens j) x -> ~ vcell gens B j x.
Proof. intros gens B i j x Hi Hs [_ H]. specialize (H i Hi). unfold closer, strictly_closer in *. apply (Qlt_not_le _ _ Hs H). Qed.

(* each generator lies in its own cell and, if the generators are distinct, in no other cell *)
Theorem generator_in_own_cell : forall gens B i, in_box B (gen gens i) -> vcell gens B i (gen gens i).
Proof.
  intros gens B i Hb. split; [exact Hb|]. intros k _. generalize (gen gens i) (gen gens k). intros [a1 a2 a3] [b1 b2 b3]. unf.
  pose proof (sq_nn (a1 - b1)). pose proof (sq_nn (a2 - b2)). pose proof (sq_nn (a3 - b3)). lra.
Qed.

Lemma n2_zero : forall v, n2 v <= 0 -> peq v origin.
Proof. intros v H. pts. unf. simpl. apply sq3_zero in H. exact H. Qed.

Theorem generator_not_in_other_cell : forall gens B i k, ~ peq (gen gens i) (gen gens k) -> (i < length gens)%nat -> ~ vcell gens B k (gen gens i).
Proof.
  intros gens B i k Hne Hi [_ H]. specialize (H i Hi). apply Hne. revert H. generalize (gen gens i) (gen gens k). intros [a1 a2 a3] [b1 b2 b3] H.
  unf.
  assert (H0 : (a1 - b1) * (a1 - b1) + (a2 - b2) * (a2 - b2) + (a3 - b3) * (a3 - b3) <= 0) by lra.
  apply sq3_zero in H0. destruct H0 as [? [? ?]]. repeat split; lra.
Qed.

(* cells are convex *)
Lemma lerp_le : forall t u v b : Q, 0 <= t <= 1 -> u <= b -> v <= b -> t * u + (1 - t) * v <= b.
Proof.
  intros t u v b [H0 H1] Hu Hv.
  assert (A : 0 <= t * (b - u)) by (apply Qmult_le_0_compat; lra).
  assert (C : 0 <= (1 - t) * (b - v)) by (apply Qmult_le_0_compat; lra).
  lra.
Qed.
Lemma lerp_ge : forall t u v b : Q, 0 <= t <= 1 -> b <= u -> b <= v -> b <= t * u + (1 - t) * v.
Proof.
  intros t u v b [H0 H1] Hu Hv.
  assert (A : 0 <= t * (u - b)) by (apply Qmult_le_0_compat; lra).
  assert (C : 0 <= (1 - t) * (v - b)) by (apply Qmult_le_0_compat; lra).
  lra.
Qed.

Lemma in_box_convex : forall B x y t, 0 <= t <= 1 -> in_box B x -> in_box B y -> in_box B (lerp t x y).
Proof.
  intros [lo hi] x y t Ht Hx Hy. unfold in_box in *. pts. unf. simpl in *.
  repeat split; first [apply lerp_ge; [exact Ht|lra|lra] | apply lerp_le; [exact Ht|lra|lra]].
Qed.

Lemma halfspace_convex : forall a b x y t, 0 <= t <= 1 -> dot a x <= b -> dot a y <= b -> dot a (lerp t x y) <= b.
Proof.
  intros [a1 a2 a3] b [x1 x2 x3] [y1 y2 y3] t Ht Hx Hy. unf.
  pose proof (lerp_le t _ _ b Ht Hx Hy) as H.
  match goal with |- ?l <= _ => match type of H with ?r <= _ => assert (E : l == r) by ring; rewrite E; exact H end end.
Qed.

Theorem cell_convex : forall gens B i x y t, 0 <= t <= 1 -> vcell gens B i x -> vcell gens B i y -> vcell gens B i (lerp t x y).
Proof.
  intros gens B i x y t Ht [Hbx Hx] [Hby Hy]. split; [apply in_box_convex; assumption|].
  intros k Hk. apply (proj2 (closer_lin _ _ _)). apply halfspace_convex; [assumption| |]; apply (proj1 (closer_lin _ _ _)); auto.
Qed.

(* the common face of i and j is the same set seen from either side, lies in one plane, and that plane's normal
   seen from j is the opposite of the normal seen from i *)
Theorem face_same_from_both_sides : forall gens B i j x, (vcell gens B i x /\ vcell gens B j x) <-> (vcell gens B j x /\ vcell gens B i x).
Proof. tauto. Qed.

Theorem face_normals_opposite : forall gi gj, peq (bis_a gj gi) (pscale (-1) (bis_a gi gj)) /\ bis_b gj gi == - bis_b gi gj.
Proof. intros. pts. unf. repeat split; lra. Qed.

Theorem face_plane_symmetric : forall gi gj x, on_bisector gi gj x <-> on_bisector gj gi x.
Proof. intros. pts. unf. split; intro; lra. Qed.

(* ---------------------------------------------------------------------------------------------------------- *)
(* nearest-generator lookups *)
Lemma closerb_iff : forall gi gk x, closerb gi gk x = true <-> closer gi gk x.
Proof. intros. unfold closerb, closer. apply Qle_bool_iff. Qed.

Lemma In_nth_gen : forall gens g, In g gens -> exists k, (k < length gens)%nat /\ gen gens k = g.
Proof. intros gens g H. destruct (In_nth _ _ origin H) as [k [Hk E]]. exists k. split; assumption. Qed.

Theorem nearest_check_iff : forall gens i x,
  nearest_check gens i x = true <-> (forall k, (k < length gens)%nat -> closer (gen gens i) (gen gens k) x).
Proof.
  intros. unfold nearest_check. rewrite forallb_forall. split.
  - intros H k Hk. apply (proj1 (closerb_iff _ _ _)). apply H. unfold gen. apply nth_In. exact Hk.
  - intros H g Hg. apply (proj2 (closerb_iff _ _ _)). destruct (In_nth_gen _ _ Hg) as [k [Hk E]]. rewrite <- E. apply H. exact Hk.
Qed.

Theorem nearest_check_in_cell : forall gens B i x, in_box B x -> (nearest_check gens i x = true <-> vcell gens B i x).
Proof. intros. rewrite nearest_check_iff. unfold vcell. tauto. Qed.

Theorem nearest_check_slack_iff : forall er ea gens i x,
  nearest_check_slack er ea gens i x = true <->
  (forall k, (k < length gens)%nat -> dist2 x (gen gens i) <= (1 + er) * dist2 x (gen gens k) + ea).
Proof.
  intros. unfold nearest_check_slack. rewrite forallb_forall. split.
  - intros H k Hk. apply Qle_bool_iff. apply H. unfold gen. apply nth_In. exact Hk.
  - intros H g Hg. apply Qle_bool_iff. destruct (In_nth_gen _ _ Hg) as [k [Hk E]]. rewrite <- E. apply H. exact Hk.
Qed.

Theorem nearest_check_slack_zero : forall gens i x, nearest_check_slack 0 0 gens i x = true <-> nearest_check gens i x = true.
Proof.
  intros. rewrite nearest_check_slack_iff, nearest_check_iff. unfold closer.
  split; intros H k Hk; specialize (H k Hk); lra.
Qed.

(* ---------------------------------------------------------------------------------------------------------- *)
(* Farkas certificates *)
Lemma peqb_peq : forall a b, peqb a b = true -> peq a b.
Proof.
  intros a b H. unfold peqb in H. apply andb_prop in H. destruct H as [H H3]. apply andb_prop in H. destruct H as [H1 H2].
  apply Qeq_bool_iff in H1. apply Qeq_bool_iff in H2. apply Qeq_bool_iff in H3. repeat split; assumption.
Qed.

Lemma dot_peq : forall a b y, peq a b -> dot a y == dot b y.
Proof. intros a b y [H1 [H2 H3]]. unfold dot. rewrite H1, H2, H3. reflexivity. Qed.

Lemma sat_nth : forall cs y i, sat cs y -> sat1 (nth i cs cons0) y.
Proof.
  intros cs y i H. destruct (Nat.lt_ge_cases i (length cs)) as [Hlt|Hge].
  - apply H. apply nth_In. exact Hlt.
  - rewrite nth_overflow by exact Hge. unfold sat1, cons0, dot, origin. simpl. lra.
Qed.

Lemma comb_sound : forall cs y ct, sat cs y -> cert_nonneg ct = true -> sat1 (comb cs ct) y.
Proof.
  intros cs y ct Hs. induction ct as [|[i l] r IH]; intro Hn.
  - unfold sat1, comb, cons0, dot, origin. simpl. lra.
  - simpl in Hn. apply andb_prop in Hn. destruct Hn as [Hl Hr]. apply Qle_bool_iff in Hl. simpl in Hl.
    specialize (IH Hr). pose proof (sat_nth cs y i Hs) as Hi.
    cbn [comb]. revert IH Hi. generalize (comb cs r) (nth i cs cons0). intros [sa sb] [ca cb]. unfold sat1. cbn [fst snd].
    intros IH Hi. destruct sa as [s1 s2 s3], ca as [c1 c2 c3], y as [y1 y2 y3]. unf.
    assert (A : 0 <= l * (cb - (c1 * y1 + c2 * y2 + c3 * y3))) by (apply Qmult_le_0_compat; lra).
    lra.
Qed.

Theorem farkas_sound : forall cs ct t y, farkas_check cs ct t = true -> sat cs y -> sat1 t y.
Proof.
  intros cs [D ct] [tc td] y H Hs. unfold farkas_check in H. cbn [fst snd] in H.
  apply andb_prop in H. destruct H as [H Hb]. apply andb_prop in H. destruct H as [H He]. apply andb_prop in H. destruct H as [HD Hn].
  apply Qle_bool_iff in Hb. apply peqb_peq in He. pose proof (comb_sound cs y ct Hs Hn) as Hc. unfold sat1 in *. cbn [fst snd] in *.
  assert (HD' : 0 < D).
  { destruct (Qlt_le_dec 0 D) as [G|G]; [exact G|]. apply Qle_bool_iff in G. rewrite G in HD. discriminate. }
  rewrite (dot_peq _ _ y He) in Hc.
  assert (E : dot (pscale D tc) y == D * dot tc y) by (destruct tc as [t1 t2 t3], y as [y1 y2 y3]; unfold dot, pscale; cb; ring).
  rewrite E in Hc.
  assert (F : D * dot tc y <= D * td) by (eapply Qle_trans; eassumption).
  destruct (Qlt_le_dec td (dot tc y)) as [G|G]; [|exact G]. exfalso.
  assert (K : 0 < D * (dot tc y - td)) by (apply Qmult_lt_0_compat; lra). lra.
Qed.

(* ---------------------------------------------------------------------------------------------------------- *)
(* the cell checker *)
Lemma rel_cons_closer : forall gi gk x, closer gi gk x <-> sat1 (rel_cons gi gk) (psub x gi).
Proof. intros. unfold rel_cons. pts. unf. split; intro H; lra. Qed.

Lemma wall_cons_sat : forall B gi x, in_box B x -> sat (wall_cons B gi) (psub x gi).
Proof.
  intros [lo hi] gi x Hb c Hc. unfold in_box in Hb. simpl in Hb. unfold wall_cons in Hc. simpl in Hc.
  pts. unf. simpl in *.
  repeat (destruct Hc as [Hc|Hc]; [subst c; usat; lra|]). contradiction.
Qed.

Lemma cell_cons_sat : forall gens B i Ni x, pcell gens B i Ni x -> sat (cell_cons gens B i Ni) (psub x (gen gens i)).
Proof.
  intros gens B i Ni x [Hb Hn] c Hc. unfold cell_cons in Hc. apply in_app_or in Hc. destruct Hc as [Hc|Hc].
  - apply (wall_cons_sat B (gen gens i) x Hb c Hc).
  - apply in_map_iff in Hc. destruct Hc as [j [E Hj]]. subst c. apply (proj1 (rel_cons_closer _ _ _)). apply Hn. exact Hj.
Qed.

Lemma sel_ub : forall a lo hi y, lo <= y <= hi -> a * y <= sel a lo hi.
Proof.
  intros a lo hi y [H1 H2]. unfold sel. destruct (Qle_bool 0 a) eqn:E.
  - apply Qle_bool_iff in E. assert (A : 0 <= a * (hi - y)) by (apply Qmult_le_0_compat; lra). lra.
  - assert (Ha : a <= 0). { destruct (Qlt_le_dec 0 a) as [G|G]; [|exact G]. apply Qlt_le_weak in G. apply Qle_bool_iff in G. congruence. }
    assert (A : 0 <= (- a) * (y - lo)) by (apply Qmult_le_0_compat; lra). lra.
Qed.

Lemma bb_implies_sound : forall lo hi t y,
  px lo <= px y <= px hi -> py lo <= py y <= py hi -> pz lo <= pz y <= pz hi -> bb_implies lo hi t = true -> sat1 t y.
Proof.
  intros lo hi [a b] y Hx Hy Hz H. unfold bb_implies in H. apply Qle_bool_iff in H. cbn [fst snd] in H.
  pose proof (sel_ub (px a) _ _ _ Hx). pose proof (sel_ub (py a) _ _ _ Hy). pose proof (sel_ub (pz a) _ _ _ Hz).
  unfold sat1, dot. cbn [fst snd]. lra.
Qed.

Lemma all2_In : forall (S T : Type) (f : S -> T -> bool) l1 l2 b, all2 f l1 l2 = true -> In b l2 -> exists a, In a l1 /\ f a b = true.
Proof.
  induction l1 as [|a r1 IH]; intros l2 b H Hin; destruct l2 as [|b' r2]; try discriminate; [contradiction|].
  simpl in H. apply andb_prop in H. destruct H as [H1 H2]. destruct Hin as [E|Hin].
  - subst. exists a. split; [left; reflexivity|exact H1].
  - destruct (IH _ _ H2 Hin) as [a' [Ha Hf]]. exists a'. split; [right; exact Ha|exact Hf].
Qed.

Lemma bb_ok_sat : forall cs cc y, bb_ok cs cc = true -> sat cs y -> sat (bb_cons cc) y.
Proof.
  intros cs cc y H Hs c Hc. unfold bb_ok in H. destruct (all2_In _ _ _ _ _ c H Hc) as [ct [_ Hf]].
  eapply farkas_sound; eassumption.
Qed.

Lemma bb_ok_sound : forall cs cc y, bb_ok cs cc = true -> sat cs y ->
  px (cc_lo cc) <= px y <= px (cc_hi cc) /\ py (cc_lo cc) <= py y <= py (cc_hi cc) /\ pz (cc_lo cc) <= pz y <= pz (cc_hi cc).
Proof.
  intros cs cc y H Hs. pose proof (bb_ok_sat cs cc y H Hs) as Hb. unfold bb_cons in Hb.
  assert (H1 := Hb _ (or_introl eq_refl)).
  assert (H2 := Hb _ (or_intror (or_introl eq_refl))).
  assert (H3 := Hb _ (or_intror (or_intror (or_introl eq_refl)))).
  assert (H4 := Hb _ (or_intror (or_intror (or_intror (or_introl eq_refl))))).
  assert (H5 := Hb _ (or_intror (or_intror (or_intror (or_intror (or_introl eq_refl)))))).
  assert (H6 := Hb _ (or_intror (or_intror (or_intror (or_intror (or_intror (or_introl eq_refl))))))).
  clear Hb. destruct y as [y1 y2 y3]. usat. repeat split; lra.
Qed.

Lemma sat_app : forall cs1 cs2 y, sat cs1 y -> sat cs2 y -> sat (cs1 ++ cs2) y.
Proof. intros cs1 cs2 y H1 H2 c Hc. apply in_app_or in Hc. destruct Hc; auto. Qed.

Lemma all2_nth : forall (S T : Type) (f : S -> T -> bool) l1 l2 k d1 d2,
  all2 f l1 l2 = true -> (k < length l1)%nat -> f (nth k l1 d1) (nth k l2 d2) = true.
Proof.
  induction l1 as [|a r1 IH]; intros l2 k d1 d2 H Hk; [simpl in Hk; lia|].
  destruct l2 as [|b r2]; [discriminate|]. simpl in H. apply andb_prop in H. destruct H as [H1 H2].
  destruct k; [exact H1|]. simpl. apply IH; [exact H2|simpl in Hk; lia].
Qed.

Lemma rel_cons_eps_closer : forall eps gi gk x,
  sat1 (rel_cons_eps eps gi gk) (psub x gi) <-> dist2 x gi <= dist2 x gk + eps * dist2 gk gi.
Proof. intros. unfold rel_cons_eps. pts. unf. split; intro H; lra. Qed.

(* SOUNDNESS with slack: every point of the claimed polytope is closer to g_i than to every generator up to eps |g_k-g_i|^2 *)
Theorem check_cell_eps_sound : forall eps gens B i Ni cc, check_cell_eps eps gens B i Ni cc = true ->
  forall x, in_box B x -> (forall j, In j Ni -> closer (gen gens i) (gen gens j) x) ->
  forall k, (k < length gens)%nat -> dist2 x (gen gens i) <= dist2 x (gen gens k) + eps * dist2 (gen gens k) (gen gens i).
Proof.
  intros eps gens B i Ni cc H x Hb Hn k Hk. unfold check_cell_eps in H. apply andb_prop in H. destruct H as [H Hall].
  apply andb_prop in H. destruct H as [_ Hbb].
  pose proof (cell_cons_sat gens B i Ni x (conj Hb Hn)) as Hs.
  destruct (bb_ok_sound _ _ _ Hbb Hs) as [Hx [Hy Hz]].
  pose proof (sat_app _ _ _ Hs (bb_ok_sat _ _ _ Hbb Hs)) as Hs2.
  pose proof (all2_nth _ _ _ _ _ k origin None Hall Hk) as Hkk. fold (gen gens k) in Hkk.
  apply (proj1 (rel_cons_eps_closer _ _ _ _)). unfold k_ok in Hkk. apply orb_prop in Hkk. destruct Hkk as [Hkk|Hkk].
  - eapply bb_implies_sound; eassumption.
  - destruct (nth k (cc_k cc) None) as [ct|]; [|discriminate]. eapply farkas_sound; eassumption.
Qed.

(* SOUNDNESS (exact, eps = 0): if the checker accepts, every point of the box that is closer to g_i than to the listed
   neighbours is closer to g_i than to EVERY generator: the reported neighbour list defines exactly the Voronoi cell *)
Theorem check_cell_sound : forall gens B i Ni cc, check_cell gens B i Ni cc = true ->
  forall x, in_box B x -> (forall j, In j Ni -> closer (gen gens i) (gen gens j) x) ->
  forall k, (k < length gens)%nat -> closer (gen gens i) (gen gens k) x.
Proof.
  intros gens B i Ni cc H x Hb Hn k Hk. pose proof (check_cell_eps_sound 0 gens B i Ni cc H x Hb Hn k Hk) as H0.
  unfold closer. lra.
Qed.

Theorem check_cell_pcell_is_vcell : forall gens B i Ni cc, check_cell gens B i Ni cc = true ->
  forall x, pcell gens B i Ni x <-> (vcell gens B i x /\ forall j, In j Ni -> closer (gen gens i) (gen gens j) x).
Proof.
  intros gens B i Ni cc H x. split.
  - intros [Hb Hn]. split; [split; [exact Hb|]|exact Hn]. intros k Hk. eapply check_cell_sound; eassumption.
  - intros [[Hb _] Hn]. split; assumption.
Qed.

(* the converse inclusion needs no certificate: the Voronoi cell is inside the polytope of any list of valid indices *)
Theorem vcell_in_pcell : forall gens B i Ni x, (forall j, In j Ni -> (j < length gens)%nat) -> vcell gens B i x -> pcell gens B i Ni x.
Proof. intros gens B i Ni x Hr [Hb H]. split; [exact Hb|]. intros j Hj. apply H. apply Hr. exact Hj. Qed.

Theorem check_cell_exact : forall gens B i Ni cc, (forall j, In j Ni -> (j < length gens)%nat) -> check_cell gens B i Ni cc = true ->
  forall x, pcell gens B i Ni x <-> vcell gens B i x.
Proof.
  intros gens B i Ni cc Hr H x. split.
  - intros [Hb Hn]. split; [exact Hb|]. intros k Hk. eapply check_cell_sound; eassumption.
  - apply vcell_in_pcell. exact Hr.
Qed.

(* a witness refutes the neighbour list: no certificate can exist *)
Lemma in_boxb_iff : forall B x, in_boxb B x = true <-> in_box B x.
Proof.
  intros. unfold in_boxb, in_box. rewrite !andb_true_iff. rewrite !Qle_bool_iff. tauto.
Qed.

Theorem witness_check_sound : forall gens B i Ni k x, witness_check gens B i Ni k x = true ->
  pcell gens B i Ni x /\ strictly_closer (gen gens k) (gen gens i) x.
Proof.
  intros gens B i Ni k x H. unfold witness_check in H. apply andb_prop in H. destruct H as [H H3]. apply andb_prop in H. destruct H as [H1 H2].
  apply in_boxb_iff in H1. rewrite forallb_forall in H2. split; [split; [exact H1|]|].
  - intros j Hj. apply (proj1 (closerb_iff _ _ _)). apply H2. exact Hj.
  - apply negb_true_iff in H3. unfold strictly_closer. unfold closerb in H3.
    destruct (Qlt_le_dec (dist2 x (gen gens k)) (dist2 x (gen gens i))) as [Hl|Hl]; [exact Hl|]. apply Qle_bool_iff in Hl. congruence.
Qed.

Theorem witness_refutes_cell : forall gens B i Ni k x cc, (k < length gens)%nat ->
  witness_check gens B i Ni k x = true -> check_cell gens B i Ni cc = false.
Proof.
  intros gens B i Ni k x cc Hk Hw. destruct (check_cell gens B i Ni cc) eqn:E; [|reflexivity]. exfalso.
  destruct (witness_check_sound _ _ _ _ _ _ Hw) as [[Hb Hn] Hs].
  pose proof (check_cell_sound _ _ _ _ _ E x Hb Hn k Hk) as Hc. unfold closer, strictly_closer in *. apply (Qlt_not_le _ _ Hs Hc).
Qed.

(* ---------------------------------------------------------------------------------------------------------- *)
(* neighbour symmetry oracle *)
Definition faces_symmetric (F : list flist) : Prop :=
  forall i j, (i < length F)%nat -> In (j, true) (nth i F []) -> exists b, In (N.of_nat i, b) (faces_of F j).

Lemma has_ngb_iff : forall l i, has_ngb l i = true <-> exists b, In (i, b) l.
Proof.
  intros. unfold has_ngb. rewrite existsb_exists. split.
  - intros [[j b] [Hin He]]. simpl in He. apply N.eqb_eq in He. subst. exists b. exact Hin.
  - intros [b Hin]. exists (i, b). split; [exact Hin|]. simpl. apply N.eqb_refl.
Qed.

Lemma sym_from_iff : forall F rest i0,
  sym_from F (N.of_nat i0) rest = true <->
  (forall i j, (i < length rest)%nat -> In (j, true) (nth i rest []) -> exists b, In (N.of_nat (i0 + i), b) (faces_of F j)).
Proof.
  induction rest as [|l r IH]; intros i0.
  - simpl. split; [intros _ i j Hi; lia|reflexivity].
  - cbn [sym_from]. rewrite andb_true_iff, forallb_forall. rewrite <- Nat2N.inj_succ. rewrite IH. split.
    + intros [Hl Hr] i j Hi Hin. destruct i as [|i].
      * simpl in Hin. specialize (Hl _ Hin). simpl in Hl. apply has_ngb_iff in Hl. rewrite Nat.add_0_r. exact Hl.
      * simpl in Hin. simpl in Hi. replace (i0 + S i)%nat with (S i0 + i)%nat by lia. apply Hr; [lia|exact Hin].
    + intros H. split.
      * intros [j b] Hin. destruct b; [|reflexivity]. simpl. apply has_ngb_iff. specialize (H 0%nat j). rewrite Nat.add_0_r in H. apply H; [simpl; lia|exact Hin].
      * intros i j Hi Hin. replace (S i0 + i)%nat with (i0 + S i)%nat by lia. apply H; [simpl; lia|exact Hin].
Qed.

Theorem neighbour_symmetric_check_iff : forall F, neighbour_symmetric_check F = true <-> faces_symmetric F.
Proof. intros. unfold neighbour_symmetric_check, faces_symmetric. change 0%N with (N.of_nat 0). rewrite sym_from_iff. simpl. tauto. Qed.

(* ---------------------------------------------------------------------------------------------------------- *)
(* the hypotheses are satisfiable: concrete instances decided by computation (certificates produced by the untrusted
   finder of props/c15.py) *)
Definition ex4_gens : list pt := [mkpt 3 4 5; mkpt 12 5 4; mkpt 5 12 6; mkpt 6 5 13].
Definition ex4_box : box := mkbox (mkpt 0 0 0) (mkpt 16 16 16).
Definition ex4_cc0 : cellcert :=
  mkcc (mkpt (-3) (-4) (-5)) (mkpt 6 6 7)
    [(150, [(3%nat, 18); (6%nat, 8); (8%nat, 1)]);
     (1, [(1%nat, 1)]);
     (16, [(1%nat, 4); (5%nat, 2); (7%nat, 1)]);
     (1, [(3%nat, 1)]);
     (16, [(1%nat, 6); (3%nat, 2); (8%nat, 1)]);
     (1, [(5%nat, 1)])]
    [None;
     Some (1, [(6%nat, 1)]);
     Some (1, [(7%nat, 1)]);
     Some (1, [(8%nat, 1)])].
Example ex4_check_cell0 : check_cell ex4_gens ex4_box 0 [1%nat; 2%nat; 3%nat] ex4_cc0 = true.
Proof. vm_compute. reflexivity. Qed.
Definition ex4_cc1 : cellcert :=
  mkcc (mkpt (-6) (-5) (-4)) (mkpt 4 11 10)
    [(1, [(0%nat, 1)]);
     (140, [(5%nat, 18); (6%nat, 7); (7%nat, 1)]);
     (1, [(2%nat, 1)]);
     (1, [(3%nat, 1)]);
     (18, [(0%nat, 12); (8%nat, 1)]);
     (1, [(5%nat, 1)])]
    [Some (1, [(6%nat, 1)]);
     None;
     Some (1, [(7%nat, 1)]);
     Some (1, [(8%nat, 1)])].
Example ex4_check_cell1 : check_cell ex4_gens ex4_box 1 [0%nat; 2%nat; 3%nat] ex4_cc1 = true.
Proof. vm_compute. reflexivity. Qed.
Definition ex4_cc2 : cellcert :=
  mkcc (mkpt (-5) (-6) (-6)) (mkpt 11 4 10)
    [(1, [(0%nat, 1)]);
     (1, [(1%nat, 1)]);
     (1, [(2%nat, 1)]);
     (1152, [(6%nat, 51); (7%nat, 13); (8%nat, 11)]);
     (1, [(4%nat, 1)]);
     (1, [(5%nat, 1)])]
    [Some (1, [(6%nat, 1)]);
     Some (1, [(7%nat, 1)]);
     None;
     Some (1, [(8%nat, 1)])].
Example ex4_check_cell2 : check_cell ex4_gens ex4_box 2 [0%nat; 1%nat; 3%nat] ex4_cc2 = true.
Proof. vm_compute. reflexivity. Qed.
Definition ex4_cc3 : cellcert :=
  mkcc (mkpt (-6) (-5) (-6)) (mkpt 10 11 3)
    [(1, [(0%nat, 1)]);
     (1, [(1%nat, 1)]);
     (1, [(2%nat, 1)]);
     (1, [(3%nat, 1)]);
     (1, [(4%nat, 1)]);
     (576, [(6%nat, 21); (7%nat, 11); (8%nat, 3)])]
    [Some (1, [(6%nat, 1)]);
     Some (1, [(7%nat, 1)]);
     Some (1, [(8%nat, 1)]);
     None].
Example ex4_check_cell3 : check_cell ex4_gens ex4_box 3 [0%nat; 1%nat; 2%nat] ex4_cc3 = true.
Proof. vm_compute. reflexivity. Qed.
(* dropping neighbour 3 from the list of cell 0: a point of the claimed polytope is strictly closer to generator 3 *)
Example ex4_witness : witness_check ex4_gens ex4_box 0 [1%nat; 2%nat] 3 (mkpt (1213 # 140) (773 # 140) 16) = true.
Proof. vm_compute. reflexivity. Qed.
(* seven generators: most pairs are NOT neighbours; their bisector half-spaces are covered by explicit certificates or the bounding box *)
Definition ex7_gens : list pt := [mkpt 3 11 26; mkpt 2 28 29; mkpt 10 17 21; mkpt 25 30 14; mkpt 24 27 15; mkpt 14 25 27; mkpt 20 16 6].
Definition ex7_box : box := mkbox (mkpt 0 0 0) (mkpt 32 32 32).
Definition ex7_cc0 : cellcert :=
  mkcc (mkpt (-3) (-11) (-24)) (mkpt 22 10 6)
    [(14, [(3%nat, 12); (4%nat, 10); (7%nat, 1)]);
     (1, [(1%nat, 1)]);
     (206, [(1%nat, 32); (6%nat, 5); (7%nat, 3)]);
     (1, [(3%nat, 1)]);
     (1, [(4%nat, 1)]);
     (40, [(1%nat, 34); (3%nat, 10); (9%nat, 1)])]
    [None;
     Some (1, [(6%nat, 1)]);
     Some (1, [(7%nat, 1)]);
     Some (16384, [(4%nat, 112640);
     (7%nat, 50688);
     (8%nat, 512)]);
     Some (16384, [(3%nat, 65536);
     (4%nat, 131072);
     (7%nat, 49152)]);
     Some (1, [(8%nat, 1)]);
     Some (1, [(9%nat, 1)])].
Example ex7_check_cell0 : check_cell ex7_gens ex7_box 0 [1%nat; 2%nat; 5%nat; 6%nat] ex7_cc0 = true.
Proof. vm_compute. reflexivity. Qed.
Definition ex7_cc1 : cellcert :=
  mkcc (mkpt (-2) (-10) (-24)) (mkpt 9 4 3)
    [(24, [(2%nat, 6); (4%nat, 4); (8%nat, 1)]);
     (1, [(1%nat, 1)]);
     (1, [(2%nat, 1)]);
     (34, [(1%nat, 2); (4%nat, 6); (6%nat, 1)]);
     (1, [(4%nat, 1)]);
     (16, [(1%nat, 16); (2%nat, 22); (7%nat, 1)])]
    [Some (1, [(6%nat, 1)]);
     None;
     Some (1, [(7%nat, 1)]);
     Some (16384, [(2%nat, 747929);
     (7%nat, 27443);
     (8%nat, 13107);
     (9%nat, 8);
     (12%nat, 5);
     (14%nat, 4)]);
     Some (16384, [(2%nat, 604569);
     (7%nat, 25395);
     (8%nat, 13107);
     (9%nat, 8);
     (12%nat, 5);
     (14%nat, 4)]);
     Some (1, [(8%nat, 1)]);
     Some (16384, [(1%nat, 163840);
     (2%nat, 643072);
     (7%nat, 47104)])].
Example ex7_check_cell1 : check_cell ex7_gens ex7_box 1 [0%nat; 2%nat; 5%nat] ex7_cc1 = true.
Proof. vm_compute. reflexivity. Qed.
Definition ex7_cc2 : cellcert :=
  mkcc (mkpt (-10) (-17) (-19)) (mkpt 22 15 11)
    [(1, [(0%nat, 1)]);
     (1, [(1%nat, 1)]);
     (1, [(2%nat, 1)]);
     (1, [(3%nat, 1)]);
     (1, [(4%nat, 1)]);
     (30, [(1%nat, 20); (2%nat, 2); (10%nat, 1)])]
    [Some (1, [(6%nat, 1)]);
     Some (1, [(7%nat, 1)]);
     None;
     Some (16384, [(2%nat, 89128);
     (8%nat, 16930);
     (10%nat, 873);
     (11%nat, 20);
     (13%nat, 2);
     (16%nat, 26)]);
     Some (1, [(8%nat, 1)]);
     Some (1, [(9%nat, 1)]);
     Some (1, [(10%nat, 1)])].
Example ex7_check_cell2 : check_cell ex7_gens ex7_box 2 [0%nat; 1%nat; 4%nat; 5%nat; 6%nat] ex7_cc2 = true.
Proof. vm_compute. reflexivity. Qed.
Definition ex7_cc3 : cellcert :=
  mkcc (mkpt (-21) (-8) (-14)) (mkpt 7 2 18)
    [(1, [(0%nat, 1)]);
     (26, [(2%nat, 76); (6%nat, 8); (7%nat, 1)]);
     (1, [(2%nat, 1)]);
     (76, [(0%nat, 26); (6%nat, 8); (7%nat, 1)]);
     (1, [(4%nat, 1)]);
     (1, [(5%nat, 1)])]
    [Some (16384, [(2%nat, 1514889);
     (6%nat, 297432);
     (7%nat, 12603);
     (9%nat, 2);
     (11%nat, 5)]);
     Some (16384, [(2%nat, 2175291);
     (6%nat, 326419);
     (7%nat, 10082);
     (9%nat, 6);
     (11%nat, 17);
     (13%nat, 6)]);
     Some (16384, [(2%nat, 1028411);
     (6%nat, 195347);
     (7%nat, 10082);
     (9%nat, 6);
     (11%nat, 17);
     (13%nat, 6)]);
     None;
     Some (1, [(6%nat, 1)]);
     Some (16384, [(2%nat, 917504);
     (4%nat, 65536);
     (6%nat, 180224)]);
     Some (1, [(7%nat, 1)])].
Example ex7_check_cell3 : check_cell ex7_gens ex7_box 3 [4%nat; 6%nat] ex7_cc3 = true.
Proof. vm_compute. reflexivity. Qed.
Definition ex7_cc4 : cellcert :=
  mkcc (mkpt (-20) (-22) (-11)) (mkpt 8 5 17)
    [(1, [(0%nat, 1)]);
     (100, [(2%nat, 104); (6%nat, 3); (9%nat, 2)]);
     (1, [(2%nat, 1)]);
     (104, [(0%nat, 100); (6%nat, 3); (9%nat, 2)]);
     (1, [(4%nat, 1)]);
     (76, [(0%nat, 2); (7%nat, 11); (9%nat, 3)])]
    [Some (16384, [(0%nat, 76458);
     (6%nat, 25789);
     (8%nat, 2123);
     (11%nat, 34);
     (13%nat, 16);
     (14%nat, 28)]);
     Some (16384, [(2%nat, 447829);
     (6%nat, 18811);
     (8%nat, 9709);
     (11%nat, 8);
     (13%nat, 5);
     (14%nat, 4)]);
     Some (1, [(6%nat, 1)]);
     Some (1, [(7%nat, 1)]);
     None;
     Some (1, [(8%nat, 1)]);
     Some (1, [(9%nat, 1)])].
Example ex7_check_cell4 : check_cell ex7_gens ex7_box 4 [2%nat; 3%nat; 5%nat; 6%nat] ex7_cc4 = true.
Proof. vm_compute. reflexivity. Qed.
Definition ex7_cc5 : cellcert :=
  mkcc (mkpt (-8) (-20) (-15)) (mkpt 18 7 5)
    [(1, [(0%nat, 1)]);
     (2068, [(6%nat, 2); (7%nat, 76); (8%nat, 25)]);
     (1, [(2%nat, 1)]);
     (16, [(0%nat, 8); (4%nat, 12); (8%nat, 1)]);
     (1, [(4%nat, 1)]);
     (108, [(2%nat, 72); (8%nat, 5); (9%nat, 2)])]
    [Some (1, [(6%nat, 1)]);
     Some (1, [(7%nat, 1)]);
     Some (1, [(8%nat, 1)]);
     Some (16384, [(2%nat, 91750);
     (4%nat, 6553);
     (9%nat, 18022);
     (10%nat, 8);
     (12%nat, 2);
     (15%nat, 9)]);
     Some (1, [(9%nat, 1)]);
     None;
     Some (16384, [(0%nat, 32768);
     (8%nat, 22755);
     (9%nat, 17294);
     (13%nat, 8);
     (15%nat, 12)])].
Example ex7_check_cell5 : check_cell ex7_gens ex7_box 5 [0%nat; 1%nat; 2%nat; 4%nat] ex7_cc5 = true.
Proof. vm_compute. reflexivity. Qed.
Definition ex7_cc6 : cellcert :=
  mkcc (mkpt (-20) (-16) (-6)) (mkpt 12 16 20)
    [(1, [(0%nat, 1)]);
     (1, [(1%nat, 1)]);
     (1, [(2%nat, 1)]);
     (1, [(3%nat, 1)]);
     (30, [(0%nat, 20); (3%nat, 2); (7%nat, 1)]);
     (1, [(5%nat, 1)])]
    [Some (1, [(6%nat, 1)]);
     Some (16384, [(1%nat, 87381);
     (2%nat, 342971);
     (7%nat, 25122);
     (11%nat, 3);
     (12%nat, 1);
     (14%nat, 4)]);
     Some (1, [(7%nat, 1)]);
     Some (1, [(8%nat, 1)]);
     Some (1, [(9%nat, 1)]);
     Some (16384, [(0%nat, 22685);
     (7%nat, 15753);
     (9%nat, 11972);
     (11%nat, 9);
     (12%nat, 22);
     (14%nat, 42)]);
     None].
Example ex7_check_cell6 : check_cell ex7_gens ex7_box 6 [0%nat; 2%nat; 3%nat; 4%nat] ex7_cc6 = true.
Proof. vm_compute. reflexivity. Qed.

Example ex4_nearest : nearest_check ex4_gens 2 (mkpt 5 11 7) = true /\ nearest_check ex4_gens 0 (mkpt 5 11 7) = false.
Proof. split; vm_compute; reflexivity. Qed.
(* the midpoint of two generators is a tie: both answers are correct *)
Example ex4_nearest_tie : nearest_check ex4_gens 0 (mkpt (15 # 2) (9 # 2) (9 # 2)) = true /\ nearest_check ex4_gens 1 (mkpt (15 # 2) (9 # 2) (9 # 2)) = true.
Proof. split; vm_compute; reflexivity. Qed.
Example ex7_symmetric :
  neighbour_symmetric_check
    [ [(1, true); (2, true); (5, true); (6, true)]; [(0, true); (2, true); (5, true)]; [(0, true); (1, true); (4, true); (5, true); (6, true)];
      [(4, true); (6, true)]; [(2, true); (3, true); (5, true); (6, true)]; [(0, true); (1, true); (2, true); (4, true)]; [(0, true); (2, true); (3, true); (4, true)] ]%N = true.
Proof. vm_compute. reflexivity. Qed.
(* a degenerate (flag false) contact needs no partner, a genuine facet does *)
Example ex_symmetric_flags : neighbour_symmetric_check [ [(1, false)]; [] ]%N = true /\ neighbour_symmetric_check [ [(1, true)]; [] ]%N = false.
Proof. split; vm_compute; reflexivity. Qed.
