(* C01: invariants of the photon-iteration model, for every number of threads, subgrids,
   sources and packets and for EVERY schedule (every list of labels). *)
From Coq Require Import List Arith Bool PeanoNat Permutation Lia.
From CMI Require Import Cxx.C01_Defs.
Import ListNotations.

(* ---------- generic list facts ---------- *)
Fixpoint sum (l : list nat) : nat := match l with [] => 0 | x :: r => x + sum r end.

Lemma sum_app a b : sum (a ++ b) = sum a + sum b.
Proof. induction a as [|x a IH]; cbn [app sum]; [reflexivity|rewrite IH; lia]. Qed.

Lemma sum_perm a b : Permutation a b -> sum a = sum b.
Proof. induction 1; cbn [sum]; lia. Qed.

(* permutation goals over lists of naturals built from ++ : compare occurrence counts *)
Ltac perm_nat :=
  apply (Permutation_count_occ Nat.eq_dec);
  let x := fresh "x" in
  intro x;
  repeat match goal with
         | H : Permutation ?a ?b |- _ =>
             let H' := fresh "Hc" in
             pose proof (proj1 (Permutation_count_occ Nat.eq_dec a b) H x) as H'; clear H
         end;
  rewrite ?count_occ_app in *; cbn [count_occ] in *;
  repeat match goal with
         | H : context [Nat.eq_dec ?a ?b] |- _ => destruct (Nat.eq_dec a b)
         | |- context [Nat.eq_dec ?a ?b] => destruct (Nat.eq_dec a b)
         end;
  lia.

Lemma flat_map_app {A B} (f : A -> list B) a b : flat_map f (a ++ b) = flat_map f a ++ flat_map f b.
Proof. induction a as [|x a IH]; cbn; [reflexivity|rewrite IH, app_assoc; reflexivity]. Qed.

Lemma nth_split {A} (l : list A) t a : nth_error l t = Some a ->
  l = firstn t l ++ a :: skipn (S t) l.
Proof.
  revert t. induction l as [|x l IH]; intros [|t] H; cbn in *; try discriminate.
  - injection H as ->. reflexivity.
  - f_equal. apply IH. exact H.
Qed.

Lemma remove_nth_perm {A} (l : list A) i a : nth_error l i = Some a -> Permutation l (a :: remove_nth i l).
Proof.
  revert i. induction l as [|x l IH]; intros [|i] H; cbn in *; try discriminate.
  - injection H as ->. reflexivity.
  - rewrite (IH i H) at 1. apply perm_swap.
Qed.

(* ---------- association lists ---------- *)
Lemma aget_adel l k : Permutation (flat_map snd l) (aget l k ++ flat_map snd (adel l k)).
Proof.
  induction l as [|[k' v] l IH]; cbn [aget adel flat_map snd]; [reflexivity|].
  destruct (keyeq k' k); [reflexivity|].
  cbn [flat_map snd]. rewrite IH.
  rewrite !app_assoc. apply Permutation_app_tail. apply Permutation_app_comm.
Qed.

Lemma aput_pk l k v : Permutation (flat_map snd (aput l k v)) (v ++ flat_map snd (adel l k)).
Proof. unfold aput. destruct v; reflexivity. Qed.

Lemma adel_forall (P : (nat * nat) * list nat -> Prop) l k : Forall P l -> Forall P (adel l k).
Proof.
  induction 1 as [|[k' v] l Hx Hl IH]; cbn [adel]; [constructor|].
  destruct (keyeq k' k); [exact Hl|constructor; assumption].
Qed.

Definition nonempty_entries (l : list ((nat * nat) * list nat)) : Prop := Forall (fun e => snd e <> []) l.

Lemma aput_nonempty l k v : nonempty_entries l -> nonempty_entries (aput l k v).
Proof.
  intros H. unfold aput. destruct v as [|x v]; [apply adel_forall; exact H|].
  constructor; [discriminate|apply adel_forall; exact H].
Qed.

(* ---------- measures of a state ---------- *)
Definition task_pk (k : task) : list nat := match k with TTrav _ ps | TReemit _ ps => ps | _ => [] end.
Definition task_src (k : task) : nat := match k with TSrcD _ c | TSrcC _ c => c | _ => 0 end.
Definition task_csrc (k : task) : nat := match k with TSrcC _ c => c | _ => 0 end.
Definition task_ok (k : task) : Prop :=
  match k with TTrav _ ps | TReemit _ ps => ps <> [] | TSrcD _ c | TSrcC _ c => 0 < c | TFlush _ => True end.
Definition pc_tasks (p : pc) : list task :=
  match p with PHead (Some k) | PInner (Some k) => [k] | PEnq l => map snd l | _ => [] end.
(* tasks whose dependency the thread holds *)
Definition pc_locked (p : pc) : list task :=
  match p with PHead (Some k) | PInner (Some k) => [k] | _ => [] end.
Definition held (s : st) : list task := flat_map pc_tasks (thr s).
Definition locked (s : st) : list task := flat_map pc_locked (thr s).
Definition all_tasks (s : st) : list task := map snd (queue s) ++ held s.
Definition packets (s : st) : list nat :=
  flat_map snd (active s) ++ flat_map snd (local s) ++ flat_map task_pk (all_tasks s) ++ term s.
Definition pending (s : st) : nat := sum (map task_src (all_tasks s)).
Definition cpending (s : st) : nat := sum (map task_csrc (all_tasks s)).
Definition sdeps (ks : list task) : list nat := flat_map (fun k => match dep_of k with DSub sg => [sg] | _ => [] end) ks.
Definition bdeps (ks : list task) : list nat := flat_map (fun k => match dep_of k with DBlk b => [b] | _ => [] end) ks.

(* threads that will certainly fetch again before they can leave the loop *)
Definition active_pc (p : pc) : bool :=
  match p with
  | PStart | PIdle | PIdleFetch | PFetchInner | PElse | PHead (Some _) | PInner (Some _) | PEnq _ => true
  | _ => false
  end.

Lemma held_split s t p : get_thr s t = Some p ->
  Permutation (held s) (pc_tasks p ++ flat_map pc_tasks (firstn t (thr s) ++ skipn (S t) (thr s))).
Proof.
  unfold get_thr, held. intros H. rewrite (nth_split _ _ _ H) at 1.
  rewrite !flat_map_app. cbn [flat_map].
  rewrite !app_assoc. apply Permutation_app_tail. apply Permutation_app_comm.
Qed.

Lemma held_set s t p : t < length (thr s) ->
  Permutation (flat_map pc_tasks (firstn t (thr s) ++ p :: skipn (S t) (thr s)))
              (pc_tasks p ++ flat_map pc_tasks (firstn t (thr s) ++ skipn (S t) (thr s))).
Proof.
  intros _. rewrite !flat_map_app. cbn [flat_map].
  rewrite !app_assoc. apply Permutation_app_tail. apply Permutation_app_comm.
Qed.

Lemma get_thr_lt s t p : get_thr s t = Some p -> t < length (thr s).
Proof. unfold get_thr. intros H. apply nth_error_Some. congruence. Qed.

(* ---------- the transitions, characterised ---------- *)
Section Inv.
  Variable CAP NTHR NREQ : nat.
  Variable reemit : bool.
  Variable ngb : nat -> nat -> option nat.
  Variable fixed_loop : bool.
  Hypothesis CAP_pos : 0 < CAP.

  Notation step := (step CAP NTHR NREQ reemit ngb fixed_loop).
  Notation run_body := (run_body CAP NTHR reemit ngb).

  Inductive trans : st -> st -> Prop :=
  | tr_move s t p0 p :          (* a control-point move that neither gains nor loses a task *)
      get_thr s t = Some p0 -> pc_tasks p = pc_tasks p0 -> pc_locked p = pc_locked p0 ->
      (p = PExit -> flag s = false) -> (active_pc p = false -> active_pc p0 = false) ->
      (forall l, p <> PEnq l) ->
      trans s (set_thr s t p)
  | tr_drop s t k :             (* pinned loop only: leave with a fetched task *)
      fixed_loop = false -> flag s = false -> get_thr s t = Some (PHead (Some k)) ->
      trans s (set_thr s t PExit)
  | tr_fetch s t p0 p i q k :
      get_thr s t = Some p0 -> pc_tasks p0 = [] -> pc_tasks p = [k] -> pc_locked p0 = [] -> pc_locked p = [k] ->
      nth_error (queue s) i = Some (q, k) -> dep_free s (dep_of k) = true ->
      trans s (set_thr (take_dep (set_queue s (remove_nth i (queue s))) (dep_of k)) t p)
  | tr_none s t p0 p :          (* a fetch that returns NO_TASK *)
      get_thr s t = Some p0 -> pc_tasks p0 = [] -> pc_tasks p = [] -> active_pc p = false -> p <> PExit ->
      (forall e, In e (queue s) -> fst e = 0 -> fetchable s e = false) ->
      trans s (set_thr s t p)
  | tr_flag s t e :
      get_thr s t = Some (PCheck2 e) -> e = true -> done s = NREQ ->
      (e = true -> True) ->
      trans s (set_thr (mkSt (queue s) (active s) (local s) (slocks s) (blocks s) (cont_rem s) (flushed s) (done s) (term s) (fresh s) false (thr s)) t (PHead None))
  | tr_premature s t sg d q ps k :
      get_thr s t = Some PIdle -> aget (active s) (sg, d) = ps -> ps <> [] -> memb sg (slocks s) = false ->
      launch_task ngb sg d ps = Some k ->
      trans s (set_thr (enqueue (set_active s (adel (active s) (sg, d))) (match k with TReemit _ _ => 0 | _ => S q end) k) t PIdleFetch)
  | tr_run s t k r s1 ks :
      get_thr s t = Some (PInner (Some k)) -> run_body s k r = Some (s1, ks) ->
      trans s (set_thr (drop_dep s1 (dep_of k)) t (PEnq (assign_queues (r_qsel r) 0 ks)))
  | tr_enq s t q k rest :
      get_thr s t = Some (PEnq ((q, k) :: rest)) ->
      trans s (set_thr (enqueue s q k) t (PEnq rest))
  | tr_enq_done s t :
      get_thr s t = Some (PEnq []) ->
      trans s (set_thr s t PFetchInner).

  Lemma none_allowed_shared s t : none_allowed s t = true ->
    forall e, In e (queue s) -> fst e = 0 -> fetchable s e = false.
  Proof.
    unfold none_allowed. intros H e He H0.
    apply negb_true_iff in H.
    destruct (fetchable s e) eqn:F; [|reflexivity].
    exfalso. assert (X : existsb (fun e => (Nat.eqb (fst e) 0 || Nat.eqb (fst e) (S t)) && fetchable s e) (queue s) = true).
    { apply existsb_exists. exists e. split; [exact He|]. rewrite H0, F. reflexivity. }
    congruence.
  Qed.

  Lemma do_fetch_inv s i so k s' : do_fetch s i so = Some (k, s') ->
    exists q, nth_error (queue s) i = Some (q, k) /\ dep_free s (dep_of k) = true
              /\ s' = take_dep (set_queue s (remove_nth i (queue s))) (dep_of k).
  Proof.
    unfold do_fetch. destruct (nth_error (queue s) i) as [[q k']|] eqn:E; [|discriminate].
    destruct ((negb so || Nat.eqb q 0) && dep_free s (dep_of k')) eqn:C; [|discriminate].
    intros H. injection H as <- <-. apply andb_prop in C as [_ C]. exists q. auto.
  Qed.

  Lemma step_trans s l s' : step s l = Some s' -> trans s s'.
  Proof.
    destruct l as [t i|t|t r|t|t sg d q|t|t|t|t|t]; unfold C01_Defs.step; cbn [C01_Defs.step_g]; unfold loop_guard, term_guard.
    - (* fetch *)
      destruct (get_thr s t) as [[| | | | | | | | | |]|] eqn:G; try discriminate;
        match goal with |- context [do_fetch s i ?b] => destruct (do_fetch s i b) as [[k s1]|] eqn:F; [|discriminate] end;
        intros H; injection H as <-;
        destruct (do_fetch_inv _ _ _ _ _ F) as [q [Hn [Hd ->]]];
        eapply tr_fetch; eauto.
    - (* fetch none *)
      destruct (get_thr s t) as [[| | | | | | | | | |]|] eqn:G; try discriminate.
      + destruct (negb (existsb _ (queue s))) eqn:E; [|discriminate]. intros H; injection H as <-.
        eapply tr_none; eauto; [discriminate|].
        intros e He H0. apply negb_true_iff in E.
        destruct (fetchable s e) eqn:F; [|reflexivity]. exfalso.
        assert (X : existsb (fun e => Nat.eqb (fst e) 0 && fetchable s e) (queue s) = true).
        { apply existsb_exists. exists e. split; [exact He|]. rewrite H0, F. reflexivity. }
        congruence.
      + destruct (none_allowed s t) eqn:E; [|discriminate]. intros H; injection H as <-.
        eapply tr_none; eauto; [discriminate|]. apply none_allowed_shared with t. exact E.
      + destruct (none_allowed s t) eqn:E; [|discriminate]. intros H; injection H as <-.
        eapply tr_none; eauto; [discriminate|]. apply none_allowed_shared with t. exact E.
      + destruct (none_allowed s t) eqn:E; [|discriminate]. intros H; injection H as <-.
        eapply tr_none; eauto; [discriminate|]. apply none_allowed_shared with t. exact E.
    - (* run *)
      destruct (get_thr s t) as [[| [k|] | | | [k|] | | | | | |]|] eqn:G; try discriminate.
      destruct (run_body s k r) as [[s1 ks]|] eqn:R; [|discriminate].
      intros H; injection H as <-. eapply tr_run; eauto.
    - (* enqueue *)
      destruct (get_thr s t) as [[| | | | | [|[q k] rest] | | | | |]|] eqn:G; try discriminate;
        intros H; injection H as <-.
      + eapply tr_enq_done; eauto.
      + eapply tr_enq; eauto.
    - (* premature *)
      destruct (get_thr s t) as [[| | | | | | | | | |]|] eqn:G; try discriminate.
      destruct (aget (active s) (sg, d)) as [|x ps] eqn:A; [discriminate|].
      destruct (negb (memb sg (slocks s))) eqn:M; [|discriminate].
      destruct (launch_task ngb sg d (x :: ps)) as [k|] eqn:L; [|discriminate].
      intros H; injection H as <-. apply negb_true_iff in M.
      eapply tr_premature; eauto. discriminate.
    - destruct (get_thr s t) as [[| | | | | | | | | |]|] eqn:G; try discriminate.
      intros H; injection H as <-. eapply tr_move; eauto; try discriminate; try (intros ?; discriminate).
    - (* head *)
      destruct (get_thr s t) as [[| cur | | | | | | | | |]|] eqn:G; try discriminate.
      destruct (flag s || (true && match cur with Some _ => true | None => false end)) eqn:C0.
      + destruct (flag s || (fixed_loop && match cur with Some _ => true | None => false end)) eqn:C.
        * intros H; injection H as <-. eapply tr_move; eauto; destruct cur; try reflexivity; try discriminate; try (intros ?; discriminate).
        * intros H; injection H as <-. apply orb_false_elim in C as [Cf C2].
          destruct cur as [k|].
          -- apply andb_false_elim in C2 as [C2|C2]; [|discriminate]. eapply tr_drop; eauto.
          -- eapply tr_move; eauto; try discriminate; try (intros ?; discriminate).
      + destruct (flag s || (fixed_loop && match cur with Some _ => true | None => false end)) eqn:C.
        * apply orb_false_elim in C0 as [Cf C2]. rewrite Cf in C. cbn in C2. destruct cur; [discriminate|].
          rewrite andb_false_r in C. discriminate.
        * intros H; injection H as <-. apply orb_false_elim in C as [Cf C2].
          destruct cur as [k|]; [cbn in C0; rewrite orb_true_r in C0; discriminate|].
          eapply tr_move; eauto; try discriminate; try (intros ?; discriminate).
    - destruct (get_thr s t) as [[| | | | [k|] | | | | | |]|] eqn:G; try discriminate.
      intros H; injection H as <-. eapply tr_move; eauto; try discriminate; try (intros ?; discriminate).
    - destruct (get_thr s t) as [[| | | | | | | | | |]|] eqn:G; try discriminate.
      intros H; injection H as <-. eapply tr_move; eauto; try discriminate; try (intros ?; discriminate).
    - destruct (get_thr s t) as [[| | | | | | | | e | |]|] eqn:G; try discriminate.
      destruct (e && (done s =? NREQ)) eqn:C.
      + apply andb_prop in C as [-> C]. apply Nat.eqb_eq in C.
        intros H; injection H as <-. eapply tr_flag; eauto.
      + intros H; injection H as <-. eapply tr_move; eauto; try discriminate; try (intros ?; discriminate).
  Qed.

  (* ---------- effect of the task bodies ---------- *)
  Definition pk_act (s : st) := flat_map snd (active s).
  Definition pk_loc (s : st) := flat_map snd (local s).

  Lemma same_elements_perm a b : same_elements a b = true -> Permutation a b.
  Proof.
    unfold same_elements. intros H. apply andb_prop in H as [_ H].
    rewrite forallb_forall in H.
    apply (Permutation_count_occ Nat.eq_dec). intros x.
    destruct (in_dec Nat.eq_dec x (a ++ b)) as [Hin|Hn].
    - apply Nat.eqb_eq. apply H. exact Hin.
    - assert (~ In x a /\ ~ In x b) as [Ha Hb] by (split; intro; apply Hn; apply in_or_app; auto).
      rewrite (proj1 (count_occ_not_In Nat.eq_dec a x) Ha), (proj1 (count_occ_not_In Nat.eq_dec b x) Hb). reflexivity.
  Qed.

  Lemma launch_enabled sg d ps : dir_enabled reemit ngb sg d = true -> exists k, launch_task ngb sg d ps = Some k /\ task_pk k = ps
     /\ task_src k = 0 /\ task_csrc k = 0 /\ (ps <> [] -> task_ok k) /\ (forall b, k <> TFlush b).
  Proof.
    unfold dir_enabled, launch_task. intros H. apply andb_prop in H as [_ H].
    destruct d as [|d].
    - eexists. split; [reflexivity|]. repeat split; auto. discriminate.
    - destruct (ngb sg (S d)) as [n|]; [|discriminate]. eexists. split; [reflexivity|]. repeat split; auto. discriminate.
  Qed.

  Lemma append_active_spec s sg d qs s' ks :
    dir_enabled reemit ngb sg d = true -> qs <> [] -> nonempty_entries (active s) ->
    append_active CAP ngb s sg d qs = (s', ks) ->
    queue s' = queue s /\ local s' = local s /\ slocks s' = slocks s /\ blocks s' = blocks s /\ cont_rem s' = cont_rem s
    /\ flushed s' = flushed s /\ done s' = done s /\ term s' = term s /\ fresh s' = fresh s /\ flag s' = flag s /\ thr s' = thr s
    /\ Permutation (pk_act s' ++ flat_map task_pk ks) (pk_act s ++ qs)
    /\ nonempty_entries (active s') /\ Forall task_ok ks /\ sum (map task_src ks) = 0 /\ sum (map task_csrc ks) = 0
    /\ Forall (fun k => forall b, k <> TFlush b) ks.
  Proof.
    intros He Hq Hne. unfold append_active.
    set (cur := aget (active s) (sg, d)).
    destruct (Nat.ltb_spec (length cur + length qs) CAP) as [Hlt|Hge]; intros H; injection H as <- <-;
      cbn [queue local slocks blocks cont_rem flushed done term fresh flag thr set_active active];
      repeat (split; [reflexivity|]).
    - unfold pk_act. cbn [active set_active flat_map]. rewrite app_nil_r.
      split.
      + pose proof (aput_pk (active s) (sg, d) (cur ++ qs)) as P1.
        pose proof (aget_adel (active s) (sg, d)) as P2. fold cur in P2.
        rewrite P1. clear P1. perm_nat.
      + split; [apply aput_nonempty; exact Hne|]. repeat split; constructor.
    - destruct (launch_enabled sg d (cur ++ firstn (CAP - length cur) qs) He) as [k [Hk [Hpk [Hsrc [Hcsrc [Hok Hnf]]]]]].
      rewrite Hk. unfold pk_act. cbn [active set_active flat_map]. rewrite app_nil_r, Hpk.
      split.
      + pose proof (aput_pk (active s) (sg, d) (skipn (CAP - length cur) qs)) as P1.
        pose proof (aget_adel (active s) (sg, d)) as P2. fold cur in P2.
        rewrite P1. clear P1.
        assert (P3 : Permutation qs (firstn (CAP - length cur) qs ++ skipn (CAP - length cur) qs))
          by (rewrite firstn_skipn; reflexivity).
        perm_nat.
      + split; [apply aput_nonempty; exact Hne|].
        assert (Hfull : cur ++ firstn (CAP - length cur) qs <> []).
        { intros E. apply (f_equal (@length nat)) in E. rewrite app_length, firstn_length in E. cbn in E. lia. }
        split; [constructor; [apply Hok; exact Hfull|constructor]|].
        split; [cbn [map sum]; lia|]. split; [cbn [map sum]; lia|].
        constructor; [exact Hnf|constructor].
  Qed.

  Lemma append_all_spec sg : forall outs s s' ks,
    Forall (fun o => dir_enabled reemit ngb sg (fst o) = true /\ snd o <> []) outs -> nonempty_entries (active s) ->
    append_all CAP ngb s sg outs = (s', ks) ->
    queue s' = queue s /\ local s' = local s /\ slocks s' = slocks s /\ blocks s' = blocks s /\ cont_rem s' = cont_rem s
    /\ flushed s' = flushed s /\ done s' = done s /\ term s' = term s /\ fresh s' = fresh s /\ flag s' = flag s /\ thr s' = thr s
    /\ Permutation (pk_act s' ++ flat_map task_pk ks) (pk_act s ++ flat_map snd outs)
    /\ nonempty_entries (active s') /\ Forall task_ok ks /\ sum (map task_src ks) = 0 /\ sum (map task_csrc ks) = 0
    /\ Forall (fun k => forall b, k <> TFlush b) ks.
  Proof.
    induction outs as [|[d qs] outs IH]; intros s s' ks HF Hne H; cbn [append_all] in H.
    - injection H as <- <-. cbn [flat_map map sum]. rewrite ?app_nil_r.
      repeat (split; [reflexivity|]). split; [exact Hne|]. repeat split; constructor.
    - inversion HF as [|? ? [Hd Hq] HF']; subst. cbn [fst snd] in *.
      destruct (append_active CAP ngb s sg d qs) as [s1 k1] eqn:E1.
      destruct (append_all CAP ngb s1 sg outs) as [s2 k2] eqn:E2.
      injection H as <- <-.
      destruct (append_active_spec _ _ _ _ _ _ Hd Hq Hne E1) as (A1 & A2 & A3 & A4 & A5 & A6 & A7 & A8 & A9 & A10 & A11 & P1 & N1 & T1 & S1 & C1 & F1).
      destruct (IH _ _ _ HF' N1 E2) as (B1 & B2 & B3 & B4 & B5 & B6 & B7 & B8 & B9 & B10 & B11 & P2 & N2 & T2 & S2 & C2 & F2).
      repeat (split; [congruence|]).
      split.
      { cbn [flat_map snd]. rewrite flat_map_app. perm_nat. }
      split; [exact N2|]. split; [apply Forall_app; split; assumption|].
      rewrite !map_app, !sum_app. split; [lia|]. split; [lia|]. apply Forall_app; split; assumption.
  Qed.

  Lemma local_add_spec s blk sg p s' ks : nonempty_entries (local s) ->
    local_add CAP s blk sg p = (s', ks) ->
    queue s' = queue s /\ active s' = active s /\ slocks s' = slocks s /\ blocks s' = blocks s /\ cont_rem s' = cont_rem s
    /\ flushed s' = flushed s /\ done s' = done s /\ term s' = term s /\ fresh s' = fresh s /\ flag s' = flag s /\ thr s' = thr s
    /\ Permutation (pk_loc s' ++ flat_map task_pk ks) (pk_loc s ++ [p])
    /\ nonempty_entries (local s') /\ Forall task_ok ks /\ sum (map task_src ks) = 0 /\ sum (map task_csrc ks) = 0
    /\ Forall (fun k => forall b, k <> TFlush b) ks.
  Proof.
    intros Hne. unfold local_add.
    set (cur := aget (local s) (blk, sg) ++ [p]).
    pose proof (aget_adel (local s) (blk, sg)) as P2.
    destruct (Nat.eqb_spec (length cur) CAP) as [E|E]; intros H; injection H as <- <-;
      cbn [queue active slocks blocks cont_rem flushed done term fresh flag thr set_local local];
      repeat (split; [reflexivity|]); unfold pk_loc; cbn [local set_local flat_map task_pk].
    - split.
      { pose proof (aput_pk (local s) (blk, sg) []) as P1. rewrite P1. clear P1. unfold cur. cbn [app]. perm_nat. }
      split; [first [apply aput_nonempty; exact Hne|apply adel_forall; exact Hne]|].
      split; [constructor; [cbn; unfold cur; destruct (aget (local s) (blk, sg)); discriminate|constructor]|].
      repeat split; try reflexivity. constructor; [discriminate|constructor].
    - split.
      { pose proof (aput_pk (local s) (blk, sg) cur) as P1. rewrite P1. clear P1. unfold cur. perm_nat. }
      split; [first [apply aput_nonempty; exact Hne|apply adel_forall; exact Hne]|]. repeat split; constructor.
  Qed.

  Lemma local_add_all_spec blk : forall ps dest s s' ks, nonempty_entries (local s) -> length dest = length ps ->
    local_add_all CAP s blk ps dest = (s', ks) ->
    queue s' = queue s /\ active s' = active s /\ slocks s' = slocks s /\ blocks s' = blocks s /\ cont_rem s' = cont_rem s
    /\ flushed s' = flushed s /\ done s' = done s /\ term s' = term s /\ fresh s' = fresh s /\ flag s' = flag s /\ thr s' = thr s
    /\ Permutation (pk_loc s' ++ flat_map task_pk ks) (pk_loc s ++ ps)
    /\ nonempty_entries (local s') /\ Forall task_ok ks /\ sum (map task_src ks) = 0 /\ sum (map task_csrc ks) = 0
    /\ Forall (fun k => forall b, k <> TFlush b) ks.
  Proof.
    induction ps as [|p ps IH]; intros dest s s' ks Hne Hlen H; cbn [local_add_all] in H.
    - injection H as <- <-. cbn [flat_map map sum]. rewrite ?app_nil_r.
      repeat (split; [reflexivity|]). split; [exact Hne|]. repeat split; constructor.
    - destruct dest as [|sg dr]; [cbn in Hlen; discriminate|].
      destruct (local_add CAP s blk sg p) as [s1 k1] eqn:E1.
      destruct (local_add_all CAP s1 blk ps dr) as [s2 k2] eqn:E2.
      injection H as <- <-.
      destruct (local_add_spec _ _ _ _ _ _ Hne E1) as (A1 & A2 & A3 & A4 & A5 & A6 & A7 & A8 & A9 & A10 & A11 & P1 & N1 & T1 & S1 & C1 & F1).
      assert (Hlen' : length dr = length ps) by (cbn [length] in Hlen; lia).
      destruct (IH _ _ _ _ N1 Hlen' E2) as (B1 & B2 & B3 & B4 & B5 & B6 & B7 & B8 & B9 & B10 & B11 & P2 & N2 & T2 & S2 & C2 & F2).
      repeat (split; [congruence|]).
      split.
      { rewrite flat_map_app. change (p :: ps) with ([p] ++ ps). perm_nat. }
      split; [exact N2|]. split; [apply Forall_app; split; assumption|].
      rewrite !map_app, !sum_app. split; [lia|]. split; [lia|]. apply Forall_app; split; assumption.
  Qed.

  Lemma flush_block_spec s blk s' ks : nonempty_entries (local s) -> flush_block s blk = (s', ks) ->
    queue s' = queue s /\ active s' = active s /\ slocks s' = slocks s /\ blocks s' = blocks s /\ cont_rem s' = cont_rem s
    /\ flushed s' = flushed s /\ done s' = done s /\ term s' = term s /\ fresh s' = fresh s /\ flag s' = flag s /\ thr s' = thr s
    /\ Permutation (pk_loc s' ++ flat_map task_pk ks) (pk_loc s)
    /\ nonempty_entries (local s') /\ Forall task_ok ks /\ sum (map task_src ks) = 0 /\ sum (map task_csrc ks) = 0
    /\ Forall (fun k => forall b, k <> TFlush b) ks.
  Proof.
    intros Hne H. unfold flush_block in H. injection H as <- <-.
    cbn [queue active slocks blocks cont_rem flushed done term fresh flag thr set_local local].
    repeat (split; [reflexivity|]). unfold pk_loc. cbn [local set_local].
    induction (local s) as [|[[b sg] v] l IH]; cbn [filter flat_map map fst snd].
    - repeat split; constructor.
    - inversion Hne as [|? ? Hv Hl]; subst. cbn [snd] in Hv.
      destruct (IH Hl) as (P & N & T & S & C & F).
      destruct (Nat.eqb b blk); cbn [negb filter flat_map map fst snd task_pk sum task_src task_csrc].
      + split; [perm_nat|]. split; [exact N|]. split; [constructor; [exact Hv|exact T]|].
        split; [exact S|]. split; [exact C|]. constructor; [discriminate|exact F].
      + split; [perm_nat|]. split; [constructor; [exact Hv|exact N]|]. auto.
  Qed.

  Lemma seq_app_perm a c : seq 0 (a + c) = seq 0 a ++ seq a c.
  Proof. rewrite seq_app. reflexivity. Qed.

  Ltac splits := repeat match goal with |- _ /\ _ => split end.
  Ltac easy_goals := try reflexivity; try lia; try assumption.

  Lemma flush_tasks_facts (c : bool) :
    flat_map task_pk (if c then map TFlush (seq 0 NTHR) else []) = []
    /\ sum (map task_src (if c then map TFlush (seq 0 NTHR) else [])) = 0
    /\ sum (map task_csrc (if c then map TFlush (seq 0 NTHR) else [])) = 0
    /\ Forall task_ok (if c then map TFlush (seq 0 NTHR) else []).
  Proof.
    destruct c; [|repeat split; constructor].
    induction (seq 0 NTHR) as [|x l (I1 & I2 & I3 & I4)]; [repeat split; constructor|].
    cbn [map flat_map sum task_pk task_src task_csrc app]. splits; easy_goals. constructor; [exact I|exact I4].
  Qed.

  Lemma body_spec s k r s1 ks :
    run_body s k r = Some (s1, ks) -> task_ok k -> nonempty_entries (active s) -> nonempty_entries (local s) ->
    queue s1 = queue s /\ slocks s1 = slocks s /\ blocks s1 = blocks s /\ flag s1 = flag s /\ thr s1 = thr s
    /\ Permutation (pk_act s1 ++ pk_loc s1 ++ flat_map task_pk ks ++ term s1)
                   (pk_act s ++ pk_loc s ++ task_pk k ++ term s ++ seq (fresh s) (task_src k))
    /\ fresh s1 = fresh s + task_src k
    /\ done s1 + length (term s) = done s + length (term s1)
    /\ sum (map task_src ks) = 0
    /\ sum (map task_csrc ks) = 0 /\ cont_rem s1 + task_csrc k = cont_rem s
    /\ nonempty_entries (active s1) /\ nonempty_entries (local s1) /\ Forall task_ok ks
    /\ length (term s) <= length (term s1).
  Proof.
    intros H Hok Hna Hnl. destruct k as [sg cnt|blk cnt|blk|sg ps|sg ps]; cbn [C01_Defs.run_body] in H.
    - (* discrete source *)
      destruct ((0 <? cnt) && (cnt <=? CAP)) eqn:C; [|discriminate]. injection H as <- <-.
      cbn [queue slocks blocks flag thr set_counts active local term done fresh cont_rem flat_map task_pk task_src task_csrc map sum].
      unfold pk_act, pk_loc. cbn [active local set_counts].
      splits; easy_goals.
      + rewrite app_nil_r. cbn [app]. perm_nat.
      + constructor; [|constructor]. cbn. cbn in Hok. destruct cnt; [lia|discriminate].
    - (* continuous source *)
      destruct ((0 <? cnt) && (cnt <=? cont_rem s) && (length (r_dest r) =? cnt)) eqn:C; [|discriminate].
      apply andb_prop in C as [C C3]. apply andb_prop in C as [C1 C2].
      apply Nat.eqb_eq in C3. apply Nat.leb_le in C2.
      destruct (local_add_all CAP (set_counts s (cont_rem s) (flushed s) (fresh s + cnt)) blk (seq (fresh s) cnt) (r_dest r)) as [s2 k2] eqn:E.
      assert (Hlen : length (r_dest r) = length (seq (fresh s) cnt)) by (rewrite seq_length; exact C3).
      destruct (local_add_all_spec blk _ _ (set_counts s (cont_rem s) (flushed s) (fresh s + cnt)) _ _ Hnl Hlen E) as (B1 & B2 & B3 & B4 & B5 & B6 & B7 & B8 & B9 & B10 & B11 & P2 & N2 & T2 & S2 & C2' & F2).
      cbn [queue active slocks blocks cont_rem flushed done term fresh flag thr set_counts local] in *.
      unfold pk_loc in P2. cbn [local set_counts] in P2.
      destruct (flush_tasks_facts (flushed s2 =? 0)) as (Hf0 & Hf1 & Hf2 & Hf3).
      change (S (flushed s2) =? 1) with (flushed s2 =? 0) in H.
      destruct (cont_rem s2 - cnt =? 0) eqn:Z; injection H as <- <-;
        cbn [queue slocks blocks flag thr set_counts active local term done fresh cont_rem task_pk task_src task_csrc];
        unfold pk_act, pk_loc; cbn [active local set_counts];
        rewrite ?flat_map_app, ?map_app, ?sum_app, ?Hf0, ?Hf1, ?Hf2, ?app_nil_r;
        [apply Nat.eqb_eq in Z|apply Nat.eqb_neq in Z];
        splits; easy_goals; try congruence;
        try (rewrite B8; lia);
        try (apply Forall_app; split; assumption);
        try (rewrite B2, B8; cbn [app]; perm_nat).
    - (* flush *)
      destruct (flush_block s blk) as [s2 k2] eqn:E. injection H as <- <-.
      destruct (flush_block_spec _ _ _ _ Hnl E) as (B1 & B2 & B3 & B4 & B5 & B6 & B7 & B8 & B9 & B10 & B11 & P2 & N2 & T2 & S2 & C2 & F2).
      cbn [task_pk task_src task_csrc]. unfold pk_act. rewrite B1, B2, B3, B4, B5, B7, B8, B9, B10, B11.
      splits; easy_goals.
      cbn [seq app]. rewrite app_nil_r. perm_nat.
    - (* traversal *)
      destruct (same_elements ps (r_term r ++ flat_map snd (r_outs r))
                && forallb (fun o => dir_enabled reemit ngb sg (fst o) && negb (match snd o with [] => true | _ => false end)) (r_outs r)
                && nodupb (map fst (r_outs r))) eqn:C; [|discriminate].
      apply andb_prop in C as [C _]. apply andb_prop in C as [C1 C2].
      apply same_elements_perm in C1.
      assert (HF : Forall (fun o => dir_enabled reemit ngb sg (fst o) = true /\ snd o <> []) (r_outs r)).
      { apply Forall_forall. intros o Ho. rewrite forallb_forall in C2. specialize (C2 o Ho).
        apply andb_prop in C2 as [D E]. split; [exact D|]. destruct (snd o); [discriminate|discriminate]. }
      destruct (append_all CAP ngb s sg (r_outs r)) as [s2 k2] eqn:E. injection H as <- <-.
      destruct (append_all_spec sg _ _ _ _ HF Hna E) as (B1 & B2 & B3 & B4 & B5 & B6 & B7 & B8 & B9 & B10 & B11 & P2 & N2 & T2 & S2 & C2' & F2).
      unfold add_done. cbn [queue slocks blocks flag thr active local term done fresh cont_rem task_pk task_src task_csrc].
      unfold pk_act, pk_loc in *. cbn [active local].
      rewrite B1, B2, B3, B4, B5, B7, B8, B9, B10, B11.
      splits; easy_goals; try (rewrite app_length; lia).
      cbn [seq]. rewrite app_nil_r. perm_nat.
    - (* re-emission *)
      destruct (r_outs r) as [|[[|d] kept] [|o outs]]; try discriminate.
      destruct (same_elements ps (r_term r ++ kept)) eqn:C1; [|discriminate]. injection H as <- <-.
      apply same_elements_perm in C1.
      unfold add_done. cbn [queue slocks blocks flag thr active local term done fresh cont_rem task_pk task_src task_csrc].
      unfold pk_act, pk_loc. cbn [active local].
      assert (Hk : flat_map task_pk (match kept with [] => [] | _ :: _ => [TTrav sg kept] end) = kept)
        by (destruct kept; cbn; [reflexivity|rewrite app_nil_r; reflexivity]).
      splits; easy_goals; try (rewrite app_length; lia); try (destruct kept; reflexivity).
      + rewrite Hk. cbn [seq]. rewrite app_nil_r. perm_nat.
      + destruct kept; [constructor|constructor; [discriminate|constructor]].
  Qed.
End Inv.

(* ---------- the invariant and its preservation (repaired loop) ---------- *)
Section Main.
  Variable CAP NTHR NREQ : nat.
  Variable reemit : bool.
  Variable ngb : nat -> nat -> option nat.
  Hypothesis CAP_pos : 0 < CAP.

  Notation step := (step CAP NTHR NREQ reemit ngb true).
  Notation trans := (trans CAP NTHR NREQ reemit ngb true).

  Definition shared_only (k : task) (q : nat) : Prop :=
    match k with TFlush _ | TReemit _ _ => q = 0 | _ => True end.

  (* the part of the invariant that depends on the threads only through the multiset H of tasks they hold *)
  Record InvD (s : st) (H L : list task) : Prop := {
    d_pk : Permutation (pk_act s ++ pk_loc s ++ flat_map task_pk (map snd (queue s) ++ H) ++ term s) (seq 0 (fresh s));
    d_done : done s = length (term s);
    d_src : fresh s + sum (map task_src (map snd (queue s) ++ H)) = NREQ;
    d_csrc : cont_rem s = sum (map task_csrc (map snd (queue s) ++ H));
    d_act : nonempty_entries (active s);
    d_loc : nonempty_entries (local s);
    d_ok : Forall task_ok (map snd (queue s) ++ H);
    d_flag : flag s = false -> done s = NREQ;
    d_sl : Permutation (slocks s) (sdeps L);
    d_bl : Permutation (blocks s) (bdeps L);
    d_nd : NoDup (slocks s) /\ NoDup (blocks s);
    d_shq : Forall (fun e => shared_only (snd e) (fst e)) (queue s)
  }.

  Record Inv (s : st) : Prop := {
    i_d : InvD s (held s) (locked s);
    i_pend : Forall (fun p => match p with PEnq l => Forall (fun e => shared_only (snd e) (fst e)) l | _ => True end) (thr s);
    i_exit : Forall (fun p => p = PExit -> flag s = false) (thr s);
    i_len : length (thr s) = NTHR;
    i_live : existsb active_pc (thr s) = false -> held s = [] /\ locked s = [] /\ Forall (fun e => fst e <> 0) (queue s)
  }.

  (* rest of the threads when thread t is taken out *)
  Definition others (s : st) (t : nat) : list pc := firstn t (thr s) ++ skipn (S t) (thr s).

  Lemma thr_set s t p : thr (set_thr s t p) = firstn t (thr s) ++ p :: skipn (S t) (thr s).
  Proof. reflexivity. Qed.

  Lemma len_set_thr s t p0 p : get_thr s t = Some p0 -> length (thr (set_thr s t p)) = length (thr s).
  Proof.
    intros G. apply get_thr_lt in G. rewrite thr_set, app_length. cbn [length]. rewrite firstn_length, skipn_length. lia.
  Qed.

  Lemma held_of s t p0 : get_thr s t = Some p0 -> Permutation (held s) (pc_tasks p0 ++ flat_map pc_tasks (others s t)).
  Proof. apply held_split. Qed.

  Lemma held_set_thr s t p : Permutation (held (set_thr s t p)) (pc_tasks p ++ flat_map pc_tasks (others s t)).
  Proof.
    unfold held. rewrite thr_set. unfold others. rewrite !flat_map_app. cbn [flat_map].
    rewrite !app_assoc. apply Permutation_app_tail. apply Permutation_app_comm.
  Qed.

  Lemma locked_of s t p0 : get_thr s t = Some p0 -> Permutation (locked s) (pc_locked p0 ++ flat_map pc_locked (others s t)).
  Proof.
    unfold get_thr, locked. intros H. rewrite (nth_split _ _ _ H) at 1. unfold others.
    rewrite !flat_map_app. cbn [flat_map].
    rewrite !app_assoc. apply Permutation_app_tail. apply Permutation_app_comm.
  Qed.

  Lemma locked_set_thr s t p : Permutation (locked (set_thr s t p)) (pc_locked p ++ flat_map pc_locked (others s t)).
  Proof.
    unfold locked. rewrite thr_set. unfold others. rewrite !flat_map_app. cbn [flat_map].
    rewrite !app_assoc. apply Permutation_app_tail. apply Permutation_app_comm.
  Qed.

  Lemma existsb_set_thr s t p0 p : get_thr s t = Some p0 ->
    existsb active_pc (thr (set_thr s t p)) = active_pc p || existsb active_pc (others s t).
  Proof.
    intros _. rewrite thr_set. unfold others. rewrite !existsb_app. cbn [existsb].
    destruct (existsb active_pc (firstn t (thr s))), (active_pc p), (existsb active_pc (skipn (S t) (thr s))); reflexivity.
  Qed.

  Lemma existsb_thr s t p0 : get_thr s t = Some p0 ->
    existsb active_pc (thr s) = active_pc p0 || existsb active_pc (others s t).
  Proof.
    intros H. unfold get_thr in H. rewrite (nth_split _ _ _ H) at 1. unfold others.
    rewrite !existsb_app. cbn [existsb].
    destruct (existsb active_pc (firstn t (thr s))), (active_pc p0), (existsb active_pc (skipn (S t) (thr s))); reflexivity.
  Qed.

  Lemma inactive_no_tasks l : existsb active_pc l = false -> flat_map pc_tasks l = [].
  Proof.
    induction l as [|p l IH]; cbn [existsb flat_map]; [reflexivity|].
    intros H. apply orb_false_elim in H as [H1 H2]. rewrite (IH H2), app_nil_r.
    destruct p as [| [k|] | | | [k|] | l' | | | | |]; cbn in *; try reflexivity; discriminate.
  Qed.

  Lemma inactive_no_locked l : existsb active_pc l = false -> flat_map pc_locked l = [].
  Proof.
    induction l as [|p l IH]; cbn [existsb flat_map]; [reflexivity|].
    intros H. apply orb_false_elim in H as [H1 H2]. rewrite (IH H2), app_nil_r.
    destruct p as [| [k|] | | | [k|] | l' | | | | |]; cbn in *; try reflexivity; discriminate.
  Qed.

  Lemma In_firstn_ {A} (l : list A) n x : In x (firstn n l) -> In x l.
  Proof. revert n. induction l as [|y l IH]; intros [|n] H; cbn in *; try contradiction. destruct H; [auto|right; eauto]. Qed.
  Lemma In_skipn_ {A} (l : list A) n x : In x (skipn n l) -> In x l.
  Proof. revert n. induction l as [|y l IH]; intros [|n] H; cbn in *; auto. right. eauto. Qed.

  Lemma Forall_set_thr (P : pc -> Prop) s t p : Forall P (thr s) -> P p -> Forall P (thr (set_thr s t p)).
  Proof.
    intros H Hp. rewrite thr_set. rewrite Forall_forall in H. apply Forall_app. split.
    - apply Forall_forall. intros x Hx. apply H. eapply In_firstn_. exact Hx.
    - constructor; [exact Hp|]. apply Forall_forall. intros x Hx. apply H. eapply In_skipn_. exact Hx.
  Qed.

  Lemma sdeps_app a b : sdeps (a ++ b) = sdeps a ++ sdeps b.
  Proof. unfold sdeps. apply flat_map_app. Qed.
  Lemma bdeps_app a b : bdeps (a ++ b) = bdeps a ++ bdeps b.
  Proof. unfold bdeps. apply flat_map_app. Qed.

  Lemma InvD_perm s H H' L L' : Permutation H H' -> Permutation L L' -> InvD s H L -> InvD s H' L'.
  Proof.
    intros P PL [A1 A2 A3 A4 A5 A6 A7 A8 A9 A10 A11 A12].
    assert (PQ : Permutation (map snd (queue s) ++ H) (map snd (queue s) ++ H')) by (apply Permutation_app_head; exact P).
    constructor; try assumption.
    - rewrite <- A1. apply Permutation_app_head. apply Permutation_app_head. apply Permutation_app_tail.
      apply Permutation_flat_map. symmetry. exact PQ.
    - rewrite <- A3. f_equal. apply sum_perm. apply Permutation_map. symmetry. exact PQ.
    - rewrite A4. apply sum_perm. apply Permutation_map. exact PQ.
    - eapply Permutation_Forall; [exact PQ|exact A7].
    - rewrite A9. unfold sdeps. apply Permutation_flat_map. exact PL.
    - rewrite A10. unfold bdeps. apply Permutation_flat_map. exact PL.
  Qed.

  Lemma memb_false_notin x l : memb x l = false -> ~ In x l.
  Proof.
    unfold memb. intros H Hin. assert (existsb (Nat.eqb x) l = true) by (apply existsb_exists; exists x; split; [exact Hin|apply Nat.eqb_refl]). congruence.
  Qed.

  Lemma remove1_perm x l : In x l -> Permutation l (x :: remove1 x l).
  Proof.
    induction l as [|y l IH]; cbn [remove1]; [contradiction|].
    intros [->|Hin].
    - rewrite Nat.eqb_refl. reflexivity.
    - destruct (Nat.eqb_spec x y) as [->|Hne]; [reflexivity|]. rewrite (IH Hin) at 1. apply perm_swap.
  Qed.

  Lemma NoDup_remove1 x l : NoDup l -> NoDup (remove1 x l).
  Proof.
    induction 1 as [|y l Hn Hd IH]; cbn [remove1]; [constructor|].
    destruct (Nat.eqb x y); [exact Hd|]. constructor; [|exact IH].
    intros Hin. apply Hn. clear -Hin. induction l as [|z l IH]; cbn [remove1] in Hin; [contradiction|].
    destruct (Nat.eqb x z); [right; exact Hin|]. destruct Hin; [left; assumption|right; auto].
  Qed.

  Lemma assign_queues_spec qsel : forall ks n,
    map snd (assign_queues qsel n ks) = ks /\ Forall (fun e => shared_only (snd e) (fst e)) (assign_queues qsel n ks).
  Proof.
    induction ks as [|k ks IH]; intros n; cbn [assign_queues map]; [split; [reflexivity|constructor]|].
    destruct (IH (S n)) as [E F]. split; [cbn [snd]; rewrite E; reflexivity|].
    constructor; [destruct k; cbn; auto|exact F].
  Qed.

  Lemma InvD_ext s s' H L :
    queue s' = queue s -> active s' = active s -> local s' = local s -> slocks s' = slocks s -> blocks s' = blocks s ->
    cont_rem s' = cont_rem s -> done s' = done s -> term s' = term s -> fresh s' = fresh s -> flag s' = flag s ->
    InvD s H L -> InvD s' H L.
  Proof.
    intros E1 E2 E3 E4 E5 E6 E7 E8 E9 E10 [A1 A2 A3 A4 A5 A6 A7 A8 A9 A10 A11 A12].
    constructor; unfold pk_act, pk_loc in *; rewrite ?E1, ?E2, ?E3, ?E4, ?E5, ?E6, ?E7, ?E8, ?E9, ?E10; assumption.
  Qed.

  Definition pend_ok (p : pc) : Prop :=
    match p with PEnq l => Forall (fun e => shared_only (snd e) (fst e)) l | _ => True end.

  (* ---- control-point moves ---- *)
  Lemma inv_move s t p0 p : Inv s -> get_thr s t = Some p0 -> pc_tasks p = pc_tasks p0 -> pc_locked p = pc_locked p0 ->
    (p = PExit -> flag s = false) -> (active_pc p = false -> active_pc p0 = false) -> pend_ok p -> Inv (set_thr s t p).
  Proof.
    intros [D Pd E N L] G Hp Hl Hx Ha Hpe.
    assert (PH : Permutation (held (set_thr s t p)) (held s)).
    { rewrite held_set_thr, (held_of s t p0 G), Hp. reflexivity. }
    assert (PL : Permutation (locked (set_thr s t p)) (locked s)).
    { rewrite locked_set_thr, (locked_of s t p0 G), Hl. reflexivity. }
    constructor.
    - apply (InvD_ext s); try reflexivity. apply (InvD_perm s (held s) _ (locked s)); [symmetry; exact PH|symmetry; exact PL|]. exact D.
    - apply Forall_set_thr; [exact Pd|exact Hpe].
    - apply Forall_set_thr; [exact E|exact Hx].
    - rewrite (len_set_thr s t p0 p G). exact N.
    - intros Hn. rewrite (existsb_set_thr s t p0 p G) in Hn. apply orb_false_elim in Hn as [Hn1 Hn2].
      assert (existsb active_pc (thr s) = false) as Hs by (rewrite (existsb_thr s t p0 G), (Ha Hn1), Hn2; reflexivity).
      destruct (L Hs) as (L1 & L2 & L3). split; [|split; [|exact L3]].
      + apply Permutation_nil. rewrite <- L1. symmetry. exact PH.
      + apply Permutation_nil. rewrite <- L2. symmetry. exact PL.
  Qed.

  (* ---- fetching a task ---- *)
  Lemma sdeps_cons k l : sdeps (k :: l) = match dep_of k with DSub sg => [sg] | _ => [] end ++ sdeps l.
  Proof. reflexivity. Qed.
  Lemma bdeps_cons k l : bdeps (k :: l) = match dep_of k with DBlk b => [b] | _ => [] end ++ bdeps l.
  Proof. reflexivity. Qed.

  Lemma inv_fetch s t p0 p i q k : Inv s -> get_thr s t = Some p0 -> pc_tasks p0 = [] -> pc_tasks p = [k] ->
    pc_locked p0 = [] -> pc_locked p = [k] ->
    nth_error (queue s) i = Some (q, k) -> dep_free s (dep_of k) = true ->
    Inv (set_thr (take_dep (set_queue s (remove_nth i (queue s))) (dep_of k)) t p).
  Proof.
    intros [D Pd E N L] G Hp0 Hp Hl0 Hl Hn Hf.
    set (s1 := take_dep (set_queue s (remove_nth i (queue s))) (dep_of k)).
    assert (Hthr : thr s1 = thr s) by (unfold s1; destruct (dep_of k); reflexivity).
    assert (Hflag : flag s1 = flag s) by (unfold s1; destruct (dep_of k); reflexivity).
    assert (G1 : get_thr s1 t = Some p0) by (unfold get_thr; rewrite Hthr; exact G).
    assert (PH : Permutation (held (set_thr s1 t p)) (k :: held s)).
    { rewrite held_set_thr, Hp. unfold others. rewrite Hthr. cbn [app].
      apply perm_skip. rewrite (held_of s t p0 G), Hp0. reflexivity. }
    assert (PL : Permutation (locked (set_thr s1 t p)) (k :: locked s)).
    { rewrite locked_set_thr, Hl. unfold others. rewrite Hthr. cbn [app].
      apply perm_skip. rewrite (locked_of s t p0 G), Hl0. reflexivity. }
    pose proof (remove_nth_perm _ _ _ Hn) as PQ.
    assert (PQ' : Permutation (map snd (queue s)) (k :: map snd (remove_nth i (queue s)))).
    { rewrite PQ at 1. reflexivity. }
    assert (PT : Permutation (map snd (queue s) ++ held s) (map snd (remove_nth i (queue s)) ++ k :: held s)).
    { rewrite PQ'. cbn [app]. apply Permutation_middle. }
    destruct D as [A1 A2 A3 A4 A5 A6 A7 A8 A9 A10 [N1 N2] A12].
    constructor.
    - apply (InvD_perm _ (k :: held s) _ (k :: locked s)); [symmetry; exact PH|symmetry; exact PL|].
      unfold dep_free in Hf. unfold s1.
      constructor; unfold pk_act, pk_loc in *;
        destruct (dep_of k) eqn:Ed;
        cbn [queue active local slocks blocks cont_rem flushed done term fresh flag thr set_thr take_dep set_queue];
        rewrite ?sdeps_cons, ?bdeps_cons, ?Ed; cbn [app];
        try assumption;
        try (rewrite <- A1; apply Permutation_app_head; apply Permutation_app_head; apply Permutation_app_tail;
             apply Permutation_flat_map; symmetry; exact PT);
        try (rewrite <- A3; f_equal; apply sum_perm; apply Permutation_map; symmetry; exact PT);
        try (rewrite A4; apply sum_perm; apply Permutation_map; exact PT);
        try (eapply Permutation_Forall; [exact PT|exact A7]);
        try (apply perm_skip; assumption);
        try (split; [try assumption|try assumption]; constructor; [apply memb_false_notin; apply negb_true_iff; exact Hf|assumption]);
        try (split; assumption);
        try (rewrite Forall_forall in *; intros e He; apply A12; apply (Permutation_in e (Permutation_sym PQ)); right; exact He).
    - apply Forall_set_thr; [rewrite Hthr; exact Pd|].
      destruct p as [| [k'|] | | | [k'|] | l' | | | | |]; cbn in Hl |- *; try exact I; discriminate.
    - apply Forall_set_thr.
      + rewrite Hthr. eapply Forall_impl; [|exact E]. intros a Ha Hx. cbn [flag set_thr]. rewrite Hflag. auto.
      + intros ->. cbn in Hp. discriminate.
    - rewrite (len_set_thr s1 t p0 p G1), Hthr. exact N.
    - intros Hn'. exfalso. rewrite (existsb_set_thr s1 t p0 p G1) in Hn'.
      apply orb_false_elim in Hn' as [Hn1 _].
      destruct p as [| [k'|] | | | [k'|] | l' | | | | |]; cbn in Hl, Hn1; discriminate.
  Qed.

  (* ---- a fetch that returns NO_TASK ---- *)
  Lemma deps_nil_free s k : slocks s = [] -> blocks s = [] -> dep_free s (dep_of k) = true.
  Proof. intros H1 H2. unfold dep_free. destruct (dep_of k); [reflexivity|rewrite H1|rewrite H2]; reflexivity. Qed.

  Lemma inv_none s t p0 p : Inv s -> get_thr s t = Some p0 -> pc_tasks p0 = [] -> pc_tasks p = [] ->
    pc_locked p0 = [] -> pc_locked p = [] -> active_pc p = false ->
    (p = PExit -> False) ->
    (forall e, In e (queue s) -> fst e = 0 -> fetchable s e = false) -> Inv (set_thr s t p).
  Proof.
    intros [D Pd E N L] G Hp0 Hp Hl0 Hl Hina Hne Hsh.
    assert (PH : Permutation (held (set_thr s t p)) (held s)).
    { rewrite held_set_thr, (held_of s t p0 G), Hp, Hp0. reflexivity. }
    assert (PL : Permutation (locked (set_thr s t p)) (locked s)).
    { rewrite locked_set_thr, (locked_of s t p0 G), Hl, Hl0. reflexivity. }
    constructor.
    - apply (InvD_ext s); try reflexivity. apply (InvD_perm s (held s) _ (locked s)); [symmetry; exact PH|symmetry; exact PL|]. exact D.
    - apply Forall_set_thr; [exact Pd|]. destruct p; cbn in Hina |- *; try exact I; discriminate.
    - apply Forall_set_thr; [exact E|]. intros X. exfalso. exact (Hne X).
    - rewrite (len_set_thr s t p0 p G). exact N.
    - intros Hn. rewrite (existsb_set_thr s t p0 p G) in Hn. apply orb_false_elim in Hn as [_ Hn2].
      assert (Hh : held s = []).
      { apply Permutation_nil. rewrite (held_of s t p0 G), Hp0. cbn [app]. rewrite (inactive_no_tasks _ Hn2). reflexivity. }
      assert (Hlk : locked s = []).
      { apply Permutation_nil. rewrite (locked_of s t p0 G), Hl0. cbn [app]. rewrite (inactive_no_locked _ Hn2). reflexivity. }
      split; [|split].
      + apply Permutation_nil. rewrite <- Hh. symmetry. exact PH.
      + apply Permutation_nil. rewrite <- Hlk. symmetry. exact PL.
      + destruct D as [_ _ _ _ _ _ _ _ A9 A10 _ _]. rewrite Hlk in A9, A10. cbn in A9, A10.
        apply Permutation_sym, Permutation_nil in A9. apply Permutation_sym, Permutation_nil in A10.
        apply Forall_forall. intros e He H0. cbn [queue set_thr] in He.
        specialize (Hsh e He H0). unfold fetchable in Hsh. rewrite (deps_nil_free s (snd e) A9 A10) in Hsh. discriminate.
  Qed.

  (* ---- clearing the run flag ---- *)
  Lemma inv_flag s t e : Inv s -> get_thr s t = Some (PCheck2 e) -> done s = NREQ ->
    Inv (set_thr (mkSt (queue s) (active s) (local s) (slocks s) (blocks s) (cont_rem s) (flushed s) (done s) (term s) (fresh s) false (thr s)) t (PHead None)).
  Proof.
    intros [D Pd E N L] G Hd.
    set (s1 := mkSt (queue s) (active s) (local s) (slocks s) (blocks s) (cont_rem s) (flushed s) (done s) (term s) (fresh s) false (thr s)).
    assert (G1 : get_thr s1 t = Some (PCheck2 e)) by exact G.
    assert (PH : Permutation (held (set_thr s1 t (PHead None))) (held s)).
    { rewrite held_set_thr. unfold others. cbn [thr s1]. rewrite (held_of s t _ G). reflexivity. }
    assert (PL : Permutation (locked (set_thr s1 t (PHead None))) (locked s)).
    { rewrite locked_set_thr. unfold others. cbn [thr s1]. rewrite (locked_of s t _ G). reflexivity. }
    constructor.
    - apply (InvD_perm _ (held s) _ (locked s)); [symmetry; exact PH|symmetry; exact PL|].
      destruct D as [A1 A2 A3 A4 A5 A6 A7 A8 A9 A10 A11 A12].
      constructor; unfold pk_act, pk_loc in *; cbn [queue active local slocks blocks cont_rem flushed done term fresh flag thr set_thr s1]; try assumption.
      intros _. exact Hd.
    - apply Forall_set_thr; [exact Pd|exact I].
    - apply Forall_set_thr; [|discriminate]. cbn [thr s1]. apply Forall_forall. intros x _ _. reflexivity.
    - rewrite (len_set_thr s1 t _ _ G1). exact N.
    - intros Hn. rewrite (existsb_set_thr s1 t _ _ G1) in Hn. apply orb_false_elim in Hn as [_ Hn2].
      assert (Hs : existsb active_pc (thr s) = false) by (rewrite (existsb_thr s t _ G); exact Hn2).
      destruct (L Hs) as (L1 & L2 & L3). split; [|split; [|exact L3]].
      + apply Permutation_nil. rewrite <- L1. symmetry. exact PH.
      + apply Permutation_nil. rewrite <- L2. symmetry. exact PL.
  Qed.

  (* ---- premature launch of a partially filled buffer ---- *)
  Lemma launch_facts sg d ps k : launch_task ngb sg d ps = Some k -> ps <> [] ->
    task_pk k = ps /\ task_src k = 0 /\ task_csrc k = 0 /\ task_ok k /\
    (forall q, shared_only k (match k with TReemit _ _ => 0 | _ => S q end)).
  Proof.
    unfold launch_task. intros H Hne. destruct d as [|d].
    - injection H as <-. cbn. repeat split; auto.
    - destruct (ngb sg (S d)) as [n|]; [|discriminate]. injection H as <-. cbn. repeat split; auto.
  Qed.

  Lemma inv_premature s t sg d q ps k : Inv s -> get_thr s t = Some PIdle -> aget (active s) (sg, d) = ps -> ps <> [] ->
    launch_task ngb sg d ps = Some k ->
    Inv (set_thr (enqueue (set_active s (adel (active s) (sg, d))) (match k with TReemit _ _ => 0 | _ => S q end) k) t PIdleFetch).
  Proof.
    intros [D Pd E N L] G Ha Hne Hl.
    destruct (launch_facts _ _ _ _ Hl Hne) as (K1 & K2 & K3 & K4 & K5).
    set (s1 := enqueue (set_active s (adel (active s) (sg, d))) (match k with TReemit _ _ => 0 | _ => S q end) k).
    assert (G1 : get_thr s1 t = Some PIdle) by exact G.
    assert (PH : Permutation (held (set_thr s1 t PIdleFetch)) (held s)).
    { rewrite held_set_thr. unfold others. cbn [thr s1 enqueue set_queue set_active]. rewrite (held_of s t _ G). reflexivity. }
    assert (PL : Permutation (locked (set_thr s1 t PIdleFetch)) (locked s)).
    { rewrite locked_set_thr. unfold others. cbn [thr s1 enqueue set_queue set_active]. rewrite (locked_of s t _ G). reflexivity. }
    constructor.
    - apply (InvD_perm _ (held s) _ (locked s)); [symmetry; exact PH|symmetry; exact PL|].
      destruct D as [A1 A2 A3 A4 A5 A6 A7 A8 A9 A10 A11 A12].
      pose proof (aget_adel (active s) (sg, d)) as PA. rewrite Ha in PA.
      constructor; unfold pk_act, pk_loc in *;
        cbn [queue active local slocks blocks cont_rem flushed done term fresh flag thr set_thr s1 enqueue set_queue set_active]; try assumption.
      + rewrite map_app. cbn [map snd]. rewrite <- ?app_assoc, ?flat_map_app. cbn [flat_map snd]. rewrite K1, app_nil_r.
        rewrite <- A1. rewrite flat_map_app. perm_nat.
      + rewrite map_app. cbn [map snd]. rewrite <- ?app_assoc, ?map_app, ?sum_app. cbn [map sum snd]. rewrite K2.
        rewrite <- A3. rewrite map_app, sum_app. lia.
      + rewrite map_app. cbn [map snd]. rewrite <- ?app_assoc, ?map_app, ?sum_app. cbn [map sum snd]. rewrite K3.
        rewrite A4. rewrite map_app, sum_app. lia.
      + apply adel_forall. exact A5.
      + rewrite map_app. cbn [map snd]. rewrite <- ?app_assoc. apply Forall_app in A7 as [F1 F2].
        apply Forall_app. split; [exact F1|]. constructor; [exact K4|exact F2].
      + apply Forall_app. split; [exact A12|]. constructor; [|constructor]. cbn [fst snd]. apply K5.
    - apply Forall_set_thr; [exact Pd|exact I].
    - apply Forall_set_thr; [exact E|discriminate].
    - rewrite (len_set_thr s1 t _ _ G1). exact N.
    - intros Hn. exfalso. rewrite (existsb_set_thr s1 t _ _ G1) in Hn. cbn in Hn. discriminate.
  Qed.

  (* ---- running a task: body, unlock, free; the new tasks are pending ---- *)
  Lemma drop_dep_fields s d :
    queue (drop_dep s d) = queue s /\ active (drop_dep s d) = active s /\ local (drop_dep s d) = local s
    /\ cont_rem (drop_dep s d) = cont_rem s /\ done (drop_dep s d) = done s /\ term (drop_dep s d) = term s
    /\ fresh (drop_dep s d) = fresh s /\ flag (drop_dep s d) = flag s /\ thr (drop_dep s d) = thr s.
  Proof. destruct d; repeat split; reflexivity. Qed.

  Lemma inv_run s t k r s1 ks : Inv s -> get_thr s t = Some (PInner (Some k)) ->
    run_body CAP NTHR reemit ngb s k r = Some (s1, ks) ->
    Inv (set_thr (drop_dep s1 (dep_of k)) t (PEnq (assign_queues (r_qsel r) 0 ks))).
  Proof.
    intros [D Pd E N L] G Hb.
    destruct D as [A1 A2 A3 A4 A5 A6 A7 A8 A9 A10 [N1 N2] A12].
    set (rest := flat_map pc_tasks (others s t)).
    set (restL := flat_map pc_locked (others s t)).
    assert (PHs : Permutation (held s) (k :: rest)) by (rewrite (held_of s t _ G); reflexivity).
    assert (PLs : Permutation (locked s) (k :: restL)) by (rewrite (locked_of s t _ G); reflexivity).
    assert (Hokk : task_ok k).
    { rewrite Forall_forall in A7. apply A7. apply in_or_app. right. apply (Permutation_in k (Permutation_sym PHs)). left. reflexivity. }
    destruct (body_spec CAP NTHR reemit ngb CAP_pos s k r s1 ks Hb Hokk A5 A6)
      as (B1 & B2 & B3 & B4 & B5 & BP & BF & BD & BS & BC1 & BC2 & BA & BL & BO & BT).
    set (s2 := drop_dep s1 (dep_of k)).
    destruct (drop_dep_fields s1 (dep_of k)) as (F1 & F2 & F3 & F4 & F5 & F6 & F7 & F8 & F9). fold s2 in F1, F2, F3, F4, F5, F6, F7, F8, F9.
    destruct (assign_queues_spec (r_qsel r) ks 0) as [Hms Hsh].
    set (pend := assign_queues (r_qsel r) 0 ks) in *.
    assert (Hthr2 : thr s2 = thr s) by congruence.
    assert (G2 : get_thr s2 t = Some (PInner (Some k))) by (unfold get_thr; rewrite Hthr2; exact G).
    assert (PH : Permutation (held (set_thr s2 t (PEnq pend))) (ks ++ rest)).
    { rewrite held_set_thr. unfold others, rest, others. rewrite Hthr2. cbn [pc_tasks]. rewrite Hms. reflexivity. }
    assert (PL : Permutation (locked (set_thr s2 t (PEnq pend))) restL).
    { rewrite locked_set_thr. unfold others, restL, others. rewrite Hthr2. reflexivity. }
    assert (PT : Permutation (map snd (queue s) ++ held s) (k :: map snd (queue s) ++ rest)).
    { rewrite PHs. symmetry. apply Permutation_middle. }
    assert (A1' := A1). rewrite (Permutation_flat_map task_pk PT) in A1'. cbn [flat_map] in A1'.
    assert (A3' : fresh s + (task_src k + sum (map task_src (map snd (queue s) ++ rest))) = NREQ).
    { rewrite <- A3. f_equal. rewrite (sum_perm _ _ (Permutation_map task_src PT)). reflexivity. }
    assert (A4' : cont_rem s = task_csrc k + sum (map task_csrc (map snd (queue s) ++ rest))).
    { rewrite A4. rewrite (sum_perm _ _ (Permutation_map task_csrc PT)). reflexivity. }
    assert (A7' : Forall task_ok (map snd (queue s) ++ rest)).
    { eapply Permutation_Forall in A7; [|exact PT]. inversion A7; assumption. }
    assert (Dnew : InvD s2 (ks ++ rest) restL).
    { constructor; unfold pk_act, pk_loc in *.
      - rewrite F1, F2, F3, F6, F7, B1, BF.
        rewrite seq_app_perm. rewrite <- ?app_assoc, ?flat_map_app in *. perm_nat.
      - rewrite F5, F6. lia.
      - rewrite F1, F7, B1, BF. rewrite <- ?app_assoc, ?map_app, ?sum_app in *. lia.
      - rewrite F1, F4, B1. rewrite <- ?app_assoc, ?map_app, ?sum_app in *. lia.
      - rewrite F2. exact BA.
      - rewrite F3. exact BL.
      - rewrite F1, B1. apply Forall_app in A7' as [X1 X2]. apply Forall_app. split; [exact X1|].
        apply Forall_app. split; assumption.
      - rewrite F8, F5, B4. intros Hfl. specialize (A8 Hfl).
        assert (Hlen : length (term s1) <= fresh s1).
        { assert (X := Permutation_length BP). rewrite !app_length, seq_length in X.
          assert (Y := Permutation_length A1'). rewrite !app_length, seq_length in Y. lia. }
        lia.
      - unfold s2.
        assert (A9' : Permutation (slocks s) (sdeps (k :: restL))) by (rewrite A9; unfold sdeps; apply Permutation_flat_map; exact PLs).
        rewrite sdeps_cons in A9'.
        destruct (dep_of k) eqn:Ed; cbn [drop_dep slocks app] in *; rewrite ?B2; try exact A9'.
        assert (Hin : In sg (slocks s)) by (apply (Permutation_in sg (Permutation_sym A9')); left; reflexivity).
        pose proof (remove1_perm sg (slocks s) Hin) as PR. perm_nat.
      - unfold s2.
        assert (A10' : Permutation (blocks s) (bdeps (k :: restL))) by (rewrite A10; unfold bdeps; apply Permutation_flat_map; exact PLs).
        rewrite bdeps_cons in A10'.
        destruct (dep_of k) eqn:Ed; cbn [drop_dep blocks app] in *; rewrite ?B3; try exact A10'.
        assert (Hin : In b (blocks s)) by (apply (Permutation_in b (Permutation_sym A10')); left; reflexivity).
        pose proof (remove1_perm b (blocks s) Hin) as PR. perm_nat.
      - unfold s2. destruct (dep_of k); cbn [drop_dep slocks blocks]; rewrite ?B2, ?B3; split; try assumption; apply NoDup_remove1; assumption.
      - rewrite F1, B1. exact A12. }
    constructor.
    - apply (InvD_ext s2); try reflexivity. apply (InvD_perm _ (ks ++ rest) _ restL); [symmetry; exact PH|symmetry; exact PL|exact Dnew].
    - apply Forall_set_thr; [rewrite Hthr2; exact Pd|exact Hsh].
    - apply Forall_set_thr; [|discriminate]. rewrite Hthr2. eapply Forall_impl; [|exact E].
      intros a Ha Hx. cbn [flag set_thr]. rewrite F8, B4. auto.
    - rewrite (len_set_thr s2 t _ _ G2), Hthr2. exact N.
    - intros Hn. exfalso. rewrite (existsb_set_thr s2 t _ _ G2) in Hn. cbn in Hn. discriminate.
  Qed.

  (* ---- adding one pending task to its queue ---- *)
  Lemma thr_pend s t l : Forall pend_ok (thr s) -> get_thr s t = Some (PEnq l) -> Forall (fun e => shared_only (snd e) (fst e)) l.
  Proof.
    intros F G. unfold get_thr in G. apply nth_error_In in G. rewrite Forall_forall in F. exact (F _ G).
  Qed.

  Lemma inv_enq s t q k rest0 : Inv s -> get_thr s t = Some (PEnq ((q, k) :: rest0)) ->
    Inv (set_thr (enqueue s q k) t (PEnq rest0)).
  Proof.
    intros [D Pd E N L] G.
    pose proof (thr_pend s t _ Pd G) as Hsh. inversion Hsh as [|? ? Hk Hr]; subst. cbn [fst snd] in Hk.
    set (s1 := enqueue s q k).
    assert (G1 : get_thr s1 t = Some (PEnq ((q, k) :: rest0))) by exact G.
    set (rest := flat_map pc_tasks (others s t)).
    assert (PHs : Permutation (held s) (k :: map snd rest0 ++ rest)) by (rewrite (held_of s t _ G); reflexivity).
    assert (PH : Permutation (held (set_thr s1 t (PEnq rest0))) (map snd rest0 ++ rest)).
    { rewrite held_set_thr. unfold others, rest, others. cbn [thr s1 enqueue set_queue pc_tasks]. reflexivity. }
    assert (PL : Permutation (locked (set_thr s1 t (PEnq rest0))) (locked s)).
    { rewrite locked_set_thr. unfold others. cbn [thr s1 enqueue set_queue]. rewrite (locked_of s t _ G). reflexivity. }
    destruct D as [A1 A2 A3 A4 A5 A6 A7 A8 A9 A10 A11 A12].
    assert (PT : Permutation (map snd (queue s) ++ held s) ((map snd (queue s) ++ [k]) ++ map snd rest0 ++ rest)).
    { rewrite PHs. rewrite <- app_assoc. cbn [app]. reflexivity. }
    constructor.
    - apply (InvD_perm _ (map snd rest0 ++ rest) _ (locked s)); [symmetry; exact PH|symmetry; exact PL|].
      constructor; unfold pk_act, pk_loc in *;
        cbn [queue active local slocks blocks cont_rem flushed done term fresh flag thr set_thr s1 enqueue set_queue]; try assumption.
      + rewrite (map_app snd). cbn [map snd]. rewrite <- A1. apply Permutation_app_head. apply Permutation_app_head. apply Permutation_app_tail.
        apply Permutation_flat_map. symmetry. exact PT.
      + rewrite (map_app snd). cbn [map snd]. rewrite <- A3. f_equal. apply sum_perm. apply Permutation_map. symmetry. exact PT.
      + rewrite (map_app snd). cbn [map snd]. rewrite A4. apply sum_perm. apply Permutation_map. exact PT.
      + rewrite (map_app snd). cbn [map snd]. eapply Permutation_Forall; [exact PT|exact A7].
      + apply Forall_app. split; [exact A12|]. constructor; [exact Hk|constructor].
    - apply Forall_set_thr; [exact Pd|exact Hr].
    - apply Forall_set_thr; [exact E|discriminate].
    - rewrite (len_set_thr s1 t _ _ G1). exact N.
    - intros Hn. exfalso. rewrite (existsb_set_thr s1 t _ _ G1) in Hn. cbn in Hn. discriminate.
  Qed.

  Lemma locked_nil p : pc_tasks p = [] -> pc_locked p = [].
  Proof. destruct p as [| [k|] | | | [k|] | l | | | | |]; cbn; intros H; try reflexivity; discriminate. Qed.

  Theorem trans_inv s s' : Inv s -> trans s s' -> Inv s'.
  Proof.
    intros HI T. destruct T.
    - eapply inv_move; eauto.
      match goal with H : forall l, ?p <> PEnq l |- pend_ok ?p => destruct p; cbn; try exact I; exfalso; eapply H; reflexivity end.
    - discriminate.
    - eapply inv_fetch; eassumption.
    - eapply inv_none; try eassumption; try (apply locked_nil; assumption).
    - eapply inv_flag; eauto.
    - eapply inv_premature; eauto.
    - eapply inv_run; eauto.
    - eapply inv_enq; eauto.
    - eapply inv_move; eauto; try reflexivity; try discriminate; try exact I.
  Qed.

  (* ---------- initial state and reachability ---------- *)
  Definition src_task (k : task) : Prop := match k with TSrcD _ c | TSrcC _ c => 0 < c | _ => False end.
  Definition init_ok (srcs : list task) (crem : nat) : Prop :=
    Forall src_task srcs /\ sum (map task_src srcs) = NREQ /\ sum (map task_csrc srcs) = crem.

  Lemma held_repeat_start n : flat_map pc_tasks (repeat PStart n) = [].
  Proof. induction n; cbn; auto. Qed.
  Lemma locked_repeat_start n : flat_map pc_locked (repeat PStart n) = [].
  Proof. induction n; cbn; auto. Qed.

  Lemma init_inv srcs crem : init_ok srcs crem -> 0 < NTHR -> Inv (init NTHR srcs crem).
  Proof.
    intros (H1 & H2 & H3) HT.
    assert (Hm : map snd (map (fun k => (0, k)) srcs) = srcs) by (rewrite map_map; cbn; apply map_id).
    assert (Hp : flat_map task_pk srcs = []).
    { clear -H1. induction H1 as [|k l Hk Hl IH]; [reflexivity|]. cbn [flat_map]. rewrite IH. destruct k; cbn in *; try reflexivity; contradiction. }
    constructor.
    - unfold held, locked, init. cbn [thr]. rewrite held_repeat_start, locked_repeat_start.
      constructor; unfold pk_act, pk_loc; cbn [queue active local slocks blocks cont_rem flushed done term fresh flag thr];
        rewrite ?Hm, ?app_nil_r; cbn [flat_map app seq length].
      + rewrite Hp. reflexivity.
      + reflexivity.
      + cbn. exact H2.
      + symmetry. exact H3.
      + constructor.
      + constructor.
      + clear -H1. induction H1 as [|k l Hk Hl IH]; constructor; [destruct k; cbn in *; auto; contradiction|exact IH].
      + discriminate.
      + reflexivity.
      + reflexivity.
      + split; constructor.
      + apply Forall_forall. intros e He. apply in_map_iff in He as [k [<- Hk]]. cbn.
        rewrite Forall_forall in H1. specialize (H1 k Hk). destruct k; cbn in *; auto; contradiction.
    - cbn [thr init]. apply Forall_forall. intros p Hp'. apply repeat_spec in Hp'. subst. exact I.
    - cbn [thr init flag]. apply Forall_forall. intros p Hp'. apply repeat_spec in Hp'. subst. discriminate.
    - cbn [thr init]. apply repeat_length.
    - cbn [thr init]. intros Hn. exfalso. destruct NTHR; [lia|]. cbn in Hn. discriminate.
  Qed.

  Definition reachable (srcs : list task) (crem : nat) (s : st) : Prop :=
    exists ls, run CAP NTHR NREQ reemit ngb true (init NTHR srcs crem) ls = Some s.

  Theorem reachable_inv srcs crem s : init_ok srcs crem -> 0 < NTHR -> reachable srcs crem s -> Inv s.
  Proof.
    intros Hi HT [ls Hr]. pose proof (init_inv _ _ Hi HT) as H0.
    revert Hr H0. generalize (init NTHR srcs crem). induction ls as [|l ls IH]; intros s0 Hr H0; cbn [run] in Hr.
    - injection Hr as <-. exact H0.
    - destruct (step s0 l) as [s1|] eqn:E; [|discriminate].
      apply (IH s1 Hr). eapply trans_inv; [exact H0|]. eapply step_trans; eauto.
  Qed.

  (* ---------- consequences ---------- *)
  Lemma all_done_everything_empty s : InvD s (held s) (locked s) -> done s = NREQ ->
    pk_act s = [] /\ pk_loc s = [] /\ flat_map task_pk (all_tasks s) = [] /\ Permutation (term s) (seq 0 NREQ)
    /\ pending s = 0 /\ fresh s = NREQ.
  Proof.
    intros [A1 A2 A3 A4 A5 A6 A7 A8 A9 A10 A11 A12] Hd.
    assert (X := Permutation_length A1). rewrite !app_length, seq_length in X.
    assert (Hfr : fresh s = NREQ) by lia.
    assert (L1 : length (pk_act s) = 0) by lia. assert (L2 : length (pk_loc s) = 0) by lia.
    assert (L3 : length (flat_map task_pk (map snd (queue s) ++ held s)) = 0) by lia.
    apply length_zero_iff_nil in L1, L2, L3.
    rewrite L1, L2, L3 in A1. cbn [app] in A1. rewrite Hfr in A1.
    unfold pending, all_tasks.
    split; [exact L1|]. split; [exact L2|]. split; [exact L3|]. split; [exact A1|]. split; [lia|exact Hfr].
  Qed.

  Lemma nonempty_flat_nil l : nonempty_entries l -> flat_map snd l = [] -> l = [].
  Proof.
    intros H E. destruct l as [|[k v] l]; [reflexivity|]. inversion H; subst. cbn in *.
    destruct v; [contradiction|discriminate].
  Qed.

  (* 1. every launched packet is in exactly one place or terminated, and the counter is exact *)
  Theorem packets_accounted srcs crem s : init_ok srcs crem -> 0 < NTHR -> reachable srcs crem s ->
    Permutation (packets s) (seq 0 (fresh s)) /\ NoDup (packets s) /\ done s = length (term s) /\ fresh s + pending s = NREQ.
  Proof.
    intros Hi HT Hr. destruct (reachable_inv _ _ _ Hi HT Hr) as [[A1 A2 A3 A4 A5 A6 A7 A8 A9 A10 A11 A12] _ _ _ _].
    assert (P : Permutation (packets s) (seq 0 (fresh s))) by exact A1.
    repeat split; auto. eapply Permutation_NoDup; [symmetry; exact P|apply seq_NoDup].
  Qed.

  (* 2. the run flag is cleared only when all requested packets have terminated, each exactly once *)
  Theorem flag_cleared_only_when_all_done srcs crem s : init_ok srcs crem -> 0 < NTHR -> reachable srcs crem s ->
    flag s = false -> Permutation (term s) (seq 0 NREQ) /\ done s = NREQ.
  Proof.
    intros Hi HT Hr Hf. destruct (reachable_inv _ _ _ Hi HT Hr) as [D _ _ _ _].
    pose proof (d_flag _ _ _ D Hf) as Hd. destruct (all_done_everything_empty s D Hd) as (_ & _ & _ & P & _ & _). auto.
  Qed.

  (* 3. threads never hold tasks with the same dependency at the same time *)
  Theorem mutual_exclusion srcs crem s : init_ok srcs crem -> 0 < NTHR -> reachable srcs crem s ->
    NoDup (sdeps (locked s)) /\ NoDup (bdeps (locked s)).
  Proof.
    intros Hi HT Hr. destruct (reachable_inv _ _ _ Hi HT Hr) as [[A1 A2 A3 A4 A5 A6 A7 A8 A9 A10 [N1 N2] A12] _ _ _ _].
    split; eapply Permutation_NoDup; eauto.
  Qed.

  (* 4. when every thread has left the loop nothing is left behind *)
  Theorem clean_at_exit srcs crem s : init_ok srcs crem -> 0 < NTHR -> reachable srcs crem s ->
    Forall (fun p => p = PExit) (thr s) ->
    queue s = [] /\ active s = [] /\ local s = [] /\ slocks s = [] /\ blocks s = []
    /\ Permutation (term s) (seq 0 NREQ) /\ done s = NREQ /\ flag s = false.
  Proof.
    intros Hi HT Hr Hall. destruct (reachable_inv _ _ _ Hi HT Hr) as [D Pd E N L].
    assert (Hflag : flag s = false).
    { destruct (thr s) as [|p l] eqn:Et; [cbn in N; lia|].
      inversion E as [|? ? Hp _]; subst. inversion Hall as [|? ? Hp' _]; subst. exact (Hp eq_refl). }
    assert (Hina : existsb active_pc (thr s) = false).
    { clear -Hall. induction Hall as [|p l Hp Hl IH]; [reflexivity|]. cbn [existsb]. rewrite IH, Hp. reflexivity. }
    destruct (L Hina) as (Hh & Hlk & Hq).
    pose proof (d_flag _ _ _ D Hflag) as Hd.
    destruct (all_done_everything_empty s D Hd) as (E1 & E2 & E3 & P & E4 & E5).
    destruct D as [A1 A2 A3 A4 A5 A6 A7 A8 A9 A10 A11 A12].
    assert (Hact : active s = []) by (apply nonempty_flat_nil; assumption).
    assert (Hloc : local s = []) by (apply nonempty_flat_nil; assumption).
    rewrite Hlk in A9, A10. cbn in A9, A10.
    apply Permutation_sym, Permutation_nil in A9. apply Permutation_sym, Permutation_nil in A10.
    assert (Hqueue : queue s = []).
    { destruct (queue s) as [|[q k] l] eqn:Eq; [reflexivity|exfalso].
      unfold all_tasks, pending in *. rewrite Hh, app_nil_r in *.
      try rewrite Eq in E3; try rewrite Eq in E4; try rewrite Eq in A7; try rewrite Eq in A12; try rewrite Eq in Hq; try rewrite Eq in A3.
      cbn [map snd flat_map sum] in *.
      inversion A7 as [|? ? Hk _]; subst. inversion A12 as [|? ? Hs _]; subst. inversion Hq as [|? ? Hq0 _]; subst.
      cbn [fst snd] in *.
      destruct k as [sg c|b c|b|sg ps|sg ps]; cbn [task_ok task_src task_pk shared_only] in *; try lia;
        try (destruct ps; [apply Hk; reflexivity|cbn in E3; discriminate E3]). }
    repeat split; assumption.
  Qed.
End Main.

(* ---------- the loop condition of the pinned commit (defect O7) ----------
   2 threads, buffer size 2, one continuous-source task of 2 packets in a single subgrid:
   thread 0 idles, fails the termination test and fetches, in the else branch, the (empty) flush task of
   block 1; meanwhile thread 1 finishes everything and clears the flag; thread 0 then leaves the loop at
   "while (global_run_flag)" WITH the fetched task: its dependency stays locked for the next iteration. *)
Definition o7_ngb (sg d : nat) : option nat := match d with O => Some sg | _ => None end.
Definition o7_r0 := mkRun [] [] [] (fun _ => 0).
Definition o7_schedule : list label :=
  [ LFetch 1 0;
    LFetchNone 0; LHead 0; LPrematureSkip 0; LFetchNone 0; LInner 0; LCheck1 0; LCheck2 0;
    LHead 1; LRun 1 (mkRun [] [] [0; 0] (fun _ => 1)); LEnq 1; LEnq 1; LEnq 1; LEnq 1;
    LFetch 1 0; LRun 1 (mkRun [0; 1] [] [] (fun _ => 0)); LEnq 1;
    LFetch 1 0; LRun 1 o7_r0; LEnq 1;
    LFetch 0 0;
    LFetchNone 1; LInner 1; LCheck1 1; LCheck2 1;
    LHead 1;
    LHead 0 ].
Definition o7_final (fixed : bool) : option st := run 2 2 2 false o7_ngb fixed (init 2 [TSrcC 0 2] 2) o7_schedule.

Lemma pinned_loop_refuted :
  exists s, o7_final false = Some s /\ thr s = [PExit; PExit] /\ blocks s = [1] /\ done s = 2.
Proof. eexists. split; [vm_compute; reflexivity|]. repeat split. Qed.

Lemma repaired_loop_same_schedule :
  exists s, o7_final true = Some s /\ thr s = [PInner (Some (TFlush 1)); PExit].
Proof. eexists. split; [vm_compute; reflexivity|]. reflexivity. Qed.

Lemma o7_init_ok : init_ok 2 [TSrcC 0 2] 2.
Proof. unfold init_ok. cbn. repeat split; try lia. constructor; [cbn; lia|constructor]. Qed.
