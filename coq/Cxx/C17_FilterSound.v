(* C17: soundness of the floating point filters, part 3: the two filters of src/ExactGeometricTests.hpp.
     - coordinate differences of doubles in [1,2) are exact, multiples of 2^-52, at most 1 in magnitude ([diff_ok]);
     - the leaves of the error-bound expression (|d|, |fl(d d')|, fl(norm2)) and their exact counterparts ([leaf_close]);
     - [sound_neg]/[sound_pos]: for a result tree E and a magnitude tree M whose exact value is E's absolute-value tree,
       a strict comparison of the computed result against the computed bound fixes the sign of the exact value;
     - the PrimFloat code of C17_Defs is turned into these trees ([orient_filter_B], [insphere_filter_B], by the
       Prim2B homomorphisms of Flocq) and the exact value is the real determinant;
     - [orient_filter_sound], [insphere_filter_sound]: a decision of the filter is the result of the exact function. *)
From Coq Require Import ZArith List Bool Lia Reals Lra Psatz Floats SpecFloat.
From Flocq Require Import Core Relative BinarySingleNaN.
Require Flocq.IEEE754.PrimFloat.
From Interval Require Import Tactic.
From CMI Require Import Cxx.C17_Defs Cxx.C17_Proofs Cxx.C17_Real Cxx.C17_Filter Cxx.C17_FilterB.
Import ListNotations.
Local Open Scope R_scope.

Notation BABS := (@Babs FloatOps.prec emax).
Notation BOPP := (@Bopp FloatOps.prec emax).
Notation BLT := (@Bltb FloatOps.prec emax).
Definition Bz : bf := B754_zero false.
Definition P (bits : Z) : bf := FP.Prim2B (f_of_bits bits).

(* ------------------------------------------------------------------------- *)
(* coordinate differences are exact *)

Lemma coord_diff : forall x y, coordR x - coordR y = F2R (Float radix2 (get_mantissa x - get_mantissa y) (-52)).
Proof.
  intros. unfold coordR, SCALE, MANT, F2R. cbn [Fnum Fexp]. rewrite minus_IZR.
  change (bpow radix2 (-52)) with (/ IZR (2 ^ 52)). field. apply not_0_IZR. compute; discriminate.
Qed.

Definition leaf_ok (b : bf) : Prop := fin b = true /\ on_grid (-52) (B2R' b) /\ Rabs (B2R' b) <= bpow radix2 0.

Lemma diff_ok : forall x y, in_range x -> in_range y ->
  B2R' (BSUB (P x) (P y)) = coordR x - coordR y /\ leaf_ok (BSUB (P x) (P y)).
Proof.
  intros x y Hx Hy. destruct (coordR_is_value x Hx) as [F1 V1]. destruct (coordR_is_value y Hy) as [F2 V2].
  pose proof (Bminus_correct _ _ FP.Hprec FP.Hmax mode_NE _ _ F1 F2) as H. fold (P x) (P y) in *. rewrite V1, V2 in H.
  pose proof (get_mantissa_range x) as Mx. pose proof (get_mantissa_range y) as My. unfold MANT in *.
  assert (Hfmt : generic_format radix2 fexp (coordR x - coordR y)).
  { rewrite coord_diff. apply generic_format_FLT.
    apply FLT_spec with (f := Float radix2 (get_mantissa x - get_mantissa y) (-52)); [reflexivity | |].
    - cbn [Fnum]. change (Zpower radix2 prec) with (2 ^ 53)%Z. lia.
    - cbn [Fexp]. unfold emin. lia. }
  assert (Hr : round radix2 (SpecFloat.fexp FloatOps.prec emax) (round_mode mode_NE) (coordR x - coordR y) = coordR x - coordR y)
    by (apply round_generic; [apply valid_rnd_N | exact Hfmt]).
  rewrite Hr in H.
  pose proof (coordR_range x). pose proof (coordR_range y).
  assert (Hb : Rabs (coordR x - coordR y) <= 1) by (apply Rabs_le; lra).
  rewrite Rlt_bool_true in H.
  - destruct H as [E1 [E2 _]]. split; [exact E1 |]. split; [exact E2 |]. rewrite E1. split; [| exact Hb].
    exists (get_mantissa x - get_mantissa y)%Z. apply coord_diff.
  - eapply Rle_lt_trans; [exact Hb |]. change 1 with (bpow radix2 0). apply bpow_lt. reflexivity.
Qed.

Lemma Bz_ok : leaf_ok Bz.
Proof. unfold leaf_ok, Bz. simpl. split; [reflexivity |]. split; [apply grid_0 |]. rewrite Rabs_R0. lra. Qed.

Lemma env_forall : forall {A} (Q : A -> Prop) d l, Q d -> Forall Q l -> forall i, Q (env d l i).
Proof.
  intros A Q d l Hd Hl i. unfold env. destruct (nth_in_or_default i l d) as [Hin | ->]; [| exact Hd].
  rewrite Forall_forall in Hl. apply Hl. exact Hin.
Qed.

(* ------------------------------------------------------------------------- *)
(* the error factor *)

Definition cB : bf := FP.Prim2B ERRFAC.
Definition cR : R := F2R (Float radix2 7737125245533627 (-86)).

Lemma cB_ok : fin cB = true /\ B2R' cB = cR.
Proof.
  unfold cB, FP.Prim2B. rewrite is_finite_SF2B, B2R_SF2B.
  replace (Prim2SF ERRFAC) with (S754_finite false 7737125245533627 (-86)) by (vm_compute; reflexivity).
  split; reflexivity.
Qed.

Lemma cR_val : cR = 7737125245533627 / 77371252455336267181195264.
Proof. unfold cR, F2R. cbn [Fnum Fexp]. change (bpow radix2 (-86)) with (/ IZR (2 ^ 86)). change (2 ^ 86)%Z with 77371252455336267181195264%Z. reflexivity. Qed.

Lemma cR_range : 0 <= cR <= bpow radix2 0.
Proof. rewrite cR_val. change (bpow radix2 0) with 1. split; interval. Qed.

Lemma u_val : u = / 9007199254740992.
Proof. unfold u. change (- prec + 1)%Z with (-52)%Z. change (bpow radix2 (-52)) with (/ IZR (2 ^ 52)). change (2 ^ 52)%Z with 4503599627370496%Z. field. Qed.

(* ------------------------------------------------------------------------- *)
(* leaves of the magnitude expression: |d_i|, |fl(d_i d_j)|, fl(norm2) *)

Inductive leaf := LVar (i : nat) | LMul (i j : nat) | LNrm (i j k : nat).

Definition nrm_tree (i j k : nat) : expr := Add (Add (Mul (Var i) (Var i)) (Mul (Var j) (Var j))) (Mul (Var k) (Var k)).
Definition leaf_tree (l : leaf) : expr :=
  match l with LVar i => Var i | LMul i j => Mul (Var i) (Var j) | LNrm i j k => nrm_tree i j k end.
Definition leafB (rB : nat -> bf) (l : leaf) : bf :=
  match l with LNrm _ _ _ => evalB rB (leaf_tree l) | _ => BABS (evalB rB (leaf_tree l)) end.
Definition leafF (r : nat -> R) (l : leaf) : R :=
  match l with LNrm _ _ _ => evalF r (leaf_tree l) | _ => Rabs (evalF r (leaf_tree l)) end.
Definition leafX (r : nat -> R) (l : leaf) : R := evalA r (leaf_tree l).

Lemma leaf_tree_bok : forall l, bok 0 (leaf_tree l) = true.
Proof. destruct l; reflexivity. Qed.
Lemma leaf_tree_bexp : forall l, (bexp 0 (leaf_tree l) <= 2)%Z.
Proof. destruct l; simpl; lia. Qed.
Lemma leaf_tree_nosub : forall l, nosub (leaf_tree l) = true.
Proof. destruct l; reflexivity. Qed.
Lemma leaf_tree_wf : forall l, wf (-52) (leaf_tree l) = true.
Proof. destruct l; reflexivity. Qed.
Lemma leaf_tree_gexp : forall l, (-104 <= gexp (-52) (leaf_tree l))%Z.
Proof. destruct l; simpl; lia. Qed.
Lemma leaf_tree_wt : forall l, (wt 0 (leaf_tree l) <= 5)%nat.
Proof. destruct l; simpl; lia. Qed.

Lemma nosub_evalA : forall r e, nosub e = true -> evalR (fun i => Rabs (r i)) e = evalA r e.
Proof.
  unfold evalA. induction e; simpl; intros H; try discriminate; try reflexivity;
    apply andb_prop in H; destruct H as [H1 H2]; rewrite IHe1, IHe2 by assumption; reflexivity.
Qed.

Lemma D_anti : forall k k', (k <= k')%nat -> D k' <= D k.
Proof.
  intros k k' H. replace k' with (k + (k' - k))%nat by lia. rewrite D_add.
  pose proof (D_pos k). pose proof (D_le_1 (k' - k)). pose proof (D_pos (k' - k)). nra.
Qed.

Lemma leafF_abs : forall r l, leafF r l = evalF (fun i => Rabs (r i)) (leaf_tree l).
Proof.
  intros r [i | i j | i j k]; simpl.
  - reflexivity.
  - rewrite <- Rabs_mult. symmetry. apply round_NE_abs. apply FLT_exp_valid. apply prec_gt_0_53.
  - assert (Hs : forall x, Rabs x * Rabs x = x * x) by (intros x; rewrite <- Rabs_mult; apply Rabs_pos_eq; nra).
    rewrite !Hs. reflexivity.
Qed.

Section Leaves.
  Variable rB : nat -> bf.
  Hypothesis rB_ok : forall i, leaf_ok (rB i).
  Let r := fun i => B2R' (rB i).

  Lemma rB_fin : forall i, fin (rB i) = true. Proof. intros i. apply (rB_ok i). Qed.
  Lemma rB_bnd : forall i, Rabs (B2R' (rB i)) <= bpow radix2 0. Proof. intros i. apply (rB_ok i). Qed.
  Lemma r_grid : forall i, on_grid (-52) (r i). Proof. intros i. apply (rB_ok i). Qed.

  Lemma leafB_ok : forall l, fin (leafB rB l) = true /\ B2R' (leafB rB l) = leafF r l /\ Rabs (leafF r l) <= bpow radix2 2.
  Proof.
    intros l. destruct (evalB_correct 0 rB rB_fin rB_bnd (leaf_tree l) (leaf_tree_bok l)) as [F [V B]].
    assert (B' : Rabs (evalF r (leaf_tree l)) <= bpow radix2 2)
      by (eapply Rle_trans; [exact B | apply bpow_le; apply leaf_tree_bexp]).
    destruct l; unfold leafB, leafF.
    - rewrite is_finite_Babs, B2R_Babs, V, Rabs_Rabsolu. auto.
    - rewrite is_finite_Babs, B2R_Babs, V, Rabs_Rabsolu. auto.
    - auto.
  Qed.

  Lemma leaf_close : forall l, D 5 * leafX r l <= leafF r l /\ 0 <= leafX r l /\ on_grid (-104) (leafF r l).
  Proof.
    intros l. rewrite leafF_abs. unfold leafX. rewrite <- (nosub_evalA r _ (leaf_tree_nosub l)).
    assert (Hg : forall i, on_grid (-52) (Rabs (r i))) by (intros i; apply grid_abs, r_grid).
    assert (Hp : forall i, 0 <= Rabs (r i)) by (intros i; apply Rabs_pos).
    assert (Hc : forall i, D 0 * Rabs (r i) <= Rabs (r i)) by (intros i; unfold D; simpl; lra).
    destruct (pos_lower (-52) 0 _ _ Hg Hp Hc (leaf_tree l) (leaf_tree_nosub l) (leaf_tree_wf l)) as [H1 H2].
    split; [| split; [exact H2 |]].
    - eapply Rle_trans; [| exact H1]. apply Rmult_le_compat_r; [exact H2 |]. apply D_anti, leaf_tree_wt.
    - eapply grid_weaken; [apply leaf_tree_gexp | apply (evalF_grid (-52) _ Hg _ (leaf_tree_wf l))].
  Qed.
End Leaves.

Definition envM (rB : nat -> bf) (ls : list leaf) : nat -> bf := fun i => leafB rB (nth i ls (LVar 0)).

(* ------------------------------------------------------------------------- *)
(* generic soundness of a filter given by a result tree E and a magnitude tree M over the leaves ls *)
Section Sound.
  Variable rB : nat -> bf.
  Hypothesis rB_ok : forall i, leaf_ok (rB i).
  Let r := fun i => B2R' (rB i).
  Variables (E M : expr) (ls : list leaf).
  Hypothesis E_bok : bok 0 E = true.
  Hypothesis E_wf : wf (-52) E = true.
  Hypothesis M_bok : bok 2 M = true.
  Hypothesis M_nosub : nosub M = true.
  Hypothesis M_wf : wf (-104) M = true.
  Hypothesis M_small : (bexp 2 M < 1024)%Z /\ (emin <= bexp 2 M)%Z /\ (emin <= -86 + gexp (-104) M)%Z.
  Hypothesis M_is_A : forall q, evalR (fun i => leafX q (nth i ls (LVar 0))) M = evalA q E.
  Hypothesis numeric : G (cnt E) <= cR * ((1 - u) * D (wt 5 M)).

  Let resB := evalB rB E.
  Let ebB := BMUL cB (evalB (envM rB ls) M).

  Lemma res_ok : fin resB = true /\ B2R' resB = evalF r E.
  Proof. destruct (evalB_correct 0 rB (rB_fin rB rB_ok) (rB_bnd rB rB_ok) E E_bok) as [F [V _]]. auto. Qed.

  Lemma eb_ok : fin ebB = true /\ B2R' ebB = rnd (cR * evalF (fun i => leafF r (nth i ls (LVar 0))) M).
  Proof.
    assert (HF : forall i, fin (envM rB ls i) = true) by (intros i; apply (leafB_ok rB rB_ok)).
    assert (HV : forall i, B2R' (envM rB ls i) = leafF r (nth i ls (LVar 0))) by (intros i; apply (leafB_ok rB rB_ok)).
    assert (HB : forall i, Rabs (B2R' (envM rB ls i)) <= bpow radix2 2) by (intros i; rewrite HV; apply (leafB_ok rB rB_ok)).
    destruct (evalB_correct 2 (envM rB ls) HF HB M M_bok) as [F [V B]].
    assert (Hext : evalF (fun i => B2R' (envM rB ls i)) M = evalF (fun i => leafF r (nth i ls (LVar 0))) M).
    { clear -HV. induction M; simpl; try (rewrite IHe1, IHe2; reflexivity). apply HV. }
    rewrite Hext in V, B. clear Hext.
    destruct cB_ok as [Fc Vc]. destruct cR_range as [c0 c1]. destruct M_small as [Hhi [Hlo _]].
    pose proof (Bmult_correct _ _ FP.Hprec FP.Hmax mode_NE cB (evalB (envM rB ls) M)) as H.
    rewrite Vc, V in H. rewrite Rlt_bool_true in H.
    - destruct H as [H1 [H2 _]]. rewrite Fc, F in H2. split; [exact H2 | exact H1].
    - eapply Rle_lt_trans; [| apply bpow_lt; exact Hhi].
      apply rnd_le_bpow; [exact Hlo |]. rewrite Rabs_mult. rewrite (Rabs_pos_eq cR c0).
      replace (bpow radix2 (bexp 2 M)) with (bpow radix2 0 * bpow radix2 (bexp 2 M)) by (simpl; ring).
      apply Rmult_le_compat; [exact c0 | apply Rabs_pos | exact c1 | exact B].
  Qed.

  Lemma sound_error : Rabs (evalF r E - evalR r E) <= B2R' ebB.
  Proof.
    destruct eb_ok as [_ ->]. destruct M_small as [_ [_ Hg]]. destruct cR_range as [c0 _].
    apply (filter_error r E (-104) 5 (fun i => leafF r (nth i ls (LVar 0))) (fun i => leafX r (nth i ls (LVar 0))) M cR (-86)).
    - apply (r_grid rB rB_ok).
    - exact E_wf.
    - intros i. apply (leaf_close rB rB_ok).
    - intros i. apply (leaf_close rB rB_ok).
    - intros i. apply (leaf_close rB rB_ok).
    - exact M_nosub.
    - exact M_wf.
    - apply M_is_A.
    - exact c0.
    - eexists. reflexivity.
    - exact Hg.
    - exact numeric.
  Qed.

  Theorem sound_neg : BLT resB (BOPP ebB) = true -> evalR r E < 0.
  Proof.
    destruct res_ok as [Fr Vr]. destruct eb_ok as [Fe _]. intros H.
    rewrite Bltb_correct in H by (rewrite ?is_finite_Bopp; assumption). rewrite B2R_Bopp, Vr in H.
    revert H. case Rlt_bool_spec; [intros H _ | discriminate]. pose proof sound_error as HE. apply Rabs_le_inv in HE. lra.
  Qed.

  Theorem sound_pos : BLT ebB resB = true -> 0 < evalR r E.
  Proof.
    destruct res_ok as [Fr Vr]. destruct eb_ok as [Fe _]. intros H.
    rewrite Bltb_correct in H by assumption. rewrite Vr in H.
    revert H. case Rlt_bool_spec; [intros H _ | discriminate]. pose proof sound_error as HE. apply Rabs_le_inv in HE. lra.
  Qed.
End Sound.

Lemma diff_val : forall x y, in_range x -> in_range y -> B2R' (BSUB (P x) (P y)) = coordR x - coordR y.
Proof. intros. apply diff_ok; assumption. Qed.

Ltac push_Prim2B :=
  repeat first [ rewrite FP.add_equiv | rewrite FP.mul_equiv | rewrite FP.sub_equiv | rewrite FP.abs_equiv ].

(* ------------------------------------------------------------------------- *)
(* orient3d_adaptive *)

Section DShapeO.
  Variable T : Type.
  Variables sub mul add : T -> T -> T.
  Definition orient_dshape (adx ady adz bdx bdy bdz cdx cdy cdz : T) : T :=
    add (add (mul adz (sub (mul bdx cdy) (mul cdx bdy))) (mul bdz (sub (mul cdx ady) (mul adx cdy))))
        (mul cdz (sub (mul adx bdy) (mul bdx ady))).
End DShapeO.

Definition Eo : expr := Eval cbv in
  orient_dshape expr Sub Mul Add (Var 0) (Var 1) (Var 2) (Var 3) (Var 4) (Var 5) (Var 6) (Var 7) (Var 8).
(* leaves of the magnitude expression, in terms of the differences 0..8 = adx ady adz bdx bdy bdz cdx cdy cdz *)
Definition lso : list leaf := [LMul 3 7; LMul 6 4; LMul 6 1; LMul 0 7; LMul 0 4; LMul 3 1; LVar 2; LVar 5; LVar 8].
Definition Mo : expr :=
  Add (Add (Mul (Add (Var 0) (Var 1)) (Var 6)) (Mul (Add (Var 2) (Var 3)) (Var 7))) (Mul (Add (Var 4) (Var 5)) (Var 8)).

Definition diffs_o (a b c d : pt) : list bf :=
  [BSUB (P (px a)) (P (px d)); BSUB (P (py a)) (P (py d)); BSUB (P (pz a)) (P (pz d));
   BSUB (P (px b)) (P (px d)); BSUB (P (py b)) (P (py d)); BSUB (P (pz b)) (P (pz d));
   BSUB (P (px c)) (P (px d)); BSUB (P (py c)) (P (py d)); BSUB (P (pz c)) (P (pz d))].

Lemma orient_filter_B : forall a b c d,
  FP.Prim2B (fst (orient_filter (fpt_of a) (fpt_of b) (fpt_of c) (fpt_of d))) = evalB (env Bz (diffs_o a b c d)) Eo /\
  FP.Prim2B (snd (orient_filter (fpt_of a) (fpt_of b) (fpt_of c) (fpt_of d))) = BMUL cB (evalB (envM (env Bz (diffs_o a b c d)) lso) Mo).
Proof.
  intros. cbv [orient_filter fsubv fpt_of fx fy fz fst snd]. push_Prim2B.
  cbv [eval Eo Mo env envM nth diffs_o lso leafB leaf_tree P cB]. split; reflexivity.
Qed.

Lemma numeric_o : G (cnt Eo) <= cR * ((1 - u) * D (wt 5 Mo)).
Proof.
  change (cnt Eo) with 5%nat. change (wt 5 Mo) with 53%nat. unfold G, D. rewrite u_val, cR_val. interval with (i_prec 120).
Qed.

Lemma Mo_is_A : forall q, evalR (fun i => leafX q (nth i lso (LVar 0))) Mo = evalA q Eo.
Proof. intros q. unfold evalA. cbn [eval Mo Eo nth lso]. unfold leafX, evalA. cbn [eval leaf_tree]. ring. Qed.

Theorem orient_filter_sound : forall a b c d s,
  pt_in_range a -> pt_in_range b -> pt_in_range c -> pt_in_range d ->
  orient3d_filter a b c d = Some s -> s = orient3d_exact a b c d.
Proof.
  intros a b c d s [Hax [Hay Haz]] [Hbx [Hby Hbz]] [Hcx [Hcy Hcz]] [Hdx [Hdy Hdz]].
  unfold orient3d_filter, filter_decision.
  destruct (orient_filter_B a b c d) as [HR HE].
  destruct (orient_filter (fpt_of a) (fpt_of b) (fpt_of c) (fpt_of d)) as [res eb]. cbn [fst snd] in HR, HE.
  rewrite !FP.ltb_equiv, FP.opp_equiv, HR, HE.
  set (rB := env Bz (diffs_o a b c d)).
  assert (rB_ok : forall i, leaf_ok (rB i)).
  { apply env_forall; [exact Bz_ok |]. unfold diffs_o. repeat (apply Forall_cons; [apply diff_ok; assumption |]). apply Forall_nil. }
  assert (Hdet : evalR (fun i => B2R' (rB i)) Eo =
                 orientR (coordR (px a)) (coordR (py a)) (coordR (pz a)) (coordR (px b)) (coordR (py b)) (coordR (pz b))
                         (coordR (px c)) (coordR (py c)) (coordR (pz c)) (coordR (px d)) (coordR (py d)) (coordR (pz d))).
  { unfold rB. cbn [eval Eo env nth diffs_o].
    rewrite !diff_val by assumption. unfold orientR, det3. ring. }
  pose proof (orient_exact_is_real_sign a b c d) as Hs. rewrite <- Hdet in Hs.
  assert (Hsmall : (bexp 2 Mo < 1024)%Z /\ (emin <= bexp 2 Mo)%Z /\ (emin <= -86 + gexp (-104) Mo)%Z) by (vm_compute; repeat split; discriminate).
  destruct (BLT (evalB rB Eo) (BOPP (BMUL cB (evalB (envM rB lso) Mo)))) eqn:Hneg.
  - intros [= <-].
    pose proof (sound_neg rB rB_ok Eo Mo lso eq_refl eq_refl eq_refl eq_refl eq_refl Hsmall Mo_is_A numeric_o Hneg) as Hlt.
    destruct Hs as [[_ Hc] | [[_ Hc] | [Hc _]]]; [lra | lra | symmetry; exact Hc].
  - destruct (BLT (BMUL cB (evalB (envM rB lso) Mo)) (evalB rB Eo)) eqn:Hpos; [| discriminate].
    intros [= <-].
    pose proof (sound_pos rB rB_ok Eo Mo lso eq_refl eq_refl eq_refl eq_refl eq_refl Hsmall Mo_is_A numeric_o Hpos) as Hgt.
    destruct Hs as [[Hc _] | [[_ Hc] | [_ Hc]]]; [symmetry; exact Hc | lra | lra].
Qed.

(* ------------------------------------------------------------------------- *)
(* insphere_adaptive *)

Section DShapeI.
  Variable T : Type.
  Variables sub mul add : T -> T -> T.
  Local Notation "x - y" := (sub x y).
  Local Notation "x * y" := (mul x y).
  Local Notation "x + y" := (add x y).
  Definition insphere_dshape (aex aey aez bex bey bez cex cey cez dex dey dez : T) : T :=
    let ab := aex * bey - bex * aey in
    let bc := bex * cey - cex * bey in
    let cd := cex * dey - dex * cey in
    let da := dex * aey - aex * dey in
    let ac := aex * cey - cex * aey in
    let bd := bex * dey - dex * bey in
    let abc := (aez * bc - bez * ac) + cez * ab in
    let bcd := (bez * cd - cez * bd) + dez * bc in
    let cda := (cez * da + dez * ac) + aez * cd in
    let dab := (dez * ab + aez * bd) + bez * da in
    let aenrm2 := (aex * aex + aey * aey) + aez * aez in
    let benrm2 := (bex * bex + bey * bey) + bez * bez in
    let cenrm2 := (cex * cex + cey * cey) + cez * cez in
    let denrm2 := (dex * dex + dey * dey) + dez * dez in
    (denrm2 * abc - cenrm2 * dab) + (benrm2 * cda - aenrm2 * bcd).
End DShapeI.

Definition Ei : expr := Eval cbv in
  insphere_dshape expr Sub Mul Add (Var 0) (Var 1) (Var 2) (Var 3) (Var 4) (Var 5) (Var 6) (Var 7) (Var 8) (Var 9) (Var 10) (Var 11).

(* leaves of the magnitude expression; differences 0..11 = aex aey aez bex bey bez cex cey cez dex dey dez *)
Definition lsi : list leaf :=
  [LMul 0 4; LMul 3 1; LMul 3 7; LMul 6 4; LMul 6 10; LMul 9 7; LMul 9 1; LMul 0 10; LMul 0 7; LMul 6 1; LMul 3 10; LMul 9 4;
   LVar 2; LVar 5; LVar 8; LVar 11;
   LNrm 0 1 2; LNrm 3 4 5; LNrm 6 7 8; LNrm 9 10 11].
(*  0 aexbey  1 bexaey  2 bexcey  3 cexbey  4 cexdey  5 dexcey  6 dexaey  7 aexdey  8 aexcey  9 cexaey  10 bexdey  11 dexbey
    12 aez  13 bez  14 cez  15 dez   16 aenrm2  17 benrm2  18 cenrm2  19 denrm2 *)
Definition Mi : expr := Eval cbv in
  let S1 := Add (Add (Mul (Add (Var 4) (Var 5)) (Var 13)) (Mul (Add (Var 11) (Var 10)) (Var 14))) (Mul (Add (Var 2) (Var 3)) (Var 15)) in
  let S2 := Add (Add (Mul (Add (Var 6) (Var 7)) (Var 14)) (Mul (Add (Var 8) (Var 9)) (Var 15))) (Mul (Add (Var 4) (Var 5)) (Var 12)) in
  let S3 := Add (Add (Mul (Add (Var 0) (Var 1)) (Var 15)) (Mul (Add (Var 10) (Var 11)) (Var 12))) (Mul (Add (Var 6) (Var 7)) (Var 13)) in
  let S4 := Add (Add (Mul (Add (Var 2) (Var 3)) (Var 12)) (Mul (Add (Var 9) (Var 8)) (Var 13))) (Mul (Add (Var 0) (Var 1)) (Var 14)) in
  Add (Add (Add (Mul S1 (Var 16)) (Mul S2 (Var 17))) (Mul S3 (Var 18))) (Mul S4 (Var 19)).

Definition diffs_i (a b c d e : pt) : list bf :=
  [BSUB (P (px a)) (P (px e)); BSUB (P (py a)) (P (py e)); BSUB (P (pz a)) (P (pz e));
   BSUB (P (px b)) (P (px e)); BSUB (P (py b)) (P (py e)); BSUB (P (pz b)) (P (pz e));
   BSUB (P (px c)) (P (px e)); BSUB (P (py c)) (P (py e)); BSUB (P (pz c)) (P (pz e));
   BSUB (P (px d)) (P (px e)); BSUB (P (py d)) (P (py e)); BSUB (P (pz d)) (P (pz e))].

Lemma insphere_filter_B : forall a b c d e,
  FP.Prim2B (fst (insphere_filter (fpt_of a) (fpt_of b) (fpt_of c) (fpt_of d) (fpt_of e))) = evalB (env Bz (diffs_i a b c d e)) Ei /\
  FP.Prim2B (snd (insphere_filter (fpt_of a) (fpt_of b) (fpt_of c) (fpt_of d) (fpt_of e))) = BMUL cB (evalB (envM (env Bz (diffs_i a b c d e)) lsi) Mi).
Proof.
  intros. cbv [insphere_filter fnorm2 fsubv fpt_of fx fy fz fst snd]. push_Prim2B.
  cbv [eval Ei Mi env envM nth diffs_i lsi leafB leaf_tree nrm_tree P cB]. split; reflexivity.
Qed.

Lemma numeric_i : G (cnt Ei) <= cR * ((1 - u) * D (wt 5 Mi)).
Proof.
  change (cnt Ei) with 11%nat. change (wt 5 Mi) with 239%nat. unfold G, D. rewrite u_val, cR_val. interval with (i_prec 120).
Qed.

Lemma Mi_is_A : forall q, evalR (fun i => leafX q (nth i lsi (LVar 0))) Mi = evalA q Ei.
Proof. intros q. unfold evalA. cbn [eval Mi Ei nth lsi]. unfold leafX, evalA. cbn [eval leaf_tree nrm_tree]. ring. Qed.

Theorem insphere_filter_sound : forall a b c d e s,
  pt_in_range a -> pt_in_range b -> pt_in_range c -> pt_in_range d -> pt_in_range e ->
  insphere_filter_dec a b c d e = Some s -> s = insphere_exact a b c d e.
Proof.
  intros a b c d e s [Hax [Hay Haz]] [Hbx [Hby Hbz]] [Hcx [Hcy Hcz]] [Hdx [Hdy Hdz]] [Hex [Hey Hez]].
  unfold insphere_filter_dec, filter_decision.
  destruct (insphere_filter_B a b c d e) as [HR HE].
  destruct (insphere_filter (fpt_of a) (fpt_of b) (fpt_of c) (fpt_of d) (fpt_of e)) as [res eb]. cbn [fst snd] in HR, HE.
  rewrite !FP.ltb_equiv, FP.opp_equiv, HR, HE.
  set (rB := env Bz (diffs_i a b c d e)).
  assert (rB_ok : forall i, leaf_ok (rB i)).
  { apply env_forall; [exact Bz_ok |]. unfold diffs_i. repeat (apply Forall_cons; [apply diff_ok; assumption |]). apply Forall_nil. }
  assert (Hdet : evalR (fun i => B2R' (rB i)) Ei =
                 insphereR (coordR (px a)) (coordR (py a)) (coordR (pz a)) (coordR (px b)) (coordR (py b)) (coordR (pz b))
                           (coordR (px c)) (coordR (py c)) (coordR (pz c)) (coordR (px d)) (coordR (py d)) (coordR (pz d))
                           (coordR (px e)) (coordR (py e)) (coordR (pz e))).
  { unfold rB. cbn [eval Ei env nth diffs_i].
    rewrite !diff_val by assumption. unfold insphereR, det4, det3, n2. ring. }
  pose proof (insphere_exact_is_real_sign a b c d e) as Hs. rewrite <- Hdet in Hs.
  assert (Hsmall : (bexp 2 Mi < 1024)%Z /\ (emin <= bexp 2 Mi)%Z /\ (emin <= -86 + gexp (-104) Mi)%Z) by (vm_compute; repeat split; discriminate).
  destruct (BLT (evalB rB Ei) (BOPP (BMUL cB (evalB (envM rB lsi) Mi)))) eqn:Hneg.
  - intros [= <-].
    pose proof (sound_neg rB rB_ok Ei Mi lsi eq_refl eq_refl eq_refl eq_refl eq_refl Hsmall Mi_is_A numeric_i Hneg) as Hlt.
    destruct Hs as [[_ Hc] | [[_ Hc] | [Hc _]]]; [lra | lra | symmetry; exact Hc].
  - destruct (BLT (BMUL cB (evalB (envM rB lsi) Mi)) (evalB rB Ei)) eqn:Hpos; [| discriminate].
    intros [= <-].
    pose proof (sound_pos rB rB_ok Ei Mi lsi eq_refl eq_refl eq_refl eq_refl eq_refl Hsmall Mi_is_A numeric_i Hpos) as Hgt.
    destruct Hs as [[Hc _] | [[_ Hc] | [_ Hc]]]; [symmetry; exact Hc | lra | lra].
Qed.

(* ------------------------------------------------------------------------- *)
(* consequences for the adaptive functions *)

Theorem orient_adaptive_exact : forall a b c d,
  pt_in_range a -> pt_in_range b -> pt_in_range c -> pt_in_range d ->
  orient3d_adaptive a b c d = orient3d_exact a b c d.
Proof.
  intros a b c d Ha Hb Hc Hd. unfold orient3d_adaptive, adaptive_of.
  destruct (orient3d_filter a b c d) as [s |] eqn:Hf; [| reflexivity].
  apply (orient_filter_sound a b c d s); assumption.
Qed.

Theorem insphere_adaptive_exact : forall a b c d e,
  pt_in_range a -> pt_in_range b -> pt_in_range c -> pt_in_range d -> pt_in_range e ->
  insphere_adaptive a b c d e = insphere_exact a b c d e.
Proof.
  intros a b c d e Ha Hb Hc Hd He. unfold insphere_adaptive, adaptive_of.
  destruct (insphere_filter_dec a b c d e) as [s |] eqn:Hf; [| reflexivity].
  apply (insphere_filter_sound a b c d e s); assumption.
Qed.

(* the filter never answers 0 *)
Lemma filter_decision_nonzero : forall re s, filter_decision re = Some s -> s = (-1)%Z \/ s = 1%Z.
Proof.
  intros [res eb] s. unfold filter_decision.
  destruct (PrimFloat.ltb res (PrimFloat.opp eb)); [intros [= <-]; auto |].
  destruct (PrimFloat.ltb eb res); [intros [= <-]; auto | discriminate].
Qed.

Theorem orient_adaptive_real_sign : forall a b c d,
  pt_in_range a -> pt_in_range b -> pt_in_range c -> pt_in_range d ->
  sgn_is (orientR (coordR (px a)) (coordR (py a)) (coordR (pz a)) (coordR (px b)) (coordR (py b)) (coordR (pz b))
                  (coordR (px c)) (coordR (py c)) (coordR (pz c)) (coordR (px d)) (coordR (py d)) (coordR (pz d)))
         (orient3d_adaptive a b c d).
Proof. intros. rewrite orient_adaptive_exact by assumption. apply orient_exact_is_real_sign. Qed.

Theorem insphere_adaptive_real_sign : forall a b c d e,
  pt_in_range a -> pt_in_range b -> pt_in_range c -> pt_in_range d -> pt_in_range e ->
  sgn_is (insphereR (coordR (px a)) (coordR (py a)) (coordR (pz a)) (coordR (px b)) (coordR (py b)) (coordR (pz b))
                    (coordR (px c)) (coordR (py c)) (coordR (pz c)) (coordR (px d)) (coordR (py d)) (coordR (pz d))
                    (coordR (px e)) (coordR (py e)) (coordR (pz e)))
         (insphere_adaptive a b c d e).
Proof. intros. rewrite insphere_adaptive_exact by assumption. apply insphere_exact_is_real_sign. Qed.

(* permutations of in-range points are in range *)
Lemma permute_in_range : forall (l : list pt) p i, Forall pt_in_range l -> Forall (fun j => (j < length l)%nat) p ->
  (i < length p)%nat -> pt_in_range (nth_pt (permute pt0 l p) i).
Proof.
  intros l p i Hl Hp Hi. unfold nth_pt, permute.
  rewrite (nth_indep _ (mkPt 0 0 0) (nth (nth i p 0%nat) l pt0)) by (rewrite map_length; exact Hi).
  change (nth (nth i p 0%nat) l pt0) with ((fun j => nth j l pt0) (nth i p 0%nat)). rewrite map_nth.
  rewrite Forall_forall in Hl, Hp. apply Hl. apply nth_In. apply Hp. apply nth_In. exact Hi.
Qed.

Lemma perm_indices : forall p n, Permutation.Permutation p (seq 0 n) -> Forall (fun j => (j < n)%nat) p /\ length p = n.
Proof.
  intros p n H. split.
  - apply Forall_forall. intros j Hj. apply (Permutation.Permutation_in _ H) in Hj. apply in_seq in Hj. lia.
  - rewrite (Permutation.Permutation_length H). apply seq_length.
Qed.

Theorem orient_adaptive_perm : forall a b c d p,
  pt_in_range a -> pt_in_range b -> pt_in_range c -> pt_in_range d -> Permutation.Permutation p [0; 1; 2; 3]%nat ->
  let l := permute pt0 [a; b; c; d] p in
  orient3d_adaptive (nth_pt l 0) (nth_pt l 1) (nth_pt l 2) (nth_pt l 3) = (parity p * orient3d_adaptive a b c d)%Z.
Proof.
  intros a b c d p Ha Hb Hc Hd Hp l.
  destruct (perm_indices p 4 Hp) as [Hi Hl].
  assert (HF : Forall pt_in_range [a; b; c; d]) by (repeat (apply Forall_cons; [assumption |]); apply Forall_nil).
  rewrite (orient_adaptive_exact a b c d) by assumption.
  rewrite orient_adaptive_exact by (apply permute_in_range; [exact HF | exact Hi | rewrite Hl; lia]).
  apply orient_perm_any. exact Hp.
Qed.

Theorem insphere_adaptive_perm : forall a b c d e p,
  pt_in_range a -> pt_in_range b -> pt_in_range c -> pt_in_range d -> pt_in_range e ->
  Permutation.Permutation p [0; 1; 2; 3; 4]%nat ->
  let l := permute pt0 [a; b; c; d; e] p in
  insphere_adaptive (nth_pt l 0) (nth_pt l 1) (nth_pt l 2) (nth_pt l 3) (nth_pt l 4) = (parity p * insphere_adaptive a b c d e)%Z.
Proof.
  intros a b c d e p Ha Hb Hc Hd He Hp l.
  destruct (perm_indices p 5 Hp) as [Hi Hl].
  assert (HF : Forall pt_in_range [a; b; c; d; e]) by (repeat (apply Forall_cons; [assumption |]); apply Forall_nil).
  rewrite (insphere_adaptive_exact a b c d e) by assumption.
  rewrite insphere_adaptive_exact by (apply permute_in_range; [exact HF | exact Hi | rewrite Hl; lia]).
  apply insphere_perm_any. exact Hp.
Qed.

(* ------------------------------------------------------------------------- *)
(* the hypotheses are satisfiable and every branch of the adaptive functions is inhabited *)
Local Open Scope Z_scope.
Definition Pk (x y z : Z) : pt := mkPt (ONE_BITS + x * 2 ^ 42) (ONE_BITS + y * 2 ^ 42) (ONE_BITS + z * 2 ^ 42).

Example in_range_example : pt_in_range (Pk 0 0 0) /\ pt_in_range (Pk 1023 1 500) /\ pt_in_range (mkPt (ONE_BITS + MANT - 1) ONE_BITS ONE_BITS).
Proof. unfold pt_in_range, in_range. vm_compute. intuition discriminate. Qed.

(* the example of the header's documentation: the filter decides, +1 *)
Example orient_filter_decides : orient3d_filter (Pk 0 0 0) (Pk 0 0 1) (Pk 0 1 0) (Pk 1 0 0) = Some 1
  /\ orient3d_filter (Pk 0 0 0) (Pk 0 1 0) (Pk 0 0 1) (Pk 1 0 0) = Some (-1).
Proof. vm_compute. auto. Qed.

(* exactly coplanar points: the filter cannot decide, the exact function returns 0 *)
Example orient_degenerate : orient3d_filter (Pk 100 200 300) (Pk 110 220 330) (Pk 105 190 310) (Pk 115 210 340) = None
  /\ orient3d_adaptive (Pk 100 200 300) (Pk 110 220 330) (Pk 105 190 310) (Pk 115 210 340) = 0.
Proof. vm_compute. auto. Qed.

(* one ulp away from coplanar: the filter cannot decide, the exact function returns a non-zero sign *)
Example orient_one_ulp :
  let d' := mkPt (ONE_BITS + 115 * 2 ^ 42 + 1) (ONE_BITS + 210 * 2 ^ 42) (ONE_BITS + 340 * 2 ^ 42) in
  orient3d_filter (Pk 100 200 300) (Pk 110 220 330) (Pk 105 190 310) d' = None
  /\ orient3d_adaptive (Pk 100 200 300) (Pk 110 220 330) (Pk 105 190 310) d' = -1.
Proof. vm_compute. auto. Qed.

Example insphere_branches :
  (* inside, on, outside the circumsphere of a negatively oriented tetrahedron *)
  insphere_filter_dec (Pk 500 500 500) (Pk 502 500 500) (Pk 500 502 500) (Pk 500 500 502) (Pk 501 501 501) = Some (-1)
  /\ insphere_filter_dec (Pk 500 500 500) (Pk 502 500 500) (Pk 500 502 500) (Pk 500 500 502) (Pk 502 502 502) = None
  /\ insphere_adaptive (Pk 500 500 500) (Pk 502 500 500) (Pk 500 502 500) (Pk 500 500 502) (Pk 502 502 502) = 0
  /\ insphere_filter_dec (Pk 500 500 500) (Pk 502 500 500) (Pk 500 502 500) (Pk 500 500 502) (Pk 503 502 502) = Some 1.
Proof. vm_compute. auto. Qed.
