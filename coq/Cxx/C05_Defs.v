(* C05: model of HLLCRiemannSolver::solve_for_flux (src/HLLCRiemannSolver.hpp) and of the
   vacuum / flux-assembly part of ExactRiemannSolver (src/ExactRiemannSolver.hpp), written
   once over the scalar record of Common/Scalar.v.  Literal transcription: the order of the
   floating-point operations is the order of the C++ expressions (left-associative).
   Hand model; tie = bit-exact correspondence with the compiled solvers. *)
From Coq Require Import Bool ZArith.
From CMI Require Import Common.Scalar.

Section Riemann.
  Variable F : Type.
  Variable S : SOps F.
  Local Notation "a + b" := (sadd S a b).
  Local Notation "a - b" := (ssub S a b).
  Local Notation "a * b" := (smul S a b).
  Local Notation "a / b" := (sdiv S a b).
  Local Notation "- a" := (sneg S a).
  Local Notation "a <? b" := (sltb S a b).
  Local Notation "a <=? b" := (sleb S a b).
  Local Notation "a =? b" := (seqb S a b).
  Local Notation "0" := (s0 S).
  Local Notation "1" := (s1 S).
  Local Notation "2" := (s2 S).
  Local Notation half := (shalf S).
  Local Notation quarter := (squarter S).
  Local Notation eps := (sdblmin S).

  (* CoordinateVector<> *)
  Definition vec : Type := (F * F * F)%type.
  Definition vx (v : vec) : F := fst (fst v).
  Definition vy (v : vec) : F := snd (fst v).
  Definition vz (v : vec) : F := snd v.
  Definition mkv (x y z : F) : vec := (x, y, z).
  Definition vadd (a b : vec) : vec := mkv (vx a + vx b) (vy a + vy b) (vz a + vz b).
  Definition vsub (a b : vec) : vec := mkv (vx a - vx b) (vy a - vy b) (vz a - vz b).
  Definition vscale (s : F) (v : vec) : vec := mkv (vx v * s) (vy v * s) (vz v * s).   (* v *= s *)
  Definition vdot (a b : vec) : F := vx a * vx b + vy a * vy b + vz a * vz b.
  Definition vnorm2 (a : vec) : F := vx a * vx a + vy a * vy a + vz a * vz a.
  Definition vzero : vec := mkv 0 0 0.

  (* constants computed by the constructors *)
  Record consts := mkConsts {
    gam : F; tdgm1 : F; gp1d2g : F; odgm1 : F; gm1d2 : F; gm1dgp1 : F; tgdgm1 : F; tdgp1 : F }.

  Definition mk_consts (gamma : F) : consts :=
    let g := smax S gamma (sgamma_floor S) in
    mkConsts g (2 / (g - 1)) (half * (g + 1) / g) (1 / (g - 1)) (half * (g - 1))
             ((g - 1) / (g + 1)) (2 * g / (g - 1)) (2 / (g + 1)).

  Variable c : consts.

  Definition flux : Type := (F * vec * F)%type.
  Definition fzero : flux := (0, vzero, 0).

  (* the coefficient in front of the gas velocity in the fan next to vacuum at the sites where the
     pinned commit used 2/(gamma-1) (defect D1); [true] = pinned commit, [false] = repaired code *)
  Variable d1_pinned : bool.
  Definition fan_coeff : F := if d1_pinned then tdgm1 c else gm1d2 c.

  (* ---- vacuum samplers; dxdt = 0 for HLLC, general for the exact solver ----
     the fan base is guarded by std::max(0., .) (repair of the vacuum-front NaN: one rounding error beyond
     the front the unguarded base is negative and std::pow returns NaN) *)
  (* returns (flag, rho, u, P); flag: -1 left state / 1 right state / 0 vacuum, as Z *)
  Definition sample_right_vacuum (rhoL uL PL aL dxdt : F) : Z * F * F * F :=
    if (uL - aL) <? dxdt then
      let SL := uL + tdgm1 c * aL in
      if dxdt <? SL then
        let base := smax S 0 (tdgp1 c + gm1dgp1 c * (uL - dxdt) / aL) in
        ((-1)%Z, rhoL * spow S base (tdgm1 c), tdgp1 c * (aL + gm1d2 c * uL + dxdt), PL * spow S base (tgdgm1 c))
      else (0%Z, 0, 0, 0)
    else ((-1)%Z, rhoL, uL, PL).

  Definition sample_left_vacuum (rhoR uR PR aR dxdt : F) : Z * F * F * F :=
    if dxdt <? (uR + aR) then
      let SR := uR - tdgm1 c * aR in
      if SR <? dxdt then
        let base := smax S 0 (tdgp1 c - gm1dgp1 c * (uR - dxdt) / aR) in
        (1%Z, rhoR * spow S base (tdgm1 c), tdgp1 c * (- aR + fan_coeff * uR + dxdt), PR * spow S base (tgdgm1 c))
      else (0%Z, 0, 0, 0)
    else (1%Z, rhoR, uR, PR).

  Definition sample_vacuum_generation (rhoL uL PL aL rhoR uR PR aR dxdt : F) : Z * F * F * F :=
    let SR := uR - tdgm1 c * aR in
    let SL := uL + tdgm1 c * aL in
    if (dxdt <? SR) && (SL <? dxdt) then (0%Z, 0, 0, 0)
    else if SL <? dxdt then
      if dxdt <? (uR + aR) then
        let base := smax S 0 (tdgp1 c - gm1dgp1 c * (uR - dxdt) / aR) in
        (1%Z, rhoR * spow S base (tdgm1 c), tdgp1 c * (- aR + fan_coeff * uR + dxdt), PR * spow S base (tgdgm1 c))
      else (1%Z, rhoR, uR, PR)
    else
      if (uL - aL) <? dxdt then
        let base := smax S 0 (tdgp1 c + gm1dgp1 c * (uL - dxdt) / aL) in
        ((-1)%Z, rhoL * spow S base (tdgm1 c), tdgp1 c * (aL + fan_coeff * uL + dxdt), PL * spow S base (tgdgm1 c))
      else ((-1)%Z, rhoL, uL, PL).

  (* HLLC's versions sample at dxdt = 0 and compare with the literal 0.; the expressions
     "(uL - 0) / aL" do not occur there: base uses uL / aL directly *)
  Definition h_sample_right_vacuum (rhoL uL PL aL : F) : Z * F * F * F :=
    if uL <? aL then
      let SL := uL + tdgm1 c * aL in
      if 0 <? SL then
        let base := smax S 0 (tdgp1 c + gm1dgp1 c * uL / aL) in
        ((-1)%Z, rhoL * spow S base (tdgm1 c), tdgp1 c * (aL + gm1d2 c * uL), PL * spow S base (tgdgm1 c))
      else (0%Z, 0, 0, 0)
    else ((-1)%Z, rhoL, uL, PL).

  Definition h_sample_left_vacuum (rhoR uR PR aR : F) : Z * F * F * F :=
    if (- aR) <? uR then
      let SR := uR - tdgm1 c * aR in
      if SR <? 0 then
        let base := smax S 0 (tdgp1 c - gm1dgp1 c * uR / aR) in
        (1%Z, rhoR * spow S base (tdgm1 c), tdgp1 c * (- aR + fan_coeff * uR), PR * spow S base (tgdgm1 c))
      else (0%Z, 0, 0, 0)
    else (1%Z, rhoR, uR, PR).

  Definition h_sample_vacuum_generation (rhoL uL PL aL rhoR uR PR aR : F) : Z * F * F * F :=
    let SR := uR - tdgm1 c * aR in
    let SL := uL + tdgm1 c * aL in
    if (0 <? SR) && (SL <? 0) then (0%Z, 0, 0, 0)
    else if SL <? 0 then
      if (- aR) <? uR then
        let base := smax S 0 (tdgp1 c - gm1dgp1 c * uR / aR) in
        (1%Z, rhoR * spow S base (tdgm1 c), tdgp1 c * (- aR + fan_coeff * uR), PR * spow S base (tgdgm1 c))
      else (1%Z, rhoR, uR, PR)
    else
      if uL <? aL then
        let base := smax S 0 (tdgp1 c + gm1dgp1 c * uL / aL) in
        ((-1)%Z, rhoL * spow S base (tdgm1 c), tdgp1 c * (aL + fan_coeff * uL), PL * spow S base (tgdgm1 c))
      else ((-1)%Z, rhoL, uL, PL).

  (* ---- flux from a sampled state (identical text in both solvers) ---- *)
  Definition deboost (f : flux) (vface : vec) : flux :=
    let '(m, p, e) := f in
    let vface2 := vnorm2 vface in
    let e' := e + (vdot vface p + half * vface2 * m) in
    let p' := vadd p (vscale m vface) in
    (m, p', e').

  Definition flux_from_sample (smp : Z * F * F * F) (uLface uRface : vec) (vL vR : F) (normal vface : vec) : flux :=
    let '(flag, rhosol, vsol, Psol) := smp in
    if (flag =? 0)%Z then fzero
    else
      let usol := if (flag =? -1)%Z then vadd uLface (vscale (vsol - vL) normal)
                  else vadd uRface (vscale (vsol - vR) normal) in
      let rhoesol := if 1 <? gam c then half * rhosol * vnorm2 usol + Psol * odgm1 c
                     else half * rhosol * vnorm2 usol in
      let vsol' := vdot usol normal in
      let m := rhosol * vsol' in
      let p := vadd (vscale (rhosol * vsol') usol) (vscale Psol normal) in
      let e := (rhoesol + Psol) * vsol' in
      deboost (m, p, e) vface.

  Definition is_vacuum (rho P rhoinv Pinv : F) : bool :=
    (rho =? 0) || sisinf S rhoinv || (P =? 0) || sisinf S Pinv.

  (* d8_pinned: [true] = the star-state correction of the pinned commit (rho_K where HLLC has rho*_K,
     defect D8), [false] = repaired code *)
  Variable d8_pinned : bool.

  (* ---- HLLC, interface frame, non-vacuum branch: returns the flux BEFORE the de-boost ---- *)
  (* STEP 1: pressure estimate *)
  Definition hllc_pstar (rhoL PL vL aL rhoR PR vR aR : F) : F :=
    let vdiff := vR - vL in
    let abar := aL + aR in
    let rhobar := rhoL + rhoR in
    let Pbar := PL + PR in
    let pPVRS := half * (Pbar - quarter * vdiff * rhobar * abar) in
    smax S 0 pPVRS.

  (* STEP 2: wave speed factor q_K *)
  Definition hllc_q (P Pinv pstar : F) : F :=
    if P <? pstar then ssqrt S (1 + gp1d2g c * (pstar * Pinv - 1)) else 1.

  Definition hllc_sstar (rhoL PL vL SLmvL rhoR PR vR SRmvR : F) : F :=
    let Pdiff := PR - PL in
    let rhovSdiff := rhoL * vL * SLmvL - rhoR * vR * SRmvR in
    let rhoSdiff := rhoL * SLmvL - rhoR * SRmvR in
    (Pdiff + rhovSdiff) / (rhoSdiff + eps).

  (* the two branches "Sstar >= 0" (left = true) and "Sstar < 0" (left = false) of the C++ are the same
     text with L and R exchanged; the only difference is the test SL < 0 resp. SR > 0 *)
  Definition hllc_side (left : bool) (rhoK : F) (uKface : vec) (PK vK rhoKinv SKmvK Sstar : F) (normal : vec) : flux :=
    let rhoKvK := rhoK * vK in
    let vK2 := vnorm2 uKface in
    let eK := PK * odgm1 c * rhoKinv + half * vK2 in
    let SK := SKmvK + vK in
    let m := rhoKvK in
    let p := vadd (vscale rhoKvK uKface) (vscale PK normal) in
    let e := rhoKvK * eK + PK * vK in
    if (if left then SK <? 0 else 0 <? SK) then
      let starfac := SKmvK / (SK - Sstar) - 1 in
      let SKrhoK := SK * rhoK in
      let SstarmvK := Sstar - vK in
      let SKrhoKstarfac := SKrhoK * starfac in
      let SKrhoKSstarmvK := if d8_pinned then SKrhoK * SstarmvK else SKrhoK * (starfac + 1) * SstarmvK in
      let SKmvKinv := 1 / (SKmvK + eps) in
      (m + SKrhoKstarfac,
       vadd p (vadd (vscale SKrhoKstarfac uKface) (vscale SKrhoKSstarmvK normal)),
       e + (SKrhoKstarfac * eK + SKrhoKSstarmvK * (Sstar + PK * rhoKinv * SKmvKinv)))
    else (m, p, e).

  Definition hllc_star (rhoL : F) (uLface : vec) (PL vL aL rhoLinv PLinv : F)
                       (rhoR : F) (uRface : vec) (PR vR aR rhoRinv PRinv : F) (normal : vec) : flux * F :=
    let pstar := hllc_pstar rhoL PL vL aL rhoR PR vR aR in
    let qL := hllc_q PL PLinv pstar in
    let qR := hllc_q PR PRinv pstar in
    let SLmvL := - aL * qL in
    let SRmvR := aR * qR in
    let Sstar := hllc_sstar rhoL PL vL SLmvL rhoR PR vR SRmvR in
    if 0 <=? Sstar then (hllc_side true rhoL uLface PL vL rhoLinv SLmvL Sstar normal, Sstar)
    else (hllc_side false rhoR uRface PR vR rhoRinv SRmvR Sstar normal, Sstar).

  (* which branch solve_for_flux takes: 0 pure vacuum, 1 vacuum sampler, 2 star-state formula *)
  Definition hllc_flux_b (rhoL : F) (uL : vec) (PL : F) (rhoR : F) (uR : vec) (PR : F) (normal vface : vec) : flux * Z :=
    let rhoLinv := 1 / (rhoL + eps) in
    let rhoRinv := 1 / (rhoR + eps) in
    let PLinv := 1 / (PL + eps) in
    let PRinv := 1 / (PR + eps) in
    let vacuumL := is_vacuum rhoL PL rhoLinv PLinv in
    let vacuumR := is_vacuum rhoR PR rhoRinv PRinv in
    if vacuumL && vacuumR then (fzero, 0%Z)
    else
      let uLface := vsub uL vface in
      let uRface := vsub uR vface in
      let vL := vdot uLface normal in
      let vR := vdot uRface normal in
      let aL := ssqrt S (gam c * PL * rhoLinv) in
      let aR := ssqrt S (gam c * PR * rhoRinv) in
      let vdiff := vR - vL in
      let abar := aL + aR in
      if vacuumL || vacuumR || (tdgm1 c * abar <=? vdiff) then
        let smp := if vacuumR then h_sample_right_vacuum rhoL vL PL aL
                   else if vacuumL then h_sample_left_vacuum rhoR vR PR aR
                   else h_sample_vacuum_generation rhoL vL PL aL rhoR vR PR aR in
        (flux_from_sample smp uLface uRface vL vR normal vface, 1%Z)
      else
        (deboost (fst (hllc_star rhoL uLface PL vL aL rhoLinv PLinv rhoR uRface PR vR aR rhoRinv PRinv normal)) vface, 2%Z).

  Definition hllc_flux rhoL uL PL rhoR uR PR normal vface : flux :=
    fst (hllc_flux_b rhoL uL PL rhoR uR PR normal vface).

  (* ---- exact solver: everything except the iterative star-state solve, which enters as the
          sampled state [star] it returns for non-vacuum input (C11 covers that part) ---- *)
  Definition get_soundspeed (rhoinv P : F) : F := ssqrt S (gam c * P * rhoinv).

  Definition exact_solve_vacuum (rhoL uL PL aL : F) (vacuumL : bool) (rhoR uR PR aR : F) (vacuumR : bool) (dxdt : F) : Z * F * F * F :=
    if vacuumL && vacuumR then (0%Z, 0, 0, 0)
    else if vacuumR then sample_right_vacuum rhoL uL PL aL dxdt
    else if vacuumL then sample_left_vacuum rhoR uR PR aR dxdt
    else sample_vacuum_generation rhoL uL PL aL rhoR uR PR aR dxdt.

  (* returns None when the iterative solve is needed *)
  Definition exact_solve_novac (rhoL uL PL rhoR uR PR dxdt : F) : option (Z * F * F * F) :=
    let rhoLinv := 1 / rhoL in
    let rhoRinv := 1 / rhoR in
    let PLinv := 1 / PL in
    let PRinv := 1 / PR in
    let vacuumL := is_vacuum rhoL PL rhoLinv PLinv in
    let vacuumR := is_vacuum rhoR PR rhoRinv PRinv in
    if vacuumL || vacuumR then
      let aL := if vacuumL then 0 else get_soundspeed rhoLinv PL in
      let aR := if vacuumR then 0 else get_soundspeed rhoRinv PR in
      Some (exact_solve_vacuum rhoL uL PL aL vacuumL rhoR uR PR aR vacuumR dxdt)
    else
      let aL := get_soundspeed rhoLinv PL in
      let aR := get_soundspeed rhoRinv PR in
      let aLfac := tdgm1 c * aL in
      let aRfac := tdgm1 c * aR in
      let udiff := uR - uL in
      if (aLfac + aRfac) <=? udiff then
        Some (exact_solve_vacuum rhoL uL PL aL vacuumL rhoR uR PR aR vacuumR dxdt)
      else None.

  Definition exact_flux (star : Z * F * F * F) (rhoL : F) (uL : vec) (PL : F) (rhoR : F) (uR : vec) (PR : F) (normal vface : vec) : flux :=
    let uLface := vsub uL vface in
    let uRface := vsub uR vface in
    let vL := vdot uLface normal in
    let vR := vdot uRface normal in
    let smp := match exact_solve_novac rhoL vL PL rhoR vR PR 0 with
               | Some s => s
               | None => star
               end in
    flux_from_sample smp uLface uRface vL vR normal vface.
End Riemann.
