(* C18 proofs, part C: photoionization cross sections. *)
From Coq Require Import Reals ZArith List Bool Lra Lia Psatz.
From CMI Require Import Cxx.C18_Dec Cxx.C18_Gen Cxx.C18_Defs Cxx.C18_ProofsA.
Import ListNotations.
Local Open Scope R_scope.

(* sign conditions on the raw rows a shell evaluation reads (decided on the regenerated tables) *)
Definition rowA_ok (r : rowA) : bool := dpos (ra_Eth r) && dpos (ra_E0 r) && dnonneg (ra_s0 r) && dpos (ra_ya r).
Definition rowB_ok (r : rowB) : bool :=
  dpos (rb_E0 r) && dnonneg (rb_s0 r) && dpos (rb_ya r) && (dpos (rb_y1 r) || dnonpos (rb_y0 r)).
Definition sel_ok (s : shellsel) : bool :=
  rowA_ok (ss_A s) && match ss_B s with Some b => rowB_ok b | None => false end.
Definition ion_ok (i : ion) : bool :=
  forallb (fun s => match s with Some s => sel_ok s | None => false end) (ion_sels i).

(* all 14 tracked ions: every (nz,ne,is) resolves on the tables and satisfies the sign conditions *)
Lemma all_ions_ok : forallb ion_ok all_ions = true.
Proof. vm_compute. reflexivity. Qed.

Lemma ion_ok_all : forall i, ion_ok i = true.
Proof. intros i. pose proof all_ions_ok as H. rewrite forallb_forall in H. apply H, all_ions_complete. Qed.

Lemma eV_pos : 0 < eV_to_Hz Rops.
Proof. unfR. dec_norm. apply Rdiv_lt_0_compat; lra. Qed.

Lemma pa_Eth_prep : forall r, pa_Eth (prep_A Rops r) = dec2R (ra_Eth r) * eV_to_Hz Rops.
Proof. reflexivity. Qed.

(* --- zero below the threshold ------------------------------------------------ *)
Lemma xsec_prepped_below : forall p e, e < pa_Eth (ps_A p) -> xsec_prepped Rops p e = Some 0.
Proof.
  intros p e H. unfold xsec_prepped. cbn [o_lt Rops].
  apply Rltb_true in H. rewrite H. rewrite zero_R. reflexivity.
Qed.

(* --- non-negative, defined, and with positive pow bases ---------------------- *)
Lemma sq_sum_nonneg : forall a b, 0 <= a * a + b * b.
Proof. intros; nra. Qed.

Lemma fit_A_nonneg : forall r e, dnonneg (ra_s0 r) = true -> 0 <= fit_A Rops (prep_A Rops r) e.
Proof.
  intros r e H. apply dnonneg_sound in H. unfR. dec_norm.
  set (y := e * _). set (yw := dec2R (ra_yw r)).
  apply Rmult_le_pos; [nra|].
  apply Rmult_le_pos; [apply Rmult_le_pos|]; try (left; apply Rpower_pos). apply sq_sum_nonneg.
Qed.

Lemma fit_B_nonneg : forall r e, dnonneg (rb_s0 r) = true -> 0 <= fit_B Rops (prep_B Rops r) e.
Proof.
  intros r e H. apply dnonneg_sound in H. unfR. dec_norm.
  set (x := e * _ - _). set (yw := dec2R (rb_yw r)).
  apply Rmult_le_pos; [nra|].
  apply Rmult_le_pos; [apply Rmult_le_pos|]; try (left; apply Rpower_pos). apply sq_sum_nonneg.
Qed.

Lemma xsec_sel_nonneg : forall s e, sel_ok s = true -> exists v, xsec_sel Rops s e = Some v /\ 0 <= v.
Proof.
  intros s e Hok. unfold sel_ok in Hok. apply andb_prop in Hok as [HA HB].
  destruct (ss_B s) as [b|] eqn:EB; [|discriminate].
  unfold rowA_ok in HA. apply andb_prop in HA as [HA _]. apply andb_prop in HA as [_ HsA].
  unfold rowB_ok in HB. apply andb_prop in HB as [HB _]. apply andb_prop in HB as [HB _]. apply andb_prop in HB as [_ HsB].
  unfold xsec_sel, xsec_prepped, prep_sel. cbn [ps_A ps_B ps_is ps_nout ps_nint ps_einn]. rewrite EB.
  destruct (o_lt Rops e _); [eexists; split; [reflexivity | rewrite zero_R; lra]|].
  destruct (_ <? _)%nat; [eexists; split; [reflexivity | rewrite zero_R; lra]|].
  destruct (_ && _); [eexists; split; [reflexivity | rewrite zero_R; lra]|].
  destruct (_ || _); eexists; (split; [reflexivity|]); [apply fit_A_nonneg | apply fit_B_nonneg]; assumption.
Qed.

(* std::pow is called with positive bases whenever a fit is evaluated (e >= E_th):
   on them Rpower is the C function *)
Lemma fitA_bases_pos : forall r e, rowA_ok r = true -> pa_Eth (prep_A Rops r) <= e ->
  0 < fitA_y Rops (prep_A Rops r) e /\ 0 < fitA_b2 Rops (prep_A Rops r) e.
Proof.
  intros r e Hok He. unfold rowA_ok in Hok.
  apply andb_prop in Hok as [Hok Hya]. apply andb_prop in Hok as [Hok _]. apply andb_prop in Hok as [Hth HE0].
  apply dpos_sound in Hth, HE0, Hya. rewrite pa_Eth_prep in He. pose proof eV_pos as Hev.
  assert (He0 : 0 < e) by nra.
  assert (Hy : 0 < fitA_y Rops (prep_A Rops r) e).
  { unfold fitA_y, prep_A; cbn [pa_E0inv o_mul o_div Rops]. rewrite one_R. unfold cd; cbn [o_dec Rops].
    apply Rmult_lt_0_compat; [assumption|]. apply Rdiv_lt_0_compat; [lra | nra]. }
  split; [assumption|].
  unfold fitA_b2. cbn [o_add o_sqrt o_mul Rops]. rewrite one_R.
  pose proof (sqrt_pos (fitA_y Rops (prep_A Rops r) e * pa_yainv (prep_A Rops r))). lra.
Qed.

Lemma fitB_bases_pos : forall b e, rowB_ok b = true -> 0 < e ->
  0 < fitB_y Rops (prep_B Rops b) e /\ 0 < fitB_b2 Rops (prep_B Rops b) e.
Proof.
  intros b e Hok He. unfold rowB_ok in Hok.
  apply andb_prop in Hok as [Hok Hy]. apply andb_prop in Hok as [Hok _]. apply andb_prop in Hok as [HE0 _].
  apply dpos_sound in HE0. pose proof eV_pos as Hev.
  assert (Hy' : 0 < fitB_y Rops (prep_B Rops b) e).
  { unfold fitB_y, fitB_x, prep_B; cbn [pb_E0inv pb_y0 pb_y12 o_mul o_div o_sub o_add o_sqrt Rops].
    rewrite one_R. unfold cd; cbn [o_dec Rops]. apply sqrt_lt_R0.
    match goal with |- 0 < ?x * ?x + ?y * ?y => set (xx := x); set (yy := y) end.
    apply orb_prop in Hy as [Hy | Hy].
    - apply dpos_sound in Hy. fold yy in Hy.
      assert (0 < yy * yy) by nra. assert (0 <= xx * xx) by nra. lra.
    - apply dnonpos_sound in Hy.
      assert (0 < e * (1 / (dec2R (rb_E0 b) * eV_to_Hz Rops))).
      { apply Rmult_lt_0_compat; [assumption|]. apply Rdiv_lt_0_compat; [lra | nra]. }
      assert (0 < xx) by (unfold xx; lra).
      assert (0 < xx * xx) by nra. assert (0 <= yy * yy) by nra. lra. }
  split; [assumption|].
  unfold fitB_b2. cbn [o_add o_sqrt o_mul Rops]. rewrite one_R.
  pose proof (sqrt_pos (fitB_y Rops (prep_B Rops b) e * pb_yainv (prep_B Rops b))). lra.
Qed.

(* --- sums over the shells of an ion ------------------------------------------- *)
Lemma sum_opt_nonneg : forall l, Forall (fun x => exists v, x = Some v /\ 0 <= v) l ->
  exists v, sum_opt Rops l = Some v /\ 0 <= v.
Proof.
  induction l as [|x r IH]; intros H.
  - exists 0. cbn [sum_opt]. rewrite zero_R. split; [reflexivity | lra].
  - inversion H as [|? ? [v [-> Hv]] Hr]; subst.
    destruct r as [|y r'].
    + exists v. split; [reflexivity | assumption].
    + destruct (IH Hr) as [w [Hw Hw0]].
      change (sum_opt Rops (Some v :: y :: r')) with
        (match sum_opt Rops (y :: r') with Some b => Some (o_add Rops v b) | None => None end).
      rewrite Hw. exists (v + w). split; [reflexivity | lra].
Qed.

Lemma sum_opt_zero : forall l, Forall (fun x => x = Some 0) l -> sum_opt Rops l = Some 0.
Proof.
  induction l as [|x r IH]; intros H.
  - cbn [sum_opt]. rewrite zero_R. reflexivity.
  - inversion H as [|? ? -> Hr]; subst.
    destruct r as [|y r'].
    + reflexivity.
    + change (sum_opt Rops (Some 0 :: y :: r')) with
        (match sum_opt Rops (y :: r') with Some b => Some (o_add Rops 0 b) | None => None end).
      rewrite (IH Hr). cbn [o_add Rops]. f_equal. lra.
Qed.

Lemma xsec_ion_as_sels : forall i e,
  xsec_ion Rops i e = sum_opt Rops (map (fun s => match s with Some s => xsec_sel Rops s e | None => None end) (ion_sels i)).
Proof.
  intros. unfold xsec_ion, xsec_ion_prepped, prep_ion. rewrite map_map. f_equal.
  apply map_ext. intros [s|]; reflexivity.
Qed.

(* finite (defined) and non-negative for every tracked ion and EVERY photon energy *)
Lemma xsec_nonneg_lemma : forall i e, exists v, xsec_ion Rops i e = Some v /\ 0 <= v.
Proof.
  intros i e. rewrite xsec_ion_as_sels. apply sum_opt_nonneg.
  pose proof (ion_ok_all i) as H. unfold ion_ok in H. rewrite forallb_forall in H.
  apply Forall_forall. intros x Hx. apply in_map_iff in Hx as [s [<- Hs]].
  specialize (H s Hs). destruct s as [s|]; [|discriminate]. apply xsec_sel_nonneg; assumption.
Qed.

(* the ion's threshold: E_th of the first (outermost) summed shell, the smallest of the summed shells *)
Definition ion_thr (i : ion) : dec := match ion_sels i with Some s :: _ => ra_Eth (ss_A s) | _ => d0 end.
Definition thr_ok (i : ion) : bool :=
  forallb (fun s => match s with Some s => dle (ion_thr i) (ra_Eth (ss_A s)) | None => false end) (ion_sels i).
Lemma all_thr_ok : forallb thr_ok all_ions = true.
Proof. vm_compute. reflexivity. Qed.

Definition ion_threshold_Hz (i : ion) : R := dec2R (ion_thr i) * eV_to_Hz Rops.

Lemma xsec_zero_below_threshold_lemma : forall i e, e < ion_threshold_Hz i -> xsec_ion Rops i e = Some 0.
Proof.
  intros i e He. rewrite xsec_ion_as_sels. apply sum_opt_zero.
  pose proof all_thr_ok as H. rewrite forallb_forall in H. specialize (H i (all_ions_complete i)).
  unfold thr_ok in H. rewrite forallb_forall in H.
  apply Forall_forall. intros x Hx. apply in_map_iff in Hx as [s [<- Hs]].
  specialize (H s Hs). destruct s as [s|]; [|discriminate]. apply dle_sound in H.
  unfold xsec_sel. apply xsec_prepped_below. unfold prep_sel; cbn [ps_A]. rewrite pa_Eth_prep.
  unfold ion_threshold_Hz in He. pose proof eV_pos. nra.
Qed.

(* one shell: below ITS threshold the contribution is zero (any (nz,ne,is), not only tracked ions) *)
Lemma xsec_shell_zero_below : forall s e, e < dec2R (ra_Eth (ss_A s)) * eV_to_Hz Rops -> xsec_sel Rops s e = Some 0.
Proof. intros s e H. unfold xsec_sel. apply xsec_prepped_below. unfold prep_sel; cbn [ps_A]. rewrite pa_Eth_prep. exact H. Qed.

(* --- the published fitting formulae, written literally ----------------------------
   Verner & Yakovlev 1995, eq. (1):  sigma(E) = sigma_0 F(y) Mb, y = E/E_0,
       F(y) = [(y-1)^2 + y_w^2] y^(-Q) (1 + sqrt(y/y_a))^(-P),  Q = 5.5 + l - 0.5 P.
   Verner, Ferland, Korista & Yakovlev 1996, eq. (1):  x = E/E_0 - y_0, y = sqrt(x^2 + y_1^2),
       F(y) = [(x-1)^2 + y_w^2] y^(0.5P - 5.5) (1 + sqrt(y/y_a))^(-P).
   E in eV, 1 Mb = 1e-22 m^2. *)
Definition pub95 (E E0 s0 ya P yw : R) (l : nat) : R :=
  let y := E / E0 in
  let Q := 55 / 10 + INR l - 5 / 10 * P in
  1 / 10 ^ 22 * s0 * (((y - 1) ^ 2 + yw ^ 2) * Rpower y (- Q) * Rpower (1 + sqrt (y / ya)) (- P)).

Definition pub96 (E E0 s0 ya P yw y0 y1 : R) : R :=
  let x := E / E0 - y0 in
  let y := sqrt (x ^ 2 + y1 ^ 2) in
  1 / 10 ^ 22 * s0 * (((x - 1) ^ 2 + yw ^ 2) * Rpower y (5 / 10 * P - 55 / 10) * Rpower (1 + sqrt (y / ya)) (- P)).

Lemma of_nat_R : forall n, of_nat Rops n = INR n.
Proof.
  intros. unfold of_nat, k; cbn [o_dec Rops]. unfold dec2R, dnum, dden; cbn [dm de].
  change (0 <? 0)%Z with false. cbn iota. rewrite Z.pow_0_r, Z.mul_1_r, INR_IZR_INZ. field.
Qed.

(* the code's evaluation (prepared row, frequency in Hz) IS the published expression on the raw
   row at the photon energy E in eV *)
Lemma fit_A_is_published : forall r E, dpos (ra_E0 r) = true -> dpos (ra_ya r) = true ->
  fit_A Rops (prep_A Rops r) (E * eV_to_Hz Rops) =
  pub95 E (dec2R (ra_E0 r)) (dec2R (ra_s0 r)) (dec2R (ra_ya r)) (dec2R (ra_P r)) (dec2R (ra_yw r)) (ra_l r).
Proof.
  intros r E H0 Ha. apply dpos_sound in H0, Ha. pose proof eV_pos as Hev.
  unfold fit_A, fitA_b2, fitA_y, prep_A, pub95.
  cbn [pa_Plconst pa_E0inv pa_s0 pa_yainv pa_P pa_yw2 o_add o_sub o_mul o_div o_neg o_sqrt o_pow Rops].
  rewrite one_R, of_nat_R. unfold cd, k; cbn [o_dec Rops]. set (ev := eV_to_Hz Rops) in *. dec_norm.
  replace (E * ev * (1 / (dec2R (ra_E0 r) * ev))) with (E / dec2R (ra_E0 r)) by (field; lra).
  replace (E / dec2R (ra_E0 r) * (1 / dec2R (ra_ya r))) with (E / dec2R (ra_E0 r) / dec2R (ra_ya r)) by (field; lra).
  replace (5 / 10 * dec2R (ra_P r) - 55 / 10 - INR (ra_l r)) with (- (55 / 10 + INR (ra_l r) - 5 / 10 * dec2R (ra_P r))) by lra.
  field; lra.
Qed.

Lemma fit_B_is_published : forall b E, dpos (rb_E0 b) = true -> dpos (rb_ya b) = true ->
  fit_B Rops (prep_B Rops b) (E * eV_to_Hz Rops) =
  pub96 E (dec2R (rb_E0 b)) (dec2R (rb_s0 b)) (dec2R (rb_ya b)) (dec2R (rb_P b)) (dec2R (rb_yw b)) (dec2R (rb_y0 b)) (dec2R (rb_y1 b)).
Proof.
  intros b E H0 Ha. apply dpos_sound in H0, Ha. pose proof eV_pos as Hev.
  unfold fit_B, fitB_b2, fitB_y, fitB_x, prep_B, pub96.
  cbn [pb_E0inv pb_s0 pb_yainv pb_P pb_yw2 pb_y0 pb_y12 o_add o_sub o_mul o_div o_neg o_sqrt o_pow Rops].
  rewrite one_R. unfold cd, k; cbn [o_dec Rops]. set (ev := eV_to_Hz Rops) in *. dec_norm.
  replace (E * ev * (1 / (dec2R (rb_E0 b) * ev))) with (E / dec2R (rb_E0 b)) by (field; lra).
  set (x := E / dec2R (rb_E0 b) - dec2R (rb_y0 b)).
  replace (x * x + dec2R (rb_y1 b) * dec2R (rb_y1 b)) with (x ^ 2 + dec2R (rb_y1 b) ^ 2) by ring.
  set (y := sqrt _).
  replace (y * (1 / dec2R (rb_ya b))) with (y / dec2R (rb_ya b)) by (field; lra).
  field; lra.
Qed.

(* which expression each tracked shell evaluates: one of 0, pub95 on its verner_A row, pub96 on its verner_B row *)
Lemma xsec_is_published_lemma : forall i s E, In (Some s) (ion_sels i) ->
  exists b, ss_B s = Some b /\
  (xsec_sel Rops s (E * eV_to_Hz Rops) = Some 0 \/
   xsec_sel Rops s (E * eV_to_Hz Rops) =
     Some (pub95 E (dec2R (ra_E0 (ss_A s))) (dec2R (ra_s0 (ss_A s))) (dec2R (ra_ya (ss_A s))) (dec2R (ra_P (ss_A s))) (dec2R (ra_yw (ss_A s))) (ra_l (ss_A s))) \/
   xsec_sel Rops s (E * eV_to_Hz Rops) =
     Some (pub96 E (dec2R (rb_E0 b)) (dec2R (rb_s0 b)) (dec2R (rb_ya b)) (dec2R (rb_P b)) (dec2R (rb_yw b)) (dec2R (rb_y0 b)) (dec2R (rb_y1 b)))).
Proof.
  intros i s E Hin. pose proof (ion_ok_all i) as H. unfold ion_ok in H. rewrite forallb_forall in H.
  specialize (H _ Hin). cbn in H. unfold sel_ok in H. apply andb_prop in H as [HA HB].
  destruct (ss_B s) as [b|] eqn:EB; [|discriminate]. exists b. split; [reflexivity|].
  unfold rowA_ok in HA. apply andb_prop in HA as [HA HyaA]. apply andb_prop in HA as [HA _]. apply andb_prop in HA as [_ HE0A].
  unfold rowB_ok in HB. apply andb_prop in HB as [HB _]. apply andb_prop in HB as [HB HyaB]. apply andb_prop in HB as [HE0B _].
  unfold xsec_sel, xsec_prepped, prep_sel. cbn [ps_A ps_B ps_is ps_nout ps_nint ps_einn]. rewrite EB.
  destruct (o_lt Rops _ _); [left; rewrite zero_R; reflexivity|].
  destruct (_ <? _)%nat; [left; rewrite zero_R; reflexivity|].
  destruct (_ && _); [left; rewrite zero_R; reflexivity|].
  destruct (_ || _); right; [left | right]; f_equal; [apply fit_A_is_published | apply fit_B_is_published]; assumption.
Qed.
