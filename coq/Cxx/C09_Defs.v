(* C09  stop/restart continues exactly -- executable models only.
   (a) the typed binary codec of src/RestartWriter.hpp / src/RestartReader.hpp
   (b) the restart inventory language (token structures regenerated from the clang AST into C09_Gen.v)
       with its checker and the expansion semantics the checker is sound for
   (c) the abstract simulation over persisted x derived x transient state
   (d) the two binary64 expressions for DensitySubGrid::_inv_cell_size (defect D3) *)
From Coq Require Import List NArith Bool String PeanoNat Strings.Byte.
From Coq Require Import Floats.
Import ListNotations.
Open Scope N_scope.

(* ------------------------------------------------------------------------- *)
(** * (a) codec *)

(* the types RestartWriter::write<T> / RestartReader::read<T> are instantiated with.
   TInt w   : integral type of w bytes (signedness does not change the bytes);
   TDouble  : binary64, value = its 64-bit pattern;
   TRaw n   : trivially copyable struct of n bytes (timeval, std::streampos), value = the bytes;
   TString  : std::string      = size_t length + bytes;
   TMap     : std::map<std::string,std::string> = size_t count + (key,value) pairs in key order. *)
Inductive ty := TBool | TInt (w : nat) | TDouble | TRaw (n : nat) | TString | TMap.

Definition bytes := list byte.

Inductive val :=
| VBool (b : bool)
| VInt (n : N)
| VDouble (bits : N)
| VRaw (l : bytes)
| VString (s : bytes)
| VMap (m : list (bytes * bytes)).

Definition byte_of_N (n : N) : byte :=
  match Byte.of_N (n mod 256) with Some b => b | None => x00 end.

(* little endian, w bytes *)
Fixpoint le_encode (w : nat) (n : N) : bytes :=
  match w with
  | O => []
  | S w' => byte_of_N n :: le_encode w' (n / 256)
  end.

Fixpoint le_decode (l : bytes) : N :=
  match l with
  | [] => 0
  | b :: l' => Byte.to_N b + 256 * le_decode l'
  end.

(* n bytes from the front of the stream; None models a read past the end of the file *)
Definition take_n (n : N) (l : bytes) : option (bytes * bytes) :=
  if N.of_nat (List.length l) <? n then None
  else Some (firstn (N.to_nat n) l, skipn (N.to_nat n) l).

Definition is_nul (b : byte) : bool := Byte.to_N b =? 0.

(* the std::string constructor from a C string stops at the first NUL *)
Fixpoint c_str (l : bytes) : bytes :=
  match l with
  | [] => []
  | b :: l' => if is_nul b then [] else b :: c_str l'
  end.

(* std::string::operator< : lexicographic on unsigned char *)
Fixpoint blt (a b : bytes) : bool :=
  match a, b with
  | _, [] => false
  | [], _ :: _ => true
  | x :: a', y :: b' =>
      if Byte.to_N x <? Byte.to_N y then true
      else if Byte.to_N y <? Byte.to_N x then false
      else blt a' b'
  end.

(* std::map<std::string,std::string>::operator[] (k) = v  on the sorted association list *)
Fixpoint minsert (k v : bytes) (m : list (bytes * bytes)) : list (bytes * bytes) :=
  match m with
  | [] => [(k, v)]
  | (k', v') :: m' =>
      if blt k k' then (k, v) :: m
      else if blt k' k then (k', v') :: minsert k v m'
      else (k, v) :: m'
  end.

Section Codec.
  Variable szw : nat.                    (* sizeof(size_t), dumped from the real code into C09_Gen.v *)

  Definition enc_string (s : bytes) : bytes := le_encode szw (N.of_nat (List.length s)) ++ s.

  Fixpoint enc_pairs (m : list (bytes * bytes)) : bytes :=
    match m with
    | [] => []
    | (k, v) :: m' => enc_string k ++ enc_string v ++ enc_pairs m'
    end.

  (* RestartWriter::write<T>(value) *)
  Definition encode (t : ty) (v : val) : bytes :=
    match t, v with
    | TBool, VBool b => [if b then x01 else x00]
    | TInt w, VInt n => le_encode w n
    | TDouble, VDouble n => le_encode 8 n
    | TRaw _, VRaw l => l
    | TString, VString s => enc_string s
    | TMap, VMap m => le_encode szw (N.of_nat (List.length m)) ++ enc_pairs m
    | _, _ => []
    end.

  Definition dec_string (l : bytes) : option (bytes * bytes) :=
    match take_n (N.of_nat szw) l with
    | None => None
    | Some (h, r) =>
        match take_n (le_decode h) r with
        | None => None
        | Some (s, r') => Some (c_str s, r')
        end
    end.

  Fixpoint dec_pairs (n : nat) (l : bytes) (acc : list (bytes * bytes)) : option (list (bytes * bytes) * bytes) :=
    match n with
    | O => Some (acc, l)
    | S n' =>
        match dec_string l with
        | None => None
        | Some (k, r) =>
            match dec_string r with
            | None => None
            | Some (v, r') => dec_pairs n' r' (minsert k v acc)
            end
        end
    end.

  (* RestartReader::read<T>() *)
  Definition decode (t : ty) (l : bytes) : option (val * bytes) :=
    match t with
    | TBool => match take_n 1 l with Some (h, r) => Some (VBool (0 <? le_decode h), r) | None => None end
    | TInt w => match take_n (N.of_nat w) l with Some (h, r) => Some (VInt (le_decode h), r) | None => None end
    | TDouble => match take_n 8 l with Some (h, r) => Some (VDouble (le_decode h), r) | None => None end
    | TRaw n => match take_n (N.of_nat n) l with Some (h, r) => Some (VRaw h, r) | None => None end
    | TString => match dec_string l with Some (s, r) => Some (VString s, r) | None => None end
    | TMap =>
        match take_n (N.of_nat szw) l with
        | None => None
        | Some (h, r) =>
            (* the count is bounded by the bytes that are left (each pair takes at least 2 size fields) *)
            if N.of_nat (List.length r) <? le_decode h then None
            else match dec_pairs (N.to_nat (le_decode h)) r [] with
                 | Some (m, r') => Some (VMap m, r')
                 | None => None
                 end
        end
    end.

  Fixpoint encode_stream (ts : list (ty * val)) : bytes :=
    match ts with
    | [] => []
    | (t, v) :: r => encode t v ++ encode_stream r
    end.

  Fixpoint decode_stream (tys : list ty) (l : bytes) : option (list val * bytes) :=
    match tys with
    | [] => Some ([], l)
    | t :: tys' =>
        match decode t l with
        | None => None
        | Some (v, r) =>
            match decode_stream tys' r with
            | None => None
            | Some (vs, r') => Some (v :: vs, r')
            end
        end
    end.
End Codec.

(* ------------------------------------------------------------------------- *)
(** * (b) restart inventory *)

Inductive tok :=
| KPrim (t : ty) (target : string)          (* restart_writer.write(x) / x = restart_reader.read<T>() *)
| KCall (c : string) (target : string)      (* nested component: x.write_restart_file(w) / x = C(r) *)
| KDispatch (b : string) (target : string)  (* virtual writer call / typeid chain of a factory *)
| KLoop (body : list tok)                   (* for / while around stream use *)
| KIf (c : nat) (thn els : list tok)        (* conditional around stream use; c = id of the condition (paired by the extractor) *)
| KUnknown (what : string).                 (* stream use the extractor does not understand: never accepted *)

Definition ty_eqb (a b : ty) : bool :=
  match a, b with
  | TBool, TBool => true
  | TInt x, TInt y => Nat.eqb x y
  | TDouble, TDouble => true
  | TRaw x, TRaw y => Nat.eqb x y
  | TString, TString => true
  | TMap, TMap => true
  | _, _ => false
  end.

Fixpoint tok_eqb (a b : tok) {struct a} : bool :=
  match a, b with
  | KPrim t s, KPrim t' s' => ty_eqb t t' && String.eqb s s'
  | KCall c s, KCall c' s' => String.eqb c c' && String.eqb s s'
  | KDispatch c s, KDispatch c' s' => String.eqb c c' && String.eqb s s'
  | KLoop x, KLoop y =>
      (fix lst (x y : list tok) {struct x} : bool :=
         match x, y with
         | [], [] => true
         | p :: x', q :: y' => tok_eqb p q && lst x' y'
         | _, _ => false
         end) x y
  | KIf c x1 x2, KIf c' y1 y2 =>
      Nat.eqb c c'
      && (fix lst (x y : list tok) {struct x} : bool :=
            match x, y with
            | [], [] => true
            | p :: x', q :: y' => tok_eqb p q && lst x' y'
            | _, _ => false
            end) x1 y1
      && (fix lst (x y : list tok) {struct x} : bool :=
            match x, y with
            | [], [] => true
            | p :: x', q :: y' => tok_eqb p q && lst x' y'
            | _, _ => false
            end) x2 y2
  | _, _ => false
  end.

Fixpoint toks_eqb (x y : list tok) : bool :=
  match x, y with
  | [], [] => true
  | p :: x', q :: y' => tok_eqb p q && toks_eqb x' y'
  | _, _ => false
  end.

(* where two structures first differ (for the report): index path *)
Fixpoint first_diff (x y : list tok) (i : nat) : option nat :=
  match x, y with
  | [], [] => None
  | p :: x', q :: y' => if tok_eqb p q then first_diff x' y' (S i) else Some i
  | _, _ => Some i
  end.

Inductive cat :=
| CDerived (same : bool)   (* recomputed at restart; same = by the same expression as in the normal constructor *)
| CTransient.              (* reset before use *)

Record class_inv := mkClass {
  c_name : string;
  c_writer : list tok;
  c_reader : list tok;
  c_members : list (string * bool * bool)       (* name, referenced by the writer, restored from the stream by the reader *)
}.

Record inventory := mkInv {
  i_classes : list class_inv;
  i_top_writer : list tok;
  i_top_reader : list tok;
  i_dispatch : list (string * list string * list string);   (* base, classes with a writer, classes the factory can restore *)
  i_table : list (string * string * cat)                     (* committed table: class, member, category *)
}.

Fixpoint find_class (cs : list class_inv) (n : string) : option class_inv :=
  match cs with
  | [] => None
  | c :: r => if String.eqb (c_name c) n then Some c else find_class r n
  end.

Fixpoint strs_eqb (a b : list string) : bool :=
  match a, b with
  | [], [] => true
  | x :: a', y :: b' => String.eqb x y && strs_eqb a' b'
  | _, _ => false
  end.

Fixpoint find_dispatch (ds : list (string * list string * list string)) (b : string) : option (list string * list string) :=
  match ds with
  | [] => None
  | (n, w, r) :: ds' => if String.eqb n b then Some (w, r) else find_dispatch ds' b
  end.

Definition str_in (s : string) (l : list string) : bool := existsb (String.eqb s) l.

(* every call / dispatch in a structure resolves inside the inventory; no unknown token *)
Fixpoint closed_tok (fuel : nat) (inv : inventory) (t : tok) : bool :=
  match fuel with
  | O => false
  | S f =>
      match t with
      | KPrim _ _ => true
      | KCall c _ => match find_class (i_classes inv) c with Some _ => true | None => false end
      | KDispatch b _ =>
          match find_dispatch (i_dispatch inv) b with
          | Some (w, r) => forallb (fun c => match find_class (i_classes inv) c with Some _ => true | None => false end) w
          | None => false
          end
      | KLoop body => forallb (closed_tok f inv) body
      | KIf _ a b => forallb (closed_tok f inv) a && forallb (closed_tok f inv) b
      | KUnknown _ => false
      end
  end.

Definition DEPTH : nat := 64.

Definition class_symmetric (c : class_inv) : bool := toks_eqb (c_writer c) (c_reader c).
Definition class_closed (inv : inventory) (c : class_inv) : bool :=
  forallb (closed_tok DEPTH inv) (c_writer c) && forallb (closed_tok DEPTH inv) (c_reader c).

Definition dispatch_ok (d : string * list string * list string) : bool :=
  let '(_, w, r) := d in strs_eqb w r.

Definition symmetric (inv : inventory) : bool :=
  forallb class_symmetric (i_classes inv)
  && toks_eqb (i_top_writer inv) (i_top_reader inv)
  && forallb dispatch_ok (i_dispatch inv).

Definition closed (inv : inventory) : bool :=
  forallb (class_closed inv) (i_classes inv)
  && forallb (closed_tok DEPTH inv) (i_top_writer inv) && forallb (closed_tok DEPTH inv) (i_top_reader inv).

Fixpoint find_cat (tb : list (string * string * cat)) (c m : string) : option cat :=
  match tb with
  | [] => None
  | (c', m', k) :: r => if String.eqb c' c && String.eqb m' m then Some k else find_cat r c m
  end.

(* verdict for one data member *)
Inductive verdict := Persisted | Derived | Transient | DerivedDiffers | WrittenNotRestored | RestoredNotWritten | Unaccounted.

Definition member_verdict (tb : list (string * string * cat)) (c : string) (m : string * bool * bool) : verdict :=
  let '(n, w, r) := m in
  if w && r then Persisted
  else match find_cat tb c n with
       | Some (CDerived true) => Derived
       | Some (CDerived false) => DerivedDiffers
       | Some CTransient => Transient
       | None => if w then WrittenNotRestored else if r then RestoredNotWritten else Unaccounted
       end.

Definition verdict_ok (v : verdict) : bool :=
  match v with Persisted | Derived | Transient => true | _ => false end.

Definition verdict_name (v : verdict) : string :=
  match v with
  | Persisted => "persisted" | Derived => "derived" | Transient => "transient"
  | DerivedDiffers => "derived-by-a-different-expression"
  | WrittenNotRestored => "written-but-not-restored" | RestoredNotWritten => "restored-but-not-written"
  | Unaccounted => "neither-dumped-nor-listed"
  end%string.

Definition members_ok (inv : inventory) : bool :=
  forallb (fun c => forallb (fun m => verdict_ok (member_verdict (i_table inv) (c_name c) m)) (c_members c)) (i_classes inv).

Definition inventory_ok (inv : inventory) : bool := symmetric inv && closed inv && members_ok inv.

(* the report the driver prints: one line per failing item *)
Definition report (inv : inventory) : list string :=
  (flat_map (fun c => if class_symmetric c then []
                      else [("asymmetric " ++ c_name c)%string]) (i_classes inv))
  ++ (if toks_eqb (i_top_writer inv) (i_top_reader inv) then [] else ["asymmetric <do_simulation>"%string])
  ++ (flat_map (fun d => if dispatch_ok d then [] else [("dispatch " ++ fst (fst d))%string]) (i_dispatch inv))
  ++ (flat_map (fun c => if class_closed inv c then [] else [("open " ++ c_name c)%string]) (i_classes inv))
  ++ (if forallb (closed_tok DEPTH inv) (i_top_writer inv) && forallb (closed_tok DEPTH inv) (i_top_reader inv) then [] else ["open <do_simulation>"%string])
  ++ (flat_map (fun c => flat_map (fun m => let v := member_verdict (i_table inv) (c_name c) m in
                                            if verdict_ok v then []
                                            else [("member " ++ c_name c ++ "::" ++ fst (fst m) ++ " " ++ verdict_name v)%string])
                                  (c_members c)) (i_classes inv)).

Definition member_verdicts (inv : inventory) : list (string * string * verdict) :=
  flat_map (fun c => map (fun m => (c_name c, fst (fst m), member_verdict (i_table inv) (c_name c) m)) (c_members c)) (i_classes inv).

(* --- expansion: the flat type sequence a structure produces.  The oracle supplies, in order of use, every
   loop trip count, every branch decision and every dynamic class choice. *)
Fixpoint repeat_toks (n : nat) (body : list tok) : list tok :=
  match n with O => [] | S n' => body ++ repeat_toks n' body end.

Section Expand.
  Variable env : string -> option (list tok).        (* class -> structure (writer side or reader side) *)
  Variable disp : string -> list string.             (* base -> classes *)

  Fixpoint expand (fuel : nat) (o : list nat) (ts : list tok) : option (list ty * list nat) :=
    match fuel with
    | O => None
    | S f =>
        match ts with
        | [] => Some ([], o)
        | KPrim t _ :: r =>
            match expand f o r with Some (l, o') => Some (t :: l, o') | None => None end
        | KCall c _ :: r =>
            match env c with Some body => expand f o (body ++ r) | None => None end
        | KDispatch b _ :: r =>
            match o with
            | i :: o' =>
                match nth_error (disp b) i with
                | Some c => match env c with Some body => expand f o' (body ++ r) | None => None end
                | None => None
                end
            | [] => None
            end
        | KLoop body :: r =>
            match o with n :: o' => expand f o' (repeat_toks n body ++ r) | [] => None end
        | KIf _ a b :: r =>
            match o with d :: o' => expand f o' ((if Nat.eqb d 0 then b else a) ++ r) | [] => None end
        | KUnknown _ :: _ => None
        end
    end.
End Expand.

Definition wenv (inv : inventory) (c : string) : option (list tok) := option_map c_writer (find_class (i_classes inv) c).
Definition renv (inv : inventory) (c : string) : option (list tok) := option_map c_reader (find_class (i_classes inv) c).
Definition wdisp (inv : inventory) (b : string) : list string :=
  match find_dispatch (i_dispatch inv) b with Some (w, _) => w | None => [] end.
Definition rdisp (inv : inventory) (b : string) : list string :=
  match find_dispatch (i_dispatch inv) b with Some (_, r) => r | None => [] end.

(* the types the dump writes / the restart reads under a given oracle *)
Definition dump_types (inv : inventory) (fuel : nat) (o : list nat) := expand (wenv inv) (wdisp inv) fuel o (i_top_writer inv).
Definition restart_types (inv : inventory) (fuel : nat) (o : list nat) := expand (renv inv) (rdisp inv) fuel o (i_top_reader inv).

(* ------------------------------------------------------------------------- *)
(** * (c) abstract simulation: persisted x derived x transient *)
Section Sim.
  Variables P D T : Type.
  Variable step : P -> D -> T -> P * D * T.
  Variable f : P -> D.          (* how the normal constructor computes the derived members *)
  Variable g : P -> D.          (* how the restart constructor recomputes them *)
  Variable t0 : T.              (* value of the transient members after a restart *)

  Definition state := (P * D * T)%type.
  Definition step_state (s : state) : state := let '(p, d, t) := s in step p d t.

  Fixpoint run (n : nat) (s : state) : state :=
    match n with O => s | S n' => run n' (step_state s) end.

  Definition dump (s : state) : P := fst (fst s).
  Definition restore (p : P) : state := (p, g p, t0).
  Definition pd (s : state) : P * D := fst s.

  (* a chain of stop/restart cycles: run k1 steps, dump, restore, run k2, dump, restore ... *)
  Fixpoint run_chain (ks : list nat) (s : state) : state :=
    match ks with
    | [] => s
    | k :: r => run_chain r (restore (dump (run k s)))
    end.
End Sim.

(* ------------------------------------------------------------------------- *)
(** * (d) DensitySubGrid::_inv_cell_size  (defect D3)
   normal constructor : _cell_size = side / n ,  _inv_cell_size = n / side
   restart constructor: _cell_size read back   ,  _inv_cell_size = 1. / _cell_size      (pinned commit) *)
Open Scope float_scope.
Definition cell_size (n side : float) : float := side / n.
Definition inv_ctor (n side : float) : float := n / side.
Definition inv_restart (n side : float) : float := 1 / (cell_size n side).
Definition inv_differs (n side : float) : bool := negb (PrimFloat.eqb (inv_ctor n side) (inv_restart n side)).

(* a one-variable stand-in for a step that uses the derived member: x' = x * inv *)
Definition toy_step (p : float * float * float) (d : float) (t : unit) : (float * float * float) * float * unit :=
  let '(n, side, x) := p in ((n, side, x * d), d, t).
Definition toy_f (p : float * float * float) : float := let '(n, side, _) := p in inv_ctor n side.
Definition toy_g (p : float * float * float) : float := let '(n, side, _) := p in inv_restart n side.
Close Scope float_scope.
