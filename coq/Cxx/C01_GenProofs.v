(* C01: the conditions regenerated from the source (C01_Gen.v) are the guards of the proved model. *)
From Coq Require Import List Arith Bool Lia ZifyBool.
From CMI Require Import Cxx.C01_Defs Cxx.C01_Gen.
Import ListNotations.

Lemma gen_translated_ok : gen_translated = true.
Proof. reflexivity. Qed.

Lemma gen_loop_ion_ok f h : gen_loop_ion f h = loop_guard true f h.
Proof. unfold gen_loop_ion, loop_guard. destruct f, h; reflexivity. Qed.

Lemma gen_loop_rhd_ok f h : gen_loop_rhd f h = loop_guard true f h.
Proof. unfold gen_loop_rhd, loop_guard. destruct f, h; reflexivity. Qed.

Lemma gen_term_ion_ok n e d : gen_term_ion e d n = term_guard n e d.
Proof. unfold gen_term_ion, term_guard. destruct e; cbn [andb orb negb]; lia. Qed.

Lemma gen_term_rhd_ok n e d : gen_term_rhd e d n = term_guard n e d.
Proof. unfold gen_term_rhd, term_guard. destruct e; cbn [andb orb negb]; lia. Qed.

(* the termination test reads the buffer occupancy first and the done counter second (Check1, Check2) *)
Lemma gen_reads_ok : gen_reads_ion = [0; 1] /\ gen_reads_rhd = [0; 1].
Proof. split; reflexivity. Qed.

Lemma step_g_ext CAP NTHR reemit ngb lg lg' tg tg' s l :
  (forall f h, lg f h = lg' f h) -> (forall e d, tg e d = tg' e d) ->
  step_g CAP NTHR reemit ngb lg tg s l = step_g CAP NTHR reemit ngb lg' tg' s l.
Proof.
  intros Hl Ht. destruct l; cbn [step_g]; try reflexivity.
  - destruct (get_thr s t) as [[| cur | | | | | | | | |]|]; try reflexivity. rewrite Hl. reflexivity.
  - destruct (get_thr s t) as [[| | | | | | | | e | |]|]; try reflexivity. rewrite Ht. reflexivity.
Qed.

(* the transition function with the conditions of the CURRENT source plugged in is the proved transition function *)
Theorem generated_step_is_model CAP NTHR NREQ reemit ngb s l :
  step_g CAP NTHR reemit ngb gen_loop_ion (fun e d => gen_term_ion e d NREQ) s l = step CAP NTHR NREQ reemit ngb true s l
  /\ step_g CAP NTHR reemit ngb gen_loop_rhd (fun e d => gen_term_rhd e d NREQ) s l = step CAP NTHR NREQ reemit ngb true s l.
Proof.
  unfold step. split; apply step_g_ext; intros; auto using gen_loop_ion_ok, gen_loop_rhd_ok, gen_term_ion_ok, gen_term_rhd_ok.
Qed.
