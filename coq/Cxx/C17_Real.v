(* C17: the integer determinants of the mantissas have the sign of the real determinants of the coordinates. *)
From Coq Require Import ZArith List Bool Lia Reals Lra.
From CMI Require Import Cxx.C17_Defs Cxx.C17_Proofs.
Import ListNotations.
Local Open Scope R_scope.

(* value of the double with bit pattern [bits] when it is in [1,2)   (C17_Filter.coordR_is_value ties this to IEEE-754) *)
Definition SCALE : R := IZR MANT.
Definition coordR (bits : Z) : R := 1 + IZR (get_mantissa bits) / SCALE.

Lemma SCALE_pos : 0 < SCALE.
Proof. unfold SCALE, MANT. apply IZR_lt. reflexivity. Qed.

Lemma coordR_range : forall bits, 1 <= coordR bits < 2.
Proof.
  intros. unfold coordR. pose proof (get_mantissa_range bits) as [H0 H1].
  apply IZR_le in H0. apply IZR_lt in H1. fold SCALE in H1. pose proof SCALE_pos.
  assert (0 <= IZR (get_mantissa bits) / SCALE < 1).
  { split; [apply Rmult_le_pos; [exact H0 | left; apply Rinv_0_lt_compat; assumption] |].
    apply Rmult_lt_reg_r with SCALE; [assumption |]. unfold Rdiv. rewrite Rmult_assoc, Rinv_l by lra. lra. }
  lra.
Qed.

(* ------------------------------------------------------------------------- *)
(* the determinants over R, written as textbook cofactor expansions (not in the order of the code) *)

Definition det3 a11 a12 a13 a21 a22 a23 a31 a32 a33 : R :=
  a11 * (a22 * a33 - a23 * a32) - a12 * (a21 * a33 - a23 * a31) + a13 * (a21 * a32 - a22 * a31).

Definition det4 a11 a12 a13 a14 a21 a22 a23 a24 a31 a32 a33 a34 a41 a42 a43 a44 : R :=
    a11 * det3 a22 a23 a24 a32 a33 a34 a42 a43 a44
  - a12 * det3 a21 a23 a24 a31 a33 a34 a41 a43 a44
  + a13 * det3 a21 a22 a24 a31 a32 a34 a41 a42 a44
  - a14 * det3 a21 a22 a23 a31 a32 a33 a41 a42 a43.

Definition det5 a11 a12 a13 a14 a15 a21 a22 a23 a24 a25 a31 a32 a33 a34 a35 a41 a42 a43 a44 a45 a51 a52 a53 a54 a55 : R :=
    a11 * det4 a22 a23 a24 a25 a32 a33 a34 a35 a42 a43 a44 a45 a52 a53 a54 a55
  - a12 * det4 a21 a23 a24 a25 a31 a33 a34 a35 a41 a43 a44 a45 a51 a53 a54 a55
  + a13 * det4 a21 a22 a24 a25 a31 a32 a34 a35 a41 a42 a44 a45 a51 a52 a54 a55
  - a14 * det4 a21 a22 a23 a25 a31 a32 a33 a35 a41 a42 a43 a45 a51 a52 a53 a55
  + a15 * det4 a21 a22 a23 a24 a31 a32 a33 a34 a41 a42 a43 a44 a51 a52 a53 a54.

(* orientation: | a-d ; b-d ; c-d | *)
Definition orientR ax ay az bx by_ bz cx cy cz dx dy dz : R :=
  det3 (ax - dx) (ay - dy) (az - dz) (bx - dx) (by_ - dy) (bz - dz) (cx - dx) (cy - dy) (cz - dz).

(* in-sphere: | p-e , |p-e|^2 |  for p = a, b, c, d *)
Definition n2 x y z : R := x * x + y * y + z * z.
Definition insphereR ax ay az bx by_ bz cx cy cz dx dy dz ex ey ez : R :=
  det4 (ax - ex) (ay - ey) (az - ez) (n2 (ax - ex) (ay - ey) (az - ez))
       (bx - ex) (by_ - ey) (bz - ez) (n2 (bx - ex) (by_ - ey) (bz - ez))
       (cx - ex) (cy - ey) (cz - ez) (n2 (cx - ex) (cy - ey) (cz - ez))
       (dx - ex) (dy - ey) (dz - ez) (n2 (dx - ex) (dy - ey) (dz - ez)).

(* the same determinants in homogeneous form *)
Lemma orientR_homogeneous : forall ax ay az bx by_ bz cx cy cz dx dy dz,
  orientR ax ay az bx by_ bz cx cy cz dx dy dz =
  det4 ax ay az 1  bx by_ bz 1  cx cy cz 1  dx dy dz 1.
Proof. intros. unfold orientR, det4, det3. ring. Qed.

Lemma insphereR_homogeneous : forall ax ay az bx by_ bz cx cy cz dx dy dz ex ey ez,
  insphereR ax ay az bx by_ bz cx cy cz dx dy dz ex ey ez =
  det5 ax ay az (n2 ax ay az) 1  bx by_ bz (n2 bx by_ bz) 1  cx cy cz (n2 cx cy cz) 1
       dx dy dz (n2 dx dy dz) 1  ex ey ez (n2 ex ey ez) 1.
Proof. intros. unfold insphereR, det5, det4, det3, n2. ring. Qed.

(* ------------------------------------------------------------------------- *)
(* Z -> R *)

Notation reval := (eval Rminus Rmult Rplus).

Lemma IZR_eval : forall rho e, IZR (zeval rho e) = reval (fun i => IZR (rho i)) e.
Proof.
  induction e; simpl.
  - reflexivity.
  - rewrite minus_IZR. congruence.
  - rewrite mult_IZR. congruence.
  - rewrite plus_IZR. congruence.
Qed.

(* the code's formula, over R, is the determinant *)
Lemma orient_shape_R : forall ax ay az bx by_ bz cx cy cz dx dy dz,
  orient_shape R Rminus Rmult Rplus ax ay az bx by_ bz cx cy cz dx dy dz = orientR ax ay az bx by_ bz cx cy cz dx dy dz.
Proof. intros. unfold orient_shape, orientR, det3. ring. Qed.

Lemma insphere_shape_R : forall ax ay az bx by_ bz cx cy cz dx dy dz ex ey ez,
  insphere_shape R Rminus Rmult Rplus ax ay az bx by_ bz cx cy cz dx dy dz ex ey ez =
  insphereR ax ay az bx by_ bz cx cy cz dx dy dz ex ey ez.
Proof. intros. unfold insphere_shape, insphereR, det4, det3, n2. ring. Qed.

(* translation by 1 and scaling by 1/S *)
Lemma orientR_affine : forall S ax ay az bx by_ bz cx cy cz dx dy dz, S <> 0 ->
  orientR ax ay az bx by_ bz cx cy cz dx dy dz =
  S ^ 3 * orientR (1 + ax / S) (1 + ay / S) (1 + az / S) (1 + bx / S) (1 + by_ / S) (1 + bz / S)
                  (1 + cx / S) (1 + cy / S) (1 + cz / S) (1 + dx / S) (1 + dy / S) (1 + dz / S).
Proof. intros. unfold orientR, det3. field. assumption. Qed.

Lemma diff_affine : forall S x y, S <> 0 -> (1 + x / S) - (1 + y / S) = (x - y) / S.
Proof. intros. field. assumption. Qed.

Lemma insphereR_affine : forall S ax ay az bx by_ bz cx cy cz dx dy dz ex ey ez, S <> 0 ->
  insphereR ax ay az bx by_ bz cx cy cz dx dy dz ex ey ez =
  S ^ 5 * insphereR (1 + ax / S) (1 + ay / S) (1 + az / S) (1 + bx / S) (1 + by_ / S) (1 + bz / S)
                    (1 + cx / S) (1 + cy / S) (1 + cz / S) (1 + dx / S) (1 + dy / S) (1 + dz / S)
                    (1 + ex / S) (1 + ey / S) (1 + ez / S).
Proof.
  intros. unfold insphereR. rewrite !diff_affine by assumption.
  generalize (ax - ex) (ay - ey) (az - ez) (bx - ex) (by_ - ey) (bz - ez) (cx - ex) (cy - ey) (cz - ez) (dx - ex) (dy - ey) (dz - ez).
  intros. unfold det4, det3, n2. field. assumption.
Qed.

(* ------------------------------------------------------------------------- *)
(* signs *)

Definition sgn_is (x : R) (s : Z) : Prop :=
  (s = 1%Z /\ 0 < x) \/ (s = 0%Z /\ x = 0) \/ (s = (-1)%Z /\ x < 0).

Lemma sgn_is_scale : forall k x z, 0 < k -> IZR z = k * x -> sgn_is x (Z.sgn z).
Proof.
  intros k x z Hk H. unfold sgn_is. destruct (Z.lt_trichotomy z 0) as [Hz | [Hz | Hz]].
  - right. right. split; [apply Z.sgn_neg; exact Hz |]. apply IZR_lt in Hz. nra.
  - right. left. subst z. split; [reflexivity |]. simpl in H. nra.
  - left. split; [apply Z.sgn_pos; lia |]. apply IZR_lt in Hz. nra.
Qed.

Theorem orient_det_real : forall a b c d,
  IZR (orient_mant orient_det a b c d) =
  SCALE ^ 3 * orientR (coordR (px a)) (coordR (py a)) (coordR (pz a)) (coordR (px b)) (coordR (py b)) (coordR (pz b))
                      (coordR (px c)) (coordR (py c)) (coordR (pz c)) (coordR (px d)) (coordR (py d)) (coordR (pz d)).
Proof.
  intros. unfold orient_mant, orient_det. rewrite (orient_shape_eval Z _ _ _ 0%Z), IZR_eval.
  unfold coordR. rewrite <- orientR_affine by (apply Rgt_not_eq, SCALE_pos).
  rewrite <- orient_shape_R. rewrite (orient_shape_eval R _ _ _ 0). reflexivity.
Qed.

Theorem insphere_det_real : forall a b c d e,
  IZR (insphere_mant insphere_det a b c d e) =
  SCALE ^ 5 * insphereR (coordR (px a)) (coordR (py a)) (coordR (pz a)) (coordR (px b)) (coordR (py b)) (coordR (pz b))
                        (coordR (px c)) (coordR (py c)) (coordR (pz c)) (coordR (px d)) (coordR (py d)) (coordR (pz d))
                        (coordR (px e)) (coordR (py e)) (coordR (pz e)).
Proof.
  intros. unfold insphere_mant, insphere_det. rewrite (insphere_shape_eval Z _ _ _ 0%Z), IZR_eval.
  unfold coordR. rewrite <- insphereR_affine by (apply Rgt_not_eq, SCALE_pos).
  rewrite <- insphere_shape_R. rewrite (insphere_shape_eval R _ _ _ 0). reflexivity.
Qed.

Theorem orient_exact_is_real_sign : forall a b c d,
  sgn_is (orientR (coordR (px a)) (coordR (py a)) (coordR (pz a)) (coordR (px b)) (coordR (py b)) (coordR (pz b))
                  (coordR (px c)) (coordR (py c)) (coordR (pz c)) (coordR (px d)) (coordR (py d)) (coordR (pz d)))
         (orient3d_exact a b c d).
Proof.
  intros. rewrite orient3d_exact_sgn. apply sgn_is_scale with (k := SCALE ^ 3).
  - apply pow_lt, SCALE_pos.
  - apply orient_det_real.
Qed.

Theorem insphere_exact_is_real_sign : forall a b c d e,
  sgn_is (insphereR (coordR (px a)) (coordR (py a)) (coordR (pz a)) (coordR (px b)) (coordR (py b)) (coordR (pz b))
                    (coordR (px c)) (coordR (py c)) (coordR (pz c)) (coordR (px d)) (coordR (py d)) (coordR (pz d))
                    (coordR (px e)) (coordR (py e)) (coordR (pz e)))
         (insphere_exact a b c d e).
Proof.
  intros. rewrite insphere_exact_sgn. apply sgn_is_scale with (k := SCALE ^ 5).
  - apply pow_lt, SCALE_pos.
  - apply insphere_det_real.
Qed.
