(* C17: soundness of the floating point filters of src/ExactGeometricTests.hpp.
   Part 1 (this file): real-number level.  binary64 = Flocq's FLT format (emin = -1074, 53 bits), round to nearest even.
     - every value the filters compute is an integer multiple of a power of two that is far above 2^-1074
       ([on_grid]); hence no rounding in them ever underflows and each one has relative error <= u = 2^-53;
     - generic running error bound for a tree of -, *, + nodes whose leaves are exact ([running_error]);
     - lower bound for the rounded evaluation of a positive tree ([pos_lower]) -> the computed error bound;
     - combination ([filter_error]): |result - determinant| <= errbound.
   Part 2 (C17_FilterSound.v): binary_float / PrimFloat level and the two concrete filters. *)
From Coq Require Import ZArith List Bool Lia Reals Lra Psatz.
From Flocq Require Import Core Relative.
From CMI Require Import Cxx.C17_Defs Cxx.C17_Proofs.
Import ListNotations.
Local Open Scope R_scope.

Definition emin : Z := (-1074)%Z.
Definition prec : Z := 53%Z.
Notation fexp := (FLT_exp emin prec).
Notation rnd := (round radix2 fexp ZnearestE).
Definition u : R := / 2 * bpow radix2 (- prec + 1).

Global Instance prec_gt_0_53 : Prec_gt_0 prec. Proof. unfold Prec_gt_0, prec. lia. Qed.

Lemma u_pos : 0 < u.
Proof. unfold u. apply Rmult_lt_0_compat; [lra | apply bpow_gt_0]. Qed.

Definition on_grid (g : Z) (x : R) : Prop := exists k : Z, x = F2R (Float radix2 k g).

Lemma grid_weaken : forall g g' x, (g' <= g)%Z -> on_grid g x -> on_grid g' x.
Proof.
  intros g g' x Hg [k ->]. exists (k * Zpower radix2 (g - g'))%Z. apply F2R_change_exp. exact Hg.
Qed.

Lemma grid_0 : forall g, on_grid g 0.
Proof. intros. exists 0%Z. symmetry. apply F2R_0. Qed.

Lemma grid_plus : forall g x y, on_grid g x -> on_grid g y -> on_grid g (x + y).
Proof. intros g x y [k ->] [l ->]. exists (k + l)%Z. unfold F2R; simpl. rewrite plus_IZR. ring. Qed.

Lemma grid_opp : forall g x, on_grid g x -> on_grid g (- x).
Proof. intros g x [k ->]. exists (- k)%Z. symmetry. apply F2R_Zopp. Qed.

Lemma grid_minus : forall g x y, on_grid g x -> on_grid g y -> on_grid g (x - y).
Proof. intros. apply grid_plus; [assumption | apply grid_opp; assumption]. Qed.

Lemma grid_abs : forall g x, on_grid g x -> on_grid g (Rabs x).
Proof. intros g x [k ->]. exists (Z.abs k). symmetry. apply F2R_Zabs. Qed.

Lemma grid_mult : forall g h x y, on_grid g x -> on_grid h y -> on_grid (g + h) (x * y).
Proof.
  intros g h x y [k ->] [l ->]. exists (k * l)%Z. unfold F2R; simpl. rewrite mult_IZR, bpow_plus. ring.
Qed.

Lemma grid_rel_err : forall g x, (emin <= g)%Z -> on_grid g x -> Rabs (rnd x - x) <= u * Rabs x.
Proof.
  intros g x Hg H. apply (grid_weaken g emin) in H; [| exact Hg]. destruct H as [k ->].
  apply (relative_error_N_FLT_F2R_emin radix2 emin prec prec_gt_0_53 (fun z => negb (Z.even z)) k).
Qed.

Lemma grid_rnd : forall g x, (emin <= g)%Z -> on_grid g x -> on_grid g (rnd x).
Proof.
  intros g x Hg [k Hx].
  destruct (Z_le_gt_dec (cexp radix2 fexp x) g) as [Hc | Hc].
  - rewrite round_generic; [exists k; exact Hx | apply valid_rnd_N |].
    rewrite Hx. apply generic_format_F2R. intros _. rewrite <- Hx. exact Hc.
  - unfold round. apply (grid_weaken (cexp radix2 fexp x)); [lia |]. eexists. reflexivity.
Qed.

(* ------------------------------------------------------------------------- *)
(* trees: exact, rounded, absolute *)
Notation evalR := (eval Rminus Rmult Rplus).
Notation evalF := (eval (fun x y => rnd (x - y)) (fun x y => rnd (x * y)) (fun x y => rnd (x + y))).
Definition evalA (rho : nat -> R) := eval Rplus Rmult Rplus (fun i => Rabs (rho i)).

Fixpoint cnt (e : expr) : nat :=
  match e with
  | Var _ => O
  | Sub a b | Add a b => S (Nat.max (cnt a) (cnt b))
  | Mul a b => S (cnt a + cnt b)
  end.

(* grid exponent of a node when the leaves are multiples of 2^lg *)
Fixpoint gexp (lg : Z) (e : expr) : Z :=
  match e with
  | Var _ => lg
  | Sub a b | Add a b => Z.min (gexp lg a) (gexp lg b)
  | Mul a b => (gexp lg a + gexp lg b)%Z
  end.

Fixpoint wf (lg : Z) (e : expr) : bool :=
  (emin <=? gexp lg e)%Z &&
  match e with
  | Var _ => true
  | Sub a b | Add a b | Mul a b => wf lg a && wf lg b
  end.

Definition G (k : nat) : R := (1 + u) ^ k - 1.

Lemma G_nonneg : forall k, 0 <= G k.
Proof. intros. unfold G. pose proof u_pos. assert (1 <= (1 + u) ^ k) by (apply pow_R1_Rle; lra). lra. Qed.

Lemma G_mono : forall k k', (k <= k')%nat -> G k <= G k'.
Proof. intros. unfold G. pose proof u_pos. assert ((1 + u) ^ k <= (1 + u) ^ k') by (apply Rle_pow; [lra | assumption]). lra. Qed.

Lemma G_S : forall k, (1 + u) * (1 + G k) - 1 = G (S k).
Proof. intros. unfold G. simpl. ring. Qed.

Lemma G_add : forall a b, (1 + G a) * (1 + G b) - 1 = G (a + b).
Proof. intros. unfold G. rewrite pow_add. ring. Qed.

Lemma step_round : forall x' x r g A, Rabs (x' - x) <= g * A -> Rabs x <= A -> 0 <= g ->
  Rabs (r - x') <= u * Rabs x' -> Rabs (r - x) <= ((1 + u) * (1 + g) - 1) * A.
Proof.
  intros x' x r g A H1 H2 Hg H3. pose proof u_pos.
  assert (Hx' : Rabs x' <= A + g * A).
  { replace x' with (x + (x' - x)) by ring. eapply Rle_trans; [apply Rabs_triang |]. lra. }
  replace (r - x) with ((r - x') + (x' - x)) by ring. eapply Rle_trans; [apply Rabs_triang |].
  assert (u * Rabs x' <= u * (A + g * A)) by (apply Rmult_le_compat_l; lra).
  replace (((1 + u) * (1 + g) - 1) * A) with (u * (A + g * A) + g * A) by ring. lra.
Qed.

Lemma mul_err : forall a' a b' b ga gb Aa Ab,
  Rabs (a' - a) <= ga * Aa -> Rabs a <= Aa -> Rabs (b' - b) <= gb * Ab -> Rabs b <= Ab -> 0 <= ga -> 0 <= gb ->
  Rabs (a' * b' - a * b) <= ((1 + ga) * (1 + gb) - 1) * (Aa * Ab).
Proof.
  intros a' a b' b ga gb Aa Ab H1 H2 H3 H4 Hga Hgb.
  assert (0 <= Aa) by (eapply Rle_trans; [apply Rabs_pos | exact H2]).
  assert (0 <= Ab) by (eapply Rle_trans; [apply Rabs_pos | exact H4]).
  assert (Hb' : Rabs b' <= (1 + gb) * Ab).
  { replace b' with (b + (b' - b)) by ring. eapply Rle_trans; [apply Rabs_triang |]. lra. }
  replace (a' * b' - a * b) with ((a' - a) * b' + a * (b' - b)) by ring.
  eapply Rle_trans; [apply Rabs_triang |]. rewrite !Rabs_mult.
  assert (Rabs (a' - a) * Rabs b' <= (ga * Aa) * ((1 + gb) * Ab)) by (apply Rmult_le_compat; try apply Rabs_pos; assumption).
  assert (Rabs a * Rabs (b' - b) <= Aa * (gb * Ab)) by (apply Rmult_le_compat; try apply Rabs_pos; assumption).
  replace (((1 + ga) * (1 + gb) - 1) * (Aa * Ab)) with ((ga * Aa) * ((1 + gb) * Ab) + Aa * (gb * Ab)) by ring. lra.
Qed.

Section Running.
  Variable lg : Z.
  Variable rho : nat -> R.
  Hypothesis leaves_grid : forall i, on_grid lg (rho i).

  Lemma evalF_grid : forall e, wf lg e = true -> on_grid (gexp lg e) (evalF rho e).
  Proof.
    induction e; simpl; intros Hw.
    - apply leaves_grid.
    - apply andb_prop in Hw. destruct Hw as [Hg Hw]. apply andb_prop in Hw. destruct Hw as [Ha Hb]. apply Z.leb_le in Hg.
      apply grid_rnd; [exact Hg |]. apply grid_minus; [eapply grid_weaken; [| apply IHe1; exact Ha] | eapply grid_weaken; [| apply IHe2; exact Hb]]; lia.
    - apply andb_prop in Hw. destruct Hw as [Hg Hw]. apply andb_prop in Hw. destruct Hw as [Ha Hb]. apply Z.leb_le in Hg.
      apply grid_rnd; [exact Hg |]. apply grid_mult; [apply IHe1; exact Ha | apply IHe2; exact Hb].
    - apply andb_prop in Hw. destruct Hw as [Hg Hw]. apply andb_prop in Hw. destruct Hw as [Ha Hb]. apply Z.leb_le in Hg.
      apply grid_rnd; [exact Hg |]. apply grid_plus; [eapply grid_weaken; [| apply IHe1; exact Ha] | eapply grid_weaken; [| apply IHe2; exact Hb]]; lia.
  Qed.

  Theorem running_error : forall e, wf lg e = true ->
    Rabs (evalF rho e - evalR rho e) <= G (cnt e) * evalA rho e /\ Rabs (evalR rho e) <= evalA rho e.
  Proof.
    unfold evalA. induction e; simpl; intros Hw.
    - split; [| apply Rle_refl]. unfold Rminus. rewrite Rplus_opp_r, Rabs_R0. unfold G. simpl. lra.
    - apply andb_prop in Hw. destruct Hw as [Hg Hw]. apply andb_prop in Hw. destruct Hw as [Ha Hb]. apply Z.leb_le in Hg.
      destruct (IHe1 Ha) as [E1 B1]. destruct (IHe2 Hb) as [E2 B2].
      pose proof (evalF_grid e1 Ha) as G1. pose proof (evalF_grid e2 Hb) as G2.
      set (m := Nat.max (cnt e1) (cnt e2)).
      pose proof (G_mono (cnt e1) m (Nat.le_max_l _ _)). pose proof (G_mono (cnt e2) m (Nat.le_max_r _ _)).
      pose proof (G_nonneg (cnt e1)). pose proof (G_nonneg (cnt e2)).
      assert (0 <= eval Rplus Rmult Rplus (fun i => Rabs (rho i)) e1) by (eapply Rle_trans; [apply Rabs_pos | exact B1]).
      assert (0 <= eval Rplus Rmult Rplus (fun i => Rabs (rho i)) e2) by (eapply Rle_trans; [apply Rabs_pos | exact B2]).
      split.
      + rewrite <- G_S. apply step_round with (x' := evalF rho e1 - evalF rho e2).
        * replace (evalF rho e1 - evalF rho e2 - (evalR rho e1 - evalR rho e2)) with ((evalF rho e1 - evalR rho e1) - (evalF rho e2 - evalR rho e2)) by ring.
          eapply Rle_trans; [apply Rabs_triang |]. rewrite Rabs_Ropp. nra.
        * eapply Rle_trans; [apply Rabs_triang |]. rewrite Rabs_Ropp. lra.
        * apply G_nonneg.
        * apply (grid_rel_err (Z.min (gexp lg e1) (gexp lg e2))); [exact Hg |].
          apply grid_minus; [eapply grid_weaken; [| exact G1] | eapply grid_weaken; [| exact G2]]; lia.
      + eapply Rle_trans; [apply Rabs_triang |]. rewrite Rabs_Ropp. lra.
    - apply andb_prop in Hw. destruct Hw as [Hg Hw]. apply andb_prop in Hw. destruct Hw as [Ha Hb]. apply Z.leb_le in Hg.
      destruct (IHe1 Ha) as [E1 B1]. destruct (IHe2 Hb) as [E2 B2].
      pose proof (evalF_grid e1 Ha) as G1. pose proof (evalF_grid e2 Hb) as G2.
      split.
      + rewrite <- G_S. apply step_round with (x' := evalF rho e1 * evalF rho e2).
        * rewrite <- G_add. apply mul_err; try assumption; apply G_nonneg.
        * rewrite Rabs_mult. apply Rmult_le_compat; try apply Rabs_pos; assumption.
        * apply G_nonneg.
        * apply (grid_rel_err (gexp lg e1 + gexp lg e2)); [exact Hg |]. apply grid_mult; assumption.
      + rewrite Rabs_mult. apply Rmult_le_compat; try apply Rabs_pos; assumption.
    - apply andb_prop in Hw. destruct Hw as [Hg Hw]. apply andb_prop in Hw. destruct Hw as [Ha Hb]. apply Z.leb_le in Hg.
      destruct (IHe1 Ha) as [E1 B1]. destruct (IHe2 Hb) as [E2 B2].
      pose proof (evalF_grid e1 Ha) as G1. pose proof (evalF_grid e2 Hb) as G2.
      set (m := Nat.max (cnt e1) (cnt e2)).
      pose proof (G_mono (cnt e1) m (Nat.le_max_l _ _)). pose proof (G_mono (cnt e2) m (Nat.le_max_r _ _)).
      pose proof (G_nonneg (cnt e1)). pose proof (G_nonneg (cnt e2)).
      assert (0 <= eval Rplus Rmult Rplus (fun i => Rabs (rho i)) e1) by (eapply Rle_trans; [apply Rabs_pos | exact B1]).
      assert (0 <= eval Rplus Rmult Rplus (fun i => Rabs (rho i)) e2) by (eapply Rle_trans; [apply Rabs_pos | exact B2]).
      split.
      + rewrite <- G_S. apply step_round with (x' := evalF rho e1 + evalF rho e2).
        * replace (evalF rho e1 + evalF rho e2 - (evalR rho e1 + evalR rho e2)) with ((evalF rho e1 - evalR rho e1) + (evalF rho e2 - evalR rho e2)) by ring.
          eapply Rle_trans; [apply Rabs_triang |]. nra.
        * eapply Rle_trans; [apply Rabs_triang |]. lra.
        * apply G_nonneg.
        * apply (grid_rel_err (Z.min (gexp lg e1) (gexp lg e2))); [exact Hg |].
          apply grid_plus; [eapply grid_weaken; [| exact G1] | eapply grid_weaken; [| exact G2]]; lia.
      + eapply Rle_trans; [apply Rabs_triang |]. lra.
  Qed.
End Running.

(* ------------------------------------------------------------------------- *)
(* lower bound for the rounded evaluation of a tree of sums and products of non-negative numbers *)
Fixpoint nosub (e : expr) : bool :=
  match e with
  | Var _ => true
  | Sub _ _ => false
  | Mul a b | Add a b => nosub a && nosub b
  end.

Fixpoint wt (K : nat) (e : expr) : nat :=
  match e with
  | Var _ => K
  | Sub a b | Mul a b | Add a b => S (wt K a + wt K b)
  end.

Definition D (k : nat) : R := (1 - u) ^ k.

Lemma u_lt_1 : u < 1.
Proof.
  unfold u. change (- prec + 1)%Z with (-52)%Z.
  assert (bpow radix2 (-52) <= bpow radix2 0) by (apply bpow_le; lia). simpl (bpow radix2 0) in H. lra.
Qed.

Lemma D_pos : forall k, 0 < D k.
Proof. intros. unfold D. apply pow_lt. pose proof u_lt_1. lra. Qed.

Lemma D_le_1 : forall k, D k <= 1.
Proof.
  intros. unfold D. pose proof u_lt_1. pose proof u_pos.
  induction k; simpl; [lra |]. assert (0 < (1 - u) ^ k) by (apply pow_lt; lra). nra.
Qed.

Lemma D_add : forall a b, D (a + b) = D a * D b.
Proof. intros. unfold D. apply pow_add. Qed.

Lemma D_S : forall k, D (S k) = (1 - u) * D k.
Proof. reflexivity. Qed.

Lemma rnd_lower : forall g x, (emin <= g)%Z -> on_grid g x -> 0 <= x -> (1 - u) * x <= rnd x.
Proof.
  intros g x Hg Hx H0. pose proof (grid_rel_err g x Hg Hx) as H. rewrite (Rabs_pos_eq x H0) in H.
  apply Rabs_le_inv in H. lra.
Qed.

Section Positive.
  Variable lg : Z.
  Variable K : nat.
  Variables rhoF rhoX : nat -> R.
  Hypothesis leaves_grid : forall i, on_grid lg (rhoF i).
  Hypothesis leaves_pos : forall i, 0 <= rhoX i.
  Hypothesis leaves_close : forall i, D K * rhoX i <= rhoF i.

  Theorem pos_lower : forall e, nosub e = true -> wf lg e = true ->
    D (wt K e) * evalR rhoX e <= evalF rhoF e /\ 0 <= evalR rhoX e.
  Proof.
    induction e; simpl; intros Hn Hw.
    - split; [apply leaves_close | apply leaves_pos].
    - discriminate.
    - apply andb_prop in Hn. destruct Hn as [Hn1 Hn2].
      apply andb_prop in Hw. destruct Hw as [Hg Hw]. apply andb_prop in Hw. destruct Hw as [Ha Hb]. apply Z.leb_le in Hg.
      destruct (IHe1 Hn1 Ha) as [L1 P1]. destruct (IHe2 Hn2 Hb) as [L2 P2].
      pose proof (evalF_grid lg rhoF leaves_grid e1 Ha) as G1. pose proof (evalF_grid lg rhoF leaves_grid e2 Hb) as G2.
      pose proof (D_pos (wt K e1)). pose proof (D_pos (wt K e2)).
      split; [| apply Rmult_le_pos; assumption].
      assert (0 <= D (wt K e1) * evalR rhoX e1) by (apply Rmult_le_pos; lra).
      assert (0 <= D (wt K e2) * evalR rhoX e2) by (apply Rmult_le_pos; lra).
      assert (Hp : (D (wt K e1) * evalR rhoX e1) * (D (wt K e2) * evalR rhoX e2) <= evalF rhoF e1 * evalF rhoF e2)
        by (apply Rmult_le_compat; assumption).
      eapply Rle_trans; [| apply (rnd_lower (gexp lg e1 + gexp lg e2)); [exact Hg | apply grid_mult; assumption |]].
      + rewrite D_S, D_add. pose proof u_lt_1.
        replace ((1 - u) * (D (wt K e1) * D (wt K e2)) * (evalR rhoX e1 * evalR rhoX e2))
          with ((1 - u) * ((D (wt K e1) * evalR rhoX e1) * (D (wt K e2) * evalR rhoX e2))) by ring.
        apply Rmult_le_compat_l; lra.
      + apply Rmult_le_pos; lra.
    - apply andb_prop in Hn. destruct Hn as [Hn1 Hn2].
      apply andb_prop in Hw. destruct Hw as [Hg Hw]. apply andb_prop in Hw. destruct Hw as [Ha Hb]. apply Z.leb_le in Hg.
      destruct (IHe1 Hn1 Ha) as [L1 P1]. destruct (IHe2 Hn2 Hb) as [L2 P2].
      pose proof (evalF_grid lg rhoF leaves_grid e1 Ha) as G1. pose proof (evalF_grid lg rhoF leaves_grid e2 Hb) as G2.
      pose proof (D_pos (wt K e1)). pose proof (D_pos (wt K e2)). pose proof (D_le_1 (wt K e1)). pose proof (D_le_1 (wt K e2)).
      split; [| lra].
      assert (0 <= D (wt K e1) * evalR rhoX e1) by (apply Rmult_le_pos; lra).
      assert (0 <= D (wt K e2) * evalR rhoX e2) by (apply Rmult_le_pos; lra).
      eapply Rle_trans; [| apply (rnd_lower (Z.min (gexp lg e1) (gexp lg e2))); [exact Hg | | lra]].
      + rewrite D_S, D_add. pose proof u_lt_1.
        assert (D (wt K e1) * D (wt K e2) * (evalR rhoX e1 + evalR rhoX e2) <= evalF rhoF e1 + evalF rhoF e2) by nra.
        rewrite Rmult_assoc. apply Rmult_le_compat_l; lra.
      + apply grid_plus; [eapply grid_weaken; [| exact G1] | eapply grid_weaken; [| exact G2]]; lia.
  Qed.
End Positive.

(* ------------------------------------------------------------------------- *)
(* result tree + magnitude tree + error factor: the filter's non-zero answers are right *)
Section Combine.
  Variable rho : nat -> R.                 (* leaves of the result tree: the coordinate differences *)
  Variable E : expr.                       (* result *)
  Variable lgM : Z.
  Variable K : nat.
  Variables rhoFM rhoXM : nat -> R.         (* leaves of the magnitude tree: as computed / exact *)
  Variable M : expr.
  Variable c : R.
  Variable gc : Z.
  Hypothesis rho_grid : forall i, on_grid (-52) (rho i).
  Hypothesis E_wf : wf (-52) E = true.
  Hypothesis M_grid : forall i, on_grid lgM (rhoFM i).
  Hypothesis M_pos : forall i, 0 <= rhoXM i.
  Hypothesis M_close : forall i, D K * rhoXM i <= rhoFM i.
  Hypothesis M_nosub : nosub M = true.
  Hypothesis M_wf : wf lgM M = true.
  Hypothesis M_is_A : evalR rhoXM M = evalA rho E.
  Hypothesis c_pos : 0 <= c.
  Hypothesis c_grid : on_grid gc c.
  Hypothesis cM_grid : (emin <= gc + gexp lgM M)%Z.
  Hypothesis numeric : G (cnt E) <= c * ((1 - u) * D (wt K M)).

  Theorem filter_error : Rabs (evalF rho E - evalR rho E) <= rnd (c * evalF rhoFM M).
  Proof.
    destruct (running_error (-52) rho rho_grid E E_wf) as [H1 H2].
    destruct (pos_lower lgM K rhoFM rhoXM M_grid M_pos M_close M M_nosub M_wf) as [H3 H4].
    rewrite M_is_A in H3, H4.
    pose proof (evalF_grid lgM rhoFM M_grid M M_wf) as HG.
    pose proof (D_pos (wt K M)). pose proof u_lt_1.
    assert (HM0 : 0 <= evalF rhoFM M) by (eapply Rle_trans; [| exact H3]; apply Rmult_le_pos; lra).
    eapply Rle_trans; [exact H1 |].
    eapply Rle_trans; [| apply (rnd_lower (gc + gexp lgM M)); [exact cM_grid | apply grid_mult; assumption | apply Rmult_le_pos; assumption]].
    eapply Rle_trans; [apply Rmult_le_compat_r; [exact H4 | exact numeric] |].
    replace (c * ((1 - u) * D (wt K M)) * evalA rho E) with ((1 - u) * (c * (D (wt K M) * evalA rho E))) by ring.
    apply Rmult_le_compat_l; [lra |]. apply Rmult_le_compat_l; assumption.
  Qed.

  Corollary filter_pos : rnd (c * evalF rhoFM M) < evalF rho E -> 0 < evalR rho E.
  Proof. intros H. pose proof filter_error as HE. apply Rabs_le_inv in HE. lra. Qed.

  Corollary filter_neg : evalF rho E < - rnd (c * evalF rhoFM M) -> evalR rho E < 0.
  Proof. intros H. pose proof filter_error as HE. apply Rabs_le_inv in HE. lra. Qed.
End Combine.
