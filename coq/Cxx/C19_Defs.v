(* C19: executable model of src/TimeLine.hpp (hand model; tie = correspondence).
   Integer state is modelled in Z with the uint64_t wrap written out; the only
   floating point that influences control flow is the comparison
       to_physical_time_interval(ts) > request        i.e.   A * (double)ts > request
   which enters the integer model as a predicate [gt : Z -> bool].  The float
   instance (PrimFloat, binary64) is at the end of this file and is what is run
   against the real class. *)
From Coq Require Import ZArith List Bool Floats Uint63.
Import ListNotations.
Local Open Scope Z_scope.

Definition TOP : Z := 2 ^ 63.
Definition W64 : Z := 2 ^ 64.

Record tl := mkTl { tmin : Z; tmax : Z; cur : Z }.

Inductive outcome :=
| StopAbs                       (* "Time step smaller than absolute limit" *)
| StopMin (ts : Z)              (* "Time step wants to be smaller than minimum" *)
| Step (ts : Z) (has_next : bool).

(* while (gt ts) ts >>= 1;   None = the C++ loop does not terminate within the fuel *)
Fixpoint halve_gt (gt : Z -> bool) (fuel : nat) (ts : Z) : option Z :=
  match fuel with
  | O => None
  | S f => if gt ts then halve_gt gt f (ts / 2) else Some ts
  end.

(* while (left % ts > 0) ts >>= 1;   ts > 0 on entry *)
Fixpoint halve_mod (fuel : nat) (left ts : Z) : option Z :=
  match fuel with
  | O => None
  | S f => if ts =? 0 then None   (* would be a division by zero in C++ *)
           else if 0 <? left mod ts then halve_mod f left (ts / 2) else Some ts
  end.

Definition FUEL : nat := 66.

Definition advance_with (fuel : nat) (gt : Z -> bool) (s : tl) : option (outcome * tl) :=
  match halve_gt gt fuel (tmax s) with
  | None => None
  | Some ts =>
    if ts =? 0 then Some (StopAbs, s) else
    let left := (TOP - cur s) mod W64 in
    match halve_mod fuel left ts with
    | None => None
    | Some ts2 =>
      if ts2 <? tmin s then Some (StopMin ts2, s)
      else let c := (cur s + ts2) mod W64 in
           Some (Step ts2 (c <? TOP), mkTl (tmin s) (tmax s) c)
    end
  end.

Definition advance := advance_with FUEL.

(* constructor: [minpos]/[maxpos] are the tests (minimum_timestep > 0), (maximum_timestep > 0);
   [gtmin]/[gtmax] the comparisons against the two settings *)
Definition construct_with (fuel : nat) (minpos maxpos : bool) (gtmin gtmax : Z -> bool) : option tl :=
  let omin := if minpos then
                match halve_gt gtmin fuel TOP with
                | None => None | Some m => Some (Z.max 1 m) end
              else Some 1 in
  match omin with
  | None => None
  | Some mn =>
    let omax := if maxpos then
                  match halve_gt gtmax fuel TOP with
                  | None => None | Some m => Some (Z.max mn m) end
                else Some TOP in
    match omax with
    | None => None
    | Some mx => Some (mkTl mn mx 0)
    end
  end.

Definition construct := construct_with FUEL.

(* a history of requests; the run stops at the first stop outcome or when has_next = false *)
Fixpoint run_with (fuel : nat) (reqs : list (Z -> bool)) (s : tl) : list (outcome * tl) :=
  match reqs with
  | [] => []
  | gt :: rest =>
    match advance_with fuel gt s with
    | None => []
    | Some (Step ts true, s') => (Step ts true, s') :: run_with fuel rest s'
    | Some (o, s') => [(o, s')]
    end
  end.

Definition run := run_with FUEL.

(* restart file: five 8-byte words in the order of write_restart_file *)
Definition write_tl (s : tl) (a b : Z) : list Z := [tmin s; tmax s; a; b; cur s].
Definition read_tl (w : list Z) : option (tl * Z * Z) :=
  match w with
  | [mn; mx; a; b; c] => Some (mkTl mn mx c, a, b)
  | _ => None
  end.

(* ---------------------------------------------------------------------------
   binary64 instance *)
Definition f_two63 : float := 0x1p63%float.

(* (double) of a uint64_t: exact for < 2^53, otherwise one round-to-nearest-even,
   obtained as hi * 2^32 + lo with both parts and the product exact *)
Definition f_of_u64 (z : Z) : float :=
  let hi := z / 2 ^ 32 in
  let lo := z mod 2 ^ 32 in
  PrimFloat.add (PrimFloat.mul (PrimFloat.of_uint63 (Uint63.of_Z hi)) 4294967296%float)
                (PrimFloat.of_uint63 (Uint63.of_Z lo)).

Definition f_conv_a (t_start t_end : float) : float := PrimFloat.div (PrimFloat.sub t_end t_start) f_two63.
Definition f_interval (a : float) (ts : Z) : float := PrimFloat.mul a (f_of_u64 ts).
Definition f_time (a b : float) (t : Z) : float := PrimFloat.add (PrimFloat.mul a (f_of_u64 t)) b.
Definition f_gt (a req : float) (ts : Z) : bool := PrimFloat.ltb req (f_interval a ts).
Definition f_pos (x : float) : bool := PrimFloat.ltb 0%float x.

Definition f_construct (t_start t_end tmin tmax : float) : option (tl * float * float) :=
  let a := f_conv_a t_start t_end in
  match construct (f_pos tmin) (f_pos tmax) (f_gt a tmin) (f_gt a tmax) with
  | None => None
  | Some s => Some (s, a, t_start)
  end.

(* advance as the caller sees it: (return value, actual_timestep, current_time, integer step, new state) *)
Definition f_advance (a b : float) (s : tl) (req : float) : option (bool * float * float * Z * tl) :=
  match advance (f_gt a req) s with
  | None => None
  | Some (StopAbs, s') => Some (false, f_interval a 0, f_time a b (cur s'), 0, s')
  | Some (StopMin ts, s') => Some (false, f_interval a ts, f_time a b (cur s'), ts, s')
  | Some (Step ts hn, s') => Some (hn, f_interval a ts, f_time a b (cur s'), ts, s')
  end.
