(* C14: proofs about restart-dump rotation for every backup count, every number of
   dumps and a crash after every file-system operation. *)
From Coq Require Import NArith List Bool Lia.
From CMI Require Import Cxx.C14_Defs.
Import ListNotations.
Local Open Scope N_scope.

Lemma name_eqb_refl a : name_eqb a a = true.
Proof. destruct a; cbn; [reflexivity|apply N.eqb_refl]. Qed.

Lemma name_eqb_eq a b : name_eqb a b = true <-> a = b.
Proof.
  destruct a as [|i], b as [|j]; cbn; split; intro H; try discriminate; try reflexivity.
  - apply N.eqb_eq in H. subst. reflexivity.
  - injection H as ->. apply N.eqb_refl.
Qed.

Lemma upd_same f n v : upd f n v n = v.
Proof. unfold upd. rewrite name_eqb_refl. reflexivity. Qed.

Lemma upd_other f n v m : m <> n -> upd f n v m = f m.
Proof.
  intros H. unfold upd. destruct (name_eqb m n) eqn:E; [|reflexivity].
  apply name_eqb_eq in E. contradiction.
Qed.

Definition targets (o : fsop) : list name :=
  match o with
  | Rename s d => [s; d]
  | OpenTrunc n _ => [n]
  | Write n => [n]
  | Close n => [n]
  end.

Lemma exec_untouched f o f' nm : exec f o = Some f' -> ~ In nm (targets o) -> f' nm = f nm.
Proof.
  destruct o as [s d|n id|n|n]; cbn [exec targets]; intros H Hn.
  - destruct (f s); [|discriminate]. injection H as <-.
    rewrite upd_other by (intro; subst; apply Hn; left; reflexivity).
    rewrite upd_other by (intro; subst; apply Hn; right; left; reflexivity). reflexivity.
  - injection H as <-. apply upd_other. intro; subst; apply Hn; left; reflexivity.
  - destruct (f n); [|discriminate]. injection H as <-. apply upd_other. intro; subst; apply Hn; left; reflexivity.
  - destruct (f n); [|discriminate]. injection H as <-. apply upd_other. intro; subst; apply Hn; left; reflexivity.
Qed.

Lemma exec_all_untouched ops : forall f f' nm,
  exec_all f ops = Some f' -> Forall (fun o => ~ In nm (targets o)) ops -> f' nm = f nm.
Proof.
  induction ops as [|o r IH]; intros f f' nm H HF; cbn [exec_all] in H.
  - injection H as <-. reflexivity.
  - destruct (exec f o) as [f1|] eqn:E; [|discriminate].
    inversion HF as [|? ? Ho Hr]; subst.
    rewrite (IH _ _ _ H Hr). eapply exec_untouched; eassumption.
Qed.

Lemma exec_all_app a : forall f b,
  exec_all f (a ++ b) = match exec_all f a with None => None | Some f' => exec_all f' b end.
Proof.
  induction a as [|o r IH]; intros f b; cbn [app exec_all]; [reflexivity|].
  destruct (exec f o); [apply IH|reflexivity].
Qed.

Lemma exec_all_prefix_ok ops : forall f f' k,
  exec_all f ops = Some f' -> exists f'', exec_all f (firstn k ops) = Some f''.
Proof.
  induction ops as [|o r IH]; intros f f' k H.
  - rewrite firstn_nil. eexists; reflexivity.
  - destruct k as [|k]; [eexists; reflexivity|].
    cbn [firstn exec_all] in *. destruct (exec f o) as [f1|]; [|discriminate].
    eapply IH; eassumption.
Qed.

Lemma Forall_firstn {A} (P : A -> Prop) l k : Forall P l -> Forall P (firstn k l).
Proof.
  revert k. induction l as [|x r IH]; intros k H; [rewrite firstn_nil; constructor|].
  destruct k; [constructor|]. inversion H; subst. cbn [firstn]. constructor; auto.
Qed.

(* --- the backup shifting loop ------------------------------------------ *)
Lemma chain_from_targets fuel : forall i nm,
  (nm = Main \/ exists j, nm = Back j /\ i < j) ->
  Forall (fun o => ~ In nm (targets o)) (chain_from fuel i).
Proof.
  induction fuel as [|fu IH]; intros i nm H; cbn [chain_from]; [constructor|].
  destruct (N.eqb_spec i 0) as [E|E]; [constructor|].
  constructor.
  - cbn [targets]. intros [X|[X|[]]]; destruct H as [->|[j [-> Hj]]]; try discriminate;
      injection X as X; lia.
  - apply IH. destruct H as [->|[j [-> Hj]]]; [left; reflexivity|right; exists j; split; [reflexivity|lia]].
Qed.

Lemma chain_from_spec fuel : forall k f, (N.to_nat k <= fuel)%nat ->
  (forall i, i < k -> f (Back i) <> None) ->
  exists f', exec_all f (chain_from fuel k) = Some f'
    /\ f' Main = f Main
    /\ (0 < k -> f' (Back 0) = None)
    /\ (forall j, 1 <= j <= k -> f' (Back j) = f (Back (j - 1)))
    /\ (forall j, k < j -> f' (Back j) = f (Back j))
    /\ (k = 0 -> f' (Back 0) = f (Back 0)).
Proof.
  induction fuel as [|fu IH]; intros k f Hk Hex.
  - assert (k = 0) by lia. subst. cbn [chain_from exec_all]. exists f.
    repeat split; try reflexivity; intros; lia.
  - cbn [chain_from]. destruct (N.eqb_spec k 0) as [E|E].
    + subst. cbn [exec_all]. exists f. repeat split; try reflexivity; intros; lia.
    + cbn [exec_all exec].
      destruct (f (Back (k - 1))) as [x|] eqn:Ex; [|exfalso; apply (Hex (k - 1)); [lia|exact Ex]].
      set (f1 := upd (upd f (Back k) (Some x)) (Back (k - 1)) None).
      assert (F1 : forall i, i < k - 1 -> f1 (Back i) = f (Back i)).
      { intros i Hi. unfold f1. rewrite !upd_other; [reflexivity| |]; intro X; injection X as X; lia. }
      destruct (IH (k - 1) f1) as [f' (E1 & M1 & Z1 & S1 & G1 & K1)]; [lia| |].
      { intros i Hi. rewrite F1 by exact Hi. apply Hex. lia. }
      exists f'. split; [exact E1|]. split.
      { rewrite M1. unfold f1. rewrite !upd_other by discriminate. reflexivity. }
      split.
      { intros _. destruct (N.eqb_spec (k - 1) 0) as [E0|E0].
        - rewrite K1 by exact E0. unfold f1. rewrite E0. apply upd_same.
        - apply Z1. lia. }
      split.
      { intros j Hj. destruct (N.eqb_spec j k) as [->|Hne].
        - rewrite G1 by lia. unfold f1.
          rewrite upd_other by (intro X; injection X as X; lia). rewrite upd_same. symmetry. exact Ex.
        - rewrite S1 by lia. apply F1. lia. }
      split.
      { intros j Hj. rewrite G1 by lia. unfold f1. rewrite !upd_other; [reflexivity| |]; intro X; injection X as X; lia. }
      intros ->. lia.
Qed.

Lemma chain_spec k f : (forall i, i < k -> f (Back i) <> None) ->
  exists f', exec_all f (chain k) = Some f'
    /\ f' Main = f Main
    /\ (0 < k -> f' (Back 0) = None)
    /\ (forall j, 1 <= j <= k -> f' (Back j) = f (Back (j - 1)))
    /\ (forall j, k < j -> f' (Back j) = f (Back j))
    /\ (k = 0 -> f' (Back 0) = f (Back 0)).
Proof. apply chain_from_spec. lia. Qed.

Lemma writes_spec c : forall f x, f Main = Some x ->
  exists f', exec_all f (repeat (Write Main) c) = Some f'
    /\ f' Main = Some (mkFile (fid x) (fwritten x + N.of_nat c) (fcomplete x))
    /\ (forall j, f' (Back j) = f (Back j)).
Proof.
  induction c as [|c IH]; intros f x Hx.
  - exists f. cbn [repeat exec_all]. split; [reflexivity|]. split; [|reflexivity].
    rewrite Hx. destruct x; cbn. rewrite N.add_0_r. reflexivity.
  - cbn [repeat exec_all exec]. rewrite Hx.
    destruct (IH (upd f Main (Some (mkFile (fid x) (fwritten x + 1) (fcomplete x)))) _ (upd_same _ _ _))
      as [f' (E & M & B)].
    exists f'. split; [exact E|]. split.
    + rewrite M. cbn [fid fwritten fcomplete]. f_equal. f_equal. lia.
    + intros j. rewrite B. apply upd_other. discriminate.
Qed.

(* --- one complete dump -------------------------------------------------- *)
Definition agrees (f : fs) (M : N) (c : nat) (n : N) : Prop := forall nm, f nm = fs_after M c n nm.
Definition mgr_after (M n : N) (m : mgr) : Prop := nbackups m = N.min M (n - 1) /\ nrestarts m = n.

Lemma tail_spec f id c :
  exists f', exec_all f ([OpenTrunc Main id] ++ repeat (Write Main) c ++ [Close Main]) = Some f'
    /\ f' Main = Some (mkFile id (N.of_nat c) true)
    /\ (forall j, f' (Back j) = f (Back j)).
Proof.
  cbn [app exec_all exec].
  set (f0 := upd f Main (Some (mkFile id 0 false))).
  destruct (writes_spec c f0 _ (upd_same _ _ _)) as [f1 (E1 & M1 & B1)].
  rewrite exec_all_app, E1. cbn [exec_all exec]. rewrite M1.
  eexists. split; [reflexivity|]. split.
  - rewrite upd_same. cbn [fid fwritten fcomplete]. reflexivity.
  - intros j. rewrite upd_other by discriminate. rewrite B1. unfold f0. apply upd_other. discriminate.
Qed.

Lemma pre_spec M c n f : agrees f M c n -> 0 < M ->
  let k := start_fixed M (N.min M (n - 1)) in
  exists f1, exec_all f (chain k ++ (if 0 <? n then [Rename Main (Back 0)] else [])) = Some f1
    /\ (forall i, f1 (Back i) = fs_after M c (n + 1) (Back i)).
Proof.
  intros Ha HM k.
  assert (Hk : k = N.min (M - 1) (n - 1)) by (unfold k, start_fixed; lia).
  assert (Hf : forall i, f (Back i) = if i <? N.min M (n - 1) then Some (mkFile (n - 1 - i) (N.of_nat c) true) else None)
    by (intros i; apply (Ha (Back i))).
  destruct (chain_spec k f) as [f1 (E1 & M1 & Z1 & S1 & G1 & K1)].
  { intros i Hi. rewrite Hf. destruct (N.ltb_spec i (N.min M (n - 1))); [discriminate|lia]. }
  rewrite exec_all_app, E1.
  destruct (N.ltb_spec 0 n) as [Hn|Hn].
  - (* n >= 1: the main file is moved to backup 0 *)
    cbn [exec_all exec]. rewrite M1, (Ha Main). cbn [fs_after].
    destruct (N.ltb_spec 0 n) as [_|]; [|lia].
    eexists. split; [reflexivity|].
    intros i. cbn [fs_after]. replace (n + 1 - 1) with n by lia.
    destruct (N.eqb_spec i 0) as [->|Hi0].
    + rewrite upd_other by discriminate. rewrite upd_same.
      destruct (N.ltb_spec 0 (N.min M n)); [|lia]. f_equal. f_equal. lia.
    + rewrite !upd_other by (intro X; first [discriminate X|injection X as X; lia]).
      destruct (N.le_gt_cases i k) as [Hle|Hgt].
      * rewrite S1 by lia. rewrite Hf.
        destruct (N.ltb_spec (i - 1) (N.min M (n - 1))); [|lia].
        destruct (N.ltb_spec i (N.min M n)); [|lia]. f_equal. f_equal. lia.
      * rewrite G1 by lia. rewrite Hf.
        destruct (N.ltb_spec i (N.min M (n - 1))); [lia|].
        destruct (N.ltb_spec i (N.min M n)); [lia|reflexivity].
  - (* first dump: nothing to move *)
    assert (n = 0) by lia. subst n. assert (k = 0) by lia.
    eexists. split; [reflexivity|].
    intros i. cbn [fs_after].
    destruct (N.ltb_spec i (N.min M (0 + 1 - 1))); [lia|].
    destruct (N.eqb_spec i 0) as [->|Hi0].
    + rewrite K1 by assumption. rewrite Hf. destruct (N.ltb_spec 0 (N.min M (0 - 1))); [lia|reflexivity].
    + rewrite G1 by lia. rewrite Hf. destruct (N.ltb_spec i (N.min M (0 - 1))); [lia|reflexivity].
Qed.

Lemma dump_step M c n f m : agrees f M c n -> mgr_after M n m ->
  exists f', exec_all f (fst (dump_ops start_fixed M m (n + 1) c)) = Some f'
    /\ agrees f' M c (n + 1) /\ mgr_after M (n + 1) (snd (dump_ops start_fixed M m (n + 1) c)).
Proof.
  intros Ha [Hb Hr]. unfold dump_ops. cbn [fst snd]. rewrite Hb, Hr.
  rewrite exec_all_app.
  destruct (N.ltb_spec 0 M) as [HM|HM].
  - destruct (pre_spec M c n f Ha HM) as [f1 (E1 & B1)]. cbn zeta in E1. rewrite E1.
    destruct (tail_spec f1 (n + 1) c) as [f2 (E2 & M2 & B2)]. rewrite E2.
    exists f2. split; [reflexivity|]. split.
    + intros [|i].
      * rewrite M2. cbn [fs_after]. destruct (N.ltb_spec 0 (n + 1)); [reflexivity|lia].
      * rewrite B2. apply B1.
    + unfold mgr_after. cbn [nbackups nrestarts]. split; [|reflexivity].
      destruct (N.ltb_spec 0 n); destruct (N.ltb_spec (N.min M (n - 1)) M); cbn [andb]; lia.
  - assert (M = 0) by lia. subst M. cbn [exec_all].
    destruct (tail_spec f (n + 1) c) as [f2 (E2 & M2 & B2)]. rewrite E2.
    exists f2. split; [reflexivity|]. split.
    + intros [|i].
      * rewrite M2. cbn [fs_after]. destruct (N.ltb_spec 0 (n + 1)); [reflexivity|lia].
      * rewrite B2, (Ha (Back i)). cbn [fs_after].
        destruct (N.ltb_spec i (N.min 0 (n - 1))); [lia|]. destruct (N.ltb_spec i (N.min 0 (n + 1 - 1))); [lia|reflexivity].
    + unfold mgr_after. cbn [nbackups nrestarts andb]. split; [lia|reflexivity].
Qed.

(* --- any number of dumps -------------------------------------------------- *)
Lemma run_from_spec M c : forall k n f m, agrees f M c n -> mgr_after M n m ->
  exists f' m', run_dumps_from start_fixed M c k (n + 1) f m = Some (f', m')
    /\ agrees f' M c (n + N.of_nat k) /\ mgr_after M (n + N.of_nat k) m'.
Proof.
  induction k as [|k IH]; intros n f m Ha Hm.
  - exists f, m. cbn [run_dumps_from]. rewrite N.add_0_r. auto.
  - cbn [run_dumps_from].
    destruct (dump_step M c n f m Ha Hm) as [f1 (E1 & A1 & M1)].
    destruct (dump_ops start_fixed M m (n + 1) c) as [ops m1] eqn:Ed. cbn [fst snd] in *.
    rewrite E1.
    destruct (IH (n + 1) f1 m1 A1 M1) as [f' [m' (E & A & Mg)]].
    exists f', m'. split; [exact E|].
    replace (n + N.of_nat (S k)) with (n + 1 + N.of_nat k) by lia. auto.
Qed.

Lemma empty_agrees M c : agrees empty_fs M c 0.
Proof.
  intros [|i]; cbn [fs_after empty_fs]; [reflexivity|].
  destruct (N.ltb_spec i (N.min M (0 - 1))); [lia|reflexivity].
Qed.

Lemma dumps_state M c n :
  exists f m, run_dumps start_fixed M c n = Some (f, m)
    /\ (forall nm, f nm = fs_after M c (N.of_nat n) nm)
    /\ nbackups m = N.min M (N.of_nat n - 1) /\ nrestarts m = N.of_nat n.
Proof.
  unfold run_dumps.
  destruct (run_from_spec M c n 0 empty_fs (mkMgr 0 0) (empty_agrees M c)) as [f [m (E & A & [B R])]].
  { split; cbn [nbackups nrestarts]; lia. }
  exists f, m. rewrite N.add_0_l in *. auto.
Qed.

(* --- crash after any prefix of the next dump ------------------------------ *)
Lemma crash_keeps_previous M c n k f m :
  1 <= M -> 1 <= n -> agrees f M c n -> mgr_after M n m ->
  exists f', exec_all f (firstn k (fst (dump_ops start_fixed M m (n + 1) c))) = Some f'
    /\ (f' Main = Some (mkFile n (N.of_nat c) true) \/ f' (Back 0) = Some (mkFile n (N.of_nat c) true)).
Proof.
  intros HM Hn Ha Hm.
  destruct (dump_step M c n f m Ha Hm) as [ff (Eall & _ & _)].
  destruct (exec_all_prefix_ok _ _ _ k Eall) as [f' Ef']. exists f'. split; [exact Ef'|].
  destruct Hm as [Hb Hr]. revert Ef' Eall. unfold dump_ops. cbn [fst]. rewrite Hb, Hr.
  destruct (N.ltb_spec 0 M) as [_|]; [|lia]. destruct (N.ltb_spec 0 n) as [_|]; [|lia].
  set (ch := chain (start_fixed M (N.min M (n - 1)))).
  set (tail := [OpenTrunc Main (n + 1)] ++ repeat (Write Main) c ++ [Close Main]).
  intros Ef' Eall.
  assert (HMain : f Main = Some (mkFile n (N.of_nat c) true)).
  { rewrite (Ha Main). cbn [fs_after]. destruct (N.ltb_spec 0 n); [reflexivity|lia]. }
  assert (Hch : Forall (fun o => ~ In Main (targets o)) ch).
  { apply chain_from_targets. left. reflexivity. }
  (* split the prefix: inside the chain / after it *)
  rewrite <- app_assoc in Ef'. rewrite firstn_app in Ef'.
  rewrite exec_all_app in Ef'.
  destruct (exec_all f (firstn k ch)) as [f1|] eqn:E1; [|discriminate].
  assert (M1 : f1 Main = f Main).
  { eapply exec_all_untouched; [exact E1|]. apply Forall_firstn. exact Hch. }
  remember (k - length ch)%nat as k2.
  destruct k2 as [|k2].
  - (* crash while shifting the older backups: the main file is untouched *)
    cbn [firstn exec_all] in Ef'. injection Ef' as <-. left. rewrite M1. exact HMain.
  - cbn [app firstn exec_all exec] in Ef'. rewrite M1, HMain in Ef'.
    (* main has been renamed to backup 0; the rest only touches the main file *)
    right.
    erewrite exec_all_untouched; [|exact Ef'|].
    + rewrite upd_other by discriminate. apply upd_same.
    + apply Forall_firstn. unfold tail. cbn [app].
      constructor; [cbn; intros [X|[]]; discriminate|].
      apply Forall_app. split.
      * apply Forall_forall. intros o Ho. apply repeat_spec in Ho. subst. cbn. intros [X|[]]; discriminate.
      * constructor; [cbn; intros [X|[]]; discriminate|constructor].
Qed.

(* --- the loop bound of the pinned commit ---------------------------------- *)
Lemma wrapping_start_fails : run_dumps start_wrapping 2 1 1 = None.
Proof. vm_compute. reflexivity. Qed.

Lemma wrapping_start_loses_backup :
  exists f m, run_dumps start_wrapping 1 1 3 = Some (f, m).   (* one backup: works *)
Proof. vm_compute. eexists. eexists. reflexivity. Qed.
