(* C20 (snapshot clause): executable models of the cell orderings of the HDF5 snapshot writer and of the snapshot reader

     src/GadgetDensityGridWriter.cpp
        write(DensitySubGridCreator< DensitySubGrid > &, ..)       lines 360-629   (task based; the HydroDensitySubGrid
                                                                                    overload 640-909 has the same loops)
        write(DensityGrid &, ..)                                   lines 107-349   (legacy grids)
     src/DensitySubGridCreator.hpp   create_subgrid / get_grid_position (position of subgrid `index` in the layout),
                                     iterator begin() .. original_end() = subgrid 0, 1, .., number_of_original_subgrids-1
     src/DensitySubGrid.hpp          get_three_index, get_cell_midpoint, _number_of_cells = {nx, ny, nz, ny*nz}
     src/CartesianDensityGrid.hpp    get_indices, get_cell, get_cell_midpoint
     src/CMacIonizeSnapshotDensityFunction.cpp
        initialize(), branch type == "TaskBased"                   lines 336-397
        initialize(), branch type == "Cartesian"                   lines 296-335
        operator()                                                 lines 504-524

   All index arithmetic is on non-negative machine integers (uint_fast32_t = 64 bit here); `/` below is Z.div, which
   agrees with the C++ division on non-negative operands.  Positions are over Q (exact arithmetic).
   A triple (x, y, z) is the C++ CoordinateVector. *)
From Coq Require Import List ZArith QArith Qround Bool.
From CMI Require Import Cxx.C20_Defs.
Import ListNotations.
Local Open Scope Z_scope.

Definition Z3 : Type := (Z * Z * Z)%type.

(* the values i = 0, 1, .., n-1 of a `for (i = 0; i < n; ++i)` loop *)
Fixpoint zrange_from (start : Z) (n : nat) : list Z :=
  match n with O => [] | S k => start :: zrange_from (start + 1) k end.
Definition zrange (n : Z) : list Z := zrange_from 0 (Z.to_nat n).

Definition z3_eqb (a b : Z3) : bool :=
  match a, b with (a0, a1, a2), (b0, b1, b2) => Z.eqb a0 b0 && Z.eqb a1 b1 && Z.eqb a2 b2 end.

(* executing a list of array stores `array[key] = value` in order, starting from an array without content *)
Definition store_all {K X : Type} (eqb : K -> K -> bool) (l : list (K * X)) : K -> option X :=
  fold_left (fun (m : K -> option X) (kx : K * X) => fun k => if eqb k (fst kx) then Some (snd kx) else m k) l (fun _ => None).

(* ------------------------------------------------------------------------
   geometry of a task-based grid: S = number of subgrids per axis, B = cells per subgrid per axis *)
Definition prod3 (a : Z3) : Z := match a with (x, y, z) => x * y * z end.
Definition mul3 (a b : Z3) : Z3 := match a, b with (a0, a1, a2), (b0, b1, b2) => (a0 * b0, a1 * b1, a2 * b2) end.
Definition div3 (a b : Z3) : Z3 := match a, b with (a0, a1, a2), (b0, b1, b2) => (a0 / b0, a1 / b1, a2 / b2) end.
Definition pos3 (a : Z3) : Prop := match a with (x, y, z) => 1 <= x /\ 1 <= y /\ 1 <= z end.
Definition in3 (c n : Z3) : Prop :=
  match c, n with (c0, c1, c2), (n0, n1, n2) => 0 <= c0 < n0 /\ 0 <= c1 < n1 /\ 0 <= c2 < n2 end.

(* DensitySubGridCreator::create_subgrid(index) / get_grid_position(index):
     ix = index / (ns[1]*ns[2]);  iy = (index - ix*ns[1]*ns[2]) / ns[2];  iz = index - ix*ns[1]*ns[2] - iy*ns[2] *)
Definition sub_position (S : Z3) (index : Z) : Z3 :=
  match S with (sx, sy, sz) =>
    let ix := index / (sy * sz) in
    let iy := (index - ix * sy * sz) / sz in
    let iz := index - ix * sy * sz - iy * sz in
    (ix, iy, iz)
  end.

(* DensitySubGrid::get_three_index(one_index), _number_of_cells[3] = ny*nz, _number_of_cells[2] = nz *)
Definition three_index (B : Z3) (one : Z) : Z3 :=
  match B with (bx, by_, bz) =>
    let n3 := by_ * bz in
    let i0 := one / n3 in
    let i1 := (one - i0 * n3) / bz in
    let i2 := one - i0 * n3 - i1 * bz in
    (i0, i1, i2)
  end.

(* the cell of the whole grid that cell `c` of subgrid `g` is: subgrid g covers the cells
   [gx*bx, (gx+1)*bx) x .. (its box is anchor + g * subgrid_sides, see sub_mid below) *)
Definition global_cell (S B : Z3) (g c : Z) : Z3 :=
  match sub_position S g, three_index B c, B with
  | (gx, gy, gz), (i, j, k), (bx, by_, bz) => (gx * bx + i, gy * by_ + j, gz * bz + k)
  end.

(* position of a cell inside its subgrid: DensitySubGrid::get_one_index(three_index) *)
Definition one_index (B ci : Z3) : Z :=
  match B, ci with (bx, by_, bz), (i, j, k) => i * by_ * bz + j * bz + k end.

(* ------------------------------------------------------------------------
   WRITER, task based.  One entry per append: (position in the dataset, (subgrid, cell index in the subgrid)).

     const uint_fast32_t blocksize = 10000;
     uint_fast32_t block_offset = 0;
     for (gridit = begin(); gridit != original_end(); ++gridit) {
       numblock = ncell / blocksize + (ncell % blocksize > 0);
       for (iblock = 0; iblock < numblock; ++iblock) {
         offset = iblock * blocksize;  upper_limit = min(offset + blocksize, ncell);
         index = 0; for (cellit = begin() + offset; cellit != begin() + upper_limit; ++cellit) { props[index] = ..; ++index; }
         append_dataset(group, name, block_offset + offset, props);
       }
       block_offset += ncell;
     } *)
Definition blocksize : Z := 10000.

Definition wr_blocks {A : Type} (ncell : Z) (entry : Z -> Z -> Z -> A) : list A :=
  let numblock := ncell / blocksize + (if ncell mod blocksize >? 0 then 1 else 0) in
  flat_map (fun iblock =>
    let offset := iblock * blocksize in
    let upper_limit := Z.min (offset + blocksize) ncell in
    map (fun index => entry offset index (offset + index)) (zrange (upper_limit - offset)))
    (zrange numblock).

Definition wr_subgrid (ncell block_offset g : Z) : list (Z * (Z * Z)) :=
  wr_blocks ncell (fun offset index cellit => (block_offset + offset + index, (g, cellit))).

Fixpoint wr_loop (ncell : Z) (subgrids : list Z) (block_offset : Z) : list (Z * (Z * Z)) :=
  match subgrids with
  | [] => []
  | g :: rest => wr_subgrid ncell block_offset g ++ wr_loop ncell rest (block_offset + ncell)
  end.

Definition wr_entries (S B : Z3) : list (Z * (Z * Z)) := wr_loop (prod3 B) (zrange (prod3 S)) 0.

(* content of a dataset after the writer ran on a grid whose cells hold the field f *)
Definition snapshot_file {V : Type} (S B : Z3) (f : Z3 -> V) : Z -> option V :=
  fun p => match store_all Z.eqb (wr_entries S B) p with
           | Some (g, c) => Some (f (global_cell S B g c))
           | None => None
           end.

(* ------------------------------------------------------------------------
   READER, branch "TaskBased" of initialize(); N = DensityGrid:number of cells, S = number of subgrids (both read
   from the parameter block of the snapshot).  One entry per store: ((ix, iy, iz), cell_index).

     numblockx = ncell.x / numsubgrid.x ..;  numblocktot = numblockx * numblocky * numblockz;
     for six, siy, siz:  subgrid_index = six * ns.y * ns.z + siy * ns.z + siz;
       for cix, ciy, ciz:
         cell_index = subgrid_index * numblocktot + cix * numblocky * numblockz + ciy * numblockz + ciz;
         ix = six * numblockx + cix; ..
         _cartesian_grid[ix][iy][iz] = values[cell_index]; *)
Definition rd_subgrid_index (S si : Z3) : Z :=
  match S, si with (sx, sy, sz), (six, siy, siz) => six * sy * sz + siy * sz + siz end.

Definition rd_cell_index (S N si ci : Z3) : Z :=
  match div3 N S, ci with (nbx, nby, nbz), (cix, ciy, ciz) =>
    let numblocktot := nbx * nby * nbz in
    rd_subgrid_index S si * numblocktot + cix * nby * nbz + ciy * nbz + ciz
  end.

Definition rd_target (S N si ci : Z3) : Z3 :=
  match div3 N S, si, ci with (nbx, nby, nbz), (six, siy, siz), (cix, ciy, ciz) =>
    (six * nbx + cix, siy * nby + ciy, siz * nbz + ciz)
  end.

Definition rd_entries (S N : Z3) : list (Z3 * Z) :=
  match S, div3 N S with (sx, sy, sz), (nbx, nby, nbz) =>
    flat_map (fun six => flat_map (fun siy => flat_map (fun siz =>
      flat_map (fun cix => flat_map (fun ciy => map (fun ciz =>
        (rd_target S N (six, siy, siz) (cix, ciy, ciz), rd_cell_index S N (six, siy, siz) (cix, ciy, ciz)))
      (zrange nbz)) (zrange nby)) (zrange nbx))
    (zrange sz)) (zrange sy)) (zrange sx)
  end.

(* _cartesian_grid after initialize() read the datasets `file` *)
Definition rd_grid {V : Type} (S N : Z3) (file : Z -> option V) : Z3 -> option V :=
  fun t => match store_all z3_eqb (rd_entries S N) t with
           | Some src => file src
           | None => None
           end.

(* operator()(cell): ix = ncell.x * (position.x - anchor.x) / sides.x ..; return _cartesian_grid[ix][iy][iz] *)
Definition Q3 : Type := (Q * Q * Q)%type.
Definition nonzero3 (l : Q3) : Prop := match l with (lx, ly, lz) => ~ (lx == 0)%Q /\ ~ (ly == 0)%Q /\ ~ (lz == 0)%Q end.
Definition lookup_cell (N : Z3) (anchor side pos : Q3) : Z3 :=
  match N, anchor, side, pos with (nx, ny, nz), (ax, ay, az), (lx, ly, lz), (px, py, pz) =>
    (snap_lookup_index nx ax lx px, snap_lookup_index ny ay ly py, snap_lookup_index nz az lz pz)
  end.

Definition rd_value {V : Type} (S N : Z3) (anchor side : Q3) (file : Z -> option V) (pos : Q3) : option V :=
  rd_grid S N file (lookup_cell N anchor side pos).

(* midpoint of cell i of subgrid gx along one axis, as the grid computes it:
     subgrid_sides = box_sides / number_of_subgrids                       (DensitySubGridCreator constructor)
     subgrid anchor = box_anchor + gx * subgrid_sides                     (create_subgrid)
     cell_size = subgrid_sides / subgrid_number_of_cells                  (DensitySubGrid constructor)
     midpoint = subgrid anchor + (i + 0.5) * cell_size                    (get_cell_midpoint) *)
Definition sub_mid (s b gx i : Z) (anchor side : Q) : Q :=
  ((anchor + inject_Z gx * (side / inject_Z s)) + (inject_Z i + (1 # 2)) * ((side / inject_Z s) / inject_Z b))%Q.

Definition sub_mid3 (S B : Z3) (g c : Z) (anchor side : Q3) : Q3 :=
  match S, B, sub_position S g, three_index B c, anchor, side with
  | (sx, sy, sz), (bx, by_, bz), (gx, gy, gz), (i, j, k), (ax, ay, az), (lx, ly, lz) =>
      (sub_mid sx bx gx i ax lx, sub_mid sy by_ gy j ay ly, sub_mid sz bz gz k az lz)
  end.

(* ------------------------------------------------------------------------
   LEGACY pair: write(DensityGrid &) stores the cells in iterator order (long index 0, 1, ..) in blocks of 10000
   TOGETHER WITH their coordinates (midpoint - box anchor); the "Cartesian" branch of initialize() places entry i
   of the datasets in the cell that contains the stored coordinate:
        ix = ncell.x * p.x / sides.x ..;  _cartesian_grid[ix][iy][iz] = values[i]; *)

(* CartesianDensityGrid::get_indices(long_index) *)
Definition cart_indices (N : Z3) (long_index : Z) : Z3 :=
  match N with (nx, ny, nz) =>
    let index_x := long_index / (ny * nz) in
    let l1 := long_index - index_x * ny * nz in
    let index_y := l1 / nz in
    let l2 := l1 - index_y * nz in
    (index_x, index_y, l2)
  end.

(* get_cell_midpoint: (anchor + cellside * index) + 0.5 * cellside, cellside = sides / ncell *)
Definition cart_mid (n i : Z) (anchor side : Q) : Q :=
  ((anchor + (side / inject_Z n) * inject_Z i) + (1 # 2) * (side / inject_Z n))%Q.

Definition cart_coords (N : Z3) (anchor side : Q3) (long_index : Z) : Q3 :=
  match N, cart_indices N long_index, anchor, side with
  | (nx, ny, nz), (ix, iy, iz), (ax, ay, az), (lx, ly, lz) =>
      ((cart_mid nx ix ax lx - ax)%Q, (cart_mid ny iy ay ly - ay)%Q, (cart_mid nz iz az lz - az)%Q)
  end.

(* (position in the datasets, long index of the cell); `for (it = grid.begin() + offset; it != grid.begin() + upper_limit; ++it)`,
   appended at `offset` *)
Definition lg_wr_entries (N : Z3) : list (Z * Z) :=
  wr_blocks (prod3 N) (fun offset index it => (offset + index, it)).

Definition lg_file {V : Type} (N : Z3) (anchor side : Q3) (f : Z3 -> V) : Z -> option (Q3 * V) :=
  fun p => match store_all Z.eqb (lg_wr_entries N) p with
           | Some l => Some (cart_coords N anchor side l, f (cart_indices N l))
           | None => None
           end.

Definition fill_cell (N : Z3) (side p : Q3) : Z3 :=
  match N, side, p with (nx, ny, nz), (lx, ly, lz), (px, py, pz) =>
    (snap_fill_index nx lx px, snap_fill_index ny ly py, snap_fill_index nz lz pz)
  end.

(* the stores of the "Cartesian" branch for datasets of `size` entries *)
Definition lg_rd_entries {V : Type} (N : Z3) (side : Q3) (size : Z) (file : Z -> option (Q3 * V)) : list (Z3 * V) :=
  flat_map (fun i => match file i with
                     | Some (p, v) => [(fill_cell N side p, v)]
                     | None => []
                     end) (zrange size).

Definition lg_rd_value {V : Type} (N : Z3) (anchor side : Q3) (size : Z) (file : Z -> option (Q3 * V)) (pos : Q3) : option V :=
  store_all z3_eqb (lg_rd_entries N side size file) (lookup_cell N anchor side pos).

Definition cart_mid3 (N : Z3) (c : Z3) (anchor side : Q3) : Q3 :=
  match N, c, anchor, side with (nx, ny, nz), (ix, iy, iz), (ax, ay, az), (lx, ly, lz) =>
    (cart_mid nx ix ax lx, cart_mid ny iy ay ly, cart_mid nz iz az lz)
  end.

(* ------------------------------------------------------------------------
   for the correspondence runs: the two orderings as flat lists of integers *)
Definition wr_entries_flat (S B : Z3) : list (list Z) :=
  map (fun e => match e with (p, (g, c)) =>
                  match global_cell S B g c with (x, y, z) => [p; g; c; x; y; z] end end) (wr_entries S B).

Definition rd_entries_flat (S N : Z3) : list (list Z) :=
  map (fun e => match e with ((x, y, z), src) => [x; y; z; src] end) (rd_entries S N).

Definition lg_wr_entries_flat (N : Z3) : list (list Z) :=
  map (fun e => match e with (p, l) => match cart_indices N l with (x, y, z) => [p; l; x; y; z] end end) (lg_wr_entries N).
