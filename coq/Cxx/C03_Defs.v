(* C03: executable model + specification for
     layer 1  the 27-direction tables of src/TravelDirections.hpp and the direction dependent index
              functions of src/DensitySubGrid.hpp (the tables themselves are REGENERATED from the code
              into Cxx/C03_Gen.v; this file holds the SPEC they are checked against), and
     layer 3  the neighbour wiring of DensitySubGridCreator::create_subgrid and the copy bookkeeping of
              create_copies / update_original_counters / update_copy_properties / iterator::get_copies
              (hand model in Z, run against the real creator on every check run).
   Only definitions here; lemmas are in C03_Proofs.v. *)
From Coq Require Import ZArith List Bool.
Import ListNotations.
Local Open Scope Z_scope.

(* ------------------------------------------------------------------------- *)
(* generic helpers *)

Definition vec := (Z * Z * Z)%type.
Definition vneg (o : vec) : vec := let '(x, y, z) := o in (- x, - y, - z).
Definition vec_eqb (a b : vec) : bool :=
  let '(a1, a2, a3) := a in let '(b1, b2, b3) := b in (a1 =? b1) && (a2 =? b2) && (a3 =? b3).

(* a, a+1, ..., a+n-1 *)
Definition zrange (a : Z) (n : nat) : list Z := map (fun k => a + Z.of_nat k) (seq 0 n).

(* table lookup with a Z index; -1 outside the table (also for negative d, which Z.to_nat maps to 0) *)
Definition tnth (t : list Z) (d : Z) : Z := if d <? 0 then -1 else nth (Z.to_nat d) t (-1).

Fixpoint upd (l : list Z) (k : nat) (v : Z) : list Z :=
  match l, k with
  | [], _ => []
  | _ :: r, O => v :: r
  | x :: r, S k' => x :: upd r k' v
  end.

Definition zsum (l : list Z) : Z := fold_right Z.add 0 l.

(* ------------------------------------------------------------------------- *)
(* layer 1: SPEC of the direction index = encoding of an offset in {-1,0,1}^3,
   in the order of enum TravelDirection (P = +1, N = -1). *)

Definition NDIR : Z := 27.
Definition OUTSIDE : Z := 4294967295.      (* NEIGHBOUR_OUTSIDE = 0xffffffff *)
Definition SENT : Z := 4294967295.         (* "no copies" marker in _copies = 0xffffffff *)
Definition W32 : Z := 4294967296.
Definition u32 (v : Z) : Z := v mod W32.   (* _ngbs is uint_least32_t *)

Definition offset_of_dir (d : Z) : vec :=
  match d with
  | 0 => (0, 0, 0)                                   (* INSIDE *)
  | 1 => (1, 1, 1) | 2 => (1, 1, -1) | 3 => (1, -1, 1) | 4 => (1, -1, -1)          (* CORNER_xyz *)
  | 5 => (-1, 1, 1) | 6 => (-1, 1, -1) | 7 => (-1, -1, 1) | 8 => (-1, -1, -1)
  | 9 => (0, 1, 1) | 10 => (0, 1, -1) | 11 => (0, -1, 1) | 12 => (0, -1, -1)       (* EDGE_X_yz *)
  | 13 => (1, 0, 1) | 14 => (1, 0, -1) | 15 => (-1, 0, 1) | 16 => (-1, 0, -1)      (* EDGE_Y_xz *)
  | 17 => (1, 1, 0) | 18 => (1, -1, 0) | 19 => (-1, 1, 0) | 20 => (-1, -1, 0)      (* EDGE_Z_xy *)
  | 21 => (1, 0, 0) | 22 => (-1, 0, 0)                                             (* FACE_X *)
  | 23 => (0, 1, 0) | 24 => (0, -1, 0)                                             (* FACE_Y *)
  | 25 => (0, 0, 1) | 26 => (0, 0, -1)                                             (* FACE_Z *)
  | _ => (0, 0, 0)
  end.

Definition dirs : list Z := zrange 0 27.
Definition trits : list Z := [-1; 0; 1].
(* all 27 offsets, in the order of the loops of create_subgrid (nix outermost, niz innermost) *)
Definition offsets : list vec :=
  flat_map (fun x => flat_map (fun y => map (fun z => (x, y, z)) trits) trits) trits.

Definition dir_of_offset (o : vec) : Z :=
  match find (fun d => vec_eqb (offset_of_dir d) o) dirs with Some d => d | None => -1 end.

Definition is_trit (x : Z) : Prop := x = -1 \/ x = 0 \/ x = 1.
Definition is_offset (o : vec) : Prop := let '(x, y, z) := o in is_trit x /\ is_trit y /\ is_trit z.

(* --- exit mask: TravelDirections::get_output_direction(mask) --- *)
(* two bits per axis: (high, low) = (index above the range, index below the range) *)
Definition axis_of_bits (hi lo : bool) : option Z :=
  match hi, lo with
  | false, false => Some 0
  | true, false => Some 1
  | false, true => Some (-1)
  | true, true => None
  end.

Definition mask_decode (m : Z) : Z :=
  match axis_of_bits (Z.testbit m 5) (Z.testbit m 4),
        axis_of_bits (Z.testbit m 3) (Z.testbit m 2),
        axis_of_bits (Z.testbit m 1) (Z.testbit m 0) with
  | Some x, Some y, Some z => dir_of_offset (x, y, z)
  | _, _, _ => -1
  end.

Definition mask_inconsistent (m : Z) : bool :=
  (Z.testbit m 5 && Z.testbit m 4) || (Z.testbit m 3 && Z.testbit m 2) || (Z.testbit m 1 && Z.testbit m 0).

Definition axis_bits (x : Z) : Z := if x =? 1 then 2 else if x =? -1 then 1 else 0.
Definition mask_encode (o : vec) : Z := let '(x, y, z) := o in 16 * axis_bits x + 4 * axis_bits y + axis_bits z.

(* --- DensitySubGrid::get_output_direction(three_index):
       x_low = i < 0, x_high = (i / ncell) > 0 (C++ integer division truncates = Z.quot), mask, decode --- *)
Definition b2z (b : bool) : Z := if b then 1 else 0.
Definition mask_of (nc ti : vec) : Z :=
  let '(n1, n2, n3) := nc in let '(i, j, k) := ti in
  32 * b2z (0 <? Z.quot i n1) + 16 * b2z (i <? 0) +
  8 * b2z (0 <? Z.quot j n2) + 4 * b2z (j <? 0) +
  2 * b2z (0 <? Z.quot k n3) + b2z (k <? 0).
Definition exit_dir (nc ti : vec) : Z := mask_decode (mask_of nc ti).

(* geometric classification of an index against [0, n) *)
Definition axis_class (n t : Z) : Z := if t <? 0 then -1 else if n <=? t then 1 else 0.
Definition exit_class (nc ti : vec) : vec :=
  let '(n1, n2, n3) := nc in let '(i, j, k) := ti in (axis_class n1 i, axis_class n2 j, axis_class n3 k).

(* --- compatibility of a direction vector (given by the signs of its components) --- *)
Definition sign_ok (o s : Z) : bool := (o =? 0) || (s =? o).
Definition out_compat_spec (d : Z) (s : vec) : bool :=
  let '(ox, oy, oz) := offset_of_dir d in let '(sx, sy, sz) := s in
  sign_ok ox sx && sign_ok oy sy && sign_ok oz sz.
(* entering through the face/edge/corner labelled d means moving against its offset *)
Definition in_compat_spec (d : Z) (s : vec) : bool := out_compat_spec d (vneg s).

Definition compat_table_spec : list (Z * Z * Z * Z * Z * bool * bool) :=
  flat_map (fun kind => flat_map (fun s => map (fun d =>
     let '(sx, sy, sz) := s in (kind, sx, sy, sz, d, out_compat_spec d s, in_compat_spec d s)) dirs) offsets) [0; 1; 2].

(* --- entry: start index and repositioning per input direction, per axis --- *)
(* start index for a packet in the middle cell (n-1)/2 of an axis with n cells (n odd) *)
Definition entry_index1 (n o : Z) : Z := if o =? -1 then 0 else if o =? 1 then n - 1 else (n - 1) / 2.
(* 0 = put on the lower face, 2 = put on the upper face, 1 = coordinate untouched *)
Definition entry_repos1 (o : Z) : Z := if o =? -1 then 0 else if o =? 1 then 2 else 1.
Definition entry_index (n : Z) (o : vec) : vec :=
  let '(x, y, z) := o in (entry_index1 n x, entry_index1 n y, entry_index1 n z).
Definition entry_repos (o : vec) : vec := let '(x, y, z) := o in (entry_repos1 x, entry_repos1 y, entry_repos1 z).
Definition entry_table_spec : list (Z * Z * vec * vec) :=
  flat_map (fun n => map (fun d => (n, d, entry_index n (offset_of_dir d), entry_repos (offset_of_dir d))) dirs) [1; 3; 5].

Definition named_table_spec : list (Z * vec) := map (fun d => (d, offset_of_dir d)) dirs.

(* --- boolean checkers evaluated on the regenerated tables (soundness lemmas in C03_Proofs.v) --- *)
Definition in_dirs (d : Z) : bool := (0 <=? d) && (d <? NDIR).

Definition check_out_to_in (t : list Z) : bool :=
  forallb (fun d => let d' := tnth t d in
                    in_dirs d' && vec_eqb (offset_of_dir d') (vneg (offset_of_dir d)) && (tnth t d' =? d)) dirs.

Definition check_mask (t : list Z) : bool :=
  (Nat.eqb (length t) 64) &&
  forallb (fun m => (tnth t m =? mask_decode m) && (Bool.eqb (tnth t m =? -1) (mask_inconsistent m))) (zrange 0 64) &&
  forallb (fun o => tnth t (mask_encode o) =? dir_of_offset o) offsets &&
  (Nat.eqb (length (filter (fun v => v =? -1) t)) 37).

Definition check_exit (t : list (Z * Z * Z * Z * Z * Z * Z)) : bool :=
  forallb (fun e => let '(n1, n2, n3, i, j, k, d) := e in
                    (0 <? n1) && (0 <? n2) && (0 <? n3) && (d =? exit_dir (n1, n2, n3) (i, j, k))) t.

Definition check_in_out (t : list Z) : bool :=
  forallb (fun d => forallb (fun s => Bool.eqb (in_compat_spec d s) (out_compat_spec (tnth t d) s)) offsets) dirs.

Definition check_handover (t : list Z) (e : list (Z * Z * vec * vec)) : bool :=
  forallb (fun d => forallb (fun n =>
     existsb (fun r => let '(n', d', ti, rp) := r in
                (n' =? n) && (d' =? tnth t d) && vec_eqb ti (entry_index n (vneg (offset_of_dir d)))
                && vec_eqb rp (entry_repos (vneg (offset_of_dir d)))) e) [1; 3; 5]) dirs.

(* ------------------------------------------------------------------------- *)
(* layer 3: neighbour wiring (DensitySubGridCreator::create_subgrid) *)

Record layout := mkL {
  nx : Z; ny : Z; nz : Z;             (* _number_of_subgrids *)
  px : bool; py : bool; pz : bool;    (* _periodicity *)
  cx : Z; cy : Z; cz : Z              (* _subgrid_number_of_cells *)
}.

Definition nsub (L : layout) : Z := nx L * ny L * nz L.

(* ix = index / (ny*nz); iy = (index - ix*ny*nz) / nz; iz = index - ix*ny*nz - iy*nz
   (all operands non-negative, so C++ division = Z.div) *)
Definition pos_of_index (L : layout) (idx : Z) : vec :=
  let ix := idx / (ny L * nz L) in
  let iy := (idx - ix * ny L * nz L) / nz L in
  let iz := idx - ix * ny L * nz L - iy * nz L in
  (ix, iy, iz).

Definition lin (L : layout) (c : vec) : Z := let '(x, y, z) := c in x * ny L * nz L + y * nz L + z.

(* if (periodic) { if (c < 0) c = n - 1; if (c >= n) c = 0; } *)
Definition wrap (p : bool) (n c : Z) : Z :=
  if p then let c1 := if c <? 0 then n - 1 else c in if n <=? c1 then 0 else c1 else c.

Definition in_rng (n c : Z) : bool := (0 <=? c) && (c <? n).

(* one iteration of the triple loop *)
Definition create_step (L : layout) (A : vec) (arr : list Z) (o : vec) : list Z :=
  let '(ix, iy, iz) := A in let '(ox, oy, oz) := o in
  let c1 := wrap (px L) (nx L) (ix + ox) in
  let c2 := wrap (py L) (ny L) (iy + oy) in
  let c3 := wrap (pz L) (nz L) (iz + oz) in
  if in_rng (nx L) c1 && in_rng (ny L) c2 && in_rng (nz L) c3 then
    let ngbi := exit_dir (cx L, cy L, cz L) (ox * cx L, oy * cy L, oz * cz L) in
    if ngbi <? 0 then arr     (* cmac_error: never happens, see exit_dir_offset *)
    else upd arr (Z.to_nat ngbi) (u32 (lin L (c1, c2, c3)))
  else arr.

(* the 27 neighbour slots of original subgrid idx after create_subgrid *)
Definition create_ngbs (L : layout) (idx : Z) : list Z :=
  fold_left (create_step L (pos_of_index L idx)) offsets (repeat OUTSIDE 27).

Definition subgrid_ngb (L : layout) (idx d : Z) : Z := tnth (create_ngbs L idx) d.

(* SPEC: the lattice neighbour with periodic wrap, OUTSIDE when the box ends there *)
Definition wrapm (p : bool) (n c : Z) : Z := if p then c mod n else c.
Definition ngb_spec (L : layout) (A o : vec) : Z :=
  let '(ix, iy, iz) := A in let '(ox, oy, oz) := o in
  let c1 := wrapm (px L) (nx L) (ix + ox) in
  let c2 := wrapm (py L) (ny L) (iy + oy) in
  let c3 := wrapm (pz L) (nz L) (iz + oz) in
  if in_rng (nx L) c1 && in_rng (ny L) c2 && in_rng (nz L) c3 then lin L (c1, c2, c3) else OUTSIDE.

(* the box ends in direction o on a non-periodic axis *)
Definition ends1 (p : bool) (n c : Z) : bool := negb p && negb (in_rng n c).
Definition box_ends (L : layout) (A o : vec) : bool :=
  let '(ix, iy, iz) := A in let '(ox, oy, oz) := o in
  ends1 (px L) (nx L) (ix + ox) || ends1 (py L) (ny L) (iy + oy) || ends1 (pz L) (nz L) (iz + oz).

Definition wfL (L : layout) : Prop :=
  1 <= nx L /\ 1 <= ny L /\ 1 <= nz L /\ 1 <= cx L /\ 1 <= cy L /\ 1 <= cz L /\ nsub L < OUTSIDE.

(* ------------------------------------------------------------------------- *)
(* layer 3: copies (DensitySubGridCreator::create_copies) *)

(* number of copies of a subgrid with copy level l:  (1 << l) - 1 *)
Definition cnt (l : Z) : nat := Z.to_nat (2 ^ l - 1).
(* the loop variable k (or j) = 1 .. (1 << l) - 1 *)
Definition krange (l : Z) : list Z := map (fun k => 1 + Z.of_nat k) (seq 0 (cnt l)).

(* first loop: for every original i: if ((1<<l) > 1) _copies[i] = _subgrids.size(); then push_back (1<<l)-1
   copies and the same number of entries i to _originals.  size = _subgrids.size() on entry.
   returns (_copies, _originals) *)
Fixpoint loop1 (lvs : list Z) (i size : Z) : list Z * list Z :=
  match lvs with
  | [] => ([], [])
  | l :: r =>
    let '(cs, os) := loop1 r (i + 1) (size + Z.of_nat (cnt l)) in
    ((if 1 <? 2 ^ l then size else SENT) :: cs, repeat i (cnt l) ++ os)
  end.

Definition copies_arr (L : layout) (lv : list Z) : list Z := fst (loop1 lv 0 (nsub L)).
Definition originals (L : layout) (lv : list Z) : list Z := snd (loop1 lv 0 (nsub L)).
Definition total (L : layout) (lv : list Z) : Z := nsub L + Z.of_nat (length (originals L lv)).
Definition lvl (lv : list Z) (i : Z) : Z := nth (Z.to_nat i) lv 0.
Definition first_copy (L : layout) (lv : list Z) (i : Z) : Z := nth (Z.to_nat i) (copies_arr L lv) SENT.

(* second loop: value passed to set_neighbour(j, .) of copy k (1-based) of original i *)
Definition copy_slot (L : layout) (lv : list Z) (i k j : Z) : Z :=
  let l := lvl lv i in
  if j =? 0 then first_copy L lv i + k - 1
  else
    let on := subgrid_ngb L i j in
    if on =? OUTSIDE then OUTSIDE
    else
      let nl := lvl lv on in
      if nl =? l then first_copy L lv on + k - 1
      else if nl <? l then
        let q := k / 2 ^ (l - nl) in
        if 0 <? q then first_copy L lv on + q - 1 else on
      else first_copy L lv on + (k - 1) * 2 ^ (nl - l).

Definition copy_array (L : layout) (lv : list Z) (i k : Z) : list Z :=
  map (fun j => u32 (copy_slot L lv i k j)) dirs.

(* things appended per original, in the order the copies are pushed back *)
Fixpoint blocks {A : Type} (g : Z -> Z -> A) (lvs : list Z) (i : Z) : list A :=
  match lvs with
  | [] => []
  | l :: r => map (g i) (krange l) ++ blocks g r (i + 1)
  end.

Definition copy_ngbs (L : layout) (lv : list Z) : list (list Z) := blocks (copy_array L lv) lv 0.

(* _subgrids[s]->_ngbs for s = 0 .. total-1 *)
Definition all_ngbs (L : layout) (lv : list Z) : list (list Z) :=
  map (create_ngbs L) (zrange 0 (Z.to_nat (nsub L))) ++ copy_ngbs L lv.

Definition ngb_at (L : layout) (lv : list Z) (s d : Z) : Z :=
  if s <? 0 then -1 else tnth (nth (Z.to_nat s) (all_ngbs L lv) []) d.

Definition original_of (L : layout) (lv : list Z) (s : Z) : Z :=
  if s <? nsub L then s else nth (Z.to_nat (s - nsub L)) (originals L lv) (-1).

Definition wf (L : layout) (lv : list Z) : Prop :=
  wfL L /\ Z.of_nat (length lv) = nsub L /\ Forall (fun l => 0 <= l <= 30) lv /\ total L lv < OUTSIDE.

(* ------------------------------------------------------------------------- *)
(* folding and pushing: the while loops of update_original_counters / update_copy_properties / get_copies
      copy_index = _copies[i] - N;
      while (copy_index < _originals.size() && _originals[copy_index] == i) { visit(i, copy_index + N); ++copy_index; }
   [suffix] is _originals from copy_index on, [pos] = copy_index + N *)
Fixpoint scan_calls (suffix : list Z) (i pos : Z) : list (Z * Z) :=
  match suffix with
  | [] => []
  | o :: r => if o =? i then (i, pos) :: scan_calls r i (pos + 1) else []
  end.

(* the sequence of (original, copy) pairs visited by the outer loop over all originals *)
Definition calls_of (N : Z) (copies origs : list Z) : list (Z * Z) :=
  flat_map (fun i => let fc := nth (Z.to_nat i) copies SENT in
                     if fc =? SENT then []
                     else scan_calls (skipn (Z.to_nat (fc - N)) origs) i fc) (zrange 0 (Z.to_nat N)).
Definition calls (L : layout) (lv : list Z) : list (Z * Z) := calls_of (nsub L) (copies_arr L lv) (originals L lv).

(* iterator::get_copies: (first copy, number of copies) or None *)
Definition get_copies (L : layout) (lv : list Z) (i : Z) : option (Z * Z) :=
  let fc := first_copy L lv i in
  if fc =? SENT then None
  else let n := length (scan_calls (skipn (Z.to_nat (fc - nsub L)) (originals L lv)) i fc) in
       if Nat.eqb n 0 then None else Some (fc, Z.of_nat n).

(* per-subgrid counter (stands for every mean intensity / heating counter of every cell) *)
Definition fupd (f : Z -> Z) (x v : Z) : Z -> Z := fun y => if y =? x then v else f y.

(* update_intensities: original += copy *)
Definition apply_fold (cs : list (Z * Z)) (vals : Z -> Z) : Z -> Z :=
  fold_left (fun v ic => fupd v (fst ic) (v (fst ic) + v (snd ic))) cs vals.

(* update_neutral_fractions: copy state := original state, copy counters := 0.
   state = which subgrid's neutral fractions/density/temperature the subgrid now carries *)
Definition apply_push (cs : list (Z * Z)) (sc : (Z -> Z) * (Z -> Z)) : (Z -> Z) * (Z -> Z) :=
  fold_left (fun sc ic => (fupd (fst sc) (snd ic) (fst sc (fst ic)), fupd (snd sc) (snd ic) 0)) cs sc.

Definition fold_counters (L : layout) (lv : list Z) := apply_fold (calls L lv).
Definition push_state (L : layout) (lv : list Z) := apply_push (calls L lv).

(* all copies of original i, as a list of indices *)
Definition copies_of (L : layout) (lv : list Z) (i : Z) : list Z :=
  filter (fun c => original_of L lv c =? i) (zrange (nsub L) (length (originals L lv))).
