(* C07: the inductive invariant of the interleaving model and the generic theorems
   (every well-formed graph, every number of threads, every schedule). *)
From Coq Require Import Arith List Bool PeanoNat Lia.
From CMI Require Import Cxx.C07_Defs Cxx.C07_Base.
Import ListNotations.

(* ================================================================== vocabulary *)
Definition pcf (s : state) (i : nat) : pc := nth i (pcs s) Exited.
Definition owner_of (p : pc) : option nat :=
  match p with
  | Run t | Unlock t | Release t _ | Enq t _ | Inc t _ => Some t
  | _ => None
  end.
(* the running section: from the successful lock_dependency to unlock_dependency *)
Definition holds (p : pc) : option nat :=
  match p with Run t | Unlock t => Some t | _ => None end.
Definition activeb (p : pc) : bool := match owner_of p with Some _ => true | None => false end.
Definition at_incb (p : pc) : bool := match p with Inc _ _ => true | _ => false end.
Definition count_pc (f : pc -> bool) (l : list pc) : nat := length (filter f l).
Definition started (s : state) (t : nat) : Prop := In (EStart t) (log s).
Definition stopped (s : state) (t : nat) : Prop := In (EStop t) (log s).
Definition all_exited (s : state) : Prop := forall i, pcf s i = Exited.
Definition relsum (g : graph) (r : list nat) (c : nat) : nat :=
  sumn (fun p => cnt_in c (firstn (nth p r 0) (children (tk g p)))) (length g).
Definition pending (g : graph) (s : state) (t : nat) : Prop :=
  exists i p k, pcf s i = Enq p k /\ nth k (children (tk g p)) 0 = t.

Definition pc_ok (g : graph) (s : state) (p : pc) : Prop :=
  match p with
  | Run t => t < length g /\ started s t /\ ~ stopped s t /\ nth t (rel s) 0 = 0
  | Unlock t => t < length g /\ started s t /\ stopped s t /\ nth t (rel s) 0 = 0
  | Release t k => t < length g /\ started s t /\ stopped s t /\ nth t (rel s) 0 = k /\ k <= nch g t
  | Enq t k => t < length g /\ started s t /\ stopped s t /\ nth t (rel s) 0 = S k /\ k < nch g t /\
               let c := nth k (children (tk g t)) 0 in
               c < length g /\ nth c (cnt s) 0 = 0 /\ ~ In c (queue s) /\ ~ started s c
  | Inc t k => t < length g /\ started s t /\ stopped s t /\ nth t (rel s) 0 = S k /\ k < nch g t
  | _ => True
  end.

Record Inv (g : graph) (s : state) : Prop := {
  i_lc : length (cnt s) = length g;
  i_lr : length (rel s) = length g;
  i_acct : forall c, c < length g -> nth c (cnt s) 0 + relsum g (rel s) c = parents0 (tk g c);
  i_qnd : NoDup (queue s);
  i_q : forall t, In t (queue s) -> t < length g /\ nth t (cnt s) 0 = 0 /\ ~ started s t;
  i_st : forall t, started s t -> t < length g /\ nth t (cnt s) 0 = 0;
  i_zero : forall t, t < length g -> nth t (cnt s) 0 = 0 -> In t (queue s) \/ started s t \/ pending g s t;
  i_pc : forall i, pc_ok g s (pcf s i);
  i_pend : forall i j p k p' k', i <> j -> pcf s i = Enq p k -> pcf s j = Enq p' k' ->
           nth k (children (tk g p)) 0 <> nth k' (children (tk g p')) 0;
  i_own : forall i j t, i <> j -> owner_of (pcf s i) = Some t -> owner_of (pcf s j) <> Some t;
  i_unst : forall t, ~ started s t -> nth t (rel s) 0 = 0;
  i_done : forall t, t < length g -> started s t -> (forall i, owner_of (pcf s i) <> Some t) ->
           nth t (rel s) 0 = nch g t /\ stopped s t;
  i_held : forall a, In a (held s) <-> exists i t, holds (pcf s i) = Some t /\ In a (locks (tk g t));
  i_mutex : forall i j t u, i <> j -> holds (pcf s i) = Some t -> holds (pcf s j) = Some u ->
            forall a, In a (locks (tk g t)) -> ~ In a (locks (tk g u));
  i_nt : ntasks s + count_pc at_incb (pcs s) = length (queue s) + count_pc activeb (pcs s);
  i_lognd : NoDup (log s);
  i_stst : forall t, stopped s t -> started s t;
  i_pf : forall l1 l2 c p, log s = l1 ++ EStart c :: l2 -> p < length g -> In c (children (tk g p)) ->
         In (EStop p) l2;
  i_exit : all_exited s -> ntasks s = 0
}.

(* ================================================================== helpers *)
Lemma event_eq_dec : forall a b : event, {a = b} + {a <> b}.
Proof. decide equality; apply Nat.eq_dec. Qed.

Lemma started_dec : forall s t, started s t \/ ~ started s t.
Proof. intros. unfold started. destruct (in_dec event_eq_dec (EStart t) (log s)); auto. Qed.

Lemma owner_dec : forall s t, (exists i, owner_of (pcf s i) = Some t) \/ (forall i, owner_of (pcf s i) <> Some t).
Proof.
  intros s t. unfold pcf. induction (pcs s) as [|p l IH].
  - right. intros [|i]; simpl; discriminate.
  - destruct IH as [[i Hi]|Hn].
    + left. exists (S i). auto.
    + destruct (owner_of p) as [u|] eqn:E.
      * destruct (Nat.eq_dec u t).
        -- left. exists 0. simpl. congruence.
        -- right. intros [|i]; simpl; auto. congruence.
      * right. intros [|i]; simpl; auto. congruence.
Qed.

Lemma dec8_pos : forall v, 1 <= v -> v < 256 -> dec8 v = v - 1.
Proof.
  intros. unfold dec8. replace (v + 255) with ((v - 1) + 1 * 256) by lia.
  rewrite Nat.mod_add by lia. apply Nat.mod_small. lia.
Qed.

Lemma count_upd : forall f l i p v, nth_error l i = Some p ->
  count_pc f (upd l i v) + (if f p then 1 else 0) = count_pc f l + (if f v then 1 else 0).
Proof.
  unfold count_pc. induction l; destruct i; simpl; intros; try discriminate.
  - inversion H; subst. destruct (f p), (f v); simpl; lia.
  - specialize (IHl i p v H). destruct (f a); simpl; lia.
Qed.

Lemma count_zero : forall f l, (forall i, f (nth i l Exited) = false) -> count_pc f l = 0.
Proof.
  unfold count_pc. induction l; simpl; intros; auto.
  specialize (H 0) as H0. simpl in H0. rewrite H0. apply IHl. intros i. apply (H (S i)).
Qed.

Lemma count_pos : forall f l, 1 <= count_pc f l -> exists i, f (nth i l Exited) = true.
Proof.
  unfold count_pc. induction l; simpl; intros. lia.
  destruct (f a) eqn:E. exists 0; auto.
  destruct (IHl H) as [i Hi]. exists (S i); auto.
Qed.

Lemma relsum_le : forall g r c, relsum g r c <= indeg g c.
Proof. intros. apply sumn_le. intros. apply cnt_in_firstn_le. Qed.

Lemma relsum_upd : forall g r t k c x, length r = length g -> t < length g -> nth t r 0 = k ->
  nth_error (children (tk g t)) k = Some x ->
  relsum g (upd r t (S k)) c = relsum g r c + (if x =? c then 1 else 0).
Proof.
  intros. unfold relsum.
  pose proof (sumn_change
    (fun p => cnt_in c (firstn (nth p (upd r t (S k)) 0) (children (tk g p))))
    (fun p => cnt_in c (firstn (nth p r 0) (children (tk g p)))) (length g) t H0) as SC.
  simpl in SC. rewrite nth_upd in SC by lia. rewrite Nat.eqb_refl in SC.
  rewrite H1 in SC. rewrite (cnt_in_firstn_S c _ k x H2) in SC.
  assert (forall i, i < length g -> i <> t ->
     cnt_in c (firstn (nth i (upd r t (S k)) 0) (children (tk g i))) = cnt_in c (firstn (nth i r 0) (children (tk g i)))).
  { intros. rewrite nth_upd by lia. destruct (Nat.eqb_spec i t); congruence. }
  specialize (SC H3). lia.
Qed.

Lemma relsum_repeat0 : forall g c, relsum g (repeat 0 (length g)) c = 0.
Proof.
  intros. unfold relsum. rewrite (sumn_ext _ (fun _ => 0)). apply sumn_zero.
  intros. rewrite nth_repeat0. reflexivity.
Qed.

(* lock_dependency *)
Lemma lock_dep_spec : forall h t h', lock_dep h t = Some h' ->
  (forall a, In a (locks t) -> ~ In a h) /\ (forall a, In a h' <-> In a (locks t) \/ In a h).
Proof.
  unfold lock_dep, locks, try_lock. intros h t h'.
  destruct (dep0 t) as [a|].
  - destruct (memb a h) eqn:Ma; [discriminate|]. apply memb_false in Ma.
    destruct (dep1 t) as [b|].
    + destruct (memb b (a :: h)) eqn:Mb; [discriminate|]. apply memb_false in Mb.
      intros E; inversion E; subst; clear E. simpl in *. split; intros.
      * destruct H as [?|[?|[]]]; subst; tauto.
      * tauto.
    + intros E; inversion E; subst; clear E. simpl. split; intros.
      * destruct H as [?|[]]; subst; auto.
      * tauto.
  - intros E; inversion E; subst. simpl. split; intros; tauto.
Qed.

Lemma lock_dep_free : forall h t, (forall a, In a (locks t) -> ~ In a h) ->
  (forall a b, dep0 t = Some a -> dep1 t = Some b -> a <> b) -> exists h', lock_dep h t = Some h'.
Proof.
  unfold lock_dep, locks, try_lock. intros h t F D.
  destruct (dep0 t) as [a|]; [|eauto].
  destruct (memb a h) eqn:Ma. { apply memb_In in Ma. exfalso. apply (F a); simpl; auto. }
  destruct (dep1 t) as [b|]; [|eauto].
  destruct (memb b (a :: h)) eqn:Mb; [|eauto].
  apply memb_In in Mb. simpl in Mb. destruct Mb.
  - exfalso. apply (D a b); auto.
  - exfalso. apply (F b); simpl; auto.
Qed.

Lemma In_unlock_dep : forall h t a, In a (unlock_dep h t) <-> In a h /\ ~ In a (locks t).
Proof.
  unfold unlock_dep, locks. intros. destruct (dep0 t) as [x|]; [|simpl; tauto].
  destruct (dep1 t) as [y|]; simpl; repeat rewrite In_unlock;
    intuition (subst; auto; try congruence).
Qed.

Lemma pcf_upd : forall s i j v, i < length (pcs s) ->
  nth j (upd (pcs s) i v) Exited = if j =? i then v else pcf s j.
Proof. intros. unfold pcf. apply nth_upd; auto. Qed.

(* a control point stays consistent when the rest of the state changes monotonically *)
Lemma pc_ok_mono : forall g s s' p, pc_ok g s p ->
  (forall t, started s t -> started s' t) ->
  (forall t, stopped s t -> stopped s' t) ->
  (forall t, p = Run t -> ~ stopped s' t) ->
  (forall t, owner_of p = Some t -> nth t (rel s') 0 = nth t (rel s) 0) ->
  (forall t k, p = Enq t k -> let c := nth k (children (tk g t)) 0 in
       nth c (cnt s') 0 = 0 /\ ~ In c (queue s') /\ ~ started s' c) ->
  pc_ok g s' p.
Proof.
  intros g s s' p H Hs Hp Hr Hrel He. destruct p; simpl in *; auto.
  - destruct H as [? [? [? ?]]]. repeat split; auto. rewrite Hrel; auto.
  - destruct H as [? [? [? ?]]]. repeat split; auto. rewrite Hrel; auto.
  - destruct H as [? [? [? [? ?]]]]. repeat split; auto. rewrite Hrel; auto.
  - destruct H as [? [? [? [? [? [? ?]]]]]]. destruct (He t k eq_refl) as [? [? ?]].
    repeat split; auto. rewrite Hrel; auto.
  - destruct H as [? [? [? [? ?]]]]. repeat split; auto. rewrite Hrel; auto.
Qed.

Lemma rel_pos_stopped : forall g s t, Inv g s -> t < length g -> 1 <= nth t (rel s) 0 -> stopped s t.
Proof.
  intros g s t I Ht Hr. destruct (started_dec s t) as [St|Ns].
  - destruct (owner_dec s t) as [[i Hi]|Hn].
    + pose proof (i_pc g s I i) as P. destruct (pcf s i); simpl in *; try discriminate;
        inversion Hi; subst; try tauto; destruct P as [? [? [? ?]]]; lia.
    + apply (i_done g s I t Ht St Hn).
  - rewrite (i_unst g s I t Ns) in Hr. lia.
Qed.

(* when the counter of c is 0 every parent of c has been stopped *)
Lemma zero_parents_stopped : forall g s c p, wf g -> Inv g s -> c < length g -> nth c (cnt s) 0 = 0 ->
  p < length g -> In c (children (tk g p)) -> stopped s p.
Proof.
  intros g s c p W I Hc Hz Hp Hin.
  pose proof (i_acct g s I c Hc) as A. rewrite Hz, (wf_counts g W c Hc) in A. simpl in A.
  assert (E : cnt_in c (firstn (nth p (rel s) 0) (children (tk g p))) = cnt_in c (children (tk g p))).
  { apply (sumn_eq_pointwise (fun p => cnt_in c (firstn (nth p (rel s) 0) (children (tk g p))))
             (fun p => cnt_in c (children (tk g p))) (length g)); auto.
    intros. apply cnt_in_firstn_le. }
  apply cnt_in_pos in Hin. rewrite <- E in Hin. apply cnt_in_firstn_0 in Hin.
  eapply rel_pos_stopped; eauto.
Qed.

(* ================================================================== preservation, case by case *)
Lemma owner_holds : forall p t, holds p = Some t -> owner_of p = Some t.
Proof. destruct p; simpl; intros; try discriminate; auto. Qed.

Ltac pcsplit PF j i := rewrite (PF j) in *; destruct (Nat.eqb_spec j i); [subst j|].

(* a thread moves between control points outside the loop body: LoopHead -> Fetch / Exited, Fetch -> LoopHead *)
Lemma inv_idle_move : forall g s i p v, Inv g s -> nth_error (pcs s) i = Some p ->
  owner_of p = None -> owner_of v = None -> (v = Exited -> ntasks s = 0) -> Inv g (set_pc s i v).
Proof.
  intros g s i p v I Ei Op Ov Hx.
  destruct (nth_error_nth _ _ _ _ Exited Ei) as [Pi Li]. fold (pcf s i) in Pi.
  assert (PF : forall j, pcf (set_pc s i v) j = if j =? i then v else pcf s j) by (intros; apply pcf_upd; auto).
  assert (OW : forall j t, owner_of (pcf (set_pc s i v) j) = Some t -> j <> i /\ owner_of (pcf s j) = Some t).
  { intros j t. rewrite PF. destruct (Nat.eqb_spec j i); intros; [congruence|auto]. }
  assert (OW2 : forall j t, owner_of (pcf s j) = Some t -> j <> i /\ owner_of (pcf (set_pc s i v) j) = Some t).
  { intros j t Hj. assert (j <> i) by (intro; subst; congruence). split; auto. rewrite PF.
    destruct (Nat.eqb_spec j i); congruence. }
  constructor; try (destruct I; assumption).
  - intros t Ht Hz. destruct (i_zero g s I t Ht Hz) as [?|[?|[j [q [k [Hj Hk]]]]]]; auto.
    right; right. exists j, q, k. split; auto.
    destruct (OW2 j q) as [Hn _]. rewrite Hj; auto. rewrite PF. destruct (Nat.eqb_spec j i); congruence.
  - intros j. rewrite PF. destruct (Nat.eqb_spec j i).
    + destruct v; simpl in *; auto; discriminate.
    + exact (i_pc g s I j).
  - intros a b q k q' k' Hab Ha Hb.
    destruct (OW a q) as [? _]. rewrite Ha; auto. destruct (OW b q') as [? _]. rewrite Hb; auto.
    rewrite PF in Ha, Hb. destruct (Nat.eqb_spec a i); [congruence|]. destruct (Nat.eqb_spec b i); [congruence|].
    eapply (i_pend g s I a b); eauto.
  - intros a b t Hab Ha Hb. destruct (OW a t Ha) as [? Ha']. destruct (OW b t Hb) as [? Hb'].
    eapply (i_own g s I a b); eauto.
  - intros t Ht St Hn. apply (i_done g s I t Ht St). intros j Hj. destruct (OW2 j t Hj) as [_ Hj']. eapply Hn; eauto.
  - intros a. rewrite (i_held g s I a). split; intros [j [t [Hh Hl]]]; exists j, t; split; auto.
    + destruct (OW2 j t (owner_holds _ _ Hh)) as [Hn _]. rewrite PF. destruct (Nat.eqb_spec j i); congruence.
    + destruct (OW j t (owner_holds _ _ Hh)) as [Hn _]. rewrite PF in Hh. destruct (Nat.eqb_spec j i); congruence.
  - intros a b t u Hab Ha Hb.
    destruct (OW a t (owner_holds _ _ Ha)) as [Hna _]. destruct (OW b u (owner_holds _ _ Hb)) as [Hnb _].
    rewrite PF in Ha, Hb. destruct (Nat.eqb_spec a i); [congruence|]. destruct (Nat.eqb_spec b i); [congruence|].
    eapply (i_mutex g s I a b); eauto.
  - simpl. pose proof (count_upd at_incb _ _ _ v Ei) as C1. pose proof (count_upd activeb _ _ _ v Ei) as C2.
    pose proof (i_nt g s I) as N.
    assert (at_incb p = false) by (destruct p; simpl in *; auto; discriminate).
    assert (at_incb v = false) by (destruct v; simpl in *; auto; discriminate).
    assert (activeb p = false) by (unfold activeb; rewrite Op; auto).
    assert (activeb v = false) by (unfold activeb; rewrite Ov; auto).
    rewrite H, H0 in C1. rewrite H1, H2 in C2. lia.
  - intros A. simpl. apply Hx. specialize (A i). rewrite PF, Nat.eqb_refl in A. auto.
Qed.

(* Run t -> Unlock t : execute_task returns, Task::stop *)
Lemma inv_run : forall g s i t, Inv g s -> nth_error (pcs s) i = Some (Run t) ->
  Inv g (mkState (cnt s) (queue s) (held s) (ntasks s) (upd (pcs s) i (Unlock t)) (rel s) (EStop t :: log s)).
Proof.
  intros g s i t I Ei. set (s' := mkState _ _ _ _ _ _ _).
  destruct (nth_error_nth _ _ _ _ Exited Ei) as [Pi Li]. fold (pcf s i) in Pi.
  assert (PF : forall j, pcf s' j = if j =? i then Unlock t else pcf s j) by (intros; apply pcf_upd; auto).
  pose proof (i_pc g s I i) as Pok. rewrite Pi in Pok. simpl in Pok. destruct Pok as [Tl [Ts [Tn Tr]]].
  assert (SS : forall u, started s' u <-> started s u).
  { intros u. unfold started, s'. simpl. split; intros; auto. destruct H; [discriminate|auto]. }
  assert (SP : forall u, stopped s' u <-> u = t \/ stopped s u).
  { intros u. unfold stopped, s'. simpl. split.
    - intros [H|H]; [inversion H; auto|auto].
    - intros [H|H]; [subst; auto|auto]. }
  assert (OE : forall j, owner_of (pcf s' j) = owner_of (pcf s j)).
  { intros j. rewrite PF. destruct (Nat.eqb_spec j i); auto. subst. rewrite Pi. auto. }
  assert (HE : forall j, holds (pcf s' j) = holds (pcf s j)).
  { intros j. rewrite PF. destruct (Nat.eqb_spec j i); auto. subst. rewrite Pi. auto. }
  assert (EQ : forall j q k, pcf s' j = Enq q k <-> pcf s j = Enq q k).
  { intros j q k. rewrite PF. destruct (Nat.eqb_spec j i); [|tauto]. subst. rewrite Pi. split; discriminate. }
  constructor.
  - exact (i_lc g s I).
  - exact (i_lr g s I).
  - exact (i_acct g s I).
  - exact (i_qnd g s I).
  - intros u Hu. destruct (i_q g s I u Hu) as [? [? ?]]. repeat split; auto. rewrite SS; auto.
  - intros u Hu. apply SS in Hu. apply (i_st g s I u Hu).
  - intros u Hu Hz. destruct (i_zero g s I u Hu Hz) as [?|[?|[j [q [k [Hj Hk]]]]]]; auto.
    + right; left. apply SS; auto.
    + right; right. exists j, q, k. split; auto. apply EQ; auto.
  - intros j. rewrite PF. destruct (Nat.eqb_spec j i).
    + simpl. repeat split; auto. apply SS; auto. apply SP; auto.
    + apply (pc_ok_mono g s s' _ (i_pc g s I j)).
      * intros; apply SS; auto.
      * intros; apply SP; auto.
      * intros u Hu Hs. apply SP in Hs. pose proof (i_pc g s I j) as Pj. rewrite Hu in Pj. simpl in Pj.
        destruct Hs; [|tauto]. subst u.
        apply (i_own g s I i j t); auto. rewrite Pi; auto. rewrite Hu; auto.
      * auto.
      * intros u k Hu. pose proof (i_pc g s I j) as Pj. rewrite Hu in Pj. simpl in Pj.
        destruct Pj as [_ [_ [_ [_ [_ [? [? [? ?]]]]]]]]. repeat split; auto. rewrite SS; auto.
  - intros a b q k q' k' Hab Ha Hb. apply EQ in Ha. apply EQ in Hb. eapply (i_pend g s I a b); eauto.
  - intros a b u Hab Ha. rewrite OE in *. eapply (i_own g s I a b); eauto.
  - intros u Hu. apply (i_unst g s I u). rewrite <- SS; auto.
  - intros u Hl Hu Hn. apply SS in Hu. destruct (i_done g s I u Hl Hu) as [? ?].
    intros j. rewrite <- OE. auto. split; auto. apply SP; auto.
  - intros a. change (held s') with (held s). rewrite (i_held g s I a).
    split; intros [j [u [Hh Hl]]]; exists j, u; split; auto; congruence.
  - intros a b u w Hab Ha Hb. rewrite HE in Ha, Hb. eapply (i_mutex g s I a b); eauto.
  - simpl. pose proof (count_upd at_incb _ _ _ (Unlock t) Ei) as C1.
    pose proof (count_upd activeb _ _ _ (Unlock t) Ei) as C2. pose proof (i_nt g s I) as N. simpl in C1, C2. lia.
  - simpl. constructor; auto. exact (i_lognd g s I).
  - intros u Hu. apply SS. apply SP in Hu. destruct Hu; [subst; auto|]. apply (i_stst g s I); auto.
  - intros l1 l2 c p Hl Hp Hc. simpl in Hl. destruct l1; simpl in Hl; [discriminate|].
    inversion Hl; subst. eapply (i_pf g s I); eauto.
  - intros A. specialize (A i). rewrite PF, Nat.eqb_refl in A. discriminate.
Qed.

(* Unlock t -> Release t 0 : Task::unlock_dependency *)
Lemma inv_unlock : forall g s i t, Inv g s -> nth_error (pcs s) i = Some (Unlock t) ->
  Inv g (mkState (cnt s) (queue s) (unlock_dep (held s) (tk g t)) (ntasks s) (upd (pcs s) i (Release t 0))
                 (rel s) (log s)).
Proof.
  intros g s i t I Ei. set (s' := mkState _ _ _ _ _ _ _).
  destruct (nth_error_nth _ _ _ _ Exited Ei) as [Pi Li]. fold (pcf s i) in Pi.
  assert (PF : forall j, pcf s' j = if j =? i then Release t 0 else pcf s j) by (intros; apply pcf_upd; auto).
  pose proof (i_pc g s I i) as Pok. rewrite Pi in Pok. simpl in Pok. destruct Pok as [Tl [Ts [Tn Tr]]].
  assert (OE : forall j, owner_of (pcf s' j) = owner_of (pcf s j)).
  { intros j. rewrite PF. destruct (Nat.eqb_spec j i); auto. subst. rewrite Pi. auto. }
  assert (EQ : forall j q k, pcf s' j = Enq q k <-> pcf s j = Enq q k).
  { intros j q k. rewrite PF. destruct (Nat.eqb_spec j i); [|tauto]. subst. rewrite Pi. split; discriminate. }
  assert (HO : forall j u, holds (pcf s' j) = Some u <-> j <> i /\ holds (pcf s j) = Some u).
  { intros j u. rewrite PF. destruct (Nat.eqb_spec j i). subst. simpl. split; [discriminate|tauto]. tauto. }
  constructor.
  - exact (i_lc g s I).
  - exact (i_lr g s I).
  - exact (i_acct g s I).
  - exact (i_qnd g s I).
  - exact (i_q g s I).
  - exact (i_st g s I).
  - intros u Hu Hz. destruct (i_zero g s I u Hu Hz) as [?|[?|[j [q [k [Hj Hk]]]]]]; auto.
    right; right. exists j, q, k. split; auto. apply EQ; auto.
  - intros j. rewrite PF. destruct (Nat.eqb_spec j i).
    + simpl. repeat split; auto. lia.
    + exact (i_pc g s I j).
  - intros a b q k q' k' Hab Ha Hb. apply EQ in Ha. apply EQ in Hb. eapply (i_pend g s I a b); eauto.
  - intros a b u Hab Ha. rewrite OE in *. eapply (i_own g s I a b); eauto.
  - exact (i_unst g s I).
  - intros u Hl Hu Hn. apply (i_done g s I u Hl Hu). intros j. rewrite <- OE. auto.
  - intros a. change (held s') with (unlock_dep (held s) (tk g t)). rewrite In_unlock_dep, (i_held g s I a). split.
    + intros [[j [u [Hh Hl]]] Hn]. exists j, u. split; auto. apply HO. split; auto.
      intro; subst j. rewrite Pi in Hh. simpl in Hh. inversion Hh; subst. auto.
    + intros [j [u [Hh Hl]]]. apply HO in Hh. destruct Hh as [Hn Hh]. split. eauto.
      intro Hc. apply (i_mutex g s I j i u t Hn Hh) with (a := a); auto. rewrite Pi; auto.
  - intros a b u w Hab Ha Hb. apply HO in Ha. apply HO in Hb. destruct Ha, Hb. eapply (i_mutex g s I a b); eauto.
  - simpl. pose proof (count_upd at_incb _ _ _ (Release t 0) Ei) as C1.
    pose proof (count_upd activeb _ _ _ (Release t 0) Ei) as C2. pose proof (i_nt g s I) as N. simpl in C1, C2. lia.
  - exact (i_lognd g s I).
  - exact (i_stst g s I).
  - exact (i_pf g s I).
  - intros A. specialize (A i). rewrite PF, Nat.eqb_refl in A. discriminate.
Qed.

(* Enq t k -> Inc t k : queue->add_task(child) *)
Lemma inv_enq : forall g s i t k, Inv g s -> nth_error (pcs s) i = Some (Enq t k) ->
  Inv g (mkState (cnt s) (nth k (children (tk g t)) 0 :: queue s) (held s) (ntasks s) (upd (pcs s) i (Inc t k))
                 (rel s) (log s)).
Proof.
  intros g s i t k I Ei. set (c := nth k (children (tk g t)) 0). set (s' := mkState _ _ _ _ _ _ _).
  destruct (nth_error_nth _ _ _ _ Exited Ei) as [Pi Li]. fold (pcf s i) in Pi.
  assert (PF : forall j, pcf s' j = if j =? i then Inc t k else pcf s j) by (intros; apply pcf_upd; auto).
  pose proof (i_pc g s I i) as Pok. rewrite Pi in Pok. simpl in Pok. fold c in Pok.
  destruct Pok as [Tl [Ts [Tn [Tr [Tk [Cl [Cz [Cq Cs]]]]]]]].
  assert (OE : forall j, owner_of (pcf s' j) = owner_of (pcf s j)).
  { intros j. rewrite PF. destruct (Nat.eqb_spec j i); auto. subst. rewrite Pi. auto. }
  assert (HE : forall j, holds (pcf s' j) = holds (pcf s j)).
  { intros j. rewrite PF. destruct (Nat.eqb_spec j i); auto. subst. rewrite Pi. auto. }
  assert (EQ : forall j q k', pcf s' j = Enq q k' <-> j <> i /\ pcf s j = Enq q k').
  { intros j q k'. rewrite PF. destruct (Nat.eqb_spec j i). subst. split; [discriminate|tauto]. tauto. }
  constructor.
  - exact (i_lc g s I).
  - exact (i_lr g s I).
  - exact (i_acct g s I).
  - simpl. constructor; auto. exact (i_qnd g s I).
  - intros u Hu. simpl in Hu. destruct Hu as [Hu|Hu]; [subst u; auto|]. exact (i_q g s I u Hu).
  - exact (i_st g s I).
  - intros u Hu Hz. destruct (i_zero g s I u Hu Hz) as [?|[?|[j [q [k' [Hj Hk]]]]]]; auto.
    + left. simpl. auto.
    + destruct (Nat.eq_dec j i).
      * subst j. rewrite Pi in Hj. inversion Hj; subst q k'. left. simpl. left. exact Hk.
      * right; right. exists j, q, k'. split; auto. apply EQ; auto.
  - intros j. rewrite PF. destruct (Nat.eqb_spec j i).
    + simpl. repeat split; auto.
    + apply (pc_ok_mono g s s' _ (i_pc g s I j)); auto.
      * intros u Hu. pose proof (i_pc g s I j) as Pj. rewrite Hu in Pj. simpl in Pj. tauto.
      * intros u k' Hu. pose proof (i_pc g s I j) as Pj. rewrite Hu in Pj. simpl in Pj.
        destruct Pj as [_ [_ [_ [_ [_ [? [? [? ?]]]]]]]]. repeat split; auto.
        simpl. intros [Hc|Hc]; [|tauto].
        apply (i_pend g s I i j t k u k'); auto.
  - intros a b q k1 q' k2 Hab Ha Hb. apply EQ in Ha. apply EQ in Hb. destruct Ha, Hb. eapply (i_pend g s I a b); eauto.
  - intros a b u Hab Ha. rewrite OE in *. eapply (i_own g s I a b); eauto.
  - exact (i_unst g s I).
  - intros u Hl Hu Hn. apply (i_done g s I u Hl Hu). intros j. rewrite <- OE. auto.
  - intros a. change (held s') with (held s). rewrite (i_held g s I a).
    split; intros [j [u [Hh Hl]]]; exists j, u; split; auto; congruence.
  - intros a b u w Hab Ha Hb. rewrite HE in Ha, Hb. eapply (i_mutex g s I a b); eauto.
  - simpl. pose proof (count_upd at_incb _ _ _ (Inc t k) Ei) as C1.
    pose proof (count_upd activeb _ _ _ (Inc t k) Ei) as C2. pose proof (i_nt g s I) as N. simpl in C1, C2. lia.
  - exact (i_lognd g s I).
  - exact (i_stst g s I).
  - exact (i_pf g s I).
  - intros A. specialize (A i). rewrite PF, Nat.eqb_refl in A. discriminate.
Qed.

(* Inc t k -> Release t (S k) : number_of_tasks.pre_increment() *)
Lemma inv_inc : forall g s i t k, Inv g s -> nth_error (pcs s) i = Some (Inc t k) ->
  Inv g (mkState (cnt s) (queue s) (held s) (S (ntasks s)) (upd (pcs s) i (Release t (S k))) (rel s) (log s)).
Proof.
  intros g s i t k I Ei. set (s' := mkState _ _ _ _ _ _ _).
  destruct (nth_error_nth _ _ _ _ Exited Ei) as [Pi Li]. fold (pcf s i) in Pi.
  assert (PF : forall j, pcf s' j = if j =? i then Release t (S k) else pcf s j) by (intros; apply pcf_upd; auto).
  pose proof (i_pc g s I i) as Pok. rewrite Pi in Pok. simpl in Pok.
  destruct Pok as [Tl [Ts [Tn [Tr Tk]]]].
  assert (OE : forall j, owner_of (pcf s' j) = owner_of (pcf s j)).
  { intros j. rewrite PF. destruct (Nat.eqb_spec j i); auto. subst. rewrite Pi. auto. }
  assert (HE : forall j, holds (pcf s' j) = holds (pcf s j)).
  { intros j. rewrite PF. destruct (Nat.eqb_spec j i); auto. subst. rewrite Pi. auto. }
  assert (EQ : forall j q k', pcf s' j = Enq q k' <-> pcf s j = Enq q k').
  { intros j q k'. rewrite PF. destruct (Nat.eqb_spec j i); [|tauto]. subst. rewrite Pi. split; discriminate. }
  constructor.
  - exact (i_lc g s I).
  - exact (i_lr g s I).
  - exact (i_acct g s I).
  - exact (i_qnd g s I).
  - exact (i_q g s I).
  - exact (i_st g s I).
  - intros u Hu Hz. destruct (i_zero g s I u Hu Hz) as [?|[?|[j [q [k' [Hj Hk]]]]]]; auto.
    right; right. exists j, q, k'. split; auto. apply EQ; auto.
  - intros j. rewrite PF. destruct (Nat.eqb_spec j i).
    + simpl. repeat split; auto.
    + exact (i_pc g s I j).
  - intros a b q k1 q' k2 Hab Ha Hb. apply EQ in Ha. apply EQ in Hb. eapply (i_pend g s I a b); eauto.
  - intros a b u Hab Ha. rewrite OE in *. eapply (i_own g s I a b); eauto.
  - exact (i_unst g s I).
  - intros u Hl Hu Hn. apply (i_done g s I u Hl Hu). intros j. rewrite <- OE. auto.
  - intros a. change (held s') with (held s). rewrite (i_held g s I a).
    split; intros [j [u [Hh Hl]]]; exists j, u; split; auto; congruence.
  - intros a b u w Hab Ha Hb. rewrite HE in Ha, Hb. eapply (i_mutex g s I a b); eauto.
  - simpl. pose proof (count_upd at_incb _ _ _ (Release t (S k)) Ei) as C1.
    pose proof (count_upd activeb _ _ _ (Release t (S k)) Ei) as C2. pose proof (i_nt g s I) as N. simpl in C1, C2. lia.
  - exact (i_lognd g s I).
  - exact (i_stst g s I).
  - exact (i_pf g s I).
  - intros A. specialize (A i). rewrite PF, Nat.eqb_refl in A. discriminate.
Qed.

Lemma count_lt : forall (f h : pc -> bool) l i p, (forall q, f q = true -> h q = true) ->
  nth_error l i = Some p -> f p = false -> h p = true -> count_pc f l + 1 <= count_pc h l.
Proof.
  unfold count_pc. induction l; destruct i; simpl; intros; try discriminate.
  - inversion H0; subst. rewrite H1, H2. simpl.
    assert (length (filter f l) <= length (filter h l)).
    { clear -H. induction l; simpl; auto. destruct (f a) eqn:E. rewrite (H a E). simpl. lia.
      destruct (h a); simpl; lia. }
    lia.
  - specialize (IHl i p H H0 H1 H2). destruct (f a) eqn:E. rewrite (H a E). simpl. lia.
    destruct (h a); simpl; lia.
Qed.

Lemma inc_active : forall q, at_incb q = true -> activeb q = true.
Proof. destruct q; simpl; intros; auto; discriminate. Qed.

(* Release t k with k = number of children : number_of_tasks.pre_decrement(), back to the loop head *)
Lemma inv_decself : forall g s i t k, Inv g s -> nth_error (pcs s) i = Some (Release t k) ->
  nth_error (children (tk g t)) k = None ->
  Inv g (mkState (cnt s) (queue s) (held s) (pred (ntasks s)) (upd (pcs s) i LoopHead) (rel s) (log s))
  /\ 1 <= ntasks s.
Proof.
  intros g s i t k I Ei En. set (s' := mkState _ _ _ _ _ _ _).
  destruct (nth_error_nth _ _ _ _ Exited Ei) as [Pi Li]. fold (pcf s i) in Pi.
  assert (PF : forall j, pcf s' j = if j =? i then LoopHead else pcf s j) by (intros; apply pcf_upd; auto).
  pose proof (i_pc g s I i) as Pok. rewrite Pi in Pok. simpl in Pok.
  destruct Pok as [Tl [Ts [Tn [Tr Tk]]]].
  apply nth_error_None_len in En. fold (nch g t) in En. assert (k = nch g t) by lia. subst k. clear En Tk.
  assert (OW : forall j u, owner_of (pcf s' j) = Some u <-> j <> i /\ owner_of (pcf s j) = Some u).
  { intros j u. rewrite PF. destruct (Nat.eqb_spec j i). subst. simpl. split; [discriminate|tauto]. tauto. }
  assert (HE : forall j, holds (pcf s' j) = holds (pcf s j)).
  { intros j. rewrite PF. destruct (Nat.eqb_spec j i); auto. subst. rewrite Pi. auto. }
  assert (EQ : forall j q k', pcf s' j = Enq q k' <-> pcf s j = Enq q k').
  { intros j q k'. rewrite PF. destruct (Nat.eqb_spec j i); [|tauto]. subst. rewrite Pi. split; discriminate. }
  pose proof (count_upd at_incb _ _ _ LoopHead Ei) as C1.
  pose proof (count_upd activeb _ _ _ LoopHead Ei) as C2. pose proof (i_nt g s I) as N. simpl in C1, C2.
  pose proof (count_lt at_incb activeb _ _ _ inc_active Ei eq_refl eq_refl) as C3.
  split; [|lia].
  constructor.
  - exact (i_lc g s I).
  - exact (i_lr g s I).
  - exact (i_acct g s I).
  - exact (i_qnd g s I).
  - exact (i_q g s I).
  - exact (i_st g s I).
  - intros u Hu Hz. destruct (i_zero g s I u Hu Hz) as [?|[?|[j [q [k' [Hj Hk]]]]]]; auto.
    right; right. exists j, q, k'. split; auto. apply EQ; auto.
  - intros j. rewrite PF. destruct (Nat.eqb_spec j i).
    + simpl. auto.
    + exact (i_pc g s I j).
  - intros a b q k1 q' k2 Hab Ha Hb. apply EQ in Ha. apply EQ in Hb. eapply (i_pend g s I a b); eauto.
  - intros a b u Hab Ha Hb. apply OW in Ha. apply OW in Hb. destruct Ha, Hb. eapply (i_own g s I a b); eauto.
  - exact (i_unst g s I).
  - intros u Hl Hu Hn. destruct (Nat.eq_dec u t).
    + subst u. auto.
    + apply (i_done g s I u Hl Hu). intros j Hj. destruct (Nat.eq_dec j i).
      * subst j. rewrite Pi in Hj. simpl in Hj. congruence.
      * apply (Hn j). apply OW. auto.
  - intros a. change (held s') with (held s). rewrite (i_held g s I a).
    split; intros [j [u [Hh Hl]]]; exists j, u; split; auto; congruence.
  - intros a b u w Hab Ha Hb. rewrite HE in Ha, Hb. eapply (i_mutex g s I a b); eauto.
  - simpl. lia.
  - exact (i_lognd g s I).
  - exact (i_stst g s I).
  - exact (i_pf g s I).
  - intros A. specialize (A i). rewrite PF, Nat.eqb_refl in A. discriminate.
Qed.

(* Release t k with k < number of children : child.decrement_number_of_unfinished_parents() *)
Lemma inv_release : forall g s i t k c, wf g -> Inv g s -> nth_error (pcs s) i = Some (Release t k) ->
  nth_error (children (tk g t)) k = Some c ->
  let v := dec8 (nth c (cnt s) 0) in
  Inv g (mkState (upd (cnt s) c v) (queue s) (held s) (ntasks s)
                 (upd (pcs s) i (if v =? 0 then Enq t k else Release t (S k))) (upd (rel s) t (S k)) (log s))
  /\ 1 <= nth c (cnt s) 0.
Proof.
  intros g s i t k c W I Ei Ec v. set (np := if v =? 0 then Enq t k else Release t (S k)).
  set (s' := mkState _ _ _ _ _ _ _).
  destruct (nth_error_nth _ _ _ _ Exited Ei) as [Pi Li]. fold (pcf s i) in Pi.
  assert (PF : forall j, pcf s' j = if j =? i then np else pcf s j) by (intros; apply pcf_upd; auto).
  pose proof (i_pc g s I i) as Pok. rewrite Pi in Pok. simpl in Pok.
  destruct Pok as [Tl [Ts [Tn [Tr Tk]]]].
  destruct (nth_error_nth _ _ _ _ 0 Ec) as [Cn Ck]. fold (nch g t) in Ck.
  assert (Cl : c < length g) by (apply (wf_range g W t c Tl); eapply nth_error_In; eauto).
  pose proof (i_lc g s I) as LC. pose proof (i_lr g s I) as LR.
  assert (RS : forall c', relsum g (upd (rel s) t (S k)) c' = relsum g (rel s) c' + (if c =? c' then 1 else 0)).
  { intros. apply relsum_upd; auto. }
  assert (C1 : 1 <= nth c (cnt s) 0 /\ nth c (cnt s) 0 < 256).
  { pose proof (i_acct g s I c Cl) as A. pose proof (relsum_le g (upd (rel s) t (S k)) c) as B.
    rewrite RS, Nat.eqb_refl in B. rewrite <- (wf_counts g W c Cl) in B.
    pose proof (wf_small g W c Cl). lia. }
  assert (V : v = nth c (cnt s) 0 - 1) by (apply dec8_pos; lia).
  split; [|lia].
  assert (CN : forall u, nth u (upd (cnt s) c v) 0 = if u =? c then v else nth u (cnt s) 0) by (intros; apply nth_upd; lia).
  assert (RN : forall u, nth u (upd (rel s) t (S k)) 0 = if u =? t then S k else nth u (rel s) 0) by (intros; apply nth_upd; lia).
  assert (CZ : forall u, nth u (cnt s) 0 = 0 -> nth u (upd (cnt s) c v) 0 = 0 /\ u <> c).
  { intros u Hu. assert (u <> c) by (intro; subst; lia). rewrite CN. destruct (Nat.eqb_spec u c); [tauto|auto]. }
  assert (NPo : owner_of np = Some t) by (unfold np; destruct (v =? 0); auto).
  assert (NPh : holds np = None) by (unfold np; destruct (v =? 0); auto).
  assert (NPi : at_incb np = false) by (unfold np; destruct (v =? 0); auto).
  assert (NPa : activeb np = true) by (unfold np; destruct (v =? 0); auto).
  assert (OE : forall j, owner_of (pcf s' j) = owner_of (pcf s j)).
  { intros j. rewrite PF. destruct (Nat.eqb_spec j i); auto. subst. rewrite Pi. auto. }
  assert (HE : forall j, holds (pcf s' j) = holds (pcf s j)).
  { intros j. rewrite PF. destruct (Nat.eqb_spec j i); auto. subst. rewrite Pi. auto. }
  assert (EQo : forall j q k', j <> i -> (pcf s' j = Enq q k' <-> pcf s j = Enq q k')).
  { intros j q k' Hj. rewrite PF. destruct (Nat.eqb_spec j i); tauto. }
  assert (EQi : forall q k', pcf s' i = Enq q k' -> v = 0 /\ q = t /\ k' = k).
  { intros q k'. rewrite PF, Nat.eqb_refl. unfold np. destruct (Nat.eqb_spec v 0); intros E; inversion E; auto. }
  assert (ENQc : forall j q k', pcf s j = Enq q k' -> nth k' (children (tk g q)) 0 <> c).
  { intros j q k' Hj. pose proof (i_pc g s I j) as Pj. rewrite Hj in Pj. simpl in Pj. cbv zeta in Pj.
    destruct Pj as [_ [_ [_ [_ [_ [_ [Z _]]]]]]]. intro E. rewrite E in Z. lia. }
  constructor.
  - simpl. rewrite length_upd. auto.
  - simpl. rewrite length_upd. auto.
  - intros c' Hc'. simpl. rewrite CN, RS. pose proof (i_acct g s I c' Hc') as A.
    destruct (Nat.eqb_spec c' c); destruct (Nat.eqb_spec c c'); subst; try congruence; lia.
  - exact (i_qnd g s I).
  - intros u Hu. destruct (i_q g s I u Hu) as [? [Z ?]]. repeat split; auto. apply CZ; auto.
  - intros u Hu. destruct (i_st g s I u Hu) as [? Z]. split; auto. apply CZ; auto.
  - intros u Hu Hz. simpl in Hz. rewrite CN in Hz. destruct (Nat.eqb_spec u c).
    + subst u. right; right. exists i, t, k. split; auto. rewrite PF, Nat.eqb_refl. unfold np.
      rewrite Hz. auto.
    + destruct (i_zero g s I u Hu Hz) as [?|[?|[j [q [k' [Hj Hk]]]]]]; auto.
      right; right. exists j, q, k'. split; auto. apply EQo; auto. intro; subst. rewrite Pi in Hj. discriminate.
  - intros j. rewrite PF. destruct (Nat.eqb_spec j i).
    + unfold np. destruct (Nat.eqb_spec v 0) as [Vz|Vn].
      * simpl. rewrite Cn, RN, Nat.eqb_refl, CN, Nat.eqb_refl. repeat split; auto.
        -- intro Hq. destruct (i_q g s I c Hq) as [_ [Z _]]. lia.
        -- intro Hq. destruct (i_st g s I c Hq) as [_ Z]. lia.
      * simpl. rewrite RN, Nat.eqb_refl. repeat split; auto.
    + apply (pc_ok_mono g s s' _ (i_pc g s I j)); auto.
      * intros u Hu. pose proof (i_pc g s I j) as Pj. rewrite Hu in Pj. simpl in Pj. tauto.
      * intros u Hu. simpl. rewrite RN. destruct (Nat.eqb_spec u t); auto. subst u.
        exfalso. apply (i_own g s I i j t); auto. rewrite Pi; auto.
      * intros u k' Hu. pose proof (i_pc g s I j) as Pj. rewrite Hu in Pj. simpl in Pj.
        destruct Pj as [_ [_ [_ [_ [_ [? [Z [? ?]]]]]]]]. repeat split; auto. apply CZ; auto.
  - intros a b q k1 q' k2 Hab Ha Hb. destruct (Nat.eq_dec a i); destruct (Nat.eq_dec b i); try congruence.
    + subst a. destruct (EQi _ _ Ha) as [_ [? ?]]. subst q k1. apply EQo in Hb; auto.
      rewrite Cn. intro E. apply (ENQc b q' k2 Hb). auto.
    + subst b. destruct (EQi _ _ Hb) as [_ [? ?]]. subst q' k2. apply EQo in Ha; auto.
      rewrite Cn. apply (ENQc a q k1 Ha).
    + apply EQo in Ha; auto. apply EQo in Hb; auto. eapply (i_pend g s I a b); eauto.
  - intros a b u Hab Ha. rewrite OE in *. eapply (i_own g s I a b); eauto.
  - intros u Hu. simpl. rewrite RN. destruct (Nat.eqb_spec u t). subst; tauto. apply (i_unst g s I u Hu).
  - intros u Hl Hu Hn. assert (u <> t). { intro; subst u. apply (Hn i). rewrite PF, Nat.eqb_refl. auto. }
    simpl. rewrite RN. destruct (Nat.eqb_spec u t); [congruence|].
    apply (i_done g s I u Hl Hu). intros j. rewrite <- OE. auto.
  - intros a. change (held s') with (held s). rewrite (i_held g s I a).
    split; intros [j [u [Hh Hl]]]; exists j, u; split; auto; congruence.
  - intros a b u w Hab Ha Hb. rewrite HE in Ha, Hb. eapply (i_mutex g s I a b); eauto.
  - simpl. pose proof (count_upd at_incb _ _ _ np Ei) as D1.
    pose proof (count_upd activeb _ _ _ np Ei) as D2. pose proof (i_nt g s I) as N.
    rewrite NPi in D1. rewrite NPa in D2. simpl in D1, D2. fold np. lia.
  - exact (i_lognd g s I).
  - exact (i_stst g s I).
  - exact (i_pf g s I).
  - intros A. specialize (A i). rewrite PF, Nat.eqb_refl in A. rewrite A in NPo. discriminate.
Qed.

(* Fetch -> Run t : get_task / steal_task return t (its lock_dependency succeeded), Task::start *)
Lemma inv_pick : forall g s i t h', wf g -> Inv g s -> nth_error (pcs s) i = Some Fetch ->
  memb t (queue s) = true -> lock_dep (held s) (tk g t) = Some h' ->
  Inv g (mkState (cnt s) (remove1 t (queue s)) h' (ntasks s) (upd (pcs s) i (Run t)) (rel s) (EStart t :: log s)).
Proof.
  intros g s i t h' W I Ei Mq Lk. set (s' := mkState _ _ _ _ _ _ _).
  destruct (nth_error_nth _ _ _ _ Exited Ei) as [Pi Li]. fold (pcf s i) in Pi.
  assert (PF : forall j, pcf s' j = if j =? i then Run t else pcf s j) by (intros; apply pcf_upd; auto).
  apply memb_In in Mq. destruct (i_q g s I t Mq) as [Tl [Tz Tn]].
  destruct (lock_dep_spec _ _ _ Lk) as [LF LI].
  pose proof (i_qnd g s I) as QN.
  assert (SS : forall u, started s' u <-> u = t \/ started s u).
  { intros u. unfold started, s'. simpl. split.
    - intros [H|H]; [inversion H; auto|auto].
    - intros [H|H]; [subst; auto|auto]. }
  assert (SP : forall u, stopped s' u <-> stopped s u).
  { intros u. unfold stopped, s'. simpl. split; intros; auto. destruct H; [discriminate|auto]. }
  assert (NO : forall j, owner_of (pcf s j) <> Some t).
  { intros j Hj. pose proof (i_pc g s I j) as Pj. destruct (pcf s j); simpl in *; try discriminate;
      inversion Hj; subst; tauto. }
  assert (OW : forall j u, owner_of (pcf s' j) = Some u <-> (j = i /\ u = t) \/ (j <> i /\ owner_of (pcf s j) = Some u)).
  { intros j u. rewrite PF. destruct (Nat.eqb_spec j i).
    - subst. simpl. split. intros E; inversion E; auto. intros [[_ ?]|[? _]]; [subst; auto|congruence].
    - split; auto. intros [[? _]|[_ ?]]; [congruence|auto]. }
  assert (HO : forall j u, holds (pcf s' j) = Some u <-> (j = i /\ u = t) \/ (j <> i /\ holds (pcf s j) = Some u)).
  { intros j u. rewrite PF. destruct (Nat.eqb_spec j i).
    - subst. simpl. split. intros E; inversion E; auto. intros [[_ ?]|[? _]]; [subst; auto|congruence].
    - split; auto. intros [[? _]|[_ ?]]; [congruence|auto]. }
  assert (EQ : forall j q k', pcf s' j = Enq q k' <-> pcf s j = Enq q k').
  { intros j q k'. rewrite PF. destruct (Nat.eqb_spec j i); [|tauto]. subst. rewrite Pi. split; discriminate. }
  assert (HI : forall j u, holds (pcf s j) = Some u -> j <> i).
  { intros j u Hj E. subst. rewrite Pi in Hj. discriminate. }
  constructor.
  - exact (i_lc g s I).
  - exact (i_lr g s I).
  - exact (i_acct g s I).
  - simpl. apply NoDup_remove1; auto.
  - intros u Hu. simpl in Hu. apply In_remove1 in Hu; auto. destruct Hu as [Hu Hn].
    destruct (i_q g s I u Hu) as [? [? ?]]. repeat split; auto. rewrite SS. tauto.
  - intros u Hu. apply SS in Hu. destruct Hu as [Hu|Hu]. subst; auto. apply (i_st g s I u Hu).
  - intros u Hu Hz. destruct (i_zero g s I u Hu Hz) as [Hq|[?|[j [q [k' [Hj Hk]]]]]].
    + destruct (Nat.eq_dec u t). right; left. apply SS; auto.
      left. simpl. apply In_remove1; auto.
    + right; left. apply SS; auto.
    + right; right. exists j, q, k'. split; auto. apply EQ; auto.
  - intros j. rewrite PF. destruct (Nat.eqb_spec j i).
    + simpl. repeat split; auto. apply SS; auto.
      rewrite SP. intro. apply Tn. apply (i_stst g s I); auto.
      apply (i_unst g s I); auto.
    + apply (pc_ok_mono g s s' _ (i_pc g s I j)); auto.
      * intros; apply SS; auto.
      * intros; apply SP; auto.
      * intros u Hu. rewrite SP. pose proof (i_pc g s I j) as Pj. rewrite Hu in Pj. simpl in Pj. tauto.
      * intros u k' Hu. pose proof (i_pc g s I j) as Pj. rewrite Hu in Pj. simpl in Pj. cbv zeta in Pj.
        destruct Pj as [_ [_ [_ [_ [_ [? [Z [Nq Ns]]]]]]]]. repeat split; auto.
        -- simpl. intro Hq. apply In_remove1 in Hq; auto. tauto.
        -- rewrite SS. intros [E|E]; [|tauto]. rewrite E in Nq. tauto.
  - intros a b q k1 q' k2 Hab Ha Hb. apply EQ in Ha. apply EQ in Hb. eapply (i_pend g s I a b); eauto.
  - intros a b u Hab Ha Hb. apply OW in Ha. apply OW in Hb.
    destruct Ha as [[? ?]|[? Ha]]; destruct Hb as [[? ?]|[? Hb]]; subst; try congruence;
      try (exfalso; eapply NO; eauto; fail).
    eapply (i_own g s I a b); eauto.
  - intros u Hu. apply (i_unst g s I u). intro. apply Hu. apply SS; auto.
  - intros u Hl Hu Hn. apply SS in Hu. destruct Hu as [Hu|Hu].
    + subst u. exfalso. apply (Hn i). apply OW. auto.
    + destruct (i_done g s I u Hl Hu) as [? ?].
      * intros j Hj. destruct (Nat.eq_dec j i). subst. rewrite Pi in Hj. discriminate.
        apply (Hn j). apply OW. auto.
      * split; auto. apply SP; auto.
  - intros a. change (held s') with h'. rewrite LI, (i_held g s I a). split.
    + intros [Ha|[j [u [Hh Hl]]]].
      * exists i, t. split; auto. apply HO; auto.
      * exists j, u. split; auto. apply HO. right. split; auto. eapply HI; eauto.
    + intros [j [u [Hh Hl]]]. apply HO in Hh. destruct Hh as [[? ?]|[? Hh]]; subst; eauto.
  - intros a b u w Hab Ha Hb x Hx Hy. apply HO in Ha. apply HO in Hb.
    destruct Ha as [[? ?]|[? Ha]]; destruct Hb as [[? ?]|[? Hb]]; subst; try congruence.
    + apply (LF x Hx). apply (i_held g s I x). eauto.
    + apply (LF x Hy). apply (i_held g s I x). eauto.
    + eapply (i_mutex g s I a b); eauto.
  - simpl. pose proof (count_upd at_incb _ _ _ (Run t) Ei) as D1.
    pose proof (count_upd activeb _ _ _ (Run t) Ei) as D2. pose proof (i_nt g s I) as N. simpl in D1, D2.
    pose proof (length_remove1 t (queue s) Mq). lia.
  - simpl. constructor; auto. exact (i_lognd g s I).
  - intros u Hu. apply SS. right. apply SP in Hu. apply (i_stst g s I); auto.
  - intros l1 l2 c p Hl Hp Hc. simpl in Hl. destruct l1; simpl in Hl.
    + injection Hl as E1 E2. subst c l2. change (stopped s p). apply (zero_parents_stopped g s t p); auto.
    + injection Hl as E1 E2. eapply (i_pf g s I); eauto.
  - intros A. specialize (A i). rewrite PF, Nat.eqb_refl in A. discriminate.
Qed.

(* ================================================================== the invariant is inductive *)
Theorem step_inv : forall g s l s', wf g -> Inv g s -> step g s l = Some s' -> Inv g s'.
Proof.
  intros g s [i pick] s' W I H. unfold step in H.
  destruct (nth_error (pcs s) i) as [p|] eqn:Ei; [|discriminate].
  destruct p.
  - inversion H; subst. apply (inv_idle_move g s i LoopHead); auto.
    + destruct (ntasks s =? 0); auto.
    + destruct (Nat.eqb_spec (ntasks s) 0); auto. discriminate.
  - destruct pick as [t|].
    + destruct (memb t (queue s)) eqn:Mq; [|discriminate].
      destruct (lock_dep (held s) (tk g t)) as [h'|] eqn:Lk; [|discriminate].
      inversion H; subst. apply inv_pick; auto.
    + inversion H; subst. apply (inv_idle_move g s i Fetch); auto. discriminate.
  - inversion H; subst. apply inv_run; auto.
  - inversion H; subst. apply inv_unlock; auto.
  - destruct (nth_error (children (tk g t)) k) as [c|] eqn:Ec.
    + inversion H; subst. apply (inv_release g s i t k c); auto.
    + inversion H; subst. apply (inv_decself g s i t k); auto.
  - inversion H; subst. apply inv_enq; auto.
  - inversion H; subst. apply inv_inc; auto.
  - discriminate.
Qed.

Lemma nth_repeat_or : forall A (x d : A) n i, nth i (repeat x n) d = x \/ nth i (repeat x n) d = d.
Proof. induction n; destruct i; simpl; auto. Qed.

Lemma nth_repeat_lt : forall A (x d : A) n i, i < n -> nth i (repeat x n) d = x.
Proof. induction n; destruct i; simpl; intros; auto; try lia. apply IHn. lia. Qed.

Lemma pcf_init : forall g n i, pcf (init g n) i = LoopHead \/ pcf (init g n) i = Exited.
Proof. intros. unfold pcf, init. simpl. apply nth_repeat_or. Qed.

Lemma In_init_queue : forall g t, In t (init_queue g) <-> t < length g /\ parents0 (tk g t) = 0.
Proof.
  intros. unfold init_queue. rewrite filter_In, in_seq, Nat.eqb_eq. simpl. intuition lia.
Qed.

Lemma nth_map_parents0 : forall g c, nth c (map parents0 g) 0 = parents0 (tk g c).
Proof. intros. unfold tk. rewrite <- (map_nth parents0 g dtask c). reflexivity. Qed.

Theorem init_inv : forall g n, 1 <= n -> Inv g (init g n).
Proof.
  intros g n Hn.
  assert (NE : forall i q k, pcf (init g n) i <> Enq q k) by (intros i q k; destruct (pcf_init g n i) as [E|E]; rewrite E; discriminate).
  assert (NOW : forall i t, owner_of (pcf (init g n) i) <> Some t) by (intros i t; destruct (pcf_init g n i) as [E|E]; rewrite E; discriminate).
  assert (NH : forall i t, holds (pcf (init g n) i) <> Some t) by (intros i t; destruct (pcf_init g n i) as [E|E]; rewrite E; discriminate).
  constructor.
  - simpl. apply map_length.
  - simpl. apply repeat_length.
  - intros c Hc. simpl. rewrite nth_map_parents0, relsum_repeat0. lia.
  - simpl. unfold init_queue. apply NoDup_filter. apply seq_NoDup.
  - intros t Ht. simpl in Ht. apply In_init_queue in Ht. destruct Ht. repeat split; auto.
    simpl. rewrite nth_map_parents0. auto.
  - intros t Ht. destruct Ht.
  - intros t Ht Hz. left. simpl in *. rewrite nth_map_parents0 in Hz. apply In_init_queue. auto.
  - intros i. destruct (pcf_init g n i) as [E|E]; rewrite E; simpl; auto.
  - intros i j p k p' k' _ Hi. exfalso. eapply NE; eauto.
  - intros i j t _ Hi. exfalso. eapply NOW; eauto.
  - intros t _. simpl. apply nth_repeat0.
  - intros t _ Ht. destruct Ht.
  - intros a. simpl. split; [tauto|]. intros [i [t [Hh _]]]. exfalso. eapply NH; eauto.
  - intros i j t u _ Hi. exfalso. eapply NH; eauto.
  - simpl. rewrite (count_zero at_incb), (count_zero activeb). lia.
    + intros i. destruct (nth_repeat_or _ LoopHead Exited n i) as [E|E]; rewrite E; auto.
    + intros i. destruct (nth_repeat_or _ LoopHead Exited n i) as [E|E]; rewrite E; auto.
  - simpl. constructor.
  - intros t Ht. destruct Ht.
  - intros l1 l2 c p Hl. simpl in Hl. destruct l1; discriminate.
  - intros A. specialize (A 0). unfold pcf, init in A. simpl in A. rewrite nth_repeat_lt in A by lia. discriminate.
Qed.

Lemma exec_app : forall g sched s l, exec g s (sched ++ [l]) =
  match step g (exec g s sched) l with Some s' => s' | None => exec g s sched end.
Proof.
  induction sched; simpl; intros.
  - destruct (step g s l); auto.
  - destruct (step g s a); apply IHsched.
Qed.

Theorem exec_inv : forall g n sched, wf g -> 1 <= n -> Inv g (exec g (init g n) sched).
Proof.
  intros g n sched W Hn. induction sched using rev_ind.
  - simpl. apply init_inv; auto.
  - rewrite exec_app. destruct (step g (exec g (init g n) sched) x) eqn:E; auto.
    eapply step_inv; eauto.
Qed.

(* ================================================================== consequences of the invariant *)
Definition quiet (s : state) : Prop := forall i, owner_of (pcf s i) = None.

Lemma counts_quiet : forall s, quiet s -> count_pc at_incb (pcs s) = 0 /\ count_pc activeb (pcs s) = 0.
Proof.
  intros s Q. split; apply count_zero; intros i; specialize (Q i); unfold pcf in Q;
    destruct (nth i (pcs s) Exited); simpl in *; auto; discriminate.
Qed.

(* nobody in the loop body and nothing queued: every task has been started (uses that the graph is ranked) *)
Lemma quiet_empty_all_started : forall g s, wf g -> Inv g s -> quiet s -> queue s = [] ->
  forall t, t < length g -> started s t.
Proof.
  intros g s W I Q E. destruct (wf_ranked g W) as [rk RK].
  assert (forall n t, rk t < n -> t < length g -> started s t).
  { induction n; intros t Hr Ht. lia.
    assert (Z : nth t (cnt s) 0 = 0).
    { pose proof (i_acct g s I t Ht) as A. rewrite (wf_counts g W t Ht) in A.
      assert (relsum g (rel s) t = indeg g t); [|lia].
      apply sumn_ext. intros p Hp.
      destruct (in_dec Nat.eq_dec t (children (tk g p))) as [Hin|Hni].
      - assert (started s p) by (apply IHn; auto; specialize (RK p t Hp Hin); lia).
        destruct (i_done g s I p Hp H) as [R _]. intros i. rewrite Q. discriminate.
        rewrite R. unfold nch. rewrite firstn_all. reflexivity.
      - assert (cnt_in t (children (tk g p)) = 0).
        { destruct (cnt_in t (children (tk g p))) eqn:C; auto. exfalso. apply Hni. apply cnt_in_pos. lia. }
        pose proof (cnt_in_firstn_le t (children (tk g p)) (nth p (rel s) 0)). lia. }
    destruct (i_zero g s I t Ht Z) as [Hq|[?|[i [q [k [Hi _]]]]]]; auto.
    - rewrite E in Hq. destruct Hq.
    - specialize (Q i). rewrite Hi in Q. discriminate. }
  intros t Ht. apply (H (S (rk t))); auto.
Qed.

Lemma quiet_empty_all_stopped : forall g s, wf g -> Inv g s -> quiet s -> queue s = [] ->
  forall t, t < length g -> started s t /\ stopped s t.
Proof.
  intros g s W I Q E t Ht. assert (started s t) by (eapply quiet_empty_all_started; eauto).
  split; auto. apply (i_done g s I t Ht H). intros i. rewrite Q. discriminate.
Qed.

Lemma all_exited_quiet : forall s, all_exited s -> quiet s.
Proof. intros s A i. rewrite A. reflexivity. Qed.

(* the counter protocol *)
Lemma quiet_counter : forall g s, wf g -> Inv g s -> quiet s ->
  (ntasks s = 0 <-> forall t, t < length g -> stopped s t).
Proof.
  intros g s W I Q. destruct (counts_quiet s Q) as [C1 C2]. pose proof (i_nt g s I) as N. rewrite C1, C2 in N.
  split.
  - intros Z. assert (queue s = []) by (destruct (queue s); auto; simpl in N; lia).
    intros t Ht. eapply quiet_empty_all_stopped; eauto.
  - intros A. destruct (queue s) as [|t q] eqn:E. simpl in N; lia.
    destruct (i_q g s I t) as [Ht [_ Hn]]. rewrite E; simpl; auto.
    exfalso. apply Hn. apply (i_stst g s I). auto.
Qed.

Lemma all_exited_finished : forall g s, wf g -> Inv g s -> all_exited s ->
  (forall t, t < length g -> started s t /\ stopped s t) /\ queue s = [] /\ held s = [] /\ ntasks s = 0.
Proof.
  intros g s W I A. pose proof (all_exited_quiet s A) as Q.
  pose proof (i_exit g s I A) as Z.
  destruct (counts_quiet s Q) as [C1 C2]. pose proof (i_nt g s I) as N. rewrite C1, C2, Z in N.
  assert (E : queue s = []) by (destruct (queue s); auto; simpl in N; lia).
  repeat split; auto; try (eapply quiet_empty_all_stopped; eauto; fail).
  destruct (held s) as [|a h] eqn:Eh; auto. exfalso.
  destruct (proj1 (i_held g s I a)) as [i [t [Hh _]]]. rewrite Eh; simpl; auto.
  rewrite A in Hh. discriminate.
Qed.

(* ------------------------------------------------------------------ measure *)
Lemma startedb_spec : forall s t, startedb s t = true <-> started s t.
Proof.
  intros. unfold startedb, started. rewrite existsb_exists. split.
  - intros [e [He Hb]]. destruct e; simpl in Hb; try discriminate. apply Nat.eqb_eq in Hb. subst; auto.
  - intros. exists (EStart t). split; auto. simpl. apply Nat.eqb_refl.
Qed.

Lemma list_sum_upd : forall (f : pc -> nat) l i p v, nth_error l i = Some p ->
  list_sum (map f (upd l i v)) + f p = list_sum (map f l) + f v.
Proof.
  induction l; destruct i; simpl; intros; try discriminate.
  - inversion H; subst. lia.
  - specialize (IHl i p v H). lia.
Qed.

Lemma sum_started_pick : forall g lg t, t < length g -> existsb (ev_eqb (EStart t)) lg = false ->
  sumn (fun u => if existsb (ev_eqb (EStart u)) (EStart t :: lg) then 0 else full g u) (length g) + full g t
  = sumn (fun u => if existsb (ev_eqb (EStart u)) lg then 0 else full g u) (length g).
Proof.
  intros g lg t Ht Hf.
  pose proof (sumn_change
    (fun u => if existsb (ev_eqb (EStart u)) (EStart t :: lg) then 0 else full g u)
    (fun u => if existsb (ev_eqb (EStart u)) lg then 0 else full g u) (length g) t Ht) as SC.
  cbv beta in SC. rewrite Hf in SC.
  assert (E : existsb (ev_eqb (EStart t)) (EStart t :: lg) = true) by (simpl; rewrite Nat.eqb_refl; auto).
  rewrite E in SC.
  assert (forall i, i < length g -> i <> t ->
    (if existsb (ev_eqb (EStart i)) (EStart t :: lg) then 0 else full g i) =
    (if existsb (ev_eqb (EStart i)) lg then 0 else full g i)).
  { intros i _ Hi. simpl. destruct (Nat.eqb_spec i t); [congruence|]. reflexivity. }
  specialize (SC H). lia.
Qed.

Theorem step_measure : forall g s l s', Inv g s -> step g s l = Some s' ->
  mu g s' < mu g s \/ (mu g s' = mu g s /\ idle s l = true).
Proof.
  intros g s [i pick] s' I H. unfold step in H.
  destruct (nth_error (pcs s) i) as [p|] eqn:Ei; [|discriminate].
  destruct (nth_error_nth _ _ _ _ Exited Ei) as [Pi Li].
  unfold idle. rewrite Pi. unfold mu.
  destruct p.
  - inversion H; subst; clear H. unfold set_pc. simpl.
    rewrite (sumn_ext _ (fun u => if startedb s u then 0 else full g u)) by (intros; reflexivity).
    destruct (ntasks s =? 0).
    + left. pose proof (list_sum_upd (remw g) _ _ _ Exited Ei) as U. simpl in U. lia.
    + right. pose proof (list_sum_upd (remw g) _ _ _ Fetch Ei) as U. simpl in U. split; auto. lia.
  - destruct pick as [t|].
    + destruct (memb t (queue s)) eqn:Mq; [|discriminate].
      destruct (lock_dep (held s) (tk g t)) as [h'|] eqn:Lk; [|discriminate].
      inversion H; subst; clear H. left. simpl.
      pose proof (list_sum_upd (remw g) _ _ _ (Run t) Ei) as U. simpl in U.
      apply memb_In in Mq. destruct (i_q g s I t Mq) as [Tl [_ Tn]].
      assert (Sb : startedb s t = false).
      { destruct (startedb s t) eqn:E; auto. apply startedb_spec in E. tauto. }
      pose proof (sum_started_pick g (log s) t Tl Sb) as SC.
      unfold startedb. cbn [log existsb ev_eqb pcs] in *. unfold full in *. lia.
    + inversion H; subst; clear H. right. unfold set_pc. simpl.
      rewrite (sumn_ext _ (fun u => if startedb s u then 0 else full g u)) by (intros; reflexivity).
      pose proof (list_sum_upd (remw g) _ _ _ LoopHead Ei) as U. simpl in U. split; auto. lia.
  - inversion H; subst; clear H. left. simpl.
    pose proof (list_sum_upd (remw g) _ _ _ (Unlock t) Ei) as U. simpl in U.
    rewrite (sumn_ext _ (fun u => if startedb s u then 0 else full g u)) by (intros; reflexivity). lia.
  - inversion H; subst; clear H. left. simpl.
    pose proof (list_sum_upd (remw g) _ _ _ (Release t 0) Ei) as U. simpl in U.
    rewrite (sumn_ext _ (fun u => if startedb s u then 0 else full g u)) by (intros; reflexivity). lia.
  - destruct (nth_error (children (tk g t)) k) as [c|] eqn:Ec.
    + inversion H; subst; clear H. left. simpl.
      destruct (nth_error_nth _ _ _ _ 0 Ec) as [_ Ck]. fold (nch g t) in Ck.
      pose proof (list_sum_upd (remw g) _ _ _ (if dec8 (nth c (cnt s) 0) =? 0 then Enq t k else Release t (S k)) Ei) as U.
      rewrite (sumn_ext _ (fun u => if startedb s u then 0 else full g u)) by (intros; reflexivity).
      destruct (dec8 (nth c (cnt s) 0) =? 0); simpl in U; lia.
    + inversion H; subst; clear H. left. simpl.
      pose proof (list_sum_upd (remw g) _ _ _ LoopHead Ei) as U. simpl in U.
      rewrite (sumn_ext _ (fun u => if startedb s u then 0 else full g u)) by (intros; reflexivity). lia.
  - inversion H; subst; clear H. left. simpl.
    pose proof (list_sum_upd (remw g) _ _ _ (Inc t k) Ei) as U. simpl in U.
    rewrite (sumn_ext _ (fun u => if startedb s u then 0 else full g u)) by (intros; reflexivity). lia.
  - inversion H; subst; clear H. left. simpl.
    pose proof (list_sum_upd (remw g) _ _ _ (Release t (S k)) Ei) as U. simpl in U.
    rewrite (sumn_ext _ (fun u => if startedb s u then 0 else full g u)) by (intros; reflexivity). lia.
  - discriminate.
Qed.

(* ------------------------------------------------------------------ progress *)
Lemma exited_dec : forall s, all_exited s \/ exists i, pcf s i <> Exited.
Proof.
  intros s. unfold all_exited, pcf. induction (pcs s) as [|p l IH].
  - left. intros [|i]; reflexivity.
  - destruct IH as [A|[i Hi]].
    + destruct p; try (right; exists 0; simpl; discriminate). left. intros [|i]; simpl; auto.
    + right. exists (S i). auto.
Qed.

Lemma active_dec : forall s, quiet s \/ exists i, activeb (pcf s i) = true.
Proof.
  intros s. unfold quiet, pcf. induction (pcs s) as [|p l IH].
  - left. intros [|i]; reflexivity.
  - destruct IH as [A|[i Hi]].
    + destruct (activeb p) eqn:E. right; exists 0; auto.
      left. intros [|i]; simpl; auto. unfold activeb in E. destruct (owner_of p); auto; discriminate.
    + right. exists (S i). auto.
Qed.

Lemma pcf_nth_error : forall s i p, pcf s i = p -> p <> Exited -> nth_error (pcs s) i = Some p.
Proof.
  unfold pcf. intros s i p H Hn. destruct (nth_error (pcs s) i) eqn:E.
  - apply nth_error_nth with (d := Exited) in E. destruct E. congruence.
  - apply nth_error_None_len in E. rewrite nth_overflow in H by auto. congruence.
Qed.

Lemma nth_error_upd_same : forall A (l : list A) i v, i < length l -> nth_error (upd l i v) i = Some v.
Proof. induction l; destruct i; simpl; intros; auto; try lia. apply IHl. lia. Qed.

Lemma quiet_no_locks : forall g s, Inv g s -> quiet s -> held s = [].
Proof.
  intros g s I Q. destruct (held s) as [|a h] eqn:E; auto. exfalso.
  destruct (proj1 (i_held g s I a)) as [i [t [Hh _]]]. rewrite E; simpl; auto.
  apply owner_holds in Hh. rewrite Q in Hh. discriminate.
Qed.

Lemma decreasing : forall g s l s', Inv g s -> step g s l = Some s' -> idle s l = false -> mu g s' < mu g s.
Proof. intros. destruct (step_measure g s l s' H H0) as [?|[_ ?]]; auto. congruence. Qed.

Lemma nonincreasing : forall g s l s', Inv g s -> step g s l = Some s' -> mu g s' <= mu g s.
Proof. intros. destruct (step_measure g s l s' H H0) as [?|[? _]]; lia. Qed.

(* In every reachable state in which some thread has not left the loop, some thread can strictly decrease the
   measure by one step of its own, or by two (loop head / failed fetch first). *)
Theorem progress : forall g s, wf g -> Inv g s -> ~ all_exited s ->
  exists i, (exists p s', step g s (L i p) = Some s' /\ mu g s' < mu g s)
         \/ (exists s1 p s', step g s (L i None) = Some s1 /\ mu g s1 <= mu g s /\
                             step g s1 (L i p) = Some s' /\ mu g s' < mu g s).
Proof.
  intros g s W I NA.
  destruct (active_dec s) as [Q|[i Ha]].
  - destruct (exited_dec s) as [A|[i Hi]]; [tauto|]. exists i.
    pose proof (pcf_nth_error s i _ eq_refl Hi) as Ei.
    destruct (nth_error_nth _ _ _ _ Exited Ei) as [Pi Li].
    pose proof (quiet_no_locks g s I Q) as Hh.
    destruct (counts_quiet s Q) as [C1 C2]. pose proof (i_nt g s I) as N. rewrite C1, C2 in N.
    pose proof (Q i) as Qi. unfold pcf in Hi, Ei, Qi.
    remember (nth i (pcs s) Exited) as pp eqn:Pc.
    destruct pp; simpl in Qi; try discriminate; try congruence.
    + (* LoopHead *)
      destruct (Nat.eqb_spec (ntasks s) 0) as [Z|Z].
      * left. exists None.
        assert (S1 : step g s (L i None) = Some (set_pc s i Exited)).
        { unfold step. rewrite Ei, Z. reflexivity. }
        eexists. split; [exact S1|]. eapply decreasing; eauto. unfold idle. rewrite <- Pc, Z. reflexivity.
      * right. destruct (queue s) as [|t q] eqn:Eq. simpl in N; lia.
        destruct (i_q g s I t) as [Tl _]. rewrite Eq; simpl; auto.
        destruct (lock_dep_free [] (tk g t)) as [h' Lk]. intros a _ []. intros a b; apply (wf_locks_distinct g W t a b Tl).
        assert (S1 : step g s (L i None) = Some (set_pc s i Fetch)).
        { unfold step. rewrite Ei. destruct (Nat.eqb_spec (ntasks s) 0); [congruence|reflexivity]. }
        pose proof (step_inv g s _ _ W I S1) as I1.
        assert (E1 : nth_error (pcs (set_pc s i Fetch)) i = Some Fetch) by (simpl; apply nth_error_upd_same; auto).
        exists (set_pc s i Fetch), (Some t). eexists. split; [exact S1|]. split. eapply nonincreasing; eauto.
        assert (S2 : step g (set_pc s i Fetch) (L i (Some t)) =
                     Some (mkState (cnt s) (remove1 t (queue s)) h' (ntasks s) (upd (upd (pcs s) i Fetch) i (Run t)) (rel s) (EStart t :: log s))).
        { assert (M : memb t (queue s) = true) by (apply memb_In; rewrite Eq; simpl; auto).
          unfold step. rewrite E1. cbn [set_pc queue held cnt ntasks rel log pcs]. rewrite M, Hh, Lk. reflexivity. }
        split; [exact S2|]. eapply Nat.lt_le_trans. eapply decreasing; [exact I1|exact S2|].
        unfold idle. simpl. rewrite nth_upd by auto. rewrite Nat.eqb_refl. reflexivity.
        eapply nonincreasing; eauto.
    + (* Fetch *)
      destruct (Nat.eqb_spec (ntasks s) 0) as [Z|Z].
      * right.
        assert (S1 : step g s (L i None) = Some (set_pc s i LoopHead)) by (unfold step; rewrite Ei; reflexivity).
        pose proof (step_inv g s _ _ W I S1) as I1.
        assert (E1 : nth_error (pcs (set_pc s i LoopHead)) i = Some LoopHead) by (simpl; apply nth_error_upd_same; auto).
        assert (S2 : step g (set_pc s i LoopHead) (L i None) = Some (set_pc (set_pc s i LoopHead) i Exited)).
        { unfold step. rewrite E1. simpl. rewrite Z. reflexivity. }
        exists (set_pc s i LoopHead), None. eexists. split; [exact S1|]. split. eapply nonincreasing; eauto.
        split; [exact S2|]. eapply Nat.lt_le_trans. eapply decreasing; [exact I1|exact S2|].
        unfold idle. simpl. rewrite nth_upd by auto. rewrite Nat.eqb_refl, Z. reflexivity.
        eapply nonincreasing; eauto.
      * left. destruct (queue s) as [|t q] eqn:Eq. simpl in N; lia.
        destruct (i_q g s I t) as [Tl _]. rewrite Eq; simpl; auto.
        destruct (lock_dep_free [] (tk g t)) as [h' Lk]. intros a _ []. intros a b; apply (wf_locks_distinct g W t a b Tl).
        exists (Some t). eexists.
        assert (S2 : step g s (L i (Some t)) =
                     Some (mkState (cnt s) (remove1 t (queue s)) h' (ntasks s) (upd (pcs s) i (Run t)) (rel s) (EStart t :: log s))).
        { assert (M : memb t (queue s) = true) by (apply memb_In; rewrite Eq; simpl; auto).
          unfold step. rewrite Ei, M, Hh, Lk. reflexivity. }
        split; [exact S2|]. eapply decreasing; eauto. unfold idle. rewrite <- Pc. reflexivity.
  - exists i. left. exists None.
    assert (Hi : pcf s i <> Exited) by (intro E; rewrite E in Ha; discriminate).
    pose proof (pcf_nth_error s i _ eq_refl Hi) as Ei.
    destruct (nth_error_nth _ _ _ _ Exited Ei) as [Pi Li].
    assert (exists s', step g s (L i None) = Some s') as [s' S1].
    { unfold step. rewrite Ei. destruct (pcf s i); simpl in Ha; try discriminate; eauto.
      destruct (nth_error (children (tk g t)) k); eauto. }
    exists s'. split; auto. eapply decreasing; eauto.
    unfold idle. rewrite Pi. destruct (pcf s i); simpl in Ha; try discriminate; auto.
Qed.

(* ================================================================== the theorems, for every schedule *)
Section Reachable.
  Variable g : graph.
  Variable n : nat.
  Variable sched : list label.
  Hypothesis W : wf g.
  Hypothesis N1 : 1 <= n.
  Let s := exec g (init g n) sched.

  Lemma reach_inv : Inv g s.
  Proof. apply exec_inv; auto. Qed.

  Lemma exactly_once :
    NoDup (log s) /\ (all_exited s -> forall t, t < length g -> In (EStart t) (log s) /\ In (EStop t) (log s)).
  Proof.
    split. apply (i_lognd g s reach_inv).
    intros A. apply (all_exited_finished g s W reach_inv A).
  Qed.

  Lemma parents_first : forall l1 l2 c p, log s = l1 ++ EStart c :: l2 -> p < length g ->
    In c (children (tk g p)) -> In (EStop p) l2.
  Proof. exact (i_pf g s reach_inv). Qed.

  Lemma mutual_exclusion : forall i j t u, i <> j -> holds (pcf s i) = Some t -> holds (pcf s j) = Some u ->
    (forall a, In a (locks (tk g t)) -> ~ In a (locks (tk g u))) /\
    (forall x, In x (touches (tk g t)) -> ~ In x (touches (tk g u))).
  Proof.
    intros i j t u Hij Hi Hj. pose proof (i_mutex g s reach_inv i j t u Hij Hi Hj) as M. split; auto.
    intros x Hx Hy.
    assert (Tl : t < length g).
    { pose proof (i_pc g s reach_inv i) as P. destruct (pcf s i); simpl in *; try discriminate; inversion Hi; subst; tauto. }
    assert (Ul : u < length g).
    { pose proof (i_pc g s reach_inv j) as P. destruct (pcf s j); simpl in *; try discriminate; inversion Hj; subst; tauto. }
    apply (M x); apply (wf_locks_cover g W); auto.
  Qed.

  Lemma counter_exact :
    ntasks s + count_pc at_incb (pcs s) = length (queue s) + count_pc activeb (pcs s)
    /\ (quiet s -> (ntasks s = 0 <-> forall t, t < length g -> In (EStop t) (log s)))
    /\ (all_exited s -> ntasks s = 0)
    /\ (forall i t k, nth_error (pcs s) i = Some (Release t k) ->
          (nth_error (children (tk g t)) k = None -> 1 <= ntasks s) /\
          (forall c, nth_error (children (tk g t)) k = Some c -> 1 <= nth c (cnt s) 0)).
  Proof.
    split. apply (i_nt g s reach_inv).
    split. intros Q. apply (quiet_counter g s W reach_inv Q).
    split. apply (i_exit g s reach_inv).
    intros i t k Ei. split.
    - intros En. apply (inv_decself g s i t k reach_inv Ei En).
    - intros c Ec. apply (inv_release g s i t k c W reach_inv Ei Ec).
  Qed.

  Lemma progress_reach : ~ all_exited s ->
    exists i, (exists p s', step g s (L i p) = Some s' /\ mu g s' < mu g s)
           \/ (exists s1 p s', step g s (L i None) = Some s1 /\ mu g s1 <= mu g s /\
                               step g s1 (L i p) = Some s' /\ mu g s' < mu g s).
  Proof. apply progress; auto. apply reach_inv. Qed.

  Lemma bounded_work : forall l s', step g s l = Some s' ->
    mu g s' < mu g s \/ (mu g s' = mu g s /\ idle s l = true).
  Proof. intros. apply step_measure; auto. apply reach_inv. Qed.

  Lemma reset_reestablishes_init : all_exited s -> next_step g n s = init g n.
  Proof.
    intros A. destruct (all_exited_finished g s W reach_inv A) as [_ [Q [H _]]].
    unfold next_step, init. rewrite Q, H. reflexivity.
  Qed.
End Reachable.

Lemma mu_init : forall g n, mu g (init g n) = sumn (full g) (length g) + n.
Proof.
  intros. unfold mu, init. simpl. f_equal.
  induction n; simpl; auto.
Qed.

(* ------------------------------------------------------------------ a task whose two locks are the same lock *)
Lemma same_lock_never : forall h t a, dep0 t = Some a -> dep1 t = Some a -> lock_dep h t = None.
Proof.
  intros. unfold lock_dep, try_lock. rewrite H, H0. destruct (memb a h) eqn:M; auto.
  simpl. rewrite Nat.eqb_refl. reflexivity.
Qed.

Lemma step_not_started : forall g s l s' t a, dep0 (tk g t) = Some a -> dep1 (tk g t) = Some a ->
  step g s l = Some s' -> ~ In (EStart t) (log s) -> ~ In (EStart t) (log s').
Proof.
  intros g s [i pick] s' t a D0 D1 H Hn. unfold step in H.
  destruct (nth_error (pcs s) i) as [p|]; [|discriminate].
  destruct p; try discriminate.
  - inversion H; subst; auto.
  - destruct pick as [u|].
    + destruct (memb u (queue s)); [|discriminate].
      destruct (lock_dep (held s) (tk g u)) eqn:Lk; [|discriminate].
      inversion H; subst. simpl. intros [E|E]; auto. inversion E; subst.
      rewrite (same_lock_never _ _ a D0 D1) in Lk. discriminate.
    + inversion H; subst; auto.
  - inversion H; subst. simpl. intros [E|E]; auto. discriminate.
  - inversion H; subst; auto.
  - destruct (nth_error (children (tk g t0)) k); inversion H; subst; auto.
  - inversion H; subst; auto.
  - inversion H; subst; auto.
Qed.

Theorem same_lock_never_starts : forall g n sched t a, dep0 (tk g t) = Some a -> dep1 (tk g t) = Some a ->
  ~ In (EStart t) (log (exec g (init g n) sched)).
Proof.
  intros g n sched t a D0 D1.
  assert (forall sc s, ~ In (EStart t) (log s) -> ~ In (EStart t) (log (exec g s sc))).
  { induction sc; simpl; intros; auto. destruct (step g s a0) eqn:E; auto.
    apply IHsc. eapply step_not_started; eauto. }
  apply H. simpl. tauto.
Qed.
