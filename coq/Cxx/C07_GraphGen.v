(* C07: the task graph built by make_hydro_tasks / set_dependencies / reset_hydro_tasks (make_graph true Y) is well
   formed for EVERY layout (any number of subgrids >= 1 per axis, any periodicity).
   Route:
   1. closed form of the sequential numbering: the task of slot s of subgrid i has number
        num (i, s) = base i + (number of slots < s of subgrid i that hold a task),   base i = sum_{j<i} #tasks(j);
      num is a bijection between the "valid" slot references (i < nsub, slot present) and [0, length table);
   2. the child edges, written over slot references: subgrid j contributes the 23 edges of the template T, where a
      negative-side slot that holds no task is resolved to the positive-side slot of the neighbour on that side (ref);
   3. neighbour arithmetic (div/mod, periodic wrap): nb i (2k) = Some j <-> nb j (2k+1) = Some i, in range;
   4. in/out-degree of a slot reference by counting over the template: the reset counters 0/7/1/1|2/7/1 are exactly the
      in-degrees, at most 7 children; ranks by phase; locks of a pair task = its two subgrids (one lock if they coincide). *)
From Coq Require Import Arith List Bool PeanoNat Lia.
From CMI Require Import Cxx.C07_Defs Cxx.C07_Base.
Import ListNotations.

(* ================================================================== generic list lemmas *)
Fixpoint somes {A} (l : list (option A)) : list A :=
  match l with
  | [] => []
  | None :: r => somes r
  | Some t :: r => t :: somes r
  end.
Definition cnts {A} (l : list (option A)) : nat := length (somes l).

Lemma number_slots_snd : forall l n, snd (number_slots n l) = somes l.
Proof.
  induction l as [|[t|] r IH]; simpl; intros; auto.
  - specialize (IH (S n)). destruct (number_slots (S n) r). simpl in *. congruence.
  - specialize (IH n). destruct (number_slots n r). simpl in *. congruence.
Qed.

Lemma number_slots_fst_nth : forall l n k,
  nth k (fst (number_slots n l)) None =
  match nth k l None with Some _ => Some (n + cnts (firstn k l)) | None => None end.
Proof.
  induction l as [|[t|] r IH]; simpl; intros.
  - destruct k; reflexivity.
  - specialize (IH (S n)). destruct (number_slots (S n) r) as [s ts]. simpl in *.
    destruct k; simpl. f_equal; unfold cnts; simpl; lia.
    rewrite IH. destruct (nth k r None); auto. f_equal. unfold cnts. simpl. lia.
  - specialize (IH n). destruct (number_slots n r) as [s ts]. simpl in *.
    destruct k; simpl; auto. rewrite IH. reflexivity.
Qed.

Lemma somes_nth : forall A (l : list (option A)) k t, nth_error l k = Some (Some t) ->
  nth_error (somes l) (cnts (firstn k l)) = Some t.
Proof.
  induction l as [|[u|] r IH]; intros k t H; destruct k; simpl in *; try discriminate.
  - inversion H; subst. reflexivity.
  - apply IH; auto.
  - apply IH; auto.
Qed.

Lemma cnts_firstn_lt : forall A (l : list (option A)) k t, nth_error l k = Some (Some t) ->
  cnts (firstn k l) < cnts l.
Proof.
  intros. apply somes_nth in H. apply nth_error_Some. congruence.
Qed.

Lemma cnts_firstn_mono : forall A (l : list (option A)) k k' t, k < k' -> nth_error l k = Some (Some t) ->
  cnts (firstn k l) < cnts (firstn k' l).
Proof.
  induction l as [|[u|] r IH]; intros k k' t L H; destruct k; simpl in *; try discriminate;
    destruct k'; try lia; unfold cnts in *; simpl.
  - lia.
  - specialize (IH k k' t). apply Nat.succ_lt_mono in L. specialize (IH L H). lia.
  - apply (IH k k' t); auto; lia.
Qed.

Lemma somes_decode : forall A (l : list (option A)) m, m < cnts l ->
  exists k t, nth_error l k = Some (Some t) /\ cnts (firstn k l) = m.
Proof.
  induction l as [|[u|] r IH]; unfold cnts; simpl; intros m H; try lia.
  - destruct m. exists 0, u. auto.
    destruct (IH m) as [k [t [H1 H2]]]. unfold cnts; lia.
    exists (S k), t. split; auto. simpl. unfold cnts in *. simpl. lia.
  - destruct (IH m H) as [k [t [H1 H2]]]. exists (S k), t. split; auto.
Qed.

Lemma nth_map_seq : forall A (f : nat -> A) n i d, i < n -> nth i (map f (seq 0 n)) d = f i.
Proof.
  intros. rewrite (nth_indep _ d (f 0)) by (rewrite map_length, seq_length; auto).
  rewrite map_nth, seq_nth; auto.
Qed.

Lemma fold_left_flat_map : forall A B C (f : A -> B -> A) (g : C -> list B) l a,
  fold_left f (flat_map g l) a = fold_left (fun a x => fold_left f (g x) a) l a.
Proof.
  induction l; simpl; intros; auto. rewrite fold_left_app. apply IHl.
Qed.

Lemma flat_map_ext_in : forall A B (f g : A -> list B) l, (forall x, In x l -> f x = g x) -> flat_map f l = flat_map g l.
Proof.
  induction l; simpl; intros; auto. rewrite H, IHl; auto.
Qed.

Lemma map_flat_map : forall A B C (h : B -> C) (f : A -> list B) l,
  map h (flat_map f l) = flat_map (fun x => map h (f x)) l.
Proof.
  induction l; simpl; auto. rewrite map_app, IHl. reflexivity.
Qed.

(* ------------------------------------------------------------------ sums *)
Lemma sumn_add : forall f g n, sumn (fun j => f j + g j) n = sumn f n + sumn g n.
Proof. induction n; simpl; auto. rewrite IHn. lia. Qed.

Lemma sumn_all0 : forall f n, (forall j, j < n -> f j = 0) -> sumn f n = 0.
Proof. induction n; simpl; intros; auto. rewrite IHn, H; auto. Qed.

Lemma sumn_unique : forall f n i, i < n -> (forall j, j < n -> j <> i -> f j = 0) -> sumn f n = f i.
Proof.
  induction n; simpl; intros. lia.
  destruct (Nat.eq_dec i n).
  - subst. rewrite sumn_all0. reflexivity. intros. apply H0; lia.
  - rewrite (IHn i), (H0 n); try lia. intros. apply H0; lia.
Qed.

(* ================================================================== fold of add_child *)
Definition setch (t : task) (ch : list nat) : task :=
  mkTask (kind t) (sub t) (other t) (dir t) (dep0 t) (dep1 t) ch (parents0 t).
Definition outs (p : nat) (E : list (nat * nat)) : list nat := map snd (filter (fun e => fst e =? p) E).

Lemma setch_id : forall t, setch t (children t) = t.
Proof. destruct t; reflexivity. Qed.

Lemma add_child_spec : forall tbl p c, p < length tbl ->
  length (add_child tbl p c) = length tbl /\
  forall q, tk (add_child tbl p c) q = if q =? p then setch (tk tbl p) (children (tk tbl p) ++ [c]) else tk tbl q.
Proof.
  intros. unfold add_child. destruct (nth_error tbl p) eqn:E.
  - apply (nth_error_nth _ _ _ _ dtask) in E. destruct E as [E _].
    split. apply length_upd. intros. unfold tk. rewrite nth_upd by auto. subst t. reflexivity.
  - apply nth_error_None in E. lia.
Qed.

Lemma fold_add_child : forall E tbl, (forall e, In e E -> fst e < length tbl) ->
  length (fold_left (fun tb e => add_child tb (fst e) (snd e)) E tbl) = length tbl /\
  forall q, tk (fold_left (fun tb e => add_child tb (fst e) (snd e)) E tbl) q
            = setch (tk tbl q) (children (tk tbl q) ++ outs q E).
Proof.
  induction E as [|e E IH]; simpl; intros tbl H.
  - split; auto. intros. unfold outs. simpl. rewrite app_nil_r, setch_id. reflexivity.
  - destruct (add_child_spec tbl (fst e) (snd e)) as [L T]. apply H; auto.
    destruct (IH (add_child tbl (fst e) (snd e))) as [L2 T2].
    { intros. rewrite L. apply H; auto. }
    split. congruence.
    intros q. rewrite T2, T. unfold outs. simpl. rewrite (Nat.eqb_sym (fst e) q).
    destruct (q =? fst e) eqn:Q.
    + apply Nat.eqb_eq in Q. subst q. unfold setch. simpl. rewrite <- app_assoc. reflexivity.
    + reflexivity.
Qed.

Lemma sum_outs : forall c E N, (forall e, In e E -> fst e < N) ->
  sumn (fun p => cnt_in c (outs p E)) N = cnt_in c (map snd E).
Proof.
  induction E as [|e E IH]; simpl; intros.
  - apply sumn_all0. auto.
  - rewrite <- (IH N) by auto.
    rewrite (sumn_ext _ (fun p => (if p =? fst e then (if snd e =? c then 1 else 0) else 0) + cnt_in c (outs p E))).
    + rewrite sumn_add. f_equal. rewrite (sumn_unique _ N (fst e)); auto.
      * rewrite Nat.eqb_refl. reflexivity.
      * intros. apply Nat.eqb_neq in H1. rewrite H1. reflexivity.
    + intros. unfold outs. simpl. rewrite (Nat.eqb_sym (fst e) i). destruct (i =? fst e); reflexivity.
Qed.

Lemma In_outs : forall p c E, In c (outs p E) <-> In (p, c) E.
Proof.
  unfold outs. intros. rewrite in_map_iff. split.
  - intros [[a b] [H1 H2]]. apply filter_In in H2. destruct H2 as [H2 H3]. simpl in *.
    apply Nat.eqb_eq in H3. subst. auto.
  - intros. exists (p, c). split; auto. apply filter_In. split; auto. simpl. apply Nat.eqb_refl.
Qed.

Lemma length_outs : forall p E, length (outs p E) = cnt_in p (map fst E).
Proof.
  unfold outs. induction E as [|e E IH]; simpl; auto.
  destruct (fst e =? p); simpl; rewrite map_length in *; lia.
Qed.

Lemma nth_None_error : forall A (l : list (option A)) k t, nth k l None = Some t -> nth_error l k = Some (Some t).
Proof.
  induction l; destruct k; simpl; intros; try discriminate; auto. congruence.
Qed.

(* ================================================================== index arithmetic *)
Lemma split3 : forall a b c i, 0 < b -> 0 < c -> i < a * b * c ->
  let x := i / (b * c) in let y := (i - x * b * c) / c in let z := i - x * b * c - y * c in
  x < a /\ y < b /\ z < c /\ x * b * c + y * c + z = i.
Proof.
  intros a b c i Hb Hc Hi. cbv zeta.
  assert (Hm : b * c <> 0) by nia.
  pose proof (Nat.div_mod i (b * c) Hm) as D1.
  pose proof (Nat.mod_upper_bound i (b * c) Hm) as U1.
  set (x := i / (b * c)) in *. set (r := i mod (b * c)) in *.
  assert (X : x < a). { apply Nat.div_lt_upper_bound; auto. nia. }
  assert (E1 : i - x * b * c = r) by nia.
  rewrite E1.
  assert (Hc' : c <> 0) by lia.
  pose proof (Nat.div_mod r c Hc') as D2.
  pose proof (Nat.mod_upper_bound r c Hc') as U2.
  set (y := r / c) in *. set (z := r mod c) in *.
  assert (Yb : y < b). { apply Nat.div_lt_upper_bound; auto. nia. }
  assert (E2 : r - y * c = z) by nia.
  rewrite E2. repeat split; auto. nia.
Qed.

Lemma join3 : forall a b c x y z, x < a -> y < b -> z < c ->
  let i := x * b * c + y * c + z in
  i < a * b * c /\ i / (b * c) = x /\ (i - x * b * c) / c = y /\ i - x * b * c - y * c = z.
Proof.
  intros a b c x y z Hx Hy Hz. cbv zeta.
  assert (R : y * c + z < b * c) by nia.
  assert (E0 : (x * b * c + y * c + z) / (b * c) = x).
  { symmetry. apply (Nat.div_unique _ _ _ (y * c + z)); auto. nia. }
  assert (E1 : x * b * c + y * c + z - x * b * c = y * c + z) by lia.
  assert (E2 : (y * c + z) / c = y).
  { symmetry. apply (Nat.div_unique _ _ _ z); auto. nia. }
  split. nia. split; auto. rewrite E1, E2. split; auto. lia.
Qed.

Lemma c_up_dn : forall n per c c', c < n -> c_up n per c = Some c' -> c' < n /\ c_dn n per c' = Some c.
Proof.
  unfold c_up, c_dn. intros n per c c' H.
  destruct (S c <? n) eqn:E1.
  - apply Nat.ltb_lt in E1. intros Q; inversion Q; subst. split; auto. simpl. f_equal. lia.
  - apply Nat.ltb_ge in E1. destruct per; try discriminate. destruct (0 <? n) eqn:E2; try discriminate.
    intros Q; inversion Q; subst. split. lia. simpl. f_equal. lia.
Qed.

Lemma c_dn_up : forall n per c c', c < n -> c_dn n per c = Some c' -> c' < n /\ c_up n per c' = Some c.
Proof.
  unfold c_up, c_dn. intros n per c c' H.
  destruct (0 <? c) eqn:E1.
  - apply Nat.ltb_lt in E1. intros Q; inversion Q; subst. split. lia.
    replace (S (c - 1)) with c by lia. apply Nat.ltb_lt in H. rewrite H. reflexivity.
  - apply Nat.ltb_ge in E1. destruct per; try discriminate. destruct (0 <? n) eqn:E2; try discriminate.
    intros Q; inversion Q; subst. split. lia.
    replace (S (n - 1)) with n by lia. rewrite Nat.ltb_irrefl. f_equal. lia.
Qed.

(* ================================================================== the table of make_hydro_tasks, closed form *)
Section Gen.
  Variable Y : layout.
  Hypothesis Hx : 1 <= lnx Y.
  Hypothesis Hy : 1 <= lny Y.
  Hypothesis Hz : 1 <= lnz Y.

  Definition sl (i : nat) : list (option task) := slot_tasks true Y i.
  Definition blk (i : nat) : list task := somes (sl i).
  Fixpoint base (a : nat) : nat := match a with 0 => 0 | S b => base b + length (blk b) end.
  Definition snums (i : nat) : list (option nat) := fst (number_slots (base i) (sl i)).

  Lemma make_tasks_cons : forall FX i r acc slots,
    make_tasks FX Y (i :: r) acc slots =
    let '(s, ts) := number_slots (length acc) (slot_tasks FX Y i) in make_tasks FX Y r (acc ++ ts) (slots ++ [s]).
  Proof. reflexivity. Qed.

  Lemma make_tasks_seq : forall m a acc slots, length acc = base a ->
    make_tasks true Y (seq a m) acc slots = (acc ++ flat_map blk (seq a m), slots ++ map snums (seq a m)).
  Proof.
    induction m; intros a acc slots H.
    - simpl. rewrite !app_nil_r. reflexivity.
    - change (seq a (S m)) with (a :: seq (S a) m). rewrite make_tasks_cons.
      pose proof (number_slots_snd (slot_tasks true Y a) (length acc)) as S2.
      assert (S1 : fst (number_slots (length acc) (slot_tasks true Y a)) = snums a)
        by (unfold snums, sl; rewrite H; reflexivity).
      destruct (number_slots (length acc) (slot_tasks true Y a)) as [s ts].
      cbn [fst snd] in S1, S2. subst s ts. fold (sl a). fold (blk a).
      rewrite IHm.
      + cbn [flat_map map]. rewrite <- !app_assoc. reflexivity.
      + rewrite app_length, H. reflexivity.
  Qed.

  Definition tbl (m : nat) : list task := flat_map blk (seq 0 m).
  Definition slots (m : nat) : list (list (option nat)) := map snums (seq 0 m).

  Lemma make_table_eq : make_table true Y = (tbl (nsub Y), slots (nsub Y)).
  Proof. unfold make_table. rewrite make_tasks_seq by reflexivity. reflexivity. Qed.

  Lemma tbl_S : forall m, tbl (S m) = tbl m ++ blk m.
  Proof. intros. unfold tbl. rewrite seq_S, flat_map_app. cbn [flat_map plus]. rewrite app_nil_r. reflexivity. Qed.

  Lemma length_tbl : forall m, length (tbl m) = base m.
  Proof. induction m. reflexivity. rewrite tbl_S, app_length, IHm. reflexivity. Qed.

  Lemma base_mono : forall j i, i < j -> base i + length (blk i) <= base j.
  Proof.
    induction j; intros. lia. cbn [base]. destruct (Nat.eq_dec i j). subst; lia.
    specialize (IHj i). lia.
  Qed.

  Lemma nth_tbl : forall m i k d, i < m -> k < length (blk i) -> nth (base i + k) (tbl m) d = nth k (blk i) d.
  Proof.
    induction m; intros. lia. rewrite tbl_S.
    destruct (Nat.eq_dec i m).
    - subst. rewrite app_nth2; rewrite length_tbl; try lia. f_equal. lia.
    - rewrite app_nth1. apply IHm; auto; lia. rewrite length_tbl.
      pose proof (base_mono m i). lia.
  Qed.

  Lemma base_decode : forall m c, c < base m -> exists i k, i < m /\ k < length (blk i) /\ c = base i + k.
  Proof.
    induction m; cbn [base]; intros. lia.
    destruct (Nat.lt_ge_cases c (base m)).
    - destruct (IHm c H0) as [i [k [A [B C]]]]. exists i, k. repeat split; auto.
    - exists m, (c - base m). repeat split; lia.
  Qed.

  (* ---------------------------------------------------------------- slot references *)
  Definition present (i s : nat) : bool := match nth s (sl i) None with Some _ => true | None => false end.
  Definition off (i s : nat) : nat := cnts (firstn s (sl i)).
  Definition num (r : nat * nat) : nat := base (fst r) + off (fst r) (snd r).
  Definition task_at (r : nat * nat) : task :=
    match nth (snd r) (sl (fst r)) None with Some t => t | None => dtask end.
  Definition valid (r : nat * nat) : Prop := fst r < nsub Y /\ present (fst r) (snd r) = true.

  Lemma present_error : forall i s, present i s = true -> nth_error (sl i) s = Some (Some (task_at (i, s))).
  Proof.
    unfold present, task_at. cbn [fst snd]. intros i s H. destruct (nth s (sl i) None) eqn:E; [|discriminate].
    apply nth_None_error; auto.
  Qed.

  Lemma off_lt : forall i s, present i s = true -> off i s < length (blk i).
  Proof. intros. apply present_error in H. apply cnts_firstn_lt in H. exact H. Qed.

  Lemma num_lt : forall r, valid r -> num r < base (nsub Y).
  Proof.
    intros [i s] [V1 V2]. simpl in *. unfold num. simpl. pose proof (off_lt i s V2).
    pose proof (base_mono (nsub Y) i V1). lia.
  Qed.

  Lemma tk_tbl : forall r, valid r -> tk (tbl (nsub Y)) (num r) = task_at r.
  Proof.
    intros [i s] [V1 V2]. simpl in *. unfold tk, num. simpl.
    rewrite nth_tbl by (auto using off_lt).
    apply present_error in V2. apply somes_nth in V2. apply nth_error_nth. exact V2.
  Qed.

  Lemma num_inj : forall r r', valid r -> valid r' -> num r = num r' -> r = r'.
  Proof.
    intros [i s] [i' s'] [V1 V2] [V1' V2'] E. unfold num in E. simpl in *.
    pose proof (off_lt i s V2). pose proof (off_lt i' s' V2').
    assert (i = i').
    { destruct (Nat.lt_trichotomy i i') as [L|[L|L]]; auto.
      - pose proof (base_mono i' i L). lia.
      - pose proof (base_mono i i' L). lia. }
    subst i'. f_equal. assert (E2 : off i s = off i s') by lia.
    apply present_error in V2. apply present_error in V2'.
    destruct (Nat.lt_trichotomy s s') as [L|[L|L]]; auto.
    - pose proof (cnts_firstn_mono _ _ _ _ _ L V2). unfold off in E2. lia.
    - pose proof (cnts_firstn_mono _ _ _ _ _ L V2'). unfold off in E2. lia.
  Qed.

  Lemma num_decode : forall c, c < base (nsub Y) -> exists r, valid r /\ num r = c.
  Proof.
    intros c H. destruct (base_decode _ _ H) as [i [k [A [B C]]]].
    destruct (somes_decode _ (sl i) k B) as [s [t [D1 D2]]].
    exists (i, s). split.
    - split; auto. cbn [fst snd]. unfold present.
      destruct (nth_error_nth _ _ _ _ None D1) as [Q _]. rewrite Q. reflexivity.
    - unfold num, off. simpl. lia.
  Qed.

  Lemma ht_slots : forall i s, i < nsub Y ->
    ht (slots (nsub Y)) i s = if present i s then Some (num (i, s)) else None.
  Proof.
    intros. unfold ht, slots. rewrite nth_map_seq by auto. unfold snums.
    rewrite number_slots_fst_nth. unfold present, num, off. cbn [fst snd].
    destruct (nth s (sl i) None); reflexivity.
  Qed.
  (* ---------------------------------------------------------------- neighbours *)
  Lemma coords_of : forall i, i < nsub Y ->
    pix Y i < lnx Y /\ piy Y i < lny Y /\ piz Y i < lnz Y /\ pidx Y (pix Y i) (piy Y i) (piz Y i) = i.
  Proof.
    intros i H. unfold nsub in H. cbv zeta in H. unfold piz, piy, pix, pidx. cbv zeta.
    apply split3; auto.
  Qed.

  Lemma of_coords : forall x y z, x < lnx Y -> y < lny Y -> z < lnz Y ->
    pidx Y x y z < nsub Y /\ pix Y (pidx Y x y z) = x /\ piy Y (pidx Y x y z) = y /\ piz Y (pidx Y x y z) = z.
  Proof.
    intros x y z A B C. destruct (join3 _ _ _ _ _ _ A B C) as [J1 [J2 [J3 J4]]].
    assert (P : pix Y (pidx Y x y z) = x) by (unfold pix, pidx; exact J2).
    assert (Q : piy Y (pidx Y x y z) = y) by (unfold piy; cbv zeta; rewrite P; unfold pidx; exact J3).
    split. unfold nsub, pidx. exact J1. split; auto. split; auto.
    unfold piz. cbv zeta. rewrite P, Q. unfold pidx. exact J4.
  Qed.

  Ltac nb_sym_tac i H H0 lem :=
    let A := fresh "A" in let B := fresh "B" in let C := fresh "C" in let D := fresh "D" in
    let E := fresh "E" in let F := fresh "F" in let G := fresh "G" in
    let P := fresh "P" in let Q := fresh "Q" in let R := fresh "R" in let S := fresh "S" in
    destruct (coords_of i H) as [A [B [C D]]];
    unfold nb in H0; cbv beta iota zeta in H0;
    match type of H0 with option_map _ ?cc = _ => destruct cc as [c'|] eqn:E; [|discriminate] end;
    cbn [option_map] in H0; inversion H0; subst;
    first [ destruct (lem _ _ _ _ A E) as [F G] | destruct (lem _ _ _ _ B E) as [F G] | destruct (lem _ _ _ _ C E) as [F G] ];
    match goal with
    | |- pidx Y ?x ?y ?z < _ /\ _ =>
        assert (x < lnx Y) by assumption; assert (y < lny Y) by assumption; assert (z < lnz Y) by assumption;
        destruct (of_coords x y z) as [P [Q [R S]]]; auto
    end;
    split; [exact P|]; unfold nb; cbv beta iota zeta; rewrite Q, R, S, G; cbn [option_map]; f_equal; exact D.

  Lemma nb_up_dn : forall i j d, i < nsub Y -> In d [0; 2; 4] -> nb Y i d = Some j ->
    j < nsub Y /\ nb Y j (S d) = Some i.
  Proof.
    intros i j d H Hd H0. destruct Hd as [<-|[<-|[<-|[]]]].
    - nb_sym_tac i H H0 c_up_dn.
    - nb_sym_tac i H H0 c_up_dn.
    - nb_sym_tac i H H0 c_up_dn.
  Qed.

  Lemma nb_dn_up : forall i j d, i < nsub Y -> In d [1; 3; 5] -> nb Y i d = Some j ->
    j < nsub Y /\ nb Y j (d - 1) = Some i.
  Proof.
    intros i j d H Hd H0. destruct Hd as [<-|[<-|[<-|[]]]]; cbn [Nat.sub].
    - nb_sym_tac i H H0 c_dn_up.
    - nb_sym_tac i H H0 c_dn_up.
    - nb_sym_tac i H H0 c_dn_up.
  Qed.
  (* ---------------------------------------------------------------- the 18 slots of a subgrid *)
  Definition negslot (s : nat) : bool := match s with 2 | 4 | 6 | 11 | 13 | 15 => true | _ => false end.
  Definition ndir (s : nat) : nat := match s with 2 | 11 => 1 | 4 | 13 => 3 | _ => 5 end.
  Definition isSome {A} (o : option A) : bool := match o with Some _ => true | None => false end.

  Lemma length_sl : forall j, length (sl j) = 18.
  Proof. reflexivity. Qed.

  Lemma present_lt : forall j s, present j s = true -> s < 18.
  Proof.
    intros j s P. destruct (le_lt_dec 18 s); auto.
    unfold present in P. rewrite nth_overflow in P. discriminate. rewrite length_sl. auto.
  Qed.

  Lemma present_spec : forall j s, s < 18 ->
    present j s = if negslot s then negb (isSome (nb Y j (ndir s))) else true.
  Proof.
    intros j s H.
    do 18 (destruct s as [|s];
      [ cbv [present sl slot_tasks nth pos_slot neg_slot negslot ndir isSome negb];
        try (destruct (nb Y j _)); reflexivity | ]).
    lia.
  Qed.

  Lemma negslot_cases : forall s, negslot s = true ->
    In (ndir s) [1; 3; 5] /\ 1 <= s /\ s < 18 /\ negslot (s - 1) = false.
  Proof.
    intros s N.
    do 18 (destruct s as [|s]; [ try discriminate N; cbv [ndir negslot Nat.sub In]; repeat split; auto; lia | ]).
    discriminate N.
  Qed.

  (* a negative-side slot without a task stands for the positive-side slot of the neighbour on that side *)
  Definition ref (j s : nat) : nat * nat := if present j s then (j, s) else (oget (nb Y j (ndir s)), s - 1).

  Lemma absent_nb : forall j s, j < nsub Y -> s < 18 -> present j s = false ->
    negslot s = true /\ exists j', nb Y j (ndir s) = Some j' /\ j' < nsub Y /\ present j' (s - 1) = true
                                   /\ nb Y j' (ndir s - 1) = Some j.
  Proof.
    intros j s Hj Hs P. rewrite present_spec in P by auto.
    destruct (negslot s) eqn:N; [|discriminate]. split; auto.
    destruct (nb Y j (ndir s)) as [j'|] eqn:E; [|discriminate].
    destruct (negslot_cases s N) as [D [S1 [S2 S3]]].
    destruct (nb_dn_up j j' _ Hj D E) as [A B].
    exists j'. repeat split; auto. rewrite present_spec by lia. rewrite S3. reflexivity.
  Qed.

  Lemma ref_valid : forall j s, j < nsub Y -> s < 18 -> valid (ref j s).
  Proof.
    intros j s Hj Hs. unfold ref. destruct (present j s) eqn:P.
    - split; auto.
    - destruct (absent_nb j s Hj Hs P) as [_ [j' [E [A [B _]]]]]. rewrite E. split; auto.
  Qed.

  Definition slotrank (s : nat) : nat :=
    if s <? 7 then 0 else if s <? 8 then 1 else if s <? 9 then 2 else if s <? 16 then 3 else if s <? 17 then 4 else 5.
  (* the counters written by reset_hydro_tasks *)
  Definition pexp (j s : nat) : nat :=
    match s with
    | 7 => 7 | 8 => 1 | 9 => 1
    | 10 => if isSome (nb Y j 0) then 2 else 1 | 11 => 1
    | 12 => if isSome (nb Y j 2) then 2 else 1 | 13 => 1
    | 14 => if isSome (nb Y j 4) then 2 else 1 | 15 => 1
    | 16 => 7 | 17 => 1
    | _ => 0
    end.
  Definition locks_ok (t : task) : Prop :=
    (forall a b, dep0 t = Some a -> dep1 t = Some b -> a <> b) /\
    (forall x, In x (touches t) -> In x (locks t)) /\ (forall x, In x (locks t) -> In x (touches t)).

  Lemma own_locks_ok : forall k i p, locks_ok (own_task k i p).
  Proof. repeat split; simpl; intros; try discriminate; tauto. Qed.
  Lemma bnd_locks_ok : forall k i d p, locks_ok (bnd_task k i d p).
  Proof. repeat split; simpl; intros; try discriminate; tauto. Qed.
  Lemma pair_locks_ok : forall k i j d p, locks_ok (pair_task true k i j d p).
  Proof.
    intros. unfold locks_ok, pair_task, touches, locks. cbn [dep0 dep1 sub other andb].
    destruct (i <? j) eqn:L; [apply Nat.ltb_lt in L | apply Nat.ltb_ge in L].
    - destruct (j =? i) eqn:Q; [apply Nat.eqb_eq in Q; lia|]. apply Nat.eqb_neq in Q.
      split. intros a b A B. inversion A; inversion B; subst; auto.
      split; simpl; intros x [<-|[<-|[]]]; auto.
    - destruct (i =? j) eqn:Q; [apply Nat.eqb_eq in Q | apply Nat.eqb_neq in Q].
      + split. intros; discriminate. subst. split; simpl. intros x [<-|[<-|[]]]; auto. intros x [<-|[]]; auto.
      + split. intros a b A B. inversion A; inversion B; subst; auto.
        split; simpl; intros x [<-|[<-|[]]]; auto.
  Qed.

  (* a pair task of a subgrid with itself has exactly one lock: that of the subgrid *)
  Lemma self_pair_one_lock : forall t, locks_ok t -> other t = Some (sub t) -> locks t = [sub t].
  Proof.
    intros t [D [C X]] O. unfold touches, locks in *. rewrite O in *.
    destruct (dep0 t) as [a|] eqn:D0.
    - assert (A : a = sub t). { destruct (X a) as [<-|[<-|[]]]; simpl; auto. }
      subst a. destruct (dep1 t) as [b|] eqn:D1; auto.
      assert (B : b = sub t). { destruct (X b) as [<-|[<-|[]]]; simpl; auto. }
      exfalso. apply (D (sub t) b); auto.
    - destruct (C (sub t)). simpl; auto.
  Qed.

  Lemma slot_facts : forall j s, s < 18 -> present j s = true ->
    children (task_at (j, s)) = [] /\ rank_of (kind (task_at (j, s))) = slotrank s /\
    parents0 (task_at (j, s)) = pexp j s /\ locks_ok (task_at (j, s)).
  Proof.
    intros j s H P.
    do 18 (destruct s as [|s];
      [ cbv [present sl slot_tasks nth pos_slot neg_slot] in P;
        cbv [task_at fst snd sl slot_tasks nth pos_slot neg_slot pexp slotrank Nat.ltb Nat.leb isSome];
        try (destruct (nb Y j _) eqn:E; try discriminate P);
        repeat split; try reflexivity;
        first [ apply own_locks_ok | apply bnd_locks_ok | apply pair_locks_ok ] | ]).
    lia.
  Qed.

  (* ---------------------------------------------------------------- set_dependencies over slot references *)
  Definition T : list (nat * nat) :=
    [ (0, 7); (1, 7); (2, 7); (3, 7); (4, 7); (5, 7); (6, 7);
      (7, 8);
      (8, 9); (8, 10); (8, 11); (8, 12); (8, 13); (8, 14); (8, 15);
      (9, 16); (10, 16); (11, 16); (12, 16); (13, 16); (14, 16); (15, 16);
      (16, 17) ].

  Lemma T_lt : forall s s', In (s, s') T -> s < 18 /\ s' < 18 /\ slotrank s < slotrank s'.
  Proof.
    intros s s' H. cbv [T In] in H.
    repeat (destruct H as [H|H]; [inversion H; subst; cbv [slotrank Nat.ltb Nat.leb]; lia | ]).
    destruct H.
  Qed.

  Lemma h_eq : forall j s, j < nsub Y -> s < 18 -> negslot s = false ->
    oget (ht (slots (nsub Y)) j s) = num (ref j s).
  Proof.
    intros. rewrite ht_slots by auto. unfold ref. rewrite present_spec by auto. rewrite H1. reflexivity.
  Qed.

  Lemma neg_eq : forall j s, j < nsub Y -> negslot s = true ->
    neg_or_ngb Y (slots (nsub Y)) j s (s - 1) (ndir s) = num (ref j s).
  Proof.
    intros j s Hj N. destruct (negslot_cases s N) as [D [S1 [S2 S3]]].
    unfold neg_or_ngb. cbv zeta. rewrite ht_slots by auto. unfold ref. destruct (present j s) eqn:P; auto.
    destruct (absent_nb j s Hj S2 P) as [_ [j' [E [A [B _]]]]]. rewrite E. cbn [oget].
    rewrite ht_slots by auto. rewrite B. reflexivity.
  Qed.

  Definition eref (j : nat) : list ((nat * nat) * (nat * nat)) := map (fun e => (ref j (fst e), ref j (snd e))) T.
  Definition Eref : list ((nat * nat) * (nat * nat)) := flat_map eref (seq 0 (nsub Y)).
  Definition nume (e : (nat * nat) * (nat * nat)) : nat * nat := (num (fst e), num (snd e)).
  Definition EN : list (nat * nat) := map nume Eref.

  Lemma dep_edges_eq : forall j, j < nsub Y -> dep_edges Y (slots (nsub Y)) j = map nume (eref j).
  Proof.
    intros j Hj. unfold dep_edges, eref, nume. cbv zeta. cbn [map T fst snd].
    pose proof (neg_eq j 2 Hj eq_refl) as N2. pose proof (neg_eq j 4 Hj eq_refl) as N4.
    pose proof (neg_eq j 6 Hj eq_refl) as N6. pose proof (neg_eq j 11 Hj eq_refl) as N11.
    pose proof (neg_eq j 13 Hj eq_refl) as N13. pose proof (neg_eq j 15 Hj eq_refl) as N15.
    cbn [Nat.sub ndir] in N2, N4, N6, N11, N13, N15.
    rewrite N2, N4, N6, N11, N13, N15.
    rewrite (h_eq j 0), (h_eq j 1), (h_eq j 3), (h_eq j 5), (h_eq j 7), (h_eq j 8), (h_eq j 9), (h_eq j 10),
            (h_eq j 12), (h_eq j 14), (h_eq j 16), (h_eq j 17) by (auto; lia).
    reflexivity.
  Qed.

  Lemma make_graph_eq :
    make_graph true Y = fold_left (fun tb e => add_child tb (fst e) (snd e)) EN (tbl (nsub Y)).
  Proof.
    unfold make_graph. cbv zeta. rewrite make_table_eq.
    rewrite <- (fold_left_flat_map _ _ _ (fun tb e => add_child tb (fst e) (snd e)) (dep_edges Y (slots (nsub Y)))).
    f_equal. unfold EN, Eref. rewrite map_flat_map. apply flat_map_ext_in.
    intros j Hj. apply in_seq in Hj. apply dep_edges_eq. lia.
  Qed.

  Lemma In_Eref : forall e, In e Eref ->
    exists j s s', j < nsub Y /\ In (s, s') T /\ e = (ref j s, ref j s').
  Proof.
    unfold Eref, eref. intros e H. apply in_flat_map in H. destruct H as [j [H1 H2]].
    apply in_seq in H1. apply in_map_iff in H2. destruct H2 as [[s s'] [H2 H3]].
    exists j, s, s'. repeat split; auto. lia.
  Qed.

  Lemma Eref_valid : forall e, In e Eref -> valid (fst e) /\ valid (snd e).
  Proof.
    intros e H. destruct (In_Eref e H) as [j [s [s' [A [B C]]]]]. subst e.
    destruct (T_lt s s' B) as [L1 [L2 _]]. split; apply ref_valid; auto.
  Qed.
  (* ---------------------------------------------------------------- counting edges over slot references *)
  Definition peqb (a b : nat * nat) : bool := (fst a =? fst b) && (snd a =? snd b).
  Lemma peqb_spec : forall a b, peqb a b = true <-> a = b.
  Proof.
    intros [a1 a2] [b1 b2]. unfold peqb. cbn [fst snd]. rewrite andb_true_iff, !Nat.eqb_eq.
    split. intros [-> ->]; auto. intros H; inversion H; auto.
  Qed.
  Lemma peqb_refl : forall a, peqb a a = true.
  Proof. intros. apply peqb_spec. reflexivity. Qed.

  Fixpoint cntr (r : nat * nat) (l : list (nat * nat)) : nat :=
    match l with
    | [] => 0
    | x :: q => (if peqb x r then 1 else 0) + cntr r q
    end.

  Lemma cntr_app : forall r l1 l2, cntr r (l1 ++ l2) = cntr r l1 + cntr r l2.
  Proof. induction l1; cbn [app cntr]; intros; auto. rewrite IHl1. lia. Qed.

  Lemma cnt_num : forall r L, valid r -> (forall x, In x L -> valid x) -> cnt_in (num r) (map num L) = cntr r L.
  Proof.
    induction L as [|a L IH]; intros Vr VL; cbn [map cnt_in cntr]; auto.
    rewrite IH by (auto; intros; apply VL; right; auto). f_equal.
    destruct (peqb a r) eqn:Q.
    - apply peqb_spec in Q. subst. rewrite Nat.eqb_refl. reflexivity.
    - destruct (num a =? num r) eqn:Q2; auto. apply Nat.eqb_eq in Q2.
      apply num_inj in Q2; auto. subst. rewrite peqb_refl in Q. discriminate. apply VL. left; auto.
  Qed.

  Lemma list_sum_map_add : forall (f g : nat -> nat) (l : list nat),
    list_sum (map (fun s => f s + g s) l) = list_sum (map f l) + list_sum (map g l).
  Proof. induction l; simpl; auto. rewrite IHl. lia. Qed.
  Lemma list_sum_map_0 : forall (l : list nat), list_sum (map (fun _ => 0) l) = 0.
  Proof. induction l; simpl; auto. Qed.

  Lemma cntr_map_ref : forall r j (l : list nat),
    cntr r (map (ref j) l) = list_sum (map (fun s => if peqb (ref j s) r then 1 else 0) l).
  Proof. induction l; cbn [map cntr]; auto. rewrite IHl. reflexivity. Qed.

  Lemma cntr_refs : forall r (l : list nat) m,
    cntr r (flat_map (fun j => map (ref j) l) (seq 0 m)) =
    list_sum (map (fun s => sumn (fun j => if peqb (ref j s) r then 1 else 0) m) l).
  Proof.
    induction m.
    - cbn [seq flat_map cntr sumn]. rewrite list_sum_map_0. reflexivity.
    - rewrite seq_S, flat_map_app, cntr_app, IHm. cbn [flat_map plus sumn]. rewrite app_nil_r, cntr_map_ref.
      rewrite <- list_sum_map_add. reflexivity.
  Qed.

  Definition N (s : nat) (r : nat * nat) : nat := sumn (fun j => if peqb (ref j s) r then 1 else 0) (nsub Y).

  Lemma ref_eq_inv : forall j s' i s, j < nsub Y -> s' < 18 -> ref j s' = (i, s) ->
    (j = i /\ s' = s) \/ (negslot s' = true /\ s' = S s /\ nb Y i (ndir s' - 1) = Some j).
  Proof.
    intros j s' i s Hj Hs R. unfold ref in R. destruct (present j s') eqn:P.
    - inversion R. auto.
    - destruct (absent_nb j s' Hj Hs P) as [Ng [j' [E [A [B C]]]]]. rewrite E in R. cbn [oget] in R.
      inversion R. subst. right. destruct (negslot_cases s' Ng) as [_ [S1 _]]. repeat split; auto. lia.
  Qed.

  Lemma N_spec : forall i s s', valid (i, s) -> s' < 18 ->
    N s' (i, s) = (if s' =? s then 1 else 0)
                  + (if negslot s' && (s' =? S s) && isSome (nb Y i (ndir s' - 1)) then 1 else 0).
  Proof.
    intros i s s' [V1 V2] Hs'. cbn [fst snd] in V1, V2. unfold N.
    assert (Z : forall j, j < nsub Y -> ref j s' <> (i, s) -> (if peqb (ref j s') (i, s) then 1 else 0) = 0).
    { intros j Hj Hne. destruct (peqb (ref j s') (i, s)) eqn:Q; auto. apply peqb_spec in Q. contradiction. }
    destruct (negslot s' && (s' =? S s)) eqn:C1.
    - apply andb_true_iff in C1. destruct C1 as [Ng C1]. apply Nat.eqb_eq in C1. subst s'.
      assert (C2 : S s =? s = false) by (apply Nat.eqb_neq; lia). rewrite C2. cbn [andb plus].
      destruct (negslot_cases _ Ng) as [D [S1 [S2 S3]]].
      destruct (nb Y i (ndir (S s) - 1)) as [j0|] eqn:E0; cbn [isSome].
      + assert (D' : In (ndir (S s) - 1) [0; 2; 4]).
        { destruct D as [<-|[<-|[<-|[]]]]; cbn [Nat.sub In]; auto. }
        destruct (nb_up_dn i j0 _ V1 D' E0) as [A B].
        replace (S (ndir (S s) - 1)) with (ndir (S s)) in B by (destruct D as [<-|[<-|[<-|[]]]]; reflexivity).
        rewrite (sumn_unique _ _ j0 A).
        * unfold ref. rewrite present_spec by auto. rewrite Ng, B. cbn [isSome negb oget Nat.sub].
          rewrite Nat.sub_0_r, peqb_refl. reflexivity.
        * intros j Hj Hne. apply Z; auto. intros R. apply ref_eq_inv in R; auto.
          destruct R as [[_ R]|[_ [_ R]]]. lia. rewrite E0 in R. inversion R. congruence.
      + apply sumn_all0. intros j Hj. apply Z; auto. intros R. apply ref_eq_inv in R; auto.
        destruct R as [[_ R]|[_ [_ R]]]. lia. rewrite E0 in R. discriminate.
    - cbn [andb]. rewrite Nat.add_0_r.
      destruct (s' =? s) eqn:C2.
      + apply Nat.eqb_eq in C2. subst s'. rewrite (sumn_unique _ _ i V1).
        * unfold ref. rewrite V2, peqb_refl. reflexivity.
        * intros j Hj Hne. apply Z; auto. intros R. apply ref_eq_inv in R; auto.
          destruct R as [[R _]|[_ [R _]]]; lia.
      + apply sumn_all0. intros j Hj. apply Z; auto. intros R. apply ref_eq_inv in R; auto.
        destruct R as [[_ R]|[R1 [R2 _]]].
        * apply Nat.eqb_neq in C2. lia.
        * rewrite R1 in C1. cbn [andb] in C1. apply Nat.eqb_neq in C1. lia.
  Qed.
  (* ---------------------------------------------------------------- in- and out-degree of a slot reference *)
  Lemma map_snd_Eref : map snd Eref = flat_map (fun j => map (ref j) (map snd T)) (seq 0 (nsub Y)).
  Proof.
    unfold Eref, eref. rewrite map_flat_map. apply flat_map_ext_in. intros. rewrite !map_map. reflexivity.
  Qed.
  Lemma map_fst_Eref : map fst Eref = flat_map (fun j => map (ref j) (map fst T)) (seq 0 (nsub Y)).
  Proof.
    unfold Eref, eref. rewrite map_flat_map. apply flat_map_ext_in. intros. rewrite !map_map. reflexivity.
  Qed.

  Lemma count_slots : forall i s (l : list nat), valid (i, s) -> (forall s', In s' l -> s' < 18) ->
    cntr (i, s) (flat_map (fun j => map (ref j) l) (seq 0 (nsub Y))) =
    list_sum (map (fun s' => (if s' =? s then 1 else 0)
                             + (if negslot s' && (s' =? S s) && isSome (nb Y i (ndir s' - 1)) then 1 else 0)) l).
  Proof.
    intros i s l V Hl. rewrite cntr_refs. f_equal. apply map_ext_in. intros s' Hs'.
    apply (N_spec i s s' V). auto.
  Qed.

  Lemma T_snd_lt : forall s', In s' (map snd T) -> s' < 18.
  Proof. intros s' H. apply in_map_iff in H. destruct H as [[a b] [<- H]]. apply T_lt in H. cbn [snd]. lia. Qed.
  Lemma T_fst_lt : forall s', In s' (map fst T) -> s' < 18.
  Proof. intros s' H. apply in_map_iff in H. destruct H as [[a b] [<- H]]. apply T_lt in H. cbn [fst]. lia. Qed.

  (* the counters of reset_hydro_tasks are the in-degrees *)
  Lemma indeg_ref : forall i s, valid (i, s) -> cntr (i, s) (map snd Eref) = pexp i s.
  Proof.
    intros i s V. rewrite map_snd_Eref, (count_slots i s _ V T_snd_lt).
    destruct V as [_ V2]. cbn [fst snd] in V2. apply present_lt in V2.
    do 18 (destruct s as [|s];
      [ cbv [T map snd list_sum fold_right Nat.eqb negslot andb ndir Nat.sub pexp];
        repeat match goal with |- context [isSome ?x] => destruct (isSome x) end; reflexivity | ]).
    lia.
  Qed.

  Lemma outdeg_ref : forall i s, valid (i, s) -> cntr (i, s) (map fst Eref) <= 7.
  Proof.
    intros i s V. rewrite map_fst_Eref, (count_slots i s _ V T_fst_lt).
    destruct V as [_ V2]. cbn [fst snd] in V2. apply present_lt in V2.
    do 18 (destruct s as [|s];
      [ cbv [T map fst list_sum fold_right Nat.eqb negslot andb ndir Nat.sub];
        repeat match goal with |- context [isSome ?x] => destruct (isSome x) end; cbv; lia | ]).
    lia.
  Qed.

  Lemma pexp_small : forall j s, pexp j s <= 7.
  Proof.
    intros. unfold pexp.
    do 18 (destruct s as [|s]; [ try destruct (isSome _); lia | ]). lia.
  Qed.

  Lemma negslot_rank : forall s, negslot s = true -> slotrank (s - 1) = slotrank s.
  Proof.
    intros s N. do 18 (destruct s as [|s]; [ try discriminate N; reflexivity | ]). discriminate N.
  Qed.

  Lemma rank_ref : forall j s, j < nsub Y -> s < 18 -> rank_of (kind (task_at (ref j s))) = slotrank s.
  Proof.
    intros j s Hj Hs. unfold ref. destruct (present j s) eqn:P.
    - apply (slot_facts j s Hs P).
    - destruct (absent_nb j s Hj Hs P) as [Ng [j' [E [A [B _]]]]]. rewrite E. cbn [oget].
      rewrite <- (negslot_rank s Ng). apply (slot_facts j' (s - 1)); auto. lia.
  Qed.

  (* ================================================================== the graph of the code, task by task *)
  Lemma EN_range : forall e, In e EN -> fst e < length (tbl (nsub Y)).
  Proof.
    intros e H. unfold EN in H. apply in_map_iff in H. destruct H as [x [<- H]]. apply Eref_valid in H.
    rewrite length_tbl. apply num_lt. apply H.
  Qed.

  Lemma graph_length : length (make_graph true Y) = base (nsub Y).
  Proof. rewrite make_graph_eq. destruct (fold_add_child EN _ EN_range) as [GL _]. rewrite GL. apply length_tbl. Qed.

  (* task number num (j, s) is the task created for slot s of subgrid j, with the children given by the edges *)
  Lemma graph_task : forall r, valid r -> tk (make_graph true Y) (num r) = setch (task_at r) (outs (num r) EN).
  Proof.
    intros [j s] V. rewrite make_graph_eq. destruct (fold_add_child EN _ EN_range) as [_ GT].
    rewrite GT, tk_tbl by auto. destruct V as [V1 V2]. cbn [fst snd] in V2.
    destruct (slot_facts j s (present_lt _ _ V2) V2) as [C _]. rewrite C. reflexivity.
  Qed.

  Lemma In_EN : forall p c, In (p, c) EN ->
    exists j s s', j < nsub Y /\ In (s, s') T /\ p = num (ref j s) /\ c = num (ref j s').
  Proof.
    intros p c H. unfold EN in H. apply in_map_iff in H. destruct H as [x [Q H]].
    destruct (In_Eref x H) as [j [s [s' [A [B C]]]]]. subst x. unfold nume in Q. cbn [fst snd] in Q.
    inversion Q. exists j, s, s'. auto.
  Qed.

  Lemma graph_locks_ok : forall t, t < length (make_graph true Y) -> locks_ok (tk (make_graph true Y) t).
  Proof.
    intros t Ht. rewrite graph_length in Ht. destruct (num_decode t Ht) as [[i s] [V <-]].
    rewrite graph_task by auto. destruct V as [V1 V2]. cbn [fst snd] in V2.
    destruct (slot_facts i s (present_lt _ _ V2) V2) as [_ [_ [_ L]]]. exact L.
  Qed.

  (* ================================================================== the graph of the code is well formed *)
  Theorem make_graph_wf_gen : wf (make_graph true Y).
  Proof.
    pose proof graph_length as GL. pose proof graph_task as FLD. pose proof In_EN as INE.
    set (g := make_graph true Y) in *.
    constructor.
    - (* children in range *)
      intros p c Hp Hc. rewrite GL in *. destruct (num_decode p Hp) as [r [V <-]].
      rewrite FLD in Hc by auto. cbn [setch children] in Hc. apply In_outs in Hc.
      destruct (INE _ _ Hc) as [j [s [s' [A [B [_ ->]]]]]]. apply num_lt. apply ref_valid; auto. apply (T_lt s s' B).
    - (* counters = in-degree *)
      intros c Hc. rewrite GL in Hc. destruct (num_decode c Hc) as [[i s] [V <-]].
      unfold indeg. rewrite GL.
      rewrite (sumn_ext _ (fun p => cnt_in (num (i, s)) (outs p EN))).
      + rewrite sum_outs by (intros e He; rewrite <- length_tbl; apply EN_range; auto).
        unfold EN. rewrite map_map. unfold nume. cbn [snd].
        rewrite <- (map_map snd num). rewrite cnt_num; auto.
        * rewrite indeg_ref by auto. rewrite FLD by auto. cbn [setch parents0].
          destruct V as [V1 V2]. cbn [fst snd] in V2.
          apply (slot_facts i s (present_lt _ _ V2) V2).
        * intros x Hx'. apply in_map_iff in Hx'. destruct Hx' as [e [<- He]]. apply Eref_valid; auto.
      + intros p Hp. destruct (num_decode p Hp) as [r [Vr <-]]. rewrite FLD by auto. reflexivity.
    - (* counters fit in 8 bits *)
      intros c Hc. rewrite GL in Hc. destruct (num_decode c Hc) as [[i s] [V <-]].
      rewrite FLD by auto. cbn [setch parents0]. destruct V as [V1 V2]. cbn [fst snd] in V2.
      destruct (slot_facts i s (present_lt _ _ V2) V2) as [_ [_ [P _]]]. rewrite P.
      pose proof (pexp_small i s). lia.
    - (* ranked by phase *)
      exists (fun t => rank_of (kind (tk g t))). intros p c Hp Hc.
      rewrite GL in Hp. destruct (num_decode p Hp) as [r [V <-]].
      rewrite FLD in Hc by auto. cbn [setch children] in Hc. apply In_outs in Hc.
      destruct (INE _ _ Hc) as [j [s [s' [A [B [-> ->]]]]]]. destruct (T_lt s s' B) as [L1 [L2 L3]].
      rewrite !FLD by (apply ref_valid; auto). cbn [setch kind].
      rewrite !rank_ref by auto. exact L3.
    - (* the two locks differ *)
      intros t a b Ht. destruct (graph_locks_ok t Ht) as [L _]. apply L.
    - (* locks cover the touched subgrids *)
      intros t x Ht. destruct (graph_locks_ok t Ht) as [_ [L _]]. apply L.
    - (* at most 7 children *)
      intros t Ht. rewrite GL in Ht. destruct (num_decode t Ht) as [r [V <-]].
      rewrite FLD by auto. cbn [setch children]. rewrite length_outs.
      unfold EN. rewrite map_map. unfold nume. cbn [fst].
      rewrite <- (map_map fst num). rewrite cnt_num; auto.
      + destruct r. apply outdeg_ref; auto.
      + intros x Hx'. apply in_map_iff in Hx'. destruct Hx' as [e [<- He]]. apply Eref_valid; auto.
  Qed.

  (* the locks of a task are exactly the locks of the subgrids it touches; a pair task of a subgrid with itself
     (periodic axis with one subgrid, the layouts of defect D2) has exactly one lock *)
  Theorem make_graph_locks_exact_gen : forall t, t < length (make_graph true Y) ->
    (forall x, In x (locks (tk (make_graph true Y) t)) <-> In x (touches (tk (make_graph true Y) t))) /\
    (other (tk (make_graph true Y) t) = Some (sub (tk (make_graph true Y) t)) ->
     locks (tk (make_graph true Y) t) = [sub (tk (make_graph true Y) t)]).
  Proof.
    intros t Ht. pose proof (graph_locks_ok t Ht) as L. split.
    - destruct L as [_ [C X]]. intros x. split; auto.
    - apply self_pair_one_lock. exact L.
  Qed.

  (* closed form of the numbering: the number of tasks, and the task in each slot *)
  Theorem make_graph_numbering_gen :
    length (make_graph true Y) = base (nsub Y) /\
    (forall t, t < length (make_graph true Y) -> exists j s, j < nsub Y /\ present j s = true /\ t = num (j, s)) /\
    (forall j s, j < nsub Y -> present j s = true ->
       num (j, s) < length (make_graph true Y) /\
       ht (make_slots true Y) j s = Some (num (j, s)) /\
       let t := tk (make_graph true Y) (num (j, s)) in
       nth s (slot_tasks true Y j) None = Some (setch t []) /\
       forall c, In c (children t) <-> In (num (j, s), c) EN).
  Proof.
    split. apply graph_length. split.
    - intros t Ht. rewrite graph_length in Ht. destruct (num_decode t Ht) as [[j s] [[V1 V2] <-]].
      exists j, s. auto.
    - intros j s Hj P. assert (V : valid (j, s)) by (split; auto).
      split. rewrite graph_length. apply num_lt; auto.
      split. unfold make_slots. rewrite make_table_eq. cbn [snd]. rewrite ht_slots by auto. rewrite P. reflexivity.
      cbv zeta. rewrite graph_task by auto. split.
      + pose proof (slot_facts j s (present_lt _ _ P) P) as [C _].
        unfold task_at in *. cbn [fst snd] in *. fold (sl j). unfold present in P.
        destruct (nth s (sl j) None) as [t0|]; [|discriminate].
        destruct t0 as [k0 s0 o0 d0 a0 b0 c0 p0]. cbn [children] in C. subst. reflexivity.
      + intros c. cbn [setch children]. apply In_outs.
  Qed.

  (* ================================================================== phase ordering of the graph of the code *)
  Definition posslot (s : nat) : bool := match s with 1 | 3 | 5 | 10 | 12 | 14 => true | _ => false end.
  Definition pdir (s : nat) : nat := match s with 1 | 10 => 0 | 3 | 12 => 2 | _ => 4 end.
  (* the subgrids touched by the task of slot s of subgrid j *)
  Definition touch_spec (j s : nat) : list nat :=
    j :: match (if posslot s then nb Y j (pdir s) else None) with Some j' => [j'] | None => [] end.

  Lemma slot_touches : forall j s, s < 18 -> present j s = true -> touches (task_at (j, s)) = touch_spec j s.
  Proof.
    intros j s H P.
    do 18 (destruct s as [|s];
      [ cbv [present sl slot_tasks nth pos_slot neg_slot] in P;
        cbv [task_at fst snd sl slot_tasks nth pos_slot neg_slot touch_spec posslot pdir];
        try (destruct (nb Y j _) eqn:E; try discriminate P); reflexivity | ]).
    lia.
  Qed.

  Lemma posslot_next : forall s, posslot s = true ->
    negslot (S s) = true /\ ndir (S s) = S (pdir s) /\ In (pdir s) [0; 2; 4] /\ S s < 18.
  Proof.
    intros s N.
    do 18 (destruct s as [|s]; [ try discriminate N; cbv [ndir negslot pdir In]; repeat split; auto; lia | ]).
    discriminate N.
  Qed.

  (* a task that touches subgrid x sits, seen from x, in a slot of x (its own, or the negative-side slot that is
     resolved to the neighbour's positive-side pair task) *)
  Lemma touch_ref : forall i s x, valid (i, s) -> In x (touches (task_at (i, s))) ->
    x < nsub Y /\ exists s', s' < 18 /\ ref x s' = (i, s) /\ slotrank s' = slotrank s.
  Proof.
    intros i s x [V1 V2] H. cbn [fst snd] in *. pose proof (present_lt _ _ V2) as Hs.
    rewrite slot_touches in H by auto. unfold touch_spec in H. destruct H as [<-|H].
    - split; auto. exists s. unfold ref. rewrite V2. auto.
    - destruct (posslot s) eqn:PS; [|destruct H].
      destruct (nb Y i (pdir s)) as [j'|] eqn:E; [|destruct H].
      destruct H as [<-|[]]. destruct (posslot_next s PS) as [Ng [Nd [D Hs']]].
      destruct (nb_up_dn i j' _ V1 D E) as [A B]. split; auto.
      exists (S s). split; auto. split.
      + unfold ref. rewrite present_spec by auto. rewrite Ng, Nd, B. cbn [isSome negb oget Nat.sub].
        rewrite Nat.sub_0_r. reflexivity.
      + pose proof (negslot_rank (S s) Ng) as Q. cbn [Nat.sub] in Q. rewrite Nat.sub_0_r in Q. auto.
  Qed.

  (* the template T of set_dependencies is EXACTLY the set of slot pairs of consecutive phases *)
  Lemma T_complete_b :
    forallb (fun s => forallb (fun s' => negb (slotrank s' =? S (slotrank s)) || existsb (peqb (s, s')) T)
                              (seq 0 18)) (seq 0 18) = true.
  Proof. vm_compute. reflexivity. Qed.

  Lemma T_complete : forall s s', s < 18 -> s' < 18 -> slotrank s' = S (slotrank s) -> In (s, s') T.
  Proof.
    intros s s' H H' R. pose proof T_complete_b as B. rewrite forallb_forall in B.
    specialize (B s). rewrite forallb_forall in B by (apply in_seq; lia).
    specialize (B ltac:(apply in_seq; lia) s' ltac:(apply in_seq; lia)).
    rewrite R, Nat.eqb_refl in B. cbn [negb orb] in B. apply existsb_exists in B.
    destruct B as [e [E1 E2]]. apply peqb_spec in E2. subst. exact E1.
  Qed.

  Lemma edge_in_EN : forall j s s', j < nsub Y -> In (s, s') T -> In (num (ref j s), num (ref j s')) EN.
  Proof.
    intros j s s' Hj H. unfold EN. apply in_map_iff. exists (ref j s, ref j s'). split. reflexivity.
    unfold Eref. apply in_flat_map. exists j. split. apply in_seq; lia.
    unfold eref. apply in_map_iff. exists (s, s'). auto.
  Qed.

  Lemma graph_rk : forall r, valid r -> rk (make_graph true Y) (num r) = slotrank (snd r).
  Proof.
    intros [j s] V. unfold rk. rewrite graph_task by auto. cbn [setch kind snd].
    destruct V as [V1 V2]. cbn [fst snd] in V2. apply (slot_facts j s (present_lt _ _ V2) V2).
  Qed.

  Lemma graph_touches : forall r, valid r -> touches (tk (make_graph true Y) (num r)) = touches (task_at r).
  Proof. intros r V. rewrite graph_task by auto. reflexivity. Qed.

  Theorem make_graph_phases_gen : phases_ordered (make_graph true Y).
  Proof.
    constructor.
    - intros x t1 t2 H1 H2 T1 T2 R. rewrite graph_length in H1, H2.
      destruct (num_decode t1 H1) as [[i1 s1] [V1 <-]]. destruct (num_decode t2 H2) as [[i2 s2] [V2 <-]].
      rewrite graph_touches in T1, T2 by auto. rewrite !graph_rk in R by auto. cbn [snd] in R.
      destruct (touch_ref _ _ _ V1 T1) as [Hxx [a [A1 [A2 A3]]]].
      destruct (touch_ref _ _ _ V2 T2) as [_ [b [B1 [B2 B3]]]].
      rewrite graph_task by auto. cbn [setch children]. apply In_outs. rewrite <- A2, <- B2.
      apply edge_in_EN; auto. apply T_complete; auto. rewrite A3, B3. exact R.
    - intros x t k Ht Tt Hk. rewrite graph_length in Ht. destruct (num_decode t Ht) as [[i s] [V <-]].
      rewrite graph_touches in Tt by auto. destruct (touch_ref _ _ _ V Tt) as [Hxx _].
      assert (Q : exists sk, sk < 18 /\ negslot sk = false /\ slotrank sk = k).
      { do 6 (destruct k as [|k];
          [ first [ exists 0; repeat split; (reflexivity || lia) | exists 7; repeat split; (reflexivity || lia)
                  | exists 8; repeat split; (reflexivity || lia) | exists 9; repeat split; (reflexivity || lia)
                  | exists 16; repeat split; (reflexivity || lia) | exists 17; repeat split; (reflexivity || lia) ] | ]).
        lia. }
      destruct Q as [sk [Q1 [Q2 Q3]]].
      assert (P : present x sk = true) by (rewrite present_spec by auto; rewrite Q2; reflexivity).
      assert (Vk : valid (x, sk)) by (split; auto).
      exists (num (x, sk)). split. rewrite graph_length. apply num_lt; auto.
      split. rewrite graph_touches by auto. rewrite slot_touches by auto. left; reflexivity.
      rewrite graph_rk by auto. exact Q3.
  Qed.
End Gen.

(* every layout: any number (>= 1) of subgrids per axis, every periodicity *)
Theorem make_graph_wf : forall Y, 1 <= lnx Y -> 1 <= lny Y -> 1 <= lnz Y -> wf (make_graph true Y).
Proof. intros. apply make_graph_wf_gen; auto. Qed.

Theorem make_graph_locks_exact : forall Y, 1 <= lnx Y -> 1 <= lny Y -> 1 <= lnz Y ->
  forall t, t < length (make_graph true Y) ->
    (forall x, In x (locks (tk (make_graph true Y) t)) <-> In x (touches (tk (make_graph true Y) t))) /\
    (other (tk (make_graph true Y) t) = Some (sub (tk (make_graph true Y) t)) ->
     locks (tk (make_graph true Y) t) = [sub (tk (make_graph true Y) t)]).
Proof. intros. apply make_graph_locks_exact_gen; auto. Qed.

(* closed form of the sequential numbering of make_hydro_tasks: base Y i = number of tasks of the subgrids before i,
   num Y (j, s) = base Y j + number of slots < s of subgrid j that hold a task; EN Y = the child edges *)
Theorem make_graph_numbering : forall Y, 1 <= lnx Y -> 1 <= lny Y -> 1 <= lnz Y ->
  length (make_graph true Y) = base Y (nsub Y) /\
  (forall t, t < length (make_graph true Y) -> exists j s, j < nsub Y /\ present Y j s = true /\ t = num Y (j, s)) /\
  (forall j s, j < nsub Y -> present Y j s = true ->
     num Y (j, s) < length (make_graph true Y) /\
     ht (make_slots true Y) j s = Some (num Y (j, s)) /\
     let t := tk (make_graph true Y) (num Y (j, s)) in
     nth s (slot_tasks true Y j) None = Some (setch t []) /\
     forall c, In c (children t) <-> In (num Y (j, s), c) (EN Y)).
Proof. exact make_graph_numbering_gen. Qed.

(* the face neighbours of create_subgrid are mutual and in range (d = 0 2 4: x+ y+ z+; d+1: the opposite face) *)
Theorem nb_mutual : forall Y, 1 <= lnx Y -> 1 <= lny Y -> 1 <= lnz Y ->
  forall i j d, i < nsub Y -> j < nsub Y -> In d [0; 2; 4] -> (nb Y i d = Some j <-> nb Y j (S d) = Some i).
Proof.
  intros Y Hx Hy Hz i j d Hi Hj Hd. split; intros H.
  - eapply nb_up_dn; eauto.
  - assert (D : In (S d) [1; 3; 5]) by (destruct Hd as [<-|[<-|[<-|[]]]]; simpl; auto).
    destruct (nb_dn_up Y Hy Hz j i (S d) Hj D H) as [_ B].
    replace (S d - 1) with d in B by lia. exact B.
Qed.

Theorem nb_in_range : forall Y, 1 <= lnx Y -> 1 <= lny Y -> 1 <= lnz Y ->
  forall i j d, i < nsub Y -> d < 6 -> nb Y i d = Some j -> j < nsub Y.
Proof.
  intros Y Hx Hy Hz i j d Hi Hd H.
  do 6 (destruct d as [|d]; [ first [ apply (nb_up_dn Y Hy Hz i j _ Hi) in H; [apply H | simpl; tauto]
                                    | apply (nb_dn_up Y Hy Hz i j _ Hi) in H; [apply H | simpl; tauto] ] | ]).
  lia.
Qed.

(* every layout: per subgrid, tasks of consecutive phases are linked by direct child edges, all six phases populated *)
Theorem make_graph_phases : forall Y, 1 <= lnx Y -> 1 <= lny Y -> 1 <= lnz Y -> phases_ordered (make_graph true Y).
Proof. intros. apply make_graph_phases_gen; auto. Qed.
