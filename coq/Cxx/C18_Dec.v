(* C18: types shared by the generated tables (C18_Gen.v) and the model (C18_Defs.v). *)
From Coq Require Import ZArith List.

(* exact decimal number  dm * 10^de  (how the data files and the C++ literals write numbers) *)
Record dec := D { dm : Z; de : Z }.

(* one data row of data/verner_A.dat: Z N n l E_th E_0 sigma_0 y_a P y_w *)
Record rowA := RA { ra_Z : nat; ra_N : nat; ra_n : nat; ra_l : nat;
                    ra_Eth : dec; ra_E0 : dec; ra_s0 : dec; ra_ya : dec; ra_P : dec; ra_yw : dec }.

(* one data row of data/verner_B.dat: Z N E_th E_max E_0 sigma_0 y_a P y_w y_0 y_1 *)
Record rowB := RB { rb_Z : nat; rb_N : nat; rb_Eth : dec; rb_Emax : dec; rb_E0 : dec; rb_s0 : dec;
                    rb_ya : dec; rb_P : dec; rb_yw : dec; rb_y0 : dec; rb_y1 : dec }.

(* one data row of data/verner_C.dat: N Ninn Ntot *)
Record rowC := RC { rc_N : nat; rc_Ninn : nat; rc_Ntot : nat }.
