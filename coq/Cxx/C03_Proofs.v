(* C03: lemmas about the direction tables (regenerated, Cxx/C03_Gen.v) and the wiring/copy model (Cxx/C03_Defs.v). *)
From Coq Require Import ZArith List Bool Lia Arith.
From CMI Require Import Cxx.C03_Defs Cxx.C03_Gen.
Import ListNotations.
Local Open Scope Z_scope.

(* ------------------------------------------------------------------------- *)
(* generic helpers *)

Lemma In_zrange : forall a n d, In d (zrange a n) <-> a <= d < a + Z.of_nat n.
Proof.
  intros a n d. unfold zrange. rewrite in_map_iff. split.
  - intros [k [Hk Hin]]. apply in_seq in Hin. lia.
  - intros H. exists (Z.to_nat (d - a)). split; [lia|]. apply in_seq. lia.
Qed.

Lemma forallb_zrange : forall f a n, forallb f (zrange a n) = true ->
  forall d, a <= d < a + Z.of_nat n -> f d = true.
Proof. intros f a n H d Hd. rewrite forallb_forall in H. apply H. apply In_zrange. exact Hd. Qed.

Lemma length_zrange : forall a n, length (zrange a n) = n.
Proof. intros. unfold zrange. rewrite map_length, seq_length. reflexivity. Qed.

Lemma nth_zrange : forall a n k d, (k < n)%nat -> nth k (zrange a n) d = a + Z.of_nat k.
Proof.
  intros a n k d H. unfold zrange.
  rewrite nth_indep with (d' := a + Z.of_nat 0) by (rewrite map_length, seq_length; exact H).
  change (a + Z.of_nat 0) with ((fun k => a + Z.of_nat k) 0%nat).
  rewrite map_nth. rewrite seq_nth by exact H. reflexivity.
Qed.

Lemma vec_eqb_eq : forall a b, vec_eqb a b = true <-> a = b.
Proof.
  intros [[a1 a2] a3] [[b1 b2] b3]. unfold vec_eqb. rewrite !andb_true_iff, !Z.eqb_eq. split.
  - intros [[H1 H2] H3]. subst. reflexivity.
  - intros H. inversion H. auto.
Qed.

Lemma is_offset_In : forall o, is_offset o <-> In o offsets.
Proof.
  intros [[x y] z]. split.
  - intros [Hx [Hy Hz]]. destruct Hx as [?|[?|?]], Hy as [?|[?|?]], Hz as [?|[?|?]]; subst; vm_compute; tauto.
  - intros H. vm_compute in H.
    repeat (destruct H as [H|H]; [inversion H; subst; unfold is_offset, is_trit; lia|]). contradiction.
Qed.

Lemma tnth_nth : forall t d, 0 <= d -> tnth t d = nth (Z.to_nat d) t (-1).
Proof. intros t d H. unfold tnth. destruct (Z.ltb_spec d 0); [lia|reflexivity]. Qed.

Lemma in_dirs_iff : forall d, in_dirs d = true <-> 0 <= d < 27.
Proof. intros d. unfold in_dirs, NDIR. rewrite andb_true_iff, Z.leb_le, Z.ltb_lt. tauto. Qed.

(* ------------------------------------------------------------------------- *)
(* layer 1: the spec itself is a bijection between 0..26 and {-1,0,1}^3 *)

Lemma dir_offset_dir : forall d, 0 <= d < 27 -> dir_of_offset (offset_of_dir d) = d.
Proof.
  intros d Hd.
  assert (H : forallb (fun d => dir_of_offset (offset_of_dir d) =? d) dirs = true) by (vm_compute; reflexivity).
  apply Z.eqb_eq. exact (forallb_zrange _ 0 27 H d Hd).
Qed.

Lemma offset_dir_offset : forall o, is_offset o ->
  0 <= dir_of_offset o < 27 /\ offset_of_dir (dir_of_offset o) = o.
Proof.
  intros o Ho. apply is_offset_In in Ho.
  assert (H : forallb (fun o => in_dirs (dir_of_offset o) && vec_eqb (offset_of_dir (dir_of_offset o)) o) offsets = true)
    by (vm_compute; reflexivity).
  rewrite forallb_forall in H. specialize (H o Ho). apply andb_true_iff in H. destruct H as [H1 H2].
  apply in_dirs_iff in H1. apply vec_eqb_eq in H2. tauto.
Qed.

Lemma offset_of_dir_is_offset : forall d, is_offset (offset_of_dir d).
Proof.
  intros d.
  destruct (Z.ltb_spec d 0) as [Hn|Hp].
  - destruct d; try lia. simpl. unfold is_trit. lia.
  - destruct (Z.ltb_spec d 27) as [Hlt|Hge].
    + assert (H : forallb (fun d => existsb (vec_eqb (offset_of_dir d)) offsets) dirs = true) by (vm_compute; reflexivity).
      pose proof (forallb_zrange _ 0 27 H d (conj Hp Hlt)) as H1. apply existsb_exists in H1.
      destruct H1 as [o [Hin Heq]]. apply vec_eqb_eq in Heq. rewrite Heq. apply is_offset_In. exact Hin.
    + assert (offset_of_dir d = (0, 0, 0)).
      { destruct d as [|p|p]; try lia.
        do 5 (destruct p as [p|p|]; try reflexivity; try lia). }
      rewrite H. unfold is_offset, is_trit. lia.
Qed.

Lemma vneg_is_offset : forall o, is_offset o -> is_offset (vneg o).
Proof. intros [[x y] z]. unfold is_offset, is_trit, vneg. lia. Qed.

Lemma vneg_involutive : forall o, vneg (vneg o) = o.
Proof. intros [[x y] z]. unfold vneg. f_equal; [f_equal|]; lia. Qed.

(* ------------------------------------------------------------------------- *)
(* layer 1: the regenerated tables against the spec *)

Lemma gen_constants : gen_ndir = NDIR /\ gen_outside = OUTSIDE.
Proof. split; vm_compute; reflexivity. Qed.

Lemma gen_named_ok : gen_named = named_table_spec.
Proof. vm_compute. reflexivity. Qed.

Lemma check_out_to_in_sound : forall t, check_out_to_in t = true ->
  forall d, 0 <= d < 27 ->
    0 <= tnth t d < 27 /\ offset_of_dir (tnth t d) = vneg (offset_of_dir d) /\ tnth t (tnth t d) = d.
Proof.
  intros t H d Hd. unfold check_out_to_in in H.
  pose proof (forallb_zrange _ 0 27 H d Hd) as H1. cbv beta zeta in H1.
  rewrite !andb_true_iff in H1. destruct H1 as [[H1 H2] H3].
  apply in_dirs_iff in H1. apply vec_eqb_eq in H2. apply Z.eqb_eq in H3. tauto.
Qed.

Lemma gen_out_to_in_checked : check_out_to_in gen_out_to_in = true.
Proof. vm_compute. reflexivity. Qed.

Lemma out_to_in_thm : forall d, 0 <= d < 27 ->
  0 <= tnth gen_out_to_in d < 27 /\ offset_of_dir (tnth gen_out_to_in d) = vneg (offset_of_dir d)
  /\ tnth gen_out_to_in (tnth gen_out_to_in d) = d.
Proof. exact (check_out_to_in_sound _ gen_out_to_in_checked). Qed.

Lemma check_mask_sound : forall t, check_mask t = true ->
  length t = 64%nat
  /\ (forall m, 0 <= m < 64 -> tnth t m = mask_decode m)
  /\ (forall m, 0 <= m < 64 -> (tnth t m = -1 <-> mask_inconsistent m = true))
  /\ (forall o, is_offset o -> tnth t (mask_encode o) = dir_of_offset o)
  /\ length (filter (fun v => v =? -1) t) = 37%nat.
Proof.
  intros t H. unfold check_mask in H. rewrite !andb_true_iff in H. destruct H as [[[H1 H2] H3] H4].
  apply Nat.eqb_eq in H1. apply Nat.eqb_eq in H4.
  split; [exact H1|]. split; [|split; [|split; [|exact H4]]].
  - intros m Hm. pose proof (forallb_zrange _ 0 64 H2 m Hm) as Hx. cbv beta in Hx.
    apply andb_true_iff in Hx. destruct Hx as [Hx _]. apply Z.eqb_eq in Hx. exact Hx.
  - intros m Hm. pose proof (forallb_zrange _ 0 64 H2 m Hm) as Hx. cbv beta in Hx.
    apply andb_true_iff in Hx. destruct Hx as [_ Hx]. apply eqb_prop in Hx. rewrite <- Hx. apply iff_sym, Z.eqb_eq.
  - intros o Ho. apply is_offset_In in Ho. rewrite forallb_forall in H3. specialize (H3 o Ho).
    apply Z.eqb_eq in H3. exact H3.
Qed.

Lemma gen_mask_checked : check_mask gen_mask = true.
Proof. vm_compute. reflexivity. Qed.

(* the spec side of the mask: decoding inverts the encoding, rejects exactly the masks with both bits of an axis set *)
Lemma mask_decode_encode : forall o, is_offset o -> mask_decode (mask_encode o) = dir_of_offset o.
Proof.
  intros o Ho. apply is_offset_In in Ho.
  assert (H : forallb (fun o => mask_decode (mask_encode o) =? dir_of_offset o) offsets = true) by (vm_compute; reflexivity).
  rewrite forallb_forall in H. apply Z.eqb_eq. exact (H o Ho).
Qed.

Lemma mask_decode_reject : forall m, 0 <= m < 64 -> (mask_decode m = -1 <-> mask_inconsistent m = true).
Proof.
  intros m Hm.
  assert (H : forallb (fun m => Bool.eqb (mask_decode m =? -1) (mask_inconsistent m)) (zrange 0 64) = true)
    by (vm_compute; reflexivity).
  pose proof (forallb_zrange _ 0 64 H m Hm) as Hx. cbv beta in Hx. apply eqb_prop in Hx. rewrite <- Hx.
  apply iff_sym, Z.eqb_eq.
Qed.

(* exit classification: mask arithmetic of DensitySubGrid::get_output_direction for ALL cell counts >= 1 *)
Lemma quot_high : forall n t, 1 <= n -> (0 <? Z.quot t n) = (n <=? t).
Proof.
  intros n t Hn. destruct (Z.leb_spec n t) as [H|H]; destruct (Z.ltb_spec 0 (Z.quot t n)) as [H0|H0]; try reflexivity; exfalso.
  - assert (Z.quot n n <= Z.quot t n) by (apply Z.quot_le_mono; lia).
    rewrite Z.quot_same in H1 by lia. lia.
  - destruct (Z.le_gt_cases 0 t).
    + rewrite Z.quot_small in H0 by lia. lia.
    + assert (Z.quot t n <= Z.quot 0 n) by (apply Z.quot_le_mono; lia).
      rewrite Z.quot_0_l in H2 by lia. lia.
Qed.

Lemma axis_cases : forall n t, 1 <= n ->
  ((t <? 0) = true /\ (n <=? t) = false /\ axis_class n t = -1) \/
  ((t <? 0) = false /\ (n <=? t) = false /\ axis_class n t = 0) \/
  ((t <? 0) = false /\ (n <=? t) = true /\ axis_class n t = 1).
Proof.
  intros n t Hn. unfold axis_class.
  destruct (Z.ltb_spec t 0); destruct (Z.leb_spec n t); try lia; auto.
Qed.

Lemma exit_dir_class : forall n1 n2 n3 i j k, 1 <= n1 -> 1 <= n2 -> 1 <= n3 ->
  exit_dir (n1, n2, n3) (i, j, k) = dir_of_offset (exit_class (n1, n2, n3) (i, j, k)).
Proof.
  intros n1 n2 n3 i j k H1 H2 H3. unfold exit_dir, mask_of, exit_class.
  rewrite !quot_high by assumption.
  destruct (axis_cases n1 i H1) as [[A1 [A2 A3]]|[[A1 [A2 A3]]|[A1 [A2 A3]]]];
  destruct (axis_cases n2 j H2) as [[B1 [B2 B3]]|[[B1 [B2 B3]]|[B1 [B2 B3]]]];
  destruct (axis_cases n3 k H3) as [[C1 [C2 C3]]|[[C1 [C2 C3]]|[C1 [C2 C3]]]];
  rewrite A1, A2, A3, B1, B2, B3, C1, C2, C3; vm_compute; reflexivity.
Qed.

Lemma exit_class_is_offset : forall nc ti, is_offset (exit_class nc ti).
Proof.
  intros [[n1 n2] n3] [[i j] k]. unfold exit_class, is_offset, is_trit, axis_class.
  destruct (i <? 0), (n1 <=? i), (j <? 0), (n2 <=? j), (k <? 0), (n3 <=? k); lia.
Qed.

Lemma check_exit_sound : forall t, check_exit t = true ->
  Forall (fun e => let '(n1, n2, n3, i, j, k, d) := e in
                   d = exit_dir (n1, n2, n3) (i, j, k) /\ d = dir_of_offset (exit_class (n1, n2, n3) (i, j, k))) t.
Proof.
  intros t H. unfold check_exit in H. rewrite forallb_forall in H. apply Forall_forall. intros e He.
  specialize (H e He). destruct e as [[[[[[n1 n2] n3] i] j] k] d].
  rewrite !andb_true_iff in H. destruct H as [[[H1 H2] H3] H4].
  apply Z.ltb_lt in H1, H2, H3. apply Z.eqb_eq in H4. split; [exact H4|].
  rewrite H4. apply exit_dir_class; lia.
Qed.

Lemma gen_exit_checked : check_exit gen_exit = true.
Proof. vm_compute. reflexivity. Qed.

Lemma gen_compat_ok : gen_compat = compat_table_spec.
Proof. vm_compute. reflexivity. Qed.

Lemma check_in_out_sound : forall t, check_in_out t = true ->
  forall d s, 0 <= d < 27 -> is_offset s -> in_compat_spec d s = out_compat_spec (tnth t d) s.
Proof.
  intros t H d s Hd Hs. unfold check_in_out in H.
  pose proof (forallb_zrange _ 0 27 H d Hd) as H1. cbv beta in H1.
  rewrite forallb_forall in H1. apply is_offset_In in Hs. specialize (H1 s Hs). apply eqb_prop in H1. exact H1.
Qed.

Lemma gen_in_out_checked : check_in_out gen_out_to_in = true.
Proof. vm_compute. reflexivity. Qed.

Lemma gen_entry_ok : gen_entry = entry_table_spec.
Proof. vm_compute. reflexivity. Qed.

Lemma check_handover_sound : forall t e, check_handover t e = true ->
  forall d n, 0 <= d < 27 -> In n [1; 3; 5] ->
    In (n, tnth t d, entry_index n (vneg (offset_of_dir d)), entry_repos (vneg (offset_of_dir d))) e.
Proof.
  intros t e H d n Hd Hn. unfold check_handover in H.
  pose proof (forallb_zrange _ 0 27 H d Hd) as H1. cbv beta in H1.
  rewrite forallb_forall in H1. specialize (H1 n Hn). apply existsb_exists in H1.
  destruct H1 as [[[[n' d'] ti] rp] [Hin Hx]]. rewrite !andb_true_iff in Hx. destruct Hx as [[[E1 E2] E3] E4].
  apply Z.eqb_eq in E1, E2. apply vec_eqb_eq in E3, E4. subst. exact Hin.
Qed.

Lemma gen_handover_checked : check_handover gen_out_to_in gen_entry = true.
Proof. vm_compute. reflexivity. Qed.

(* ------------------------------------------------------------------------- *)
(* layer 3: wiring of the original subgrids *)

Lemma upd_length : forall l k v, length (upd l k v) = length l.
Proof. induction l as [|x r IH]; intros [|k] v; simpl; auto. Qed.

Lemma nth_upd_same : forall l k v d, (k < length l)%nat -> nth k (upd l k v) d = v.
Proof. induction l as [|x r IH]; intros [|k] v d H; simpl in *; try lia; auto. apply IH. lia. Qed.

Lemma nth_upd_other : forall l k k' v d, k <> k' -> nth k' (upd l k v) d = nth k' l d.
Proof.
  induction l as [|x r IH]; intros [|k] [|k'] v d H; simpl; auto; try congruence.
Qed.

Lemma nth_repeat_lt : forall (x : Z) n k d, (k < n)%nat -> nth k (repeat x n) d = x.
Proof. induction n as [|n IH]; intros [|k] d H; simpl; try lia; auto. apply IH. lia. Qed.

Fixpoint nodupb (l : list nat) : bool :=
  match l with [] => true | x :: r => negb (existsb (Nat.eqb x) r) && nodupb r end.

Lemma nodupb_sound : forall l, nodupb l = true -> NoDup l.
Proof.
  induction l as [|x r IH]; intros H; [constructor|]. simpl in H. apply andb_true_iff in H. destruct H as [H1 H2].
  constructor; [|auto]. intros Hin. apply negb_true_iff in H1.
  assert (existsb (Nat.eqb x) r = true) by (apply existsb_exists; exists x; split; [exact Hin|apply Nat.eqb_refl]).
  congruence.
Qed.

Section FoldKeyed.
  Variable X : Type.
  Variable step : list Z -> X -> list Z.
  Variable key : X -> nat.
  Variable val : X -> option Z.
  Variable dom : X -> Prop.
  Hypothesis Hstep : forall arr o, dom o ->
    step arr o = match val o with Some v => upd arr (key o) v | None => arr end.

  Lemma step_length : forall arr o, dom o -> length (step arr o) = length arr.
  Proof. intros arr o Ho. rewrite Hstep by exact Ho. destruct (val o); [apply upd_length|reflexivity]. Qed.

  Lemma step_other : forall arr o k d, dom o -> key o <> k -> nth k (step arr o) d = nth k arr d.
  Proof. intros arr o k d Ho Hk. rewrite Hstep by exact Ho. destruct (val o); [apply nth_upd_other; exact Hk|reflexivity]. Qed.

  Lemma fold_keyed_length : forall os arr, (forall o, In o os -> dom o) -> length (fold_left step os arr) = length arr.
  Proof.
    induction os as [|o r IH]; intros arr Hd; simpl; [reflexivity|].
    rewrite IH by (intros; apply Hd; right; assumption). apply step_length. apply Hd. left. reflexivity.
  Qed.

  Lemma fold_keyed_other : forall os arr k d, (forall o, In o os -> dom o) -> (forall o, In o os -> key o <> k) ->
    nth k (fold_left step os arr) d = nth k arr d.
  Proof.
    induction os as [|o r IH]; intros arr k d Hd Hk; simpl; [reflexivity|].
    rewrite IH; [|intros; apply Hd; right; assumption|intros; apply Hk; right; assumption].
    apply step_other; [apply Hd|apply Hk]; left; reflexivity.
  Qed.

  Lemma fold_keyed_nth : forall os arr d, (forall o, In o os -> dom o) -> NoDup (map key os) ->
    (forall o, In o os -> (key o < length arr)%nat) ->
    forall o, In o os ->
      nth (key o) (fold_left step os arr) d = match val o with Some v => v | None => nth (key o) arr d end.
  Proof.
    induction os as [|o1 r IH]; intros arr d Hd Hnd Hlen o Hin; [contradiction|].
    simpl. inversion Hnd as [|? ? Hnot Hnd']; subst.
    assert (Hd1 : dom o1) by (apply Hd; left; reflexivity).
    assert (Hdr : forall o, In o r -> dom o) by (intros; apply Hd; right; assumption).
    destruct Hin as [Heq|Hin].
    - subst o1. rewrite fold_keyed_other; [|exact Hdr|].
      + rewrite Hstep by exact Hd1. destruct (val o); [|reflexivity].
        apply nth_upd_same. apply Hlen. left. reflexivity.
      + intros o' Ho' Hk. apply Hnot. rewrite <- Hk. apply in_map. exact Ho'.
    - rewrite IH; [|exact Hdr|exact Hnd'| |exact Hin].
      + destruct (val o); [reflexivity|]. apply step_other; [exact Hd1|].
        intros Hk. apply Hnot. rewrite Hk. apply in_map. exact Hin.
      + intros o' Ho'. rewrite step_length by exact Hd1. apply Hlen. right. exact Ho'.
  Qed.
End FoldKeyed.

Definition coords_ok (L : layout) (c : vec) : Prop :=
  let '(x, y, z) := c in 0 <= x < nx L /\ 0 <= y < ny L /\ 0 <= z < nz L.

Lemma lin_range : forall L c, wfL L -> coords_ok L c -> 0 <= lin L c < nsub L.
Proof.
  intros L [[x y] z] HL [Hx [Hy Hz]]. unfold wfL in HL. unfold lin, nsub.
  assert (0 <= ny L * nz L) by nia.
  assert (x * (ny L * nz L) <= (nx L - 1) * (ny L * nz L)) by (apply Z.mul_le_mono_nonneg_r; lia).
  assert (y * nz L <= (ny L - 1) * nz L) by (apply Z.mul_le_mono_nonneg_r; lia).
  assert (0 <= x * (ny L * nz L)) by nia.
  assert (0 <= y * nz L) by nia.
  nia.
Qed.

Lemma pos_of_index_ok : forall L idx, wfL L -> 0 <= idx < nsub L ->
  coords_ok L (pos_of_index L idx) /\ lin L (pos_of_index L idx) = idx.
Proof.
  intros L idx HL Hidx. unfold wfL in HL. unfold nsub in Hidx. unfold pos_of_index, coords_ok, lin.
  set (m := ny L * nz L). assert (Hm : 0 < m) by (unfold m; nia).
  set (ix := idx / m).
  pose proof (Z.div_mod idx m ltac:(lia)) as E1. fold ix in E1.
  pose proof (Z.mod_pos_bound idx m Hm) as B1.
  assert (Hix0 : 0 <= ix) by (apply Z.div_pos; lia).
  assert (Hix1 : ix < nx L) by (apply Z.div_lt_upper_bound; [lia|unfold m; nia]).
  assert (Er : idx - ix * ny L * nz L = idx mod m) by (unfold m in *; nia).
  rewrite Er. set (r := idx mod m) in *.
  set (iy := r / nz L).
  pose proof (Z.div_mod r (nz L) ltac:(lia)) as E2. fold iy in E2.
  pose proof (Z.mod_pos_bound r (nz L) ltac:(lia)) as B2.
  assert (Hiy0 : 0 <= iy) by (apply Z.div_pos; lia).
  assert (Hiy1 : iy < ny L) by (apply Z.div_lt_upper_bound; [lia|unfold m in B1; nia]).
  split; [|unfold m in *; nia]. repeat split; try lia.
Qed.

Lemma pos_lin : forall L c, wfL L -> coords_ok L c -> pos_of_index L (lin L c) = c.
Proof.
  intros L [[x y] z] HL [Hx [Hy Hz]]. unfold wfL in HL. unfold pos_of_index, lin.
  set (m := ny L * nz L). assert (Hm : 0 < m) by (unfold m; nia).
  assert (Hr : 0 <= y * nz L + z < m).
  { unfold m. assert (y * nz L <= (ny L - 1) * nz L) by (apply Z.mul_le_mono_nonneg_r; lia). nia. }
  assert (E1 : (x * ny L * nz L + y * nz L + z) / m = x).
  { symmetry. apply Z.div_unique with (r := y * nz L + z); [left; exact Hr|unfold m; ring]. }
  rewrite E1.
  assert (E2 : x * ny L * nz L + y * nz L + z - x * ny L * nz L = y * nz L + z) by ring.
  rewrite E2.
  assert (E3 : (y * nz L + z) / nz L = y).
  { symmetry. apply Z.div_unique with (r := z); [left; lia|ring]. }
  rewrite E3. replace (y * nz L + z - y * nz L) with z by ring. reflexivity.
Qed.

Lemma u32_small : forall v, 0 <= v < OUTSIDE -> u32 v = v.
Proof. intros v H. unfold u32, W32. apply Z.mod_small. unfold OUTSIDE in H. lia. Qed.

Lemma u32_OUTSIDE : u32 OUTSIDE = OUTSIDE.
Proof. vm_compute. reflexivity. Qed.

Lemma wrap_mod : forall p n i o, 1 <= n -> 0 <= i < n -> is_trit o -> wrap p n (i + o) = wrapm p n (i + o).
Proof.
  intros p n i o Hn Hi Ho. unfold wrap, wrapm. destruct p; [|reflexivity].
  destruct (Z.ltb_spec (i + o) 0) as [H1|H1].
  - assert (i + o = -1) by (unfold is_trit in Ho; lia).
    destruct (Z.leb_spec n (n - 1)); [lia|]. rewrite H.
    apply Z.mod_unique with (q := -1); [left; lia|lia].
  - destruct (Z.leb_spec n (i + o)) as [H2|H2].
    + assert (i + o = n) by (unfold is_trit in Ho; lia). rewrite H. rewrite Z.mod_same by lia. reflexivity.
    + symmetry. apply Z.mod_small. lia.
Qed.

Lemma axis_class_mul : forall c o, 1 <= c -> is_trit o -> axis_class c (o * c) = o.
Proof.
  intros c o Hc [H|[H|H]]; subst; unfold axis_class.
  - destruct (Z.ltb_spec (-1 * c) 0); [reflexivity|lia].
  - simpl. destruct (Z.leb_spec c 0); [lia|reflexivity].
  - destruct (Z.ltb_spec (1 * c) 0); [lia|]. destruct (Z.leb_spec c (1 * c)); [reflexivity|lia].
Qed.

(* what one loop iteration stores, if anything *)
Definition val_c (L : layout) (A o : vec) : option Z :=
  let '(ix, iy, iz) := A in let '(ox, oy, oz) := o in
  let c1 := wrap (px L) (nx L) (ix + ox) in
  let c2 := wrap (py L) (ny L) (iy + oy) in
  let c3 := wrap (pz L) (nz L) (iz + oz) in
  if in_rng (nx L) c1 && in_rng (ny L) c2 && in_rng (nz L) c3 then Some (u32 (lin L (c1, c2, c3))) else None.

Definition key_c (o : vec) : nat := Z.to_nat (dir_of_offset o).

Lemma create_step_eq : forall L A arr o, wfL L -> is_offset o ->
  create_step L A arr o = match val_c L A o with Some v => upd arr (key_c o) v | None => arr end.
Proof.
  intros L [[ix iy] iz] arr [[ox oy] oz] HL Ho. unfold create_step, val_c, key_c.
  destruct (in_rng (nx L) (wrap (px L) (nx L) (ix + ox)) && in_rng (ny L) (wrap (py L) (ny L) (iy + oy)) &&
            in_rng (nz L) (wrap (pz L) (nz L) (iz + oz))); [|reflexivity].
  unfold wfL in HL. destruct Ho as [Hx [Hy Hz]].
  rewrite exit_dir_class by lia. unfold exit_class.
  rewrite !axis_class_mul by (try assumption; lia).
  pose proof (offset_dir_offset (ox, oy, oz) (conj Hx (conj Hy Hz))) as [Hr _].
  destruct (Z.ltb_spec (dir_of_offset (ox, oy, oz)) 0); [lia|reflexivity].
Qed.

Lemma key_c_nodup : NoDup (map key_c offsets).
Proof. apply nodupb_sound. vm_compute. reflexivity. Qed.

Lemma create_ngbs_length : forall L idx, wfL L -> length (create_ngbs L idx) = 27%nat.
Proof.
  intros L idx HL. unfold create_ngbs.
  rewrite fold_keyed_length with (key := key_c) (val := val_c L (pos_of_index L idx)) (dom := is_offset).
  - apply repeat_length.
  - intros arr o Ho. apply create_step_eq; assumption.
  - intros o Ho. apply is_offset_In. exact Ho.
Qed.

Lemma create_ngbs_slot : forall L idx o, wfL L -> is_offset o ->
  subgrid_ngb L idx (dir_of_offset o) =
  match val_c L (pos_of_index L idx) o with Some v => v | None => OUTSIDE end.
Proof.
  intros L idx o HL Ho. unfold subgrid_ngb.
  pose proof (offset_dir_offset o Ho) as [Hr _].
  rewrite tnth_nth by lia. unfold create_ngbs. fold (key_c o).
  rewrite fold_keyed_nth with (key := key_c) (val := val_c L (pos_of_index L idx)) (dom := is_offset).
  - destruct (val_c L (pos_of_index L idx) o); [reflexivity|].
    apply nth_repeat_lt. unfold key_c. lia.
  - intros arr o' Ho'. apply create_step_eq; assumption.
  - intros o' Ho'. apply is_offset_In. exact Ho'.
  - exact key_c_nodup.
  - intros o' Ho'. rewrite repeat_length. apply is_offset_In in Ho'.
    pose proof (offset_dir_offset o' Ho') as [Hr' _]. unfold key_c. lia.
  - apply is_offset_In. exact Ho.
Qed.

Lemma in_rng_iff : forall n c, in_rng n c = true <-> 0 <= c < n.
Proof. intros. unfold in_rng. rewrite andb_true_iff, Z.leb_le, Z.ltb_lt. tauto. Qed.

Lemma val_c_spec : forall L A o, wfL L -> coords_ok L A -> is_offset o ->
  match val_c L A o with Some v => v | None => OUTSIDE end = ngb_spec L A o.
Proof.
  intros L [[ix iy] iz] [[ox oy] oz] HL [Hx [Hy Hz]] [Ox [Oy Oz]]. unfold val_c, ngb_spec.
  pose proof HL as HL'. unfold wfL in HL'.
  rewrite !wrap_mod by (try assumption; lia).
  destruct (in_rng (nx L) (wrapm (px L) (nx L) (ix + ox))) eqn:E1; cbn [andb]; [|reflexivity].
  destruct (in_rng (ny L) (wrapm (py L) (ny L) (iy + oy))) eqn:E2; cbn [andb]; [|reflexivity].
  destruct (in_rng (nz L) (wrapm (pz L) (nz L) (iz + oz))) eqn:E3; cbn [andb]; [|reflexivity].
  apply in_rng_iff in E1, E2, E3.
  apply u32_small.
  pose proof (lin_range L (wrapm (px L) (nx L) (ix + ox), wrapm (py L) (ny L) (iy + oy), wrapm (pz L) (nz L) (iz + oz)) HL
                (conj E1 (conj E2 E3))). lia.
Qed.

(* slot d of original subgrid idx holds the lattice neighbour in the direction spelled by d *)
Lemma subgrid_ngb_spec : forall L idx d, wfL L -> 0 <= idx < nsub L -> 0 <= d < 27 ->
  subgrid_ngb L idx d = ngb_spec L (pos_of_index L idx) (offset_of_dir d).
Proof.
  intros L idx d HL Hidx Hd.
  rewrite <- (dir_offset_dir d Hd) at 1.
  rewrite create_ngbs_slot by (try assumption; apply offset_of_dir_is_offset).
  apply val_c_spec; [assumption| |apply offset_of_dir_is_offset].
  apply pos_of_index_ok; assumption.
Qed.

Lemma in_rng_wrapm : forall p n c, 1 <= n -> in_rng n (wrapm p n c) = negb (ends1 p n c).
Proof.
  intros p n c Hn. unfold wrapm, ends1. destruct p; simpl.
  - apply in_rng_iff. apply Z.mod_pos_bound. lia.
  - rewrite negb_involutive. reflexivity.
Qed.

Lemma ngb_spec_cases : forall L A o, wfL L ->
  (box_ends L A o = true /\ ngb_spec L A o = OUTSIDE) \/
  (box_ends L A o = false /\
   let '(ix, iy, iz) := A in let '(ox, oy, oz) := o in
   let c := (wrapm (px L) (nx L) (ix + ox), wrapm (py L) (ny L) (iy + oy), wrapm (pz L) (nz L) (iz + oz)) in
   coords_ok L c /\ ngb_spec L A o = lin L c /\ 0 <= lin L c < nsub L).
Proof.
  intros L [[ix iy] iz] [[ox oy] oz] HL. pose proof HL as HL'. unfold wfL in HL'.
  unfold box_ends, ngb_spec. rewrite !in_rng_wrapm by lia.
  destruct (ends1 (px L) (nx L) (ix + ox)) eqn:E1; cbn [orb andb negb]; [left; auto|].
  destruct (ends1 (py L) (ny L) (iy + oy)) eqn:E2; cbn [orb andb negb]; [left; auto|].
  destruct (ends1 (pz L) (nz L) (iz + oz)) eqn:E3; cbn [orb andb negb]; [left; auto|].
  right. split; [reflexivity|].
  assert (C : coords_ok L (wrapm (px L) (nx L) (ix + ox), wrapm (py L) (ny L) (iy + oy), wrapm (pz L) (nz L) (iz + oz))).
  { unfold coords_ok. rewrite <- !in_rng_iff. rewrite !in_rng_wrapm by lia. rewrite E1, E2, E3. auto. }
  split; [exact C|]. split; [reflexivity|]. apply lin_range; assumption.
Qed.

Lemma wrapm_back : forall p n i o, 1 <= n -> 0 <= i < n -> ends1 p n (i + o) = false ->
  wrapm p n (wrapm p n (i + o) - o) = i /\ ends1 p n (wrapm p n (i + o) - o) = false.
Proof.
  intros p n i o Hn Hi He. unfold wrapm, ends1 in *. destruct p; simpl in *.
  - split; [|reflexivity]. rewrite Zminus_mod_idemp_l. replace (i + o - o) with i by ring. apply Z.mod_small. lia.
  - replace (i + o - o) with i by ring. split; [reflexivity|].
    apply negb_false_iff. apply in_rng_iff. lia.
Qed.

(* mutual wiring at the level of lattice positions *)
Lemma ngb_spec_mutual : forall L A o, wfL L -> coords_ok L A -> ngb_spec L A o <> OUTSIDE ->
  0 <= ngb_spec L A o < nsub L /\ ngb_spec L (pos_of_index L (ngb_spec L A o)) (vneg o) = lin L A.
Proof.
  intros L A o HL HA Hne. pose proof HL as HL'. unfold wfL in HL'.
  destruct (ngb_spec_cases L A o HL) as [[_ H]|[Hb H]]; [congruence|].
  destruct A as [[ix iy] iz], o as [[ox oy] oz]. cbv zeta in H. destruct H as [C [E R]].
  split; [rewrite E; exact R|]. rewrite E. rewrite pos_lin by assumption.
  destruct HA as [Hx [Hy Hz]].
  unfold box_ends in Hb. apply orb_false_iff in Hb. destruct Hb as [Hb B3]. apply orb_false_iff in Hb. destruct Hb as [B1 B2].
  destruct (wrapm_back (px L) (nx L) ix ox ltac:(lia) Hx B1) as [W1 F1].
  destruct (wrapm_back (py L) (ny L) iy oy ltac:(lia) Hy B2) as [W2 F2].
  destruct (wrapm_back (pz L) (nz L) iz oz ltac:(lia) Hz B3) as [W3 F3].
  unfold vneg, ngb_spec. rewrite !Z.add_opp_r. rewrite !in_rng_wrapm by lia.
  rewrite F1, F2, F3, W1, W2, W3. reflexivity.
Qed.

(* the two statements about the real slot arrays *)
Lemma wiring_lattice_thm : forall L idx d, wfL L -> 0 <= idx < nsub L -> 0 <= d < 27 ->
  let A := pos_of_index L idx in let o := offset_of_dir d in
  coords_ok L A /\ lin L A = idx /\
  subgrid_ngb L idx d = ngb_spec L A o /\
  (subgrid_ngb L idx d = OUTSIDE <-> box_ends L A o = true) /\
  (subgrid_ngb L idx d <> OUTSIDE -> 0 <= subgrid_ngb L idx d < nsub L).
Proof.
  intros L idx d HL Hidx Hd A o.
  destruct (pos_of_index_ok L idx HL Hidx) as [HA Hlin].
  pose proof (subgrid_ngb_spec L idx d HL Hidx Hd) as Hs. fold A o in Hs.
  split; [exact HA|]. split; [exact Hlin|]. split; [exact Hs|]. rewrite Hs.
  pose proof HL as HL'. unfold wfL in HL'.
  destruct (ngb_spec_cases L A o HL) as [[Hb H]|[Hb H]].
  - split; [tauto|]. intros; congruence.
  - destruct A as [[ix iy] iz], o as [[ox oy] oz]. cbv zeta in H. destruct H as [C [E R]]. rewrite E.
    split; [split; [intros; lia|intros; congruence]|intros; exact R].
Qed.

Lemma wiring_mutual_thm : forall L idx d, wfL L -> 0 <= idx < nsub L -> 0 <= d < 27 ->
  subgrid_ngb L idx d <> OUTSIDE ->
  0 <= subgrid_ngb L idx d < nsub L /\
  subgrid_ngb L (subgrid_ngb L idx d) (tnth gen_out_to_in d) = idx.
Proof.
  intros L idx d HL Hidx Hd Hne.
  destruct (pos_of_index_ok L idx HL Hidx) as [HA Hlin].
  rewrite (subgrid_ngb_spec L idx d HL Hidx Hd) in *.
  destruct (ngb_spec_mutual L _ _ HL HA Hne) as [R M].
  split; [exact R|].
  destruct (out_to_in_thm d Hd) as [Hr [Hoff _]].
  rewrite subgrid_ngb_spec by assumption. rewrite Hoff, M. exact Hlin.
Qed.

(* ------------------------------------------------------------------------- *)
(* layer 3: copies -- layout of the appended blocks *)

(* number of copies appended before those of the j-th original *)
Fixpoint startn (lvs : list Z) (j : nat) : nat :=
  match j, lvs with
  | S j', l :: r => (cnt l + startn r j')%nat
  | _, _ => 0%nat
  end.

Definition tot (lvs : list Z) : nat := fold_right (fun l a => (cnt l + a)%nat) 0%nat lvs.

Lemma krange_length : forall l, length (krange l) = cnt l.
Proof. intros. unfold krange. rewrite map_length, seq_length. reflexivity. Qed.

Lemma krange_nth : forall l k d, (k < cnt l)%nat -> nth k (krange l) d = 1 + Z.of_nat k.
Proof.
  intros l k d H. unfold krange.
  rewrite nth_indep with (d' := 1 + Z.of_nat 0) by (rewrite map_length, seq_length; exact H).
  change (1 + Z.of_nat 0) with ((fun k => 1 + Z.of_nat k) 0%nat).
  rewrite map_nth, seq_nth by exact H. reflexivity.
Qed.

Lemma map_const_krange : forall (i : Z) l, map (fun _ => i) (krange l) = repeat i (cnt l).
Proof.
  intros i l. unfold krange. rewrite map_map. generalize (cnt l) as n. intros n. generalize 0%nat as a.
  induction n as [|n IH]; intros a; simpl; [reflexivity|]. rewrite IH. reflexivity.
Qed.

Lemma cnt_pos_iff : forall l, (0 < cnt l)%nat <-> (1 <? 2 ^ l) = true.
Proof. intros l. unfold cnt. rewrite Z.ltb_lt. lia. Qed.

Lemma cnt_val : forall l, 0 <= l -> Z.of_nat (cnt l) = 2 ^ l - 1.
Proof. intros l Hl. unfold cnt. assert (0 < 2 ^ l) by (apply Z.pow_pos_nonneg; lia). lia. Qed.

Lemma blocks_length : forall A (g : Z -> Z -> A) lvs i, length (blocks g lvs i) = tot lvs.
Proof.
  induction lvs as [|l r IH]; intros i; simpl; [reflexivity|].
  rewrite app_length, map_length, krange_length, IH. reflexivity.
Qed.

Lemma startn_bound : forall lvs j, (j < length lvs)%nat -> (startn lvs j + cnt (nth j lvs 0%Z) <= tot lvs)%nat.
Proof.
  induction lvs as [|l r IH]; intros j Hj; simpl in Hj; [lia|].
  destruct j as [|j]; simpl; [lia|]. specialize (IH j ltac:(lia)). lia.
Qed.

Lemma blocks_nth : forall A (g : Z -> Z -> A) lvs i0 j k d, (j < length lvs)%nat -> (k < cnt (nth j lvs 0%Z))%nat ->
  nth (startn lvs j + k) (blocks g lvs i0) d = g (i0 + Z.of_nat j) (1 + Z.of_nat k).
Proof.
  induction lvs as [|l r IH]; intros i0 j k d Hj Hk; simpl in Hj; [lia|].
  destruct j as [|j]; simpl in *.
  - rewrite app_nth1 by (rewrite map_length, krange_length; exact Hk).
    rewrite nth_indep with (d' := g i0 0) by (rewrite map_length, krange_length; exact Hk).
    rewrite map_nth, krange_nth by exact Hk. rewrite Z.add_0_r. reflexivity.
  - rewrite app_nth2 by (rewrite map_length, krange_length; lia).
    rewrite map_length, krange_length.
    replace (cnt l + startn r j + k - cnt l)%nat with (startn r j + k)%nat by lia.
    rewrite IH by (try assumption; lia). f_equal. lia.
Qed.

Lemma blocks_cover : forall A (g : Z -> Z -> A) lvs i0 p, (p < length (blocks g lvs i0))%nat ->
  exists j k, (j < length lvs)%nat /\ (k < cnt (nth j lvs 0%Z))%nat /\ p = (startn lvs j + k)%nat.
Proof.
  induction lvs as [|l r IH]; intros i0 p Hp; simpl in Hp; [lia|].
  rewrite app_length, map_length, krange_length in Hp.
  destruct (lt_dec p (cnt l)) as [H|H].
  - exists 0%nat, p. simpl. repeat split; [lia|exact H].
  - destruct (IH (i0 + 1) (p - cnt l)%nat ltac:(lia)) as [j [k [Hj [Hk Hpk]]]].
    exists (S j), k. simpl. repeat split; [lia|exact Hk|lia].
Qed.

Lemma loop1_snd : forall lvs i s, snd (loop1 lvs i s) = blocks (fun i _ => i) lvs i.
Proof.
  induction lvs as [|l r IH]; intros i s; simpl; [reflexivity|].
  specialize (IH (i + 1) (s + Z.of_nat (cnt l))). destruct (loop1 r (i + 1) (s + Z.of_nat (cnt l))) as [cs os].
  simpl in *. rewrite IH, map_const_krange. reflexivity.
Qed.

Lemma loop1_fst_length : forall lvs i s, length (fst (loop1 lvs i s)) = length lvs.
Proof.
  induction lvs as [|l r IH]; intros i s; simpl; [reflexivity|].
  specialize (IH (i + 1) (s + Z.of_nat (cnt l))). destruct (loop1 r (i + 1) (s + Z.of_nat (cnt l))) as [cs os].
  simpl in *. rewrite IH. reflexivity.
Qed.

Lemma loop1_fst : forall lvs i s j, (j < length lvs)%nat ->
  nth j (fst (loop1 lvs i s)) SENT = if 1 <? 2 ^ (nth j lvs 0) then s + Z.of_nat (startn lvs j) else SENT.
Proof.
  induction lvs as [|l r IH]; intros i s j Hj; simpl in Hj; [lia|].
  simpl. specialize (IH (i + 1) (s + Z.of_nat (cnt l))).
  destruct (loop1 r (i + 1) (s + Z.of_nat (cnt l))) as [cs os]. simpl in *.
  destruct j as [|j]; simpl.
  - rewrite Z.add_0_r. reflexivity.
  - rewrite IH by lia. destruct (1 <? 2 ^ nth j r 0); [lia|reflexivity].
Qed.

(* ------------------------------------------------------------------------- *)
(* the copy of index N + startn i + k *)

Lemma originals_blocks : forall L lv, originals L lv = blocks (fun i _ => i) lv 0.
Proof. intros. unfold originals. apply loop1_snd. Qed.

Lemma total_tot : forall L lv, total L lv = nsub L + Z.of_nat (tot lv).
Proof. intros. unfold total. rewrite originals_blocks, blocks_length. reflexivity. Qed.

Lemma lvl_nth : forall lv i, lvl lv i = nth (Z.to_nat i) lv 0.
Proof. reflexivity. Qed.

Lemma wf_len : forall L lv, wf L lv -> length lv = Z.to_nat (nsub L).
Proof. intros L lv [_ [H _]]. lia. Qed.

Lemma wf_lvl : forall L lv i, wf L lv -> 0 <= i < nsub L -> 0 <= lvl lv i <= 30.
Proof.
  intros L lv i [_ [Hlen [Hf _]]] Hi. unfold lvl. rewrite Forall_forall in Hf. apply Hf. apply nth_In. lia.
Qed.

Lemma first_copy_val : forall L lv i, wf L lv -> 0 <= i < nsub L -> (0 < cnt (lvl lv i))%nat ->
  first_copy L lv i = nsub L + Z.of_nat (startn lv (Z.to_nat i)).
Proof.
  intros L lv i Hwf Hi Hc. unfold first_copy, copies_arr.
  rewrite loop1_fst by (rewrite (wf_len L lv Hwf); lia).
  apply cnt_pos_iff in Hc. unfold lvl in Hc. rewrite Hc. reflexivity.
Qed.

Lemma first_copy_none : forall L lv i, wf L lv -> 0 <= i < nsub L -> cnt (lvl lv i) = 0%nat ->
  first_copy L lv i = SENT.
Proof.
  intros L lv i Hwf Hi Hc. unfold first_copy, copies_arr.
  rewrite loop1_fst by (rewrite (wf_len L lv Hwf); lia).
  destruct (1 <? 2 ^ nth (Z.to_nat i) lv 0) eqn:E; [|reflexivity].
  apply cnt_pos_iff in E. unfold lvl in Hc. lia.
Qed.

Definition copy_index (L : layout) (lv : list Z) (i : Z) (k : nat) : Z :=
  nsub L + Z.of_nat (startn lv (Z.to_nat i)) + Z.of_nat k.

Lemma copy_index_facts : forall L lv i k, wf L lv -> 0 <= i < nsub L -> (k < cnt (lvl lv i))%nat ->
  nsub L <= copy_index L lv i k < total L lv /\
  original_of L lv (copy_index L lv i k) = i /\
  nth (Z.to_nat (copy_index L lv i k - nsub L)) (copy_ngbs L lv) [] = copy_array L lv i (1 + Z.of_nat k).
Proof.
  intros L lv i k Hwf Hi Hk. pose proof (wf_len L lv Hwf) as Hlen.
  assert (Hj : (Z.to_nat i < length lv)%nat) by lia.
  pose proof (startn_bound lv (Z.to_nat i) Hj) as Hb. unfold lvl in Hk.
  unfold copy_index. rewrite total_tot. split; [lia|].
  replace (Z.to_nat (nsub L + Z.of_nat (startn lv (Z.to_nat i)) + Z.of_nat k - nsub L)) with (startn lv (Z.to_nat i) + k)%nat by lia.
  split.
  - unfold original_of. destruct (Z.ltb_spec (nsub L + Z.of_nat (startn lv (Z.to_nat i)) + Z.of_nat k) (nsub L)); [lia|].
    replace (Z.to_nat (nsub L + Z.of_nat (startn lv (Z.to_nat i)) + Z.of_nat k - nsub L)) with (startn lv (Z.to_nat i) + k)%nat by lia.
    rewrite originals_blocks, blocks_nth by assumption. lia.
  - unfold copy_ngbs. rewrite blocks_nth by assumption. f_equal. lia.
Qed.

Lemma copy_cover : forall L lv c, wf L lv -> nsub L <= c < total L lv ->
  exists i k, 0 <= i < nsub L /\ (k < cnt (lvl lv i))%nat /\ c = copy_index L lv i k.
Proof.
  intros L lv c Hwf Hc. pose proof (wf_len L lv Hwf) as Hlen. rewrite total_tot in Hc.
  destruct (blocks_cover Z (fun i _ => i) lv 0 (Z.to_nat (c - nsub L))) as [j [k [Hj [Hk Hp]]]].
  { rewrite blocks_length. lia. }
  exists (Z.of_nat j), k. unfold lvl, copy_index. rewrite Nat2Z.id. repeat split; try lia; try exact Hk.
Qed.

Lemma original_of_orig : forall L lv s, s < nsub L -> original_of L lv s = s.
Proof. intros L lv s H. unfold original_of. destruct (Z.ltb_spec s (nsub L)); [reflexivity|lia]. Qed.

Lemma total_ge : forall L lv, nsub L <= total L lv.
Proof. intros. unfold total. lia. Qed.

(* ------------------------------------------------------------------------- *)
(* neighbour slots of copies *)

Lemma pow2_ge1 : forall l, 0 <= l -> 1 <= 2 ^ l.
Proof. intros l Hl. assert (0 < 2 ^ l) by (apply Z.pow_pos_nonneg; lia). lia. Qed.

Lemma pow2_ge2 : forall l, 1 <= l -> 2 <= 2 ^ l.
Proof. intros l Hl. change 2 with (2 ^ 1) at 1. apply Z.pow_le_mono_r; lia. Qed.

Lemma pow2_split : forall a b, 0 <= a -> 0 <= b -> 2 ^ (a + b) = 2 ^ a * 2 ^ b.
Proof. intros. apply Z.pow_add_r; lia. Qed.

(* a value that is "copy number q (1-based, 0 = the original itself) of original on" *)
Lemma copy_or_orig : forall L lv on q, wf L lv -> 0 <= on < nsub L -> 0 <= q < 2 ^ lvl lv on ->
  let v := if 0 <? q then first_copy L lv on + q - 1 else on in
  0 <= v < total L lv /\ original_of L lv v = on.
Proof.
  intros L lv on q Hwf Hon Hq. pose proof (wf_lvl L lv on Hwf Hon) as Hl. cbv zeta.
  destruct (Z.ltb_spec 0 q) as [Hq0|Hq0].
  - assert (Hk : (Z.to_nat (q - 1) < cnt (lvl lv on))%nat).
    { apply Nat2Z.inj_lt. rewrite cnt_val by lia. lia. }
    destruct (copy_index_facts L lv on (Z.to_nat (q - 1)) Hwf Hon Hk) as [R [O _]].
    rewrite first_copy_val by (try assumption; lia).
    replace (nsub L + Z.of_nat (startn lv (Z.to_nat on)) + q - 1) with (copy_index L lv on (Z.to_nat (q - 1)))
      by (unfold copy_index; lia).
    split; [lia|exact O].
  - pose proof (total_ge L lv). split; [lia|]. apply original_of_orig. lia.
Qed.

Lemma copy_slot_thm : forall L lv i k d, wf L lv -> 0 <= i < nsub L -> (k < cnt (lvl lv i))%nat -> 1 <= d < 27 ->
  let v := copy_slot L lv i (1 + Z.of_nat k) d in
  (subgrid_ngb L i d = OUTSIDE -> v = OUTSIDE) /\
  (subgrid_ngb L i d <> OUTSIDE -> 0 <= v < total L lv /\ original_of L lv v = subgrid_ngb L i d).
Proof.
  intros L lv i k d Hwf Hi Hk Hd. cbv zeta. unfold copy_slot.
  destruct (Z.eqb_spec d 0) as [?|_]; [lia|].
  destruct (Z.eqb_spec (subgrid_ngb L i d) OUTSIDE) as [E|E]; [split; [reflexivity|congruence]|].
  split; [congruence|]. intros _.
  pose proof Hwf as [HL Hrest].
  destruct (wiring_lattice_thm L i d HL Hi ltac:(lia)) as [_ [_ [_ [_ Hr]]]]. specialize (Hr E).
  set (on := subgrid_ngb L i d) in *.
  pose proof (wf_lvl L lv i Hwf Hi) as Hl. pose proof (wf_lvl L lv on Hwf Hr) as Hnl.
  set (l := lvl lv i) in *. set (nl := lvl lv on) in *.
  assert (Hk2 : 1 + Z.of_nat k < 2 ^ l) by (pose proof (cnt_val l ltac:(lia)); lia).
  destruct (Z.eqb_spec nl l) as [El|El].
  - (* same level *)
    pose proof (copy_or_orig L lv on (1 + Z.of_nat k) Hwf Hr) as H. fold nl in H. rewrite El in H.
    specialize (H ltac:(lia)). cbv zeta in H.
    destruct (Z.ltb_spec 0 (1 + Z.of_nat k)); [|lia].
    replace (first_copy L lv on + (1 + Z.of_nat k) - 1) with (first_copy L lv on + (1 + Z.of_nat k) - 1) in H by reflexivity.
    exact H.
  - destruct (Z.ltb_spec nl l) as [Hlt|Hge].
    + (* fewer neighbour copies *)
      set (b := 2 ^ (l - nl)).
      assert (Hb : 2 <= b) by (apply pow2_ge2; lia).
      assert (Hab : 2 ^ l = 2 ^ nl * b).
      { unfold b. rewrite <- pow2_split by lia. f_equal. lia. }
      pose proof (pow2_ge1 nl ltac:(lia)) as Ha.
      set (q := (1 + Z.of_nat k) / b).
      assert (Hq : 0 <= q < 2 ^ nl).
      { unfold q. split; [apply Z.div_pos; lia|]. apply Z.div_lt_upper_bound; [lia|]. rewrite Z.mul_comm. lia. }
      pose proof (copy_or_orig L lv on q Hwf Hr) as H. fold nl in H. specialize (H Hq). exact H.
    + (* more neighbour copies *)
      set (b := 2 ^ (nl - l)).
      assert (Hb : 2 <= b) by (apply pow2_ge2; lia).
      assert (Hab : 2 ^ nl = 2 ^ l * b).
      { unfold b. rewrite <- pow2_split by lia. f_equal. lia. }
      pose proof (pow2_ge1 l ltac:(lia)) as Ha.
      replace (1 + Z.of_nat k - 1) with (Z.of_nat k) by lia.
      assert (Hq : 0 <= 1 + Z.of_nat k * b < 2 ^ nl) by nia.
      pose proof (copy_or_orig L lv on (1 + Z.of_nat k * b) Hwf Hr) as H. fold nl in H. specialize (H Hq). cbv zeta in H.
      destruct (Z.ltb_spec 0 (1 + Z.of_nat k * b)); [|nia].
      replace (first_copy L lv on + (1 + Z.of_nat k * b) - 1) with (first_copy L lv on + Z.of_nat k * b) in H by lia.
      exact H.
Qed.

Lemma ngb_spec_zero : forall L A, wfL L -> coords_ok L A -> ngb_spec L A (0, 0, 0) = lin L A.
Proof.
  intros L [[x y] z] HL [Hx [Hy Hz]]. unfold ngb_spec. rewrite !Z.add_0_r.
  assert (W : forall p n c, 0 <= c < n -> wrapm p n c = c).
  { intros p n c Hc. unfold wrapm. destruct p; [apply Z.mod_small; exact Hc|reflexivity]. }
  rewrite !W by assumption.
  rewrite (proj2 (in_rng_iff _ _) Hx), (proj2 (in_rng_iff _ _) Hy), (proj2 (in_rng_iff _ _) Hz). reflexivity.
Qed.

Lemma all_ngbs_length : forall L lv, wf L lv -> Z.of_nat (length (all_ngbs L lv)) = total L lv.
Proof.
  intros L lv Hwf. unfold all_ngbs. rewrite app_length, map_length, length_zrange. unfold copy_ngbs.
  rewrite blocks_length, total_tot. destruct Hwf as [_ [Hlen _]]. lia.
Qed.

Lemma ngb_at_orig : forall L lv s d, 0 <= s < nsub L -> ngb_at L lv s d = subgrid_ngb L s d.
Proof.
  intros L lv s d Hs. unfold ngb_at, all_ngbs. destruct (Z.ltb_spec s 0); [lia|].
  rewrite app_nth1 by (rewrite map_length, length_zrange; lia).
  rewrite nth_indep with (d' := create_ngbs L 0) by (rewrite map_length, length_zrange; lia).
  rewrite map_nth, nth_zrange by lia. unfold subgrid_ngb. f_equal. f_equal. lia.
Qed.

Lemma ngb_at_copy : forall L lv i k d, wf L lv -> 0 <= i < nsub L -> (k < cnt (lvl lv i))%nat -> 0 <= d < 27 ->
  ngb_at L lv (copy_index L lv i k) d = u32 (copy_slot L lv i (1 + Z.of_nat k) d).
Proof.
  intros L lv i k d Hwf Hi Hk Hd.
  destruct (copy_index_facts L lv i k Hwf Hi Hk) as [R [_ Harr]].
  assert (HN : 0 <= nsub L) by lia.
  unfold ngb_at, all_ngbs. destruct (Z.ltb_spec (copy_index L lv i k) 0); [lia|].
  rewrite app_nth2 by (rewrite map_length, length_zrange; lia).
  rewrite map_length, length_zrange.
  replace (Z.to_nat (copy_index L lv i k) - Z.to_nat (nsub L))%nat with (Z.to_nat (copy_index L lv i k - nsub L)) by lia.
  rewrite Harr. unfold copy_array. rewrite tnth_nth by lia.
  rewrite nth_indep with (d' := u32 (copy_slot L lv i (1 + Z.of_nat k) 0))
    by (rewrite map_length; unfold dirs; rewrite length_zrange; lia).
  rewrite (map_nth (fun j => u32 (copy_slot L lv i (1 + Z.of_nat k) j))).
  unfold dirs. rewrite nth_zrange by lia. f_equal. f_equal. lia.
Qed.

(* every neighbour of a duplicate is a duplicate (or the original) of the true geometric neighbour *)
Lemma copy_neighbour_thm : forall L lv s d, wf L lv -> 0 <= s < total L lv -> 1 <= d < 27 ->
  let o := original_of L lv s in
  0 <= o < nsub L /\
  (subgrid_ngb L o d = OUTSIDE -> ngb_at L lv s d = OUTSIDE) /\
  (subgrid_ngb L o d <> OUTSIDE ->
     0 <= ngb_at L lv s d < total L lv /\ original_of L lv (ngb_at L lv s d) = subgrid_ngb L o d).
Proof.
  intros L lv s d Hwf Hs Hd. cbv zeta.
  pose proof Hwf as [HL Hrest].
  destruct Hrest as [_ [_ Htot]].
  destruct (Z.lt_ge_cases s (nsub L)) as [Hlt|Hge].
  - rewrite original_of_orig by exact Hlt. rewrite ngb_at_orig by lia.
    split; [lia|]. split; [tauto|]. intros Hne.
    destruct (wiring_lattice_thm L s d HL ltac:(lia) ltac:(lia)) as [_ [_ [_ [_ Hr]]]]. specialize (Hr Hne).
    pose proof (total_ge L lv). split; [lia|]. apply original_of_orig. lia.
  - destruct (copy_cover L lv s Hwf ltac:(lia)) as [i [k [Hi [Hk Hc]]]]. subst s.
    destruct (copy_index_facts L lv i k Hwf Hi Hk) as [_ [O _]]. rewrite O.
    rewrite ngb_at_copy by (try assumption; lia).
    destruct (copy_slot_thm L lv i k d Hwf Hi Hk Hd) as [H1 H2].
    split; [exact Hi|]. split.
    + intros E. rewrite (H1 E). apply u32_OUTSIDE.
    + intros E. destruct (H2 E) as [R O2]. rewrite u32_small by lia. split; assumption.
Qed.

Lemma self_slot_thm : forall L lv s, wf L lv -> 0 <= s < total L lv -> ngb_at L lv s 0 = s.
Proof.
  intros L lv s Hwf Hs.
  pose proof Hwf as [HL Hrest].
  destruct Hrest as [_ [_ Htot]].
  destruct (Z.lt_ge_cases s (nsub L)) as [Hlt|Hge].
  - rewrite ngb_at_orig by lia. rewrite subgrid_ngb_spec by (try assumption; lia).
    destruct (pos_of_index_ok L s HL ltac:(lia)) as [HA Hlin].
    change (offset_of_dir 0) with (0, 0, 0). rewrite ngb_spec_zero by assumption. exact Hlin.
  - destruct (copy_cover L lv s Hwf ltac:(lia)) as [i [k [Hi [Hk Hc]]]]. subst s.
    destruct (copy_index_facts L lv i k Hwf Hi Hk) as [R _].
    rewrite ngb_at_copy by (try assumption; lia). unfold copy_slot. simpl (0 =? 0).
    rewrite first_copy_val by (try assumption; lia).
    replace (nsub L + Z.of_nat (startn lv (Z.to_nat i)) + (1 + Z.of_nat k) - 1) with (copy_index L lv i k)
      by (unfold copy_index; lia).
    apply u32_small. lia.
Qed.

Lemma slots_in_range_thm : forall L lv s d, wf L lv -> 0 <= s < total L lv -> 0 <= d < 27 ->
  ngb_at L lv s d = OUTSIDE \/ 0 <= ngb_at L lv s d < total L lv.
Proof.
  intros L lv s d Hwf Hs Hd. destruct (Z.eq_dec d 0) as [E|E].
  - subst d. right. rewrite self_slot_thm by assumption. exact Hs.
  - destruct (copy_neighbour_thm L lv s d Hwf Hs ltac:(lia)) as [_ [H1 H2]].
    destruct (Z.eq_dec (subgrid_ngb L (original_of L lv s) d) OUTSIDE) as [E2|E2]; [left; auto|right; apply H2; exact E2].
Qed.

Lemma copies_structure_thm : forall L lv, wf L lv ->
  Z.of_nat (length (all_ngbs L lv)) = total L lv /\
  total L lv = nsub L + zsum (map (fun l => 2 ^ l - 1) lv) /\
  (forall i k, 0 <= i < nsub L -> 1 <= k < 2 ^ lvl lv i ->
     nsub L <= first_copy L lv i + k - 1 < total L lv /\ original_of L lv (first_copy L lv i + k - 1) = i) /\
  (forall c, nsub L <= c < total L lv ->
     0 <= original_of L lv c < nsub L /\
     exists k, 1 <= k < 2 ^ lvl lv (original_of L lv c) /\ c = first_copy L lv (original_of L lv c) + k - 1) /\
  (forall i, 0 <= i < nsub L -> original_of L lv i = i).
Proof.
  intros L lv Hwf. split; [apply all_ngbs_length; exact Hwf|]. split; [|split; [|split]].
  - rewrite total_tot. f_equal. destruct Hwf as [_ [_ [Hf _]]]. clear -Hf.
    induction lv as [|l r IH]; [reflexivity|]. inversion Hf; subst. simpl.
    rewrite Nat2Z.inj_add, IH by assumption. rewrite cnt_val by lia. reflexivity.
  - intros i k Hi Hk. pose proof (wf_lvl L lv i Hwf Hi) as Hl.
    assert (Hk' : (Z.to_nat (k - 1) < cnt (lvl lv i))%nat).
    { apply Nat2Z.inj_lt. rewrite cnt_val by lia. lia. }
    destruct (copy_index_facts L lv i (Z.to_nat (k - 1)) Hwf Hi Hk') as [R [O _]].
    rewrite first_copy_val by (try assumption; lia).
    replace (nsub L + Z.of_nat (startn lv (Z.to_nat i)) + k - 1) with (copy_index L lv i (Z.to_nat (k - 1)))
      by (unfold copy_index; lia).
    split; assumption.
  - intros c Hc. destruct (copy_cover L lv c Hwf Hc) as [i [k [Hi [Hk E]]]]. subst c.
    destruct (copy_index_facts L lv i k Hwf Hi Hk) as [_ [O _]]. rewrite O. split; [exact Hi|].
    pose proof (wf_lvl L lv i Hwf Hi) as Hl.
    exists (1 + Z.of_nat k). split; [pose proof (cnt_val (lvl lv i) ltac:(lia)); lia|].
    rewrite first_copy_val by (try assumption; lia). unfold copy_index. lia.
  - intros i Hi. apply original_of_orig. lia.
Qed.

(* ------------------------------------------------------------------------- *)
(* folding duplicates back / pushing state to duplicates *)

Lemma scan_calls_block : forall m rest i pos, Forall (fun o => o <> i) rest ->
  scan_calls (repeat i m ++ rest) i pos = map (fun k => (i, pos + Z.of_nat k)) (seq 0 m).
Proof.
  induction m as [|m IH]; intros rest i pos Hr.
  - simpl. destruct rest as [|o r]; [reflexivity|]. inversion Hr; subst. simpl.
    destruct (Z.eqb_spec o i); [contradiction|reflexivity].
  - simpl. rewrite Z.eqb_refl. rewrite IH by exact Hr. rewrite Z.add_0_r. f_equal.
    rewrite <- seq_shift, map_map. apply map_ext. intros k. f_equal. lia.
Qed.

Lemma skipn_app_length : forall A (a b : list A) n, skipn (length a + n) (a ++ b) = skipn n b.
Proof. induction a as [|x a IH]; intros b n; simpl; [reflexivity|apply IH]. Qed.

Lemma blocks_suffix : forall lvs i0 j, (j < length lvs)%nat ->
  skipn (startn lvs j) (blocks (fun i _ => i) lvs i0) =
  repeat (i0 + Z.of_nat j) (cnt (nth j lvs 0)) ++ blocks (fun i _ => i) (skipn (S j) lvs) (i0 + Z.of_nat j + 1).
Proof.
  induction lvs as [|l r IH]; intros i0 j Hj; simpl in Hj; [lia|].
  destruct j as [|j].
  - simpl. rewrite map_const_krange, Z.add_0_r. reflexivity.
  - change (startn (l :: r) (S j)) with (cnt l + startn r j)%nat.
    change (blocks (fun i _ => i) (l :: r) i0) with (map (fun _ : Z => i0) (krange l) ++ blocks (fun i _ => i) r (i0 + 1)).
    replace (cnt l) with (length (map (fun _ : Z => i0) (krange l))) at 1 by (rewrite map_length; apply krange_length).
    rewrite skipn_app_length. rewrite IH by lia.
    change (nth (S j) (l :: r) 0) with (nth j r 0). change (skipn (S (S j)) (l :: r)) with (skipn (S j) r).
    replace (i0 + 1 + Z.of_nat j) with (i0 + Z.of_nat (S j)) by lia. reflexivity.
Qed.

Lemma blocks_ge : forall lvs i0, Forall (fun o => i0 <= o) (blocks (fun i _ => i) lvs i0).
Proof.
  induction lvs as [|l r IH]; intros i0; simpl; [constructor|].
  apply Forall_app. split.
  - rewrite map_const_krange. apply Forall_forall. intros x Hx. apply repeat_spec in Hx. lia.
  - eapply Forall_impl; [|apply IH]. simpl. intros; lia.
Qed.

(* the visits of one original *)
Definition piece (N : Z) (lv : list Z) (j : nat) : list (Z * Z) :=
  map (fun k => (Z.of_nat j, N + Z.of_nat (startn lv j) + Z.of_nat k)) (seq 0 (cnt (nth j lv 0))).

Lemma flat_map_map : forall A B C (f : B -> list C) (g : A -> B) l, flat_map f (map g l) = flat_map (fun x => f (g x)) l.
Proof. induction l as [|x l IH]; simpl; [reflexivity|]. rewrite IH. reflexivity. Qed.

Lemma flat_map_ext_in : forall A B (f g : A -> list B) l, (forall x, In x l -> f x = g x) -> flat_map f l = flat_map g l.
Proof.
  induction l as [|x l IH]; intros H; simpl; [reflexivity|].
  rewrite H by (left; reflexivity). rewrite IH by (intros; apply H; right; assumption). reflexivity.
Qed.

Lemma calls_pieces : forall L lv, wf L lv -> calls L lv = flat_map (piece (nsub L) lv) (seq 0 (length lv)).
Proof.
  intros L lv Hwf. pose proof (wf_len L lv Hwf) as Hlen.
  unfold calls, calls_of. unfold zrange. rewrite flat_map_map. rewrite <- Hlen.
  apply flat_map_ext_in. intros j Hj. apply in_seq in Hj. rewrite Z.add_0_l.
  assert (Hi : 0 <= Z.of_nat j < nsub L) by lia.
  fold (first_copy L lv (Z.of_nat j)).
  destruct (Nat.eq_dec (cnt (lvl lv (Z.of_nat j))) 0) as [E|E].
  - rewrite first_copy_none by assumption. rewrite Z.eqb_refl. unfold piece. unfold lvl in E. rewrite Nat2Z.id in E.
    rewrite E. reflexivity.
  - rewrite first_copy_val by (try assumption; lia). rewrite Nat2Z.id.
    pose proof (startn_bound lv j ltac:(lia)) as Hb.
    destruct Hwf as [_ [_ [_ Htot]]]. rewrite total_tot in Htot.
    destruct (Z.eqb_spec (nsub L + Z.of_nat (startn lv j)) SENT) as [E2|_]; [unfold SENT, OUTSIDE in *; lia|].
    replace (Z.to_nat (nsub L + Z.of_nat (startn lv j) - nsub L)) with (startn lv j) by lia.
    rewrite originals_blocks, blocks_suffix by lia. rewrite Z.add_0_l.
    rewrite scan_calls_block.
    + unfold piece. reflexivity.
    + eapply Forall_impl; [|apply blocks_ge]. simpl. intros; lia.
Qed.

(* the same list, built block after block with a running offset *)
Fixpoint blocks2 (lvs : list Z) (i s : Z) : list (Z * Z) :=
  match lvs with
  | [] => []
  | l :: r => map (fun k => (i, s + Z.of_nat k)) (seq 0 (cnt l)) ++ blocks2 r (i + 1) (s + Z.of_nat (cnt l))
  end.

Lemma pieces_blocks2 : forall lvs i0 s,
  flat_map (fun j => map (fun k => (i0 + Z.of_nat j, s + Z.of_nat (startn lvs j) + Z.of_nat k)) (seq 0 (cnt (nth j lvs 0))))
           (seq 0 (length lvs)) = blocks2 lvs i0 s.
Proof.
  induction lvs as [|l r IH]; intros i0 s; [reflexivity|].
  change (length (l :: r)) with (S (length r)). rewrite <- cons_seq. rewrite <- seq_shift. simpl flat_map.
  rewrite flat_map_map.
  change (blocks2 (l :: r) i0 s) with
    (map (fun k => (i0, s + Z.of_nat k)) (seq 0 (cnt l)) ++ blocks2 r (i0 + 1) (s + Z.of_nat (cnt l))).
  f_equal.
  - apply map_ext. intros k. simpl. f_equal; lia.
  - rewrite <- (IH (i0 + 1) (s + Z.of_nat (cnt l))). apply flat_map_ext_in. intros j _.
    apply map_ext. intros k. simpl startn. f_equal; lia.
Qed.

Lemma zrange_cons : forall a n, zrange a (S n) = a :: zrange (a + 1) n.
Proof.
  intros a n. unfold zrange. simpl. f_equal; [lia|]. rewrite <- seq_shift, map_map. apply map_ext. intros k. lia.
Qed.

Lemma zrange_app : forall a n m, zrange a (n + m) = zrange a n ++ zrange (a + Z.of_nat n) m.
Proof.
  intros a n. revert a. induction n as [|n IH]; intros a m.
  - simpl. rewrite Z.add_0_r. reflexivity.
  - change (S n + m)%nat with (S (n + m)). rewrite !zrange_cons, IH. simpl. f_equal. f_equal. f_equal. lia.
Qed.

Lemma blocks2_snd : forall lvs i s, map snd (blocks2 lvs i s) = zrange s (tot lvs).
Proof.
  induction lvs as [|l r IH]; intros i s; simpl; [reflexivity|].
  rewrite map_app, map_map, IH. rewrite zrange_app. f_equal.
Qed.

Lemma calls_snd : forall L lv, wf L lv -> map snd (calls L lv) = zrange (nsub L) (tot lv).
Proof.
  intros L lv Hwf. rewrite calls_pieces by exact Hwf. rewrite <- (blocks2_snd lv 0 (nsub L)). f_equal.
  rewrite <- pieces_blocks2. apply flat_map_ext_in. intros j _. unfold piece. apply map_ext. intros k. f_equal.
Qed.

Lemma calls_fst : forall L lv ic, wf L lv -> In ic (calls L lv) ->
  0 <= fst ic < nsub L /\ nsub L <= snd ic < total L lv /\ fst ic = original_of L lv (snd ic).
Proof.
  intros L lv [i c] Hwf Hin. pose proof (wf_len L lv Hwf) as Hlen. rewrite calls_pieces in Hin by exact Hwf.
  apply in_flat_map in Hin. destruct Hin as [j [Hj Hin]]. apply in_seq in Hj.
  unfold piece in Hin. apply in_map_iff in Hin. destruct Hin as [k [E Hk]]. apply in_seq in Hk.
  inversion E; subst. simpl.
  assert (Hi : 0 <= Z.of_nat j < nsub L) by lia.
  assert (Hk' : (k < cnt (lvl lv (Z.of_nat j)))%nat) by (unfold lvl; rewrite Nat2Z.id; lia).
  destruct (copy_index_facts L lv (Z.of_nat j) k Hwf Hi Hk') as [R [O _]].
  unfold copy_index in *. rewrite Nat2Z.id in *. split; [lia|]. split; [exact R|]. symmetry. exact O.
Qed.

Lemma zsum_app : forall a b, zsum (a ++ b) = zsum a + zsum b.
Proof. induction a as [|x a IH]; intros b; simpl; [reflexivity|]. rewrite IH. lia. Qed.

Lemma fupd_same : forall f x v, fupd f x v x = v.
Proof. intros. unfold fupd. rewrite Z.eqb_refl. reflexivity. Qed.

Lemma fupd_other : forall f x v y, y <> x -> fupd f x v y = f y.
Proof. intros. unfold fupd. destruct (Z.eqb_spec y x); [contradiction|reflexivity]. Qed.

(* value semantics of the fold: reads are never affected by earlier writes because no copy is an original *)
Lemma apply_fold_spec : forall cs N vals x, (forall ic, In ic cs -> fst ic < N <= snd ic) ->
  apply_fold cs vals x = vals x + zsum (map (fun ic => if fst ic =? x then vals (snd ic) else 0) cs).
Proof.
  induction cs as [|[i c] r IH]; intros N vals x H; simpl; [lia|].
  unfold apply_fold in *. simpl. rewrite (IH N) by (intros; apply H; right; assumption).
  pose proof (H (i, c) ltac:(left; reflexivity)) as Hic. simpl in Hic.
  assert (E : map (fun ic => if fst ic =? x then fupd vals i (vals i + vals c) (snd ic) else 0) r =
              map (fun ic => if fst ic =? x then vals (snd ic) else 0) r).
  { apply map_ext_in. intros ic Hin. pose proof (H ic ltac:(right; exact Hin)).
    destruct (fst ic =? x); [|reflexivity]. apply fupd_other. lia. }
  rewrite E. destruct (Z.eqb_spec i x) as [Ex|Ex].
  - subst x. rewrite fupd_same. lia.
  - rewrite fupd_other by congruence. lia.
Qed.

Lemma zsum_filter : forall (p : Z -> bool) (v : Z -> Z) l,
  zsum (map (fun c => if p c then v c else 0) l) = zsum (map v (filter p l)).
Proof. induction l as [|c l IH]; simpl; [reflexivity|]. destruct (p c); simpl; lia. Qed.

Lemma zsum_map_add : forall A (f g : A -> Z) l, zsum (map (fun x => f x + g x) l) = zsum (map f l) + zsum (map g l).
Proof. induction l as [|x l IH]; simpl; [reflexivity|]. rewrite IH. lia. Qed.

Lemma zsum_indicator_out : forall n a i v, i < a ->
  zsum (map (fun x => if i =? x then v else 0) (zrange a n)) = 0.
Proof.
  induction n as [|n IH]; intros a i v Hi; [reflexivity|].
  rewrite zrange_cons. simpl. destruct (Z.eqb_spec i a); [lia|]. rewrite IH by lia. reflexivity.
Qed.

Lemma zsum_indicator : forall n a i v, a <= i < a + Z.of_nat n ->
  zsum (map (fun x => if i =? x then v else 0) (zrange a n)) = v.
Proof.
  induction n as [|n IH]; intros a i v Hi; [lia|].
  rewrite zrange_cons. simpl. destruct (Z.eqb_spec i a) as [E|E].
  - rewrite zsum_indicator_out by lia. lia.
  - rewrite IH by lia. lia.
Qed.

Lemma sum_swap : forall (f v : Z -> Z) n l, (forall c, In c l -> 0 <= f c < Z.of_nat n) ->
  zsum (map (fun x => zsum (map (fun c => if f c =? x then v c else 0) l)) (zrange 0 n)) = zsum (map v l).
Proof.
  induction l as [|c r IH]; intros H.
  - simpl. induction (zrange 0 n) as [|x t IHt]; simpl; [reflexivity|lia].
  - simpl map at 1. simpl zsum at 1.
    rewrite (zsum_map_add Z (fun x => if f c =? x then v c else 0) (fun x => zsum (map (fun c0 => if f c0 =? x then v c0 else 0) r))).
    rewrite zsum_indicator by (apply H; left; reflexivity).
    rewrite IH by (intros; apply H; right; assumption). simpl. reflexivity.
Qed.

Lemma originals_length : forall L lv, length (originals L lv) = tot lv.
Proof. intros. rewrite originals_blocks. apply blocks_length. Qed.

Lemma fold_thm : forall L lv vals, wf L lv ->
  let vals' := fold_counters L lv vals in
  map snd (calls L lv) = zrange (nsub L) (length (originals L lv)) /\
  (forall ic, In ic (calls L lv) -> fst ic = original_of L lv (snd ic)) /\
  (forall i, 0 <= i < nsub L -> vals' i = vals i + zsum (map vals (copies_of L lv i))) /\
  (forall c, nsub L <= c -> vals' c = vals c) /\
  zsum (map vals' (zrange 0 (Z.to_nat (nsub L)))) = zsum (map vals (zrange 0 (Z.to_nat (total L lv)))).
Proof.
  intros L lv vals Hwf. cbv zeta. unfold fold_counters.
  pose proof (calls_snd L lv Hwf) as Hsnd. rewrite <- (originals_length L lv) in Hsnd.
  assert (Hfst : forall ic, In ic (calls L lv) -> fst ic = original_of L lv (snd ic)).
  { intros ic Hin. apply (calls_fst L lv ic Hwf Hin). }
  assert (Hsep : forall ic, In ic (calls L lv) -> fst ic < nsub L <= snd ic).
  { intros ic Hin. pose proof (calls_fst L lv ic Hwf Hin). lia. }
  assert (Hval : forall x, apply_fold (calls L lv) vals x =
            vals x + zsum (map (fun c => if original_of L lv c =? x then vals c else 0) (zrange (nsub L) (length (originals L lv))))).
  { intros x. rewrite (apply_fold_spec _ (nsub L)) by exact Hsep. f_equal. rewrite <- Hsnd, map_map. f_equal.
    apply map_ext_in. intros ic Hin. rewrite (Hfst ic Hin). reflexivity. }
  split; [exact Hsnd|]. split; [exact Hfst|]. split; [|split].
  - intros i Hi. rewrite Hval. f_equal. unfold copies_of. apply zsum_filter.
  - intros c Hc. rewrite (apply_fold_spec _ (nsub L)) by exact Hsep.
    assert (Z0 : zsum (map (fun ic => if fst ic =? c then vals (snd ic) else 0) (calls L lv)) = 0).
    { assert (forall l, (forall ic, In ic l -> fst ic < nsub L) -> zsum (map (fun ic : Z * Z => if fst ic =? c then vals (snd ic) else 0) l) = 0).
      { induction l as [|ic l IH]; intros H; simpl; [reflexivity|].
        pose proof (H ic ltac:(left; reflexivity)). destruct (Z.eqb_spec (fst ic) c); [lia|].
        rewrite IH by (intros; apply H; right; assumption). reflexivity. }
      apply H. intros ic Hin. apply Hsep. exact Hin. }
    lia.
  - rewrite (map_ext _ _ Hval).
    rewrite (zsum_map_add Z vals (fun x => zsum (map (fun c => if original_of L lv c =? x then vals c else 0) (zrange (nsub L) (length (originals L lv)))))).
    rewrite sum_swap.
    + rewrite total_tot, originals_length. pose proof Hwf as [_ [Hlen _]].
      replace (Z.to_nat (nsub L + Z.of_nat (tot lv))) with (Z.to_nat (nsub L) + tot lv)%nat by lia.
      rewrite zrange_app, map_app, zsum_app. rewrite Z.add_0_l. f_equal. f_equal. f_equal. f_equal. lia.
    + intros c Hc. apply In_zrange in Hc. rewrite originals_length in Hc.
      destruct (copies_structure_thm L lv Hwf) as [_ [_ [_ [H _]]]].
      rewrite total_tot in H. specialize (H c ltac:(lia)). lia.
Qed.

Lemma apply_push_spec : forall cs N st cn, (forall ic, In ic cs -> fst ic < N <= snd ic) ->
  forall x,
    ((forall ic, In ic cs -> snd ic <> x) ->
       fst (apply_push cs (st, cn)) x = st x /\ snd (apply_push cs (st, cn)) x = cn x) /\
    (forall i, In (i, x) cs -> (forall i', In (i', x) cs -> i' = i) ->
       fst (apply_push cs (st, cn)) x = st i /\ snd (apply_push cs (st, cn)) x = 0).
Proof.
  induction cs as [|[i0 c0] r IH]; intros N st cn H x.
  - split; [intros; simpl; auto|intros i Hin; contradiction].
  - assert (Hr : forall ic, In ic r -> fst ic < N <= snd ic) by (intros; apply H; right; assumption).
    pose proof (H (i0, c0) ltac:(left; reflexivity)) as H0. simpl in H0.
    unfold apply_push in *. simpl fold_left.
    destruct (IH N (fupd st c0 (st i0)) (fupd cn c0 0) Hr x) as [IH1 IH2]. split.
    + intros Hx. destruct IH1 as [A B]; [intros; apply Hx; right; assumption|].
      rewrite A, B. pose proof (Hx (i0, c0) ltac:(left; reflexivity)) as Hne. simpl in Hne.
      rewrite !fupd_other by congruence. auto.
    + intros i Hin Huniq.
      destruct (in_dec Z.eq_dec x (map snd r)) as [Hd|Hd].
      * apply in_map_iff in Hd. destruct Hd as [[i'' x'] [E Hin']]. simpl in E. subst x'.
        assert (i'' = i) by (apply Huniq; right; exact Hin'). subst i''.
        destruct (IH2 i Hin') as [A B]; [intros; apply Huniq; right; assumption|].
        rewrite A, B. pose proof (Hr (i, x) Hin') as Hix. simpl in Hix.
        rewrite fupd_other by lia. auto.
      * destruct Hin as [E|Hin]; [|exfalso; apply Hd; apply in_map_iff; exists (i, x); auto].
        inversion E; subst i0 c0.
        destruct IH1 as [A B].
        { intros ic Hic Hs. apply Hd. apply in_map_iff. exists ic. auto. }
        rewrite A, B, !fupd_same. auto.
Qed.

Lemma push_thm : forall L lv st cn s, wf L lv -> 0 <= s < total L lv ->
  fst (push_state L lv (st, cn)) s = st (original_of L lv s) /\
  snd (push_state L lv (st, cn)) s = (if s <? nsub L then cn s else 0).
Proof.
  intros L lv st cn s Hwf Hs. unfold push_state.
  assert (Hsep : forall ic, In ic (calls L lv) -> fst ic < nsub L <= snd ic).
  { intros ic Hin. pose proof (calls_fst L lv ic Hwf Hin). lia. }
  destruct (apply_push_spec (calls L lv) (nsub L) st cn Hsep s) as [P1 P2].
  destruct (Z.ltb_spec s (nsub L)) as [Hlt|Hge].
  - rewrite original_of_orig by exact Hlt. apply P1. intros ic Hin. pose proof (Hsep ic Hin). lia.
  - assert (Hin : In s (map snd (calls L lv))).
    { rewrite calls_snd by exact Hwf. apply In_zrange. rewrite total_tot in Hs. lia. }
    apply in_map_iff in Hin. destruct Hin as [[i s'] [E Hin]]. simpl in E. subst s'.
    pose proof (calls_fst L lv (i, s) Hwf Hin) as [_ [_ Ho]]. simpl in Ho. rewrite <- Ho.
    apply P2; [exact Hin|]. intros i' Hin'. pose proof (calls_fst L lv (i', s) Hwf Hin') as [_ [_ Ho']]. simpl in Ho'. congruence.
Qed.

Lemma NoDup_zrange : forall n a, NoDup (zrange a n).
Proof.
  induction n as [|n IH]; intros a; [constructor|]. rewrite zrange_cons. constructor; [|apply IH].
  intros Hin. apply In_zrange in Hin. lia.
Qed.

(* every copy is visited exactly once, paired with its own original, and nothing else is visited *)
Lemma calls_exact_thm : forall L lv, wf L lv ->
  map snd (calls L lv) = zrange (nsub L) (length (originals L lv)) /\
  NoDup (map snd (calls L lv)) /\
  (forall ic, In ic (calls L lv) -> fst ic = original_of L lv (snd ic) /\ 0 <= fst ic < nsub L) /\
  (forall c, nsub L <= c < total L lv -> In (original_of L lv c, c) (calls L lv)).
Proof.
  intros L lv Hwf. pose proof (calls_snd L lv Hwf) as Hsnd. rewrite <- (originals_length L lv) in Hsnd.
  split; [exact Hsnd|]. split; [rewrite Hsnd; apply NoDup_zrange|]. split.
  - intros ic Hin. pose proof (calls_fst L lv ic Hwf Hin). tauto.
  - intros c Hc. assert (Hin : In c (map snd (calls L lv))).
    { rewrite Hsnd. apply In_zrange. rewrite originals_length. rewrite total_tot in Hc. lia. }
    apply in_map_iff in Hin. destruct Hin as [[i c'] [E Hin]]. simpl in E. subst c'.
    pose proof (calls_fst L lv (i, c) Hwf Hin) as [_ [_ Ho]]. simpl in Ho. rewrite <- Ho. exact Hin.
Qed.

(* get_copies (the public iterator interface) reports exactly the block of copies *)
Lemma get_copies_thm : forall L lv i, wf L lv -> 0 <= i < nsub L ->
  get_copies L lv i = if 0 <? lvl lv i then Some (first_copy L lv i, 2 ^ lvl lv i - 1) else None.
Proof.
  intros L lv i Hwf Hi. pose proof (wf_len L lv Hwf) as Hlen. pose proof (wf_lvl L lv i Hwf Hi) as Hl.
  unfold get_copies.
  destruct (Z.ltb_spec 0 (lvl lv i)) as [Hp|Hp].
  - assert (Hc : (0 < cnt (lvl lv i))%nat).
    { apply Nat2Z.inj_lt. rewrite cnt_val by lia. pose proof (pow2_ge2 (lvl lv i) ltac:(lia)). lia. }
    rewrite first_copy_val by assumption.
    pose proof (startn_bound lv (Z.to_nat i) ltac:(lia)) as Hb.
    pose proof Hwf as [_ [_ [_ Htot]]]. rewrite total_tot in Htot.
    destruct (Z.eqb_spec (nsub L + Z.of_nat (startn lv (Z.to_nat i))) SENT) as [E|_]; [unfold SENT, OUTSIDE in *; unfold lvl in *; lia|].
    replace (Z.to_nat (nsub L + Z.of_nat (startn lv (Z.to_nat i)) - nsub L)) with (startn lv (Z.to_nat i)) by lia.
    rewrite originals_blocks, blocks_suffix by lia. rewrite Z.add_0_l, Z2Nat.id by lia.
    rewrite scan_calls_block.
    + rewrite map_length, seq_length. fold (lvl lv i).
      destruct (Nat.eqb_spec (cnt (lvl lv i)) 0); [lia|]. rewrite cnt_val by lia. reflexivity.
    + eapply Forall_impl; [|apply blocks_ge]. simpl. intros; lia.
  - assert (lvl lv i = 0) by lia. assert (Hc : cnt (lvl lv i) = 0%nat) by (rewrite H; reflexivity).
    rewrite first_copy_none by assumption. rewrite Z.eqb_refl. reflexivity.
Qed.

(* ------------------------------------------------------------------------- *)
(* the hypotheses are satisfiable / the model computes: a 2 x 1 x 1 layout, periodic in x, levels 1 and 2
   (the corpus case "2 1 1 1 0 0 1 1 1 10 1 2 ..."), and a 1 x 1 x 1 fully periodic block with 3 copies *)
Definition exL : layout := mkL 2 1 1 true false false 1 1 1.

Example ex_wf : wf exL [1; 2].
Proof.
  unfold wf, wfL, exL, nsub; simpl. repeat split; try lia; try (repeat constructor; lia); vm_compute; reflexivity.
Qed.

Example ex_ngbs : all_ngbs exL [1; 2] =
  map (fun '(s, a, b) => s :: repeat OUTSIDE 20 ++ [a; b] ++ repeat OUTSIDE 4)
      [(0, 1, 1); (1, 0, 0); (2, 3, 3); (3, 0, 0); (4, 2, 2); (5, 2, 2)]
  /\ originals exL [1; 2] = [0; 1; 1; 1] /\ copies_arr exL [1; 2] = [2; 3].
Proof. vm_compute. auto. Qed.

Example ex_fold : map (fold_counters exL [1; 2] (fun s => 10 + s * (s + 3))) (zrange 0 6) = [30; 130; 20; 28; 38; 50].
Proof. vm_compute. reflexivity. Qed.

Example ex_self_periodic :
  let L := mkL 1 1 1 true true true 2 2 2 in
  wf L [2] /\ map (fun d => ngb_at L [2] 0 d) dirs = repeat 0 27
  /\ map (fun d => ngb_at L [2] 2 d) dirs = repeat 2 27.
Proof.
  cbv zeta. split; [|vm_compute; auto].
  unfold wf, wfL, nsub; simpl. repeat split; try lia; try (repeat constructor; lia); vm_compute; reflexivity.
Qed.
