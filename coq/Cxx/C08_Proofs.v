(* C08: inductive invariants of the interleaving model of Cxx/C08_Defs.v, for every configuration
   (number of threads, pool size, task table), every schedule and all clients obeying the contract. *)
From Coq Require Import NArith ZArith List Bool Arith Lia Permutation.
From CMI Require Import Cxx.C08_Defs.
Import ListNotations.

(* ------------------------------------------------------------------------------------------ *)
(* generic facts *)
Arguments upd : simpl never.
Lemma upd_same : forall A (m : nat -> A) k v, upd m k v k = v.
Proof. intros. unfold upd. now rewrite Nat.eqb_refl. Qed.
Lemma upd_other : forall A (m : nat -> A) k v j, j <> k -> upd m k v j = m j.
Proof. intros. unfold upd. destruct (Nat.eqb j k) eqn:E; auto. apply Nat.eqb_eq in E. contradiction. Qed.

Lemma memb_In : forall x l, memb x l = true <-> In x l.
Proof.
  intros. unfold memb. rewrite existsb_exists. split.
  - intros [y [Hy E]]. apply Nat.eqb_eq in E. now subst.
  - intros H. exists x. split; auto. apply Nat.eqb_refl.
Qed.

Lemma remove1_In : forall x y l, In y (remove1 x l) -> In y l.
Proof.
  induction l; simpl; auto. destruct (Nat.eqb x a); simpl; intuition.
Qed.
Lemma remove1_In_other : forall x y l, y <> x -> In y l -> In y (remove1 x l).
Proof.
  induction l; simpl; auto. intros Hn [H|H].
  - subst. destruct (Nat.eqb x y) eqn:E. apply Nat.eqb_eq in E. congruence. now left.
  - destruct (Nat.eqb x a); simpl; auto.
Qed.
Lemma remove1_NoDup : forall x l, NoDup l -> NoDup (remove1 x l).
Proof.
  induction l; simpl; auto. intros H. inversion H; subst.
  destruct (Nat.eqb x a); auto. constructor; auto. intro Hc. apply remove1_In in Hc. contradiction.
Qed.
Lemma remove1_NoDup_notin : forall x l, NoDup l -> ~ In x (remove1 x l).
Proof.
  induction l; simpl; auto. intros H. inversion H; subst.
  destruct (Nat.eqb x a) eqn:E.
  - apply Nat.eqb_eq in E. now subst.
  - simpl. intros [Hc|Hc]. subst. rewrite Nat.eqb_refl in E. discriminate. now apply IHl.
Qed.
Lemma remove1_length : forall x l, In x l -> S (length (remove1 x l)) = length l.
Proof.
  induction l; simpl. contradiction. intros H.
  destruct (Nat.eqb x a) eqn:E; auto. simpl. f_equal. apply IHl.
  destruct H; auto. subst. rewrite Nat.eqb_refl in E. discriminate.
Qed.
Lemma remove1_perm : forall x l, In x l -> Permutation l (x :: remove1 x l).
Proof.
  induction l; simpl. contradiction. intros H.
  destruct (Nat.eqb x a) eqn:E.
  - apply Nat.eqb_eq in E. now subst.
  - destruct H. subst. rewrite Nat.eqb_refl in E. discriminate.
    eapply perm_trans. apply perm_skip. apply IHl; auto. apply perm_swap.
Qed.

(* case analysis over one step: every [match] of [exec] is split, the invariant stays folded *)
Ltac exec_leaves :=
  unfold exec, start, dep_done, scan, finish_same;
  repeat match goal with |- context[match ?x with _ => _ end] => destruct x eqn:? end;
  cbn [fst snd].

(* invariants that do not mention the log carry over from [exec] to [step] *)
Lemma step_fst : forall cfg s t c, fst (step cfg s t c) = set_hist (fst (exec cfg s t c)) (snd (exec cfg s t c) :: hist s).
Proof. intros. unfold step. destruct (exec cfg s t c). reflexivity. Qed.
Lemma step_snd : forall cfg s t c, snd (step cfg s t c) = snd (exec cfg s t c).
Proof. intros. unfold step. destruct (exec cfg s t c). reflexivity. Qed.

Lemma reach_ind_exec : forall cfg (P : sys -> Prop),
  P (init cfg) ->
  (forall s h, P s -> P (set_hist s h)) ->
  (forall s t c, reach cfg s -> P s -> wf_choice s t c = true -> P (fst (exec cfg s t c))) ->
  forall s, reach cfg s -> P s.
Proof.
  intros cfg P Hi Hh Hs s Hr. induction Hr; auto.
  rewrite step_fst. apply Hh. apply Hs; auto.
Qed.

Lemma reachable_wf_reach : forall cfg s, reachable_wf cfg s <-> reach cfg s.
Proof.
  intros cfg s. split.
  - intros [sched [Hwf Hs]]. subst s.
    assert (G : forall sc s0, reach cfg s0 -> wf_sched cfg sc s0 = true -> reach cfg (run cfg sc s0)).
    { induction sc as [|[t c] r IH]; simpl; intros s0 Hr Hw; auto.
      apply andb_true_iff in Hw. destruct Hw as [Hw1 Hw2]. apply IH; auto. now apply reach_step. }
    apply G; auto. constructor.
  - intros Hr. induction Hr.
    + exists []. split; reflexivity.
    + destruct IHHr as [sched [Hw Hs]]. exists (sched ++ [(t, c)]). subst s.
      assert (G : forall sc s0, wf_sched cfg sc s0 = true -> wf_choice (run cfg sc s0) t c = true ->
                  wf_sched cfg (sc ++ [(t, c)]) s0 = true /\ run cfg (sc ++ [(t, c)]) s0 = fst (step cfg (run cfg sc s0) t c)).
      { induction sc as [|[t1 c1] r IH]; simpl; intros s0 Hw0 Hc.
        - rewrite Hc. auto.
        - apply andb_true_iff in Hw0. destruct Hw0 as [Ha Hb]. rewrite Ha. simpl. apply IH; auto. }
      destruct (G sched (init cfg) Hw H) as [G1 G2]. split; auto.
Qed.

(* ------------------------------------------------------------------------------------------ *)
(* pool: who owns a slot *)
Definition pc_slot (p : pc) : option nat :=
  match p with
  | G_incTaken i | G_maxLoad i _ | G_maxCas i _ _ _ | G_totInc i => Some i
  | _ => None
  end.
Definition ownsT (ts : tstate) (i : nat) : Prop := In i (held ts) \/ pc_slot (tpc ts) = Some i.

Record pool_inv (s : sys) : Prop := mkPoolInv {
  pi_flag : forall i t, flags s i = Some t <-> ownsT (thr s t) i;
  pi_nodup : forall t, NoDup (held (thr s t));
  pi_fresh : forall t i, pc_slot (tpc (thr s t)) = Some i -> ~ In i (held (thr s t));
  pi_free : forall t i, tpc (thr s t) = F_cas i -> In i (held (thr s t)) }.

(* a step of thread t0 that leaves the flags alone and does not change what t0 owns *)
Lemma pool_frame : forall s s' t0,
  pool_inv s ->
  flags s' = flags s ->
  (forall t, t <> t0 -> thr s' t = thr s t) ->
  held (thr s' t0) = held (thr s t0) ->
  pc_slot (tpc (thr s' t0)) = pc_slot (tpc (thr s t0)) ->
  (forall i, tpc (thr s' t0) = F_cas i -> In i (held (thr s t0))) ->
  pool_inv s'.
Proof.
  intros s s' t0 [I1 I2 I3 I4] Hf Ho Hh Hp Hfr.
  assert (E : forall t i, ownsT (thr s' t) i <-> ownsT (thr s t) i).
  { intros t i. destruct (Nat.eq_dec t t0) as [->|Hn].
    - unfold ownsT. rewrite Hh, Hp. tauto.
    - rewrite Ho; tauto. }
  constructor.
  - intros i t. rewrite Hf, E. apply I1.
  - intros t. destruct (Nat.eq_dec t t0) as [->|Hn]. rewrite Hh. apply I2. rewrite Ho; auto.
  - intros t i. destruct (Nat.eq_dec t t0) as [->|Hn]. rewrite Hh, Hp. apply I3. rewrite Ho; auto.
  - intros t i. destruct (Nat.eq_dec t t0) as [->|Hn]. rewrite Hh. apply Hfr. rewrite Ho; auto.
Qed.

Lemma pool_inv_init : forall cfg, pool_inv (init cfg).
Proof.
  intros. constructor; simpl; intros.
  - unfold ownsT. simpl. split. discriminate. intros [[]|H]; discriminate.
  - constructor.
  - discriminate.
  - discriminate.
Qed.

Ltac frame_tac t :=
  eapply pool_frame with (t0 := t); [eassumption | reflexivity
   | intros; cbn; rewrite ?upd_other by assumption; reflexivity
   | cbn; rewrite ?upd_same; cbn; rewrite ?upd_same; reflexivity
   | cbn; rewrite ?upd_same; cbn; rewrite ?upd_same; cbn;
     repeat match goal with H : tpc _ = _ |- _ => rewrite H end; reflexivity
   | cbn; rewrite ?upd_same; cbn; rewrite ?upd_same; cbn; intros; discriminate ].

Lemma pool_inv_exec : forall cfg s t c, pool_inv s -> wf_choice s t c = true -> pool_inv (fst (exec cfg s t c)).
Proof.
  intros cfg s t c I W.
  exec_leaves; try assumption; try (frame_tac t; fail).
  - (* start of free_element(i): the contract *)
    eapply pool_frame with (t0 := t); [eassumption | reflexivity
      | intros; cbn; rewrite ?upd_other by assumption; reflexivity
      | cbn; rewrite ?upd_same; cbn; rewrite ?upd_same; reflexivity
      | cbn; rewrite ?upd_same; cbn; rewrite ?upd_same; cbn; rewrite Heqp; reflexivity | ].
    cbn; rewrite ?upd_same; cbn. intros j Hj. injection Hj as <-.
    unfold wf_choice in W. rewrite Heqp in W. now apply memb_In.
  - (* G_cas succeeds: the flag was clear, so nobody owned slot i *)
    destruct I as [I1 I2 I3 I4].
    assert (Hno : forall t', ~ ownsT (thr s t') i).
    { intros t' Ho. apply I1 in Ho. congruence. }
    constructor; cbn.
    + intros j t'. destruct (Nat.eq_dec t' t) as [->|Hn].
      * rewrite upd_same. unfold ownsT. cbn. destruct (Nat.eq_dec j i) as [->|Hj].
        -- rewrite upd_same. split; auto.
        -- rewrite upd_other by auto. rewrite I1. unfold ownsT. rewrite Heqp. cbn. split.
           ++ intros [H|H]; auto. discriminate.
           ++ intros [H|H]; auto. congruence.
      * rewrite (upd_other _ (thr s)) by auto. destruct (Nat.eq_dec j i) as [->|Hj].
        -- rewrite upd_same. split. congruence. intros Ho. elim (Hno _ Ho).
        -- rewrite upd_other by auto. apply I1.
    + intros t'. destruct (Nat.eq_dec t' t) as [->|Hn]. rewrite upd_same. apply I2. rewrite upd_other by auto. apply I2.
    + intros t' j. destruct (Nat.eq_dec t' t) as [->|Hn].
      * rewrite upd_same. cbn. intros E. injection E as <-. intros Hc. apply (Hno t). now left.
      * rewrite upd_other by auto. apply I3.
    + intros t' j. destruct (Nat.eq_dec t' t) as [->|Hn]. rewrite upd_same. cbn. discriminate. rewrite upd_other by auto. apply I4.
  - (* G_totInc: the slot moves from "in flight" to the client's view *)
    destruct I as [I1 I2 I3 I4].
    constructor; cbn.
    + intros j t'. rewrite I1. destruct (Nat.eq_dec t' t) as [->|Hn].
      * rewrite upd_same. unfold ownsT. rewrite Heqp. cbn. split.
        -- intros [H|H]; auto. injection H as ->. auto.
        -- intros [[H|H]|H]; auto. subst. auto. discriminate.
      * rewrite upd_other by auto. tauto.
    + intros t'. destruct (Nat.eq_dec t' t) as [->|Hn].
      * rewrite upd_same. cbn. constructor. apply I3. now rewrite Heqp. apply I2.
      * rewrite upd_other by auto. apply I2.
    + intros t' j. destruct (Nat.eq_dec t' t) as [->|Hn]. rewrite upd_same. cbn. discriminate. rewrite upd_other by auto. apply I3.
    + intros t' j. destruct (Nat.eq_dec t' t) as [->|Hn]. rewrite upd_same. cbn. discriminate. rewrite upd_other by auto. apply I4.
  - (* F_cas: the owner clears the flag *)
    destruct I as [I1 I2 I3 I4].
    assert (Hin : In i (held (thr s t))) by (apply I4; auto).
    assert (Hfl : flags s i = Some t) by (apply I1; now left).
    constructor; cbn.
    + intros j t'. destruct (Nat.eq_dec t' t) as [->|Hn].
      * rewrite upd_same. unfold ownsT. cbn. destruct (Nat.eq_dec j i) as [->|Hj].
        -- rewrite upd_same. split. discriminate. intros [H|H]. elim (remove1_NoDup_notin i _ (I2 t) H). discriminate.
        -- rewrite upd_other by auto. rewrite I1. unfold ownsT. rewrite Heqp. cbn. split.
           ++ intros [H|H]. left. apply remove1_In_other; auto. discriminate.
           ++ intros [H|H]. left. eapply remove1_In; eauto. discriminate.
      * rewrite (upd_other _ (thr s)) by auto. destruct (Nat.eq_dec j i) as [->|Hj].
        -- rewrite upd_same. split. discriminate. intros Ho. apply I1 in Ho. congruence.
        -- rewrite upd_other by auto. apply I1.
    + intros t'. destruct (Nat.eq_dec t' t) as [->|Hn]. rewrite upd_same. cbn. apply remove1_NoDup. apply I2. rewrite upd_other by auto. apply I2.
    + intros t' j. destruct (Nat.eq_dec t' t) as [->|Hn]. rewrite upd_same. cbn. discriminate. rewrite upd_other by auto. apply I3.
    + intros t' j. destruct (Nat.eq_dec t' t) as [->|Hn]. rewrite upd_same. cbn. discriminate. rewrite upd_other by auto. apply I4.
Qed.

Lemma pool_inv_hist : forall s h, pool_inv s -> pool_inv (set_hist s h).
Proof. intros s h [I1 I2 I3 I4]. constructor; auto. Qed.

Lemma pool_inv_reach : forall cfg s, reach cfg s -> pool_inv s.
Proof.
  intros cfg. apply reach_ind_exec.
  - apply pool_inv_init.
  - apply pool_inv_hist.
  - intros. now apply pool_inv_exec.
Qed.

(* the client's view: slot i has been returned to thread t and not yet freed *)
Definition holds (s : sys) (t i : nat) : Prop := In i (held (thr s t)).

Lemma slot_exclusive : forall cfg s, reach cfg s ->
  forall t1 t2 i, t1 <> t2 -> holds s t1 i -> ~ holds s t2 i.
Proof.
  intros cfg s Hr t1 t2 i Hn H1 H2. apply pool_inv_reach in Hr. destruct Hr as [I1 _ _ _].
  assert (A : flags s i = Some t1) by (apply I1; now left).
  assert (B : flags s i = Some t2) by (apply I1; now left).
  congruence.
Qed.

(* also against requests in flight: a slot whose flag a requester has just set is nobody's *)
Lemma slot_exclusive_inflight : forall cfg s, reach cfg s ->
  forall t1 t2 i, t1 <> t2 -> ownsT (thr s t1) i -> ~ ownsT (thr s t2) i.
Proof.
  intros cfg s Hr t1 t2 i Hn H1 H2. apply pool_inv_reach in Hr. destruct Hr as [I1 _ _ _].
  apply I1 in H1. apply I1 in H2. congruence.
Qed.

Lemma held_once : forall cfg s, reach cfg s -> forall t, NoDup (held (thr s t)).
Proof. intros cfg s Hr. apply pool_inv_reach in Hr. apply Hr. Qed.

(* the flag of a slot is set exactly while somebody owns it *)
Lemma flag_iff_owned : forall cfg s, reach cfg s ->
  forall i, is_some (flags s i) = true <-> exists t, ownsT (thr s t) i.
Proof.
  intros cfg s Hr i. apply pool_inv_reach in Hr. destruct Hr as [I1 _ _ _]. split.
  - destruct (flags s i) as [t|] eqn:E; simpl; try discriminate. intros _. exists t. now apply I1.
  - intros [t Ho]. apply I1 in Ho. now rewrite Ho.
Qed.
