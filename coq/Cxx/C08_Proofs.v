(* C08: inductive invariants of the interleaving model of Cxx/C08_Defs.v, for every configuration
   (number of threads, pool size, task table), every schedule and all clients obeying the contract. *)
From Coq Require Import NArith ZArith List Bool Arith Lia Permutation.
From CMI Require Import Cxx.C08_Defs.
Import ListNotations.

(* ------------------------------------------------------------------------------------------ *)
(* generic facts *)
Arguments upd : simpl never.
Lemma upd_same : forall A (m : nat -> A) k v, upd m k v k = v.
Proof. intros. unfold upd. now rewrite Nat.eqb_refl. Qed.
Lemma upd_other : forall A (m : nat -> A) k v j, j <> k -> upd m k v j = m j.
Proof. intros. unfold upd. destruct (Nat.eqb j k) eqn:E; auto. apply Nat.eqb_eq in E. contradiction. Qed.

Lemma memb_In : forall x l, memb x l = true <-> In x l.
Proof.
  intros. unfold memb. rewrite existsb_exists. split.
  - intros [y [Hy E]]. apply Nat.eqb_eq in E. now subst.
  - intros H. exists x. split; auto. apply Nat.eqb_refl.
Qed.

Lemma remove1_In : forall x y l, In y (remove1 x l) -> In y l.
Proof.
  induction l; simpl; auto. destruct (Nat.eqb x a); simpl; intuition.
Qed.
Lemma remove1_In_other : forall x y l, y <> x -> In y l -> In y (remove1 x l).
Proof.
  induction l; simpl; auto. intros Hn [H|H].
  - subst. destruct (Nat.eqb x y) eqn:E. apply Nat.eqb_eq in E. congruence. now left.
  - destruct (Nat.eqb x a); simpl; auto.
Qed.
Lemma remove1_NoDup : forall x l, NoDup l -> NoDup (remove1 x l).
Proof.
  induction l; simpl; auto. intros H. inversion H; subst.
  destruct (Nat.eqb x a); auto. constructor; auto. intro Hc. apply remove1_In in Hc. contradiction.
Qed.
Lemma remove1_NoDup_notin : forall x l, NoDup l -> ~ In x (remove1 x l).
Proof.
  induction l; simpl; auto. intros H. inversion H; subst.
  destruct (Nat.eqb x a) eqn:E.
  - apply Nat.eqb_eq in E. now subst.
  - simpl. intros [Hc|Hc]. subst. rewrite Nat.eqb_refl in E. discriminate. now apply IHl.
Qed.
Lemma remove1_length : forall x l, In x l -> S (length (remove1 x l)) = length l.
Proof.
  induction l; simpl. contradiction. intros H.
  destruct (Nat.eqb x a) eqn:E; auto. simpl. f_equal. apply IHl.
  destruct H; auto. subst. rewrite Nat.eqb_refl in E. discriminate.
Qed.
Lemma remove1_perm : forall x l, In x l -> Permutation l (x :: remove1 x l).
Proof.
  induction l; simpl. contradiction. intros H.
  destruct (Nat.eqb x a) eqn:E.
  - apply Nat.eqb_eq in E. now subst.
  - destruct H. subst. rewrite Nat.eqb_refl in E. discriminate.
    eapply perm_trans. apply perm_skip. apply IHl; auto. apply perm_swap.
Qed.

(* case analysis over one step: every [match] of [exec] is split, the invariant stays folded *)
Ltac exec_leaves :=
  unfold exec, start, dep_done, scan, finish_same;
  repeat match goal with |- context[match ?x with _ => _ end] => destruct x eqn:? end;
  cbn [fst snd].

(* invariants that do not mention the log carry over from [exec] to [step] *)
Lemma step_fst : forall cfg s t c, fst (step cfg s t c) = set_hist (fst (exec cfg s t c)) (snd (exec cfg s t c) :: hist s).
Proof. intros. unfold step. destruct (exec cfg s t c). reflexivity. Qed.
Lemma step_snd : forall cfg s t c, snd (step cfg s t c) = snd (exec cfg s t c).
Proof. intros. unfold step. destruct (exec cfg s t c). reflexivity. Qed.

Lemma reach_ind_exec : forall cfg (P : sys -> Prop),
  P (init cfg) ->
  (forall s h, P s -> P (set_hist s h)) ->
  (forall s t c, reach cfg s -> P s -> wf_choice s t c = true -> P (fst (exec cfg s t c))) ->
  forall s, reach cfg s -> P s.
Proof.
  intros cfg P Hi Hh Hs s Hr. induction Hr; auto.
  rewrite step_fst. apply Hh. apply Hs; auto.
Qed.

Lemma reachable_wf_reach : forall cfg s, reachable_wf cfg s <-> reach cfg s.
Proof.
  intros cfg s. split.
  - intros [sched [Hwf Hs]]. subst s.
    assert (G : forall sc s0, reach cfg s0 -> wf_sched cfg sc s0 = true -> reach cfg (run cfg sc s0)).
    { induction sc as [|[t c] r IH]; simpl; intros s0 Hr Hw; auto.
      apply andb_true_iff in Hw. destruct Hw as [Hw1 Hw2]. apply IH; auto. now apply reach_step. }
    apply G; auto. constructor.
  - intros Hr. induction Hr.
    + exists []. split; reflexivity.
    + destruct IHHr as [sched [Hw Hs]]. exists (sched ++ [(t, c)]). subst s.
      assert (G : forall sc s0, wf_sched cfg sc s0 = true -> wf_choice (run cfg sc s0) t c = true ->
                  wf_sched cfg (sc ++ [(t, c)]) s0 = true /\ run cfg (sc ++ [(t, c)]) s0 = fst (step cfg (run cfg sc s0) t c)).
      { induction sc as [|[t1 c1] r IH]; simpl; intros s0 Hw0 Hc.
        - rewrite Hc. auto.
        - apply andb_true_iff in Hw0. destruct Hw0 as [Ha Hb]. rewrite Ha. simpl. apply IH; auto. }
      destruct (G sched (init cfg) Hw H) as [G1 G2]. split; auto.
Qed.

(* ------------------------------------------------------------------------------------------ *)
(* pool: who owns a slot *)
Definition pc_slot (p : pc) : option nat :=
  match p with
  | G_incTaken i | G_maxLoad i _ | G_maxCas i _ _ _ | G_totInc i => Some i
  | _ => None
  end.
Definition ownsT (ts : tstate) (i : nat) : Prop := In i (held ts) \/ pc_slot (tpc ts) = Some i.

Record pool_inv (s : sys) : Prop := mkPoolInv {
  pi_flag : forall i t, flags s i = Some t <-> ownsT (thr s t) i;
  pi_nodup : forall t, NoDup (held (thr s t));
  pi_fresh : forall t i, pc_slot (tpc (thr s t)) = Some i -> ~ In i (held (thr s t));
  pi_free : forall t i, tpc (thr s t) = F_cas i -> In i (held (thr s t)) }.

(* a step of thread t0 that leaves the flags alone and does not change what t0 owns *)
Lemma pool_frame : forall s s' t0,
  pool_inv s ->
  flags s' = flags s ->
  (forall t, t <> t0 -> thr s' t = thr s t) ->
  held (thr s' t0) = held (thr s t0) ->
  pc_slot (tpc (thr s' t0)) = pc_slot (tpc (thr s t0)) ->
  (forall i, tpc (thr s' t0) = F_cas i -> In i (held (thr s t0))) ->
  pool_inv s'.
Proof.
  intros s s' t0 [I1 I2 I3 I4] Hf Ho Hh Hp Hfr.
  assert (E : forall t i, ownsT (thr s' t) i <-> ownsT (thr s t) i).
  { intros t i. destruct (Nat.eq_dec t t0) as [->|Hn].
    - unfold ownsT. rewrite Hh, Hp. tauto.
    - rewrite Ho; tauto. }
  constructor.
  - intros i t. rewrite Hf, E. apply I1.
  - intros t. destruct (Nat.eq_dec t t0) as [->|Hn]. rewrite Hh. apply I2. rewrite Ho; auto.
  - intros t i. destruct (Nat.eq_dec t t0) as [->|Hn]. rewrite Hh, Hp. apply I3. rewrite Ho; auto.
  - intros t i. destruct (Nat.eq_dec t t0) as [->|Hn]. rewrite Hh. apply Hfr. rewrite Ho; auto.
Qed.

Lemma pool_inv_init : forall cfg, pool_inv (init cfg).
Proof.
  intros. constructor; simpl; intros.
  - unfold ownsT. simpl. split. discriminate. intros [[]|H]; discriminate.
  - constructor.
  - discriminate.
  - discriminate.
Qed.

Ltac frame_tac t :=
  eapply pool_frame with (t0 := t); [eassumption | reflexivity
   | intros; cbn; rewrite ?upd_other by assumption; reflexivity
   | cbn; rewrite ?upd_same; cbn; rewrite ?upd_same; reflexivity
   | cbn; rewrite ?upd_same; cbn; rewrite ?upd_same; cbn;
     repeat match goal with H : tpc _ = _ |- _ => rewrite H end; reflexivity
   | cbn; rewrite ?upd_same; cbn; rewrite ?upd_same; cbn; intros; discriminate ].

Lemma pool_inv_exec : forall cfg s t c, pool_inv s -> wf_choice s t c = true -> pool_inv (fst (exec cfg s t c)).
Proof.
  intros cfg s t c I W.
  exec_leaves; try assumption; try (frame_tac t; fail).
  - (* start of free_element(i): the contract *)
    eapply pool_frame with (t0 := t); [eassumption | reflexivity
      | intros; cbn; rewrite ?upd_other by assumption; reflexivity
      | cbn; rewrite ?upd_same; cbn; rewrite ?upd_same; reflexivity
      | cbn; rewrite ?upd_same; cbn; rewrite ?upd_same; cbn; rewrite Heqp; reflexivity | ].
    cbn; rewrite ?upd_same; cbn. intros j Hj. injection Hj as <-.
    unfold wf_choice in W. rewrite Heqp in W. now apply memb_In.
  - (* G_cas succeeds: the flag was clear, so nobody owned slot i *)
    destruct I as [I1 I2 I3 I4].
    assert (Hno : forall t', ~ ownsT (thr s t') i).
    { intros t' Ho. apply I1 in Ho. congruence. }
    constructor; cbn.
    + intros j t'. destruct (Nat.eq_dec t' t) as [->|Hn].
      * rewrite upd_same. unfold ownsT. cbn. destruct (Nat.eq_dec j i) as [->|Hj].
        -- rewrite upd_same. split; auto.
        -- rewrite upd_other by auto. rewrite I1. unfold ownsT. rewrite Heqp. cbn. split.
           ++ intros [H|H]; auto. discriminate.
           ++ intros [H|H]; auto. congruence.
      * rewrite (upd_other _ (thr s)) by auto. destruct (Nat.eq_dec j i) as [->|Hj].
        -- rewrite upd_same. split. congruence. intros Ho. elim (Hno _ Ho).
        -- rewrite upd_other by auto. apply I1.
    + intros t'. destruct (Nat.eq_dec t' t) as [->|Hn]. rewrite upd_same. apply I2. rewrite upd_other by auto. apply I2.
    + intros t' j. destruct (Nat.eq_dec t' t) as [->|Hn].
      * rewrite upd_same. cbn. intros E. injection E as <-. intros Hc. apply (Hno t). now left.
      * rewrite upd_other by auto. apply I3.
    + intros t' j. destruct (Nat.eq_dec t' t) as [->|Hn]. rewrite upd_same. cbn. discriminate. rewrite upd_other by auto. apply I4.
  - (* G_totInc: the slot moves from "in flight" to the client's view *)
    destruct I as [I1 I2 I3 I4].
    constructor; cbn.
    + intros j t'. rewrite I1. destruct (Nat.eq_dec t' t) as [->|Hn].
      * rewrite upd_same. unfold ownsT. rewrite Heqp. cbn. split.
        -- intros [H|H]; auto. injection H as ->. auto.
        -- intros [[H|H]|H]; auto. subst. auto. discriminate.
      * rewrite upd_other by auto. tauto.
    + intros t'. destruct (Nat.eq_dec t' t) as [->|Hn].
      * rewrite upd_same. cbn. constructor. apply I3. now rewrite Heqp. apply I2.
      * rewrite upd_other by auto. apply I2.
    + intros t' j. destruct (Nat.eq_dec t' t) as [->|Hn]. rewrite upd_same. cbn. discriminate. rewrite upd_other by auto. apply I3.
    + intros t' j. destruct (Nat.eq_dec t' t) as [->|Hn]. rewrite upd_same. cbn. discriminate. rewrite upd_other by auto. apply I4.
  - (* F_cas: the owner clears the flag *)
    destruct I as [I1 I2 I3 I4].
    assert (Hin : In i (held (thr s t))) by (apply I4; auto).
    assert (Hfl : flags s i = Some t) by (apply I1; now left).
    constructor; cbn.
    + intros j t'. destruct (Nat.eq_dec t' t) as [->|Hn].
      * rewrite upd_same. unfold ownsT. cbn. destruct (Nat.eq_dec j i) as [->|Hj].
        -- rewrite upd_same. split. discriminate. intros [H|H]. elim (remove1_NoDup_notin i _ (I2 t) H). discriminate.
        -- rewrite upd_other by auto. rewrite I1. unfold ownsT. rewrite Heqp. cbn. split.
           ++ intros [H|H]. left. apply remove1_In_other; auto. discriminate.
           ++ intros [H|H]. left. eapply remove1_In; eauto. discriminate.
      * rewrite (upd_other _ (thr s)) by auto. destruct (Nat.eq_dec j i) as [->|Hj].
        -- rewrite upd_same. split. discriminate. intros Ho. apply I1 in Ho. congruence.
        -- rewrite upd_other by auto. apply I1.
    + intros t'. destruct (Nat.eq_dec t' t) as [->|Hn]. rewrite upd_same. cbn. apply remove1_NoDup. apply I2. rewrite upd_other by auto. apply I2.
    + intros t' j. destruct (Nat.eq_dec t' t) as [->|Hn]. rewrite upd_same. cbn. discriminate. rewrite upd_other by auto. apply I3.
    + intros t' j. destruct (Nat.eq_dec t' t) as [->|Hn]. rewrite upd_same. cbn. discriminate. rewrite upd_other by auto. apply I4.
Qed.

Lemma pool_inv_hist : forall s h, pool_inv s -> pool_inv (set_hist s h).
Proof. intros s h [I1 I2 I3 I4]. constructor; auto. Qed.

Lemma pool_inv_reach : forall cfg s, reach cfg s -> pool_inv s.
Proof.
  intros cfg. apply reach_ind_exec.
  - apply pool_inv_init.
  - apply pool_inv_hist.
  - intros. now apply pool_inv_exec.
Qed.

(* the client's view: slot i has been returned to thread t and not yet freed *)
Definition holds (s : sys) (t i : nat) : Prop := In i (held (thr s t)).

Lemma slot_exclusive : forall cfg s, reach cfg s ->
  forall t1 t2 i, t1 <> t2 -> holds s t1 i -> ~ holds s t2 i.
Proof.
  intros cfg s Hr t1 t2 i Hn H1 H2. apply pool_inv_reach in Hr. destruct Hr as [I1 _ _ _].
  assert (A : flags s i = Some t1) by (apply I1; now left).
  assert (B : flags s i = Some t2) by (apply I1; now left).
  congruence.
Qed.

(* also against requests in flight: a slot whose flag a requester has just set is nobody's *)
Lemma slot_exclusive_inflight : forall cfg s, reach cfg s ->
  forall t1 t2 i, t1 <> t2 -> ownsT (thr s t1) i -> ~ ownsT (thr s t2) i.
Proof.
  intros cfg s Hr t1 t2 i Hn H1 H2. apply pool_inv_reach in Hr. destruct Hr as [I1 _ _ _].
  apply I1 in H1. apply I1 in H2. congruence.
Qed.

Lemma held_once : forall cfg s, reach cfg s -> forall t, NoDup (held (thr s t)).
Proof. intros cfg s Hr. apply pool_inv_reach in Hr. apply Hr. Qed.

(* the flag of a slot is set exactly while somebody owns it *)
Lemma flag_iff_owned : forall cfg s, reach cfg s ->
  forall i, is_some (flags s i) = true <-> exists t, ownsT (thr s t) i.
Proof.
  intros cfg s Hr i. apply pool_inv_reach in Hr. destruct Hr as [I1 _ _ _]. split.
  - destruct (flags s i) as [t|] eqn:E; simpl; try discriminate. intros _. exists t. now apply I1.
  - intros [t Ho]. apply I1 in Ho. now rewrite Ho.
Qed.

(* ------------------------------------------------------------------------------------------ *)
(* pool: the occupancy counter *)
Local Open Scope Z_scope.

Fixpoint sumf (f : nat -> Z) (n : nat) : Z :=
  match n with O => 0 | S k => sumf f k + f k end.

Lemma sumf_ext : forall f g n, (forall i, (i < n)%nat -> f i = g i) -> sumf f n = sumf g n.
Proof.
  induction n; simpl; intros; auto. rewrite IHn, H; auto.
Qed.
Lemma sumf_upd : forall f g n k, (k < n)%nat -> (forall i, i <> k -> g i = f i) -> sumf g n = sumf f n - f k + g k.
Proof.
  induction n; simpl; intros k Hk He. lia.
  destruct (Nat.eq_dec k n) as [->|Hn].
  - rewrite (sumf_ext g f n). lia. intros. apply He. lia.
  - rewrite (IHn k), (He n); auto; lia.
Qed.
Lemma sumf_zero : forall f n, (forall i, (i < n)%nat -> f i = 0) -> sumf f n = 0.
Proof. induction n; simpl; intros; auto. rewrite IHn, H; auto. Qed.
Lemma sumf_bounds : forall f g n, (forall i, (i < n)%nat -> 0 <= f i <= g i) -> 0 <= sumf f n <= sumf g n.
Proof.
  induction n; simpl; intros. lia. specialize (IHn (fun i Hi => H i (Nat.lt_lt_succ_r _ _ Hi))).
  specialize (H n (Nat.lt_succ_diag_r n)). lia.
Qed.

Definition b2z (b : bool) : Z := if b then 1 else 0.
Definition WZ : Z := Z.of_N WORD.

Definition contrib (p : pc) : Z :=
  match p with G_incTaken _ => -1 | F_dec _ => 1 | _ => 0 end.
Definition ownc (ts : tstate) : Z :=
  Z.of_nat (length (held ts)) + b2z (is_some (pc_slot (tpc ts))).
Definition nset (cfg : config) (s : sys) : Z := sumf (fun i => b2z (is_some (flags s i))) (psize cfg).

Record occ_inv (cfg : config) (s : sys) : Prop := mkOccInv {
  oi_taken : Z.of_N (taken s) = (nset cfg s + sumf (fun t => contrib (tpc (thr s t))) (nthr cfg)) mod WZ;
  oi_nset : nset cfg s = sumf (fun t => ownc (thr s t)) (nthr cfg);
  oi_range : forall i, flags s i <> None -> (i < psize cfg)%nat;
  oi_cas : forall t i, tpc (thr s t) = G_cas i -> (i < psize cfg)%nat }.

Lemma winc_Z : forall v, Z.of_N (winc v) = (Z.of_N v + 1) mod WZ.
Proof. intros. unfold winc, WZ. rewrite N2Z.inj_mod, N2Z.inj_add. reflexivity. Qed.
Lemma wdec_Z : forall v, Z.of_N (wdec v) = (Z.of_N v - 1) mod WZ.
Proof.
  intros. unfold wdec, WZ. rewrite N2Z.inj_mod, N2Z.inj_add, N2Z.inj_sub by (unfold WORD; lia).
  change (Z.of_N 1) with 1. replace (Z.of_N v + (Z.of_N WORD - 1)) with (Z.of_N v - 1 + 1 * Z.of_N WORD) by lia.
  apply Z_mod_plus_full.
Qed.

Lemma occ_frame : forall cfg s s' t0,
  occ_inv cfg s ->
  flags s' = flags s -> taken s' = taken s ->
  (forall t, t <> t0 -> thr s' t = thr s t) ->
  contrib (tpc (thr s' t0)) = contrib (tpc (thr s t0)) ->
  ownc (thr s' t0) = ownc (thr s t0) ->
  (forall i, tpc (thr s' t0) = G_cas i -> (i < psize cfg)%nat) ->
  occ_inv cfg s'.
Proof.
  intros cfg s s' t0 [O1 O2 O3 O4] Hf Ht Ho Hc Hw Hg.
  assert (E : forall t, thr s' t = thr s t \/ t = t0).
  { intros t. destruct (Nat.eq_dec t t0); auto. }
  assert (N : nset cfg s' = nset cfg s) by (unfold nset; now rewrite Hf).
  constructor.
  - rewrite Ht, N, O1. f_equal. f_equal. apply sumf_ext. intros t _. destruct (E t) as [->| ->]; auto.
  - rewrite N, O2. apply sumf_ext. intros t _. destruct (E t) as [->| ->]; auto.
  - rewrite Hf. auto.
  - intros t i. destruct (E t) as [->| ->]; auto. apply O4.
Qed.

Lemma occ_inv_init : forall cfg, occ_inv cfg (init cfg).
Proof.
  intros. constructor; simpl.
  - unfold nset. simpl. rewrite !sumf_zero; auto.
  - unfold nset. simpl. rewrite !sumf_zero; auto.
  - congruence.
  - discriminate.
Qed.

Lemma occ_step : forall cfg s s' t0 a dn,
  occ_inv cfg s -> (t0 < nthr cfg)%nat ->
  (forall t, t <> t0 -> thr s' t = thr s t) ->
  nset cfg s' = nset cfg s + dn ->
  ownc (thr s' t0) = ownc (thr s t0) + dn ->
  (taken s' = taken s /\ a = 0 \/ taken s' = winc (taken s) /\ a = 1 \/ taken s' = wdec (taken s) /\ a = -1) ->
  contrib (tpc (thr s' t0)) = contrib (tpc (thr s t0)) + a - dn ->
  (forall i, flags s' i <> None -> (i < psize cfg)%nat) ->
  (forall i, tpc (thr s' t0) = G_cas i -> (i < psize cfg)%nat) ->
  occ_inv cfg s'.
Proof.
  intros cfg s s' t0 a dn [O1 O2 O3 O4] Hlt Ho Hn Hw Ht Hc Hr Hg.
  assert (S1 : forall f : tstate -> Z, sumf (fun t => f (thr s' t)) (nthr cfg) = sumf (fun t => f (thr s t)) (nthr cfg) - f (thr s t0) + f (thr s' t0)).
  { intros f. apply (sumf_upd (fun t => f (thr s t)) (fun t => f (thr s' t))); auto. intros i Hi. now rewrite Ho. }
  assert (T : Z.of_N (taken s') = (Z.of_N (taken s) + a) mod WZ).
  { destruct Ht as [[-> ->]|[[-> ->]|[-> ->]]].
    - rewrite Z.add_0_r, O1. now rewrite Z.mod_mod by (unfold WZ, WORD; simpl; lia).
    - apply winc_Z.
    - apply wdec_Z. }
  constructor.
  - rewrite T, O1, Zplus_mod_idemp_l. f_equal.
    rewrite (S1 (fun ts => contrib (tpc ts))), Hn, Hc. lia.
  - rewrite Hn, O2, (S1 ownc), Hw. lia.
  - auto.
  - intros t i. destruct (Nat.eq_dec t t0) as [->|Hne]; auto. rewrite Ho; auto. apply O4.
Qed.

Lemma nset_upd : forall cfg s s' i v, (i < psize cfg)%nat -> flags s' = upd (flags s) i v ->
  nset cfg s' = nset cfg s - b2z (is_some (flags s i)) + b2z (is_some v).
Proof.
  intros cfg s s' i v Hi Hf. unfold nset. rewrite Hf.
  rewrite (sumf_upd (fun j => b2z (is_some (flags s j))) (fun j => b2z (is_some (upd (flags s) i v j))) (psize cfg) i); auto.
  - now rewrite upd_same.
  - intros j Hj. now rewrite upd_other.
Qed.

Ltac occ_frame_tac t :=
  eapply occ_frame with (t0 := t); [eassumption | reflexivity | reflexivity
   | intros; cbn; rewrite ?upd_other by assumption; reflexivity
   | cbn; rewrite ?upd_same; cbn; rewrite ?upd_same; cbn;
     repeat match goal with H : tpc _ = _ |- _ => rewrite H end; reflexivity
   | unfold ownc; cbn; rewrite ?upd_same; cbn; rewrite ?upd_same; cbn;
     repeat match goal with H : tpc _ = _ |- _ => rewrite H end; reflexivity
   | cbn; rewrite ?upd_same; cbn; rewrite ?upd_same; cbn; intros; discriminate ].

Lemma occ_inv_exec : forall cfg s t c, (0 < psize cfg)%nat -> pool_inv s -> occ_inv cfg s -> wf_choice s t c = true ->
  occ_inv cfg (fst (exec cfg s t c)).
Proof.
  intros cfg s t c Hps P I W.
  exec_leaves; try assumption; try (occ_frame_tac t; fail).
  all: assert (Ht : (t < nthr cfg)%nat) by (apply negb_false_iff in Heqb; now apply Nat.ltb_lt in Heqb).
  - (* G_fetchCur *)
    eapply occ_frame with (t0 := t); [eassumption | reflexivity | reflexivity
      | intros; cbn; rewrite ?upd_other by assumption; reflexivity
      | cbn; rewrite ?upd_same; cbn; rewrite Heqp; reflexivity
      | unfold ownc; cbn; rewrite ?upd_same; cbn; rewrite Heqp; reflexivity | ].
    cbn. rewrite upd_same. cbn. intros j Hj. injection Hj as <-.
    assert (cursor s mod N.of_nat (psize cfg) < N.of_nat (psize cfg))%N by (apply N.mod_lt; lia).
    lia.
  - (* G_cas succeeds *)
    assert (Hi : (i < psize cfg)%nat) by (eapply oi_cas; eauto).
    eapply occ_step with (t0 := t) (a := 0) (dn := 1); [eassumption | assumption
      | intros; cbn; rewrite ?upd_other by assumption; reflexivity | | | left; split; reflexivity | | | ].
    + rewrite (nset_upd cfg s _ i (Some t)); auto. rewrite Heqo. simpl. lia.
    + unfold ownc. cbn. rewrite upd_same. cbn. rewrite Heqp. cbn. lia.
    + cbn. rewrite upd_same. cbn. rewrite Heqp. reflexivity.
    + cbn. intros j. destruct (Nat.eq_dec j i) as [->|Hj]; auto. rewrite upd_other by auto. apply (oi_range _ _ I).
    + cbn. rewrite upd_same. cbn. discriminate.
  - (* G_incTaken *)
    eapply occ_step with (t0 := t) (a := 1) (dn := 0); [eassumption | assumption
      | intros; cbn; rewrite ?upd_other by assumption; reflexivity | | | right; left; split; reflexivity | | | ].
    + unfold nset. cbn. lia.
    + unfold ownc. cbn. rewrite upd_same. cbn. rewrite Heqp. cbn. lia.
    + cbn. rewrite upd_same. cbn. rewrite Heqp. reflexivity.
    + cbn. apply (oi_range _ _ I).
    + cbn. rewrite upd_same. cbn. discriminate.
  - (* G_totInc *)
    eapply occ_step with (t0 := t) (a := 0) (dn := 0); [eassumption | assumption
      | intros; cbn; rewrite ?upd_other by assumption; reflexivity | | | left; split; reflexivity | | | ].
    + unfold nset. cbn. lia.
    + unfold ownc. cbn [finish set_total set_thr thr]. rewrite upd_same. cbn [held tpc]. rewrite Heqp. cbn [pc_slot is_some b2z length]. lia.
    + cbn. rewrite upd_same. cbn. rewrite Heqp. reflexivity.
    + cbn. apply (oi_range _ _ I).
    + cbn. rewrite upd_same. cbn. discriminate.
  - (* F_cas *)
    assert (Hin : In i (held (thr s t))) by (apply (pi_free _ P); auto).
    assert (Hfl : flags s i = Some t) by (apply (pi_flag _ P); now left).
    assert (Hi : (i < psize cfg)%nat) by (apply (oi_range _ _ I); congruence).
    eapply occ_step with (t0 := t) (a := 0) (dn := -1); [eassumption | assumption
      | intros; cbn; rewrite ?upd_other by assumption; reflexivity | | | left; split; reflexivity | | | ].
    + rewrite (nset_upd cfg s _ i None); auto. rewrite Hfl. simpl. lia.
    + unfold ownc. cbn [set_flags set_thr thr]. rewrite upd_same. cbn [held tpc]. rewrite Heqp. cbn [pc_slot is_some b2z].
      rewrite <- (remove1_length i (held (thr s t))) by auto. lia.
    + cbn. rewrite upd_same. cbn. rewrite Heqp. reflexivity.
    + cbn. intros j. destruct (Nat.eq_dec j i) as [->|Hj]. rewrite upd_same. congruence. rewrite upd_other by auto. apply (oi_range _ _ I).
    + cbn. rewrite upd_same. cbn. discriminate.
  - (* F_dec *)
    eapply occ_step with (t0 := t) (a := -1) (dn := 0); [eassumption | assumption
      | intros; cbn; rewrite ?upd_other by assumption; reflexivity | | | right; right; split; reflexivity | | | ].
    + unfold nset. cbn. lia.
    + unfold ownc. cbn. rewrite upd_same. cbn. rewrite Heqp. cbn. lia.
    + cbn. rewrite upd_same. cbn. rewrite Heqp. reflexivity.
    + cbn. apply (oi_range _ _ I).
    + cbn. rewrite upd_same. cbn. discriminate.
Qed.

Lemma occ_inv_hist : forall cfg s h, occ_inv cfg s -> occ_inv cfg (set_hist s h).
Proof. intros cfg s h [O1 O2 O3 O4]. constructor; auto. Qed.

Lemma occ_inv_reach : forall cfg s, (0 < psize cfg)%nat -> reach cfg s -> occ_inv cfg s.
Proof.
  intros cfg s Hp. apply reach_ind_exec.
  - apply occ_inv_init.
  - apply occ_inv_hist.
  - intros. apply occ_inv_exec; auto. eapply pool_inv_reach; eauto.
Qed.

Lemma filter_count_sumf : forall (f : nat -> bool) n,
  Z.of_nat (length (filter f (seq 0 n))) = sumf (fun i => b2z (f i)) n.
Proof.
  induction n. reflexivity.
  rewrite seq_S, filter_app, app_length, Nat2Z.inj_add, IHn. simpl. destruct (f n); reflexivity.
Qed.
Lemma fold_count_sumf : forall (g : nat -> nat) n,
  Z.of_nat (fold_right (fun t a => (g t + a)%nat) 0%nat (seq 0 n)) = sumf (fun t => Z.of_nat (g t)) n.
Proof.
  intros g n.
  assert (G : forall l b, fold_right (fun t a => (g t + a)%nat) b l = (fold_right (fun t a => (g t + a)%nat) 0%nat l + b)%nat).
  { induction l; simpl; intros; auto. rewrite IHl. lia. }
  induction n. reflexivity.
  rewrite seq_S, fold_right_app, G. simpl. rewrite Nat2Z.inj_add, IHn. lia.
Qed.

Lemma count_flags_nset : forall cfg s, Z.of_nat (count_flags cfg s) = nset cfg s.
Proof. intros. unfold count_flags, nset. apply filter_count_sumf. Qed.
Lemma count_held_sumf : forall cfg s, Z.of_nat (count_held cfg s) = sumf (fun t => Z.of_nat (length (held (thr s t)))) (nthr cfg).
Proof. intros. unfold count_held. apply (fold_count_sumf (fun t => length (held (thr s t)))). Qed.

Lemma nset_le_psize : forall cfg s, 0 <= nset cfg s <= Z.of_nat (psize cfg).
Proof.
  intros. unfold nset. generalize (psize cfg). induction n; simpl. lia.
  destruct (is_some (flags s n)); simpl; lia.
Qed.

(* occupancy counter = slots held = flags set, whenever no operation is in flight *)
Lemma occupancy_exact_when_quiescent : forall cfg s,
  (0 < psize cfg)%nat -> (N.of_nat (psize cfg) < WORD)%N -> reach cfg s -> quiescent cfg s ->
  N.to_nat (taken s) = count_held cfg s /\ count_held cfg s = count_flags cfg s.
Proof.
  intros cfg s Hp Hw Hr Hq. destruct (occ_inv_reach cfg s Hp Hr) as [O1 O2 _ _].
  assert (C0 : sumf (fun t => contrib (tpc (thr s t))) (nthr cfg) = 0).
  { apply sumf_zero. intros t Ht. now rewrite (Hq t Ht). }
  assert (H1 : nset cfg s = Z.of_nat (count_held cfg s)).
  { rewrite O2, count_held_sumf. apply sumf_ext. intros t Ht. unfold ownc. rewrite (Hq t Ht). simpl. lia. }
  rewrite C0, Z.add_0_r in O1.
  pose proof (nset_le_psize cfg s) as B.
  rewrite Z.mod_small in O1 by (unfold WZ; lia).
  split.
  - apply Nat2Z.inj. rewrite <- H1, <- O1. now rewrite N_nat_Z.
  - apply Nat2Z.inj. now rewrite <- H1, count_flags_nset.
Qed.

(* with operations in flight the counter is off by at most their number (and never too low) *)
Lemma occupancy_inflight_bound : forall cfg s,
  (0 < psize cfg)%nat -> reach cfg s ->
  exists d, 0 <= d <= Z.of_nat (inflight cfg s) /\ Z.of_N (taken s) = (Z.of_nat (count_held cfg s) + d) mod WZ.
Proof.
  intros cfg s Hp Hr. destruct (occ_inv_reach cfg s Hp Hr) as [O1 O2 _ _].
  set (f := fun t => b2z (is_some (pc_slot (tpc (thr s t)))) + contrib (tpc (thr s t))).
  exists (sumf f (nthr cfg)). split.
  - unfold inflight. rewrite filter_count_sumf. apply sumf_bounds. intros t _. unfold f.
    destruct (tpc (thr s t)); simpl; lia.
  - rewrite O1, O2, count_held_sumf. f_equal.
    assert (G : forall n, sumf (fun t => ownc (thr s t)) n + sumf (fun t => contrib (tpc (thr s t))) n
                = sumf (fun t => Z.of_nat (length (held (thr s t)))) n + sumf f n).
    { induction n; simpl. reflexivity. unfold f at 2, ownc at 2. lia. }
    apply G.
Qed.

Local Close Scope Z_scope.
