(* C08: inductive invariants of the interleaving model of Cxx/C08_Defs.v, for every configuration
   (number of threads, pool size, task table), every schedule and all clients obeying the contract. *)
From Coq Require Import NArith ZArith List Bool Arith Lia Permutation.
From CMI Require Import Cxx.C08_Defs.
Import ListNotations.

(* ------------------------------------------------------------------------------------------ *)
(* generic facts *)
Arguments upd : simpl never.
Arguments dep1 : simpl never.
Lemma upd_same : forall A (m : nat -> A) k v, upd m k v k = v.
Proof. intros. unfold upd. now rewrite Nat.eqb_refl. Qed.
Lemma upd_other : forall A (m : nat -> A) k v j, j <> k -> upd m k v j = m j.
Proof. intros. unfold upd. destruct (Nat.eqb j k) eqn:E; auto. apply Nat.eqb_eq in E. contradiction. Qed.

Lemma memb_In : forall x l, memb x l = true <-> In x l.
Proof.
  intros. unfold memb. rewrite existsb_exists. split.
  - intros [y [Hy E]]. apply Nat.eqb_eq in E. now subst.
  - intros H. exists x. split; auto. apply Nat.eqb_refl.
Qed.

Lemma remove1_In : forall x y l, In y (remove1 x l) -> In y l.
Proof.
  induction l; simpl; auto. destruct (Nat.eqb x a); simpl; intuition.
Qed.
Lemma remove1_In_other : forall x y l, y <> x -> In y l -> In y (remove1 x l).
Proof.
  induction l; simpl; auto. intros Hn [H|H].
  - subst. destruct (Nat.eqb x y) eqn:E. apply Nat.eqb_eq in E. congruence. now left.
  - destruct (Nat.eqb x a); simpl; auto.
Qed.
Lemma remove1_NoDup : forall x l, NoDup l -> NoDup (remove1 x l).
Proof.
  induction l; simpl; auto. intros H. inversion H; subst.
  destruct (Nat.eqb x a); auto. constructor; auto. intro Hc. apply remove1_In in Hc. contradiction.
Qed.
Lemma remove1_NoDup_notin : forall x l, NoDup l -> ~ In x (remove1 x l).
Proof.
  induction l; simpl; auto. intros H. inversion H; subst.
  destruct (Nat.eqb x a) eqn:E.
  - apply Nat.eqb_eq in E. now subst.
  - simpl. intros [Hc|Hc]. subst. rewrite Nat.eqb_refl in E. discriminate. now apply IHl.
Qed.
Lemma remove1_length : forall x l, In x l -> S (length (remove1 x l)) = length l.
Proof.
  induction l; simpl. contradiction. intros H.
  destruct (Nat.eqb x a) eqn:E; auto. simpl. f_equal. apply IHl.
  destruct H; auto. subst. rewrite Nat.eqb_refl in E. discriminate.
Qed.
Lemma remove1_perm : forall x l, In x l -> Permutation l (x :: remove1 x l).
Proof.
  induction l; simpl. contradiction. intros H.
  destruct (Nat.eqb x a) eqn:E.
  - apply Nat.eqb_eq in E. now subst.
  - destruct H. subst. rewrite Nat.eqb_refl in E. discriminate.
    eapply perm_trans. apply perm_skip. apply IHl; auto. apply perm_swap.
Qed.

(* case analysis over one step: every [match] of [exec] is split, the invariant stays folded *)
Ltac exec_leaves :=
  unfold exec, start, dep_done, scan, finish_same;
  repeat match goal with |- context[match ?x with _ => _ end] => destruct x eqn:? end;
  cbn [fst snd].

(* invariants that do not mention the log carry over from [exec] to [step] *)
Lemma step_fst : forall cfg s t c, fst (step cfg s t c) = set_hist (fst (exec cfg s t c)) (snd (exec cfg s t c) :: hist s).
Proof. intros. unfold step. destruct (exec cfg s t c). reflexivity. Qed.
Lemma step_snd : forall cfg s t c, snd (step cfg s t c) = snd (exec cfg s t c).
Proof. intros. unfold step. destruct (exec cfg s t c). reflexivity. Qed.

Lemma reach_ind_exec : forall cfg (P : sys -> Prop),
  P (init cfg) ->
  (forall s h, P s -> P (set_hist s h)) ->
  (forall s t c, reach cfg s -> P s -> wf_choice s t c = true -> P (fst (exec cfg s t c))) ->
  forall s, reach cfg s -> P s.
Proof.
  intros cfg P Hi Hh Hs s Hr. induction Hr; auto.
  rewrite step_fst. apply Hh. apply Hs; auto.
Qed.

Lemma reachable_wf_reach : forall cfg s, reachable_wf cfg s <-> reach cfg s.
Proof.
  intros cfg s. split.
  - intros [sched [Hwf Hs]]. subst s.
    assert (G : forall sc s0, reach cfg s0 -> wf_sched cfg sc s0 = true -> reach cfg (run cfg sc s0)).
    { induction sc as [|[t c] r IH]; simpl; intros s0 Hr Hw; auto.
      apply andb_true_iff in Hw. destruct Hw as [Hw1 Hw2]. apply IH; auto. now apply reach_step. }
    apply G; auto. constructor.
  - intros Hr. induction Hr.
    + exists []. split; reflexivity.
    + destruct IHHr as [sched [Hw Hs]]. exists (sched ++ [(t, c)]). subst s.
      assert (G : forall sc s0, wf_sched cfg sc s0 = true -> wf_choice (run cfg sc s0) t c = true ->
                  wf_sched cfg (sc ++ [(t, c)]) s0 = true /\ run cfg (sc ++ [(t, c)]) s0 = fst (step cfg (run cfg sc s0) t c)).
      { induction sc as [|[t1 c1] r IH]; simpl; intros s0 Hw0 Hc.
        - rewrite Hc. auto.
        - apply andb_true_iff in Hw0. destruct Hw0 as [Ha Hb]. rewrite Ha. simpl. apply IH; auto. }
      destruct (G sched (init cfg) Hw H) as [G1 G2]. split; auto.
Qed.

(* ------------------------------------------------------------------------------------------ *)
(* pool: who owns a slot *)
Definition pc_slot (p : pc) : option nat :=
  match p with
  | G_incTaken i | G_maxLoad i _ | G_maxCas i _ _ _ | G_totInc i => Some i
  | _ => None
  end.
Definition ownsT (ts : tstate) (i : nat) : Prop := In i (held ts) \/ pc_slot (tpc ts) = Some i.

Record pool_inv (s : sys) : Prop := mkPoolInv {
  pi_flag : forall i t, flags s i = Some t <-> ownsT (thr s t) i;
  pi_nodup : forall t, NoDup (held (thr s t));
  pi_fresh : forall t i, pc_slot (tpc (thr s t)) = Some i -> ~ In i (held (thr s t));
  pi_free : forall t i, tpc (thr s t) = F_cas i -> In i (held (thr s t)) }.

(* a step of thread t0 that leaves the flags alone and does not change what t0 owns *)
Lemma pool_frame : forall s s' t0,
  pool_inv s ->
  flags s' = flags s ->
  (forall t, t <> t0 -> thr s' t = thr s t) ->
  held (thr s' t0) = held (thr s t0) ->
  pc_slot (tpc (thr s' t0)) = pc_slot (tpc (thr s t0)) ->
  (forall i, tpc (thr s' t0) = F_cas i -> In i (held (thr s t0))) ->
  pool_inv s'.
Proof.
  intros s s' t0 [I1 I2 I3 I4] Hf Ho Hh Hp Hfr.
  assert (E : forall t i, ownsT (thr s' t) i <-> ownsT (thr s t) i).
  { intros t i. destruct (Nat.eq_dec t t0) as [->|Hn].
    - unfold ownsT. rewrite Hh, Hp. tauto.
    - rewrite Ho; tauto. }
  constructor.
  - intros i t. rewrite Hf, E. apply I1.
  - intros t. destruct (Nat.eq_dec t t0) as [->|Hn]. rewrite Hh. apply I2. rewrite Ho; auto.
  - intros t i. destruct (Nat.eq_dec t t0) as [->|Hn]. rewrite Hh, Hp. apply I3. rewrite Ho; auto.
  - intros t i. destruct (Nat.eq_dec t t0) as [->|Hn]. rewrite Hh. apply Hfr. rewrite Ho; auto.
Qed.

Lemma pool_inv_init : forall cfg, pool_inv (init cfg).
Proof.
  intros. constructor; simpl; intros.
  - unfold ownsT. simpl. split. discriminate. intros [[]|H]; discriminate.
  - constructor.
  - discriminate.
  - discriminate.
Qed.

Ltac frame_tac t :=
  eapply pool_frame with (t0 := t); [eassumption | reflexivity
   | intros; cbn; rewrite ?upd_other by assumption; reflexivity
   | cbn; rewrite ?upd_same; cbn; rewrite ?upd_same; reflexivity
   | cbn; rewrite ?upd_same; cbn; rewrite ?upd_same; cbn;
     repeat match goal with H : tpc _ = _ |- _ => rewrite H end; reflexivity
   | cbn; rewrite ?upd_same; cbn; rewrite ?upd_same; cbn; intros; discriminate ].

Lemma pool_inv_exec : forall cfg s t c, pool_inv s -> wf_choice s t c = true -> pool_inv (fst (exec cfg s t c)).
Proof.
  intros cfg s t c I W.
  exec_leaves; try assumption; try (frame_tac t; fail).
  - (* start of free_element(i): the contract *)
    eapply pool_frame with (t0 := t); [eassumption | reflexivity
      | intros; cbn; rewrite ?upd_other by assumption; reflexivity
      | cbn; rewrite ?upd_same; cbn; rewrite ?upd_same; reflexivity
      | cbn; rewrite ?upd_same; cbn; rewrite ?upd_same; cbn; rewrite Heqp; reflexivity | ].
    cbn; rewrite ?upd_same; cbn. intros j Hj. injection Hj as <-.
    unfold wf_choice in W. rewrite Heqp in W. now apply memb_In.
  - (* G_cas succeeds: the flag was clear, so nobody owned slot i *)
    destruct I as [I1 I2 I3 I4].
    assert (Hno : forall t', ~ ownsT (thr s t') i).
    { intros t' Ho. apply I1 in Ho. congruence. }
    constructor; cbn.
    + intros j t'. destruct (Nat.eq_dec t' t) as [->|Hn].
      * rewrite upd_same. unfold ownsT. cbn. destruct (Nat.eq_dec j i) as [->|Hj].
        -- rewrite upd_same. split; auto.
        -- rewrite upd_other by auto. rewrite I1. unfold ownsT. rewrite Heqp. cbn. split.
           ++ intros [H|H]; auto. discriminate.
           ++ intros [H|H]; auto. congruence.
      * rewrite (upd_other _ (thr s)) by auto. destruct (Nat.eq_dec j i) as [->|Hj].
        -- rewrite upd_same. split. congruence. intros Ho. elim (Hno _ Ho).
        -- rewrite upd_other by auto. apply I1.
    + intros t'. destruct (Nat.eq_dec t' t) as [->|Hn]. rewrite upd_same. apply I2. rewrite upd_other by auto. apply I2.
    + intros t' j. destruct (Nat.eq_dec t' t) as [->|Hn].
      * rewrite upd_same. cbn. intros E. injection E as <-. intros Hc. apply (Hno t). now left.
      * rewrite upd_other by auto. apply I3.
    + intros t' j. destruct (Nat.eq_dec t' t) as [->|Hn]. rewrite upd_same. cbn. discriminate. rewrite upd_other by auto. apply I4.
  - (* G_totInc: the slot moves from "in flight" to the client's view *)
    destruct I as [I1 I2 I3 I4].
    constructor; cbn.
    + intros j t'. rewrite I1. destruct (Nat.eq_dec t' t) as [->|Hn].
      * rewrite upd_same. unfold ownsT. rewrite Heqp. cbn. split.
        -- intros [H|H]; auto. injection H as ->. auto.
        -- intros [[H|H]|H]; auto. subst. auto. discriminate.
      * rewrite upd_other by auto. tauto.
    + intros t'. destruct (Nat.eq_dec t' t) as [->|Hn].
      * rewrite upd_same. cbn. constructor. apply I3. now rewrite Heqp. apply I2.
      * rewrite upd_other by auto. apply I2.
    + intros t' j. destruct (Nat.eq_dec t' t) as [->|Hn]. rewrite upd_same. cbn. discriminate. rewrite upd_other by auto. apply I3.
    + intros t' j. destruct (Nat.eq_dec t' t) as [->|Hn]. rewrite upd_same. cbn. discriminate. rewrite upd_other by auto. apply I4.
  - (* F_cas: the owner clears the flag *)
    destruct I as [I1 I2 I3 I4].
    assert (Hin : In i (held (thr s t))) by (apply I4; auto).
    assert (Hfl : flags s i = Some t) by (apply I1; now left).
    constructor; cbn.
    + intros j t'. destruct (Nat.eq_dec t' t) as [->|Hn].
      * rewrite upd_same. unfold ownsT. cbn. destruct (Nat.eq_dec j i) as [->|Hj].
        -- rewrite upd_same. split. discriminate. intros [H|H]. elim (remove1_NoDup_notin i _ (I2 t) H). discriminate.
        -- rewrite upd_other by auto. rewrite I1. unfold ownsT. rewrite Heqp. cbn. split.
           ++ intros [H|H]. left. apply remove1_In_other; auto. discriminate.
           ++ intros [H|H]. left. eapply remove1_In; eauto. discriminate.
      * rewrite (upd_other _ (thr s)) by auto. destruct (Nat.eq_dec j i) as [->|Hj].
        -- rewrite upd_same. split. discriminate. intros Ho. apply I1 in Ho. congruence.
        -- rewrite upd_other by auto. apply I1.
    + intros t'. destruct (Nat.eq_dec t' t) as [->|Hn]. rewrite upd_same. cbn. apply remove1_NoDup. apply I2. rewrite upd_other by auto. apply I2.
    + intros t' j. destruct (Nat.eq_dec t' t) as [->|Hn]. rewrite upd_same. cbn. discriminate. rewrite upd_other by auto. apply I3.
    + intros t' j. destruct (Nat.eq_dec t' t) as [->|Hn]. rewrite upd_same. cbn. discriminate. rewrite upd_other by auto. apply I4.
Qed.

Lemma pool_inv_hist : forall s h, pool_inv s -> pool_inv (set_hist s h).
Proof. intros s h [I1 I2 I3 I4]. constructor; auto. Qed.

Lemma pool_inv_reach : forall cfg s, reach cfg s -> pool_inv s.
Proof.
  intros cfg. apply reach_ind_exec.
  - apply pool_inv_init.
  - apply pool_inv_hist.
  - intros. now apply pool_inv_exec.
Qed.

(* the client's view: slot i has been returned to thread t and not yet freed *)
Definition holds (s : sys) (t i : nat) : Prop := In i (held (thr s t)).

Lemma slot_exclusive : forall cfg s, reach cfg s ->
  forall t1 t2 i, t1 <> t2 -> holds s t1 i -> ~ holds s t2 i.
Proof.
  intros cfg s Hr t1 t2 i Hn H1 H2. apply pool_inv_reach in Hr. destruct Hr as [I1 _ _ _].
  assert (A : flags s i = Some t1) by (apply I1; now left).
  assert (B : flags s i = Some t2) by (apply I1; now left).
  congruence.
Qed.

(* also against requests in flight: a slot whose flag a requester has just set is nobody's *)
Lemma slot_exclusive_inflight : forall cfg s, reach cfg s ->
  forall t1 t2 i, t1 <> t2 -> ownsT (thr s t1) i -> ~ ownsT (thr s t2) i.
Proof.
  intros cfg s Hr t1 t2 i Hn H1 H2. apply pool_inv_reach in Hr. destruct Hr as [I1 _ _ _].
  apply I1 in H1. apply I1 in H2. congruence.
Qed.

Lemma held_once : forall cfg s, reach cfg s -> forall t, NoDup (held (thr s t)).
Proof. intros cfg s Hr. apply pool_inv_reach in Hr. apply Hr. Qed.

(* the flag of a slot is set exactly while somebody owns it *)
Lemma flag_iff_owned : forall cfg s, reach cfg s ->
  forall i, is_some (flags s i) = true <-> exists t, ownsT (thr s t) i.
Proof.
  intros cfg s Hr i. apply pool_inv_reach in Hr. destruct Hr as [I1 _ _ _]. split.
  - destruct (flags s i) as [t|] eqn:E; simpl; try discriminate. intros _. exists t. now apply I1.
  - intros [t Ho]. apply I1 in Ho. now rewrite Ho.
Qed.

(* ------------------------------------------------------------------------------------------ *)
(* pool: the occupancy counter *)
Local Open Scope Z_scope.

Fixpoint sumf (f : nat -> Z) (n : nat) : Z :=
  match n with O => 0 | S k => sumf f k + f k end.

Lemma sumf_ext : forall f g n, (forall i, (i < n)%nat -> f i = g i) -> sumf f n = sumf g n.
Proof.
  induction n; simpl; intros; auto. rewrite IHn, H; auto.
Qed.
Lemma sumf_upd : forall f g n k, (k < n)%nat -> (forall i, i <> k -> g i = f i) -> sumf g n = sumf f n - f k + g k.
Proof.
  induction n; simpl; intros k Hk He. lia.
  destruct (Nat.eq_dec k n) as [->|Hn].
  - rewrite (sumf_ext g f n). lia. intros. apply He. lia.
  - rewrite (IHn k), (He n); auto; lia.
Qed.
Lemma sumf_zero : forall f n, (forall i, (i < n)%nat -> f i = 0) -> sumf f n = 0.
Proof. induction n; simpl; intros; auto. rewrite IHn, H; auto. Qed.
Lemma sumf_bounds : forall f g n, (forall i, (i < n)%nat -> 0 <= f i <= g i) -> 0 <= sumf f n <= sumf g n.
Proof.
  induction n; simpl; intros. lia. specialize (IHn (fun i Hi => H i (Nat.lt_lt_succ_r _ _ Hi))).
  specialize (H n (Nat.lt_succ_diag_r n)). lia.
Qed.

Definition b2z (b : bool) : Z := if b then 1 else 0.
Definition WZ : Z := Z.of_N WORD.

Definition contrib (p : pc) : Z :=
  match p with G_incTaken _ => -1 | F_dec _ => 1 | _ => 0 end.
Definition ownc (ts : tstate) : Z :=
  Z.of_nat (length (held ts)) + b2z (is_some (pc_slot (tpc ts))).
Definition nset (cfg : config) (s : sys) : Z := sumf (fun i => b2z (is_some (flags s i))) (psize cfg).

Record occ_inv (cfg : config) (s : sys) : Prop := mkOccInv {
  oi_taken : Z.of_N (taken s) = (nset cfg s + sumf (fun t => contrib (tpc (thr s t))) (nthr cfg)) mod WZ;
  oi_nset : nset cfg s = sumf (fun t => ownc (thr s t)) (nthr cfg);
  oi_range : forall i, flags s i <> None -> (i < psize cfg)%nat;
  oi_cas : forall t i, tpc (thr s t) = G_cas i -> (i < psize cfg)%nat }.

Lemma winc_Z : forall v, Z.of_N (winc v) = (Z.of_N v + 1) mod WZ.
Proof. intros. unfold winc, WZ. rewrite N2Z.inj_mod, N2Z.inj_add. reflexivity. Qed.
Lemma wdec_Z : forall v, Z.of_N (wdec v) = (Z.of_N v - 1) mod WZ.
Proof.
  intros. unfold wdec, WZ. rewrite N2Z.inj_mod, N2Z.inj_add, N2Z.inj_sub by (unfold WORD; lia).
  change (Z.of_N 1) with 1. replace (Z.of_N v + (Z.of_N WORD - 1)) with (Z.of_N v - 1 + 1 * Z.of_N WORD) by lia.
  apply Z_mod_plus_full.
Qed.

Lemma occ_frame : forall cfg s s' t0,
  occ_inv cfg s ->
  flags s' = flags s -> taken s' = taken s ->
  (forall t, t <> t0 -> thr s' t = thr s t) ->
  contrib (tpc (thr s' t0)) = contrib (tpc (thr s t0)) ->
  ownc (thr s' t0) = ownc (thr s t0) ->
  (forall i, tpc (thr s' t0) = G_cas i -> (i < psize cfg)%nat) ->
  occ_inv cfg s'.
Proof.
  intros cfg s s' t0 [O1 O2 O3 O4] Hf Ht Ho Hc Hw Hg.
  assert (E : forall t, thr s' t = thr s t \/ t = t0).
  { intros t. destruct (Nat.eq_dec t t0); auto. }
  assert (N : nset cfg s' = nset cfg s) by (unfold nset; now rewrite Hf).
  constructor.
  - rewrite Ht, N, O1. f_equal. f_equal. apply sumf_ext. intros t _. destruct (E t) as [->| ->]; auto.
  - rewrite N, O2. apply sumf_ext. intros t _. destruct (E t) as [->| ->]; auto.
  - rewrite Hf. auto.
  - intros t i. destruct (E t) as [->| ->]; auto. apply O4.
Qed.

Lemma occ_inv_init : forall cfg, occ_inv cfg (init cfg).
Proof.
  intros. constructor; simpl.
  - unfold nset. simpl. rewrite !sumf_zero; auto.
  - unfold nset. simpl. rewrite !sumf_zero; auto.
  - congruence.
  - discriminate.
Qed.

Lemma occ_step : forall cfg s s' t0 a dn,
  occ_inv cfg s -> (t0 < nthr cfg)%nat ->
  (forall t, t <> t0 -> thr s' t = thr s t) ->
  nset cfg s' = nset cfg s + dn ->
  ownc (thr s' t0) = ownc (thr s t0) + dn ->
  (taken s' = taken s /\ a = 0 \/ taken s' = winc (taken s) /\ a = 1 \/ taken s' = wdec (taken s) /\ a = -1) ->
  contrib (tpc (thr s' t0)) = contrib (tpc (thr s t0)) + a - dn ->
  (forall i, flags s' i <> None -> (i < psize cfg)%nat) ->
  (forall i, tpc (thr s' t0) = G_cas i -> (i < psize cfg)%nat) ->
  occ_inv cfg s'.
Proof.
  intros cfg s s' t0 a dn [O1 O2 O3 O4] Hlt Ho Hn Hw Ht Hc Hr Hg.
  assert (S1 : forall f : tstate -> Z, sumf (fun t => f (thr s' t)) (nthr cfg) = sumf (fun t => f (thr s t)) (nthr cfg) - f (thr s t0) + f (thr s' t0)).
  { intros f. apply (sumf_upd (fun t => f (thr s t)) (fun t => f (thr s' t))); auto. intros i Hi. now rewrite Ho. }
  assert (T : Z.of_N (taken s') = (Z.of_N (taken s) + a) mod WZ).
  { destruct Ht as [[-> ->]|[[-> ->]|[-> ->]]].
    - rewrite Z.add_0_r, O1. now rewrite Z.mod_mod by (unfold WZ, WORD; simpl; lia).
    - apply winc_Z.
    - apply wdec_Z. }
  constructor.
  - rewrite T, O1, Zplus_mod_idemp_l. f_equal.
    rewrite (S1 (fun ts => contrib (tpc ts))), Hn, Hc. lia.
  - rewrite Hn, O2, (S1 ownc), Hw. lia.
  - auto.
  - intros t i. destruct (Nat.eq_dec t t0) as [->|Hne]; auto. rewrite Ho; auto. apply O4.
Qed.

Lemma nset_upd : forall cfg s s' i v, (i < psize cfg)%nat -> flags s' = upd (flags s) i v ->
  nset cfg s' = nset cfg s - b2z (is_some (flags s i)) + b2z (is_some v).
Proof.
  intros cfg s s' i v Hi Hf. unfold nset. rewrite Hf.
  rewrite (sumf_upd (fun j => b2z (is_some (flags s j))) (fun j => b2z (is_some (upd (flags s) i v j))) (psize cfg) i); auto.
  - now rewrite upd_same.
  - intros j Hj. now rewrite upd_other.
Qed.

Ltac occ_frame_tac t :=
  eapply occ_frame with (t0 := t); [eassumption | reflexivity | reflexivity
   | intros; cbn; rewrite ?upd_other by assumption; reflexivity
   | cbn; rewrite ?upd_same; cbn; rewrite ?upd_same; cbn;
     repeat match goal with H : tpc _ = _ |- _ => rewrite H end; reflexivity
   | unfold ownc; cbn; rewrite ?upd_same; cbn; rewrite ?upd_same; cbn;
     repeat match goal with H : tpc _ = _ |- _ => rewrite H end; reflexivity
   | cbn; rewrite ?upd_same; cbn; rewrite ?upd_same; cbn; intros; discriminate ].

Lemma occ_inv_exec : forall cfg s t c, (0 < psize cfg)%nat -> pool_inv s -> occ_inv cfg s -> wf_choice s t c = true ->
  occ_inv cfg (fst (exec cfg s t c)).
Proof.
  intros cfg s t c Hps P I W.
  exec_leaves; try assumption; try (occ_frame_tac t; fail).
  all: assert (Ht : (t < nthr cfg)%nat) by (apply negb_false_iff in Heqb; now apply Nat.ltb_lt in Heqb).
  - (* G_fetchCur *)
    eapply occ_frame with (t0 := t); [eassumption | reflexivity | reflexivity
      | intros; cbn; rewrite ?upd_other by assumption; reflexivity
      | cbn; rewrite ?upd_same; cbn; rewrite Heqp; reflexivity
      | unfold ownc; cbn; rewrite ?upd_same; cbn; rewrite Heqp; reflexivity | ].
    cbn. rewrite upd_same. cbn. intros j Hj. injection Hj as <-.
    assert (cursor s mod N.of_nat (psize cfg) < N.of_nat (psize cfg))%N by (apply N.mod_lt; lia).
    lia.
  - (* G_cas succeeds *)
    assert (Hi : (i < psize cfg)%nat) by (eapply oi_cas; eauto).
    eapply occ_step with (t0 := t) (a := 0) (dn := 1); [eassumption | assumption
      | intros; cbn; rewrite ?upd_other by assumption; reflexivity | | | left; split; reflexivity | | | ].
    + rewrite (nset_upd cfg s _ i (Some t)); auto. rewrite Heqo. simpl. lia.
    + unfold ownc. cbn. rewrite upd_same. cbn. rewrite Heqp. cbn. lia.
    + cbn. rewrite upd_same. cbn. rewrite Heqp. reflexivity.
    + cbn. intros j. destruct (Nat.eq_dec j i) as [->|Hj]; auto. rewrite upd_other by auto. apply (oi_range _ _ I).
    + cbn. rewrite upd_same. cbn. discriminate.
  - (* G_incTaken *)
    eapply occ_step with (t0 := t) (a := 1) (dn := 0); [eassumption | assumption
      | intros; cbn; rewrite ?upd_other by assumption; reflexivity | | | right; left; split; reflexivity | | | ].
    + unfold nset. cbn. lia.
    + unfold ownc. cbn. rewrite upd_same. cbn. rewrite Heqp. cbn. lia.
    + cbn. rewrite upd_same. cbn. rewrite Heqp. reflexivity.
    + cbn. apply (oi_range _ _ I).
    + cbn. rewrite upd_same. cbn. discriminate.
  - (* G_totInc *)
    eapply occ_step with (t0 := t) (a := 0) (dn := 0); [eassumption | assumption
      | intros; cbn; rewrite ?upd_other by assumption; reflexivity | | | left; split; reflexivity | | | ].
    + unfold nset. cbn. lia.
    + unfold ownc. cbn [finish set_total set_thr thr]. rewrite upd_same. cbn [held tpc]. rewrite Heqp. cbn [pc_slot is_some b2z length]. lia.
    + cbn. rewrite upd_same. cbn. rewrite Heqp. reflexivity.
    + cbn. apply (oi_range _ _ I).
    + cbn. rewrite upd_same. cbn. discriminate.
  - (* F_cas *)
    assert (Hin : In i (held (thr s t))) by (apply (pi_free _ P); auto).
    assert (Hfl : flags s i = Some t) by (apply (pi_flag _ P); now left).
    assert (Hi : (i < psize cfg)%nat) by (apply (oi_range _ _ I); congruence).
    eapply occ_step with (t0 := t) (a := 0) (dn := -1); [eassumption | assumption
      | intros; cbn; rewrite ?upd_other by assumption; reflexivity | | | left; split; reflexivity | | | ].
    + rewrite (nset_upd cfg s _ i None); auto. rewrite Hfl. simpl. lia.
    + unfold ownc. cbn [set_flags set_thr thr]. rewrite upd_same. cbn [held tpc]. rewrite Heqp. cbn [pc_slot is_some b2z].
      rewrite <- (remove1_length i (held (thr s t))) by auto. lia.
    + cbn. rewrite upd_same. cbn. rewrite Heqp. reflexivity.
    + cbn. intros j. destruct (Nat.eq_dec j i) as [->|Hj]. rewrite upd_same. congruence. rewrite upd_other by auto. apply (oi_range _ _ I).
    + cbn. rewrite upd_same. cbn. discriminate.
  - (* F_dec *)
    eapply occ_step with (t0 := t) (a := -1) (dn := 0); [eassumption | assumption
      | intros; cbn; rewrite ?upd_other by assumption; reflexivity | | | right; right; split; reflexivity | | | ].
    + unfold nset. cbn. lia.
    + unfold ownc. cbn. rewrite upd_same. cbn. rewrite Heqp. cbn. lia.
    + cbn. rewrite upd_same. cbn. rewrite Heqp. reflexivity.
    + cbn. apply (oi_range _ _ I).
    + cbn. rewrite upd_same. cbn. discriminate.
Qed.

Lemma occ_inv_hist : forall cfg s h, occ_inv cfg s -> occ_inv cfg (set_hist s h).
Proof. intros cfg s h [O1 O2 O3 O4]. constructor; auto. Qed.

Lemma occ_inv_reach : forall cfg s, (0 < psize cfg)%nat -> reach cfg s -> occ_inv cfg s.
Proof.
  intros cfg s Hp. apply reach_ind_exec.
  - apply occ_inv_init.
  - apply occ_inv_hist.
  - intros. apply occ_inv_exec; auto. eapply pool_inv_reach; eauto.
Qed.

Lemma filter_count_sumf : forall (f : nat -> bool) n,
  Z.of_nat (length (filter f (seq 0 n))) = sumf (fun i => b2z (f i)) n.
Proof.
  induction n. reflexivity.
  rewrite seq_S, filter_app, app_length, Nat2Z.inj_add, IHn. simpl. destruct (f n); reflexivity.
Qed.
Lemma fold_count_sumf : forall (g : nat -> nat) n,
  Z.of_nat (fold_right (fun t a => (g t + a)%nat) 0%nat (seq 0 n)) = sumf (fun t => Z.of_nat (g t)) n.
Proof.
  intros g n.
  assert (G : forall l b, fold_right (fun t a => (g t + a)%nat) b l = (fold_right (fun t a => (g t + a)%nat) 0%nat l + b)%nat).
  { induction l; simpl; intros; auto. rewrite IHl. lia. }
  induction n. reflexivity.
  rewrite seq_S, fold_right_app, G. simpl. rewrite Nat2Z.inj_add, IHn. lia.
Qed.

Lemma count_flags_nset : forall cfg s, Z.of_nat (count_flags cfg s) = nset cfg s.
Proof. intros. unfold count_flags, nset. apply filter_count_sumf. Qed.
Lemma count_held_sumf : forall cfg s, Z.of_nat (count_held cfg s) = sumf (fun t => Z.of_nat (length (held (thr s t)))) (nthr cfg).
Proof. intros. unfold count_held. apply (fold_count_sumf (fun t => length (held (thr s t)))). Qed.

Lemma nset_le_psize : forall cfg s, 0 <= nset cfg s <= Z.of_nat (psize cfg).
Proof.
  intros. unfold nset. generalize (psize cfg). induction n; simpl. lia.
  destruct (is_some (flags s n)); simpl; lia.
Qed.

(* occupancy counter = slots held = flags set, whenever no operation is in flight *)
Lemma occupancy_exact_when_quiescent : forall cfg s,
  (0 < psize cfg)%nat -> (N.of_nat (psize cfg) < WORD)%N -> reach cfg s -> quiescent cfg s ->
  N.to_nat (taken s) = count_held cfg s /\ count_held cfg s = count_flags cfg s.
Proof.
  intros cfg s Hp Hw Hr Hq. destruct (occ_inv_reach cfg s Hp Hr) as [O1 O2 _ _].
  assert (C0 : sumf (fun t => contrib (tpc (thr s t))) (nthr cfg) = 0).
  { apply sumf_zero. intros t Ht. now rewrite (Hq t Ht). }
  assert (H1 : nset cfg s = Z.of_nat (count_held cfg s)).
  { rewrite O2, count_held_sumf. apply sumf_ext. intros t Ht. unfold ownc. rewrite (Hq t Ht). simpl. lia. }
  rewrite C0, Z.add_0_r in O1.
  pose proof (nset_le_psize cfg s) as B.
  rewrite Z.mod_small in O1 by (unfold WZ; lia).
  split.
  - apply Nat2Z.inj. rewrite <- H1, <- O1. now rewrite N_nat_Z.
  - apply Nat2Z.inj. now rewrite <- H1, count_flags_nset.
Qed.

(* with operations in flight the counter is off by at most their number (and never too low) *)
Lemma occupancy_inflight_bound : forall cfg s,
  (0 < psize cfg)%nat -> reach cfg s ->
  exists d, 0 <= d <= Z.of_nat (inflight cfg s) /\ Z.of_N (taken s) = (Z.of_nat (count_held cfg s) + d) mod WZ.
Proof.
  intros cfg s Hp Hr. destruct (occ_inv_reach cfg s Hp Hr) as [O1 O2 _ _].
  set (f := fun t => b2z (is_some (pc_slot (tpc (thr s t)))) + contrib (tpc (thr s t))).
  exists (sumf f (nthr cfg)). split.
  - unfold inflight. rewrite filter_count_sumf. apply sumf_bounds. intros t _. unfold f.
    destruct (tpc (thr s t)); simpl; lia.
  - rewrite O1, O2, count_held_sumf. f_equal.
    assert (G : forall n, sumf (fun t => ownc (thr s t)) n + sumf (fun t => contrib (tpc (thr s t))) n
                = sumf (fun t => Z.of_nat (length (held (thr s t)))) n + sumf f n).
    { induction n; simpl. reflexivity. unfold f at 2, ownc at 2. lia. }
    apply G.
Qed.

Local Close Scope Z_scope.

(* ------------------------------------------------------------------------------------------ *)
(* locks: who holds a lock *)
Definition first_dep (cfg : config) (k : nat) : list nat :=
  match dep0 cfg k with Some l0 => [l0] | None => [] end.

(* locks a thread holds on account of the operation it is in the middle of *)
Definition inflight_locks (cfg : config) (p : pc) : list nat :=
  match p with
  | D_try1 _ k | D_rollback _ k => first_dep cfg k
  | Q_unlock _ (Some k) => deps cfg k
  | U_dep0 k => match dep1 cfg k with Some _ => first_dep cfg k | None => [] end
  | _ => []
  end.

(* every lock a thread holds: taken by lock/try_lock, through a task it was handed, in flight *)
Definition tlocks (cfg : config) (ts : tstate) : list nat :=
  hlocks ts ++ flat_map (deps cfg) (htasks ts) ++ inflight_locks cfg (tpc ts).

Definition pc_ok (cfg : config) (ts : tstate) : Prop :=
  match tpc ts with
  | L_unlock l => In l (hlocks ts)
  | D_try0 _ k => dep0 cfg k <> None
  | D_try1 _ k | D_rollback _ k => dep0 cfg k <> None /\ dep1 cfg k <> None
  | U_dep1 k => dep0 cfg k <> None /\ dep1 cfg k <> None /\ In k (htasks ts)
  | U_dep0 k => dep0 cfg k <> None /\ (dep1 cfg k = None -> In k (htasks ts))
  | _ => True
  end.

Record lock_inv (cfg : config) (s : sys) : Prop := mkLockInv {
  li_own : forall l t, locks s l = Some t <-> In l (tlocks cfg (thr s t));
  li_nodup : forall t, NoDup (tlocks cfg (thr s t));
  li_pc : forall t, pc_ok cfg (thr s t) }.

Lemma lock_frame : forall cfg s s' t0,
  lock_inv cfg s -> locks s' = locks s ->
  (forall t, t <> t0 -> thr s' t = thr s t) ->
  Permutation (tlocks cfg (thr s' t0)) (tlocks cfg (thr s t0)) ->
  pc_ok cfg (thr s' t0) ->
  lock_inv cfg s'.
Proof.
  intros cfg s s' t0 [L1 L2 L3] Hl Ho Hp Hk. constructor.
  - intros l t. rewrite Hl, L1. destruct (Nat.eq_dec t t0) as [->|Hn].
    + split; intro H. eapply Permutation_in; [symmetry|]; eauto. eapply Permutation_in; eauto.
    + rewrite Ho; tauto.
  - intros t. destruct (Nat.eq_dec t t0) as [->|Hn].
    + eapply Permutation_NoDup; [symmetry; eauto | apply L2].
    + rewrite Ho; auto.
  - intros t. destruct (Nat.eq_dec t t0) as [->|Hn]; auto. rewrite Ho; auto.
Qed.

Lemma lock_acquire : forall cfg s s' t0 l,
  lock_inv cfg s -> locks s l = None -> locks s' = upd (locks s) l (Some t0) ->
  (forall t, t <> t0 -> thr s' t = thr s t) ->
  Permutation (tlocks cfg (thr s' t0)) (l :: tlocks cfg (thr s t0)) ->
  pc_ok cfg (thr s' t0) ->
  lock_inv cfg s'.
Proof.
  intros cfg s s' t0 l [L1 L2 L3] Hn Hl Ho Hp Hk.
  assert (Hno : forall t, ~ In l (tlocks cfg (thr s t))).
  { intros t Hi. apply L1 in Hi. congruence. }
  constructor.
  - intros l' t. rewrite Hl. destruct (Nat.eq_dec t t0) as [->|Ht].
    + destruct (Nat.eq_dec l' l) as [->|Hl'].
      * rewrite upd_same. split; auto. intros _. eapply Permutation_in; [symmetry; eauto|]. now left.
      * rewrite upd_other by auto. rewrite L1. split; intro H.
        -- eapply Permutation_in; [symmetry; eauto|]. now right.
        -- apply (Permutation_in _ Hp) in H. destruct H as [H|H]; auto. congruence.
    + rewrite Ho by auto. destruct (Nat.eq_dec l' l) as [->|Hl'].
      * rewrite upd_same. split. congruence. intros H. elim (Hno _ H).
      * rewrite upd_other by auto. apply L1.
  - intros t. destruct (Nat.eq_dec t t0) as [->|Ht].
    + eapply Permutation_NoDup; [symmetry; eauto|]. constructor; auto.
    + rewrite Ho; auto.
  - intros t. destruct (Nat.eq_dec t t0) as [->|Ht]; auto. rewrite Ho; auto.
Qed.

Lemma lock_release : forall cfg s s' t0 l,
  lock_inv cfg s -> locks s' = upd (locks s) l None ->
  (forall t, t <> t0 -> thr s' t = thr s t) ->
  Permutation (l :: tlocks cfg (thr s' t0)) (tlocks cfg (thr s t0)) ->
  pc_ok cfg (thr s' t0) ->
  lock_inv cfg s'.
Proof.
  intros cfg s s' t0 l [L1 L2 L3] Hl Ho Hp Hk.
  assert (Hnd : NoDup (l :: tlocks cfg (thr s' t0))).
  { eapply Permutation_NoDup; [symmetry; eauto | apply L2]. }
  assert (Hown : locks s l = Some t0).
  { apply L1. eapply Permutation_in; eauto. now left. }
  constructor.
  - intros l' t. rewrite Hl. destruct (Nat.eq_dec t t0) as [->|Ht].
    + destruct (Nat.eq_dec l' l) as [->|Hl'].
      * rewrite upd_same. split. discriminate. intros H. inversion Hnd; subst. contradiction.
      * rewrite upd_other by auto. rewrite L1. split; intro H.
        -- apply (Permutation_in _ (Permutation_sym Hp)) in H. destruct H as [H|H]; auto. congruence.
        -- eapply Permutation_in; eauto. now right.
    + rewrite Ho by auto. destruct (Nat.eq_dec l' l) as [->|Hl'].
      * rewrite upd_same. split. discriminate. intros H. apply L1 in H. congruence.
      * rewrite upd_other by auto. apply L1.
  - intros t. destruct (Nat.eq_dec t t0) as [->|Ht].
    + now inversion Hnd.
    + rewrite Ho; auto.
  - intros t. destruct (Nat.eq_dec t t0) as [->|Ht]; auto. rewrite Ho; auto.
Qed.

Lemma flat_map_remove1 : forall (f : nat -> list nat) k l, In k l ->
  Permutation (flat_map f l) (f k ++ flat_map f (remove1 k l)).
Proof.
  induction l; simpl. contradiction. intros H.
  destruct (Nat.eqb k a) eqn:E.
  - apply Nat.eqb_eq in E. subst. reflexivity.
  - destruct H. subst. rewrite Nat.eqb_refl in E. discriminate.
    simpl. rewrite (IHl H). rewrite !app_assoc. apply Permutation_app_tail. apply Permutation_app_comm.
Qed.

Lemma lock_inv_init : forall cfg, lock_inv cfg (init cfg).
Proof.
  intros. constructor; simpl; intros.
  - unfold tlocks. simpl. split. discriminate. contradiction.
  - constructor.
  - exact I.
Qed.

Lemma count_remove1 : forall x l y, In x l ->
  count_occ Nat.eq_dec l y = ((if Nat.eq_dec x y then 1 else 0) + count_occ Nat.eq_dec (remove1 x l) y)%nat.
Proof.
  intros x l y H.
  pose proof (remove1_perm x l H) as P. rewrite (Permutation_count_occ Nat.eq_dec) in P. rewrite P.
  simpl. destruct (Nat.eq_dec x y); reflexivity.
Qed.
Lemma count_flat_remove1 : forall (f : nat -> list nat) k l y, In k l ->
  count_occ Nat.eq_dec (flat_map f l) y = (count_occ Nat.eq_dec (f k) y + count_occ Nat.eq_dec (flat_map f (remove1 k l)) y)%nat.
Proof.
  intros f k l y H. pose proof (flat_map_remove1 f k l H) as P.
  rewrite (Permutation_count_occ Nat.eq_dec) in P. rewrite P. apply count_occ_app.
Qed.

Ltac thr_simpl :=
  cbn [goto finish set_thr set_locks set_flags set_cursor set_taken set_maxtaken set_total set_ctr set_lfc set_mxv set_queues set_items set_qlk
       thr locks flags queues]; rewrite ?upd_same; cbn [tpc top held hlocks htasks]; rewrite ?upd_same; cbn [tpc top held hlocks htasks].

Ltac dep_rw :=
  repeat match goal with
  | H : dep0 _ _ = _ |- _ => rewrite H
  | H : dep1 _ _ = _ |- _ => rewrite H
  end.

Ltac perm_count :=
  apply (Permutation_count_occ Nat.eq_dec); intro;
  repeat (progress (cbn [count_occ app]; rewrite ?count_occ_app));
  repeat match goal with
   | H : In ?x ?l |- context[count_occ Nat.eq_dec ?l ?y] => rewrite (count_remove1 x l y H)
   | H : In ?k ?l |- context[count_occ Nat.eq_dec (flat_map ?f ?l) ?y] => rewrite (count_flat_remove1 f k l y H)
   end;
  cbn beta; dep_rw; cbn [count_occ];
  repeat destruct (Nat.eq_dec _ _); lia.

Ltac tl_simpl :=
  unfold tlocks; thr_simpl;
  repeat match goal with H : tpc _ = _ |- _ => rewrite H end;
  cbn [inflight_locks]; unfold deps, first_dep; cbn [flat_map]; unfold deps; dep_rw.

Ltac pcok_tac := unfold pc_ok; thr_simpl; dep_rw; try exact I; repeat split; try congruence; auto; try (intros; congruence).
Ltac others_tac := intros; cbn; rewrite ?upd_other by assumption; reflexivity.

Ltac lock_frame_tac t :=
  eapply lock_frame with (t0 := t); [eassumption | reflexivity | others_tac
   | tl_simpl; first [reflexivity | perm_count] | pcok_tac ].
Ltac lock_acq_tac t :=
  eapply lock_acquire with (t0 := t); [eassumption | eassumption | reflexivity | others_tac
   | tl_simpl; first [reflexivity | perm_count] | pcok_tac ].
Ltac lock_rel_tac t :=
  eapply lock_release with (t0 := t); [eassumption | reflexivity | others_tac
   | tl_simpl; first [reflexivity | perm_count] | pcok_tac ].

Lemma lock_inv_exec : forall cfg s t c, lock_inv cfg s -> wf_choice s t c = true -> lock_inv cfg (fst (exec cfg s t c)).
Proof.
  intros cfg s t c I W.
  exec_leaves; try assumption.
  all: match goal with I0 : lock_inv _ ?s0, W0 : wf_choice _ ?t0 _ = true |- _ => pose proof (li_pc _ _ I0 t0) as K end; unfold pc_ok in K;
       match goal with H : tpc _ = _ |- _ => rewrite H in K end.
  all: try solve [exfalso; intuition congruence].
  all: repeat match goal with K0 : _ /\ _ |- _ => destruct K0 end.
  all: try match goal with H : dep0 ?c ?k <> None |- _ =>
         lazymatch goal with H2 : dep0 c k = _ |- _ => fail | _ => destruct (dep0 c k) eqn:?; [|congruence] end end.
  all: try match goal with H : dep1 ?c ?k <> None |- _ =>
         lazymatch goal with H2 : dep1 c k = _ |- _ => fail | _ => destruct (dep1 c k) eqn:?; [|congruence] end end.
  all: try (unfold wf_choice in W; match goal with H : tpc _ = Idle |- _ => rewrite H in W end; apply memb_In in W).
  all: repeat match goal with |- context[nth ?n ?l 0%nat] => let kk := fresh "kk" in set (kk := nth n l 0%nat) in * end.
  all: try match goal with H0 : ?a = None -> In _ _, E : ?a = None |- _ => specialize (H0 E) end.
  all: try (lock_frame_tac t; fail).
  all: try (lock_acq_tac t; fail).
  all: try (lock_rel_tac t; fail).
Qed.

Lemma lock_inv_hist : forall cfg s h, lock_inv cfg s -> lock_inv cfg (set_hist s h).
Proof. intros cfg s h [L1 L2 L3]. constructor; auto. Qed.

Lemma lock_inv_reach : forall cfg s, reach cfg s -> lock_inv cfg s.
Proof.
  intros cfg. apply reach_ind_exec.
  - apply lock_inv_init.
  - apply lock_inv_hist.
  - intros. now apply lock_inv_exec.
Qed.

(* thread t holds lock l: through lock/try_lock, through a task it was handed, or in flight *)
Definition lock_holds (cfg : config) (s : sys) (t l : nat) : Prop := In l (tlocks cfg (thr s t)).

Lemma lock_exclusive : forall cfg s, reach cfg s ->
  forall t1 t2 l, t1 <> t2 -> lock_holds cfg s t1 l -> ~ lock_holds cfg s t2 l.
Proof.
  intros cfg s Hr t1 t2 l Hn H1 H2. apply lock_inv_reach in Hr. destruct Hr as [L1 _ _].
  apply L1 in H1. apply L1 in H2. congruence.
Qed.

Lemma lock_word_iff_held : forall cfg s, reach cfg s ->
  forall l t, locks s l = Some t <-> lock_holds cfg s t l.
Proof. intros cfg s Hr. apply lock_inv_reach in Hr. apply Hr. Qed.

Lemma lock_held_once : forall cfg s, reach cfg s -> forall t, NoDup (tlocks cfg (thr s t)).
Proof. intros cfg s Hr. apply lock_inv_reach in Hr. apply Hr. Qed.

(* a task in a thread's hands comes with all the locks it declared *)
Lemma task_held_owns_locks : forall cfg s, reach cfg s ->
  forall t k l, In k (htasks (thr s t)) -> In l (deps cfg k) -> locks s l = Some t.
Proof.
  intros cfg s Hr t k l Hk Hl. apply lock_inv_reach in Hr. apply (li_own _ _ Hr).
  unfold tlocks. apply in_or_app. right. apply in_or_app. left. apply in_flat_map. eauto.
Qed.

(* no lock is leaked: between two operations, a thread owns exactly the locks in its view *)
Lemma idle_thread_locks_in_view : forall cfg s, reach cfg s ->
  forall t l, tpc (thr s t) = Idle -> locks s l = Some t ->
  In l (hlocks (thr s t)) \/ exists k, In k (htasks (thr s t)) /\ In l (deps cfg k).
Proof.
  intros cfg s Hr t l Hi Hl. apply lock_inv_reach in Hr. apply (li_own _ _ Hr) in Hl.
  unfold tlocks in Hl. rewrite Hi in Hl. simpl in Hl. rewrite app_nil_r in Hl.
  apply in_app_or in Hl. destruct Hl as [H|H]; auto. right. apply in_flat_map in H. exact H.
Qed.

(* ------------------------------------------------------------------------------------------ *)
(* queues: the queue lock protects the critical section *)
Definition in_cs (p : pc) : option nat :=
  match p with
  | QA_unlock q | Q_unlock q _ => Some q
  | D_try0 (InQ q _) _ | D_try1 (InQ q _) _ | D_rollback (InQ q _) _ => Some q
  | _ => None
  end.

Definition qlock_inv (s : sys) : Prop :=
  forall q t, qlk (queues s q) = Some t <-> in_cs (tpc (thr s t)) = Some q.

Lemma qlock_frame : forall s s' t0,
  qlock_inv s -> (forall q, qlk (queues s' q) = qlk (queues s q)) ->
  (forall t, t <> t0 -> thr s' t = thr s t) ->
  in_cs (tpc (thr s' t0)) = in_cs (tpc (thr s t0)) ->
  qlock_inv s'.
Proof.
  intros s s' t0 I Hq Ho Hc q t. rewrite Hq, (I q t).
  destruct (Nat.eq_dec t t0) as [->|Hn]. now rewrite Hc. rewrite Ho; tauto.
Qed.

Lemma qlock_acquire : forall s s' t0 q0,
  qlock_inv s -> qlk (queues s q0) = None ->
  qlk (queues s' q0) = Some t0 -> (forall q, q <> q0 -> qlk (queues s' q) = qlk (queues s q)) ->
  (forall t, t <> t0 -> thr s' t = thr s t) ->
  in_cs (tpc (thr s t0)) = None -> in_cs (tpc (thr s' t0)) = Some q0 ->
  qlock_inv s'.
Proof.
  intros s s' t0 q0 I Hn Hs Hq Ho Hc Hc' q t.
  destruct (Nat.eq_dec q q0) as [->|Hqq].
  - rewrite Hs. destruct (Nat.eq_dec t t0) as [->|Ht].
    + split; auto.
    + rewrite Ho by auto. rewrite <- (I q0 t). rewrite Hn. split; congruence.
  - rewrite Hq by auto. rewrite (I q t). destruct (Nat.eq_dec t t0) as [->|Ht].
    + rewrite Hc, Hc'. split; congruence.
    + rewrite Ho; tauto.
Qed.

Lemma qlock_release : forall s s' t0 q0,
  qlock_inv s -> qlk (queues s' q0) = None -> (forall q, q <> q0 -> qlk (queues s' q) = qlk (queues s q)) ->
  (forall t, t <> t0 -> thr s' t = thr s t) ->
  in_cs (tpc (thr s t0)) = Some q0 -> in_cs (tpc (thr s' t0)) = None ->
  qlock_inv s'.
Proof.
  intros s s' t0 q0 I Hs Hq Ho Hc Hc' q t.
  assert (Hown : qlk (queues s q0) = Some t0) by (now apply I).
  destruct (Nat.eq_dec q q0) as [->|Hqq].
  - rewrite Hs. destruct (Nat.eq_dec t t0) as [->|Ht].
    + rewrite Hc'. split; discriminate.
    + rewrite Ho by auto. rewrite <- (I q0 t). rewrite Hown. split; congruence.
  - rewrite Hq by auto. rewrite (I q t). destruct (Nat.eq_dec t t0) as [->|Ht].
    + rewrite Hc, Hc'. split; congruence.
    + rewrite Ho; tauto.
Qed.

Lemma qlk_set_qlk_same : forall s q o, qlk (queues (set_qlk s q o) q) = o.
Proof. intros. cbn. now rewrite upd_same. Qed.
Lemma qlk_set_qlk_other : forall s q o q', q' <> q -> qlk (queues (set_qlk s q o) q') = qlk (queues s q').
Proof. intros. cbn. now rewrite upd_other. Qed.
Lemma qlk_set_items : forall s q l q', qlk (queues (set_items s q l) q') = qlk (queues s q').
Proof. intros. cbn. destruct (Nat.eq_dec q' q) as [->|H]. now rewrite upd_same. now rewrite upd_other. Qed.
Lemma qitems_set_qlk : forall s q o q', qitems (queues (set_qlk s q o) q') = qitems (queues s q').
Proof. intros. cbn. destruct (Nat.eq_dec q' q) as [->|H]. now rewrite upd_same. now rewrite upd_other. Qed.
Lemma qitems_set_items_same : forall s q l, qitems (queues (set_items s q l) q) = l.
Proof. intros. cbn. now rewrite upd_same. Qed.
Lemma qitems_set_items_other : forall s q l q', q' <> q -> qitems (queues (set_items s q l) q') = qitems (queues s q').
Proof. intros. cbn. now rewrite upd_other. Qed.

Lemma qlock_inv_init : forall cfg, qlock_inv (init cfg).
Proof. intros cfg q t. simpl. split; discriminate. Qed.

Ltac q_simpl :=
  cbn [goto finish set_thr set_locks set_flags set_cursor set_taken set_maxtaken set_total set_ctr set_lfc set_mxv thr queues];
  rewrite ?upd_same; cbn [tpc top held hlocks htasks].
Ltac pc_rw := repeat match goal with H : tpc _ = _ |- _ => rewrite H end.
Ltac qlk_same_tac := intros; q_simpl; rewrite ?qlk_set_items; reflexivity.
Ltac qlock_frame_tac t :=
  eapply qlock_frame with (t0 := t); [eassumption | qlk_same_tac | others_tac | q_simpl; pc_rw; reflexivity].
Ltac qlock_acq_tac t :=
  eapply qlock_acquire with (t0 := t);
    [eassumption | eassumption | q_simpl; rewrite ?qlk_set_items; apply qlk_set_qlk_same
    | intros; q_simpl; rewrite ?qlk_set_items; now apply qlk_set_qlk_other | others_tac | pc_rw; reflexivity | q_simpl; reflexivity].
Ltac qlock_rel_tac t :=
  eapply qlock_release with (t0 := t);
    [eassumption | q_simpl; apply qlk_set_qlk_same | intros; q_simpl; now apply qlk_set_qlk_other | others_tac | pc_rw; reflexivity | q_simpl; reflexivity].

Lemma qlock_inv_exec : forall cfg s t c, qlock_inv s -> qlock_inv (fst (exec cfg s t c)).
Proof.
  intros cfg s t c I.
  exec_leaves; try assumption.
  all: repeat match goal with |- context[nth ?n ?l 0%nat] => let kk := fresh "kk" in set (kk := nth n l 0%nat) in * end.
  all: try (qlock_frame_tac t; fail).
  all: try (qlock_acq_tac t; fail).
  all: try (qlock_rel_tac t; fail).
Qed.

Lemma qlock_inv_reach : forall cfg s, reach cfg s -> qlock_inv s.
Proof.
  intros cfg. apply reach_ind_exec.
  - apply qlock_inv_init.
  - intros s h I. exact I.
  - intros. now apply qlock_inv_exec.
Qed.

(* one thread at a time inside the critical section of a queue *)
Lemma queue_cs_exclusive : forall cfg s, reach cfg s ->
  forall t1 t2 q, in_cs (tpc (thr s t1)) = Some q -> in_cs (tpc (thr s t2)) = Some q -> t1 = t2.
Proof.
  intros cfg s Hr t1 t2 q H1 H2. apply qlock_inv_reach in Hr.
  apply Hr in H1. apply Hr in H2. congruence.
Qed.

(* the scan of get_task looks at a valid position of an unchanged queue *)
Definition scan_ok (s : sys) (t : nat) : Prop :=
  match tpc (thr s t) with
  | D_try0 (InQ q idx) k | D_try1 (InQ q idx) k | D_rollback (InQ q idx) k =>
    1 <= idx <= length (qitems (queues s q)) /\ nth (idx - 1) (qitems (queues s q)) 0 = k
  | _ => True
  end.
Definition scan_inv (s : sys) : Prop := forall t, scan_ok s t.

Lemma scan_inv_init : forall cfg, scan_inv (init cfg).
Proof. intros cfg t. exact I. Qed.

(* a step of t0 that does not touch the items of the queues other threads are scanning *)
Lemma scan_frame : forall s s' t0,
  scan_inv s -> qlock_inv s ->
  (forall t, t <> t0 -> thr s' t = thr s t) ->
  (forall q, qitems (queues s' q) = qitems (queues s q) \/ in_cs (tpc (thr s t0)) = Some q \/ qlk (queues s q) = None) ->
  scan_ok s' t0 ->
  scan_inv s'.
Proof.
  intros s s' t0 I Q Ho Hq Hk t. destruct (Nat.eq_dec t t0) as [->|Hn]; auto.
  specialize (I t). unfold scan_ok in *. rewrite Ho by auto.
  assert (G : forall q, in_cs (tpc (thr s t)) = Some q -> qitems (queues s' q) = qitems (queues s q)).
  { intros q Hc. destruct (Hq q) as [H|[H|H]]; auto.
    - apply Q in H. apply Q in Hc. congruence.
    - apply Q in Hc. congruence. }
  destruct (tpc (thr s t)); auto; destruct x; auto; rewrite G; auto.
Qed.


Lemma nth_remove_lt : forall j (l : list nat) i, i < j -> nth i (remove_nth j l) 0 = nth i l 0.
Proof.
  induction j; intros l i H. lia.
  destruct l; simpl; auto. destruct i; auto. apply IHj. lia.
Qed.
Lemma length_remove_nth : forall j (l : list nat), j < length l -> S (length (remove_nth j l)) = length l.
Proof.
  induction j; intros l H; destruct l; simpl in *; try lia. rewrite IHj; lia.
Qed.

Ltac items_tac :=
  intros; q_simpl; rewrite ?qitems_set_qlk; try (left; reflexivity).

Ltac items_q_tac :=
  let q' := fresh "q'" in let Hne := fresh "Hne" in
  intros q'; q_simpl;
  match goal with |- context[set_items _ ?q0 _] =>
    destruct (Nat.eq_dec q' q0) as [->|Hne];
    [ right; first [ left; pc_rw; reflexivity | right; eassumption ]
    | left; rewrite ?qitems_set_items_other by auto; rewrite ?qitems_set_qlk; reflexivity ]
  end.

Ltac scan_ok_tac :=
  unfold scan_ok; q_simpl; rewrite ?qitems_set_qlk in *;
  first [ exact Logic.I
        | match goal with |- match ?x with Direct => _ | InQ _ _ => _ end => destruct x; [exact Logic.I | assumption] end
        | split; [ lia | try reflexivity; f_equal; lia ] ].

Lemma scan_inv_exec : forall cfg s t c, scan_inv s -> qlock_inv s -> scan_inv (fst (exec cfg s t c)).
Proof.
  intros cfg s t c I Q.
  pose proof (I t) as K. unfold scan_ok in K.
  exec_leaves; try assumption.
  all: try match goal with H : tpc _ = _ |- _ => rewrite H in K end.
  all: try (eapply scan_frame with (t0 := t); [eassumption | eassumption | others_tac | items_tac | unfold scan_ok; q_simpl; exact Logic.I]; fail).
  all: try (eapply scan_frame with (t0 := t); [eassumption | eassumption | others_tac | first [items_q_tac | items_tac] | scan_ok_tac]; fail).
Qed.

Lemma scan_inv_reach : forall cfg s, reach cfg s -> scan_inv s.
Proof.
  intros cfg. apply reach_ind_exec.
  - apply scan_inv_init.
  - intros s h I. exact I.
  - intros. apply scan_inv_exec; auto. eapply qlock_inv_reach; eauto.
Qed.

(* queues: what goes in comes out, once *)
Definition ev_pushes (q : nat) (e : event) : list nat :=
  match e_push e with Some (q', k) => if Nat.eqb q' q then [k] else [] | None => [] end.
Definition ev_takes (q : nat) (e : event) : list nat :=
  match e_take e with Some (q', k) => if Nat.eqb q' q then [k] else [] | None => [] end.
(* a get_task / try_get_task on queue q completes (by unlocking the queue) and returns task k *)
Definition ev_rets (q : nat) (e : event) : list nat :=
  match e_obj e, e_ret e with
  | BQLock q', Some (_, RTask (Some k)) => if Nat.eqb q' q then [k] else []
  | _, _ => []
  end.
Definition pushed (s : sys) (q : nat) : list nat := flat_map (ev_pushes q) (hist s).
Definition removed (s : sys) (q : nat) : list nat := flat_map (ev_takes q) (hist s).
Definition returned (s : sys) (q : nat) : list nat := flat_map (ev_rets q) (hist s).

Lemma remove_nth_perm : forall j (l : list nat), j < length l -> Permutation (remove_nth j l ++ [nth j l 0]) l.
Proof.
  induction j; intros l H; destruct l; simpl in *; try lia.
  - rewrite Permutation_app_comm. reflexivity.
  - constructor. apply IHj. lia.
Qed.

Lemma exec_items : forall cfg s t c q, scan_inv s ->
  Permutation (qitems (queues (fst (exec cfg s t c)) q) ++ ev_takes q (snd (exec cfg s t c)))
              (ev_pushes q (snd (exec cfg s t c)) ++ qitems (queues s q)).
Proof.
  intros cfg s t c q0 I.
  pose proof (I t) as K. unfold scan_ok in K.
  exec_leaves.
  all: try match goal with H : tpc _ = _ |- _ => rewrite H in K end.
  all: try (q_simpl; rewrite ?qitems_set_qlk; cbn; rewrite app_nil_r; reflexivity).
  all: q_simpl; unfold ev_takes, ev_pushes; cbn [e_take e_push ev_take ev_push ev];
       rewrite ?qitems_set_qlk in *;
       match goal with |- context[set_items _ ?q1 _] =>
         destruct (Nat.eq_dec q0 q1) as [->|Hne];
         [ rewrite Nat.eqb_refl, qitems_set_items_same; rewrite ?qitems_set_qlk; cbn [app]
         | rewrite (proj2 (Nat.eqb_neq q1 q0)) by auto; rewrite qitems_set_items_other by auto;
           rewrite ?qitems_set_qlk; cbn; rewrite app_nil_r; reflexivity ] end.
  all: first [ rewrite app_nil_r; apply Permutation_app_comm
             | apply remove_nth_perm; lia
             | destruct K as [K1 K2]; rewrite <- K2; apply remove_nth_perm; lia ].
Qed.



Lemma hist_step : forall cfg s t c, hist (fst (step cfg s t c)) = snd (exec cfg s t c) :: hist s.
Proof. intros. rewrite step_fst. reflexivity. Qed.
Lemma queues_step : forall cfg s t c, queues (fst (step cfg s t c)) = queues (fst (exec cfg s t c)).
Proof. intros. rewrite step_fst. reflexivity. Qed.
Lemma thr_step : forall cfg s t c, thr (fst (step cfg s t c)) = thr (fst (exec cfg s t c)).
Proof. intros. rewrite step_fst. reflexivity. Qed.

(* contents of the queue + everything removed from it = everything stored into it *)
Lemma queue_multiset : forall cfg s, reach cfg s ->
  forall q, Permutation (qitems (queues s q) ++ removed s q) (pushed s q).
Proof.
  intros cfg s Hr. induction Hr; intros q.
  - reflexivity.
  - unfold removed, pushed. rewrite hist_step, queues_step. cbn [flat_map].
    pose proof (exec_items cfg s t c q (scan_inv_reach _ _ Hr)) as E.
    rewrite app_assoc, E, <- app_assoc. apply Permutation_app_head. apply IHHr.
Qed.

(* task removed from queue q by a thread that has not yet returned from get_task *)
Definition out_of (q : nat) (p : pc) : list nat :=
  match p with Q_unlock q' (Some k) => if Nat.eqb q' q then [k] else [] | _ => [] end.
Definition inflight_out (cfg : config) (s : sys) (q : nat) : list nat :=
  flat_map (fun t => out_of q (tpc (thr s t))) (seq 0 (nthr cfg)).

Lemma exec_rets : forall cfg s t c q,
  Permutation (ev_takes q (snd (exec cfg s t c)) ++ out_of q (tpc (thr s t)))
              (ev_rets q (snd (exec cfg s t c)) ++ out_of q (tpc (thr (fst (exec cfg s t c)) t))).
Proof.
  intros cfg s t c q0.
  exec_leaves.
  all: try match goal with H : tpc _ = _ |- _ => rewrite H end.
  all: try (q_simpl; cbn; reflexivity).
  all: q_simpl; unfold ev_takes, ev_rets, out_of; cbn [e_take e_ret e_obj ev_take ev_ret ev]; repeat match goal with |- context[Nat.eqb ?a ?b] => destruct (Nat.eqb a b) end; cbn; reflexivity.
Qed.


Lemma exec_skip : forall cfg s t c, (t <? nthr cfg) = false -> exec cfg s t c = (s, ev t ASkip BNone 0 0).
Proof. intros. unfold exec. rewrite H. reflexivity. Qed.

Lemma exec_thr_other : forall cfg s t c t', t' <> t -> thr (fst (exec cfg s t c)) t' = thr s t'.
Proof.
  intros cfg s t c t' Hn. exec_leaves; try reflexivity; cbn; rewrite ?upd_other by auto; reflexivity.
Qed.

Notation cnt := (count_occ Nat.eq_dec).

Lemma flat_map_ext_in : forall (f g : nat -> list nat) l, (forall a, In a l -> f a = g a) -> flat_map f l = flat_map g l.
Proof. induction l; simpl; intros; auto. rewrite H, IHl; auto. Qed.

Lemma flat_map_seq_upd : forall (f g : nat -> list nat) n t x, t < n -> (forall i, i <> t -> g i = f i) ->
  cnt (f t) x + cnt (flat_map g (seq 0 n)) x = cnt (g t) x + cnt (flat_map f (seq 0 n)) x.
Proof.
  induction n; intros t x Ht He. lia.
  rewrite seq_S, !flat_map_app, !count_occ_app. cbn [flat_map plus]. rewrite !app_nil_r.
  destruct (Nat.eq_dec t n) as [->|Hn].
  - assert (E : flat_map g (seq 0 n) = flat_map f (seq 0 n)).
    { apply flat_map_ext_in. intros a Ha. apply in_seq in Ha. apply He. lia. }
    rewrite E. lia.
  - rewrite (He n) by auto. assert (Hlt : t < n) by lia. specialize (IHn t x Hlt He). lia.
Qed.


Lemma queue_removed_accounted : forall cfg s, reach cfg s ->
  forall q x, cnt (removed s q) x = cnt (returned s q) x + cnt (inflight_out cfg s q) x.
Proof.
  intros cfg s Hr. induction Hr; intros q x.
  - assert (E : inflight_out cfg (init cfg) q = []).
    { unfold inflight_out. simpl. induction (seq 0 (nthr cfg)); simpl; auto. }
    rewrite E. reflexivity.
  - unfold removed, returned. rewrite hist_step. cbn [flat_map]. rewrite !count_occ_app.
    fold (removed s q). fold (returned s q). rewrite IHHr.
    unfold inflight_out. rewrite thr_step.
    destruct (t <? nthr cfg) eqn:Ht.
    + apply Nat.ltb_lt in Ht.
      pose proof (exec_rets cfg s t c q) as E. rewrite (Permutation_count_occ Nat.eq_dec) in E. specialize (E x).
      rewrite !count_occ_app in E.
      assert (F := flat_map_seq_upd (fun t' => out_of q (tpc (thr s t'))) (fun t' => out_of q (tpc (thr (fst (exec cfg s t c)) t')))
                    (nthr cfg) t x Ht (fun i Hi => f_equal (fun ts => out_of q (tpc ts)) (exec_thr_other cfg s t c i Hi))).
      cbv beta in F. lia.
    + rewrite exec_skip by auto. cbn. reflexivity.
Qed.

(* every index stored into a queue is in the queue, or has been returned by get_task/try_get_task,
   or is in the hands of a thread that is about to return it - each exactly as often as it was stored *)
Lemma queue_hands_out_once : forall cfg s, reach cfg s ->
  forall q, Permutation (qitems (queues s q) ++ returned s q ++ inflight_out cfg s q) (pushed s q).
Proof.
  intros cfg s Hr q. rewrite <- (queue_multiset cfg s Hr q).
  apply Permutation_app_head. apply (Permutation_count_occ Nat.eq_dec). intros x.
  rewrite count_occ_app. symmetry. now apply queue_removed_accounted.
Qed.

Lemma returned_at_most_pushed : forall cfg s, reach cfg s ->
  forall q k, cnt (returned s q) k <= cnt (pushed s q) k.
Proof.
  intros cfg s Hr q k. pose proof (queue_hands_out_once cfg s Hr q) as P.
  rewrite (Permutation_count_occ Nat.eq_dec) in P. specialize (P k). rewrite !count_occ_app in P. lia.
Qed.

Lemma returned_only_if_pushed : forall cfg s, reach cfg s ->
  forall q k, In k (returned s q) -> In k (pushed s q).
Proof.
  intros cfg s Hr q k H. eapply Permutation_in. apply (queue_hands_out_once cfg s Hr q).
  apply in_or_app. right. apply in_or_app. now left.
Qed.

Lemma queue_exact_when_quiescent : forall cfg s, reach cfg s -> quiescent cfg s ->
  forall q, Permutation (qitems (queues s q) ++ returned s q) (pushed s q).
Proof.
  intros cfg s Hr Hq q. rewrite <- (queue_hands_out_once cfg s Hr q).
  assert (E : inflight_out cfg s q = []).
  { unfold inflight_out. generalize (fun t (H : In t (seq 0 (nthr cfg))) => Hq t (proj2 (proj1 (in_seq _ _ _) H))).
    induction (seq 0 (nthr cfg)); simpl; intros G; auto. rewrite (G a) by now left. simpl. apply IHl. intros. apply G. now right. }
  rewrite E, app_nil_r. reflexivity.
Qed.

(* ------------------------------------------------------------------------------------------ *)
(* the operation a thread is executing determines where it can be *)
Definition pc_op_ok (p : pc) (o : op) : Prop :=
  match p with
  | Idle => True
  | G_readTaken => o = OGet
  | G_fetchCur | G_cas _ | G_incTaken _ | G_maxLoad _ _ | G_maxCas _ _ _ _ | G_totInc _ => o = OGet \/ o = OGetU
  | F_cas i | F_dec i => o = OFree i
  | L_cas l => o = OLock l
  | L_try l => o = OTryLock l
  | L_unlock l => o = OUnlock l
  | C_preinc c => o = OPreInc c
  | C_postinc c => o = OPostInc c
  | C_maxLoad c v | C_maxCas c v _ _ => o = OMax c v
  | C_lfLoad c v | C_lfCas c v _ => o = OLFAdd c v
  | QA_lock q k => o = OAddTask q k
  | QA_unlock q => exists k, o = OAddTask q k
  | Q_lock q => o = OGetTask q
  | Q_trylock q => o = OTryGetTask q
  | D_try0 Direct k | D_try1 Direct k | D_rollback Direct k => o = OLockDep k
  | D_try0 (InQ q _) _ | D_try1 (InQ q _) _ | D_rollback (InQ q _) _ | Q_unlock q _ => o = OGetTask q \/ o = OTryGetTask q
  | U_dep1 k | U_dep0 k => o = OUnlockDep k
  end.

Definition top_inv (s : sys) : Prop := forall t, pc_op_ok (tpc (thr s t)) (top (thr s t)).

Lemma top_inv_exec : forall cfg s t c, top_inv s -> top_inv (fst (exec cfg s t c)).
Proof.
  intros cfg s t c I.
  pose proof (I t) as K.
  exec_leaves; try assumption.
  all: try match goal with H : tpc _ = _ |- _ => rewrite H in K end.
  all: intros t'; destruct (Nat.eq_dec t' t) as [->|Hn];
       [ thr_simpl; cbn [pc_op_ok] | cbn; rewrite ?upd_other by auto; apply I ].
  all: try (cbn in K; eauto; fail).
Qed.

Lemma top_inv_reach : forall cfg s, reach cfg s -> top_inv s.
Proof.
  intros cfg. apply reach_ind_exec.
  - intros t. exact I.
  - intros s h H. exact H.
  - intros. now apply top_inv_exec.
Qed.

(* counters: no update is lost *)
Local Open Scope N_scope.
(* what a step contributes: a completed pre/post_increment of counter c adds 1,
   a completed LockFree::add(c, v) adds v *)
Definition inc_amount (c : nat) (e : event) : N :=
  match e_ret e with
  | Some (OPreInc c', _) | Some (OPostInc c', _) => if Nat.eqb c' c then 1 else 0
  | _ => 0
  end.
Definition lf_amount (c : nat) (e : event) : N :=
  match e_ret e with
  | Some (OLFAdd c' v, _) => if Nat.eqb c' c then v else 0
  | _ => 0
  end.
Definition total_of (f : event -> N) (h : list event) : N := fold_right (fun e a => f e + a) 0 h.

Lemma exec_ctr : forall cfg s t c x, top_inv s ->
  ctr (fst (exec cfg s t c)) x = wadd (ctr s x) (inc_amount x (snd (exec cfg s t c))) \/
  (ctr (fst (exec cfg s t c)) x = ctr s x /\ inc_amount x (snd (exec cfg s t c)) = 0).
Proof.
  intros cfg s t c x I.
  pose proof (I t) as K.
  exec_leaves.
  all: try match goal with H : tpc _ = _ |- _ => rewrite H in K end.
  all: cbn [pc_op_ok] in K.
  all: try (right; split; [reflexivity | unfold inc_amount; cbn [e_ret ev ev_ret ev_take ev_push]; try reflexivity]).
  all: try (cbn [thr set_locks set_qlk set_items set_queues set_flags set_taken set_total set_maxtaken set_cursor set_ctr set_lfc set_mxv];
            repeat match goal with
                   | K0 : _ \/ _ |- _ => destruct K0
                   | K0 : exists _, _ |- _ => destruct K0
                   end;
            match goal with K0 : top _ = _ |- _ => rewrite K0 end; reflexivity).
  all: destruct (Nat.eq_dec x c0) as [->|Hx];
       [ left; cbn; rewrite upd_same; unfold inc_amount; cbn; rewrite K, Nat.eqb_refl; reflexivity
       | right; cbn; rewrite upd_other by auto; split; auto; unfold inc_amount; cbn; rewrite K;
         rewrite (proj2 (Nat.eqb_neq c0 x)) by auto; reflexivity ].
Qed.



Lemma exec_lfc : forall cfg s t c x, top_inv s ->
  lfc (fst (exec cfg s t c)) x = wadd (lfc s x) (lf_amount x (snd (exec cfg s t c))) \/
  (lfc (fst (exec cfg s t c)) x = lfc s x /\ lf_amount x (snd (exec cfg s t c)) = 0).
Proof.
  intros cfg s t c x I.
  pose proof (I t) as K.
  exec_leaves.
  all: try match goal with H : tpc _ = _ |- _ => rewrite H in K end.
  all: cbn [pc_op_ok] in K.
  all: try (right; split; [reflexivity | unfold lf_amount; cbn [e_ret ev ev_ret ev_take ev_push]; try reflexivity]).
  all: try (cbn [thr set_locks set_qlk set_items set_queues set_flags set_taken set_total set_maxtaken set_cursor set_ctr set_lfc set_mxv];
            repeat match goal with
                   | K0 : _ \/ _ |- _ => destruct K0
                   | K0 : exists _, _ |- _ => destruct K0
                   end;
            match goal with K0 : top _ = _ |- _ => rewrite K0 end; reflexivity).
  all: match goal with H : (_ =? _) = true |- _ => apply N.eqb_eq in H; subst end.
  all: destruct (Nat.eq_dec x c0) as [->|Hx];
       [ left; cbn; rewrite upd_same; unfold lf_amount; cbn; rewrite K, Nat.eqb_refl; reflexivity
       | right; cbn; rewrite upd_other by auto; split; auto; unfold lf_amount; cbn; rewrite K;
         rewrite (proj2 (Nat.eqb_neq c0 x)) by auto; reflexivity ].
Qed.

Lemma WORD_nz : WORD <> 0.
Proof. unfold WORD. lia. Qed.

Lemma counter_no_lost_update : forall cfg s c, ctr0 cfg c < WORD -> reach cfg s ->
  ctr s c = (ctr0 cfg c + total_of (inc_amount c) (hist s)) mod WORD.
Proof.
  intros cfg s c H0 Hr. induction Hr.
  - simpl. rewrite N.add_0_r. symmetry. now apply N.mod_small.
  - rewrite hist_step. cbn [total_of fold_right]. fold (total_of (inc_amount c) (hist s)).
    rewrite step_fst. cbn [ctr set_hist].
    destruct (exec_ctr cfg s t c0 c (top_inv_reach _ _ Hr)) as [E|[E1 E2]].
    + rewrite E, IHHr. unfold wadd. rewrite N.add_mod_idemp_l by apply WORD_nz. f_equal. lia.
    + rewrite E1, E2, IHHr. reflexivity.
Qed.

Lemma lockfree_add_no_lost_update : forall cfg s c, lfc0 cfg c < WORD -> reach cfg s ->
  lfc s c = (lfc0 cfg c + total_of (lf_amount c) (hist s)) mod WORD.
Proof.
  intros cfg s c H0 Hr. induction Hr.
  - simpl. rewrite N.add_0_r. symmetry. now apply N.mod_small.
  - rewrite hist_step. cbn [total_of fold_right]. fold (total_of (lf_amount c) (hist s)).
    rewrite step_fst. cbn [lfc set_hist].
    destruct (exec_lfc cfg s t c0 c (top_inv_reach _ _ Hr)) as [E|[E1 E2]].
    + rewrite E, IHHr. unfold wadd. rewrite N.add_mod_idemp_l by apply WORD_nz. f_equal. lia.
    + rewrite E1, E2, IHHr. reflexivity.
Qed.
Local Close Scope N_scope.

(* ------------------------------------------------------------------------------------------ *)
(* what a completed operation tells its caller *)
Lemma reach_step' : forall cfg s t c, reach cfg s -> wf_choice s t c = true -> reach cfg (fst (step cfg s t c)).
Proof. intros. now apply reach_step. Qed.

Lemma ret_means_idle : forall cfg s t c r, e_ret (snd (exec cfg s t c)) = Some r -> tpc (thr (fst (exec cfg s t c)) t) = Idle.
Proof.
  intros cfg s t c r.
  exec_leaves; cbn [e_ret ev ev_ret ev_take ev_push]; try discriminate; intros _; thr_simpl; reflexivity.
Qed.

Lemma ret_task_in_view : forall cfg s t c o k,
  e_ret (snd (exec cfg s t c)) = Some (o, RTask (Some k)) -> In k (htasks (thr (fst (exec cfg s t c)) t)).
Proof.
  intros cfg s t c o k.
  exec_leaves; cbn [e_ret ev ev_ret ev_take ev_push]; intros E; inversion E; subst.
  all: thr_simpl; now left.
Qed.

(* when get_task / try_get_task returns task k to thread t, t owns every lock k declared *)
Lemma handout_owns_all_resources : forall cfg s t c o k,
  reach cfg s -> wf_choice s t c = true ->
  e_ret (snd (step cfg s t c)) = Some (o, RTask (Some k)) ->
  forall l, In l (deps cfg k) -> locks (fst (step cfg s t c)) l = Some t.
Proof.
  intros cfg s t c o k Hr W E l Hl.
  eapply task_held_owns_locks; [apply reach_step'; eauto | | exact Hl].
  rewrite thr_step. rewrite step_snd in E. eapply ret_task_in_view; eauto.
Qed.

Lemma ret_false_keeps_view : forall cfg s t c o,
  e_ret (snd (exec cfg s t c)) = Some (o, RBool false) ->
  hlocks (thr (fst (exec cfg s t c)) t) = hlocks (thr s t) /\ htasks (thr (fst (exec cfg s t c)) t) = htasks (thr s t).
Proof.
  intros cfg s t c o.
  exec_leaves; cbn [e_ret ev ev_ret ev_take ev_push]; intros E; inversion E; subst.
  all: thr_simpl; cbn [thr set_locks]; auto.
Qed.

(* a failed lock attempt - try_lock, or lock_dependency including the case where the first lock
   was taken and the second was not - leaves the thread owning nothing but what its view
   contained before *)
Lemma rollback_leaves_no_lock : forall cfg s t c o,
  reach cfg s -> wf_choice s t c = true ->
  e_ret (snd (step cfg s t c)) = Some (o, RBool false) ->
  forall l, locks (fst (step cfg s t c)) l = Some t ->
  In l (hlocks (thr s t)) \/ exists k, In k (htasks (thr s t)) /\ In l (deps cfg k).
Proof.
  intros cfg s t c o Hr W E l Hl. rewrite step_snd in E.
  destruct (ret_false_keeps_view cfg s t c o E) as [V1 V2].
  rewrite <- V1, <- V2. rewrite <- !thr_step.
  apply (idle_thread_locks_in_view cfg (fst (step cfg s t c))); auto.
  - now apply reach_step'.
  - rewrite thr_step. eapply ret_means_idle; eauto.
Qed.

(* ------------------------------------------------------------------------------------------ *)
(* progress: a scan that comes across a task whose locks are free hands out a task *)
Definition solo_step (cfg : config) (t : nat) (s : sys) : sys := fst (step cfg s t OGet).
Fixpoint solo (cfg : config) (t : nat) (n : nat) (s : sys) : sys :=
  match n with O => s | S n' => solo cfg t n' (solo_step cfg t s) end.

(* all locks of task k are free (and they are different locks) *)
Definition lockable (cfg : config) (s : sys) (k : nat) : Prop :=
  NoDup (deps cfg k) /\ forall l, In l (deps cfg k) -> locks s l = None.

Definition handed (s : sys) (t q : nat) : Prop := exists k, tpc (thr s t) = Q_unlock q (Some k).
Definition eventually_handed (cfg : config) (s : sys) (t q : nat) : Prop := exists n, handed (solo cfg t n s) t q.

Lemma eventually_S : forall cfg s t q, eventually_handed cfg (solo_step cfg t s) t q -> eventually_handed cfg s t q.
Proof. intros cfg s t q [n H]. exists (S n). exact H. Qed.
Lemma eventually_now : forall cfg s t q, handed s t q -> eventually_handed cfg s t q.
Proof. intros cfg s t q H. now exists 0. Qed.

Lemma solo_reach : forall cfg s t, reach cfg s -> tpc (thr s t) <> Idle -> reach cfg (solo_step cfg t s).
Proof.
  intros cfg s t Hr Hn. apply reach_step; auto. unfold wf_choice. destruct (tpc (thr s t)); auto; congruence.
Qed.

Lemma lt_nthr : forall cfg t, t < nthr cfg -> negb (t <? nthr cfg) = false.
Proof. intros. apply negb_false_iff. now apply Nat.ltb_lt. Qed.

(* the scan continues below a task it could not lock *)
Lemma scan_continue : forall cfg s1 t q m e h,
  0 < m ->
  let s2 := set_hist (fst (scan cfg s1 t q m e)) h in
  handed s2 t q \/
  (exists k', tpc (thr s2 t) = D_try0 (InQ q m) k' /\ locks s2 = locks s1 /\ queues s2 = queues s1).
Proof.
  intros cfg s1 t q m e h Hm. destruct m as [|j]. lia.
  unfold scan. destruct (dep0 cfg (nth j (qitems (queues s1 q)) 0)) eqn:E; cbn [fst].
  - right. eexists. split; [|split]; try reflexivity. cbn. rewrite upd_same. reflexivity.
  - left. eexists. cbn. rewrite upd_same. reflexivity.
Qed.

Section Progress.
  Variable cfg : config.
  Variables t q : nat.
  Hypothesis Ht : t < nthr cfg.

  Lemma step_try0_fail : forall s idx k l0 o,
    tpc (thr s t) = D_try0 (InQ q idx) k -> dep0 cfg k = Some l0 -> locks s l0 = Some o ->
    exists e h, solo_step cfg t s = set_hist (fst (scan cfg s t q (idx - 1) e)) h.
  Proof.
    intros s idx k l0 o Hp Hd Hl. unfold solo_step. rewrite step_fst. unfold exec.
    rewrite (lt_nthr _ _ Ht), Hp, Hd, Hl. cbn [dep_done]. eexists. eexists. reflexivity.
  Qed.

  Lemma step_try0_single : forall s idx k l0,
    tpc (thr s t) = D_try0 (InQ q idx) k -> dep0 cfg k = Some l0 -> dep1 cfg k = None -> locks s l0 = None ->
    handed (solo_step cfg t s) t q.
  Proof.
    intros s idx k l0 Hp Hd Hd1 Hl. unfold solo_step. rewrite step_fst. unfold exec.
    rewrite (lt_nthr _ _ Ht), Hp, Hd, Hl, Hd1. cbn [dep_done fst]. exists k. cbn. rewrite upd_same. reflexivity.
  Qed.

  Lemma step_try0_first : forall s idx k l0 l1,
    tpc (thr s t) = D_try0 (InQ q idx) k -> dep0 cfg k = Some l0 -> dep1 cfg k = Some l1 -> locks s l0 = None ->
    let s1 := solo_step cfg t s in
    tpc (thr s1 t) = D_try1 (InQ q idx) k /\ locks s1 = upd (locks s) l0 (Some t) /\ queues s1 = queues s.
  Proof.
    intros s idx k l0 l1 Hp Hd Hd1 Hl. unfold solo_step. rewrite step_fst. unfold exec.
    rewrite (lt_nthr _ _ Ht), Hp, Hd, Hl, Hd1. cbn. rewrite upd_same. auto.
  Qed.

  Lemma step_try1_ok : forall s idx k l1,
    tpc (thr s t) = D_try1 (InQ q idx) k -> dep1 cfg k = Some l1 -> locks s l1 = None ->
    handed (solo_step cfg t s) t q.
  Proof.
    intros s idx k l1 Hp Hd1 Hl. unfold solo_step. rewrite step_fst. unfold exec.
    rewrite (lt_nthr _ _ Ht), Hp, Hd1, Hl. cbn [dep_done fst]. exists k. cbn. rewrite upd_same. reflexivity.
  Qed.

  Lemma step_try1_fail : forall s idx k l1 o,
    tpc (thr s t) = D_try1 (InQ q idx) k -> dep1 cfg k = Some l1 -> locks s l1 = Some o ->
    let s1 := solo_step cfg t s in
    tpc (thr s1 t) = D_rollback (InQ q idx) k /\ locks s1 = locks s /\ queues s1 = queues s.
  Proof.
    intros s idx k l1 o Hp Hd1 Hl. unfold solo_step. rewrite step_fst. unfold exec.
    rewrite (lt_nthr _ _ Ht), Hp, Hd1, Hl. cbn. rewrite upd_same. auto.
  Qed.

  Lemma step_rollback : forall s idx k l0,
    tpc (thr s t) = D_rollback (InQ q idx) k -> dep0 cfg k = Some l0 ->
    exists e h, solo_step cfg t s = set_hist (fst (scan cfg (set_locks s (upd (locks s) l0 None)) t q (idx - 1) e)) h.
  Proof.
    intros s idx k l0 Hp Hd. unfold solo_step. rewrite step_fst. unfold exec.
    rewrite (lt_nthr _ _ Ht), Hp, Hd. cbn [dep_done]. eexists. eexists. reflexivity.
  Qed.
End Progress.

Lemma first_dep_in_deps : forall cfg k l0, dep0 cfg k = Some l0 -> In l0 (deps cfg k).
Proof. intros cfg k l0 H. unfold deps. rewrite H. destruct (dep1 cfg k); now left. Qed.

Lemma scan_reaches_free_task : forall cfg t q, t < nthr cfg ->
  forall idx s k, reach cfg s -> tpc (thr s t) = D_try0 (InQ q idx) k ->
  (exists j, j < idx /\ lockable cfg s (nth j (qitems (queues s q)) 0)) ->
  eventually_handed cfg s t q.
Proof.
  intros cfg t q Ht idx. induction idx as [idx IH] using lt_wf_ind.
  intros s k Hr Hp [j [Hj Hlk]].
  pose proof (scan_inv_reach _ _ Hr t) as SK. unfold scan_ok in SK. rewrite Hp in SK. destruct SK as [Hidx Hk].
  pose proof (li_pc _ _ (lock_inv_reach _ _ Hr) t) as PK. unfold pc_ok in PK. rewrite Hp in PK.
  destruct (dep0 cfg k) as [l0|] eqn:D0; [|congruence].
  assert (Hne : tpc (thr s t) <> Idle) by (rewrite Hp; discriminate).
  pose proof (solo_reach cfg s t Hr Hne) as Hr1.
  destruct (locks s l0) as [o|] eqn:L0.
  - (* the first lock is taken: next position *)
    assert (Hj' : j < idx - 1).
    { destruct (Nat.eq_dec j (idx - 1)) as [->|]; [|lia]. exfalso. rewrite Hk in Hlk. destruct Hlk as [_ Hf].
      rewrite (Hf l0) in L0. discriminate. now apply first_dep_in_deps. }
    destruct (step_try0_fail cfg t q Ht s idx k l0 o Hp D0 L0) as [e [h E]].
    apply eventually_S. rewrite E in *.
    destruct (scan_continue cfg s t q (idx - 1) e h) as [Hd | [k' [P1 [P2 P3]]]]; [lia | now apply eventually_now |].
    apply (IH (idx - 1)) with (k := k'); auto. lia.
    exists j. split; auto. rewrite P3. destruct Hlk as [Hnd Hf]. split; auto. intros l Hl. rewrite P2. auto.
  - destruct (dep1 cfg k) as [l1|] eqn:D1.
    + (* two locks *)
      destruct (step_try0_first cfg t q Ht s idx k l0 l1 Hp D0 D1 L0) as [Q1 [Q2 Q3]].
      apply eventually_S. set (s1 := solo_step cfg t s) in *.
      destruct (locks s1 l1) as [o|] eqn:L1.
      * (* the second lock is taken: roll back, next position *)
        destruct (step_try1_fail cfg t q Ht s1 idx k l1 o Q1 D1 L1) as [R1 [R2 R3]].
        assert (Hne1 : tpc (thr s1 t) <> Idle) by (rewrite Q1; discriminate).
        pose proof (solo_reach cfg s1 t Hr1 Hne1) as Hr2.
        apply eventually_S. set (s2 := solo_step cfg t s1) in *.
        assert (Hne2 : tpc (thr s2 t) <> Idle) by (rewrite R1; discriminate).
        pose proof (solo_reach cfg s2 t Hr2 Hne2) as Hr3.
        destruct (step_rollback cfg t q Ht s2 idx k l0 R1 D0) as [e [h E]].
        apply eventually_S. rewrite E in *.
        assert (Hj' : j < idx - 1).
        { destruct (Nat.eq_dec j (idx - 1)) as [->|]; [|lia]. exfalso. rewrite Hk in Hlk. destruct Hlk as [Hnd Hf].
          unfold deps in Hnd, Hf. rewrite D0, D1 in Hnd, Hf.
          assert (l1 <> l0). { inversion Hnd; subst. intros ->. apply H1. now left. }
          rewrite Q2, upd_other in L1 by auto. rewrite (Hf l1) in L1. discriminate. right. now left. }
        destruct (scan_continue cfg (set_locks s2 (upd (locks s2) l0 None)) t q (idx - 1) e h) as [Hd | [k' [P1 [P2 P3]]]];
          [lia | now apply eventually_now |].
        apply (IH (idx - 1)) with (k := k'); auto. lia.
        exists j. split; auto. rewrite P3. cbn [queues set_locks]. rewrite R3, Q3.
        destruct Hlk as [Hnd Hf]. split; auto. intros l Hl. rewrite P2. cbn [locks set_locks]. rewrite R2, Q2.
        destruct (Nat.eq_dec l l0) as [->|Hl0]. now rewrite upd_same. rewrite !upd_other by auto. auto.
      * apply eventually_S. apply eventually_now. eapply step_try1_ok; eauto.
    + apply eventually_S. apply eventually_now. eapply step_try0_single; eauto.
Qed.

(* get_task / try_get_task started on an unlocked queue that contains a task whose locks are all
   free: running the caller alone, it removes a task from the queue for itself ... *)
Lemma free_resources_imply_handout : forall cfg s t q,
  reach cfg s -> t < nthr cfg ->
  tpc (thr s t) = Q_lock q \/ tpc (thr s t) = Q_trylock q ->
  qlk (queues s q) = None ->
  (exists j, j < length (qitems (queues s q)) /\ lockable cfg s (nth j (qitems (queues s q)) 0)) ->
  eventually_handed cfg s t q.
Proof.
  intros cfg s t q Hr Ht Hp Hq [j [Hj Hlk]].
  assert (Hne : tpc (thr s t) <> Idle) by (destruct Hp as [-> | ->]; discriminate).
  pose proof (solo_reach cfg s t Hr Hne) as Hr1.
  assert (E : exists e h, solo_step cfg t s =
            set_hist (fst (scan cfg (set_qlk s q (Some t)) t q (length (qitems (queues (set_qlk s q (Some t)) q))) e)) h).
  { unfold solo_step. rewrite step_fst. unfold exec. rewrite (lt_nthr _ _ Ht).
    destruct Hp as [-> | ->]; rewrite Hq; eexists; eexists; reflexivity. }
  destruct E as [e [h E]]. apply eventually_S. rewrite E in *.
  rewrite qitems_set_qlk in *.
  destruct (scan_continue cfg (set_qlk s q (Some t)) t q (length (qitems (queues s q))) e h) as [Hd | [k' [P1 [P2 P3]]]];
    [lia | now apply eventually_now |].
  eapply scan_reaches_free_task; eauto.
  exists j. split; auto. rewrite P3, qitems_set_qlk. destruct Hlk as [Hnd Hf]. split; auto.
  intros l Hl. rewrite P2. cbn. auto.
Qed.

(* ... and its next step returns that task *)
Lemma handed_is_returned : forall cfg s t q k c, t < nthr cfg -> tpc (thr s t) = Q_unlock q (Some k) ->
  e_ret (snd (step cfg s t c)) = Some (top (thr s t), RTask (Some k)).
Proof.
  intros cfg s t q k c Ht Hp. rewrite step_snd. unfold exec. rewrite (lt_nthr _ _ Ht), Hp. reflexivity.
Qed.

(* ------------------------------------------------------------------------------------------ *)
(* progress of the pool: a free (e.g. released) slot is found again *)
Definition acquired (s : sys) (t : nat) : Prop := exists j, tpc (thr s t) = G_incTaken j.

Local Open Scope N_scope.
Lemma winc_shift : forall c m, (winc c + m) mod WORD = (c + (m + 1)) mod WORD.
Proof.
  intros. unfold winc. rewrite N.add_mod_idemp_l by apply WORD_nz. f_equal. lia.
Qed.

(* every residue is met within 2*p consecutive values of a 64-bit cursor, wrap included *)
Lemma cursor_covers : forall c p i, 0 < p -> p <= WORD -> c < WORD -> i < p ->
  exists m, m < 2 * p /\ ((c + m) mod WORD) mod p = i.
Proof.
  intros c p i Hp Hpw Hc Hi.
  destruct (N.le_gt_cases (c + p) WORD) as [Hnw|Hw].
  - (* no wrap within the next p values *)
    assert (Hr : c mod p < p) by (apply N.mod_lt; lia).
    assert (Hcr : c = (c / p) * p + c mod p) by (rewrite N.mul_comm; apply N.div_mod; lia).
    generalize dependent (c mod p). generalize dependent (c / p). intros a r Hr Hcr.
    destruct (N.le_gt_cases r i) as [Hri|Hri].
    + exists (i - r). split. lia.
      assert (E : c + (i - r) = i + a * p) by lia.
      rewrite E, (N.mod_small (i + a * p)) by lia.
      rewrite N.mod_add by lia. apply N.mod_small. lia.
    + exists (i + p - r). split. lia.
      assert (E : c + (i + p - r) = i + (a + 1) * p) by lia.
      rewrite E, (N.mod_small (i + (a + 1) * p)) by lia.
      rewrite N.mod_add by lia. apply N.mod_small. lia.
  - (* the cursor wraps to 0 first *)
    exists (WORD - c + i). split. lia.
    replace (c + (WORD - c + i)) with (i + 1 * WORD) by lia.
    rewrite N.mod_add by apply WORD_nz. rewrite (N.mod_small i WORD) by lia. apply N.mod_small. lia.
Qed.
Local Close Scope N_scope.

Lemma get_progress_fuel : forall cfg t, t < nthr cfg -> forall n s,
  tpc (thr s t) = G_fetchCur -> (cursor s < WORD)%N ->
  (exists m, m < n /\ flags s (N.to_nat (((cursor s + N.of_nat m) mod WORD) mod N.of_nat (psize cfg))) = None) ->
  exists k, acquired (solo cfg t k s) t.
Proof.
  intros cfg t Ht. induction n; intros s Hp Hc [m [Hm Hf]]. lia.
  (* first step: fetch the cursor *)
  set (i0 := N.to_nat (cursor s mod N.of_nat (psize cfg))).
  assert (S1 : tpc (thr (solo_step cfg t s) t) = G_cas i0 /\ flags (solo_step cfg t s) = flags s /\ cursor (solo_step cfg t s) = winc (cursor s)).
  { unfold solo_step. rewrite step_fst. unfold exec. rewrite (lt_nthr _ _ Ht), Hp. cbn. rewrite upd_same. auto. }
  destruct S1 as [P1 [F1 C1]]. set (s1 := solo_step cfg t s) in *.
  destruct (flags s i0) as [o|] eqn:Fi.
  - (* taken: the CAS fails, next cursor value *)
    assert (S2 : tpc (thr (solo_step cfg t s1) t) = G_fetchCur /\ flags (solo_step cfg t s1) = flags s1 /\ cursor (solo_step cfg t s1) = cursor s1).
    { unfold solo_step. rewrite step_fst. unfold exec. rewrite (lt_nthr _ _ Ht), P1, F1, Fi. cbn. rewrite upd_same. auto. }
    destruct S2 as [P2 [F2 C2]]. set (s2 := solo_step cfg t s1) in *.
    destruct m as [|m'].
    + exfalso. rewrite N.add_0_r, (N.mod_small (cursor s)) in Hf by auto. fold i0 in Hf. congruence.
    + destruct (IHn s2 P2) as [k Hk].
      * rewrite C2, C1. apply N.mod_lt. apply WORD_nz.
      * exists m'. split. lia. rewrite F2, F1, C2, C1, winc_shift.
        replace (N.of_nat m' + 1)%N with (N.of_nat (S m')) by lia. exact Hf.
      * exists (S (S k)). exact Hk.
  - (* free: the CAS succeeds *)
    exists 2. cbn [solo]. fold s1. exists i0.
    unfold solo_step. rewrite step_fst. unfold exec. rewrite (lt_nthr _ _ Ht), P1, F1, Fi. cbn. rewrite upd_same. reflexivity.
Qed.

(* a requester past the "pool full?" test finds any slot that is free, in particular one that has
   just been released; the cursor may wrap around the pool and around 2^64 on the way *)
Lemma released_becomes_available : forall cfg s t i,
  t < nthr cfg -> (0 < psize cfg) -> (N.of_nat (psize cfg) <= WORD)%N -> (cursor s < WORD)%N ->
  tpc (thr s t) = G_fetchCur -> i < psize cfg -> flags s i = None ->
  exists k, acquired (solo cfg t k s) t.
Proof.
  intros cfg s t i Ht Hp Hpw Hc Hpc Hi Hf.
  destruct (cursor_covers (cursor s) (N.of_nat (psize cfg)) (N.of_nat i)) as [m [Hm Hcov]]; try lia.
  eapply (get_progress_fuel cfg t Ht (S (N.to_nat m))); auto.
  exists (N.to_nat m). split. lia. rewrite N2Nat.id, Hcov, Nat2N.id. exact Hf.
Qed.

Lemma cursor_in_range : forall cfg s, (cur0 cfg < WORD)%N -> reach cfg s -> (cursor s < WORD)%N.
Proof.
  intros cfg s H0 Hr. revert s Hr. apply (reach_ind_exec cfg (fun s => (cursor s < WORD)%N)); auto.
  intros s0 t c _ I _. exec_leaves; auto. cbn. apply N.mod_lt. apply WORD_nz.
Qed.

(* ------------------------------------------------------------------------------------------ *)
(* Examples: the hypotheses are satisfiable, the model runs *)
Definition ex_none : nat -> option nat := fun _ => None.
Definition ex_zero : nat -> N := fun _ => 0%N.

(* two threads fill a pool of two slots whose cursor starts at 2^64 - 1 (so it wraps past 2^64 and
   around the pool); a third request finds the pool full; after a release the slot is found again,
   skipping the slot the requester holds itself *)
Definition ex_pool_cfg : config := mkConfig 2 2 ex_none ex_none true (WORD - 1)%N ex_zero ex_zero ex_zero.
Definition ex_pool_sched : list (nat * op) :=
  flat_map (fun _ => [(0, OGet); (1, OGet)]) (seq 0 8)      (* both get a slot, steps interleaved *)
  ++ repeat (1, OGet) 2                                     (* thread 1 lost the race on the max counter: retry *)
  ++ repeat (0, OGet) 2                                     (* pool full: returns size *)
  ++ repeat (1, OFree 0) 3                                  (* thread 1 releases slot 0 *)
  ++ repeat (0, OGet) 10.                                   (* thread 0: slot 1 is its own, finds slot 0 *)

Example ex_pool_wf : wf_sched ex_pool_cfg ex_pool_sched (init ex_pool_cfg) = true.
Proof. vm_compute. reflexivity. Qed.

Definition ex_pool_final : sys := run ex_pool_cfg ex_pool_sched (init ex_pool_cfg).
Example ex_pool_result :
  (held (thr ex_pool_final 0), held (thr ex_pool_final 1), taken ex_pool_final, cursor ex_pool_final,
   map (fun i => is_some (flags ex_pool_final i)) [0; 1], maxtaken ex_pool_final, total ex_pool_final,
   map (fun e => e_ret e) (filter (fun e => is_some (e_ret e)) (rev (hist ex_pool_final))))
  = ([0; 1], [], 2%N, 3%N, [true; true], 2%N, 3%N,
     [Some (OGet, RNat 1); Some (OGet, RNat 0); Some (OGet, RNat 2); Some (OFree 0, RUnit); Some (OGet, RNat 0)]).
Proof. vm_compute. reflexivity. Qed.

(* two tasks that take the same two locks in opposite order; thread 1 holds lock 1, so the scan of
   thread 0 takes lock 0 for task 0, fails on lock 1, rolls lock 0 back and returns no task; once
   lock 1 is released the same scan hands out task 0 with both locks *)
Definition ex_q_cfg : config :=
  mkConfig 2 1 (fun k => match k with 0 => Some 0 | 1 => Some 1 | _ => None end)
               (fun k => match k with 0 => Some 1 | 1 => Some 0 | _ => None end) true 0%N ex_zero ex_zero ex_zero.
Definition ex_q_sched : list (nat * op) :=
  repeat (1, OTryLock 1) 2 ++ repeat (0, OAddTask 0 0) 3
  ++ repeat (0, OGetTask 0) 6          (* start, queue lock, lock 0, lock 1 (fails), rollback, queue unlock *)
  ++ repeat (1, OUnlock 1) 2
  ++ repeat (0, OGetTask 0) 5.         (* start, queue lock, lock 0, lock 1, queue unlock *)
Example ex_q_wf : wf_sched ex_q_cfg ex_q_sched (init ex_q_cfg) = true.
Proof. vm_compute. reflexivity. Qed.
Definition ex_q_mid : sys := run ex_q_cfg (firstn 11 ex_q_sched) (init ex_q_cfg).
Definition ex_q_final : sys := run ex_q_cfg ex_q_sched (init ex_q_cfg).
Example ex_q_result :
  (map (locks ex_q_mid) [0; 1], htasks (thr ex_q_mid 0), qitems (queues ex_q_mid 0),
   map (locks ex_q_final) [0; 1], htasks (thr ex_q_final 0), qitems (queues ex_q_final 0),
   map (fun e => e_ret e) (filter (fun e => is_some (e_ret e)) (rev (hist ex_q_final))))
  = ([None; Some 1], [], [0],
     [Some 0; Some 0], [0], [],
     [Some (OTryLock 1, RBool true); Some (OAddTask 0 0, RUnit); Some (OGetTask 0, RTask None);
      Some (OUnlock 1, RUnit); Some (OGetTask 0, RTask (Some 0))]).
Proof. vm_compute. reflexivity. Qed.

(* the hypotheses of the progress theorems are satisfiable *)
Example ex_lockable : lockable ex_q_cfg (init ex_q_cfg) 0.
Proof.
  split. vm_compute. repeat constructor; simpl; intuition congruence. intros. reflexivity.
Qed.

(* ------------------------------------------------------------------------------------------ *)
(* a complete request on a quiescent pool with a free slot succeeds *)
Lemma nset_lt_psize : forall cfg s i, i < psize cfg -> flags s i = None -> (nset cfg s < Z.of_nat (psize cfg))%Z.
Proof.
  intros cfg s i Hi Hf. unfold nset.
  assert (G : forall n, (sumf (fun j => b2z (is_some (flags s j))) n <= Z.of_nat n - (if (i <? n)%nat then 1 else 0))%Z).
  { induction n; simpl sumf. simpl. lia.
    destruct (Nat.eq_dec i n) as [->|Hn].
    - rewrite Hf. simpl b2z. replace (n <? S n) with true by (symmetry; apply Nat.ltb_lt; lia).
      destruct (n <? n) eqn:E. apply Nat.ltb_lt in E. lia. lia.
    - replace (i <? S n) with (i <? n).
      + destruct (is_some (flags s n)); simpl b2z; lia.
      + destruct (i <? n) eqn:E1, (i <? S n) eqn:E2; auto.
        * apply Nat.ltb_lt in E1. apply Nat.ltb_ge in E2. lia.
        * apply Nat.ltb_ge in E1. apply Nat.ltb_lt in E2. lia. }
  specialize (G (psize cfg)). replace (i <? psize cfg) with true in G by (symmetry; now apply Nat.ltb_lt). lia.
Qed.

Lemma pool_get_succeeds_when_quiescent : forall cfg s t i,
  reach cfg s -> quiescent cfg s -> t < nthr cfg ->
  0 < psize cfg -> (N.of_nat (psize cfg) < WORD)%N -> (cur0 cfg < WORD)%N ->
  i < psize cfg -> flags s i = None ->
  exists k, acquired (solo cfg t k s) t.
Proof.
  intros cfg s t i Hr Hq Ht Hp Hpw Hc0 Hi Hf.
  destruct (occupancy_exact_when_quiescent cfg s Hp Hpw Hr Hq) as [O1 O2].
  assert (Htk : (taken s < N.of_nat (psize cfg))%N).
  { pose proof (nset_lt_psize cfg s i Hi Hf) as L. rewrite <- count_flags_nset, <- O2, <- O1 in L. lia. }
  pose proof (Hq t Ht) as Hidle.
  (* step 1: the client starts get_free_element_safe *)
  assert (S1 : tpc (thr (solo_step cfg t s) t) = G_readTaken /\ taken (solo_step cfg t s) = taken s
               /\ flags (solo_step cfg t s) = flags s /\ cursor (solo_step cfg t s) = cursor s).
  { unfold solo_step. rewrite step_fst. unfold exec. rewrite (lt_nthr _ _ Ht), Hidle. cbn. rewrite !upd_same. auto. }
  destruct S1 as [P1 [T1 [F1 C1]]]. set (s1 := solo_step cfg t s) in *.
  (* step 2: the occupancy test passes *)
  assert (S2 : tpc (thr (solo_step cfg t s1) t) = G_fetchCur /\ flags (solo_step cfg t s1) = flags s1 /\ cursor (solo_step cfg t s1) = cursor s1).
  { unfold solo_step. rewrite step_fst. unfold exec. rewrite (lt_nthr _ _ Ht), P1, T1.
    apply N.ltb_lt in Htk. rewrite Htk. cbn. rewrite upd_same. auto. }
  destruct S2 as [P2 [F2 C2]]. set (s2 := solo_step cfg t s1) in *.
  destruct (released_becomes_available cfg s2 t i) as [k Hk]; auto; try lia.
  - rewrite C2, C1. now apply cursor_in_range with (cfg := cfg).
  - rewrite F2, F1. exact Hf.
  - exists (S (S k)). exact Hk.
Qed.

(* ------------------------------------------------------------------------------------------ *)
(* set_extra_dependency and a task that is given the same lock twice (defect D2).
   Pinned commit ([dedup = false]): both dependencies are stored; such a task is never handed out,
   to nobody, whatever the schedule (lock_dependency takes the lock, fails on it the second time
   and rolls back).  Repaired code ([dedup = true]): the second dependency is dropped, the locks
   of every task are different locks, and the progress theorems need no side condition. *)
Lemma same_lock_twice_never_handed : forall cfg s k l, reach cfg s ->
  dep0 cfg k = Some l -> dep1 cfg k = Some l ->
  forall t, ~ In k (htasks (thr s t)).
Proof.
  intros cfg s k l Hr D0 D1 t Hin.
  pose proof (lock_held_once cfg s Hr t) as Hnd.
  rewrite (NoDup_count_occ Nat.eq_dec) in Hnd. specialize (Hnd l).
  unfold tlocks in Hnd. rewrite !count_occ_app in Hnd.
  rewrite (count_flat_remove1 (deps cfg) k (htasks (thr s t)) l Hin) in Hnd.
  unfold deps at 1 in Hnd. rewrite D0, D1 in Hnd. cbn [count_occ] in Hnd.
  destruct (Nat.eq_dec l l); [|congruence]. lia.
Qed.

Lemma dep1_pinned : forall cfg k, dedup cfg = false -> dep1 cfg k = xdep1 cfg k.
Proof. intros cfg k H. unfold dep1. rewrite H. destruct (xdep1 cfg k); reflexivity. Qed.

Lemma same_lock_twice_never_returned_pinned : forall cfg s t c o k l, reach cfg s -> wf_choice s t c = true ->
  dedup cfg = false -> dep0 cfg k = Some l -> xdep1 cfg k = Some l ->
  e_ret (snd (step cfg s t c)) <> Some (o, RTask (Some k)).
Proof.
  intros cfg s t c o k l Hr W Hd D0 D1 E.
  assert (D1' : dep1 cfg k = Some l) by (rewrite dep1_pinned; auto).
  apply (same_lock_twice_never_handed cfg (fst (step cfg s t c)) k l (reach_step' _ _ _ _ Hr W) D0 D1' t).
  rewrite thr_step. rewrite step_snd in E. eapply ret_task_in_view; eauto.
Qed.

Lemma same_lock_twice_is_one_dependency : forall cfg k l, dedup cfg = true ->
  dep0 cfg k = Some l -> xdep1 cfg k = Some l -> deps cfg k = [l].
Proof.
  intros cfg k l Hd D0 D1. unfold deps, dep1. rewrite D0, D1, Hd, Nat.eqb_refl. reflexivity.
Qed.

Lemma deps_nodup : forall cfg k, dedup cfg = true -> NoDup (deps cfg k).
Proof.
  intros cfg k Hd. unfold deps, dep1. destruct (dep0 cfg k) as [l0|]; [|constructor].
  destruct (xdep1 cfg k) as [l1|]; [|repeat constructor; simpl; tauto].
  rewrite Hd. simpl. destruct (Nat.eqb l0 l1) eqn:E.
  - repeat constructor; simpl; tauto.
  - apply Nat.eqb_neq in E. repeat constructor; simpl; intuition.
Qed.

(* repaired code: "none of its resources is held by anyone" is all it takes *)
Definition all_free (cfg : config) (s : sys) (k : nat) : Prop := forall l, In l (deps cfg k) -> locks s l = None.

Lemma free_resources_imply_handout_dedup : forall cfg s t q,
  dedup cfg = true -> reach cfg s -> t < nthr cfg ->
  tpc (thr s t) = Q_lock q \/ tpc (thr s t) = Q_trylock q ->
  qlk (queues s q) = None ->
  (exists j, j < length (qitems (queues s q)) /\ all_free cfg s (nth j (qitems (queues s q)) 0)) ->
  eventually_handed cfg s t q.
Proof.
  intros cfg s t q Hd Hr Ht Hp Hq [j [Hj Hf]]. eapply free_resources_imply_handout; eauto.
  exists j. split; auto. split; auto. now apply deps_nodup.
Qed.

Lemma scan_reaches_free_task_dedup : forall cfg t q, dedup cfg = true -> t < nthr cfg ->
  forall idx s k, reach cfg s -> tpc (thr s t) = D_try0 (InQ q idx) k ->
  (exists j, j < idx /\ all_free cfg s (nth j (qitems (queues s q)) 0)) ->
  eventually_handed cfg s t q.
Proof.
  intros cfg t q Hd Ht idx s k Hr Hp [j [Hj Hf]]. eapply scan_reaches_free_task; eauto.
  exists j. split; auto. split; auto. now apply deps_nodup.
Qed.

(* a task given the same lock twice: one dependency, handed out with it, one lock released *)
Definition ex_same_cfg : config :=
  mkConfig 1 1 (fun _ => Some 0) (fun _ => Some 0) true 0%N (fun _ => 0%N) (fun _ => 0%N) (fun _ => 0%N).
Definition ex_same_sched : list (nat * op) :=
  repeat (0, OAddTask 0 0) 3 ++ repeat (0, OGetTask 0) 4 ++ repeat (0, OUnlockDep 0) 2.
Example ex_same_lock_handed_out :
  let s := run ex_same_cfg ex_same_sched (init ex_same_cfg) in
  (wf_sched ex_same_cfg ex_same_sched (init ex_same_cfg), locks s 0, htasks (thr s 0), length (hist s),
   map (fun e => e_ret e) (filter (fun e => is_some (e_ret e)) (rev (hist s))))
  = (true, None, [], 9,
     [Some (OAddTask 0 0, RUnit); Some (OGetTask 0, RTask (Some 0)); Some (OUnlockDep 0, RUnit)]).
Proof. vm_compute. reflexivity. Qed.
(* the pinned variant on the same schedule: the task stays in the queue *)
Definition ex_same_cfg_pinned : config :=
  mkConfig 1 1 (fun _ => Some 0) (fun _ => Some 0) false 0%N (fun _ => 0%N) (fun _ => 0%N) (fun _ => 0%N).
Example ex_same_lock_pinned_stuck :
  let s := run ex_same_cfg_pinned (repeat (0, OAddTask 0 0) 3 ++ repeat (0, OGetTask 0) 6) (init ex_same_cfg_pinned) in
  (qitems (queues s 0), locks s 0, map (fun e => e_ret e) (filter (fun e => is_some (e_ret e)) (rev (hist s))))
  = ([0], None, [Some (OAddTask 0 0, RUnit); Some (OGetTask 0, RTask None)]).
Proof. vm_compute. reflexivity. Qed.

(* ------------------------------------------------------------------------------------------ *)
(* AtomicValue::max (load + CAS loop): the variable never decreases and is at least every value
   a completed max() call was given *)
Definition mx_ok (ts : tstate) : Prop :=
  match tpc ts with C_maxCas _ x old new => new = N.max x old | _ => True end.
Definition mx_inv (s : sys) : Prop := forall t, mx_ok (thr s t).

Lemma mx_inv_exec : forall cfg s t c, mx_inv s -> mx_inv (fst (exec cfg s t c)).
Proof.
  intros cfg s t c I.
  exec_leaves; try assumption.
  all: intros t'; destruct (Nat.eq_dec t' t) as [->|Hn];
       [ unfold mx_ok; thr_simpl; try exact Logic.I; try reflexivity | cbn; rewrite ?upd_other by auto; apply I ].
Qed.

Lemma mx_inv_reach : forall cfg s, reach cfg s -> mx_inv s.
Proof.
  intros cfg. apply reach_ind_exec.
  - intros t. exact I.
  - intros s h H. exact H.
  - intros. now apply mx_inv_exec.
Qed.

Lemma exec_mxv_mono : forall cfg s t c x, mx_inv s -> (mxv s x <= mxv (fst (exec cfg s t c)) x)%N.
Proof.
  intros cfg s t c x I. pose proof (I t) as K. unfold mx_ok in K.
  exec_leaves; try (cbn; lia).
  apply N.eqb_eq in Heqb0. subst.
  cbn. destruct (Nat.eq_dec x c0) as [->|Hx]. rewrite upd_same. lia. rewrite upd_other by auto. lia.
Qed.

Lemma exec_max_ret : forall cfg s t c x v r, mx_inv s -> top_inv s ->
  e_ret (snd (exec cfg s t c)) = Some (OMax x v, r) -> (v <= mxv (fst (exec cfg s t c)) x)%N.
Proof.
  intros cfg s t c x v r I T. pose proof (I t) as K. unfold mx_ok in K. pose proof (T t) as K2.
  exec_leaves; cbn [e_ret ev ev_ret ev_take ev_push]; intros E; try discriminate.
  all: try match goal with H : tpc _ = _ |- _ => rewrite H in K, K2 end; cbn [pc_op_ok] in K2.
  all: try (repeat match goal with
                   | K0 : _ \/ _ |- _ => destruct K0
                   | K0 : exists _, _ |- _ => destruct K0
                   end; congruence).
  all: inversion E; subst.
  all: try congruence.
  all: match goal with H : top _ = OMax _ _, H2 : top _ = OMax _ _ |- _ => rewrite H in H2; inversion H2; subst end.
  all: cbn; rewrite upd_same; lia.
Qed.

Lemma max_is_max : forall cfg s, reach cfg s ->
  forall e x v r, In e (hist s) -> e_ret e = Some (OMax x v, r) -> (v <= mxv s x)%N.
Proof.
  intros cfg s Hr. induction Hr; intros e x v r Hin He.
  - contradiction.
  - rewrite hist_step in Hin. rewrite step_fst. cbn [mxv set_hist].
    destruct Hin as [<-|Hin].
    + eapply exec_max_ret; eauto using mx_inv_reach, top_inv_reach.
    + eapply N.le_trans. eapply IHHr; eauto. apply exec_mxv_mono. eapply mx_inv_reach; eauto.
Qed.
