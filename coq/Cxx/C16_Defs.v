(* C16: executable models (hand models; tie = correspondence, see props/c16.py)
     A. src/AMRGridCell.hpp + src/AMRGrid.hpp : keys, tree, refinement, key enumeration, position -> key
     B. src/MortonKeyGenerator.hpp             : 21-bit interleave
     C. src/CartesianDensityGrid.{hpp,cpp}     : index maps, containing cell, neighbours, periodic wrap
     D. src/Octree.hpp / src/PointLocations.hpp: abstract pruned search (search order and pruning rule only)
   Integers are modelled in Z without wrap-around; C16_Proofs.v shows that every
   value stays below the width of the C++ type for the depth / block counts the
   code supports.  Positions are integer coordinates on a lattice that is at least
   as fine as the deepest cell (a box side is an integer number of lattice units),
   so [*= 0.5] on a side is [/ 2] on an even integer and truncation of a
   non-negative quotient is [Z.div]. *)
From Coq Require Import ZArith List Bool.
Import ListNotations.
Local Open Scope Z_scope.

(* ------------------------------------------------------------------------- *)
(* A.  AMR tree                                                               *)

(* AMRGridCell: either a single cell (_values != nullptr) or 8 children *)
Inductive tree := Leaf | Node (c0 c1 c2 c3 c4 c5 c6 c7 : tree).

Definition pick {A : Type} (i : Z) (a0 a1 a2 a3 a4 a5 a6 a7 : A) : A :=
  match i with
  | 0 => a0 | 1 => a1 | 2 => a2 | 3 => a3 | 4 => a4 | 5 => a5 | 6 => a6 | _ => a7
  end.

(* AMRGRIDCELL_MAXKEY / AMRGRID_MAXKEY *)
Definition MAXKEY32 : Z := 4294967295.
Definition MAXKEY64 : Z := 18446744073709551615.

(* deepest level for which 1 << 3*level is defined for a 32-bit int and the cell part fits the low 32 bits of the key *)
Definition MAXLEVEL : Z := 10.

Record box := mkBox { bax : Z; bay : Z; baz : Z; bsx : Z; bsy : Z; bsz : Z }.
Record vec := mkVec { vx : Z; vy : Z; vz : Z }.

(* box_copy.get_sides() *= 0.5; box_copy.get_anchor()[k] += i_k * box_copy.get_sides()[k] *)
Definition sub_box (b : box) (ix iy iz : Z) : box :=
  let hx := bsx b / 2 in let hy := bsy b / 2 in let hz := bsz b / 2 in
  mkBox (bax b + ix * hx) (bay b + iy * hy) (baz b + iz * hz) hx hy hz.

(* ix = (i & 4) >> 2; iy = (i & 2) >> 1; iz = i & 1 *)
Definition child_box (b : box) (i : Z) : box :=
  sub_box b (Z.shiftr (Z.land i 4) 2) (Z.shiftr (Z.land i 2) 1) (Z.land i 1).

(* ix = 2 * (position.x() - box.get_anchor().x()) / box.get_sides().x() *)
Definition child_idx (p a s : Z) : Z := 2 * (p - a) / s.

(* create_all_cells(0, n) on a fresh block *)
Fixpoint uniform (n : nat) : tree :=
  match n with O => Leaf | S k => let u := uniform k in Node u u u u u u u u end.

Fixpoint depth (t : tree) : nat :=
  match t with
  | Leaf => O
  | Node c0 c1 c2 c3 c4 c5 c6 c7 =>
    S (Nat.max (depth c0) (Nat.max (depth c1) (Nat.max (depth c2) (Nat.max (depth c3)
      (Nat.max (depth c4) (Nat.max (depth c5) (Nat.max (depth c6) (depth c7))))))))
  end.

(* AMRGridCell::get_first_key(level) *)
Fixpoint first_key (t : tree) (level : Z) : Z :=
  match t with
  | Leaf => Z.shiftl 1 (3 * level)
  | Node c0 _ _ _ _ _ _ _ => first_key c0 (level + 1)
  end.

(* AMRGridCell::get_next_key(key, level) *)
Fixpoint next_key (t : tree) (key level : Z) : Z :=
  match t with
  | Leaf => MAXKEY32
  | Node c0 c1 c2 c3 c4 c5 c6 c7 =>
    let cell := Z.land (Z.shiftr key (3 * level)) 7 in
    let nk := next_key (pick cell c0 c1 c2 c3 c4 c5 c6 c7) key (level + 1) in
    if nk =? MAXKEY32 then
      if cell =? 7 then MAXKEY32
      else first_key (pick (cell + 1) c0 c1 c2 c3 c4 c5 c6 c7) (level + 1)
           + ((key - Z.shiftl (Z.shiftr key (3 * level)) (3 * level)) + Z.shiftl (cell + 1) (3 * level))
    else nk
  end.

(* AMRGridCell::get_key(level, position, box) *)
Fixpoint get_key (t : tree) (level : Z) (p : vec) (b : box) : Z :=
  match t with
  | Leaf => Z.shiftl 1 (3 * level)
  | Node c0 c1 c2 c3 c4 c5 c6 c7 =>
    let ix := child_idx (vx p) (bax b) (bsx b) in
    let iy := child_idx (vy p) (bay b) (bsy b) in
    let iz := child_idx (vz p) (baz b) (bsz b) in
    let cell := 4 * ix + 2 * iy + iz in
    Z.shiftl cell (3 * level)
    + get_key (pick cell c0 c1 c2 c3 c4 c5 c6 c7) (level + 1) p (sub_box b ix iy iz)
  end.

(* AMRGridCell::operator[](key): the cell a key points to, with the _box and _level it was created with.
   None = cmac_error("Cell does not exist!") *)
Fixpoint cell_of_key (t : tree) (key : Z) (b : box) (level : Z) : option (tree * box * Z) :=
  if key =? 1 then Some (t, b, level)
  else match t with
       | Leaf => None
       | Node c0 c1 c2 c3 c4 c5 c6 c7 =>
         let cell := Z.land key 7 in
         cell_of_key (pick cell c0 c1 c2 c3 c4 c5 c6 c7) (Z.shiftr key 3) (child_box b cell) (level + 1)
       end.

Definition set_child (i : Z) (n : tree) (c0 c1 c2 c3 c4 c5 c6 c7 : tree) : tree :=
  match i with
  | 0 => Node n c1 c2 c3 c4 c5 c6 c7 | 1 => Node c0 n c2 c3 c4 c5 c6 c7
  | 2 => Node c0 c1 n c3 c4 c5 c6 c7 | 3 => Node c0 c1 c2 n c4 c5 c6 c7
  | 4 => Node c0 c1 c2 c3 n c5 c6 c7 | 5 => Node c0 c1 c2 c3 c4 n c6 c7
  | 6 => Node c0 c1 c2 c3 c4 c5 n c7 | _ => Node c0 c1 c2 c3 c4 c5 c6 n
  end.

(* AMRGridCell::refine(key): new tree and the key of the first new child.
   None = the key does not address an existing single cell (cmac_error, or for an inner node a cell that
   has values and children at the same time: outside the contract of the function) *)
Fixpoint refine (t : tree) (key : Z) : option (tree * Z) :=
  if key =? 1 then
    match t with
    | Leaf => Some (Node Leaf Leaf Leaf Leaf Leaf Leaf Leaf Leaf, 8)
    | Node _ _ _ _ _ _ _ _ => None
    end
  else match t with
       | Leaf => None
       | Node c0 c1 c2 c3 c4 c5 c6 c7 =>
         let cell := Z.land key 7 in
         match refine (pick cell c0 c1 c2 c3 c4 c5 c6 c7) (Z.shiftr key 3) with
         | None => None
         | Some (c', newcell) => Some (set_child cell c' c0 c1 c2 c3 c4 c5 c6 c7, Z.shiftl newcell 3 + cell)
         end
       end.

(* get_number_of_cells *)
Fixpoint ncells (t : tree) : Z :=
  match t with
  | Leaf => 1
  | Node c0 c1 c2 c3 c4 c5 c6 c7 =>
    ncells c0 + ncells c1 + ncells c2 + ncells c3 + ncells c4 + ncells c5 + ncells c6 + ncells c7
  end.

(* key = while (key != max) { ...; key = next(key) }   with a fuel bound *)
Fixpoint iterate (next : Z -> Z) (stop : Z) (fuel : nat) (k : Z) : list Z :=
  match fuel with
  | O => []
  | S f => if k =? stop then [] else k :: iterate next stop f (next k)
  end.

Definition enumerate (fuel : nat) (t : tree) : list Z :=
  iterate (fun k => next_key t k 0) MAXKEY32 fuel (first_key t 0).

(* --- specification side (also executable): paths and their keys ------------ *)
(* a single cell is named by the child numbers on the way down from the block *)
Definition path := list Z.

Fixpoint leaves (t : tree) : list path :=
  match t with
  | Leaf => [[]]
  | Node c0 c1 c2 c3 c4 c5 c6 c7 =>
    map (cons 0) (leaves c0) ++ map (cons 1) (leaves c1) ++ map (cons 2) (leaves c2) ++
    map (cons 3) (leaves c3) ++ map (cons 4) (leaves c4) ++ map (cons 5) (leaves c5) ++
    map (cons 6) (leaves c6) ++ map (cons 7) (leaves c7)
  end.

(* child number of level l in bits [3l, 3l+3), a single 1 bit above the last one *)
Fixpoint code (p : path) : Z :=
  match p with [] => 1 | d :: q => d + 8 * code q end.

Definition box_of_path (b : box) (p : path) : box := fold_left child_box p b.

Definition inbox (p : vec) (b : box) : Prop :=
  bax b <= vx p < bax b + bsx b /\ bay b <= vy p < bay b + bsy b /\ baz b <= vz p < baz b + bsz b.

Definition inboxb (p : vec) (b : box) : bool :=
  (bax b <=? vx p) && (vx p <? bax b + bsx b) && (bay b <=? vy p) && (vy p <? bay b + bsy b)
  && (baz b <=? vz p) && (vz p <? baz b + bsz b).

Definition volume (b : box) : Z := bsx b * bsy b * bsz b.

(* ------------------------------------------------------------------------- *)
(* AMRGrid: nx x ny x nz top level blocks                                     *)

Record grid := mkGrid { gbox : box; gnx : Z; gny : Z; gnz : Z; blk : Z -> Z -> Z -> tree }.

(* block = (ix << 20) + (iy << 10) + iz;  key = (block << 32) + cell *)
Definition block_key (ix iy iz : Z) : Z := Z.shiftl ix 20 + Z.shiftl iy 10 + iz.
Definition full_key (ix iy iz cell : Z) : Z := Z.shiftl (block_key ix iy iz) 32 + cell.

(* get_block: ix = (block & 0x3ff00000) >> 20; iy = (block & 0x000ffc00) >> 10; iz = block & 0x3ff *)
Definition key_block (key : Z) : Z * Z * Z :=
  let block := Z.shiftr key 32 in
  (Z.shiftr (Z.land block 1072693248) 20, Z.shiftr (Z.land block 1047552) 10, Z.land block 1023).

(* get_cell_key: key & 0x00000000ffffffff *)
Definition cell_key (key : Z) : Z := Z.land key 4294967295.

(* sides = box.sides / ncell; anchor = box.anchor + i * sides *)
Definition block_box (g : grid) (ix iy iz : Z) : box :=
  let b := gbox g in
  let sx := bsx b / gnx g in let sy := bsy b / gny g in let sz := bsz b / gnz g in
  mkBox (bax b + ix * sx) (bay b + iy * sy) (baz b + iz * sz) sx sy sz.

(* ix = _ncell.x() * (position.x() - _box.get_anchor().x()) / _box.get_sides().x() *)
Definition block_idx (n p a s : Z) : Z := n * (p - a) / s.

Definition grid_first_key (g : grid) : Z := first_key (blk g 0 0 0) 0.

Definition grid_next_key (g : grid) (key : Z) : Z :=
  let '(ix, iy, iz) := key_block key in
  let cell := cell_key key in
  let next_cell := next_key (blk g ix iy iz) cell 0 in
  if next_cell =? MAXKEY32 then
    let iz := iz + 1 in
    if iz =? gnz g then
      let iz := 0 in
      let iy := iy + 1 in
      if iy =? gny g then
        let iy := 0 in
        let ix := ix + 1 in
        if ix =? gnx g then MAXKEY64
        else full_key ix iy iz (first_key (blk g ix iy iz) 0)
      else full_key ix iy iz (first_key (blk g ix iy iz) 0)
    else full_key ix iy iz (first_key (blk g ix iy iz) 0)
  else full_key ix iy iz next_cell.

Definition grid_get_key (g : grid) (p : vec) : Z :=
  let b := gbox g in
  let ix := block_idx (gnx g) (vx p) (bax b) (bsx b) in
  let iy := block_idx (gny g) (vy p) (bay b) (bsy b) in
  let iz := block_idx (gnz g) (vz p) (baz b) (bsz b) in
  full_key ix iy iz (get_key (blk g ix iy iz) 0 p (block_box g ix iy iz)).

(* AMRGrid::operator[] *)
Definition grid_cell_of_key (g : grid) (key : Z) : option (tree * box * Z) :=
  let '(ix, iy, iz) := key_block key in
  cell_of_key (blk g ix iy iz) (cell_key key) (block_box g ix iy iz) 0.

(* AMRGrid::refine_cell: (key & 0xffffffff00000000) + newcell *)
Definition grid_refine (g : grid) (key : Z) : option (grid * Z) :=
  let '(ix, iy, iz) := key_block key in
  match refine (blk g ix iy iz) (cell_key key) with
  | None => None
  | Some (t', newcell) =>
    Some (mkGrid (gbox g) (gnx g) (gny g) (gnz g)
                 (fun jx jy jz => if (jx =? ix) && (jy =? iy) && (jz =? iz) then t' else blk g jx jy jz),
          Z.land key 18446744069414584320 + newcell)
  end.

Definition grid_enumerate (fuel : nat) (g : grid) : list Z :=
  iterate (grid_next_key g) MAXKEY64 fuel (grid_first_key g).

Definition zrange (n : Z) : list Z := map Z.of_nat (seq 0 (Z.to_nat n)).

(* all single cells of the grid, blocks in the order of the ix / iy / iz loops *)
Definition gleaves (g : grid) : list (Z * Z * Z * path) :=
  flat_map (fun ix => flat_map (fun iy => flat_map (fun iz =>
    map (fun p => (ix, iy, iz, p)) (leaves (blk g ix iy iz))) (zrange (gnz g))) (zrange (gny g))) (zrange (gnx g)).

Definition gcode (c : Z * Z * Z * path) : Z :=
  let '(ix, iy, iz, p) := c in full_key ix iy iz (code p).

Definition gcell_box (g : grid) (c : Z * Z * Z * path) : box :=
  let '(ix, iy, iz, p) := c in box_of_path (block_box g ix iy iz) p.

(* ------------------------------------------------------------------------- *)
(* B.  Morton keys (MortonKeyGenerator::get_key after the conversion to 21-bit integers)   *)

Definition b2z (b : bool) : Z := if b then 1 else 0.

(* for (i = 21; i > 0; --i) { key <<= 3; x[k] = (bits[k] & mask) > 0; ci = (x0<<2)|(x1<<1)|x2; key += ci; mask >>= 1; } *)
Fixpoint morton_loop (n : nat) (bx by_ bz mask key : Z) : Z :=
  match n with
  | O => key
  | S n' =>
    let key := Z.shiftl key 3 in
    let x0 := 0 <? Z.land bx mask in
    let x1 := 0 <? Z.land by_ mask in
    let x2 := 0 <? Z.land bz mask in
    let ci := Z.lor (Z.lor (Z.shiftl (b2z x0) 2) (Z.shiftl (b2z x1) 1)) (b2z x2) in
    morton_loop n' bx by_ bz (Z.shiftr mask 1) (key + ci)
  end.

(* mask = 0x00100000 *)
Definition morton (bx by_ bz : Z) : Z := morton_loop 21 bx by_ bz 1048576 0.

(* explicit inverse (not in the code base; it is what makes injectivity checkable) *)
Fixpoint demorton (n : nat) (key : Z) : Z * Z * Z :=
  match n with
  | O => (0, 0, 0)
  | S n' =>
    let '(x, y, z) := demorton n' (Z.shiftr key 3) in
    (2 * x + Z.land (Z.shiftr key 2) 1, 2 * y + Z.land (Z.shiftr key 1) 1, 2 * z + Z.land key 1)
  end.

(* ------------------------------------------------------------------------- *)
(* C.  Cartesian grid index maps                                              *)

(* get_long_index *)
Definition long_index (ny nz ix iy iz : Z) : Z := ix * (ny * nz) + iy * nz + iz.

(* get_indices *)
Definition indices (ny nz l : Z) : Z * Z * Z :=
  let ix := l / (ny * nz) in
  let l1 := l - ix * ny * nz in
  let iy := l1 / nz in
  let l2 := l1 - iy * nz in
  (ix, iy, l2).

(* get_cell_indices: (position - anchor) * inverse_cellside truncated; position in lattice units,
   cell side = m lattice units *)
Definition cell_index (m k : Z) : Z := k / m.

(* get_cell(index): anchor + cellside * index, cellside *)
Definition cell_lo (m i : Z) : Z := m * i.
Definition cell_hi (m i : Z) : Z := m * i + m.

(* get_neighbours: lower and upper neighbour along one axis; None = end() (reflective boundary) *)
Definition ngb_low (n : Z) (periodic : bool) (i : Z) : option Z :=
  if 0 <? i then Some (i - 1) else if periodic then Some (n - 1) else None.
Definition ngb_high (n : Z) (periodic : bool) (i : Z) : option Z :=
  if i <? n - 1 then Some (i + 1) else if periodic then Some 0 else None.

Definition set_axis (a : nat) (v : Z) (c : Z * Z * Z) : Z * Z * Z :=
  let '(x, y, z) := c in
  match a with O => (v, y, z) | S O => (x, v, z) | _ => (x, y, v) end.
Definition get_axis (a : nat) (c : Z * Z * Z) : Z :=
  let '(x, y, z) := c in
  match a with O => x | S O => y | _ => z end.

Record cgrid := mkCgrid { cnx : Z; cny : Z; cnz : Z; cpx : bool; cpy : bool; cpz : bool }.
Definition cn (g : cgrid) (a : nat) : Z := match a with O => cnx g | S O => cny g | _ => cnz g end.
Definition cper (g : cgrid) (a : nat) : bool := match a with O => cpx g | S O => cpy g | _ => cpz g end.

Definition clong (g : cgrid) (c : Z * Z * Z) : Z := let '(x, y, z) := c in long_index (cny g) (cnz g) x y z.

(* the neighbour of cell [l] through its lower (high = false) / upper face along axis a *)
Definition neighbour (g : cgrid) (l : Z) (a : nat) (high : bool) : option Z :=
  let c := indices (cny g) (cnz g) l in
  let i := get_axis a c in
  match (if high then ngb_high else ngb_low) (cn g a) (cper g a) i with
  | None => None
  | Some j => Some (clong g (set_axis a j c))
  end.

(* the six faces in the order of the loop in get_neighbours *)
Definition neighbours (g : cgrid) (l : Z) : list (option Z) :=
  [neighbour g l 0 false; neighbour g l 0 true; neighbour g l 1 false; neighbour g l 1 true;
   neighbour g l 2 false; neighbour g l 2 true].

(* is_inside, one axis: (inside flag, index after the periodic wrap, number of box sides added to the position) *)
Definition wrap_axis (n : Z) (periodic : bool) (i : Z) : bool * Z * Z :=
  if periodic then
    let '(i1, s1) := if i <? 0 then (n - 1, 1) else (i, 0) in
    let '(i2, s2) := if n <=? i1 then (0, s1 - 1) else (i1, s1) in
    (true, i2, s2)
  else ((0 <=? i) && (i <? n), i, 0).

(* ------------------------------------------------------------------------- *)
(* D.  Pruned tree search (Octree::get_ngbs / get_ngbs_sphere): a node is skipped when the distance
   from the query to its box exceeds the largest radius stored below it.  The search order of the real
   structure (child / sibling pointers) is a depth first walk over the children lists. *)
Section Search.
  Context {P B : Type}.                  (* point payload, node payload *)
  Inductive stree := SLeaf (p : P) | SNode (b : B) (ch : list stree).

  Context (hit : P -> bool)              (* leaf test: r <= h_i (+ radius) *)
          (open : B -> bool).            (* opening criterion: not (r_box > variable (+ radius)) *)

  Fixpoint search (t : stree) : list P :=
    match t with
    | SLeaf p => if hit p then [p] else []
    | SNode b ch => if open b then flat_map search ch else []
    end.

  Fixpoint points (t : stree) : list P :=
    match t with
    | SLeaf p => [p]
    | SNode _ ch => flat_map points ch
    end.

  Definition brute (t : stree) : list P := filter hit (points t).
End Search.
