(* C18 proofs, part B: strict positivity of every recombination rate on [10, 1e5] K, and the
   charge-transfer rates. *)
From Coq Require Import Reals ZArith List Bool Lra Lia Psatz.
From Interval Require Import Tactic.
From CMI Require Import Cxx.C18_Dec Cxx.C18_Gen Cxx.C18_Defs Cxx.C18_ProofsA.
Import ListNotations.
Local Open Scope R_scope.

(* positivity of sums / products / quotients of positive things *)
Ltac pos :=
  match goal with
  | |- 0 < ?a * ?b => apply Rmult_lt_0_compat; pos
  | |- 0 < ?a + ?b => apply Rplus_lt_0_compat; pos
  | |- 0 < ?a / ?b => apply Rdiv_lt_0_compat; pos
  | |- 0 < exp _ => apply exp_pos
  | |- 0 < Rpower _ _ => apply Rpower_pos
  | |- 0 < / _ => apply Rinv_0_lt_compat; pos
  | |- 0 < sqrt _ => apply sqrt_lt_R0; pos
  | _ => assumption || lra
  end.

(* the Verner part of an ion as an explicit expression in the regenerated numbers *)
Ltac vof_numeric z n :=
  unfold Vof, rec_prep, rec_verner_of;
  let kd := eval vm_compute in (rr_kind z n) in
  change (rr_kind z n) with kd;
  cbn [rr_prep]; unfold cd; cbn [o_dec Rops];
  rewrite ?inv_nz_R by (dec_norm; lra);
  first [ rewrite rr_eval_vf; unfold vfR | cbn [rr_eval]; unfR ].

(* --- ions whose dielectronic term is a sum of positive terms: positive for every T > 0 *)
Lemma rec_raw_pos_C_p1 : forall T, 0 < T -> 0 < rec_before_scaling Rops C_p1 (Vof C_p1 T) T.
Proof.
  intros T HT. assert (HV : 0 < Vof C_p1 T) by (apply Vof_pos; [split; discriminate | assumption]).
  set (V := Vof C_p1 T) in *. unfR. dec_norm.
  assert (0 < T * (1 / 10000)) by lra. pos.
Qed.

Lemma rec_raw_pos_Ne_n : forall T, 0 < T -> 0 < rec_before_scaling Rops Ne_n (Vof Ne_n T) T.
Proof. intros T HT. cbn [rec_before_scaling]. apply Vof_pos; [split; discriminate | assumption]. Qed.

Lemma rec_raw_pos_S_p1 : forall T, 0 < T -> 0 < rec_before_scaling Rops S_p1 (Vof S_p1 T) T.
Proof.
  intros T HT. assert (HV : 0 < Vof S_p1 T) by (apply Vof_pos; [split; discriminate | assumption]).
  set (V := Vof S_p1 T) in *. unfR. dec_norm. pos.
Qed.

Lemma rec_raw_pos_S_p2 : forall T, 0 < T -> 0 < rec_before_scaling Rops S_p2 (Vof S_p2 T) T.
Proof.
  intros T HT. assert (HV : 0 < Vof S_p2 T) by (apply Vof_pos; [split; discriminate | assumption]).
  set (V := Vof S_p2 T) in *. unfR. dec_norm. pos.
Qed.

Lemma rec_raw_pos_S_p3 : forall T, 0 < T -> 0 < rec_before_scaling Rops S_p3 (Vof S_p3 T) T.
Proof.
  intros T HT. assert (HV : 0 < Vof S_p3 T) by (apply Vof_pos; [split; discriminate | assumption]).
  set (V := Vof S_p3 T) in *. unfR. dec_norm. pos.
Qed.

(* --- ions whose dielectronic polynomial has negative coefficients: the sum Verner + dielectronic
       is bounded below by interval arithmetic with bisection on T, on the regenerated numbers *)
Lemma rec_raw_pos_C_p2 : forall T, 10 <= T <= 100000 -> 0 < rec_before_scaling Rops C_p2 (Vof C_p2 T) T.
Proof. intros T HT. vof_numeric 6%nat 4%nat. unfR. dec_norm. interval with (i_bisect T, i_depth 40). Qed.

Lemma rec_raw_pos_N_n : forall T, 10 <= T <= 100000 -> 0 < rec_before_scaling Rops N_n (Vof N_n T) T.
Proof. intros T HT. vof_numeric 7%nat 7%nat. unfR. dec_norm. interval with (i_bisect T, i_depth 40). Qed.

Lemma rec_raw_pos_N_p1 : forall T, 10 <= T <= 100000 -> 0 < rec_before_scaling Rops N_p1 (Vof N_p1 T) T.
Proof. intros T HT. vof_numeric 7%nat 6%nat. unfR. dec_norm. interval with (i_bisect T, i_depth 40). Qed.

Lemma rec_raw_pos_N_p2 : forall T, 10 <= T <= 100000 -> 0 < rec_before_scaling Rops N_p2 (Vof N_p2 T) T.
Proof. intros T HT. vof_numeric 7%nat 5%nat. unfR. dec_norm. interval with (i_bisect T, i_depth 40). Qed.

Lemma rec_raw_pos_O_n : forall T, 10 <= T <= 100000 -> 0 < rec_before_scaling Rops O_n (Vof O_n T) T.
Proof. intros T HT. vof_numeric 8%nat 8%nat. unfR. dec_norm. interval with (i_bisect T, i_depth 40). Qed.

Lemma rec_raw_pos_O_p1 : forall T, 10 <= T <= 100000 -> 0 < rec_before_scaling Rops O_p1 (Vof O_p1 T) T.
Proof. intros T HT. vof_numeric 8%nat 7%nat. unfR. dec_norm. interval with (i_bisect T, i_depth 40). Qed.

Lemma rec_raw_pos_Ne_p1 : forall T, 10 <= T <= 100000 -> 0 < rec_before_scaling Rops Ne_p1 (Vof Ne_p1 T) T.
Proof. intros T HT. vof_numeric 10%nat 9%nat. unfR. dec_norm. interval with (i_bisect T, i_depth 40). Qed.

(* all 14 ions: strictly positive on 10 <= T <= 1e5 *)
Lemma rec_rate_positive_lemma : forall i T, 10 <= T <= 100000 -> 0 < rec_rate Rops i T.
Proof.
  intros i T HT. rewrite rec_rate_unfold. apply rec_finish_pos.
  assert (HT0 : 0 < T) by lra.
  destruct i.
  - unfold Vof, rec_prep, rec_verner_of. apply (rec_HHe_raw_pos H_n T (or_introl eq_refl) HT0).
  - unfold Vof, rec_prep, rec_verner_of. apply (rec_HHe_raw_pos He_n T (or_intror eq_refl) HT0).
  - apply rec_raw_pos_C_p1; assumption.
  - apply rec_raw_pos_C_p2; assumption.
  - apply rec_raw_pos_N_n; assumption.
  - apply rec_raw_pos_N_p1; assumption.
  - apply rec_raw_pos_N_p2; assumption.
  - apply rec_raw_pos_O_n; assumption.
  - apply rec_raw_pos_O_p1; assumption.
  - apply rec_raw_pos_Ne_n; assumption.
  - apply rec_raw_pos_Ne_p1; assumption.
  - apply rec_raw_pos_S_p1; assumption.
  - apply rec_raw_pos_S_p2; assumption.
  - apply rec_raw_pos_S_p3; assumption.
Qed.

(* the clip at zero is not vacuous: the code's own comment "some rates become negative for large T"
   is true of the unclipped expression (C2+ -> C+ at 1e9 K) *)
Lemma rec_clip_needed_C_p2 : rec_before_scaling Rops C_p2 (Vof C_p2 1000000000) 1000000000 < 0.
Proof. vof_numeric 6%nat 4%nat. unfR. dec_norm. interval. Qed.

(* ===========================================================================
   charge transfer *)
Definition ctform_ok (f : ctform) : bool :=
  let sgn c d := dnonneg c || (dlt (D (-1) 0) c && dnonpos d) in
  match f with
  | CTzero => true
  | CTconst a => dnonneg a
  | CTsq a lo hi => dnonneg a
  | CTpow a b lo hi => dnonneg a
  | CTexp a b c d lo hi => dnonneg a && dpos lo && dle lo hi && sgn c d
  | CTexp2 a b c d e lo hi => dnonneg a && dpos lo && dle lo hi && sgn c d
  end.

Lemma dec_m1 : dec2R (D (-1) 0) = -1.
Proof. dec_norm. lra. Qed.

Lemma clamp_R : forall lo hi t, clamp Rops lo hi t = Rmin (Rmax t lo) hi.
Proof. intros; unfold clamp. rewrite fmin_R, fmax_R. reflexivity. Qed.

Lemma clamp_bounds : forall lo hi t, lo <= hi -> lo <= Rmin (Rmax t lo) hi <= hi.
Proof.
  intros. unfold Rmin, Rmax. destruct (Rle_dec t lo); destruct (Rle_dec _ hi); lra.
Qed.

Lemma ct_factor_pos : forall c d s, (0 <= c \/ (-1 < c /\ d <= 0)) -> 0 < s -> 0 < 1 + c * exp (d * s).
Proof.
  intros c d s [Hc | [Hc Hd]] Hs.
  - pose proof (exp_pos (d * s)). nra.
  - assert (exp (d * s) <= 1).
    { rewrite <- exp_0. destruct (Req_dec (d * s) 0) as [->|]; [lra|]. left; apply exp_increasing. nra. }
    pose proof (exp_pos (d * s)). destruct (Rle_dec 0 c); nra.
Qed.

Lemma ct_eval_nonneg : forall f t, ctform_ok f = true -> 0 <= ct_eval Rops f t.
Proof.
  intros f t Hok. destruct f as [ | a | a lo hi | a b lo hi | a b c d lo hi | a b c d e lo hi]; cbn [ctform_ok] in Hok.
  - cbn [ct_eval]. rewrite zero_R. lra.
  - cbn [ct_eval]. apply dnonneg_sound in Hok. exact Hok.
  - apply dnonneg_sound in Hok. cbn [ct_eval]. unfold cd; cbn [o_dec o_mul Rops]. rewrite clamp_R.
    set (s := Rmin _ _). rewrite Rmult_assoc. apply Rmult_le_pos; [assumption|]. nra.
  - apply dnonneg_sound in Hok. cbn [ct_eval]. unfold cd; cbn [o_dec o_mul o_pow Rops].
    apply Rmult_le_pos; [assumption | left; apply Rpower_pos].
  - apply andb_prop in Hok as [Hok Hs]. apply andb_prop in Hok as [Hok Hle]. apply andb_prop in Hok as [Ha Hlo].
    apply dnonneg_sound in Ha. apply dpos_sound in Hlo. apply dle_sound in Hle.
    assert (Hcd : 0 <= dec2R c \/ (-1 < dec2R c /\ dec2R d <= 0)).
    { apply orb_prop in Hs as [Hs | Hs]; [left; apply dnonneg_sound; assumption|].
      apply andb_prop in Hs as [H1 H2]. right; split; [|apply dnonpos_sound; assumption].
      apply dlt_sound in H1. rewrite dec_m1 in H1. lra. }
    cbn [ct_eval]. unfold cd; cbn [o_dec o_mul o_add o_pow o_exp Rops]. rewrite clamp_R, one_R.
    pose proof (clamp_bounds (dec2R lo) (dec2R hi) t Hle) as [B1 B2]. set (s := Rmin _ _) in *.
    apply Rmult_le_pos; [apply Rmult_le_pos; [assumption | left; apply Rpower_pos]|].
    left; apply ct_factor_pos; [assumption | lra].
  - apply andb_prop in Hok as [Hok Hs]. apply andb_prop in Hok as [Hok Hle]. apply andb_prop in Hok as [Ha Hlo].
    apply dnonneg_sound in Ha. apply dpos_sound in Hlo. apply dle_sound in Hle.
    assert (Hcd : 0 <= dec2R c \/ (-1 < dec2R c /\ dec2R d <= 0)).
    { apply orb_prop in Hs as [Hs | Hs]; [left; apply dnonneg_sound; assumption|].
      apply andb_prop in Hs as [H1 H2]. right; split; [|apply dnonpos_sound; assumption].
      apply dlt_sound in H1. rewrite dec_m1 in H1. lra. }
    cbn [ct_eval]. unfold cd; cbn [o_dec o_mul o_add o_div o_pow o_exp Rops]. rewrite clamp_R, one_R.
    pose proof (clamp_bounds (dec2R lo) (dec2R hi) t Hle) as [B1 B2]. set (s := Rmin _ _) in *.
    apply Rmult_le_pos; [|left; apply exp_pos].
    apply Rmult_le_pos; [apply Rmult_le_pos; [assumption | left; apply Rpower_pos]|].
    left; apply ct_factor_pos; [assumption | lra].
Qed.

(* the clamped argument is a positive base for pow (so Rpower is the C pow) *)
Lemma ct_base_pos : forall lo hi t, dpos lo = true -> dle lo hi = true -> 0 < clamp Rops (dec2R lo) (dec2R hi) t.
Proof.
  intros lo hi t H1 H2. apply dpos_sound in H1. apply dle_sound in H2. rewrite clamp_R.
  pose proof (clamp_bounds (dec2R lo) (dec2R hi) t H2). lra.
Qed.

(* every transcribed parameter set satisfies the sign conditions *)
Lemma ct_forms_ok : forall kd i f, ct_form kd i = Some f -> ctform_ok f = true.
Proof. intros kd i f H. destruct kd, i; cbn [ct_form] in H; inversion H; subst; vm_compute; reflexivity. Qed.

(* every reaction the ionization balance evaluates is defined (does not abort) *)
Lemma balance_defined : forallb (fun p => match ct_form (fst p) (snd p) with Some _ => true | None => false end) balance_reactions = true.
Proof. vm_compute. reflexivity. Qed.

Lemma ct_rate_nonneg_lemma : forall kd i t v, ct_rate Rops kd i t = Some v -> 0 <= v.
Proof.
  intros kd i t v H. unfold ct_rate in H. destruct (ct_form kd i) eqn:E; [|discriminate].
  inversion H; subst. apply ct_eval_nonneg. eapply ct_forms_ok; eauto.
Qed.

Lemma ct_balance_lemma : forall kd i t, In (kd, i) balance_reactions -> exists v, ct_rate Rops kd i t = Some v /\ 0 <= v.
Proof.
  intros kd i t Hin. pose proof balance_defined as B. rewrite forallb_forall in B. specialize (B _ Hin). cbn [fst snd] in B.
  unfold ct_rate. destruct (ct_form kd i) eqn:E; [|discriminate].
  eexists; split; [reflexivity|]. apply ct_eval_nonneg. eapply ct_forms_ok; eauto.
Qed.
