(* C02: proofs about the real-number instance of the model in Cxx/C02_Defs.v *)
From Coq Require Import ZArith List Bool Reals Lra Lia Psatz.
From CMI Require Import Cxx.C02_Defs.
Import ListNotations.
Local Open Scope R_scope.

(* ---------------------------------------------------------------------------
   comparisons of the R instance *)
Lemma Rltb_true x y : Rltb x y = true <-> x < y.
Proof. unfold Rltb; destruct (Rlt_dec x y); split; intros; try easy. Qed.
Lemma Rltb_false x y : Rltb x y = false <-> y <= x.
Proof. unfold Rltb; destruct (Rlt_dec x y); split; intros; try easy; lra. Qed.
Lemma Rleb_true x y : Rleb x y = true <-> x <= y.
Proof. unfold Rleb; destruct (Rle_dec x y); split; intros; try easy. Qed.
Lemma Rleb_false x y : Rleb x y = false <-> y < x.
Proof. unfold Rleb; destruct (Rle_dec x y); split; intros; try easy; lra. Qed.
Lemma Reqb_true x y : Reqb x y = true <-> x = y.
Proof. unfold Reqb; destruct (Req_EM_T x y); split; intros; try easy. Qed.
Lemma Reqb_false x y : Reqb x y = false <-> x <> y.
Proof. unfold Reqb; destruct (Req_EM_T x y); split; intros; try easy. Qed.

Ltac rsimp := cbn [o_add o_sub o_mul o_div o_ltb o_leb o_eqb o_ofZ o_truncZ o_zero o_one o_dblmax o_nuH o_nuHe ROps] in *.

Lemma RDBLMAX_pos : 0 < RDBLMAX.
Proof. unfold RDBLMAX. apply IZR_lt. reflexivity. Qed.

(* ---------------------------------------------------------------------------
   axes *)
Inductive axis := AX | AY | AZ.
Definition vg {T} (a : axis) (v : vec T) : T := match a with AX => vx v | AY => vy v | AZ => vz v end.
Definition ig (a : axis) (i : ivec) : Z := match a with AX => ix i | AY => iy i | AZ => iz i end.

(* std::min *)
Lemma smin_le_l a b : smin ROps a b <= a.
Proof. unfold smin; rsimp. destruct (Rltb b a) eqn:E; [apply Rltb_true in E|]; lra. Qed.
Lemma smin_le_r a b : smin ROps a b <= b.
Proof. unfold smin; rsimp. destruct (Rltb b a) eqn:E; [|apply Rltb_false in E]; lra. Qed.
Lemma smin_cases a b : smin ROps a b = a \/ smin ROps a b = b.
Proof. unfold smin; rsimp. destruct (Rltb b a); auto. Qed.

Lemma lmin_le (l : vec R) a : lmin_of ROps l <= vg a l.
Proof.
  unfold lmin_of. pose proof (smin_le_l (vx l) (smin ROps (vy l) (vz l))).
  pose proof (smin_le_r (vx l) (smin ROps (vy l) (vz l))).
  pose proof (smin_le_l (vy l) (vz l)). pose proof (smin_le_r (vy l) (vz l)).
  destruct a; cbn [vg]; lra.
Qed.
Lemma lmin_attained (l : vec R) : exists a, lmin_of ROps l = vg a l.
Proof.
  unfold lmin_of. destruct (smin_cases (vx l) (smin ROps (vy l) (vz l))) as [E|E].
  - exists AX; exact E.
  - destruct (smin_cases (vy l) (vz l)) as [F|F]; rewrite E, F; [exists AY|exists AZ]; reflexivity.
Qed.

(* ---------------------------------------------------------------------------
   one coordinate: wall distance and move *)
Lemma wall_pos d lo hi p : 0 < d -> wall ROps d (1 / d) lo hi p = (hi - p) / d.
Proof. intros H. unfold wall; rsimp. apply Rltb_true in H. rewrite H. field. apply Rltb_true in H; lra. Qed.
Lemma wall_neg d lo hi p : d < 0 -> wall ROps d (1 / d) lo hi p = (lo - p) / d.
Proof.
  intros H. unfold wall; rsimp. assert (E : Rltb 0 d = false) by (apply Rltb_false; lra).
  rewrite E. apply Rltb_true in H. rewrite H. field. apply Rltb_true in H; lra.
Qed.
Lemma wall_zero d invd lo hi p : d = 0 -> wall ROps d invd lo hi p = RDBLMAX.
Proof.
  intros H. unfold wall; rsimp. assert (E : Rltb 0 d = false) by (apply Rltb_false; lra).
  assert (F : Rltb d 0 = false) by (apply Rltb_false; lra). rewrite E, F. reflexivity.
Qed.

(* position of the wall ahead = p + l * d; l >= 0 inside the closed cell *)
Lemma wall_reach d lo hi p : d <> 0 -> lo <= p <= hi ->
  let l := wall ROps d (1 / d) lo hi p in
  0 <= l /\ p + l * d = (if Rltb 0 d then hi else lo).
Proof.
  intros Hd Hp l. destruct (Rlt_dec 0 d) as [P|N].
  - unfold l. rewrite wall_pos by exact P. assert (E : Rltb 0 d = true) by (apply Rltb_true; exact P). rewrite E.
    split. apply Rmult_le_pos. lra. left; apply Rinv_0_lt_compat; exact P. field; lra.
  - assert (Q : d < 0) by lra. unfold l. rewrite wall_neg by exact Q.
    assert (E : Rltb 0 d = false) by (apply Rltb_false; lra). rewrite E.
    split. replace ((lo - p) / d) with ((p - lo) * / (- d)) by (field; lra).
    apply Rmult_le_pos. lra. left; apply Rinv_0_lt_compat; lra. field; lra.
Qed.

(* a move of length len (0 <= len <= l) along one coordinate *)
Lemma newpos_spec l len d lo hi p : lo <= p <= hi -> 0 <= len ->
  l = wall ROps d (1 / d) lo hi p -> (d <> 0 -> len <= l) -> (d = 0 -> len < l) ->
  let p' := newpos1 ROps l len d lo hi p in
  p' = p + len * d /\ lo <= p' <= hi.
Proof.
  intros Hp Hlen Hl Hle Hz p'.
  assert (E1 : p' = p + len * d).
  { unfold p', newpos1; rsimp. destruct (Reqb l len) eqn:E.
    - apply Reqb_true in E. destruct (Req_dec d 0) as [Z|NZ]. specialize (Hz Z); lra.
      pose proof (wall_reach d lo hi p NZ Hp) as [_ W]. cbv zeta in W. rewrite <- Hl in W. rewrite <- E. symmetry; exact W.
    - reflexivity. }
  split. exact E1. rewrite E1.
  destruct (Req_dec d 0) as [Z|NZ]. subst d; lra.
  pose proof (wall_reach d lo hi p NZ Hp) as [W0 W]. cbv zeta in W, W0. rewrite <- Hl in W, W0. specialize (Hle NZ).
  destruct (Rltb 0 d) eqn:S.
  - apply Rltb_true in S. split; nra.
  - apply Rltb_false in S. assert (d < 0) by lra. split; nra.
Qed.

Lemma is_inside_spec n i : is_inside n i = true <-> forall a, (0 <= ig a i < ig a n)%Z.
Proof.
  unfold is_inside. rewrite !andb_true_iff, !Z.ltb_lt, !Z.leb_le. split.
  - intros H a; destruct a; cbn [ig]; lia.
  - intros H. pose proof (H AX); pose proof (H AY); pose proof (H AZ). cbn [ig] in *. lia.
Qed.

Definition sumlen (vis : list (Z * R)) : R := fold_right (fun v s => snd v + s) 0 vis.
Definition sumtau (kap : Z -> R) (vis : list (Z * R)) : R := fold_right (fun v s => kap (fst v) * snd v + s) 0 vis.

Lemma sumlen_cons v vis : sumlen (v :: vis) = snd v + sumlen vis.
Proof. reflexivity. Qed.
Lemma sumtau_cons kap v vis : sumtau kap (v :: vis) = kap (fst v) * snd v + sumtau kap vis.
Proof. reflexivity. Qed.

(* ---------------------------------------------------------------------------
   the march *)
Section MarchR.
Variable b : block R.
Variable d : vec R.
Variable target : R.
Variable od : Z -> R -> R.
Variable kap : Z -> R.
Variable p0 : vec R.

Definition invdR : vec R := mkV (1 / vx d) (1 / vy d) (1 / vz d).
Notation stepR := (step ROps b d invdR target od).
Notation condR := (cond ROps b target).
Notation marchR := (march ROps b d invdR target od).
Notation wallsR := (walls ROps b d invdR).

Hypothesis Hcs : forall a, 0 < vg a (b_cs b).
Hypothesis Hn : forall a, (1 <= ig a (b_n b))%Z.
Hypothesis Hod : forall c l, od c l = kap c * l.
Hypothesis Hkap : forall c, 0 <= kap c.
Hypothesis Htarget : 0 < target.
Hypothesis Hbig : exists j, vg j d <> 0 /\ vg j (b_cs b) < RDBLMAX * Rabs (vg j d).

Definition lo (a : axis) (st : mstate R) : R := IZR (ig a (m_idx st)) * vg a (b_cs b).
Definition hi (a : axis) (st : mstate R) : R := (IZR (ig a (m_idx st)) + 1) * vg a (b_cs b).

Lemma vg_low a st : vg a (cell_low ROps b (m_idx st)) = lo a st.
Proof. destruct a; reflexivity. Qed.
Lemma vg_high a st : vg a (cell_high ROps b (m_idx st)) = hi a st.
Proof. destruct a; reflexivity. Qed.
Lemma vg_invd a : vg a invdR = 1 / vg a d.
Proof. destruct a; reflexivity. Qed.
Lemma vg_walls a st : vg a (wallsR st) = wall ROps (vg a d) (1 / vg a d) (lo a st) (hi a st) (vg a (m_pos st)).
Proof. destruct a; reflexivity. Qed.
Lemma vg_move a st l len : vg a (move ROps b d st l len) =
  newpos1 ROps (vg a l) len (vg a d) (lo a st) (hi a st) (vg a (m_pos st)).
Proof. destruct a; reflexivity. Qed.

Record Inv (st : mstate R) : Prop := mkInv {
  inv_cell : forall a, lo a st <= vg a (m_pos st) <= hi a st;
  inv_range : forall a, (-1 <= ig a (m_idx st) <= ig a (b_n b))%Z;
  inv_pos : forall a, vg a (m_pos st) = vg a p0 + sumlen (m_vis st) * vg a d;
  inv_len : Forall (fun v => 0 <= snd v) (m_vis st);
  inv_tau : (m_tau st < target -> m_tau st = sumtau kap (m_vis st)) /\
            (target <= m_tau st -> sumtau kap (m_vis st) = target);
  inv_active : m_cell st = one_index (b_n b) (m_idx st);
  inv_vis : Forall (fun v => exists i, is_inside (b_n b) i = true /\ fst v = one_index (b_n b) i) (m_vis st)
}.

Lemma lo_lt_hi a st : lo a st < hi a st.
Proof. unfold lo, hi. pose proof (Hcs a). nra. Qed.

(* wall distances in a state satisfying the invariant *)
Lemma walls_nonzero st a : Inv st -> vg a d <> 0 ->
  0 <= vg a (wallsR st) /\
  vg a (m_pos st) + vg a (wallsR st) * vg a d = (if Rltb 0 (vg a d) then hi a st else lo a st) /\
  vg a (wallsR st) * Rabs (vg a d) <= vg a (b_cs b).
Proof.
  intros I Hd. rewrite vg_walls. pose proof (inv_cell st I a) as Hc.
  pose proof (wall_reach (vg a d) (lo a st) (hi a st) (vg a (m_pos st)) Hd Hc) as [W0 W]. cbv zeta in W0, W.
  split. exact W0. split. exact W.
  assert (hi a st - lo a st = vg a (b_cs b)) by (unfold hi, lo; ring).
  destruct (Rltb 0 (vg a d)) eqn:S.
  - apply Rltb_true in S. rewrite Rabs_right by lra. nra.
  - apply Rltb_false in S. rewrite Rabs_left by lra. nra.
Qed.

Lemma walls_zero st a : vg a d = 0 -> vg a (wallsR st) = RDBLMAX.
Proof. intros. rewrite vg_walls. apply wall_zero. assumption. Qed.

Lemma lmin_bounds st : Inv st -> 0 <= lmin_of ROps (wallsR st) < RDBLMAX.
Proof.
  intros I. split.
  - destruct (lmin_attained (wallsR st)) as [a E]. rewrite E.
    destruct (Req_dec (vg a d) 0) as [Z|NZ].
    + rewrite walls_zero by exact Z. left; exact RDBLMAX_pos.
    + apply (walls_nonzero st a I NZ).
  - destruct Hbig as [j [Hj Hb]]. pose proof (lmin_le (wallsR st) j) as Hle.
    pose proof (walls_nonzero st j I Hj) as [W0 [_ W2]].
    assert (0 < Rabs (vg j d)) by (apply Rabs_pos_lt; exact Hj).
    assert (vg j (wallsR st) < RDBLMAX) by nra. lra.
Qed.

(* an axis moves in this step: its wall distance attains the minimum *)
Definition moved (st : mstate R) (a : axis) : Prop := vg a (wallsR st) = lmin_of ROps (wallsR st).

Lemma moved_nonzero st a : Inv st -> moved st a -> vg a d <> 0.
Proof.
  intros I M Z. unfold moved in M. rewrite (walls_zero st a Z) in M. pose proof (lmin_bounds st I). lra.
Qed.

Lemma cond_spec st : condR st = true <-> m_tau st < target /\ forall a, (0 <= ig a (m_idx st) < ig a (b_n b))%Z.
Proof.
  unfold cond; rsimp. rewrite andb_true_iff, Rltb_true, is_inside_spec. tauto.
Qed.

Definition absorbing (st : mstate R) : Prop := target <= m_tau st + od (m_cell st) (lmin_of ROps (wallsR st)).

(* the step that reaches the target: index unchanged, the shortened length is credited *)
Lemma step_absorbing st : Inv st -> condR st = true -> absorbing st ->
  let st' := stepR st in
  Inv st' /\ target <= m_tau st' /\ m_idx st' = m_idx st /\
  exists len, 0 < len <= lmin_of ROps (wallsR st) /\ m_vis st' = (m_cell st, len) :: m_vis st.
Proof.
  intros I C A st'. apply cond_spec in C. destruct C as [Ct Cin].
  pose proof (lmin_bounds st I) as [L0 L1]. set (lmin := lmin_of ROps (wallsR st)) in *.
  unfold absorbing in A. fold lmin in A. rewrite Hod in A.
  pose proof (Hkap (m_cell st)) as K0. set (k := kap (m_cell st)) in *.
  assert (Tpos : 0 < k * lmin) by lra.
  assert (Kpos : 0 < k) by nra. assert (Lpos : 0 < lmin) by nra.
  set (corr := (m_tau st + k * lmin - target) / (k * lmin)).
  assert (C0 : 0 <= corr) by (unfold corr; apply Rmult_le_pos; [lra | left; apply Rinv_0_lt_compat; lra]).
  assert (C1 : corr < 1).
  { unfold corr. apply (Rmult_lt_reg_r (k * lmin)). lra. unfold Rdiv. rewrite Rmult_assoc, Rinv_l by lra. lra. }
  set (len := lmin * (1 - corr)).
  assert (Hlen : 0 < len <= lmin) by (unfold len; split; nra).
  assert (E : st' = mkM (move ROps b d st (wallsR st) len) (m_idx st) (one_index (b_n b) (m_idx st))
                        (m_tau st + k * lmin) ((m_cell st, len) :: m_vis st)).
  { unfold st', step. fold lmin. rewrite Hod. fold k. rsimp.
    assert (R : Rleb target (m_tau st + k * lmin) = true) by (apply Rleb_true; lra). rewrite R. reflexivity. }
  assert (P : forall a, vg a (m_pos st') = vg a (m_pos st) + len * vg a d /\ lo a st <= vg a (m_pos st') <= hi a st).
  { intros a. rewrite E. cbn [m_pos]. rewrite vg_move.
    apply newpos_spec.
    - apply (inv_cell st I).
    - lra.
    - rewrite vg_walls. reflexivity.
    - intros _. pose proof (lmin_le (wallsR st) a). fold lmin in H. lra.
    - intros Z. rewrite walls_zero by exact Z. lra. }
  split; [|split; [|split]].
  - constructor.
    + intros a. destruct (P a) as [_ B]. unfold lo, hi in *. rewrite E; cbn [m_idx]. rewrite E in B; exact B.
    + intros a. rewrite E; cbn [m_idx]. apply (inv_range st I).
    + intros a. destruct (P a) as [Q _]. rewrite Q. rewrite (inv_pos st I a). rewrite E; cbn [m_vis]. rewrite sumlen_cons; cbn [snd]. ring.
    + rewrite E; cbn [m_vis]. constructor. cbn [snd]; lra. apply (inv_len st I).
    + rewrite E; cbn [m_tau m_vis]. rewrite sumtau_cons; cbn [fst snd]. split. intros; lra. intros _.
      destruct (inv_tau st I) as [T1 _]. rewrite <- (T1 Ct). fold k. unfold len, corr. field. lra.
    + rewrite E; reflexivity.
    + rewrite E; cbn [m_vis]. constructor; [|apply (inv_vis st I)]. cbn [fst]. exists (m_idx st).
      split. apply is_inside_spec; exact Cin. apply (inv_active st I).
  - rewrite E; cbn [m_tau]. lra.
  - rewrite E; reflexivity.
  - exists len. split. exact Hlen. rewrite E; reflexivity.
Qed.

Lemma ig_newidx a (l : vec R) lm (i : ivec) :
  ig a (mkI (newidx1 ROps (vx l) lm (vx d) (ix i)) (newidx1 ROps (vy l) lm (vy d) (iy i)) (newidx1 ROps (vz l) lm (vz d) (iz i)))
  = newidx1 ROps (vg a l) lm (vg a d) (ig a i).
Proof. destruct a; reflexivity. Qed.

(* a step that does not reach the target: every axis attaining the minimum moves to the next cell *)
Lemma step_moving st : Inv st -> condR st = true -> ~ absorbing st ->
  let st' := stepR st in
  Inv st' /\ m_tau st' < target /\
  m_vis st' = (m_cell st, lmin_of ROps (wallsR st)) :: m_vis st /\
  (exists a, moved st a) /\
  forall a,
    (moved st a -> vg a d <> 0 /\
        ig a (m_idx st') = (ig a (m_idx st) + (if Rltb 0 (vg a d) then 1 else -1))%Z /\
        vg a (m_pos st') = (if Rltb 0 (vg a d) then hi a st else lo a st)) /\
    (~ moved st a -> ig a (m_idx st') = ig a (m_idx st) /\
        (0 < vg a d -> vg a (m_pos st') < hi a st) /\ (vg a d < 0 -> lo a st < vg a (m_pos st')) /\
        (vg a d = 0 -> vg a (m_pos st') = vg a (m_pos st))).
Proof.
  intros I C A st'. apply cond_spec in C. destruct C as [Ct Cin].
  pose proof (lmin_bounds st I) as [L0 L1]. set (lmin := lmin_of ROps (wallsR st)) in *.
  unfold absorbing in A. fold lmin in A. rewrite Hod in A. set (k := kap (m_cell st)) in *.
  assert (A' : m_tau st + k * lmin < target) by lra.
  set (i' := mkI (newidx1 ROps (vx (wallsR st)) lmin (vx d) (ix (m_idx st)))
                 (newidx1 ROps (vy (wallsR st)) lmin (vy d) (iy (m_idx st)))
                 (newidx1 ROps (vz (wallsR st)) lmin (vz d) (iz (m_idx st)))).
  assert (E : st' = mkM (move ROps b d st (wallsR st) lmin) i' (one_index (b_n b) i')
                        (m_tau st + k * lmin) ((m_cell st, lmin) :: m_vis st)).
  { unfold st', step. fold lmin. rewrite Hod. fold k. rsimp.
    assert (R : Rleb target (m_tau st + k * lmin) = false) by (apply Rleb_false; lra). rewrite R. reflexivity. }
  assert (P : forall a, vg a (m_pos st') = vg a (m_pos st) + lmin * vg a d /\ lo a st <= vg a (m_pos st') <= hi a st).
  { intros a. rewrite E. cbn [m_pos]. rewrite vg_move.
    apply newpos_spec.
    - apply (inv_cell st I).
    - lra.
    - rewrite vg_walls. reflexivity.
    - intros _. pose proof (lmin_le (wallsR st) a). fold lmin in H. lra.
    - intros Z. rewrite walls_zero by exact Z. lra. }
  assert (X : forall a, ig a (m_idx st') = newidx1 ROps (vg a (wallsR st)) lmin (vg a d) (ig a (m_idx st))).
  { intros a. rewrite E; cbn [m_idx]. unfold i'. apply ig_newidx. }
  (* per axis facts *)
  assert (F : forall a,
    (moved st a -> vg a d <> 0 /\
        ig a (m_idx st') = (ig a (m_idx st) + (if Rltb 0 (vg a d) then 1 else -1))%Z /\
        vg a (m_pos st') = (if Rltb 0 (vg a d) then hi a st else lo a st)) /\
    (~ moved st a -> ig a (m_idx st') = ig a (m_idx st) /\
        (0 < vg a d -> vg a (m_pos st') < hi a st) /\ (vg a d < 0 -> lo a st < vg a (m_pos st')) /\
        (vg a d = 0 -> vg a (m_pos st') = vg a (m_pos st)))).
  { intros a. destruct (P a) as [Q B]. split.
    - intros M. pose proof (moved_nonzero st a I M) as NZ. split. exact NZ.
      unfold moved in M. fold lmin in M. split.
      + rewrite X. unfold newidx1; rsimp. assert (R : Reqb (vg a (wallsR st)) lmin = true) by (apply Reqb_true; exact M).
        rewrite R. reflexivity.
      + rewrite Q. destruct (walls_nonzero st a I NZ) as [_ [W _]]. rewrite M in W. exact W.
    - intros NM. unfold moved in NM. fold lmin in NM.
      assert (R : Reqb (vg a (wallsR st)) lmin = false) by (apply Reqb_false; exact NM).
      split. rewrite X. unfold newidx1; rsimp. rewrite R. reflexivity.
      pose proof (lmin_le (wallsR st) a) as Hle. fold lmin in Hle.
      assert (Hlt : lmin < vg a (wallsR st)) by (destruct Hle as [Hl|Hl]; [exact Hl | exfalso; apply NM; symmetry; exact Hl]).
      split; [|split].
      + intros Dp. assert (NZ : vg a d <> 0) by lra. destruct (walls_nonzero st a I NZ) as [_ [W _]].
        assert (S : Rltb 0 (vg a d) = true) by (apply Rltb_true; exact Dp). rewrite S in W. rewrite Q. nra.
      + intros Dn. assert (NZ : vg a d <> 0) by lra. destruct (walls_nonzero st a I NZ) as [_ [W _]].
        assert (S : Rltb 0 (vg a d) = false) by (apply Rltb_false; lra). rewrite S in W. rewrite Q. nra.
      + intros Z. rewrite Q, Z. ring. }
  split; [|split; [|split; [|split]]].
  - constructor.
    + intros a. destruct (P a) as [Q B]. destruct (F a) as [FM FN].
      destruct (Req_EM_T (vg a (wallsR st)) lmin) as [M|NM].
      * destruct (FM M) as [NZ [Ei Ep]]. unfold lo, hi. rewrite Ei, Ep. pose proof (Hcs a) as Hc.
        destruct (Rltb 0 (vg a d)).
        -- rewrite plus_IZR. unfold hi. split; [right; ring | nra].
        -- rewrite plus_IZR. unfold lo. replace (IZR (-1)) with (-1) by reflexivity. split; [nra | right; ring].
      * destruct (FN NM) as [Ei _]. unfold lo, hi in *. rewrite Ei. exact B.
    + intros a. destruct (F a) as [FM FN]. specialize (Cin a).
      destruct (Req_EM_T (vg a (wallsR st)) lmin) as [M|NM].
      * destruct (FM M) as [_ [Ei _]]. rewrite Ei. destruct (Rltb 0 (vg a d)); lia.
      * destruct (FN NM) as [Ei _]. rewrite Ei. lia.
    + intros a. destruct (P a) as [Q _]. rewrite Q. rewrite (inv_pos st I a). rewrite E; cbn [m_vis]. rewrite sumlen_cons; cbn [snd]. ring.
    + rewrite E; cbn [m_vis]. constructor. cbn [snd]; lra. apply (inv_len st I).
    + rewrite E; cbn [m_tau m_vis]. rewrite sumtau_cons; cbn [fst snd]. split. 2: intros; lra. intros _.
      destruct (inv_tau st I) as [T1 _]. rewrite <- (T1 Ct). fold k. ring.
    + rewrite E; reflexivity.
    + rewrite E; cbn [m_vis]. constructor; [|apply (inv_vis st I)]. cbn [fst]. exists (m_idx st).
      split. apply is_inside_spec; exact Cin. apply (inv_active st I).
  - rewrite E; cbn [m_tau]. exact A'.
  - rewrite E; reflexivity.
  - destruct (lmin_attained (wallsR st)) as [a Ea]. exists a. unfold moved. symmetry; exact Ea.
  - exact F.
Qed.

Lemma absorbing_dec st : absorbing st \/ ~ absorbing st.
Proof. unfold absorbing. destruct (Rle_dec target (m_tau st + od (m_cell st) (lmin_of ROps (wallsR st)))); auto. Qed.

Lemma step_inv st : Inv st -> condR st = true -> Inv (stepR st).
Proof.
  intros I C. destruct (absorbing_dec st) as [A|A].
  - apply (step_absorbing st I C A).
  - apply (step_moving st I C A).
Qed.

(* states reached by iterating the loop body while the loop condition holds *)
Inductive reach (s : mstate R) : mstate R -> Prop :=
| reach_refl : reach s s
| reach_step x : reach s x -> condR x = true -> reach s (stepR x).

Lemma reach_inv s x : Inv s -> reach s x -> Inv x.
Proof. intros I H. induction H. exact I. apply step_inv; assumption. Qed.

Lemma reach_head s x : condR s = true -> reach (stepR s) x -> reach s x.
Proof.
  intros C H. induction H.
  - apply reach_step. apply reach_refl. exact C.
  - apply reach_step; assumption.
Qed.

Lemma march_done fuel s : condR s = false -> marchR fuel s = Some s.
Proof. intros C. destruct fuel; cbn [march]; rewrite C; reflexivity. Qed.

Lemma march_reach fuel : forall s s', marchR fuel s = Some s' -> reach s s' /\ condR s' = false.
Proof.
  induction fuel; intros s s' H; cbn [march] in H; destruct (condR s) eqn:C.
  - discriminate.
  - inversion H; subst. split. apply reach_refl. exact C.
  - destruct (IHfuel _ _ H) as [R F]. split. apply reach_head; assumption. exact F.
  - inversion H; subst. split. apply reach_refl. exact C.
Qed.

(* termination measure: number of cells still ahead, summed over the axes *)
Definition mz (a : axis) (st : mstate R) : Z :=
  if Rltb 0 (vg a d) then (ig a (b_n b) - ig a (m_idx st))%Z
  else if Rltb (vg a d) 0 then (ig a (m_idx st) + 1)%Z else 0%Z.
Definition measure (st : mstate R) : Z := (mz AX st + mz AY st + mz AZ st)%Z.

Lemma mz_nonneg st a : Inv st -> (0 <= mz a st)%Z.
Proof. intros I. pose proof (inv_range st I a). unfold mz. destruct (Rltb 0 (vg a d)); [lia|]. destruct (Rltb (vg a d) 0); lia. Qed.

Lemma measure_pos st : Inv st -> condR st = true -> (1 <= measure st)%Z.
Proof.
  intros I C. apply cond_spec in C. destruct C as [_ Cin]. destruct Hbig as [j [Hj _]].
  assert (J : (1 <= mz j st)%Z).
  { specialize (Cin j). unfold mz. destruct (Rltb 0 (vg j d)) eqn:S. lia.
    apply Rltb_false in S. assert (T : Rltb (vg j d) 0 = true) by (apply Rltb_true; lra). rewrite T. lia. }
  pose proof (mz_nonneg st AX I). pose proof (mz_nonneg st AY I). pose proof (mz_nonneg st AZ I).
  unfold measure. destruct j; lia.
Qed.

Lemma measure_decreases st : Inv st -> condR st = true -> ~ absorbing st -> (measure (stepR st) <= measure st - 1)%Z.
Proof.
  intros I C A. destruct (step_moving st I C A) as [_ [_ [_ [[a0 M0] F]]]].
  assert (G : forall a, (mz a (stepR st) <= mz a st)%Z /\ (moved st a -> (mz a (stepR st) <= mz a st - 1)%Z)).
  { intros a. destruct (F a) as [FM FN]. destruct (Req_EM_T (vg a (wallsR st)) (lmin_of ROps (wallsR st))) as [M|NM].
    - destruct (FM M) as [NZ [Ei _]]. unfold mz. rewrite Ei. destruct (Rltb 0 (vg a d)) eqn:S. split; intros; lia.
      apply Rltb_false in S. assert (T : Rltb (vg a d) 0 = true) by (apply Rltb_true; lra). rewrite T. split; intros; lia.
    - destruct (FN NM) as [Ei _]. unfold mz. rewrite Ei. split. lia. intros M; exfalso; apply NM; exact M. }
  pose proof (G AX) as [X1 X2]. pose proof (G AY) as [Y1 Y2]. pose proof (G AZ) as [Z1 Z2].
  unfold measure. destruct a0; [specialize (X2 M0)|specialize (Y2 M0)|specialize (Z2 M0)]; lia.
Qed.

Lemma march_terminates fuel : forall st, Inv st -> (measure st <= Z.of_nat fuel)%Z -> exists st', marchR fuel st = Some st'.
Proof.
  induction fuel; intros st I Hm; cbn [march]; destruct (condR st) eqn:C.
  - pose proof (measure_pos st I C). lia.
  - eexists; reflexivity.
  - destruct (absorbing_dec st) as [A|A].
    + destruct (step_absorbing st I C A) as [_ [T _]]. exists (stepR st). apply march_done.
      unfold cond; rsimp. assert (R : Rltb (m_tau (stepR st)) target = false) by (apply Rltb_false; exact T). rewrite R. reflexivity.
    + apply IHfuel. apply step_inv; assumption. pose proof (measure_decreases st I C A). lia.
  - eexists; reflexivity.
Qed.

(* along the march the optical depth done never decreases below zero and every visit is the active cell *)
Lemma reach_last s x : reach s x -> x = s \/ exists prev, reach s prev /\ condR prev = true /\ x = stepR prev.
Proof. intros H. destruct H. left; reflexivity. right. exists x. auto. Qed.

End MarchR.

(* ---------------------------------------------------------------------------
   the 27-way tables *)
Local Open Scope Z_scope.

Definition kg (a : axis) (k : akind * akind * akind) : akind :=
  match k with (x, y, z) => match a with AX => x | AY => y | AZ => z end end.
(* direction sign an entry through this plane requires; side of the block the plane is on *)
Definition need (k : akind) : Z := match k with KCompute => 0 | KLow => 1 | KHigh => -1 end.
Definition side (k : akind) : Z := match k with KCompute => 0 | KLow => -1 | KHigh => 1 end.

(* meaning of the TravelDirection codes as documented with the enum: per axis, -1 = the
   coordinate is on the lower plane of the box, 1 = on the upper plane, 0 = not fixed *)
Definition decode_table : list (Z * (Z * Z * Z)) :=
  [ (INSIDE, (0, 0, 0));
    (CORNER_PPP, (1, 1, 1));   (CORNER_PPN, (1, 1, -1));   (CORNER_PNP, (1, -1, 1));   (CORNER_PNN, (1, -1, -1));
    (CORNER_NPP, (-1, 1, 1));  (CORNER_NPN, (-1, 1, -1));  (CORNER_NNP, (-1, -1, 1));  (CORNER_NNN, (-1, -1, -1));
    (EDGE_X_PP, (0, 1, 1));    (EDGE_X_PN, (0, 1, -1));    (EDGE_X_NP, (0, -1, 1));    (EDGE_X_NN, (0, -1, -1));
    (EDGE_Y_PP, (1, 0, 1));    (EDGE_Y_PN, (1, 0, -1));    (EDGE_Y_NP, (-1, 0, 1));    (EDGE_Y_NN, (-1, 0, -1));
    (EDGE_Z_PP, (1, 1, 0));    (EDGE_Z_PN, (1, -1, 0));    (EDGE_Z_NP, (-1, 1, 0));    (EDGE_Z_NN, (-1, -1, 0));
    (FACE_X_P, (1, 0, 0));     (FACE_X_N, (-1, 0, 0));
    (FACE_Y_P, (0, 1, 0));     (FACE_Y_N, (0, -1, 0));
    (FACE_Z_P, (0, 0, 1));     (FACE_Z_N, (0, 0, -1)) ].
Definition decode (code : Z) : option (Z * Z * Z) := zlookup code decode_table.

Definition entry_tables_ok (input : Z) : Prop :=
  exists kx ky kz,
    zlookup input reposition_table = Some (kx, ky, kz) /\
    x_index_kind input = Some kx /\ y_index_kind input = Some ky /\ z_index_kind input = Some kz /\
    zlookup input input_compat_table = Some (need kx, need ky, need kz) /\
    decode input = Some (side kx, side ky, side kz).

Lemma entry_tables input : 0 <= input < 27 -> entry_tables_ok input.
Proof.
  intros H.
  assert (C : input = 0 \/ input = 1 \/ input = 2 \/ input = 3 \/ input = 4 \/ input = 5 \/ input = 6 \/ input = 7 \/
              input = 8 \/ input = 9 \/ input = 10 \/ input = 11 \/ input = 12 \/ input = 13 \/ input = 14 \/
              input = 15 \/ input = 16 \/ input = 17 \/ input = 18 \/ input = 19 \/ input = 20 \/ input = 21 \/
              input = 22 \/ input = 23 \/ input = 24 \/ input = 25 \/ input = 26) by lia.
  unfold entry_tables_ok.
  repeat (destruct C as [C|C]; [subst input; vm_compute; eexists _, _, _; repeat split; reflexivity|]).
  subst input; vm_compute; eexists _, _, _; repeat split; reflexivity.
Qed.

Definition exit_sign (n i : Z) : Z := if i <? 0 then -1 else if n <=? i then 1 else 0.

Lemma quot_high n i : 1 <= n -> (0 <? Z.quot i n) = (n <=? i).
Proof.
  intros Hn. destruct (Z_lt_le_dec i 0) as [N|P].
  - assert (Z.quot i n <= 0).
    { replace i with (- (- i)) by lia. rewrite Z.quot_opp_l by lia. pose proof (Z.quot_pos (- i) n). lia. }
    destruct (0 <? Z.quot i n) eqn:E; [apply Z.ltb_lt in E; lia|]. symmetry. apply Z.leb_gt. lia.
  - destruct (Z_lt_le_dec i n) as [S|G].
    + rewrite Z.quot_small by lia. symmetry. cbn. apply Z.leb_gt. lia.
    + pose proof (Z.quot_str_pos i n). assert (E : 0 <? Z.quot i n = true) by (apply Z.ltb_lt; lia). rewrite E.
      symmetry. apply Z.leb_le. lia.
Qed.

Lemma exit_table n i : (forall a, 1 <= ig a n) ->
  exists o, output_direction n i = Some o /\
            decode o = Some (exit_sign (ix n) (ix i), exit_sign (iy n) (iy i), exit_sign (iz n) (iz i)).
Proof.
  intros Hn. pose proof (Hn AX) as Hx. pose proof (Hn AY) as Hy. pose proof (Hn AZ) as Hz. cbn [ig] in *.
  unfold output_direction, exit_mask, exit_sign.
  rewrite !quot_high by assumption.
  destruct (ix i <? 0) eqn:A1; destruct (ix n <=? ix i) eqn:A2;
  destruct (iy i <? 0) eqn:B1; destruct (iy n <=? iy i) eqn:B2;
  destruct (iz i <? 0) eqn:C1; destruct (iz n <=? iz i) eqn:C2;
  try (apply Z.ltb_lt in A1; apply Z.leb_le in A2; lia);
  try (apply Z.ltb_lt in B1; apply Z.leb_le in B2; lia);
  try (apply Z.ltb_lt in C1; apply Z.leb_le in C2; lia);
  vm_compute; eexists; split; reflexivity.
Qed.

Lemma decode_inside_only o : decode o = Some (0, 0, 0) -> 0 <= o < 27 -> o = INSIDE.
Proof.
  intros D H.
  assert (C : o = 0 \/ o = 1 \/ o = 2 \/ o = 3 \/ o = 4 \/ o = 5 \/ o = 6 \/ o = 7 \/
              o = 8 \/ o = 9 \/ o = 10 \/ o = 11 \/ o = 12 \/ o = 13 \/ o = 14 \/
              o = 15 \/ o = 16 \/ o = 17 \/ o = 18 \/ o = 19 \/ o = 20 \/ o = 21 \/
              o = 22 \/ o = 23 \/ o = 24 \/ o = 25 \/ o = 26) by lia.
  repeat (destruct C as [C|C]; [subst o; vm_compute in D; try discriminate D; reflexivity|]).
  subst o; vm_compute in D; discriminate D.
Qed.
Local Close Scope Z_scope.

(* ---------------------------------------------------------------------------
   entry: repositioning and start index, one coordinate *)
Lemma block_axis sd n : 0 < sd -> (1 <= n)%Z ->
  0 < sd / IZR n /\ (IZR n / sd) * (sd / IZR n) = 1 /\ IZR n * (sd / IZR n) = sd.
Proof.
  intros Hs Hn. assert (0 < IZR n) by (apply (IZR_lt 0); lia).
  split. apply Rdiv_lt_0_compat; assumption. split; field; lra.
Qed.

Lemma start_axis k n sd p : 0 < sd -> (1 <= n)%Z -> (k = KCompute -> 0 <= p <= sd) ->
  let cs := sd / IZR n in let inv := IZR n / sd in
  let p1 := repos1 ROps k n cs p in let i0 := start1 ROps k n inv p1 in
  p1 = (match k with KCompute => p | KLow => 0 | KHigh => sd end) /\
  IZR i0 * cs <= p1 <= (IZR i0 + 1) * cs /\ (0 <= i0 <= n)%Z /\
  ((k = KCompute -> p < sd) -> (i0 <= n - 1)%Z).
Proof.
  intros Hs Hn Hp cs inv p1 i0. destruct (block_axis sd n Hs Hn) as [Hcs [Hinv Hncs]]. fold cs in Hcs, Hinv, Hncs. fold inv in Hinv.
  assert (Hnr : 1 <= IZR n) by (apply (IZR_le 1); exact Hn).
  destruct k; subst i0 p1; unfold repos1, start1; rsimp.
  - specialize (Hp eq_refl). set (x := p * inv).
    assert (Hx : x * cs = p) by (unfold x; rewrite Rmult_assoc, Hinv; ring).
    assert (Hx0 : 0 <= x) by (unfold x; apply Rmult_le_pos; [lra|]; unfold inv; apply Rmult_le_pos; [lra | left; apply Rinv_0_lt_compat; lra]).
    assert (T : RtruncZ x = Int_part x) by (unfold RtruncZ; destruct (Rle_dec 0 x); [reflexivity | contradiction]).
    rewrite T. destruct (base_Int_part x) as [B1 B2]. set (i := Int_part x) in *.
    assert (Hxn : x <= IZR n) by nra.
    split. reflexivity. split. split; nra. split.
    + split. assert (IZR (-1) < IZR i) by (replace (IZR (-1)) with (-1) by reflexivity; lra). apply lt_IZR in H. lia.
      apply le_IZR. lra.
    + intros S. specialize (S eq_refl). assert (x < IZR n) by nra. assert (IZR i < IZR n) by lra. apply lt_IZR in H0. lia.
  - split. reflexivity. split. split; nra. split. lia. intros _; lia.
  - split. exact Hncs. rewrite minus_IZR. fold cs. split. split; nra. split. lia. intros _; lia.
Qed.

(* ---------------------------------------------------------------------------
   the whole call *)
Definition kappa (cells : Z -> cellc R) (ph : photon R) (c : Z) : R :=
  c_n (cells c) * (nth 0 (p_sigma ph) 0 * c_xH (cells c) + nth 1 (p_sigma ph) 0 * c_xHe (cells c)).

Definition kinds_of (input : Z) : akind * akind * akind :=
  match zlookup input reposition_table with Some k => k | None => (KCompute, KCompute, KCompute) end.

(* start of the path relative to the anchor, after update_photon_position *)
Definition start_rel (anchor sides : vec R) (ph : photon R) (input : Z) : vec R :=
  let k := kinds_of input in
  let f a := match kg a k with KCompute => vg a (p_pos ph) - vg a anchor | KLow => 0 | KHigh => vg a sides end in
  mkV (f AX) (f AY) (f AZ).

(* loop state on loop entry, with the expressions of the model *)
Definition start_state (anchor sides : vec R) (n : ivec) (ph : photon R) (input : Z) : mstate R :=
  let b := make_block ROps anchor sides n in
  let k := kinds_of input in
  let p0 := vsub ROps (p_pos ph) (b_anchor b) in
  let p1 := mkV (repos1 ROps (kg AX k) (ix n) (vx (b_cs b)) (vx p0)) (repos1 ROps (kg AY k) (iy n) (vy (b_cs b)) (vy p0))
                (repos1 ROps (kg AZ k) (iz n) (vz (b_cs b)) (vz p0)) in
  let i0 := mkI (start1 ROps (kg AX k) (ix n) (vx (b_inv b)) (vx p1)) (start1 ROps (kg AY k) (iy n) (vy (b_inv b)) (vy p1))
                (start1 ROps (kg AZ k) (iz n) (vz (b_inv b)) (vz p1)) in
  mkM p1 i0 (one_index n i0) 0 [].

Record good (anchor sides : vec R) (n : ivec) (cells : Z -> cellc R) (ph : photon R) (input : Z) : Prop := mkGood {
  g_n : forall a, (1 <= ig a n)%Z;
  g_sides : forall a, 0 < vg a sides;
  g_input : (0 <= input < 27)%Z;
  g_start : forall a, kg a (kinds_of input) = KCompute -> 0 <= vg a (p_pos ph) - vg a anchor <= vg a sides;
  g_cells : forall c, 0 <= c_n (cells c) /\ 0 <= c_xH (cells c) /\ 0 <= c_xHe (cells c);
  g_sigma : 0 <= nth 0 (p_sigma ph) 0 /\ 0 <= nth 1 (p_sigma ph) 0;
  g_tau : 0 < p_tau ph;
  g_big : exists j, vg j (p_dir ph) <> 0 /\ vg j sides / IZR (ig j n) < RDBLMAX * Rabs (vg j (p_dir ph))
}.

Section Top.
Variables (anchor sides : vec R) (n : ivec) (cells : Z -> cellc R) (ph : photon R) (input : Z).
Hypothesis G : good anchor sides n cells ph input.

Let b := make_block ROps anchor sides n.
Let d := p_dir ph.
Let target := p_tau ph.
Let od := optical_depth_of ROps cells ph.
Let kap := kappa cells ph.
Let st0 := start_state anchor sides n ph input.
Let p0 := m_pos st0.

Lemma top_cs a : vg a (b_cs b) = vg a sides / IZR (ig a n).
Proof. destruct a; reflexivity. Qed.
Lemma top_Hcs : forall a, 0 < vg a (b_cs b).
Proof. intros a. rewrite top_cs. apply block_axis. apply (g_sides _ _ _ _ _ _ G). apply (g_n _ _ _ _ _ _ G). Qed.
Lemma top_Hn : forall a, (1 <= ig a (b_n b))%Z.
Proof. intros a. apply (g_n _ _ _ _ _ _ G). Qed.
Lemma top_Hod : forall c l, od c l = kap c * l.
Proof. intros. unfold od, kap, optical_depth_of, kappa. rsimp. ring. Qed.
Lemma top_Hkap : forall c, 0 <= kap c.
Proof.
  intros c. unfold kap, kappa. destruct (g_cells _ _ _ _ _ _ G c) as [A [B C]]. destruct (g_sigma _ _ _ _ _ _ G) as [S1 S2].
  apply Rmult_le_pos. exact A. apply Rplus_le_le_0_compat; apply Rmult_le_pos; assumption.
Qed.
Lemma top_Htarget : 0 < target.
Proof. apply (g_tau _ _ _ _ _ _ G). Qed.
Lemma top_Hbig : exists j, vg j d <> 0 /\ vg j (b_cs b) < RDBLMAX * Rabs (vg j d).
Proof. destruct (g_big _ _ _ _ _ _ G) as [j [H1 H2]]. exists j. split. exact H1. rewrite top_cs. exact H2. Qed.

(* per axis facts about the start state *)
Lemma start_facts a :
  vg a (m_pos st0) = vg a (start_rel anchor sides ph input) /\
  IZR (ig a (m_idx st0)) * vg a (b_cs b) <= vg a (m_pos st0) <= (IZR (ig a (m_idx st0)) + 1) * vg a (b_cs b) /\
  (0 <= ig a (m_idx st0) <= ig a n)%Z /\
  ((kg a (kinds_of input) = KCompute -> vg a (p_pos ph) - vg a anchor < vg a sides) -> (ig a (m_idx st0) <= ig a n - 1)%Z).
Proof.
  pose proof (g_sides _ _ _ _ _ _ G a) as Hs. pose proof (g_n _ _ _ _ _ _ G a) as Hn. pose proof (g_start _ _ _ _ _ _ G a) as Hp.
  pose proof (start_axis (kg a (kinds_of input)) (ig a n) (vg a sides) (vg a (p_pos ph) - vg a anchor) Hs Hn Hp) as F.
  cbv zeta in F. destruct a; exact F.
Qed.

Lemma start_inv : Inv b d target kap p0 st0.
Proof.
  constructor.
  - intros a. destruct (start_facts a) as [_ [H _]]. exact H.
  - intros a. destruct (start_facts a) as [_ [_ [H _]]]. cbn [b_n b make_block]. lia.
  - intros a. unfold p0. cbn [m_vis st0 start_state sumlen fold_right]. ring.
  - constructor.
  - cbn [m_tau m_vis st0 start_state sumtau fold_right]. split. reflexivity. pose proof top_Htarget. unfold target in *. intros; lra.
  - reflexivity.
  - constructor.
Qed.

Lemma start_measure : cond ROps b target st0 = true -> (measure b d st0 <= Z.of_nat (FUEL n))%Z.
Proof.
  intros C. apply (cond_spec b target) in C. destruct C as [_ Cin].
  assert (M : forall a, (mz b d a st0 <= ig a n)%Z).
  { intros a. specialize (Cin a). cbn [b_n b make_block] in Cin. unfold mz. cbn [b_n b make_block].
    destruct (Rltb 0 (vg a d)). lia. destruct (Rltb (vg a d) 0); lia. }
  pose proof (M AX). pose proof (M AY). pose proof (M AZ). cbn [ig] in *.
  pose proof (g_n _ _ _ _ _ _ G AX). pose proof (g_n _ _ _ _ _ _ G AY). pose proof (g_n _ _ _ _ _ _ G AZ). cbn [ig] in *.
  unfold measure, FUEL. rewrite Z2Nat.id by lia. lia.
Qed.

(* the loop ends within the fuel, in a state reached from the start state that satisfies the invariant *)
Lemma run_facts : exists st,
  march ROps b d (invdR d) target od (FUEL n) st0 = Some st /\
  reach b d target od st0 st /\ cond ROps b target st = false /\ Inv b d target kap p0 st.
Proof.
  pose proof start_inv as I0.
  assert (T : exists st, march ROps b d (invdR d) target od (FUEL n) st0 = Some st).
  { destruct (cond ROps b target st0) eqn:C.
    - apply (march_terminates b d target od kap p0 top_Hcs top_Hod top_Hkap top_Hbig (FUEL n) st0 I0).
      apply start_measure. exact C.
    - exists st0. apply march_done. exact C. }
  destruct T as [st E]. exists st. split. exact E.
  destruct (march_reach b d target od (FUEL n) st0 st E) as [R F]. split. exact R. split. exact F.
  apply (reach_inv b d target od kap p0 top_Hcs top_Hod top_Hkap top_Hbig st0 st I0 R).
Qed.

(* the value interact returns, in terms of the loop's final state *)
Lemma interact_result : exists st r,
  interact ROps b cells ph input = Ok r /\
  r_fin r = st /\ r_pos r = vadd ROps (m_pos st) anchor /\ r_tau r = target - m_tau st /\ r_vis r = rev (m_vis st) /\
  reach b d target od st0 st /\ cond ROps b target st = false /\ Inv b d target kap p0 st /\
  ((target <= m_tau st /\ r_out r = INSIDE) \/
   (m_tau st < target /\ output_direction n (m_idx st) = Some (r_out r) /\
    decode (r_out r) = Some (exit_sign (ix n) (ix (m_idx st)), exit_sign (iy n) (iy (m_idx st)), exit_sign (iz n) (iz (m_idx st))))).
Proof.
  destruct run_facts as [st [E [R [F I]]]].
  destruct (entry_tables input (g_input _ _ _ _ _ _ G)) as [kx [ky [kz [E1 [E2 [E3 [E4 _]]]]]]].
  assert (U : interact ROps b cells ph input =
    match march ROps b d (invdR d) target od (FUEL n) st0 with
    | None => ErrFuel
    | Some st =>
      if Rleb target (m_tau st) then Ok (mkRes INSIDE (vadd ROps (m_pos st) anchor) (target - m_tau st) (rev (m_vis st)) st)
      else match output_direction n (m_idx st) with
           | Some o => Ok (mkRes o (vadd ROps (m_pos st) anchor) (target - m_tau st) (rev (m_vis st)) st)
           | None => ErrMask
           end
    end).
  { unfold interact, interact_with. rewrite E1, E2, E3, E4.
    unfold st0, start_state, kinds_of. rewrite E1. reflexivity. }
  rewrite U, E. destruct (Rleb target (m_tau st)) eqn:L.
  - apply Rleb_true in L. eexists st, _. split. reflexivity. cbn [r_fin r_pos r_tau r_vis r_out].
    split. reflexivity. split. reflexivity. split. reflexivity. split. reflexivity. split. exact R. split. exact F. split. exact I.
    left. split. exact L. reflexivity.
  - apply Rleb_false in L. destruct (exit_table n (m_idx st) (g_n _ _ _ _ _ _ G)) as [o [O D]]. rewrite O.
    eexists st, _. split. reflexivity. cbn [r_fin r_pos r_tau r_vis r_out].
    split. reflexivity. split. reflexivity. split. reflexivity. split. reflexivity. split. exact R. split. exact F. split. exact I.
    right. split. exact L. split. exact O. exact D.
Qed.

End Top.

(* ---------------------------------------------------------------------------
   sums over the visit list *)
Lemma sumlen_app l1 l2 : sumlen (l1 ++ l2) = sumlen l1 + sumlen l2.
Proof. induction l1. change (sumlen l2 = 0 + sumlen l2). ring. cbn [app]. rewrite !sumlen_cons, IHl1. ring. Qed.
Lemma sumlen_rev l : sumlen (rev l) = sumlen l.
Proof. induction l. reflexivity. cbn [rev]. rewrite sumlen_app, IHl, !sumlen_cons. change (sumlen []) with 0. ring. Qed.
Lemma sumtau_app k l1 l2 : sumtau k (l1 ++ l2) = sumtau k l1 + sumtau k l2.
Proof. induction l1. change (sumtau k l2 = 0 + sumtau k l2). ring. cbn [app]. rewrite !sumtau_cons, IHl1. ring. Qed.
Lemma sumtau_rev k l : sumtau k (rev l) = sumtau k l.
Proof. induction l. reflexivity. cbn [rev]. rewrite sumtau_app, IHl, !sumtau_cons. change (sumtau k []) with 0. ring. Qed.
Lemma sumlen_nonneg l : Forall (fun v : Z * R => 0 <= snd v) l -> 0 <= sumlen l.
Proof. induction 1. change (0 <= 0); lra. rewrite sumlen_cons. lra. Qed.

Definition vnorm (v : vec R) : R := sqrt (vx v * vx v + vy v * vy v + vz v * vz v).

Lemma vnorm_scaled (u v : vec R) s : 0 <= s -> (forall a, vg a u = s * vg a v) -> vnorm u = s * vnorm v.
Proof.
  intros Hs H. unfold vnorm. pose proof (H AX) as X; pose proof (H AY) as Y; pose proof (H AZ) as Z. cbn [vg] in *.
  rewrite X, Y, Z.
  replace (s * vx v * (s * vx v) + s * vy v * (s * vy v) + s * vz v * (s * vz v))
    with ((s * s) * (vx v * vx v + vy v * vy v + vz v * vz v)) by ring.
  rewrite sqrt_mult_alt by nra. rewrite sqrt_square by exact Hs. reflexivity.
Qed.

Lemma vg_vadd a (u v : vec R) : vg a (vadd ROps u v) = vg a u + vg a v.
Proof. destruct a; reflexivity. Qed.
Lemma vg_vsub a (u v : vec R) : vg a (vsub ROps u v) = vg a u - vg a v.
Proof. destruct a; reflexivity. Qed.

Lemma decode_INSIDE : decode INSIDE = Some (0, 0, 0)%Z.
Proof. reflexivity. Qed.

Lemma exit_sign_zero n i : exit_sign n i = 0%Z <-> (0 <= i < n)%Z.
Proof.
  unfold exit_sign. destruct (i <? 0)%Z eqn:A. apply Z.ltb_lt in A. split; intros; [discriminate|lia].
  apply Z.ltb_ge in A. destruct (n <=? i)%Z eqn:B. apply Z.leb_le in B. split; intros; [discriminate|lia].
  apply Z.leb_gt in B. split; intros; [lia|reflexivity].
Qed.

(* ---------------------------------------------------------------------------
   the theorems about one call *)
Section Theorems.
Variables (anchor sides : vec R) (n : ivec) (cells : Z -> cellc R) (ph : photon R) (input : Z).
Hypothesis G : good anchor sides n cells ph input.
Variable r : result R.
Hypothesis Hr : interact ROps (make_block ROps anchor sides n) cells ph input = Ok r.

Let b := make_block ROps anchor sides n.
Let d := p_dir ph.
Let target := p_tau ph.
Let od := optical_depth_of ROps cells ph.
Let kap := kappa cells ph.
Let st0 := start_state anchor sides n ph input.
Let p0 := m_pos st0.
Let st := r_fin r.
Let srel := start_rel anchor sides ph input.

Lemma res_facts :
  r_pos r = vadd ROps (m_pos st) anchor /\ r_tau r = target - m_tau st /\ r_vis r = rev (m_vis st) /\
  reach b d target od st0 st /\ cond ROps b target st = false /\ Inv b d target kap p0 st /\
  ((target <= m_tau st /\ r_out r = INSIDE) \/
   (m_tau st < target /\ output_direction n (m_idx st) = Some (r_out r) /\
    decode (r_out r) = Some (exit_sign (ix n) (ix (m_idx st)), exit_sign (iy n) (iy (m_idx st)), exit_sign (iz n) (iz (m_idx st))))).
Proof.
  destruct (interact_result anchor sides n cells ph input G) as [st' [r' [E [F1 [F2 [F3 [F4 [F5 [F6 [F7 F8]]]]]]]]]].
  rewrite Hr in E. inversion E; subst r'. unfold st. rewrite F1. repeat (split; [assumption|]). exact F8.
Qed.

Lemma p0_srel a : vg a p0 = vg a srel.
Proof. unfold p0, srel. destruct (start_facts anchor sides n cells ph input G a) as [H _]. exact H. Qed.

Lemma not_inside_when_left : m_tau st < target -> r_out r <> INSIDE /\ is_inside n (m_idx st) = false.
Proof.
  intros L. destruct res_facts as [_ [_ [_ [_ [F [_ [[A _]|[_ [O D]]]]]]]]]. lra.
  assert (N : is_inside n (m_idx st) = false).
  { unfold cond in F. rsimp. apply andb_false_iff in F. destruct F as [F|F]. apply Rltb_false in F. lra. exact F. }
  split; [|exact N]. intros E. rewrite E, decode_INSIDE in D. inversion D as [[D1 D2 D3]].
  symmetry in D1, D2, D3. apply exit_sign_zero in D1, D2, D3.
  assert (is_inside n (m_idx st) = true) by (apply is_inside_spec; intros a; destruct a; cbn [ig]; assumption). congruence.
Qed.

Lemma absorbed_iff : r_out r = INSIDE <-> target <= m_tau st.
Proof.
  destruct res_facts as [_ [_ [_ [_ [_ [_ [[A B]|[A _]]]]]]]]. tauto.
  destruct (not_inside_when_left A). split; intros; [contradiction | lra].
Qed.

(* march_invariant at the end of the call + path_sum *)
Lemma final_position :
  (forall a, vg a (r_pos r) = vg a srel + vg a anchor + sumlen (r_vis r) * vg a d) /\
  Forall (fun v => 0 <= snd v) (r_vis r) /\ 0 <= sumlen (r_vis r) /\
  (forall a, IZR (ig a (m_idx st)) * (vg a sides / IZR (ig a n)) <= vg a (r_pos r) - vg a anchor
             <= (IZR (ig a (m_idx st)) + 1) * (vg a sides / IZR (ig a n))).
Proof.
  destruct res_facts as [F2 [_ [F4 [_ [_ [I _]]]]]].
  assert (L : Forall (fun v : Z * R => 0 <= snd v) (r_vis r)) by (rewrite F4; apply Forall_rev; apply (inv_len _ _ _ _ _ _ I)).
  split; [|split; [exact L|split; [apply sumlen_nonneg; exact L|]]].
  - intros a. rewrite F2, vg_vadd, (inv_pos _ _ _ _ _ _ I a), p0_srel, F4, sumlen_rev. ring.
  - intros a. rewrite F2, vg_vadd. pose proof (inv_cell _ _ _ _ _ _ I a) as C. unfold lo, hi in C.
    pose proof (top_cs anchor sides n a) as Ecs. fold b in Ecs. rewrite Ecs in C. lra.
Qed.

(* every update_intensity_counters call is made for a cell of the block *)
Lemma visits_are_cells :
  Forall (fun v => exists i, is_inside n i = true /\ fst v = one_index n i) (r_vis r).
Proof.
  destruct res_facts as [_ [_ [F4 [_ [_ [I _]]]]]]. rewrite F4. apply Forall_rev. apply (inv_vis _ _ _ _ _ _ I).
Qed.

Lemma path_sum_thm :
  vnorm (vsub ROps (r_pos r) (vadd ROps srel anchor)) = sumlen (r_vis r) * vnorm d /\
  (vnorm d = 1 -> vnorm (vsub ROps (r_pos r) (vadd ROps srel anchor)) = sumlen (r_vis r)).
Proof.
  destruct final_position as [P [_ [S _]]].
  assert (E : vnorm (vsub ROps (r_pos r) (vadd ROps srel anchor)) = sumlen (r_vis r) * vnorm d).
  { apply vnorm_scaled. exact S. intros a. rewrite vg_vsub, vg_vadd, P. ring. }
  split. exact E. intros U. rewrite E, U. ring.
Qed.

Lemma tau_sum_thm :
  (r_out r = INSIDE -> sumtau kap (r_vis r) = p_tau ph /\ r_tau r <= 0) /\
  (r_out r <> INSIDE -> sumtau kap (r_vis r) = p_tau ph - r_tau r /\ 0 < r_tau r).
Proof.
  destruct res_facts as [_ [F3 [F4 [_ [_ [I _]]]]]]. destruct (inv_tau _ _ _ _ _ _ I) as [T1 T2].
  rewrite F4, sumtau_rev, F3. fold target. split.
  - intros E. apply absorbed_iff in E. split. apply T2; exact E. lra.
  - intros NE. assert (L : m_tau st < target). { destruct (Rlt_dec (m_tau st) target) as [L|L]. exact L. exfalso. apply NE. apply absorbed_iff. lra. }
    split. rewrite <- (T1 L). ring. lra.
Qed.

(* the last iteration, when the loop ran at least once *)
Lemma last_step : st <> st0 -> exists prev,
  reach b d target od st0 prev /\ cond ROps b target prev = true /\ Inv b d target kap p0 prev /\
  st = step ROps b d (invdR d) target od prev.
Proof.
  intros NE. destruct res_facts as [_ [_ [_ [R _]]]]. destruct (reach_last b d target od st0 st R) as [E|[prev [R' [C E]]]].
  contradiction. exists prev. split. exact R'. split. exact C. split; [|exact E].
  apply (reach_inv b d target od kap p0 (top_Hcs anchor sides n cells ph input G) (top_Hod cells ph)
                   (top_Hkap anchor sides n cells ph input G) (top_Hbig anchor sides n cells ph input G) st0 prev).
  apply (start_inv anchor sides n cells ph input G). exact R'.
Qed.

Lemma tau0 : m_tau st0 = 0.
Proof. reflexivity. Qed.

Lemma stops_iff_thm :
  (r_out r = INSIDE <-> sumtau kap (r_vis r) = p_tau ph) /\
  (r_out r = INSIDE -> is_inside n (m_idx st) = true) /\
  (r_out r <> INSIDE -> sumtau kap (r_vis r) < p_tau ph /\ is_inside n (m_idx st) = false).
Proof.
  destruct tau_sum_thm as [TA TB]. split; [|split].
  - split. intros E. apply (TA E). intros E.
    destruct (Z.eq_dec (r_out r) INSIDE) as [Y|N]. exact Y. destruct (TB N). lra.
  - intros E. apply absorbed_iff in E.
    assert (NE : st <> st0). { intros X. rewrite X, tau0 in E. pose proof (g_tau _ _ _ _ _ _ G). unfold target in E. lra. }
    destruct (last_step NE) as [prev [_ [C [I S]]]].
    destruct (absorbing_dec b d target od prev) as [A|A].
    + destruct (step_absorbing b d target od kap p0 (top_Hod cells ph) (top_Hkap anchor sides n cells ph input G)
                 (top_Hbig anchor sides n cells ph input G) prev I C A) as [_ [_ [X _]]].
      rewrite S, X. apply (cond_spec b target) in C. apply is_inside_spec. apply C.
    + destruct (step_moving b d target od kap p0 (top_Hcs anchor sides n cells ph input G) (top_Hod cells ph)
                 (top_Hbig anchor sides n cells ph input G) prev I C A) as [_ [X _]].
      rewrite <- S in X. lra.
  - intros N. destruct (TB N) as [T1 T2]. split. lra.
    assert (L : m_tau st < target). { destruct (Rlt_dec (m_tau st) target) as [L|L]. exact L. exfalso. apply N. apply absorbed_iff. lra. }
    apply (not_inside_when_left L).
Qed.

End Theorems.

(* ---------------------------------------------------------------------------
   exit geometry *)
Section Geometry.
Variables (anchor sides : vec R) (n : ivec) (cells : Z -> cellc R) (ph : photon R) (input : Z).
Hypothesis G : good anchor sides n cells ph input.
(* a coordinate that is not fixed by the entry classification starts strictly below the upper plane *)
Hypothesis Hstrict : forall a, kg a (kinds_of input) = KCompute -> vg a (p_pos ph) - vg a anchor < vg a sides.
Variable r : result R.
Hypothesis Hr : interact ROps (make_block ROps anchor sides n) cells ph input = Ok r.
Hypothesis Hleft : r_out r <> INSIDE.

Let b := make_block ROps anchor sides n.
Let d := p_dir ph.
Let target := p_tau ph.
Let od := optical_depth_of ROps cells ph.
Let kap := kappa cells ph.
Let st0 := start_state anchor sides n ph input.
Let p0 := m_pos st0.
Let st := r_fin r.

Lemma left_tau : m_tau st < target.
Proof.
  destruct (Rlt_dec (m_tau st) target) as [L|L]. exact L. exfalso. apply Hleft.
  apply (absorbed_iff anchor sides n cells ph input G r Hr). fold st target. lra.
Qed.

Lemma start_cond : cond ROps b target st0 = true.
Proof.
  apply (cond_spec b target). split. change (m_tau st0) with 0. apply (g_tau _ _ _ _ _ _ G).
  intros a. destruct (start_facts anchor sides n cells ph input G a) as [_ [_ [H1 H2]]].
  specialize (H2 (Hstrict a)). fold st0 in H1, H2. cbn [b_n b make_block]. lia.
Qed.

Lemma exit_axis a :
  (ig a (m_idx st) = ig a n /\ 0 < vg a d /\ vg a (m_pos st) = vg a sides) \/
  (ig a (m_idx st) = (-1)%Z /\ vg a d < 0 /\ vg a (m_pos st) = 0) \/
  ((0 <= ig a (m_idx st) < ig a n)%Z /\ (0 < vg a d -> vg a (m_pos st) < vg a sides) /\
   (vg a d < 0 -> 0 < vg a (m_pos st)) /\ 0 <= vg a (m_pos st) <= vg a sides).
Proof.
  pose proof left_tau as L.
  destruct (res_facts anchor sides n cells ph input G r Hr) as [_ [_ [_ [_ [F [I _]]]]]]. fold b d target od kap st0 p0 st in F, I.
  assert (NE : st <> st0). { intros X. rewrite X, start_cond in F. discriminate. }
  destruct (last_step anchor sides n cells ph input G r Hr NE) as [prev [_ [C [Ip S]]]]. fold b d target od kap st0 p0 st in C, Ip, S.
  assert (A : ~ absorbing b d target od prev).
  { intros A. destruct (step_absorbing b d target od kap p0 (top_Hod cells ph) (top_Hkap anchor sides n cells ph input G)
                 (top_Hbig anchor sides n cells ph input G) prev Ip C A) as [_ [X _]]. rewrite <- S in X. lra. }
  destruct (step_moving b d target od kap p0 (top_Hcs anchor sides n cells ph input G) (top_Hod cells ph)
                 (top_Hbig anchor sides n cells ph input G) prev Ip C A) as [_ [_ [_ [_ Fa]]]].
  rewrite <- S in Fa. destruct (Fa a) as [FM FN]. clear Fa.
  apply (cond_spec b target) in C. destruct C as [_ Cin]. specialize (Cin a). cbn [b_n b make_block] in Cin.
  pose proof (g_sides _ _ _ _ _ _ G a) as Hs. pose proof (g_n _ _ _ _ _ _ G a) as Hn.
  destruct (block_axis (vg a sides) (ig a n) Hs Hn) as [Hcs [_ Hncs]].
  pose proof (top_cs anchor sides n a) as Ecs. fold b in Ecs. rewrite <- Ecs in Hcs, Hncs.
  set (cs := vg a (b_cs b)) in *. set (i := ig a (m_idx prev)) in *. set (na := ig a n) in *.
  assert (Hi0 : 0 <= IZR i) by (apply (IZR_le 0); lia).
  assert (Hi1 : IZR i + 1 <= IZR na) by (rewrite <- (plus_IZR i 1); apply IZR_le; lia).
  pose proof (inv_cell _ _ _ _ _ _ I a) as Cell. unfold lo, hi in Cell. fold cs in Cell.
  destruct (Req_EM_T (vg a (walls ROps b d (invdR d) prev)) (lmin_of ROps (walls ROps b d (invdR d) prev))) as [M|NM].
  - destruct (FM M) as [NZ [Ei Ep]]. unfold hi, lo in Ep. fold cs i in Ep, Ei.
    destruct (Rltb 0 (vg a d)) eqn:Sg.
    + apply Rltb_true in Sg. destruct (Z.eq_dec (i + 1) na) as [Y|N].
      * left. split. lia. split. exact Sg. rewrite Ep. rewrite <- Hncs. rewrite <- Y. rewrite plus_IZR. ring.
      * right; right. assert (Hi2 : IZR i + 1 <= IZR na - 1) by (rewrite <- (plus_IZR i 1), <- (minus_IZR na 1); apply IZR_le; lia).
        split. lia. split. intros _. rewrite Ep. nra. split. intros; lra. rewrite Ep. split; nra.
    + apply Rltb_false in Sg. assert (Dn : vg a d < 0) by lra. destruct (Z.eq_dec i 0) as [Y|N].
      * right; left. split. lia. split. exact Dn. rewrite Ep, Y. ring.
      * right; right. assert (Hi2 : 1 <= IZR i) by (apply (IZR_le 1); lia).
        split. lia. split. intros; lra. split. intros _. rewrite Ep. nra. rewrite Ep. split; nra.
  - destruct (FN NM) as [Ei [Fp [Fn _]]]. unfold hi, lo in Fp, Fn. fold cs i in Fp, Fn, Ei.
    right; right. split. lia. rewrite Ei in Cell. fold i in Cell.
    split. intros Dp. specialize (Fp Dp). nra. split. intros Dn. specialize (Fn Dn). nra. split; nra.
Qed.

(* the whole statement: S = total credited length; per axis, in terms of the straight line
   start + s * d: either the index left the range upward, the direction is positive and the
   line is on the upper plane at s = S; or downward, negative, on the lower plane; or the index
   is in range and the line has not yet reached that axis' exit plane at s = S (and is inside
   the slab).  Some axis left.  The returned code is the table entry of that pattern. *)
Lemma exit_is_geometric_thm :
  let S := sumlen (r_vis r) in
  let srel := start_rel anchor sides ph input in
  0 <= S /\
  (forall a,
     (ig a (m_idx st) = ig a n /\ 0 < vg a d /\ vg a srel + S * vg a d = vg a sides) \/
     (ig a (m_idx st) = (-1)%Z /\ vg a d < 0 /\ vg a srel + S * vg a d = 0) \/
     ((0 <= ig a (m_idx st) < ig a n)%Z /\ (0 < vg a d -> vg a srel + S * vg a d < vg a sides) /\
      (vg a d < 0 -> 0 < vg a srel + S * vg a d) /\ 0 <= vg a srel + S * vg a d <= vg a sides)) /\
  (forall a, vg a (r_pos r) = vg a srel + S * vg a d + vg a anchor) /\
  (exists a, ~ (0 <= ig a (m_idx st) < ig a n)%Z) /\
  decode (r_out r) = Some (exit_sign (ix n) (ix (m_idx st)), exit_sign (iy n) (iy (m_idx st)), exit_sign (iz n) (iz (m_idx st))).
Proof.
  intros S srel.
  destruct (final_position anchor sides n cells ph input G r Hr) as [P [_ [S0 _]]].
  destruct (res_facts anchor sides n cells ph input G r Hr) as [_ [_ [F4 [_ [_ [I X]]]]]]. fold b d target od kap st0 p0 st in I, X.
  assert (E : forall a, vg a (m_pos st) = vg a srel + S * vg a d).
  { intros a. rewrite (inv_pos _ _ _ _ _ _ I a). unfold p0, st0. rewrite (p0_srel anchor sides n cells ph input G a).
    unfold S, srel. rewrite F4, sumlen_rev. fold st. ring. }
  split. exact S0. split; [|split; [|split]].
  - intros a. rewrite <- E. apply exit_axis.
  - intros a. rewrite P. unfold S, srel, d. ring.
  - destruct (not_inside_when_left anchor sides n cells ph input G r Hr left_tau) as [_ N]. fold st in N.
    destruct (Z_lt_le_dec (ix (m_idx st)) 0); [exists AX; cbn [ig]; lia|].
    destruct (Z_lt_le_dec (ix (m_idx st)) (ix n)); [|exists AX; cbn [ig]; lia].
    destruct (Z_lt_le_dec (iy (m_idx st)) 0); [exists AY; cbn [ig]; lia|].
    destruct (Z_lt_le_dec (iy (m_idx st)) (iy n)); [|exists AY; cbn [ig]; lia].
    destruct (Z_lt_le_dec (iz (m_idx st)) 0); [exists AZ; cbn [ig]; lia|].
    destruct (Z_lt_le_dec (iz (m_idx st)) (iz n)); [|exists AZ; cbn [ig]; lia].
    exfalso. assert (is_inside n (m_idx st) = true) by (apply is_inside_spec; intros a; destruct a; cbn [ig]; lia). congruence.
  - destruct X as [[X1 _]|[_ [_ D]]]. pose proof left_tau. lra. exact D.
Qed.

(* consequence: up to s = S the line is inside the closed block, after S it is outside *)
Lemma first_exit_thm :
  let S := sumlen (r_vis r) in
  let srel := start_rel anchor sides ph input in
  (forall s a, 0 <= s <= S -> 0 <= vg a srel + s * vg a d <= vg a sides) /\
  (forall s, S < s -> exists a, vg a srel + s * vg a d < 0 \/ vg a sides < vg a srel + s * vg a d).
Proof.
  intros S srel. destruct exit_is_geometric_thm as [S0 [A [_ [[a0 Out] _]]]]. fold S srel in S0, A.
  assert (In0 : forall a, 0 <= vg a srel <= vg a sides).
  { intros a. pose proof (g_start _ _ _ _ _ _ G a) as Hs. pose proof (g_sides _ _ _ _ _ _ G a) as Hp.
    assert (E : vg a srel = match kg a (kinds_of input) with
                            | KCompute => vg a (p_pos ph) - vg a anchor | KLow => 0 | KHigh => vg a sides end)
      by (destruct a; reflexivity).
    rewrite E. destruct (kg a (kinds_of input)); [apply Hs; reflexivity | lra | lra]. }
  split.
  - intros s a Hs. specialize (In0 a).
    assert (Fin : 0 <= vg a srel + S * vg a d <= vg a sides) by (destruct (A a) as [[_ [_ E]]|[[_ [_ E]]|[_ [_ [_ E]]]]]; lra).
    destruct (Rle_dec 0 (vg a d)); split; nra.
  - intros s Hs. exists a0. destruct (A a0) as [[_ [Dp E]]|[[_ [Dn E]]|[In _]]].
    + right. nra.
    + left. nra.
    + contradiction.
Qed.

End Geometry.

(* ---------------------------------------------------------------------------
   estimators *)
Definition len_in (c : Z) (vis : list (Z * R)) : R :=
  fold_right (fun v s => if (c =? fst v)%Z then snd v + s else s) 0 vis.

Lemma len_in_cons c v vis : len_in c (v :: vis) = if (c =? fst v)%Z then snd v + len_in c vis else len_in c vis.
Proof. reflexivity. Qed.

Lemma nth_map_scale k L w (sg : list R) : nth k (map (fun s => L * s * w) sg) 0 = L * nth k sg 0 * w.
Proof. revert k. induction sg; intros k; destruct k; cbn [map nth]; try ring. apply IHsg. Qed.

Lemma map2_length_eq (f : R -> R -> R) (a c : list R) : length a = length c -> length (map2 f a c) = length c.
Proof. revert c. induction a; intros c H; destruct c; cbn in *; try discriminate; auto. Qed.

Lemma map2_add_twice (J sg : list R) (f g : R -> R) :
  map2 Rplus (map2 Rplus J (map f sg)) (map g sg) = map2 Rplus J (map (fun s => f s + g s) sg).
Proof. revert sg. induction J; intros sg; destruct sg; cbn [map map2]; try reflexivity. rewrite IHJ. f_equal. ring. Qed.

Lemma map2_add_zero (J sg : list R) (f : R -> R) : length J = length sg -> (forall s, f s = 0) ->
  map2 Rplus J (map f sg) = J.
Proof.
  intros H F. revert sg H. induction J; intros sg H; destruct sg; cbn in *; try discriminate; try reflexivity.
  rewrite IHJ by lia. rewrite F. f_equal. ring.
Qed.

Lemma deposit1_spec ph (e : est R) L :
  e_J (deposit1 ROps ph e L) = map2 Rplus (e_J e) (map (fun s => L * s * p_weight ph) (p_sigma ph)) /\
  e_hH (deposit1 ROps ph e L) = e_hH e + p_weight ph * nth 0 (p_sigma ph) 0 * L * (p_energy ph - IZR 3288000000000000) /\
  e_hHe (deposit1 ROps ph e L) = e_hHe e + p_weight ph * nth 1 (p_sigma ph) 0 * L * (p_energy ph - IZR 5948000000000000).
Proof.
  unfold deposit1; rsimp. cbn [e_J e_hH e_hHe]. split. reflexivity.
  split; rewrite nth_map_scale; ring.
Qed.

Lemma estimators_exact_thm (ph : photon R) : forall (vis : list (Z * R)) (store : Z -> est R) (c : Z),
  let fin := deposit_all ROps ph store vis c in
  e_hH fin = e_hH (store c) + p_weight ph * nth 0 (p_sigma ph) 0 * len_in c vis * (p_energy ph - IZR 3288000000000000) /\
  e_hHe fin = e_hHe (store c) + p_weight ph * nth 1 (p_sigma ph) 0 * len_in c vis * (p_energy ph - IZR 5948000000000000) /\
  (length (e_J (store c)) = length (p_sigma ph) ->
     e_J fin = map2 Rplus (e_J (store c)) (map (fun s => p_weight ph * s * len_in c vis) (p_sigma ph))) /\
  ((forall v, In v vis -> fst v <> c) -> fin = store c).
Proof.
  induction vis as [|v vis IH]; intros store c fin.
  - unfold fin, deposit_all. cbn [fold_left]. change (len_in c []) with 0. split. ring. split. ring. split.
    + intros H. symmetry. apply map2_add_zero. exact H. intros; ring.
    + reflexivity.
  - unfold fin, deposit_all. cbn [fold_left]. fold (deposit_all ROps ph (deposit ROps ph store v) vis).
    destruct (IH (deposit ROps ph store v) c) as [H1 [H2 [H3 H4]]]. cbv zeta in H1, H2, H3, H4. clear IH.
    rewrite len_in_cons.
    assert (Dc : deposit ROps ph store v c = if (c =? fst v)%Z then deposit1 ROps ph (store c) (snd v) else store c) by reflexivity.
    rewrite Dc in H1, H2, H3, H4. clear Dc.
    destruct (c =? fst v)%Z eqn:E.
    + destruct (deposit1_spec ph (store c) (snd v)) as [D1 [D2 D3]].
      split. rewrite H1, D2. ring. split. rewrite H2, D3. ring. split.
      * intros HL. rewrite H3.
        -- rewrite D1, map2_add_twice.
           rewrite (map_ext (fun s => snd v * s * p_weight ph + p_weight ph * s * len_in c vis)
                            (fun s => p_weight ph * s * (snd v + len_in c vis))) by (intros; ring).
           reflexivity.
        -- rewrite D1. rewrite map2_length_eq by (rewrite map_length; exact HL). apply map_length.
      * intros HN. exfalso. apply (HN v). left; reflexivity. apply Z.eqb_eq in E. symmetry; exact E.
    + split. exact H1. split. exact H2. split. exact H3.
      intros HN. apply H4. intros v' Hv'. apply HN. right; exact Hv'.
Qed.

(* ---------------------------------------------------------------------------
   satisfiability of the premises, and the refuted variant *)
Definition ex_n : ivec := mkI 2 2 2.
Definition ex_anchor : vec R := mkV 0 0 0.
Definition ex_sides : vec R := mkV 2 2 2.
Definition ex_cells (c : Z) : cellc R := mkC 1 (1 / 2) 0.
(* start on the corner (0,0,0), classified CORNER_NNN, along the diagonal; target 100 > total depth *)
Definition ex_corner : photon R := mkP (mkV 0 0 0) (mkV 1 1 1) 100 [1; 1] (IZR 4000000000000000) 1.
(* start inside, axis aligned *)
Definition ex_axis : photon R := mkP (mkV (1 / 2) (1 / 2) (1 / 2)) (mkV 1 0 0) (1 / 4) [1; 1] (IZR 4000000000000000) 1.

Lemma RDBLMAX_gt2 : 2 < RDBLMAX.
Proof. unfold RDBLMAX. apply (IZR_lt 2). reflexivity. Qed.

Example good_corner : good ex_anchor ex_sides ex_n ex_cells ex_corner CORNER_NNN.
Proof.
  constructor.
  - intros a; destruct a; cbn; lia.
  - intros a; destruct a; cbn; lra.
  - unfold CORNER_NNN; lia.
  - intros a; destruct a; vm_compute; discriminate.
  - intros c; cbn; lra.
  - cbn; lra.
  - cbn; lra.
  - exists AX. cbn [vg ex_corner p_dir ex_sides ex_n ig vx ix]. pose proof RDBLMAX_gt2. rewrite Rabs_R1. split; lra.
Qed.

Example good_axis_aligned : good ex_anchor ex_sides ex_n ex_cells ex_axis INSIDE.
Proof.
  constructor.
  - intros a; destruct a; cbn; lia.
  - intros a; destruct a; cbn; lra.
  - unfold INSIDE; lia.
  - intros a _; destruct a; cbn; lra.
  - intros c; cbn; lra.
  - cbn; lra.
  - cbn; lra.
  - exists AX. cbn [vg ex_axis p_dir ex_sides ex_n ig vx ix]. pose proof RDBLMAX_gt2. rewrite Rabs_R1. split; lra.
Qed.

(* ---------------------------------------------------------------------------
   statements with all parameters explicit *)
Lemma fuel_suffices_thm anchor sides n cells ph input : good anchor sides n cells ph input ->
  exists r, interact ROps (make_block ROps anchor sides n) cells ph input = Ok r.
Proof. intros G. destruct (interact_result anchor sides n cells ph input G) as [st [r [E _]]]. exists r; exact E. Qed.

Lemma march_invariant_thm anchor sides n cells ph input : good anchor sides n cells ph input ->
  forall x,
    reach (make_block ROps anchor sides n) (p_dir ph) (p_tau ph) (optical_depth_of ROps cells ph)
          (start_state anchor sides n ph input) x ->
    Inv (make_block ROps anchor sides n) (p_dir ph) (p_tau ph) (kappa cells ph)
        (m_pos (start_state anchor sides n ph input)) x.
Proof.
  intros G x Rx.
  apply (reach_inv _ _ _ _ _ _ (top_Hcs anchor sides n cells ph input G) (top_Hod cells ph)
                   (top_Hkap anchor sides n cells ph input G) (top_Hbig anchor sides n cells ph input G)
                   (start_state anchor sides n ph input) x).
  apply (start_inv anchor sides n cells ph input G). exact Rx.
Qed.

Lemma final_reached_thm anchor sides n cells ph input r : good anchor sides n cells ph input ->
  interact ROps (make_block ROps anchor sides n) cells ph input = Ok r ->
  reach (make_block ROps anchor sides n) (p_dir ph) (p_tau ph) (optical_depth_of ROps cells ph)
        (start_state anchor sides n ph input) (r_fin r) /\
  cond ROps (make_block ROps anchor sides n) (p_tau ph) (r_fin r) = false /\
  (forall a, vg a (m_pos (start_state anchor sides n ph input)) = vg a (start_rel anchor sides ph input)) /\
  m_tau (start_state anchor sides n ph input) = 0 /\ m_vis (start_state anchor sides n ph input) = [].
Proof.
  intros G Hr. destruct (res_facts anchor sides n cells ph input G r Hr) as [_ [_ [_ [R [F _]]]]].
  split. exact R. split. exact F. split. intros a. apply (p0_srel anchor sides n cells ph input G). split; reflexivity.
Qed.

(* ---------------------------------------------------------------------------
   executable examples on the binary64 instance (the values are exactly representable) *)
From Coq Require Import Floats.
Local Open Scope float_scope.
Definition fx_block2 : block float := f_make_block (mkV 0 0 0) (mkV 2 2 2) (mkI 2 2 2).
Definition fx_block1 : block float := f_make_block (mkV 0 0 0) (mkV 1 1 1) (mkI 1 1 1).
Definition fx_cells (c : Z) : cellc float := mkC 1 0.5 0.
Definition fx_r3 : float := 0x1.279a74590331cp-1.   (* 1/sqrt 3 rounded *)

(* start on the corner (0,0,0) of a 2x2x2 block, along the diagonal, target 100 larger than the
   block's total depth: crosses cells 0 and 7 through the central corner and leaves through the
   opposite corner with optical depth left *)
Example f_corner_to_corner :
  exists r, f_interact fx_block2 fx_cells (mkP (mkV 0 0 0) (mkV fx_r3 fx_r3 fx_r3) 100 [1; 1] 4e15 1) CORNER_NNN = Ok r /\
            r_out r = CORNER_PPP /\ map fst (r_vis r) = [0; 7]%Z /\ r_pos r = mkV 2 2 2 /\ PrimFloat.ltb 0 (r_tau r) = true.
Proof. vm_compute. eexists. repeat split; reflexivity. Qed.

(* axis-aligned direction, target reached exactly on a cell wall: stops INSIDE on the wall *)
Example f_axis_aligned_exact_target :
  exists r, f_interact fx_block2 fx_cells (mkP (mkV 0.5 0.5 0.5) (mkV 1 0 0) 0.25 [1; 1] 4e15 1) INSIDE = Ok r /\
            r_out r = INSIDE /\ r_vis r = [(0%Z, 0.5)] /\ r_pos r = mkV 1 0.5 0.5 /\ r_tau r = 0.
Proof. vm_compute. eexists. repeat split; reflexivity. Qed.

(* the statement "the packet leaves through the face the straight line really crosses" WITHOUT
   the premise that an INSIDE start is strictly below the upper planes is false: a packet on the
   upper x plane moving INTO the block is handed out through FACE_X_P without any path *)
Lemma exit_upper_boundary_refuted_thm :
  exists b cells ph r, f_interact b cells ph INSIDE = Ok r /\
    PrimFloat.ltb (vx (p_dir ph)) 0 = true /\                       (* moving in -x *)
    PrimFloat.eqb (vx (p_pos ph)) 1 = true /\ b = fx_block1 /\       (* on the plane x = 1 of the unit block *)
    r_out r = FACE_X_P /\ r_vis r = [] /\ r_pos r = p_pos ph.
Proof.
  exists fx_block1, fx_cells, (mkP (mkV 1 0.5 0.5) (mkV (-1) 0 0) 1 [1; 1] 4e15 1).
  vm_compute. eexists. repeat split; reflexivity.
Qed.
