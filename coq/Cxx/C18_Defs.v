(* C18: executable model of the atomic data functions and of the tabulated spectrum samplers.

   One model, two number systems.  Every formula below is written ONCE over an abstract
   record of operations [ops F] in exactly the order of evaluation of the C++ source, and is
   used twice:
     - with F = R  (Cxx/C18_Proofs.v: exact reals, pow = Rpower, for the theorems),
     - with F = PrimFloat binary64 (end of this file; sqrt and the four operations are the
       IEEE ones of Coq's kernel, pow/exp/log10 are supplied by the driver as the libm
       functions), which is what is run against the real classes bit for bit.
   Numbers are never written as floats: C++ literals are transcribed as exact decimals
   [k m e] = m*10^e, table entries come from the generated C18_Gen.v as exact decimals too;
   the float instance converts them with a correctly rounded decimal->binary64 conversion
   ([dec2f], i.e. what strtod / the compiler does), the real instance with [dec2R].

   Modelled code (src/): VernerCrossSections.cpp (constructor conversions, get_cross_section_verner,
   get_cross_section), VernerRecombinationRates.cpp (constructor inversion of rnew[2],rnew[3],
   get_recombination_rate_verner, get_recombination_rate), ChargeTransferRates.cpp (three rate
   functions), Utilities.hpp (locate), and the sampling formulas of PlanckPhotonSourceSpectrum,
   HeliumTwoPhotonContinuumSpectrum, HydrogenLymanContinuumSpectrum, HeliumLymanContinuumSpectrum. *)
From Coq Require Import ZArith List Bool Floats Uint63 Arith.
From CMI Require Import Cxx.C18_Dec Cxx.C18_Gen.
Import ListNotations.

Record ops (F : Type) := mkOps {
  o_add : F -> F -> F; o_sub : F -> F -> F; o_mul : F -> F -> F; o_div : F -> F -> F;
  o_neg : F -> F; o_sqrt : F -> F; o_exp : F -> F; o_log10 : F -> F; o_pow : F -> F -> F;
  o_lt : F -> F -> bool;      (* a < b  *)
  o_le : F -> F -> bool;      (* a <= b *)
  o_eqb : F -> F -> bool;     (* a == b *)
  o_dec : dec -> F }.
Arguments o_add {F}. Arguments o_sub {F}. Arguments o_mul {F}. Arguments o_div {F}. Arguments o_neg {F}.
Arguments o_sqrt {F}. Arguments o_exp {F}. Arguments o_log10 {F}. Arguments o_pow {F}.
Arguments o_lt {F}. Arguments o_le {F}. Arguments o_eqb {F}. Arguments o_dec {F}.

(* the 14 ions tracked by the default build, in the order of enum IonName *)
Inductive ion := H_n | He_n | C_p1 | C_p2 | N_n | N_p1 | N_p2 | O_n | O_p1 | Ne_n | Ne_p1 | S_p1 | S_p2 | S_p3.
Definition all_ions : list ion := [H_n; He_n; C_p1; C_p2; N_n; N_p1; N_p2; O_n; O_p1; Ne_n; Ne_p1; S_p1; S_p2; S_p3].

Definition d0 : dec := D 0 0.

(* ---------------------------------------------------------------------------
   table access (pure data, no arithmetic) *)
Definition tab3 (t : list (list (list dec))) (c i j : nat) : dec := nth j (nth i (nth c t []) []) d0.
Definition tab2 (t : list (list dec)) (c j : nat) : dec := nth j (nth c t []) d0.

(* shell number of VernerCrossSections' constructor from the spectroscopic (n,l):
   1s 2s 2p 3s 3p 3d 4s -> 1..7   (an independent formulation of the C++ if-cascade) *)
Definition shell_of (n l : nat) : nat :=
  match n, l with
  | 1, 0 => 1 | 2, 0 => 2 | 2, 1 => 3 | 3, 0 => 4 | 3, 1 => 5 | 3, 2 => 6 | 4, 0 => 7
  | _, _ => 0
  end%nat.

(* the LAST matching row wins, like repeated assignment while reading the file *)
Fixpoint find_last {A : Type} (f : A -> bool) (l : list A) : option A :=
  match l with
  | [] => None
  | x :: r => match find_last f r with Some y => Some y | None => if f x then Some x else None end
  end.
Definition findA (z n s : nat) : option rowA :=
  find_last (fun r => (ra_Z r =? z)%nat && (ra_N r =? n)%nat && (shell_of (ra_n r) (ra_l r) =? s)%nat) gen_A.
Definition findB (z n : nat) : option rowB :=
  find_last (fun r => (rb_Z r =? z)%nat && (rb_N r =? n)%nat) gen_B.
Definition findC (n : nat) : option rowC := find_last (fun r => (rc_N r =? n)%nat) gen_C.

(* which inner-shell edge the 1996 fit stops at *)
Inductive einn_t := EZero | EHuge | ERow (r : rowA).

(* everything get_cross_section_verner(nz, ne, is, .) reads, resolved on the tables *)
Record shellsel := mkSel { ss_is : nat; ss_nout : nat; ss_nint : nat; ss_einn : einn_t; ss_A : rowA; ss_B : option rowB }.

Definition resolve (nz ne is : nat) : option shellsel :=
  match findA nz ne is, findC ne with
  | Some a, Some c =>
    let nout0 := rc_Ntot c in
    let nout1 := if (nz =? ne)%nat && (18 <? nz)%nat then 7%nat else nout0 in
    let nout := if (nz =? ne + 1)%nat && ((nz =? 20) || (nz =? 21) || (nz =? 22) || (nz =? 25) || (nz =? 26))%nat then 7%nat else nout1 in
    let nint := rc_Ninn c in
    let zero_edge := ((nz =? 15) || (nz =? 17) || (nz =? 19) || ((20 <? nz) && negb (nz =? 26)))%nat in
    let oe := if zero_edge then Some EZero
              else if (ne <? 3)%nat then Some EHuge
              else match findA nz ne nint with Some r => Some (ERow r) | None => None end in
    match oe with
    | None => None
    | Some e =>
      (* the 1996 table must have the row if that branch can be taken *)
      match findB nz ne with
      | Some b => Some (mkSel is nout nint e a (Some b))
      | None => match e with EZero => Some (mkSel is nout nint e a None) | _ => None end
      end
    end
  | _, _ => None
  end.

(* get_cross_section: which (nz, ne, is) are summed for each ion, first summand first *)
Definition ion_shells (i : ion) : list (nat * nat * nat) :=
  match i with
  | H_n => [(1,1,1)] | He_n => [(2,2,1)]
  | C_p1 => [(6,5,3); (6,5,2)] | C_p2 => [(6,4,2)]
  | N_n => [(7,7,3); (7,7,2)] | N_p1 => [(7,6,3); (7,6,2)] | N_p2 => [(7,5,3)]
  | O_n => [(8,8,3); (8,8,2)] | O_p1 => [(8,7,3); (8,7,2)]
  | Ne_n => [(10,10,3); (10,10,2)] | Ne_p1 => [(10,9,3)]
  | S_p1 => [(16,15,5); (16,15,4)] | S_p2 => [(16,14,5); (16,14,4)] | S_p3 => [(16,13,5)]
  end%nat.

Definition ion_sels (i : ion) : list (option shellsel) := map (fun t => match t with (z, n, s) => resolve z n s end) (ion_shells i).

(* recombination: which formula get_recombination_rate_verner(iz, in, .) evaluates, with its raw table entries *)
Inductive rrkind :=
| RRvf (a b t0 t1 : dec)     (* rnew[0..3][iz-1][in-1] as in the file (before the constructor inverts 2 and 3) *)
| RRfe (a b c : dec)         (* fe[0..2][in-1] *)
| RRpl (a b : dec).          (* rrec[0..1][iz-1][in-1] *)

Definition rr_kind (iz inn : nat) : rrkind :=
  if ((inn <=? 3) || (inn =? 11) || ((5 <? iz) && (iz <? 9)) || (iz =? 10) || ((iz =? 26) && (11 <? inn)))%nat
  then RRvf (tab3 gen_rnew 0 (iz-1) (inn-1)) (tab3 gen_rnew 1 (iz-1) (inn-1)) (tab3 gen_rnew 2 (iz-1) (inn-1)) (tab3 gen_rnew 3 (iz-1) (inn-1))
  else if ((iz =? 26) && (inn <=? 13))%nat
       then RRfe (tab2 gen_fe 0 (inn-1)) (tab2 gen_fe 1 (inn-1)) (tab2 gen_fe 2 (inn-1))
       else RRpl (tab3 gen_rrec 0 (iz-1) (inn-1)) (tab3 gen_rrec 1 (iz-1) (inn-1)).

(* charge transfer: the shapes that occur in ChargeTransferRates.cpp, t clamped to [lo,hi] first *)
Inductive ctform :=
| CTzero                               (* return 0. *)
| CTconst (a : dec)                    (* return a *)
| CTsq (a lo hi : dec)                 (* a * t * t *)
| CTpow (a b lo hi : dec)              (* a * pow(t,b) *)
| CTexp (a b c d lo hi : dec)          (* a * pow(t,b) * (1. + c * exp(d * t))          (c, d signed) *)
| CTexp2 (a b c d e lo hi : dec).      (* ... * exp(e / t) *)

Inductive ctkind := CT_rec_H | CT_ion_H | CT_rec_He.

(* literal transcription of the three switch statements; None = the function aborts (cmac_error) *)
Definition ct_form (kd : ctkind) (i : ion) : option ctform :=
  match kd, i with
  | CT_rec_H, H_n => None
  | CT_rec_H, He_n => Some (CTexp (D 747 (-23)) (D 206 (-2)) (D 993 (-2)) (D (-389) (-2)) (D 6 (-1)) (D 10 0))
  | CT_rec_H, C_p1 => Some (CTexp (D 167 (-21)) (D 279 (-2)) (D 30474 (-2)) (D (-407) (-2)) (D 5 (-1)) (D 5 0))
  | CT_rec_H, C_p2 => Some (CTexp (D 325 (-17)) (D 21 (-2)) (D 19 (-2)) (D (-329) (-2)) (D 1 (-1)) (D 10 0))
  | CT_rec_H, N_n => Some (CTexp (D 101 (-20)) (D (-29) (-2)) (D (-92) (-2)) (D (-838) (-2)) (D 1 (-2)) (D 5 0))
  | CT_rec_H, N_p1 => Some (CTexp (D 305 (-18)) (D 6 (-1)) (D 265 (-2)) (D (-93) (-2)) (D 1 (-1)) (D 10 0))
  | CT_rec_H, N_p2 => Some (CTexp (D 454 (-17)) (D 57 (-2)) (D (-65) (-2)) (D (-89) (-2)) (D 1 (-3)) (D 10 0))
  | CT_rec_H, O_n => Some (CTexp (D 104 (-17)) (D 315 (-4)) (D (-61) (-2)) (D (-973) (-2)) (D 1 (-3)) (D 1 0))
  | CT_rec_H, O_p1 => Some (CTexp (D 104 (-17)) (D 27 (-2)) (D 202 (-2)) (D (-592) (-2)) (D 1 (-2)) (D 10 0))
  | CT_rec_H, Ne_n => Some CTzero
  | CT_rec_H, Ne_p1 => Some (CTconst (D 1 (-20)))
  | CT_rec_H, S_p1 => Some (CTconst (D 1 (-20)))
  | CT_rec_H, S_p2 => Some (CTexp (D 229 (-17)) (D 402 (-4)) (D 159 (-2)) (D (-606) (-2)) (D 1 (-1)) (D 3 0))
  | CT_rec_H, S_p3 => Some (CTexp (D 644 (-17)) (D 13 (-2)) (D 269 (-2)) (D (-569) (-2)) (D 1 (-1)) (D 3 0))
  | CT_ion_H, H_n => None
  | CT_ion_H, N_n => Some (CTexp2 (D 455 (-20)) (D (-29) (-2)) (D (-92) (-2)) (D (-838) (-2)) (D (-1086) (-3)) (D 1 (-2)) (D 5 0))
  | CT_ion_H, O_n => Some (CTexp2 (D 74 (-18)) (D 47 (-2)) (D 2437 (-2)) (D (-74) (-2)) (D (-23) (-3)) (D 1 (-3)) (D 1 0))
  | CT_ion_H, _ => Some CTzero
  | CT_rec_He, H_n => Some CTzero
  | CT_rec_He, He_n => None
  | CT_rec_He, C_p1 => Some CTzero
  | CT_rec_He, C_p2 => Some (CTsq (D 46 (-18)) (D 1 (-1)) (D 3 0))
  | CT_rec_He, N_n => Some CTzero
  | CT_rec_He, N_p1 => Some (CTexp (D 33 (-17)) (D 29 (-2)) (D 13 (-1)) (D (-45) (-1)) (D 1 (-1)) (D 3 0))
  | CT_rec_He, N_p2 => Some (CTconst (D 15 (-17)))
  | CT_rec_He, O_n => Some CTzero
  | CT_rec_He, O_p1 => Some (CTpow (D 2 (-16)) (D 95 (-2)) (D 5 (-1)) (D 5 0))
  | CT_rec_He, Ne_n => Some CTzero
  | CT_rec_He, Ne_p1 => Some (CTconst (D 1 (-20)))
  | CT_rec_He, S_p1 => Some CTzero
  | CT_rec_He, S_p2 => Some (CTpow (D 11 (-16)) (D 56 (-2)) (D 1 (-1)) (D 3 0))
  | CT_rec_He, S_p3 => Some (CTexp (D 76 (-20)) (D 32 (-2)) (D 34 (-1)) (D (-525) (-2)) (D 1 (-1)) (D 3 0))
  end.

(* the reactions IonizationStateCalculator::compute_ionization_states_metals evaluates *)
Definition balance_reactions : list (ctkind * ion) :=
  [(CT_rec_H, C_p2); (CT_rec_He, C_p2);
   (CT_ion_H, N_n); (CT_rec_H, N_n); (CT_rec_H, N_p1); (CT_rec_He, N_p1); (CT_rec_H, N_p2); (CT_rec_He, N_p2);
   (CT_ion_H, O_n); (CT_rec_H, O_n); (CT_rec_H, O_p1); (CT_rec_He, O_p1);
   (CT_rec_H, Ne_p1); (CT_rec_He, Ne_p1);
   (CT_rec_H, S_p1); (CT_rec_H, S_p2); (CT_rec_He, S_p2); (CT_rec_H, S_p3); (CT_rec_He, S_p3)].

(* ---------------------------------------------------------------------------
   Utilities::locate, on the comparison  gt jm := (x > xarr[jm]).
   None = the C++ loop would not terminate within the fuel. *)
Fixpoint locate_loop (gt : nat -> bool) (fuel jl ju : nat) : option nat :=
  match fuel with
  | O => None
  | S f => if (1 <? ju - jl)%nat
           then let jm := Nat.div2 (ju + jl) in
                if gt jm then locate_loop gt f jm ju else locate_loop gt f jl jm
           else Some jl
  end.

Definition locate (gt : nat -> bool) (n : nat) : option nat :=
  match locate_loop gt (S n) 0 n with
  | None => None
  | Some jl => Some (if (jl =? n - 1)%nat then (jl - 1)%nat else jl)
  end.

(* ===========================================================================
   arithmetic part, generic in the number system *)
Section Model.
Context {F : Type} (o : ops F).

Local Notation "x + y" := (o_add o x y).
Local Notation "x - y" := (o_sub o x y).
Local Notation "x * y" := (o_mul o x y).
Local Notation "x / y" := (o_div o x y).
Definition k (m e : Z) : F := o_dec o (D m e).
Definition cd (d : dec) : F := o_dec o d.
Definition one : F := k 1 0.
Definition zero : F := k 0 0.
Definition of_nat (n : nat) : F := k (Z.of_nat n) 0.
(* std::max(a,b) = (a < b) ? b : a      std::min(a,b) = (b < a) ? b : a *)
Definition fmax (a b : F) : F := if o_lt o a b then b else a.
Definition fmin (a b : F) : F := if o_lt o b a then b else a.

(* ---- VernerCrossSections --------------------------------------------------- *)
(* eV_to_Hz = PHYSICALCONSTANT_ELECTRONVOLT / PHYSICALCONSTANT_PLANCK *)
Definition eV_to_Hz : F := k 16021766208 (-29) / k 6626070040 (-43).

(* the seven stored numbers of a verner_A row, enum VernerDataA order *)
Record prepA := mkPA { pa_Plconst : F; pa_Eth : F; pa_E0inv : F; pa_s0 : F; pa_yainv : F; pa_P : F; pa_yw2 : F }.
Definition prep_A (r : rowA) : prepA :=
  mkPA (k 5 (-1) * cd (ra_P r) - k 55 (-1) - of_nat (ra_l r))
       (cd (ra_Eth r) * eV_to_Hz)
       (one / (cd (ra_E0 r) * eV_to_Hz))
       (k 1 (-22) * cd (ra_s0 r))
       (one / cd (ra_ya r))
       (cd (ra_P r))
       (cd (ra_yw r) * cd (ra_yw r)).

(* enum VernerDataB order *)
Record prepB := mkPB { pb_E0inv : F; pb_s0 : F; pb_yainv : F; pb_P : F; pb_yw2 : F; pb_y0 : F; pb_y12 : F }.
Definition prep_B (r : rowB) : prepB :=
  mkPB (one / (cd (rb_E0 r) * eV_to_Hz))
       (k 1 (-22) * cd (rb_s0 r))
       (one / cd (rb_ya r))
       (cd (rb_P r))
       (cd (rb_yw r) * cd (rb_yw r))
       (cd (rb_y0 r))
       (cd (rb_y1 r) * cd (rb_y1 r)).

Record prepS := mkPS { ps_is : nat; ps_nout : nat; ps_nint : nat; ps_einn : F; ps_A : prepA; ps_B : option prepB }.
Definition prep_sel (s : shellsel) : prepS :=
  mkPS (ss_is s) (ss_nout s) (ss_nint s)
       (match ss_einn s with EZero => zero | EHuge => k 1 30 | ERow r => pa_Eth (prep_A r) end)
       (prep_A (ss_A s))
       (match ss_B s with Some b => Some (prep_B b) | None => None end).

(* the two bases of std::pow in each fit, named so that theorems can speak about them *)
Definition fitA_y (p : prepA) (e : F) : F := e * pa_E0inv p.
Definition fitA_b2 (p : prepA) (e : F) : F := one + o_sqrt o (fitA_y p e * pa_yainv p).
Definition fit_A (p : prepA) (e : F) : F :=
  let y := fitA_y p e in
  let ym1 := y - one in
  let Fy := (ym1 * ym1 + pa_yw2 p) * o_pow o y (pa_Plconst p) * o_pow o (fitA_b2 p e) (o_neg o (pa_P p)) in
  pa_s0 p * Fy.

Definition fitB_x (p : prepB) (e : F) : F := e * pb_E0inv p - pb_y0 p.
Definition fitB_y (p : prepB) (e : F) : F := let x := fitB_x p e in o_sqrt o (x * x + pb_y12 p).
Definition fitB_b2 (p : prepB) (e : F) : F := one + o_sqrt o (fitB_y p e * pb_yainv p).
Definition fit_B (p : prepB) (e : F) : F :=
  let x := fitB_x p e in
  let y := fitB_y p e in
  let xm1 := x - one in
  let Fy := (xm1 * xm1 + pb_yw2 p) * o_pow o y (k 5 (-1) * pb_P p - k 55 (-1)) * o_pow o (fitB_b2 p e) (o_neg o (pb_P p)) in
  pb_s0 p * Fy.

(* get_cross_section_verner after the table look-ups; None only if the 1996 row is needed but absent *)
Definition xsec_prepped (p : prepS) (e : F) : option F :=
  if o_lt o e (pa_Eth (ps_A p)) then Some zero
  else if (ps_nout p <? ps_is p)%nat then Some zero
  else if (ps_is p <? ps_nout p)%nat && (ps_nint p <? ps_is p)%nat && o_lt o e (ps_einn p) then Some zero
  else if (ps_is p <=? ps_nint p)%nat || o_le o (ps_einn p) e then Some (fit_A (ps_A p) e)
  else match ps_B p with Some b => Some (fit_B b e) | None => None end.

Definition xsec_sel (s : shellsel) (e : F) : option F := xsec_prepped (prep_sel s) e.

(* get_cross_section: sum of the listed shells, first + second *)
Fixpoint sum_opt (l : list (option F)) : option F :=
  match l with
  | [] => Some zero
  | [x] => x
  | x :: r => match x, sum_opt r with Some a, Some b => Some (a + b) | _, _ => None end
  end.

Definition xsec_ion_prepped (ps : list (option prepS)) (e : F) : option F :=
  sum_opt (map (fun p => match p with Some p => xsec_prepped p e | None => None end) ps).
Definition prep_ion (i : ion) : list (option prepS) :=
  map (fun s => match s with Some s => Some (prep_sel s) | None => None end) (ion_sels i).
Definition xsec_ion (i : ion) (e : F) : option F := xsec_ion_prepped (prep_ion i) e.

(* ---- VernerRecombinationRates ------------------------------------------------ *)
(* constructor: if (x != 0.) x = 1. / x *)
Definition inv_nz (x : F) : F := if o_eqb o x zero then x else one / x.

Inductive rrprep := PPvf (a b c2 c3 : F) | PPfe (a b c : F) | PPpl (a b : F).
Definition rr_prep (kd : rrkind) : rrprep :=
  match kd with
  | RRvf a b t0 t1 => PPvf (cd a) (cd b) (inv_nz (cd t0)) (inv_nz (cd t1))
  | RRfe a b c => PPfe (cd a) (cd b) (cd c)
  | RRpl a b => PPpl (cd a) (cd b)
  end.

Definition rr_eval (p : rrprep) (T : F) : F :=
  match p with
  | PPvf a b c2 c3 =>
    let tt := o_sqrt o (T * c2) in
    a / (tt * o_pow o (tt + one) (one - b) * o_pow o (one + o_sqrt o (T * c3)) (one + b))
  | PPfe a b c =>
    let tt := T * k 1 (-4) in
    a * o_pow o tt (o_neg o b - c * o_log10 o tt)
  | PPpl a b =>
    let tt := T * k 1 (-4) in
    a * o_pow o tt (o_neg o b)
  end.

Definition rr_verner (iz inn : nat) (T : F) : F := rr_eval (rr_prep (rr_kind iz inn)) T.

(* which Verner entry get_recombination_rate adds the dielectronic term to *)
Definition rec_verner_of (i : ion) : option (nat * nat) :=
  match i with
  | H_n | He_n => None
  | C_p1 => Some (6,5) | C_p2 => Some (6,4) | N_n => Some (7,7) | N_p1 => Some (7,6) | N_p2 => Some (7,5)
  | O_n => Some (8,8) | O_p1 => Some (8,7) | Ne_n => Some (10,10) | Ne_p1 => Some (10,9)
  | S_p1 => Some (16,15) | S_p2 => Some (16,14) | S_p3 => Some (16,13)
  end%nat.

(* Nussbaumer & Storey shape:  1.e-12 * (a / T4 + b + c * T4 + d * T4 * T4) * pow(T4,-1.5) * exp(f / T4)
   is written out per ion below because the C++ differs per ion in which terms exist, in the
   sign placement and in T4_inv versus division. *)
Definition rec_before_scaling (i : ion) (V : F) (T : F) : F :=
  let e := o_exp o in
  let p := o_pow o in
  match i with
  | H_n =>
    let T1 := T / k 3148 (-3) in
    let T2 := T / k 7036 2 in
    k 7982 (-14) / (o_sqrt o T1 * p (one + o_sqrt o T1) (k 252 (-3)) * p (one + o_sqrt o T2) (k 1748 (-3)))
  | He_n =>
    let T1 := T / k 1554 (-2) in
    let T2 := T / k 3676 4 in
    k 3294 (-14) / (o_sqrt o T1 * p (one + o_sqrt o T1) (k 309 (-3)) * p (one + o_sqrt o T2) (k 1691 (-3)))
  | C_p1 =>
    let T4 := T * k 1 (-4) in
    let T4i := one / T4 in
    V + k 1 (-12) * (k 18267 (-4) * T4i + k 41012 (-4) + k 48443 (-4) * T4 + k 2261 (-4) * T4 * T4) * p T4 (k (-15) (-1)) * e (k (-5960) (-4) * T4i)
  | C_p2 =>
    let T4 := T * k 1 (-4) in
    let T4i := one / T4 in
    V + k 1 (-12) * (k 23196 (-4) * T4i + k 107328 (-4) + k 68830 (-4) * T4 - k 1824 (-4) * T4 * T4) * p T4 (k (-15) (-1)) * e (k (-4101) (-4) * T4i)
  | N_n =>
    let T4 := T * k 1 (-4) in
    V + k 1 (-12) * (k 6310 (-4) + k 1990 (-4) * T4 - k 197 (-4) * T4 * T4) * p T4 (k (-15) (-1)) * e (k (-4398) (-4) / T4)
  | N_p1 =>
    let T4 := T * k 1 (-4) in
    let T4i := one / T4 in
    V + k 1 (-12) * (k 320 (-4) * T4i - k 6624 (-4) + k 43191 (-4) * T4 + k 3 (-4) * T4 * T4) * p T4 (k (-15) (-1)) * e (k (-5946) (-4) * T4i)
  | N_p2 =>
    let T4 := T * k 1 (-4) in
    let T4i := one / T4 in
    V + k 1 (-12) * (k (-8806) (-4) * T4i + k 112406 (-4) + k 307066 (-4) * T4 - k 11721 (-4) * T4 * T4) * p T4 (k (-15) (-1)) * e (k (-6127) (-4) * T4i)
  | O_n =>
    let T4 := T * k 1 (-4) in
    let T4i := one / T4 in
    V + k 1 (-12) * (k (-1) (-4) * T4i + k 1 (-4) + k 956 (-4) * T4 + k 193 (-4) * T4 * T4) * p T4 (k (-15) (-1)) * e (k (-4106) (-4) * T4i)
  | O_p1 =>
    let T4 := T * k 1 (-4) in
    let T4i := one / T4 in
    V + k 1 (-12) * (k (-36) (-4) * T4i + k 7519 (-4) + k 15252 (-4) * T4 - k 838 (-4) * T4 * T4) * p T4 (k (-15) (-1)) * e (k (-2769) (-4) * T4i)
  | Ne_n => V
  | Ne_p1 =>
    let T4 := T * k 1 (-4) in
    let T4i := one / T4 in
    V + k 1 (-12) * (k 129 (-4) * T4i - k 1779 (-4) + k 9353 (-4) * T4 - k 682 (-4) * T4 * T4) * p T4 (k (-15) (-1)) * e (k (-4156) (-4) * T4i)
  | S_p1 =>
    let Te := T / k 116045221 (-4) in
    V + k 137 (-11) * e (k (-1495) (-2) / Te) * p Te (k (-15) (-1))
  | S_p2 =>
    let Te := T / k 116045221 (-4) in
    let Tei := one / Te in
    V + (k 80729 (-13) * e (k (-1756) (-2) * Tei) + k 11012 (-14) * e (k (-707) (-2) * Tei)) * p Te (k (-15) (-1))
  | S_p3 =>
    let Ti := one / T in
    V + (k 5817 (-10) * e (k (-3628) (-1) * Ti) + k 1391 (-9) * e (k (-1058) 0 * Ti) + k 1123 (-8) * e (k (-7160) 0 * Ti)
         + k 1521 (-7) * e (k (-326) 2 * Ti) + k 1875 (-6) * e (k (-1235) 2 * Ti) + k 2097 (-5) * e (k (-207) 3 * Ti)) * p T (k (-15) (-1))
  end.

(* rate *= 1.e-6; return std::max(0., rate) *)
Definition rec_finish (r : F) : F := fmax zero (r * k 1 (-6)).

(* the Verner entry prepared once (what the constructor leaves in _rnew/_rrec), then evaluated *)
Definition rec_prep (i : ion) : option rrprep :=
  match rec_verner_of i with Some (z, n) => Some (rr_prep (rr_kind z n)) | None => None end.
Definition rec_prepped (i : ion) (vp : option rrprep) (T : F) : F :=
  rec_finish (rec_before_scaling i (match vp with Some q => rr_eval q T | None => zero end) T).
Definition rec_rate (i : ion) (T : F) : F := rec_prepped i (rec_prep i) T.

(* ---- ChargeTransferRates ------------------------------------------------------- *)
Definition clamp (lo hi t : F) : F := fmin (fmax t lo) hi.

Definition ct_eval (f : ctform) (t : F) : F :=
  match f with
  | CTzero => zero
  | CTconst a => cd a
  | CTsq a lo hi => let s := clamp (cd lo) (cd hi) t in cd a * s * s
  | CTpow a b lo hi => let s := clamp (cd lo) (cd hi) t in cd a * o_pow o s (cd b)
  | CTexp a b c d lo hi =>
    let s := clamp (cd lo) (cd hi) t in
    cd a * o_pow o s (cd b) * (one + cd c * o_exp o (cd d * s))
  | CTexp2 a b c d e lo hi =>
    let s := clamp (cd lo) (cd hi) t in
    cd a * o_pow o s (cd b) * (one + cd c * o_exp o (cd d * s)) * o_exp o (cd e / s)
  end.

Definition ct_rate (kd : ctkind) (i : ion) (t : F) : option F :=
  match ct_form kd i with Some f => Some (ct_eval f t) | None => None end.

(* ---- samplers -------------------------------------------------------------------- *)
Definition at_ (l : list F) (i : nat) : F := nth i l zero.
Definition locate_in (x : F) (tab : list F) : option nat := locate (fun j => o_lt o (at_ tab j) x) (length tab).

(* HeliumTwoPhotonContinuumSpectrum::get_random_frequency *)
Definition sample_linear (freq cdf : list F) (x : F) : option F :=
  match locate_in x cdf with
  | None => None
  | Some i => Some (at_ freq i + (at_ freq (S i) - at_ freq i) * (x - at_ cdf i) / (at_ cdf (S i) - at_ cdf i))
  end.

(* PlanckPhotonSourceSpectrum::get_random_frequency *)
Definition sample_planck (cdf logcdf logfreq : list F) (x : F) : option F :=
  match locate_in x cdf with
  | None => None
  | Some i =>
    let lrf := (o_log10 o x - at_ logcdf i) / (at_ logcdf (S i) - at_ logcdf i) * (at_ logfreq (S i) - at_ logfreq i) + at_ logfreq i in
    Some (o_pow o (k 10 0) lrf * k 3288465385 6)
  end.

(* Hydrogen/HeliumLymanContinuumSpectrum::get_random_frequency *)
Definition lyman_core (freq temp : list F) (cdfs : list (list F)) (T x : F) : option F :=
  match locate_in T temp with
  | None => None
  | Some iT =>
    match locate_in x (nth iT cdfs []), locate_in x (nth (S iT) cdfs []) with
    | Some i1, Some i2 =>
      Some (at_ freq i1 + (T - at_ temp iT) * (at_ freq i2 - at_ freq i1) / (at_ temp (S iT) - at_ temp iT))
    | _, _ => None
    end
  end.
(* [clampT] = the source first does  temperature = max(temperature, _temperature[0]);
   temperature = min(temperature, _temperature[NUMTEMP-1])  (regenerated flag gen_lyman_clamps:
   false for the code as shipped, true once the D7 fix is in) *)
Definition sample_lyman (clampT : bool) (freq temp : list F) (cdfs : list (list F)) (T x : F) : option F :=
  let T' := if clampT then fmin (fmax T (at_ temp 0)) (at_ temp (length temp - 1)) else T in
  lyman_core freq temp cdfs T' x.

(* executable table conditions used by the range theorems (decided per run on the dumped tables) *)
Fixpoint strictly_increasing (l : list F) : bool :=
  match l with
  | a :: ((b :: _) as r) => o_lt o a b && strictly_increasing r
  | _ => true
  end.
Fixpoint weakly_increasing (l : list F) : bool :=
  match l with
  | a :: ((b :: _) as r) => o_le o a b && weakly_increasing r
  | _ => true
  end.

(* ---- MaskedPhotonSourceSpectrum ------------------------------------------------------------
   The constructor bins samples of the unmasked spectrum (bin i = [freq_i, freq_{i+1})), multiplies bin i by
   the mask, and then runs "make cumulative" and "normalize".  w is the list of masked bin values.
   masked_running acc w: entry i is acc + w_0 + ... + w_{i-1}, i.e. the weight BELOW freq_i, so the
   distribution is 0 at the lowest frequency; get_random_frequency is sample_linear on (freq, masked_cdf w). *)
Fixpoint masked_running (acc : F) (w : list F) : list F :=
  match w with
  | [] => []
  | x :: r => acc :: masked_running (acc + x) r
  end.
Definition masked_cdf (w : list F) : list F :=
  let c := masked_running zero w in
  let norm_inv := one / at_ c (length c - 1) in
  map (fun v => v * norm_inv) c.
(* the construction of the pinned commit: entry i also contained bin i itself (kept for the refutation) *)
Fixpoint masked_running_incl (acc : F) (w : list F) : list F :=
  match w with
  | [] => []
  | x :: r => (acc + x) :: masked_running_incl (acc + x) r
  end.
Definition masked_cdf_incl (w : list F) : list F :=
  let c := masked_running_incl zero w in
  let norm_inv := one / at_ c (length c - 1) in
  map (fun v => v * norm_inv) c.
End Model.

(* ===========================================================================
   binary64 instance *)

(* correctly rounded decimal -> binary64 for |m*10^e| in the normal range:
   q = floor(|m|*10^e * 2^s) with at least 55 significant bits plus a sticky bit, then one
   round-to-nearest-even to 53 bits; exact conversion of the 53-bit integer and exact scaling. *)
Local Open Scope Z_scope.
Definition pow10 (n : Z) : Z := Z.pow 10 n.

Definition round53 (q : Z) (sticky : bool) : Z * Z :=   (* (53-bit significand, shift) : value ~ sig * 2^shift *)
  let nb := Z.log2 q + 1 in
  let r := nb - 53 in
  if r <=? 0 then (q, 0)
  else let low := Z.land q (Z.ones r) in
       let half := Z.shiftl 1 (r - 1) in
       let hi := Z.shiftr q r in
       let up := if low <? half then false
                 else if half <? low then true
                 else if sticky then true else Z.odd hi in
       ((if up then hi + 1 else hi), r).

Definition dec2f_slow (m e : Z) : float :=
  if m =? 0 then 0%float else
  let a := Z.abs m in
  let '(p, q) := if e <? 0 then (a, pow10 (- e)) else (a * pow10 e, 1) in
  let s := Z.max 0 (57 + Z.log2 q - Z.log2 p) in
  let num := Z.shiftl p s in
  let '(n, rem) := Z.div_eucl num q in
  let sticky := negb (rem =? 0) in
  let '(sig, r) := round53 n sticky in
  let f := Z.ldexp (PrimFloat.of_uint63 (Uint63.of_Z sig)) (r - s) in
  if m <? 0 then PrimFloat.opp f else f.

(* when |m| < 2^53 and |e| <= 22 both m and 10^|e| are exact doubles (10^|e| as the exact product
   of two exactly converted integers when it does not fit 63 bits) and one IEEE operation gives the
   correctly rounded result: same value as [dec2f_slow], much cheaper *)
Definition dec2f (d : dec) : float :=
  let m := dm d in let e := de d in
  if (Z.abs m <? 9007199254740992) && (Z.abs e <=? 22) then
    let fm := PrimFloat.of_uint63 (Uint63.of_Z (Z.abs m)) in
    let fp := if Z.abs e <=? 18 then PrimFloat.of_uint63 (Uint63.of_Z (pow10 (Z.abs e)))
              else PrimFloat.mul (PrimFloat.of_uint63 (Uint63.of_Z (pow10 18))) (PrimFloat.of_uint63 (Uint63.of_Z (pow10 (Z.abs e - 18)))) in
    let f := if e <? 0 then PrimFloat.div fm fp else PrimFloat.mul fm fp in
    if m <? 0 then PrimFloat.opp f else f
  else dec2f_slow m e.

(* pow, exp, log10 are the C library's; the driver passes them in *)
Definition fops (fpow : float -> float -> float) (fexp flog10 : float -> float) : ops float :=
  mkOps float PrimFloat.add PrimFloat.sub PrimFloat.mul PrimFloat.div PrimFloat.opp PrimFloat.sqrt fexp flog10 fpow
        PrimFloat.ltb PrimFloat.leb PrimFloat.eqb dec2f.

(* every (nz, ne, shell) present in verner_A (for the table comparison and for evaluations beyond the tracked ions) *)
Definition all_A_keys : list (nat * nat * nat) := map (fun r => (ra_Z r, ra_N r, shell_of (ra_n r) (ra_l r))) gen_A.
Definition all_B_keys : list (nat * nat) := map (fun r => (rb_Z r, rb_N r)) gen_B.
Definition all_C_keys : list nat := map rc_N gen_C.
