(* C16: proofs about the models of Cxx/C16_Defs.v, for every tree (= every refinement history),
   every block count, every lattice position. *)
From Coq Require Import ZArith List Bool Lia Znumtheory FinFun.
From CMI Require Import Cxx.C16_Defs.
Import ListNotations.
Local Open Scope Z_scope.

(* ------------------------------------------------------------------------- *)
(* shifts and masks as arithmetic                                             *)

Definition P8 (level : Z) : Z := 2 ^ (3 * level).

Lemma P8_pos l : 0 <= l -> 0 < P8 l.
Proof. intros. unfold P8. apply Z.pow_pos_nonneg; lia. Qed.

Lemma P8_succ l : 0 <= l -> P8 (l + 1) = 8 * P8 l.
Proof.
  intros. unfold P8. replace (3 * (l + 1)) with (3 + 3 * l) by lia.
  rewrite Z.pow_add_r by lia. reflexivity.
Qed.

Lemma P8_0 : P8 0 = 1. Proof. reflexivity. Qed.

Lemma shl_P8 a l : 0 <= l -> Z.shiftl a (3 * l) = a * P8 l.
Proof. intros. apply Z.shiftl_mul_pow2. lia. Qed.

Lemma shr_P8 a l : 0 <= l -> Z.shiftr a (3 * l) = a / P8 l.
Proof. intros. apply Z.shiftr_div_pow2. lia. Qed.

Lemma land7 a : Z.land a 7 = a mod 8.
Proof. change 7 with (Z.ones 3). rewrite Z.land_ones by lia. reflexivity. Qed.

Lemma shr3 a : Z.shiftr a 3 = a / 8.
Proof. rewrite Z.shiftr_div_pow2 by lia. reflexivity. Qed.

Lemma shl3 a : Z.shiftl a 3 = a * 8.
Proof. rewrite Z.shiftl_mul_pow2 by lia. reflexivity. Qed.

Lemma div_low low P m : 0 <= low < P -> (low + P * m) / P = m.
Proof.
  intros H. symmetry. apply Z.div_unique with (r := low); [left; lia|lia].
Qed.

(* the child number of level l and the bits below it, as the C++ extracts them *)
Lemma digit_extract level low d r :
  0 <= level -> 0 <= low < P8 level -> 0 <= d < 8 ->
  let key := low + P8 level * (d + 8 * r) in
  Z.land (Z.shiftr key (3 * level)) 7 = d /\
  key - Z.shiftl (Z.shiftr key (3 * level)) (3 * level) = low.
Proof.
  intros Hl Hlow Hd key. subst key.
  rewrite shr_P8, shl_P8, land7, div_low by lia. split.
  - symmetry. apply Z.mod_unique with (q := r); [left; lia|lia].
  - lia.
Qed.

(* ------------------------------------------------------------------------- *)
(* paths and codes                                                            *)

Definition digits (p : path) : Prop := Forall (fun d => 0 <= d < 8) p.

Lemma code_pos p : digits p -> 1 <= code p.
Proof. induction 1; cbn [code]; lia. Qed.

Lemma code_range p : digits p -> P8 (Z.of_nat (length p)) <= code p < 2 * P8 (Z.of_nat (length p)).
Proof.
  induction 1 as [|d q Hd Hq IH]; cbn [code length].
  - change (P8 (Z.of_nat 0)) with 1. lia.
  - rewrite Nat2Z.inj_succ. unfold Z.succ. rewrite P8_succ by lia. lia.
Qed.

Lemma code_inj p q : digits p -> digits q -> code p = code q -> p = q.
Proof.
  intros Hp. revert q. induction Hp as [|d p Hd Hp IH]; intros q Hq E.
  - destruct Hq as [|e q He Hq]; [reflexivity|]. cbn [code] in E.
    pose proof (code_pos q Hq). lia.
  - destruct Hq as [|e q He Hq]; cbn [code] in E.
    + pose proof (code_pos p Hp). lia.
    + assert (d = e) by lia. subst e. f_equal. apply IH; [exact Hq|lia].
Qed.

(* a number in [8^m, 2 * 8^m) is never the 32 bit sentinel *)
Lemma not_sentinel m x : 0 <= m -> P8 m <= x < 2 * P8 m -> x <> MAXKEY32.
Proof.
  intros Hm Hx. unfold MAXKEY32. destruct (Z_le_gt_dec m 10) as [L|G].
  - assert (P8 m <= P8 10) by (unfold P8; apply Z.pow_le_mono_r; lia).
    change (P8 10) with 1073741824 in *. lia.
  - assert (P8 11 <= P8 m) by (unfold P8; apply Z.pow_le_mono_r; lia).
    change (P8 11) with 8589934592 in *. lia.
Qed.

Lemma enc_range level low p :
  0 <= level -> 0 <= low < P8 level -> digits p ->
  P8 (level + Z.of_nat (length p)) <= low + P8 level * code p < 2 * P8 (level + Z.of_nat (length p)).
Proof.
  intros Hl Hlow Hp. pose proof (code_range p Hp) as Hc.
  assert (E : P8 (level + Z.of_nat (length p)) = P8 level * P8 (Z.of_nat (length p))).
  { unfold P8. rewrite <- Z.pow_add_r by lia. f_equal. lia. }
  rewrite E. pose proof (P8_pos level Hl). nia.
Qed.

(* ------------------------------------------------------------------------- *)
(* leaves                                                                     *)

Lemma leaves_nonempty t : exists p rest, leaves t = p :: rest.
Proof.
  induction t as [|c0 IH0 c1 _ c2 _ c3 _ c4 _ c5 _ c6 _ c7 _].
  - exists [], []. reflexivity.
  - destruct IH0 as [p [rest E]]. cbn [leaves]. rewrite E. cbn [map app].
    eexists; eexists; reflexivity.
Qed.

Definition first_leaf (t : tree) : path := hd [] (leaves t).

Lemma leaves_first t : exists rest, leaves t = first_leaf t :: rest.
Proof. unfold first_leaf. destruct (leaves_nonempty t) as [p [r E]]. rewrite E. exists r. reflexivity. Qed.

Lemma Forall_map_cons (Q : path -> Prop) d l :
  (forall p, In p l -> Q (d :: p)) -> Forall Q (map (cons d) l).
Proof. intros H. apply Forall_forall. intros x Hx. apply in_map_iff in Hx. destruct Hx as [p [<- Hp]]. auto. Qed.

Lemma leaves_digits t : Forall digits (leaves t).
Proof.
  induction t as [|c0 IH0 c1 IH1 c2 IH2 c3 IH3 c4 IH4 c5 IH5 c6 IH6 c7 IH7].
  - repeat constructor.
  - cbn [leaves]. rewrite !Forall_app.
    repeat split; apply Forall_map_cons; intros p Hp;
      (constructor; [lia|]);
      match goal with IH : Forall digits (leaves ?c), Hp : In _ (leaves ?c) |- _ =>
        exact (proj1 (Forall_forall _ _) IH _ Hp) end.
Qed.

Lemma in_leaves_digits t p : In p (leaves t) -> digits p.
Proof. apply (proj1 (Forall_forall _ _) (leaves_digits t)). Qed.

Lemma max8_le (a0 a1 a2 a3 a4 a5 a6 a7 : nat) :
  let m := Nat.max a0 (Nat.max a1 (Nat.max a2 (Nat.max a3 (Nat.max a4 (Nat.max a5 (Nat.max a6 a7)))))) in
  (a0 <= m /\ a1 <= m /\ a2 <= m /\ a3 <= m /\ a4 <= m /\ a5 <= m /\ a6 <= m /\ a7 <= m)%nat.
Proof. cbv zeta. lia. Qed.

Lemma leaves_length t : Forall (fun p => (length p <= depth t)%nat) (leaves t).
Proof.
  induction t as [|c0 IH0 c1 IH1 c2 IH2 c3 IH3 c4 IH4 c5 IH5 c6 IH6 c7 IH7].
  - repeat constructor.
  - cbn [leaves depth].
    pose proof (max8_le (depth c0) (depth c1) (depth c2) (depth c3) (depth c4) (depth c5) (depth c6) (depth c7)) as M.
    cbv zeta in M. rewrite !Forall_app.
    repeat split; apply Forall_map_cons; intros p Hp; cbn [length];
      match goal with IH : Forall _ (leaves ?c), Hp : In _ (leaves ?c) |- _ =>
        pose proof (proj1 (Forall_forall _ _) IH _ Hp) as HH; cbv beta in HH end; lia.
Qed.

(* leaves of a node as a concatenation of eight blocks *)
Lemma leaves_node c0 c1 c2 c3 c4 c5 c6 c7 :
  leaves (Node c0 c1 c2 c3 c4 c5 c6 c7) =
  concat [map (cons 0) (leaves c0); map (cons 1) (leaves c1); map (cons 2) (leaves c2);
          map (cons 3) (leaves c3); map (cons 4) (leaves c4); map (cons 5) (leaves c5);
          map (cons 6) (leaves c6); map (cons 7) (leaves c7)].
Proof. cbn [leaves concat]. rewrite app_nil_r. reflexivity. Qed.

(* an element of a concatenation lies in one block *)
Lemma concat_split {A} (L : list (list A)) l1 x l2 :
  concat L = l1 ++ x :: l2 ->
  exists La a Lb a1 a2, L = La ++ a :: Lb /\ a = a1 ++ x :: a2 /\ l1 = concat La ++ a1 /\ l2 = a2 ++ concat Lb.
Proof.
  revert l1. induction L as [|b L IH]; intros l1 H.
  - cbn in H. destruct l1; discriminate.
  - cbn [concat] in H. apply app_eq_app in H. destruct H as [l [[H1 H2]|[H1 H2]]].
    + (* b = l1 ++ l, x :: l2 = l ++ concat L *)
      destruct l as [|y l].
      * cbn in H2. rewrite app_nil_r in H1. subst b.
        destruct (IH [] (eq_sym H2)) as [La [a [Lb [a1 [a2 [E1 [E2 [E3 E4]]]]]]]].
        exists (l1 :: La), a, Lb, a1, a2. repeat split; auto.
        -- cbn. rewrite E1. reflexivity.
        -- cbn [concat]. rewrite <- app_assoc, <- E3. rewrite app_nil_r. reflexivity.
      * cbn in H2. injection H2 as -> ->.
        exists [], b, L, l1, l. repeat split; auto.
    + (* l1 = b ++ l, concat L = l ++ x :: l2 *)
      destruct (IH l H2) as [La [a [Lb [a1 [a2 [E1 [E2 [E3 E4]]]]]]]].
      exists (b :: La), a, Lb, a1, a2. repeat split; auto.
      * cbn. rewrite E1. reflexivity.
      * cbn [concat]. rewrite <- app_assoc, <- E3. exact H1.
Qed.

Lemma map_cons_split d (l : list path) a1 x a2 :
  map (cons d) l = a1 ++ x :: a2 ->
  exists m1 q m2, l = m1 ++ q :: m2 /\ x = d :: q /\ a1 = map (cons d) m1 /\ a2 = map (cons d) m2.
Proof.
  intros H. apply map_eq_app in H. destruct H as [m1 [m2' [E1 [E2 E3]]]].
  apply map_eq_cons in E3. destruct E3 as [q [m2 [E4 [E5 E6]]]].
  exists m1, q, m2. subst. repeat split; reflexivity.
Qed.

(* ------------------------------------------------------------------------- *)
(* get_first_key                                                              *)

Lemma first_key_spec t : forall level, 0 <= level ->
  first_key t level = P8 level * code (first_leaf t).
Proof.
  induction t as [|c0 IH0 c1 _ c2 _ c3 _ c4 _ c5 _ c6 _ c7 _]; intros level Hl.
  - cbn [first_key]. unfold first_leaf. cbn [leaves hd code]. rewrite shl_P8 by lia. lia.
  - cbn [first_key]. rewrite IH0 by lia. unfold first_leaf at 2. cbn [leaves].
    destruct (leaves_first c0) as [rest E]. rewrite E. cbn [map app hd code].
    rewrite P8_succ by lia. lia.
Qed.

(* ------------------------------------------------------------------------- *)
(* get_next_key: the key of the cell that follows in the depth first order, or the sentinel *)

Definition next_spec (t : tree) : Prop :=
  forall level low, 0 <= level -> 0 <= low < P8 level ->
  forall l1 p l2, leaves t = l1 ++ p :: l2 ->
  next_key t (low + P8 level * code p) level =
  match l2 with [] => MAXKEY32 | p' :: _ => low + P8 level * code p' end.

Lemma pick_eq {A} i (a0 a1 a2 a3 a4 a5 a6 a7 : A) :
  (i = 0 -> pick i a0 a1 a2 a3 a4 a5 a6 a7 = a0) /\ (i = 1 -> pick i a0 a1 a2 a3 a4 a5 a6 a7 = a1) /\
  (i = 2 -> pick i a0 a1 a2 a3 a4 a5 a6 a7 = a2) /\ (i = 3 -> pick i a0 a1 a2 a3 a4 a5 a6 a7 = a3) /\
  (i = 4 -> pick i a0 a1 a2 a3 a4 a5 a6 a7 = a4) /\ (i = 5 -> pick i a0 a1 a2 a3 a4 a5 a6 a7 = a5) /\
  (i = 6 -> pick i a0 a1 a2 a3 a4 a5 a6 a7 = a6) /\ (i = 7 -> pick i a0 a1 a2 a3 a4 a5 a6 a7 = a7).
Proof. repeat split; intros ->; reflexivity. Qed.

(* one child: the tactic below is run once per child number *)
Lemma next_key_node_case c0 c1 c2 c3 c4 c5 c6 c7 d cd level low q m2 :
  0 <= level -> 0 <= low < P8 level -> 0 <= d < 8 -> digits q ->
  pick d c0 c1 c2 c3 c4 c5 c6 c7 = cd ->
  next_key cd ((low + P8 level * d) + P8 (level + 1) * code q) (level + 1) =
    match m2 with [] => MAXKEY32 | q' :: _ => (low + P8 level * d) + P8 (level + 1) * code q' end ->
  Forall digits m2 ->
  next_key (Node c0 c1 c2 c3 c4 c5 c6 c7) (low + P8 level * code (d :: q)) level =
  match m2 with
  | q' :: _ => low + P8 level * code (d :: q')
  | [] => if d =? 7 then MAXKEY32
          else low + P8 level * code ((d + 1) :: first_leaf (pick (d + 1) c0 c1 c2 c3 c4 c5 c6 c7))
  end.
Proof.
  intros Hl Hlow Hd Hq Hpick IH Hm2.
  cbn [next_key code].
  destruct (digit_extract level low d (code q) Hl Hlow Hd) as [E1 E2]. cbv zeta in E1, E2.
  rewrite E1, E2, Hpick.
  assert (K : low + P8 level * (d + 8 * code q) = low + P8 level * d + P8 (level + 1) * code q).
  { rewrite P8_succ by lia. lia. }
  rewrite K, IH.
  destruct m2 as [|q' m2'].
  - rewrite Z.eqb_refl. destruct (d =? 7) eqn:E7; [reflexivity|].
    rewrite first_key_spec by lia. rewrite shl_P8 by lia. rewrite P8_succ by lia. lia.
  - assert (Hq' : digits q') by (inversion Hm2; assumption).
    pose proof (P8_pos level Hl) as HP.
    assert (R : 0 <= low + P8 level * d < P8 (level + 1)) by (rewrite P8_succ by lia; nia).
    pose proof (enc_range (level + 1) (low + P8 level * d) q' ltac:(lia) R Hq') as Hr.
    apply not_sentinel in Hr; [|lia].
    apply Z.eqb_neq in Hr. rewrite Hr. rewrite P8_succ by lia. lia.
Qed.

Lemma next_key_spec t : next_spec t.
Proof.
  induction t as [|c0 IH0 c1 IH1 c2 IH2 c3 IH3 c4 IH4 c5 IH5 c6 IH6 c7 IH7];
    intros level low Hl Hlow l1 p l2 H.
  - cbn [leaves] in H. destruct l1 as [|? l1]; [|destruct l1; discriminate].
    injection H as <- <-. reflexivity.
  - pose proof (leaves_digits (Node c0 c1 c2 c3 c4 c5 c6 c7)) as HD. rewrite H in HD.
    rewrite leaves_node in H.
    apply concat_split in H. destruct H as [La [a [Lb [a1 [a2 [EL [Ea [E1 E2]]]]]]]].
    (* which of the eight blocks *)
    do 8 (destruct La as [|? La]; [cbn [app] in EL; injection EL as; subst;
      match goal with Hm : map (cons ?d) (leaves ?c) = _ ++ _ :: _ |- _ =>
        apply map_cons_split in Hm; destruct Hm as [m1 [q [m2 [Em [-> [-> ->]]]]]];
        match goal with IH : next_spec c |- _ =>
          pose proof (IH (level + 1) (low + P8 level * d) ltac:(lia)) as IHc end;
        assert (Hq : digits q /\ Forall digits m2) by
          (pose proof (leaves_digits c) as HDc; rewrite Em in HDc; apply Forall_app in HDc;
           destruct HDc as [_ HDc]; inversion HDc; split; assumption);
        destruct Hq as [Hq Hm2];
        assert (R : 0 <= low + P8 level * d < P8 (level + 1)) by
          (pose proof (P8_pos level Hl); rewrite P8_succ by lia; nia);
        specialize (IHc R m1 q m2 Em);
        rewrite (next_key_node_case c0 c1 c2 c3 c4 c5 c6 c7 d c level low q m2 Hl Hlow ltac:(lia) Hq
                   eq_refl IHc Hm2);
        destruct m2 as [|q' m2']; cbn [map app concat]; [|reflexivity];
        cbn [Z.eqb Pos.eqb pick Z.add Pos.add Pos.succ];
        try (match goal with |- context [first_leaf ?c'] =>
               destruct (leaves_first c') as [rest' Er]; rewrite Er end; cbn [map app]);
        reflexivity
      end
    | cbn [app] in EL; injection EL as ? EL; subst ]).
    destruct La; discriminate.
Qed.

(* ------------------------------------------------------------------------- *)
(* enumeration                                                                *)

(* a successor function that follows a list and ends with the sentinel enumerates the list *)
Lemma iterate_follows {A} (f : A -> Z) (next : Z -> Z) (stop : Z) (l : list A) :
  (forall x, In x l -> f x <> stop) ->
  (forall l1 x l2, l = l1 ++ x :: l2 -> next (f x) = match l2 with [] => stop | y :: _ => f y end) ->
  forall l1 x l2 fuel, l = l1 ++ x :: l2 -> (length (x :: l2) < fuel)%nat ->
  iterate next stop fuel (f x) = map f (x :: l2).
Proof.
  intros Hne Hnext l1 x l2. revert l1 x.
  induction l2 as [|y l2 IH]; intros l1 x fuel E Hf.
  - destruct fuel as [|[|fuel]]; cbn [length] in Hf; try lia.
    cbn [iterate map].
    assert (Hx : f x <> stop) by (apply Hne; rewrite E; apply in_elt).
    apply Z.eqb_neq in Hx. rewrite Hx. rewrite (Hnext _ _ _ E). rewrite Z.eqb_refl. reflexivity.
  - destruct fuel as [|fuel]; cbn [length] in Hf; [lia|].
    cbn [iterate].
    assert (Hx : f x <> stop) by (apply Hne; rewrite E; apply in_elt).
    apply Z.eqb_neq in Hx. rewrite Hx. rewrite (Hnext _ _ _ E).
    cbn [map]. f_equal.
    apply (IH (l1 ++ [x])); [rewrite <- app_assoc; exact E|cbn [length] in *; lia].
Qed.

Lemma code_not_sentinel p : digits p -> code p <> MAXKEY32.
Proof.
  intros Hp. pose proof (enc_range 0 0 p ltac:(lia) ltac:(rewrite P8_0; lia) Hp) as H.
  rewrite P8_0 in H. replace (0 + 1 * code p) with (code p) in H by lia.
  eapply not_sentinel; [|exact H]. lia.
Qed.

Theorem enumerate_leaves t fuel :
  (length (leaves t) < fuel)%nat -> enumerate fuel t = map code (leaves t).
Proof.
  intros Hf. unfold enumerate. rewrite first_key_spec by lia. rewrite P8_0, Z.mul_1_l.
  destruct (leaves_first t) as [rest E].
  rewrite E in *.
  apply (iterate_follows code (fun k => next_key t k 0) MAXKEY32 (leaves t)) with (l1 := []).
  - intros x Hx. apply code_not_sentinel. eapply in_leaves_digits; eauto.
  - intros l1 x l2 El. pose proof (next_key_spec t 0 0 ltac:(lia) ltac:(rewrite P8_0; lia) l1 x l2 El) as H.
    rewrite P8_0 in H. replace (0 + 1 * code x) with (code x) in H by lia. rewrite H.
    destruct l2; [reflexivity|lia].
  - rewrite E. reflexivity.
  - exact Hf.
Qed.

(* every cell is visited exactly once: the keys are pairwise different *)
Lemma NoDup_map_cons d (l : list path) : NoDup l -> NoDup (map (cons d) l).
Proof. intros H. apply FinFun.Injective_map_NoDup; [|exact H]. intros a b E. injection E. auto. Qed.

Lemma NoDup_app_intro {A} (l1 l2 : list A) :
  NoDup l1 -> NoDup l2 -> (forall x, In x l1 -> In x l2 -> False) -> NoDup (l1 ++ l2).
Proof.
  induction l1 as [|a l1 IH]; intros H1 H2 Hd; [exact H2|].
  cbn. inversion H1; subst. constructor.
  - rewrite in_app_iff. intros [Hi|Hi]; [contradiction|]. apply (Hd a); [left; reflexivity|exact Hi].
  - apply IH; auto. intros x Hx1 Hx2. apply (Hd x); [right; exact Hx1|exact Hx2].
Qed.

Lemma in_map_cons d e q (l : list path) : In (e :: q) (map (cons d) l) -> e = d /\ In q l.
Proof. intros H. apply in_map_iff in H. destruct H as [x [E Hx]]. injection E as <- <-. auto. Qed.

Lemma leaves_NoDup t : NoDup (leaves t).
Proof.
  induction t as [|c0 IH0 c1 IH1 c2 IH2 c3 IH3 c4 IH4 c5 IH5 c6 IH6 c7 IH7].
  - cbn. constructor; [intros []|constructor].
  - cbn [leaves].
    repeat (apply NoDup_app_intro; [apply NoDup_map_cons; assumption| |
      intros x Hx1 Hx2; destruct x as [|e q]; [apply in_map_iff in Hx1; destruct Hx1 as [? [? _]]; discriminate|];
      apply in_map_cons in Hx1; destruct Hx1 as [-> _];
      rewrite ?in_app_iff in Hx2;
      repeat (destruct Hx2 as [Hx2|Hx2]; [apply in_map_cons in Hx2; destruct Hx2 as [Hx2 _]; discriminate|]);
      apply in_map_cons in Hx2; destruct Hx2 as [Hx2 _]; discriminate]).
    apply NoDup_map_cons; assumption.
Qed.

Theorem keys_NoDup t : NoDup (map code (leaves t)).
Proof.
  pose proof (leaves_NoDup t) as H. pose proof (leaves_digits t) as D.
  induction H as [|p l Hn Hl IH]; cbn [map]; [constructor|].
  inversion D; subst. constructor; [|apply IH; assumption].
  intros Hi. apply in_map_iff in Hi. destruct Hi as [q [E Hq]].
  assert (q = p) by (apply code_inj; auto; eapply (proj1 (Forall_forall _ _)); eauto).
  subst. contradiction.
Qed.

Lemma ncells_leaves t : ncells t = Z.of_nat (length (leaves t)).
Proof.
  induction t as [|c0 IH0 c1 IH1 c2 IH2 c3 IH3 c4 IH4 c5 IH5 c6 IH6 c7 IH7]; [reflexivity|].
  cbn [ncells leaves]. rewrite !app_length, !map_length. unfold path in *. lia.
Qed.

(* width of the keys: the marker bit of a cell on level n is bit 3n *)
Theorem key_width t p : In p (leaves t) -> (depth t <= 10)%nat -> 1 <= code p < 2 ^ 31.
Proof.
  intros Hp Hd. pose proof (in_leaves_digits t p Hp) as Dp.
  pose proof (proj1 (Forall_forall _ _) (leaves_length t) p Hp) as Hlen. cbv beta in Hlen.
  pose proof (code_range p Dp) as Hr. split; [apply code_pos; exact Dp|].
  assert (P8 (Z.of_nat (length p)) <= P8 10) by (unfold P8; apply Z.pow_le_mono_r; lia).
  change (P8 10) with 1073741824 in *. change (2 ^ 31) with 2147483648. lia.
Qed.

(* ------------------------------------------------------------------------- *)
(* geometry: one axis                                                         *)

Definition okside (n : nat) (s : Z) : Prop := exists k, 0 < k /\ s = k * 2 ^ Z.of_nat n.

Lemma okside_pos n s : okside n s -> 0 < s.
Proof. intros [k [Hk ->]]. assert (0 < 2 ^ Z.of_nat n) by (apply Z.pow_pos_nonneg; lia). nia. Qed.

Lemma okside_le n m s : (m <= n)%nat -> okside n s -> okside m s.
Proof.
  intros Hmn [k [Hk ->]]. exists (k * 2 ^ (Z.of_nat n - Z.of_nat m)). split.
  - assert (0 < 2 ^ (Z.of_nat n - Z.of_nat m)) by (apply Z.pow_pos_nonneg; lia). nia.
  - rewrite <- Z.mul_assoc, <- Z.pow_add_r by lia. do 2 f_equal. lia.
Qed.

Lemma okside_half n s : okside (S n) s -> okside n (s / 2) /\ s = 2 * (s / 2).
Proof.
  intros [k [Hk ->]]. rewrite Nat2Z.inj_succ, Z.pow_succ_r by lia.
  replace (k * (2 * 2 ^ Z.of_nat n)) with ((k * 2 ^ Z.of_nat n) * 2) by lia.
  rewrite Z.div_mul by lia. split; [exists k; auto|lia].
Qed.

Lemma child_idx_char p a s j :
  0 < s -> s = 2 * (s / 2) -> (j = 0 \/ j = 1) ->
  (a + j * (s / 2) <= p < a + j * (s / 2) + s / 2 <-> (a <= p < a + s /\ child_idx p a s = j)).
Proof.
  intros Hs He Hj. unfold child_idx. set (h := s / 2) in *.
  assert (Hh : 0 < h) by lia.
  rewrite He. rewrite Z.div_mul_cancel_l by lia.
  split.
  - intros H. split; [destruct Hj; subst j; lia|].
    symmetry. apply Z.div_unique with (r := p - a - j * h); [left; lia|lia].
  - intros [H E]. pose proof (Z.div_mod (p - a) h ltac:(lia)) as DM.
    pose proof (Z.mod_pos_bound (p - a) h Hh) as MB. rewrite E in DM. lia.
Qed.

Lemma child_idx_range p a s :
  0 < s -> s = 2 * (s / 2) -> a <= p < a + s -> child_idx p a s = 0 \/ child_idx p a s = 1.
Proof.
  intros Hs He H. unfold child_idx. set (h := s / 2) in *. rewrite He.
  rewrite Z.div_mul_cancel_l by lia.
  assert (0 <= (p - a) / h) by (apply Z.div_pos; lia).
  assert ((p - a) / h < 2) by (apply Z.div_lt_upper_bound; lia). lia.
Qed.

(* ------------------------------------------------------------------------- *)
(* geometry: boxes                                                            *)

Definition okbox (n : nat) (b : box) : Prop := okside n (bsx b) /\ okside n (bsy b) /\ okside n (bsz b).

Lemma okbox_le n m b : (m <= n)%nat -> okbox n b -> okbox m b.
Proof. intros H [A [B C]]. repeat split; eapply okside_le; eauto. Qed.

Lemma okbox_sub n b ix iy iz : okbox (S n) b -> okbox n (sub_box b ix iy iz).
Proof. intros [A [B C]]. unfold okbox, sub_box; cbn. repeat split; apply okside_half; assumption. Qed.

Lemma child_box_digit b ix iy iz :
  (ix = 0 \/ ix = 1) -> (iy = 0 \/ iy = 1) -> (iz = 0 \/ iz = 1) ->
  child_box b (4 * ix + 2 * iy + iz) = sub_box b ix iy iz.
Proof. intros [-> | ->] [-> | ->] [-> | ->]; reflexivity. Qed.

Lemma digit_bits d : 0 <= d < 8 ->
  exists ix iy iz, (ix = 0 \/ ix = 1) /\ (iy = 0 \/ iy = 1) /\ (iz = 0 \/ iz = 1) /\ d = 4 * ix + 2 * iy + iz.
Proof.
  intros H. assert (C : d = 0 \/ d = 1 \/ d = 2 \/ d = 3 \/ d = 4 \/ d = 5 \/ d = 6 \/ d = 7) by lia.
  destruct C as [->|[->|[->|[->|[->|[->|[->| ->]]]]]]].
  - exists 0, 0, 0; lia. - exists 0, 0, 1; lia. - exists 0, 1, 0; lia. - exists 0, 1, 1; lia.
  - exists 1, 0, 0; lia. - exists 1, 0, 1; lia. - exists 1, 1, 0; lia. - exists 1, 1, 1; lia.
Qed.

Lemma okbox_child n b d : 0 <= d < 8 -> okbox (S n) b -> okbox n (child_box b d).
Proof.
  intros Hd H. destruct (digit_bits d Hd) as [ix [iy [iz [Hx [Hy [Hz ->]]]]]].
  rewrite child_box_digit by assumption. apply okbox_sub. exact H.
Qed.

(* a position of the box lies in exactly the child box that the descent selects *)
Lemma inbox_sub_char p b ix iy iz :
  okbox 1 b -> (ix = 0 \/ ix = 1) -> (iy = 0 \/ iy = 1) -> (iz = 0 \/ iz = 1) ->
  (inbox p (sub_box b ix iy iz) <->
   inbox p b /\ child_idx (vx p) (bax b) (bsx b) = ix /\ child_idx (vy p) (bay b) (bsy b) = iy
             /\ child_idx (vz p) (baz b) (bsz b) = iz).
Proof.
  intros [A [B C]] Hx Hy Hz.
  pose proof (okside_pos _ _ A). pose proof (okside_pos _ _ B). pose proof (okside_pos _ _ C).
  apply okside_half in A, B, C. destruct A as [_ A], B as [_ B], C as [_ C].
  unfold inbox, sub_box; cbn [bax bay baz bsx bsy bsz].
  rewrite (child_idx_char (vx p) (bax b) (bsx b) ix) by assumption.
  rewrite (child_idx_char (vy p) (bay b) (bsy b) iy) by assumption.
  rewrite (child_idx_char (vz p) (baz b) (bsz b) iz) by assumption.
  tauto.
Qed.

Lemma inbox_child_in p b d : okbox 1 b -> 0 <= d < 8 -> inbox p (child_box b d) -> inbox p b.
Proof.
  intros Hb Hd H. destruct (digit_bits d Hd) as [ix [iy [iz [Hx [Hy [Hz ->]]]]]].
  rewrite child_box_digit in H by assumption. apply inbox_sub_char in H; tauto.
Qed.

Lemma inbox_child_unique p b d e :
  okbox 1 b -> 0 <= d < 8 -> 0 <= e < 8 -> inbox p (child_box b d) -> inbox p (child_box b e) -> d = e.
Proof.
  intros Hb Hd He H1 H2.
  destruct (digit_bits d Hd) as [ix [iy [iz [Hx [Hy [Hz ->]]]]]].
  destruct (digit_bits e He) as [jx [jy [jz [Jx [Jy [Jz ->]]]]]].
  rewrite child_box_digit in H1, H2 by assumption.
  apply inbox_sub_char in H1, H2; try assumption. lia.
Qed.

Lemma box_of_path_cons b d q : box_of_path b (d :: q) = box_of_path (child_box b d) q.
Proof. reflexivity. Qed.

Lemma inbox_path_in p q : digits q -> forall b, okbox (length q) b -> inbox p (box_of_path b q) -> inbox p b.
Proof.
  induction 1 as [|d q Hd Hq IH]; intros b Hb H; [exact H|].
  rewrite box_of_path_cons in H. cbn [length] in Hb.
  apply (inbox_child_in p b d); [eapply okbox_le; [|exact Hb]; lia|exact Hd|].
  apply IH; [apply okbox_child; assumption|exact H].
Qed.

(* ------------------------------------------------------------------------- *)
(* membership in the leaves of a node                                         *)

Lemma in_leaves_node q c0 c1 c2 c3 c4 c5 c6 c7 :
  In q (leaves (Node c0 c1 c2 c3 c4 c5 c6 c7)) <->
  exists d q', q = d :: q' /\ 0 <= d < 8 /\ In q' (leaves (pick d c0 c1 c2 c3 c4 c5 c6 c7)).
Proof.
  cbn [leaves]. rewrite !in_app_iff, !in_map_iff. split.
  - intros H.
    repeat (destruct H as [H|H]; [destruct H as [q' [<- H]]; eexists; exists q'; split; [reflexivity|]; split; [lia|exact H]|]).
    destruct H as [q' [<- H]]; eexists; exists q'; split; [reflexivity|]; split; [lia|exact H].
  - intros [d [q' [-> [Hd H]]]].
    assert (C : d = 0 \/ d = 1 \/ d = 2 \/ d = 3 \/ d = 4 \/ d = 5 \/ d = 6 \/ d = 7) by lia.
    destruct C as [->|[->|[->|[->|[->|[->|[->| ->]]]]]]]; cbn [pick] in H.
    + left. eauto.
    + right; left. eauto.
    + do 2 right; left. eauto.
    + do 3 right; left. eauto.
    + do 4 right; left. eauto.
    + do 5 right; left. eauto.
    + do 6 right; left. eauto.
    + do 7 right. eauto.
Qed.

Lemma depth_pick d c0 c1 c2 c3 c4 c5 c6 c7 :
  (S (depth (pick d c0 c1 c2 c3 c4 c5 c6 c7)) <= depth (Node c0 c1 c2 c3 c4 c5 c6 c7))%nat.
Proof.
  cbn [depth].
  pose proof (max8_le (depth c0) (depth c1) (depth c2) (depth c3) (depth c4) (depth c5) (depth c6) (depth c7)) as M.
  cbv zeta in M. unfold pick.
  repeat match goal with |- context [match ?x with _ => _ end] => destruct x end; lia.
Qed.

(* ------------------------------------------------------------------------- *)
(* get_key(position): the key of a single cell whose box contains the position *)

Theorem get_key_spec t : forall level p b n,
  0 <= level -> (depth t <= n)%nat -> okbox n b -> inbox p b ->
  exists q, In q (leaves t) /\ get_key t level p b = P8 level * code q /\ inbox p (box_of_path b q).
Proof.
  induction t as [|c0 IH0 c1 IH1 c2 IH2 c3 IH3 c4 IH4 c5 IH5 c6 IH6 c7 IH7];
    intros level p b n Hl Hn Hb Hp.
  - exists []. cbn [leaves get_key code box_of_path fold_left]. rewrite shl_P8 by lia.
    split; [left; reflexivity|]. split; [lia|exact Hp].
  - destruct n as [|n]; [cbn [depth] in Hn; lia|].
    assert (Hb1 : okbox 1 b) by (eapply okbox_le; [|exact Hb]; lia).
    pose proof Hb1 as Hb1'. pose proof Hp as Hp'.
    destruct Hb1 as [A [B C]].
    pose proof (okside_pos _ _ A). pose proof (okside_pos _ _ B). pose proof (okside_pos _ _ C).
    pose proof (proj2 (okside_half _ _ A)). pose proof (proj2 (okside_half _ _ B)). pose proof (proj2 (okside_half _ _ C)).
    destruct Hp as [Px [Py Pz]].
    pose proof (child_idx_range _ _ _ H H2 Px) as Rx.
    pose proof (child_idx_range _ _ _ H0 H3 Py) as Ry.
    pose proof (child_idx_range _ _ _ H1 H4 Pz) as Rz.
    cbn [get_key].
    set (ix := child_idx (vx p) (bax b) (bsx b)) in *.
    set (iy := child_idx (vy p) (bay b) (bsy b)) in *.
    set (iz := child_idx (vz p) (baz b) (bsz b)) in *.
    set (cell := 4 * ix + 2 * iy + iz).
    assert (Hc : 0 <= cell < 8) by (unfold cell; lia).
    assert (Hsub : inbox p (sub_box b ix iy iz)).
    { apply inbox_sub_char; [exact Hb1'|exact Rx|exact Ry|exact Rz|].
      split; [exact Hp'|]. repeat split; reflexivity. }
    pose proof (depth_pick cell c0 c1 c2 c3 c4 c5 c6 c7) as Hdp.
    assert (IH : exists q, In q (leaves (pick cell c0 c1 c2 c3 c4 c5 c6 c7)) /\
              get_key (pick cell c0 c1 c2 c3 c4 c5 c6 c7) (level + 1) p (sub_box b ix iy iz) = P8 (level + 1) * code q /\
              inbox p (box_of_path (sub_box b ix iy iz) q)).
    { assert (Hn' : (depth (pick cell c0 c1 c2 c3 c4 c5 c6 c7) <= n)%nat) by lia.
      assert (Hb' : okbox n (sub_box b ix iy iz)) by (apply okbox_sub; exact Hb).
      unfold pick in *.
      repeat match goal with |- context [match ?x with _ => _ end] => destruct x end; eauto with zarith.
      all: match goal with IHc : forall level p b n, _ -> (depth ?c <= n)%nat -> _ |- context [leaves ?c] =>
             apply (IHc (level + 1) p _ n); try assumption; lia end. }
    destruct IH as [q [Hq [Ek Hin]]].
    exists (cell :: q). split; [apply in_leaves_node; exists cell, q; auto|]. split.
    + rewrite Ek, shl_P8 by lia. cbn [code]. rewrite P8_succ by lia. lia.
    + rewrite box_of_path_cons. unfold cell. rewrite child_box_digit by assumption. exact Hin.
Qed.

(* no position lies in the boxes of two different single cells *)
Theorem leaf_boxes_disjoint t : forall p b n q1 q2,
  (depth t <= n)%nat -> okbox n b -> In q1 (leaves t) -> In q2 (leaves t) ->
  inbox p (box_of_path b q1) -> inbox p (box_of_path b q2) -> q1 = q2.
Proof.
  induction t as [|c0 IH0 c1 IH1 c2 IH2 c3 IH3 c4 IH4 c5 IH5 c6 IH6 c7 IH7];
    intros p b n q1 q2 Hn Hb H1 H2 B1 B2.
  - cbn in H1, H2. destruct H1 as [<-|[]], H2 as [<-|[]]. reflexivity.
  - destruct n as [|n]; [cbn [depth] in Hn; lia|].
    apply in_leaves_node in H1, H2.
    destruct H1 as [d1 [r1 [-> [Hd1 H1]]]], H2 as [d2 [r2 [-> [Hd2 H2]]]].
    rewrite box_of_path_cons in B1, B2.
    assert (Hb1 : okbox 1 b) by (eapply okbox_le; [|exact Hb]; lia).
    pose proof (depth_pick d1 c0 c1 c2 c3 c4 c5 c6 c7) as Hdp1.
    pose proof (depth_pick d2 c0 c1 c2 c3 c4 c5 c6 c7) as Hdp2.
    assert (L1 : (length r1 <= n)%nat).
    { pose proof (proj1 (Forall_forall _ _) (leaves_length _) _ H1) as L. cbv beta in L. lia. }
    assert (L2 : (length r2 <= n)%nat).
    { pose proof (proj1 (Forall_forall _ _) (leaves_length _) _ H2) as L. cbv beta in L. lia. }
    assert (I1 : inbox p (child_box b d1)).
    { apply (inbox_path_in p r1); [eapply in_leaves_digits; eauto| |exact B1].
      eapply okbox_le; [|apply okbox_child; [exact Hd1|exact Hb]]. exact L1. }
    assert (I2 : inbox p (child_box b d2)).
    { apply (inbox_path_in p r2); [eapply in_leaves_digits; eauto| |exact B2].
      eapply okbox_le; [|apply okbox_child; [exact Hd2|exact Hb]]. exact L2. }
    assert (d1 = d2) by (eapply inbox_child_unique; eauto). subst d2. f_equal.
    assert (Hb' : okbox n (child_box b d1)) by (apply okbox_child; assumption).
    assert (Hn' : (depth (pick d1 c0 c1 c2 c3 c4 c5 c6 c7) <= n)%nat) by lia.
    unfold pick in *.
    repeat match goal with H : context [match ?x with _ => _ end] |- _ => destruct x end;
    match goal with IHc : forall p b n q1 q2, (depth ?c <= n)%nat -> _, Hq : In r1 (leaves ?c) |- _ =>
      eapply (IHc p _ n); eauto end.
Qed.

(* ------------------------------------------------------------------------- *)
(* operator[]: the key of a single cell leads to that cell, its box and its level *)

Lemma code_cons_bits d q : 0 <= d < 8 -> digits q ->
  (d + 8 * code q =? 1) = false /\ Z.land (d + 8 * code q) 7 = d /\ Z.shiftr (d + 8 * code q) 3 = code q.
Proof.
  intros Hd Hq. pose proof (code_pos q Hq). repeat split.
  - apply Z.eqb_neq. lia.
  - rewrite land7. symmetry. apply Z.mod_unique with (q := code q); [left; lia|lia].
  - rewrite shr3. symmetry. apply Z.div_unique with (r := d); [left; lia|lia].
Qed.

Theorem cell_of_key_spec t : forall q b level, In q (leaves t) ->
  cell_of_key t (code q) b level = Some (Leaf, box_of_path b q, level + Z.of_nat (length q)).
Proof.
  induction t as [|c0 IH0 c1 IH1 c2 IH2 c3 IH3 c4 IH4 c5 IH5 c6 IH6 c7 IH7]; intros q b level Hq.
  - cbn in Hq. destruct Hq as [<-|[]]. cbn. rewrite Z.add_0_r. reflexivity.
  - pose proof (in_leaves_digits _ _ Hq) as Dq.
    apply in_leaves_node in Hq. destruct Hq as [d [r [-> [Hd Hr]]]].
    inversion Dq as [|? ? _ Dr]; subst.
    destruct (code_cons_bits d r Hd Dr) as [E1 [E2 E3]].
    cbn [cell_of_key code]. rewrite E1, E2, E3. rewrite box_of_path_cons.
    cbn [length]. rewrite Nat2Z.inj_succ.
    replace (level + Z.succ (Z.of_nat (length r))) with ((level + 1) + Z.of_nat (length r)) by lia.
    unfold pick in *.
    repeat match goal with H : context [match ?x with _ => _ end] |- _ => destruct x end; eauto.
Qed.

(* ------------------------------------------------------------------------- *)
(* volumes                                                                    *)

Fixpoint zsum (l : list Z) : Z := match l with [] => 0 | x :: r => x + zsum r end.

Lemma zsum_app a b : zsum (a ++ b) = zsum a + zsum b.
Proof. induction a; cbn [app zsum]; lia. Qed.

Lemma volume_children b : okbox 1 b ->
  volume (child_box b 0) + volume (child_box b 1) + volume (child_box b 2) + volume (child_box b 3) +
  volume (child_box b 4) + volume (child_box b 5) + volume (child_box b 6) + volume (child_box b 7) = volume b.
Proof.
  intros [A [B C]]. apply okside_half in A, B, C. destruct A as [_ A], B as [_ B], C as [_ C].
  unfold volume, child_box, sub_box; cbn [bsx bsy bsz].
  set (hx := bsx b / 2) in *. set (hy := bsy b / 2) in *. set (hz := bsz b / 2) in *.
  rewrite A, B, C. ring.
Qed.

Theorem volume_sum t : forall b n, (depth t <= n)%nat -> okbox n b ->
  zsum (map (fun q => volume (box_of_path b q)) (leaves t)) = volume b.
Proof.
  induction t as [|c0 IH0 c1 IH1 c2 IH2 c3 IH3 c4 IH4 c5 IH5 c6 IH6 c7 IH7]; intros b n Hn Hb.
  - cbn. lia.
  - destruct n as [|n]; [cbn [depth] in Hn; lia|].
    cbn [leaves]. rewrite !map_app, !zsum_app, !map_map.
    assert (Hb1 : okbox 1 b) by (eapply okbox_le; [|exact Hb]; lia).
    rewrite <- (volume_children b Hb1).
    pose proof (max8_le (depth c0) (depth c1) (depth c2) (depth c3) (depth c4) (depth c5) (depth c6) (depth c7)) as M.
    cbv zeta in M. cbn [depth] in Hn.
    assert (E : forall d c, 0 <= d < 8 -> (depth c <= n)%nat ->
                (forall b n, (depth c <= n)%nat -> okbox n b -> zsum (map (fun q => volume (box_of_path b q)) (leaves c)) = volume b) ->
                zsum (map (fun q => volume (box_of_path b (d :: q))) (leaves c)) = volume (child_box b d)).
    { intros d c Hd Hc IH. apply (IH (child_box b d) n Hc). apply okbox_child; assumption. }
    rewrite (E 0 c0), (E 1 c1), (E 2 c2), (E 3 c3), (E 4 c4), (E 5 c5), (E 6 c6), (E 7 c7) by (assumption || lia).
    lia.
Qed.

(* ------------------------------------------------------------------------- *)
(* create_all_cells and refine                                                *)

Lemma depth_uniform n : depth (uniform n) = n.
Proof. induction n as [|n IH]; [reflexivity|]. cbn [uniform depth]. rewrite IH. lia. Qed.

Lemma leaves_uniform_length n : Forall (fun q => length q = n) (leaves (uniform n)).
Proof.
  induction n as [|n IH]; [repeat constructor|].
  cbn [uniform leaves]. rewrite !Forall_app.
  repeat split; apply Forall_map_cons; intros p Hp; cbn [length]; f_equal;
    exact (proj1 (Forall_forall _ _) IH _ Hp).
Qed.

Lemma pick_set_same d n c0 c1 c2 c3 c4 c5 c6 c7 : 0 <= d < 8 ->
  exists e0 e1 e2 e3 e4 e5 e6 e7, set_child d n c0 c1 c2 c3 c4 c5 c6 c7 = Node e0 e1 e2 e3 e4 e5 e6 e7 /\
    (forall e, 0 <= e < 8 -> pick e e0 e1 e2 e3 e4 e5 e6 e7 = if e =? d then n else pick e c0 c1 c2 c3 c4 c5 c6 c7).
Proof.
  intros Hd.
  assert (C : d = 0 \/ d = 1 \/ d = 2 \/ d = 3 \/ d = 4 \/ d = 5 \/ d = 6 \/ d = 7) by lia.
  destruct C as [->|[->|[->|[->|[->|[->|[->| ->]]]]]]]; cbn [set_child];
    do 8 eexists; (split; [reflexivity|]); intros e He;
    assert (C : e = 0 \/ e = 1 \/ e = 2 \/ e = 3 \/ e = 4 \/ e = 5 \/ e = 6 \/ e = 7) by lia;
    destruct C as [->|[->|[->|[->|[->|[->|[->| ->]]]]]]]; reflexivity.
Qed.

(* refining the single cell with key k replaces exactly that cell by its eight children; the returned
   key is that of the first child *)
Theorem refine_spec t : forall q, In q (leaves t) ->
  exists t', refine t (code q) = Some (t', code (q ++ [0])) /\
    forall r, In r (leaves t') <-> (In r (leaves t) /\ r <> q) \/ (exists d, 0 <= d < 8 /\ r = q ++ [d]).
Proof.
  induction t as [|c0 IH0 c1 IH1 c2 IH2 c3 IH3 c4 IH4 c5 IH5 c6 IH6 c7 IH7]; intros q Hq.
  - cbn in Hq. destruct Hq as [<-|[]].
    exists (Node Leaf Leaf Leaf Leaf Leaf Leaf Leaf Leaf). split; [reflexivity|].
    intros r. rewrite in_leaves_node. split.
    + intros [d [r' [-> [Hd Hr]]]]. right. exists d. split; [exact Hd|].
      unfold pick in Hr.
      repeat match goal with H : context [match ?x with _ => _ end] |- _ => destruct x end;
        cbn in Hr; destruct Hr as [<-|[]]; reflexivity.
    + intros [[H1 H2]|[d [Hd ->]]].
      * cbn in H1. destruct H1 as [<-|[]]. congruence.
      * exists d, []. split; [reflexivity|]. split; [exact Hd|].
        unfold pick. repeat match goal with |- context [match ?x with _ => _ end] => destruct x end; left; reflexivity.
  - pose proof (in_leaves_digits _ _ Hq) as Dq.
    apply in_leaves_node in Hq. destruct Hq as [d [q' [-> [Hd Hq']]]].
    inversion Dq as [|? ? _ Dq']; subst.
    destruct (code_cons_bits d q' Hd Dq') as [E1 [E2 E3]].
    assert (IH : exists t', refine (pick d c0 c1 c2 c3 c4 c5 c6 c7) (code q') = Some (t', code (q' ++ [0])) /\
              forall r, In r (leaves t') <-> (In r (leaves (pick d c0 c1 c2 c3 c4 c5 c6 c7)) /\ r <> q') \/
                                            (exists e, 0 <= e < 8 /\ r = q' ++ [e])).
    { unfold pick in *.
      repeat match goal with H : context [match ?x with _ => _ end] |- _ => destruct x end; eauto. }
    destruct IH as [t' [Er Hl]].
    destruct (pick_set_same d t' c0 c1 c2 c3 c4 c5 c6 c7 Hd) as [e0 [e1 [e2 [e3 [e4 [e5 [e6 [e7 [Es Hp]]]]]]]]].
    exists (Node e0 e1 e2 e3 e4 e5 e6 e7). split.
    + cbn [refine code]. rewrite E1, E2, E3, Er, Es. do 2 f_equal.
      cbn [app code]. rewrite shl3. lia.
    + intros r. rewrite !in_leaves_node. split.
      * intros [e [r' [-> [He Hr]]]]. rewrite (Hp e He) in Hr.
        destruct (Z.eqb_spec e d) as [->|Hne].
        -- apply Hl in Hr. destruct Hr as [[H1 H2]|[f [Hf ->]]].
           ++ left. split; [exists d, r'; auto|congruence].
           ++ right. exists f. split; [exact Hf|reflexivity].
        -- left. split; [exists e, r'; auto|congruence].
      * intros [[[e [r' [-> [He Hr]]]] Hne]|[f [Hf ->]]].
        -- exists e, r'. split; [reflexivity|]. split; [exact He|]. rewrite (Hp e He).
           destruct (Z.eqb_spec e d) as [->|Hd']; [|exact Hr].
           apply Hl. left. split; [exact Hr|congruence].
        -- exists d, (q' ++ [f]). split; [reflexivity|]. split; [exact Hd|]. rewrite (Hp d Hd), Z.eqb_refl.
           apply Hl. right. exists f. auto.
Qed.

(* a key that is not the key of a single cell is rejected *)
Theorem refine_some_is_leaf t : forall k t' k', refine t k = Some (t', k') -> exists q, In q (leaves t) /\ k = code q.
Proof.
  induction t as [|c0 IH0 c1 IH1 c2 IH2 c3 IH3 c4 IH4 c5 IH5 c6 IH6 c7 IH7]; intros k t' k' H.
  - cbn [refine] in H. destruct (k =? 1) eqn:E; [|discriminate].
    apply Z.eqb_eq in E. exists []. split; [left; reflexivity|exact E].
  - cbn [refine] in H. destruct (k =? 1) eqn:E; [discriminate|].
    destruct (refine (pick (Z.land k 7) c0 c1 c2 c3 c4 c5 c6 c7) (Z.shiftr k 3)) as [[c' nk]|] eqn:Er; [|discriminate].
    assert (IH : exists q, In q (leaves (pick (Z.land k 7) c0 c1 c2 c3 c4 c5 c6 c7)) /\ Z.shiftr k 3 = code q).
    { unfold pick in *.
      repeat match goal with H : context [match ?x with _ => _ end] |- _ => destruct x end; eauto. }
    destruct IH as [q [Hq Ek]].
    assert (Hd : 0 <= Z.land k 7 < 8) by (rewrite land7; apply Z.mod_pos_bound; lia).
    exists (Z.land k 7 :: q). split; [apply in_leaves_node; eauto|].
    cbn [code]. rewrite <- Ek, land7, shr3. pose proof (Z.div_mod k 8 ltac:(lia)). lia.
Qed.

(* every tree is the result of a sequence of refinements of a single cell: quantifying over trees is
   quantifying over refinement histories *)
Fixpoint refine_seq (t : tree) (ks : list Z) : option tree :=
  match ks with
  | [] => Some t
  | k :: r => match refine t k with Some (t', _) => refine_seq t' r | None => None end
  end.

Lemma refine_seq_app t a b :
  refine_seq t (a ++ b) = match refine_seq t a with Some t' => refine_seq t' b | None => None end.
Proof.
  revert t. induction a as [|k a IH]; intros t; [reflexivity|].
  cbn [app refine_seq]. destruct (refine t k) as [[t' ?]|]; [apply IH|reflexivity].
Qed.

Lemma key_cons_bits d k : 0 <= d < 8 -> 1 <= k ->
  (d + 8 * k =? 1) = false /\ Z.land (d + 8 * k) 7 = d /\ Z.shiftr (d + 8 * k) 3 = k.
Proof.
  intros Hd Hk. repeat split.
  - apply Z.eqb_neq. lia.
  - rewrite land7. symmetry. apply Z.mod_unique with (q := k); [left; lia|lia].
  - rewrite shr3. symmetry. apply Z.div_unique with (r := d); [left; lia|lia].
Qed.

Definition with_child (d : Z) (n : tree) (t : tree) : tree :=
  match t with Leaf => Leaf | Node c0 c1 c2 c3 c4 c5 c6 c7 => set_child d n c0 c1 c2 c3 c4 c5 c6 c7 end.
Definition child_of (d : Z) (t : tree) : tree :=
  match t with Leaf => Leaf | Node c0 c1 c2 c3 c4 c5 c6 c7 => pick d c0 c1 c2 c3 c4 c5 c6 c7 end.
Definition is_node (t : tree) : Prop := match t with Leaf => False | _ => True end.

Ltac digit_cases d :=
  let C := fresh "C" in
  assert (C : d = 0 \/ d = 1 \/ d = 2 \/ d = 3 \/ d = 4 \/ d = 5 \/ d = 6 \/ d = 7) by lia;
  destruct C as [->|[->|[->|[->|[->|[->|[->| ->]]]]]]].

Lemma with_child_facts d n t : 0 <= d < 8 -> is_node t ->
  is_node (with_child d n t) /\ child_of d (with_child d n t) = n /\
  (forall m, with_child d m (with_child d n t) = with_child d m t) /\
  (forall e, 0 <= e < 8 -> e <> d -> child_of e (with_child d n t) = child_of e t).
Proof.
  intros Hd Ht. destruct t as [|c0 c1 c2 c3 c4 c5 c6 c7]; [destruct Ht|].
  digit_cases d; cbn [with_child set_child child_of pick is_node]; repeat split; auto;
    intros e He Hne; digit_cases e; try reflexivity; congruence.
Qed.

Lemma refine_node_child d k t c' nk : 0 <= d < 8 -> 1 <= k -> is_node t ->
  refine (child_of d t) k = Some (c', nk) ->
  refine t (d + 8 * k) = Some (with_child d c' t, Z.shiftl nk 3 + d).
Proof.
  intros Hd Hk Ht H. destruct t as [|c0 c1 c2 c3 c4 c5 c6 c7]; [destruct Ht|].
  destruct (key_cons_bits d k Hd Hk) as [E1 [E2 E3]].
  cbn [child_of] in H. cbn [refine with_child]. rewrite E1, E2, E3, H. reflexivity.
Qed.

Lemma refine_seq_child d : 0 <= d < 8 -> forall ks t c',
  is_node t -> refine_seq (child_of d t) ks = Some c' ->
  refine_seq t (map (fun k => d + 8 * k) ks) = Some (with_child d c' t).
Proof.
  intros Hd. induction ks as [|k ks IH]; intros t c' Ht H.
  - cbn [refine_seq map] in *. injection H as <-.
    destruct t as [|c0 c1 c2 c3 c4 c5 c6 c7]; [destruct Ht|].
    cbn [child_of with_child]. f_equal. digit_cases d; reflexivity.
  - cbn [refine_seq map] in *.
    destruct (refine (child_of d t) k) as [[c1 nk]|] eqn:Er; [|discriminate].
    assert (Hk : 1 <= k).
    { destruct (refine_some_is_leaf _ _ _ _ Er) as [q [Hq ->]]. apply code_pos. eapply in_leaves_digits; eauto. }
    rewrite (refine_node_child d k t c1 nk Hd Hk Ht Er).
    destruct (with_child_facts d c1 t Hd Ht) as [N1 [N2 [N3 _]]].
    rewrite (IH (with_child d c1 t) c' N1); [rewrite N3; reflexivity|].
    rewrite N2. exact H.
Qed.

Lemma refine_seq_node d ks c' c0 c1 c2 c3 c4 c5 c6 c7 : 0 <= d < 8 ->
  refine_seq (pick d c0 c1 c2 c3 c4 c5 c6 c7) ks = Some c' ->
  refine_seq (Node c0 c1 c2 c3 c4 c5 c6 c7) (map (fun k => d + 8 * k) ks) = Some (set_child d c' c0 c1 c2 c3 c4 c5 c6 c7).
Proof. intros Hd H. exact (refine_seq_child d Hd ks (Node c0 c1 c2 c3 c4 c5 c6 c7) c' I H). Qed.

Theorem every_tree_is_a_refinement_history t : exists ks, refine_seq Leaf ks = Some t.
Proof.
  induction t as [|c0 [k0 H0] c1 [k1 H1] c2 [k2 H2] c3 [k3 H3] c4 [k4 H4] c5 [k5 H5] c6 [k6 H6] c7 [k7 H7]].
  - exists []. reflexivity.
  - exists (1 :: map (fun k => 0 + 8 * k) k0 ++ map (fun k => 1 + 8 * k) k1 ++ map (fun k => 2 + 8 * k) k2 ++
            map (fun k => 3 + 8 * k) k3 ++ map (fun k => 4 + 8 * k) k4 ++ map (fun k => 5 + 8 * k) k5 ++
            map (fun k => 6 + 8 * k) k6 ++ map (fun k => 7 + 8 * k) k7).
    cbn [refine_seq refine Z.eqb Pos.eqb].
    rewrite refine_seq_app, (refine_seq_node 0 k0 c0 _ _ _ _ _ _ _ _ ltac:(lia) H0). cbn [set_child].
    rewrite refine_seq_app, (refine_seq_node 1 k1 c1 _ _ _ _ _ _ _ _ ltac:(lia) H1). cbn [set_child].
    rewrite refine_seq_app, (refine_seq_node 2 k2 c2 _ _ _ _ _ _ _ _ ltac:(lia) H2). cbn [set_child].
    rewrite refine_seq_app, (refine_seq_node 3 k3 c3 _ _ _ _ _ _ _ _ ltac:(lia) H3). cbn [set_child].
    rewrite refine_seq_app, (refine_seq_node 4 k4 c4 _ _ _ _ _ _ _ _ ltac:(lia) H4). cbn [set_child].
    rewrite refine_seq_app, (refine_seq_node 5 k5 c5 _ _ _ _ _ _ _ _ ltac:(lia) H5). cbn [set_child].
    rewrite refine_seq_app, (refine_seq_node 6 k6 c6 _ _ _ _ _ _ _ _ ltac:(lia) H6). cbn [set_child].
    rewrite (refine_seq_node 7 k7 c7 _ _ _ _ _ _ _ _ ltac:(lia) H7). reflexivity.
Qed.

(* ------------------------------------------------------------------------- *)
(* AMRGrid: block part of the key                                             *)

Lemma block_key_val ix iy iz : block_key ix iy iz = ix * 2 ^ 20 + iy * 2 ^ 10 + iz.
Proof. unfold block_key. rewrite !Z.shiftl_mul_pow2 by lia. reflexivity. Qed.

Lemma full_key_val ix iy iz cell : full_key ix iy iz cell = (ix * 2 ^ 20 + iy * 2 ^ 10 + iz) * 2 ^ 32 + cell.
Proof. unfold full_key. rewrite Z.shiftl_mul_pow2, block_key_val by lia. reflexivity. Qed.

Lemma key_block_full ix iy iz cell :
  0 <= ix < 1024 -> 0 <= iy < 1024 -> 0 <= iz < 1024 -> 0 <= cell < 2 ^ 32 ->
  key_block (full_key ix iy iz cell) = (ix, iy, iz) /\ cell_key (full_key ix iy iz cell) = cell.
Proof.
  intros Hx Hy Hz Hc. unfold key_block, cell_key. rewrite full_key_val.
  set (block := ix * 2 ^ 20 + iy * 2 ^ 10 + iz).
  assert (E32 : Z.shiftr (block * 2 ^ 32 + cell) 32 = block).
  { rewrite Z.shiftr_div_pow2 by lia. symmetry. apply Z.div_unique with (r := cell); [left; lia|lia]. }
  rewrite E32. rewrite !Z.shiftr_land.
  change (Z.shiftr 1072693248 20) with (Z.ones 10). change (Z.shiftr 1047552 10) with (Z.ones 10).
  change 1023 with (Z.ones 10). change 4294967295 with (Z.ones 32).
  rewrite !Z.land_ones, !Z.shiftr_div_pow2 by lia. change (2 ^ 10) with 1024 in *. change (2 ^ 20) with 1048576 in *.
  subst block. repeat split.
  - f_equal; [f_equal|].
    + assert (Q : (ix * 1048576 + iy * 1024 + iz) / 1048576 = ix)
        by (symmetry; apply Z.div_unique with (r := iy * 1024 + iz); [left; lia|lia]).
      rewrite Q. apply Z.mod_small. lia.
    + assert (Q : (ix * 1048576 + iy * 1024 + iz) / 1024 = ix * 1024 + iy)
        by (symmetry; apply Z.div_unique with (r := iz); [left; lia|lia]).
      rewrite Q. symmetry. apply Z.mod_unique with (q := ix); [left; lia|lia].
    + symmetry. apply Z.mod_unique with (q := ix * 1024 + iy); [left; lia|lia].
  - symmetry. apply Z.mod_unique with (q := ix * 1048576 + iy * 1024 + iz); [left; lia|lia].
Qed.

Lemma full_key_bound ix iy iz cell :
  0 <= ix < 1024 -> 0 <= iy < 1024 -> 0 <= iz < 1024 -> 0 <= cell < 2 ^ 32 ->
  0 <= full_key ix iy iz cell < 2 ^ 62.
Proof.
  intros. rewrite full_key_val. change (2 ^ 20) with 1048576. change (2 ^ 10) with 1024.
  change (2 ^ 32) with 4294967296 in *. change (2 ^ 62) with 4611686018427387904. lia.
Qed.

(* (key & 0xffffffff00000000) + newcell *)
Lemma high_part ix iy iz cell :
  0 <= ix < 1024 -> 0 <= iy < 1024 -> 0 <= iz < 1024 -> 0 <= cell < 2 ^ 32 ->
  Z.land (full_key ix iy iz cell) 18446744069414584320 = full_key ix iy iz 0.
Proof.
  intros Hx Hy Hz Hc. rewrite !full_key_val. set (block := ix * 2 ^ 20 + iy * 2 ^ 10 + iz).
  assert (Hb : 0 <= block < 2 ^ 30).
  { subst block. change (2 ^ 20) with 1048576. change (2 ^ 10) with 1024. change (2 ^ 30) with 1073741824. lia. }
  rewrite Z.add_0_r.
  change 18446744069414584320 with (Z.shiftl (Z.ones 32) 32).
  apply Z.bits_inj'. intros n Hn.
  rewrite Z.land_spec. destruct (Z_lt_ge_dec n 32) as [L|G].
  - rewrite Z.shiftl_spec_low by lia. rewrite andb_false_r.
    rewrite Z.mul_pow2_bits_low by lia. reflexivity.
  - rewrite Z.shiftl_spec_high by lia. rewrite Z.testbit_ones_nonneg by lia.
    replace n with (32 + (n - 32)) at 1 3 by lia.
    rewrite Z.mul_pow2_bits_add by lia.
    assert (T : Z.testbit (block * 2 ^ 32 + cell) (32 + (n - 32)) = Z.testbit block (n - 32)).
    { replace (32 + (n - 32)) with ((n - 32) + 32) by lia. rewrite <- (Z.shiftr_spec _ 32) by lia. rewrite Z.shiftr_div_pow2 by lia.
      f_equal. symmetry. apply Z.div_unique with (r := cell); [left; lia|lia]. }
    rewrite T. destruct (n - 32 <? 32) eqn:E; [apply andb_true_r|].
    apply Z.ltb_ge in E. rewrite andb_false_r. symmetry.
    apply Z.bits_above_log2; [lia|].
    destruct (Z.eq_dec block 0) as [->|Hnz]; [cbn; lia|].
    assert (Z.log2 block < 30) by (apply Z.log2_lt_pow2; lia). lia.
Qed.

(* ------------------------------------------------------------------------- *)
(* AMRGrid: enumeration over the blocks                                       *)

Lemma flat_map_split {A B} (f : A -> list B) l l1 x l2 :
  flat_map f l = l1 ++ x :: l2 ->
  exists la a lb m1 m2, l = la ++ a :: lb /\ f a = m1 ++ x :: m2 /\ l1 = flat_map f la ++ m1 /\ l2 = m2 ++ flat_map f lb.
Proof.
  rewrite flat_map_concat_map. intros H. apply concat_split in H.
  destruct H as [La [a [Lb [a1 [a2 [E1 [E2 [E3 E4]]]]]]]].
  apply map_eq_app in E1. destruct E1 as [la [lb' [-> [<- E5]]]].
  apply map_eq_cons in E5. destruct E5 as [a' [lb [-> [<- <-]]]].
  exists la, a', lb, a1, a2. rewrite !flat_map_concat_map. auto.
Qed.

Lemma seq_split : forall len start sa x sb, seq start len = sa ++ x :: sb ->
  (x = start + length sa /\ x < start + len /\ sb = seq (S x) (start + len - S x))%nat.
Proof.
  induction len as [|len IH]; intros start sa x sb H.
  - destruct sa; discriminate.
  - cbn [seq] in H. destruct sa as [|y sa]; cbn [app] in H.
    + injection H as <- <-. cbn [length]. repeat split; try lia. f_equal. lia.
    + injection H as <- H. apply IH in H. destruct H as [-> [H1 ->]]. cbn [length].
      repeat split; try lia. f_equal; lia.
Qed.

Lemma zrange_split n la a lb : zrange n = la ++ a :: lb ->
  0 <= a < n /\ ((lb = [] /\ a + 1 = n) \/ (exists lb', lb = (a + 1) :: lb' /\ a + 1 < n)).
Proof.
  unfold zrange. intros H. apply map_eq_app in H. destruct H as [sa [sb' [E1 [<- E2]]]].
  apply map_eq_cons in E2. destruct E2 as [x [sb [-> [<- <-]]]].
  apply seq_split in E1. destruct E1 as [Ex [Hlt ->]]. cbn [Nat.add] in *. subst x.
  split; [lia|].
  destruct (Z.to_nat n - S (length sa))%nat as [|k] eqn:Ek.
  - left. split; [reflexivity|lia].
  - right. cbn [seq map]. eexists. split; [f_equal; lia|lia].
Qed.

Lemma zrange_first n : 1 <= n -> exists r, zrange n = 0 :: r.
Proof.
  intros H. unfold zrange. destruct (Z.to_nat n) as [|k] eqn:E; [lia|]. cbn. eexists. reflexivity.
Qed.

Lemma in_zrange n a : In a (zrange n) <-> 0 <= a < n.
Proof.
  unfold zrange. rewrite in_map_iff. split.
  - intros [k [<- Hk]]. apply in_seq in Hk. lia.
  - intros H. exists (Z.to_nat a). split; [lia|]. apply in_seq. lia.
Qed.

Definition cellid := (Z * Z * Z * path)%type.
Definition zl (g : grid) (ix iy iz : Z) : list cellid := map (fun p => (ix, iy, iz, p)) (leaves (blk g ix iy iz)).
Definition yl (g : grid) (ix iy : Z) : list cellid := flat_map (zl g ix iy) (zrange (gnz g)).
Definition xl (g : grid) (ix : Z) : list cellid := flat_map (yl g ix) (zrange (gny g)).

Lemma gleaves_xl g : gleaves g = flat_map (xl g) (zrange (gnx g)).
Proof. reflexivity. Qed.

Definition wfgrid (g : grid) : Prop :=
  1 <= gnx g <= 1024 /\ 1 <= gny g <= 1024 /\ 1 <= gnz g <= 1024 /\
  forall ix iy iz, 0 <= ix < gnx g -> 0 <= iy < gny g -> 0 <= iz < gnz g -> (depth (blk g ix iy iz) <= 10)%nat.

Lemma zl_first g ix iy iz : exists r, zl g ix iy iz = (ix, iy, iz, first_leaf (blk g ix iy iz)) :: r.
Proof. unfold zl. destruct (leaves_first (blk g ix iy iz)) as [r ->]. cbn. eexists; reflexivity. Qed.

Lemma yl_first g ix iy : 1 <= gnz g -> exists r, yl g ix iy = (ix, iy, 0, first_leaf (blk g ix iy 0)) :: r.
Proof.
  intros H. unfold yl. destruct (zrange_first _ H) as [r ->]. cbn [flat_map].
  destruct (zl_first g ix iy 0) as [r' ->]. cbn. eexists; reflexivity.
Qed.

Lemma xl_first g ix : 1 <= gny g -> 1 <= gnz g -> exists r, xl g ix = (ix, 0, 0, first_leaf (blk g ix 0 0)) :: r.
Proof.
  intros H1 H2. unfold xl. destruct (zrange_first _ H1) as [r ->]. cbn [flat_map].
  destruct (yl_first g ix 0 H2) as [r' ->]. cbn. eexists; reflexivity.
Qed.

Lemma in_gleaves g ix iy iz p :
  In (ix, iy, iz, p) (gleaves g) <->
  0 <= ix < gnx g /\ 0 <= iy < gny g /\ 0 <= iz < gnz g /\ In p (leaves (blk g ix iy iz)).
Proof.
  unfold gleaves. rewrite in_flat_map. split.
  - intros [jx [Hx H]]. apply in_flat_map in H. destruct H as [jy [Hy H]].
    apply in_flat_map in H. destruct H as [jz [Hz H]]. apply in_map_iff in H.
    destruct H as [q [E Hq]]. injection E as -> -> -> ->.
    apply in_zrange in Hx, Hy, Hz. auto.
  - intros [Hx [Hy [Hz Hp]]]. exists ix. split; [apply in_zrange; exact Hx|].
    apply in_flat_map. exists iy. split; [apply in_zrange; exact Hy|].
    apply in_flat_map. exists iz. split; [apply in_zrange; exact Hz|].
    apply in_map_iff. exists p. auto.
Qed.

Lemma first_key0 t : first_key t 0 = code (first_leaf t).
Proof. rewrite first_key_spec by lia. rewrite P8_0. lia. Qed.

Lemma gcode_bound g c : wfgrid g -> In c (gleaves g) -> 0 <= gcode c < 2 ^ 62.
Proof.
  intros [Wx [Wy [Wz Wd]]] H. destruct c as [[[ix iy] iz] p]. apply in_gleaves in H.
  destruct H as [Hx [Hy [Hz Hp]]]. unfold gcode.
  pose proof (key_width _ _ Hp (Wd _ _ _ Hx Hy Hz)) as K.
  change (2 ^ 31) with 2147483648 in K. apply full_key_bound; try lia; change (2 ^ 32) with 4294967296; lia.
Qed.

Theorem grid_next_key_spec g : wfgrid g ->
  forall l1 c l2, gleaves g = l1 ++ c :: l2 ->
  grid_next_key g (gcode c) = match l2 with [] => MAXKEY64 | c' :: _ => gcode c' end.
Proof.
  intros W l1 c l2 H. pose proof W as [Wx [Wy [Wz Wd]]].
  assert (Hin : In c (gleaves g)) by (rewrite H; apply in_elt).
  rewrite gleaves_xl in H.
  apply flat_map_split in H. destruct H as [lax [ix [lbx [m1x [m2x [Ex [Fx [_ ->]]]]]]]].
  unfold xl at 1 in Fx.
  apply flat_map_split in Fx. destruct Fx as [lay [iy [lby [m1y [m2y [Ey [Fy [_ ->]]]]]]]].
  unfold yl at 1 in Fy.
  apply flat_map_split in Fy. destruct Fy as [laz [iz [lbz [m1z [m2z [Ez [Fz [_ ->]]]]]]]].
  unfold zl at 1 in Fz.
  apply map_eq_app in Fz. destruct Fz as [n1 [n2' [El [_ Fz]]]].
  apply map_eq_cons in Fz. destruct Fz as [p [n2 [-> [<- <-]]]].
  apply zrange_split in Ex, Ey, Ez.
  destruct Ex as [Hx Cx], Ey as [Hy Cy], Ez as [Hz Cz].
  apply in_gleaves in Hin. destruct Hin as [_ [_ [_ Hp]]].
  pose proof (key_width _ _ Hp (Wd _ _ _ Hx Hy Hz)) as K.
  change (2 ^ 31) with 2147483648 in K.
  unfold grid_next_key, gcode.
  destruct (key_block_full ix iy iz (code p)) as [KB CK]; try lia.
  rewrite KB, CK.
  pose proof (next_key_spec (blk g ix iy iz) 0 0 ltac:(lia) ltac:(rewrite P8_0; lia) n1 p n2 El) as NK.
  rewrite P8_0 in NK. replace (0 + 1 * code p) with (code p) in NK by lia. rewrite NK.
  destruct n2 as [|p' n2].
  - rewrite Z.eqb_refl. cbn [map app].
    destruct Cz as [[-> Cz]|[lbz' [-> Cz]]].
    + assert (Ez : (iz + 1 =? gnz g) = true) by (apply Z.eqb_eq; lia). rewrite Ez. cbn [flat_map app].
      destruct Cy as [[-> Cy]|[lby' [-> Cy]]].
      * assert (Ey : (iy + 1 =? gny g) = true) by (apply Z.eqb_eq; lia). rewrite Ey. cbn [flat_map app].
        destruct Cx as [[-> Cx]|[lbx' [-> Cx]]].
        -- assert (Ex : (ix + 1 =? gnx g) = true) by (apply Z.eqb_eq; lia). rewrite Ex. reflexivity.
        -- assert (Ex : (ix + 1 =? gnx g) = false) by (apply Z.eqb_neq; lia). rewrite Ex.
           cbn [flat_map]. destruct (xl_first g (ix + 1)) as [r ->]; try lia. cbn [app].
           rewrite first_key0. reflexivity.
      * assert (Ey : (iy + 1 =? gny g) = false) by (apply Z.eqb_neq; lia). rewrite Ey.
        cbn [flat_map]. destruct (yl_first g ix (iy + 1)) as [r ->]; try lia. cbn [app].
        rewrite first_key0. reflexivity.
    + assert (Ez : (iz + 1 =? gnz g) = false) by (apply Z.eqb_neq; lia). rewrite Ez.
      cbn [flat_map]. destruct (zl_first g ix iy (iz + 1)) as [r ->]. cbn [app].
      rewrite first_key0. reflexivity.
  - assert (Hp' : In p' (leaves (blk g ix iy iz))) by (rewrite El; apply in_or_app; right; right; left; reflexivity).
    assert (Hne : 0 + 1 * code p' <> MAXKEY32).
    { replace (0 + 1 * code p') with (code p') by lia. apply code_not_sentinel. eapply in_leaves_digits; eauto. }
    apply Z.eqb_neq in Hne. rewrite Hne. cbn [map app]. f_equal. lia.
Qed.

Theorem grid_enumerate_leaves g fuel : wfgrid g ->
  (length (gleaves g) < fuel)%nat -> grid_enumerate fuel g = map gcode (gleaves g).
Proof.
  intros W Hf. pose proof W as [Wx [Wy [Wz Wd]]]. unfold grid_enumerate, grid_first_key.
  rewrite first_key0.
  assert (E : exists r, gleaves g = (0, 0, 0, first_leaf (blk g 0 0 0)) :: r).
  { rewrite gleaves_xl. destruct (zrange_first (gnx g)) as [r ->]; [lia|]. cbn [flat_map].
    destruct (xl_first g 0) as [r' ->]; try lia. cbn [app]. eexists; reflexivity. }
  destruct E as [r E].
  change (code (first_leaf (blk g 0 0 0))) with (full_key 0 0 0 (code (first_leaf (blk g 0 0 0)))) at 1.
  change (full_key 0 0 0 (code (first_leaf (blk g 0 0 0)))) with (gcode (0, 0, 0, first_leaf (blk g 0 0 0))).
  rewrite E.
  apply (iterate_follows gcode (grid_next_key g) MAXKEY64 (gleaves g)) with (l1 := []).
  - intros x Hx. pose proof (gcode_bound g x W Hx) as B. unfold MAXKEY64.
    change (2 ^ 62) with 4611686018427387904 in B. lia.
  - intros l1 x l2 El. apply (grid_next_key_spec g W l1 x l2 El).
  - exact E.
  - rewrite E in Hf. exact Hf.
Qed.

(* ------------------------------------------------------------------------- *)
(* AMRGrid: keys are pairwise different                                       *)

Lemma NoDup_flat_map {A B} (f : A -> list B) (l : list A) :
  NoDup l -> (forall a, In a l -> NoDup (f a)) ->
  (forall a b x, In a l -> In b l -> In x (f a) -> In x (f b) -> a = b) ->
  NoDup (flat_map f l).
Proof.
  induction l as [|a l IH]; intros Hl Hf Hd; [constructor|].
  cbn [flat_map]. inversion Hl as [|? ? Hn Hl']; subst.
  apply NoDup_app_intro.
  - apply Hf. left; reflexivity.
  - apply IH; auto.
    + intros b Hb. apply Hf. right; exact Hb.
    + intros b c x Hb Hc. apply Hd; right; assumption.
  - intros x Hx1 Hx2. apply in_flat_map in Hx2. destruct Hx2 as [b [Hb Hx2]].
    assert (a = b) by (apply (Hd a b x); [left; reflexivity|right; exact Hb|exact Hx1|exact Hx2]).
    subst b. contradiction.
Qed.

Lemma zrange_NoDup n : NoDup (zrange n).
Proof.
  unfold zrange. apply Injective_map_NoDup; [|apply seq_NoDup]. intros a b. apply Nat2Z.inj.
Qed.

Lemma gleaves_NoDup g : NoDup (gleaves g).
Proof.
  rewrite gleaves_xl. apply NoDup_flat_map; [apply zrange_NoDup| |].
  - intros ix _. unfold xl. apply NoDup_flat_map; [apply zrange_NoDup| |].
    + intros iy _. unfold yl. apply NoDup_flat_map; [apply zrange_NoDup| |].
      * intros iz _. unfold zl. apply Injective_map_NoDup; [|apply leaves_NoDup].
        intros a b E. injection E. auto.
      * intros a b x _ _ H1 H2. unfold zl in *. apply in_map_iff in H1, H2.
        destruct H1 as [? [<- _]], H2 as [? [E _]]. injection E. auto.
    + intros a b x _ _ H1 H2. unfold yl, zl in *. apply in_flat_map in H1, H2.
      destruct H1 as [? [_ H1]], H2 as [? [_ H2]]. apply in_map_iff in H1, H2.
      destruct H1 as [? [<- _]], H2 as [? [E _]]. injection E. auto.
  - intros a b x _ _ H1 H2. unfold xl, yl, zl in *. apply in_flat_map in H1, H2.
    destruct H1 as [? [_ H1]], H2 as [? [_ H2]]. apply in_flat_map in H1, H2.
    destruct H1 as [? [_ H1]], H2 as [? [_ H2]]. apply in_map_iff in H1, H2.
    destruct H1 as [? [<- _]], H2 as [? [E _]]. injection E. auto.
Qed.

Lemma gcode_inj g c1 c2 : wfgrid g -> In c1 (gleaves g) -> In c2 (gleaves g) -> gcode c1 = gcode c2 -> c1 = c2.
Proof.
  intros W H1 H2 E. pose proof W as [Wx [Wy [Wz Wd]]].
  destruct c1 as [[[ix iy] iz] p], c2 as [[[jx jy] jz] q].
  apply in_gleaves in H1, H2. destruct H1 as [Hx [Hy [Hz Hp]]], H2 as [Jx [Jy [Jz Hq]]].
  pose proof (key_width _ _ Hp (Wd _ _ _ Hx Hy Hz)) as K1.
  pose proof (key_width _ _ Hq (Wd _ _ _ Jx Jy Jz)) as K2.
  change (2 ^ 31) with 2147483648 in *.
  unfold gcode in E.
  destruct (key_block_full ix iy iz (code p)) as [A1 B1]; try lia.
  destruct (key_block_full jx jy jz (code q)) as [A2 B2]; try lia.
  rewrite E in A1, B1. rewrite A2 in A1. rewrite B2 in B1. injection A1 as -> -> ->.
  f_equal. apply code_inj; [eapply in_leaves_digits; eauto|eapply in_leaves_digits; eauto|congruence].
Qed.

Lemma NoDup_map_inj_on {A B} (f : A -> B) (l : list A) :
  NoDup l -> (forall a b, In a l -> In b l -> f a = f b -> a = b) -> NoDup (map f l).
Proof.
  induction l as [|c l IH]; intros H S; cbn [map]; [constructor|].
  inversion H as [|? ? Hn Hl]; subst. constructor.
  - intros Hi. apply in_map_iff in Hi. destruct Hi as [c' [E Hc']].
    assert (c' = c) by (apply S; [right; exact Hc'|left; reflexivity|exact E]).
    subst. contradiction.
  - apply IH; [exact Hl|]. intros a b Ha Hb. apply S; right; assumption.
Qed.

Theorem grid_keys_NoDup g : wfgrid g -> NoDup (map gcode (gleaves g)).
Proof.
  intros W. apply NoDup_map_inj_on; [apply gleaves_NoDup|].
  intros a b Ha Hb. apply (gcode_inj g); assumption.
Qed.

(* ------------------------------------------------------------------------- *)
(* AMRGrid: position -> key                                                   *)

Definition wfgeom (g : grid) (n : nat) : Prop :=
  (exists sx, okside n sx /\ bsx (gbox g) = gnx g * sx) /\
  (exists sy, okside n sy /\ bsy (gbox g) = gny g * sy) /\
  (exists sz, okside n sz /\ bsz (gbox g) = gnz g * sz) /\
  forall ix iy iz, 0 <= ix < gnx g -> 0 <= iy < gny g -> 0 <= iz < gnz g -> (depth (blk g ix iy iz) <= n)%nat.

Lemma block_axis n s a p : 0 < n -> 0 < s -> a <= p < a + n * s ->
  let i := block_idx n p a (n * s) in
  0 <= i < n /\ a + i * (n * s / n) <= p < a + i * (n * s / n) + n * s / n.
Proof.
  intros Hn Hs Hp. cbv zeta. unfold block_idx.
  rewrite Z.div_mul_cancel_l by lia. rewrite (Z.mul_comm n s), Z.div_mul by lia.
  pose proof (Z.div_mod (p - a) s ltac:(lia)) as DM. pose proof (Z.mod_pos_bound (p - a) s Hs) as MB.
  assert (0 <= (p - a) / s) by (apply Z.div_pos; lia).
  assert ((p - a) / s < n) by (apply Z.div_lt_upper_bound; nia).
  split; [lia|]. lia.
Qed.

Lemma block_axis_unique s a p i j : 0 < s ->
  a + i * s <= p < a + i * s + s -> a + j * s <= p < a + j * s + s -> i = j.
Proof. intros Hs H1 H2. nia. Qed.

Lemma block_box_ok g n ix iy iz : wfgrid g -> wfgeom g n -> okbox n (block_box g ix iy iz).
Proof.
  intros [Wx [Wy [Wz _]]] [[sx [Ox Ex]] [[sy [Oy Ey]] [[sz [Oz Ez]] _]]].
  unfold okbox, block_box; cbn [bsx bsy bsz]. rewrite Ex, Ey, Ez.
  rewrite (Z.mul_comm (gnx g)), (Z.mul_comm (gny g)), (Z.mul_comm (gnz g)), !Z.div_mul by lia. auto.
Qed.

Theorem grid_get_key_spec g n p : wfgrid g -> wfgeom g n -> inbox p (gbox g) ->
  exists c, In c (gleaves g) /\ grid_get_key g p = gcode c /\ inbox p (gcell_box g c).
Proof.
  intros W G Hp. pose proof W as [Wx [Wy [Wz Wd]]].
  pose proof G as [[sx [Ox Ex]] [[sy [Oy Ey]] [[sz [Oz Ez]] Gd]]].
  pose proof (okside_pos _ _ Ox). pose proof (okside_pos _ _ Oy). pose proof (okside_pos _ _ Oz).
  destruct Hp as [Px [Py Pz]]. rewrite Ex in Px. rewrite Ey in Py. rewrite Ez in Pz.
  pose proof (block_axis (gnx g) sx _ _ ltac:(lia) ltac:(lia) Px) as Ax.
  pose proof (block_axis (gny g) sy _ _ ltac:(lia) ltac:(lia) Py) as Ay.
  pose proof (block_axis (gnz g) sz _ _ ltac:(lia) ltac:(lia) Pz) as Az.
  cbv zeta in Ax, Ay, Az. rewrite <- Ex in Ax. rewrite <- Ey in Ay. rewrite <- Ez in Az.
  unfold grid_get_key.
  set (ix := block_idx (gnx g) (vx p) (bax (gbox g)) (bsx (gbox g))) in *.
  set (iy := block_idx (gny g) (vy p) (bay (gbox g)) (bsy (gbox g))) in *.
  set (iz := block_idx (gnz g) (vz p) (baz (gbox g)) (bsz (gbox g))) in *.
  destruct Ax as [Rx Ax], Ay as [Ry Ay], Az as [Rz Az].
  assert (Hin : inbox p (block_box g ix iy iz)).
  { unfold inbox, block_box; cbn [bax bay baz bsx bsy bsz]. auto. }
  destruct (get_key_spec (blk g ix iy iz) 0 p (block_box g ix iy iz) n ltac:(lia) (Gd _ _ _ Rx Ry Rz)
              (block_box_ok g n ix iy iz W G) Hin) as [q [Hq [Ek Hb]]].
  exists (ix, iy, iz, q). split; [apply in_gleaves; auto|]. split.
  - unfold gcode. rewrite Ek, P8_0. f_equal. lia.
  - exact Hb.
Qed.

Theorem grid_cells_disjoint g n p c1 c2 : wfgrid g -> wfgeom g n ->
  In c1 (gleaves g) -> In c2 (gleaves g) -> inbox p (gcell_box g c1) -> inbox p (gcell_box g c2) -> c1 = c2.
Proof.
  intros W G H1 H2 B1 B2. pose proof W as [Wx [Wy [Wz Wd]]].
  pose proof G as [[sx [Ox Ex]] [[sy [Oy Ey]] [[sz [Oz Ez]] Gd]]].
  pose proof (okside_pos _ _ Ox). pose proof (okside_pos _ _ Oy). pose proof (okside_pos _ _ Oz).
  destruct c1 as [[[ix iy] iz] q1], c2 as [[[jx jy] jz] q2].
  apply in_gleaves in H1, H2. destruct H1 as [Hx [Hy [Hz Hq1]]], H2 as [Jx [Jy [Jz Hq2]]].
  cbn [gcell_box] in B1, B2.
  assert (L1 : (length q1 <= n)%nat).
  { pose proof (proj1 (Forall_forall _ _) (leaves_length _) _ Hq1) as L. cbv beta in L.
    pose proof (Gd _ _ _ Hx Hy Hz). lia. }
  assert (L2 : (length q2 <= n)%nat).
  { pose proof (proj1 (Forall_forall _ _) (leaves_length _) _ Hq2) as L. cbv beta in L.
    pose proof (Gd _ _ _ Jx Jy Jz). lia. }
  assert (I1 : inbox p (block_box g ix iy iz)).
  { apply (inbox_path_in p q1); [eapply in_leaves_digits; eauto| |exact B1].
    eapply okbox_le; [exact L1|apply block_box_ok; assumption]. }
  assert (I2 : inbox p (block_box g jx jy jz)).
  { apply (inbox_path_in p q2); [eapply in_leaves_digits; eauto| |exact B2].
    eapply okbox_le; [exact L2|apply block_box_ok; assumption]. }
  unfold inbox, block_box in I1, I2; cbn [bax bay baz bsx bsy bsz] in I1, I2.
  rewrite Ex, Ey, Ez in I1, I2.
  rewrite (Z.mul_comm (gnx g)), (Z.mul_comm (gny g)), (Z.mul_comm (gnz g)), !Z.div_mul in I1, I2 by lia.
  destruct I1 as [X1 [Y1 Z1]], I2 as [X2 [Y2 Z2]].
  assert (ix = jx) by (eapply block_axis_unique; [|exact X1|exact X2]; lia).
  assert (iy = jy) by (eapply block_axis_unique; [|exact Y1|exact Y2]; lia).
  assert (iz = jz) by (eapply block_axis_unique; [|exact Z1|exact Z2]; lia).
  subst jx jy jz. f_equal.
  eapply (leaf_boxes_disjoint (blk g ix iy iz) p (block_box g ix iy iz) n); eauto.
  apply block_box_ok; assumption.
Qed.

(* ------------------------------------------------------------------------- *)
(* AMRGrid: volumes                                                           *)

Lemma zsum_flat_map {A} (F : A -> Z) {B} (f : B -> list A) l :
  zsum (map F (flat_map f l)) = zsum (map (fun b => zsum (map F (f b))) l).
Proof. induction l as [|b l IH]; [reflexivity|]. cbn [flat_map map zsum]. rewrite map_app, zsum_app, IH. reflexivity. Qed.

Lemma zsum_const {A} (f : A -> Z) c l : (forall a, In a l -> f a = c) -> zsum (map f l) = Z.of_nat (length l) * c.
Proof.
  induction l as [|a l IH]; intros H; [reflexivity|].
  cbn [map zsum length]. rewrite IH by (intros; apply H; right; assumption).
  rewrite (H a) by (left; reflexivity). lia.
Qed.

Lemma zrange_length n : 0 <= n -> Z.of_nat (length (zrange n)) = n.
Proof. intros. unfold zrange. rewrite map_length, seq_length. lia. Qed.

Theorem grid_volume_sum g n : wfgrid g -> wfgeom g n ->
  zsum (map (fun c => volume (gcell_box g c)) (gleaves g)) = volume (gbox g).
Proof.
  intros W G. pose proof W as [Wx [Wy [Wz Wd]]].
  pose proof G as [[sx [Ox Ex]] [[sy [Oy Ey]] [[sz [Oz Ez]] Gd]]].
  assert (Hz : forall ix iy iz, 0 <= ix < gnx g -> 0 <= iy < gny g -> 0 <= iz < gnz g ->
             zsum (map (fun c => volume (gcell_box g c)) (zl g ix iy iz)) = sx * sy * sz).
  { intros ix iy iz Hx Hy Hz. unfold zl. rewrite map_map. cbn [gcell_box].
    rewrite (volume_sum (blk g ix iy iz) (block_box g ix iy iz) n (Gd _ _ _ Hx Hy Hz) (block_box_ok g n ix iy iz W G)).
    unfold volume, block_box; cbn [bsx bsy bsz]. rewrite Ex, Ey, Ez.
    rewrite (Z.mul_comm (gnx g)), (Z.mul_comm (gny g)), (Z.mul_comm (gnz g)), !Z.div_mul by lia. reflexivity. }
  rewrite gleaves_xl, zsum_flat_map.
  rewrite (zsum_const _ (gny g * (gnz g * (sx * sy * sz)))).
  - rewrite zrange_length by lia. unfold volume. rewrite Ex, Ey, Ez. ring.
  - intros ix Hx. apply in_zrange in Hx. unfold xl. rewrite zsum_flat_map.
    rewrite (zsum_const _ (gnz g * (sx * sy * sz))).
    + rewrite zrange_length by lia. reflexivity.
    + intros iy Hy. apply in_zrange in Hy. unfold yl. rewrite zsum_flat_map.
      rewrite (zsum_const _ (sx * sy * sz)).
      * rewrite zrange_length by lia. reflexivity.
      * intros iz Hz'. apply in_zrange in Hz'. apply Hz; assumption.
Qed.

(* AMRGrid::operator[] and refine_cell at grid level *)
Theorem grid_cell_of_key_spec g c : wfgrid g -> In c (gleaves g) ->
  grid_cell_of_key g (gcode c) =
  Some (Leaf, gcell_box g c, Z.of_nat (length (snd c))).
Proof.
  intros W H. pose proof W as [Wx [Wy [Wz Wd]]]. destruct c as [[[ix iy] iz] p].
  apply in_gleaves in H. destruct H as [Hx [Hy [Hz Hp]]].
  pose proof (key_width _ _ Hp (Wd _ _ _ Hx Hy Hz)) as K. change (2 ^ 31) with 2147483648 in K.
  unfold grid_cell_of_key, gcode.
  destruct (key_block_full ix iy iz (code p)) as [A B]; try lia.
  rewrite A, B. rewrite (cell_of_key_spec _ p _ 0 Hp). reflexivity.
Qed.

Theorem grid_refine_spec g c : wfgrid g -> In c (gleaves g) -> (length (snd c) < 10)%nat ->
  exists g', grid_refine g (gcode c) =
             Some (g', gcode (fst c, snd c ++ [0])) /\
    gbox g' = gbox g /\ gnx g' = gnx g /\ gny g' = gny g /\ gnz g' = gnz g /\
    forall c', In c' (gleaves g') <-> (In c' (gleaves g) /\ c' <> c) \/ (exists d, 0 <= d < 8 /\ c' = (fst c, snd c ++ [d])).
Proof.
  intros W H Hlen. pose proof W as [Wx [Wy [Wz Wd]]]. destruct c as [[[ix iy] iz] p].
  cbn [fst snd] in *.
  pose proof H as H'. apply in_gleaves in H. destruct H as [Hx [Hy [Hz Hp]]].
  pose proof (key_width _ _ Hp (Wd _ _ _ Hx Hy Hz)) as K. change (2 ^ 31) with 2147483648 in K.
  unfold grid_refine, gcode.
  destruct (key_block_full ix iy iz (code p)) as [A B]; try lia.
  rewrite A, B.
  destruct (refine_spec (blk g ix iy iz) p Hp) as [t' [Er Hl]]. rewrite Er.
  eexists. split; [f_equal; f_equal|].
  - rewrite high_part by (try lia; change (2 ^ 32) with 4294967296; lia).
    rewrite !full_key_val. lia.
  - cbn [gbox gnx gny gnz]. repeat split; try reflexivity.
    + intros Hc'. destruct c' as [[[jx jy] jz] q]. apply in_gleaves in Hc'. cbn [gnx gny gnz blk] in Hc'.
      destruct Hc' as [Jx [Jy [Jz Hq]]].
      destruct ((jx =? ix) && (jy =? iy) && (jz =? iz)) eqn:E.
      * apply andb_prop in E. destruct E as [E E3]. apply andb_prop in E. destruct E as [E1 E2].
        apply Z.eqb_eq in E1, E2, E3. subst jx jy jz.
        apply Hl in Hq. destruct Hq as [[Hq Hne]|[d [Hd ->]]].
        -- left. split; [apply in_gleaves; auto|congruence].
        -- right. exists d. auto.
      * left. split; [apply in_gleaves; auto|]. intros E'. injection E' as -> -> -> ->.
        rewrite !Z.eqb_refl in E. discriminate.
    + intros [[Hc' Hne]|[d [Hd ->]]].
      * destruct c' as [[[jx jy] jz] q]. apply in_gleaves in Hc'. destruct Hc' as [Jx [Jy [Jz Hq]]].
        apply in_gleaves. cbn [gnx gny gnz blk]. repeat split; try lia.
        destruct ((jx =? ix) && (jy =? iy) && (jz =? iz)) eqn:E; [|exact Hq].
        apply andb_prop in E. destruct E as [E E3]. apply andb_prop in E. destruct E as [E1 E2].
        apply Z.eqb_eq in E1, E2, E3. subst jx jy jz.
        apply Hl. left. split; [exact Hq|congruence].
      * apply in_gleaves. cbn [gnx gny gnz blk]. repeat split; try lia.
        rewrite !Z.eqb_refl. cbn [andb]. apply Hl. right. exists d. auto.
Qed.

(* ------------------------------------------------------------------------- *)
(* B.  Morton keys                                                            *)

(* interleave of the k low bits, lowest bit triple in the lowest three key bits *)
Fixpoint ileave (k : nat) (x y z : Z) : Z :=
  match k with
  | O => 0
  | S k' => 8 * ileave k' (x / 2) (y / 2) (z / 2) + (4 * (x mod 2) + 2 * (y mod 2) + z mod 2)
  end.

Lemma land_pow2_test a i : 0 <= i -> (0 <? Z.land a (2 ^ i)) = Z.testbit a i.
Proof.
  intros Hi.
  assert (E : Z.land a (2 ^ i) = if Z.testbit a i then 2 ^ i else 0).
  { apply Z.bits_inj'. intros n Hn. rewrite Z.land_spec, Z.pow2_bits_eqb by lia.
    destruct (Z.eqb_spec i n) as [->|Hne].
    - destruct (Z.testbit a n); [rewrite Z.pow2_bits_eqb, Z.eqb_refl by lia; reflexivity|rewrite Z.bits_0; reflexivity].
    - rewrite andb_false_r. destruct (Z.testbit a i); [rewrite Z.pow2_bits_eqb by lia|rewrite Z.bits_0];
        [apply Z.eqb_neq in Hne; rewrite Hne|]; reflexivity. }
  rewrite E. destruct (Z.testbit a i); [apply Z.ltb_lt, Z.pow_pos_nonneg; lia|reflexivity].
Qed.

Lemma b2z_testbit a i : 0 <= i -> b2z (Z.testbit a i) = (a / 2 ^ i) mod 2.
Proof. intros Hi. rewrite <- Z.testbit_spec' by lia. destruct (Z.testbit a i); reflexivity. Qed.

Lemma ci_val (a b c : bool) :
  Z.lor (Z.lor (Z.shiftl (b2z a) 2) (Z.shiftl (b2z b) 1)) (b2z c) = 4 * b2z a + 2 * b2z b + b2z c.
Proof. destruct a, b, c; reflexivity. Qed.

Lemma div_pow2_succ a n : 0 <= n -> a / 2 ^ n / 2 = a / 2 ^ (n + 1).
Proof. intros. rewrite Z.div_div by (try apply Z.pow_nonzero; lia). rewrite Z.pow_add_r by lia. reflexivity. Qed.

(* the loop, started with the interleave of the bits above bit n, ends with the interleave of all bits *)
Lemma morton_loop_spec : forall n k x y z,
  morton_loop n x y z (2 ^ (Z.of_nat n - 1)) (ileave k (x / 2 ^ Z.of_nat n) (y / 2 ^ Z.of_nat n) (z / 2 ^ Z.of_nat n))
  = ileave (n + k) x y z.
Proof.
  induction n as [|n IH]; intros k x y z.
  - cbn [morton_loop Nat.add]. change (2 ^ Z.of_nat 0) with 1. rewrite !Z.div_1_r. reflexivity.
  - cbn [morton_loop]. rewrite Nat2Z.inj_succ. unfold Z.succ.
    replace (Z.of_nat n + 1 - 1) with (Z.of_nat n) by lia.
    rewrite !land_pow2_test, ci_val, !b2z_testbit, shl3 by lia.
    rewrite Z.shiftr_div_pow2 by lia. change (2 ^ 1) with 2.
    assert (E : 2 ^ Z.of_nat n / 2 = 2 ^ (Z.of_nat n - 1) \/ n = O).
    { destruct n as [|m]; [right; reflexivity|left].
      rewrite Nat2Z.inj_succ. unfold Z.succ. rewrite Z.pow_add_r by lia. change (2 ^ 1) with 2.
      rewrite Z.div_mul by lia. f_equal. lia. }
    replace (Nat.add (S n) k) with (Nat.add n (S k)) by lia.
    rewrite <- IH. cbn [ileave]. rewrite !div_pow2_succ by lia.
    destruct E as [E| ->]; [rewrite E; f_equal; lia|].
    cbn [morton_loop]. lia.
Qed.

Lemma morton_ileave x y z : 0 <= x < 2 ^ 21 -> 0 <= y < 2 ^ 21 -> 0 <= z < 2 ^ 21 ->
  morton x y z = ileave 21 x y z.
Proof.
  intros Hx Hy Hz. unfold morton.
  pose proof (morton_loop_spec 21 0 x y z) as H. cbn [ileave] in H.
  change (Z.of_nat 21 - 1) with 20 in H. change (2 ^ 20) with 1048576 in H.
  replace (21 + 0)%nat with 21%nat in H by reflexivity. exact H.
Qed.

Lemma ileave_range k x y z : 0 <= ileave k x y z < 2 ^ (3 * Z.of_nat k).
Proof.
  revert x y z. induction k as [|k IH]; intros x y z.
  - cbn. lia.
  - cbn [ileave]. rewrite Nat2Z.inj_succ. unfold Z.succ.
    replace (3 * (Z.of_nat k + 1)) with (3 + 3 * Z.of_nat k) by lia. rewrite Z.pow_add_r by lia.
    change (2 ^ 3) with 8. specialize (IH (x / 2) (y / 2) (z / 2)).
    pose proof (Z.mod_pos_bound x 2 ltac:(lia)). pose proof (Z.mod_pos_bound y 2 ltac:(lia)).
    pose proof (Z.mod_pos_bound z 2 ltac:(lia)). lia.
Qed.

Lemma land1 a : Z.land a 1 = a mod 2.
Proof. change 1 with (Z.ones 1). rewrite Z.land_ones by lia. reflexivity. Qed.

Lemma demorton_ileave k : forall x y z,
  demorton k (ileave k x y z) = (x mod 2 ^ Z.of_nat k, y mod 2 ^ Z.of_nat k, z mod 2 ^ Z.of_nat k).
Proof.
  induction k as [|k IH]; intros x y z.
  - cbn [demorton ileave]. change (2 ^ Z.of_nat 0) with 1. rewrite !Z.mod_1_r. reflexivity.
  - cbn [demorton ileave].
    pose proof (Z.mod_pos_bound x 2 ltac:(lia)) as Bx. pose proof (Z.mod_pos_bound y 2 ltac:(lia)) as By.
    pose proof (Z.mod_pos_bound z 2 ltac:(lia)) as Bz.
    set (I := ileave k (x / 2) (y / 2) (z / 2)).
    set (a := x mod 2) in *. set (b := y mod 2) in *. set (c := z mod 2) in *.
    assert (E3 : Z.shiftr (8 * I + (4 * a + 2 * b + c)) 3 = I).
    { rewrite shr3. symmetry. apply Z.div_unique with (r := 4 * a + 2 * b + c); [left; lia|lia]. }
    rewrite E3. unfold I. rewrite IH. fold I.
    rewrite !land1, !Z.shiftr_div_pow2 by lia.
    change (2 ^ 1) with 2. change (2 ^ 2) with 4.
    assert (Ea : (8 * I + (4 * a + 2 * b + c)) / 4 mod 2 = a).
    { assert (Q : (8 * I + (4 * a + 2 * b + c)) / 4 = 2 * I + a)
        by (symmetry; apply Z.div_unique with (r := 2 * b + c); [left; lia|lia]).
      rewrite Q. symmetry. apply Z.mod_unique with (q := I); [left; lia|lia]. }
    assert (Eb : (8 * I + (4 * a + 2 * b + c)) / 2 mod 2 = b).
    { assert (Q : (8 * I + (4 * a + 2 * b + c)) / 2 = 2 * (2 * I + a) + b)
        by (symmetry; apply Z.div_unique with (r := c); [left; lia|lia]).
      rewrite Q. symmetry. apply Z.mod_unique with (q := 2 * I + a); [left; lia|lia]. }
    assert (Ec : (8 * I + (4 * a + 2 * b + c)) mod 2 = c).
    { symmetry. apply Z.mod_unique with (q := 4 * I + 2 * a + b); [left; lia|lia]. }
    rewrite Ea, Eb, Ec. rewrite Nat2Z.inj_succ. unfold Z.succ.
    assert (R : forall v, 2 * ((v / 2) mod 2 ^ Z.of_nat k) + v mod 2 = v mod 2 ^ (Z.of_nat k + 1)).
    { intros v. rewrite (Z.add_comm (Z.of_nat k) 1), Z.pow_add_r by lia. change (2 ^ 1) with 2.
      rewrite Z.rem_mul_r by (try apply Z.pow_pos_nonneg; lia). lia. }
    unfold a, b, c. rewrite !R. reflexivity.
Qed.

Theorem demorton_morton x y z : 0 <= x < 2 ^ 21 -> 0 <= y < 2 ^ 21 -> 0 <= z < 2 ^ 21 ->
  demorton 21 (morton x y z) = (x, y, z).
Proof.
  intros Hx Hy Hz. rewrite morton_ileave by assumption. rewrite demorton_ileave.
  change (2 ^ Z.of_nat 21) with (2 ^ 21). rewrite !Z.mod_small by assumption. reflexivity.
Qed.

Theorem morton_injective x y z x' y' z' :
  0 <= x < 2 ^ 21 -> 0 <= y < 2 ^ 21 -> 0 <= z < 2 ^ 21 ->
  0 <= x' < 2 ^ 21 -> 0 <= y' < 2 ^ 21 -> 0 <= z' < 2 ^ 21 ->
  morton x y z = morton x' y' z' -> (x, y, z) = (x', y', z').
Proof.
  intros Hx Hy Hz Hx' Hy' Hz' E.
  rewrite <- (demorton_morton x y z), <- (demorton_morton x' y' z') by assumption. rewrite E. reflexivity.
Qed.

Theorem morton_width x y z : 0 <= x < 2 ^ 21 -> 0 <= y < 2 ^ 21 -> 0 <= z < 2 ^ 21 ->
  0 <= morton x y z < 2 ^ 63.
Proof. intros. rewrite morton_ileave by assumption. apply (ileave_range 21). Qed.

(* the key orders cells like the octants of the recursive subdivision: the top three bits are the
   octant of the top coordinate bits *)
Lemma morton_loop_S n x y z mask key :
  morton_loop (S n) x y z mask key =
  morton_loop n x y z (Z.shiftr mask 1)
    (Z.shiftl key 3 + Z.lor (Z.lor (Z.shiftl (b2z (0 <? Z.land x mask)) 2) (Z.shiftl (b2z (0 <? Z.land y mask)) 1))
                            (b2z (0 <? Z.land z mask))).
Proof. reflexivity. Qed.

Lemma morton_loop_key : forall n k key x y z,
  morton_loop n x y z k key = key * 2 ^ (3 * Z.of_nat n) + morton_loop n x y z k 0.
Proof.
  induction n as [|n IH]; intros k key x y z.
  - cbn [morton_loop]. change (2 ^ (3 * Z.of_nat 0)) with 1. lia.
  - rewrite !morton_loop_S. rewrite IH. rewrite (IH _ (Z.shiftl 0 3 + _)). rewrite shl3.
    change (Z.shiftl 0 3) with 0. rewrite Nat2Z.inj_succ. unfold Z.succ.
    replace (3 * (Z.of_nat n + 1)) with (3 + 3 * Z.of_nat n) by lia. rewrite Z.pow_add_r by lia.
    change (2 ^ 3) with 8. ring.
Qed.

Theorem morton_octant x y z : 0 <= x < 2 ^ 21 -> 0 <= y < 2 ^ 21 -> 0 <= z < 2 ^ 21 ->
  morton x y z / 2 ^ 60 = 4 * (x / 2 ^ 20) + 2 * (y / 2 ^ 20) + z / 2 ^ 20.
Proof.
  intros Hx Hy Hz. unfold morton. change 21%nat with (S 20). rewrite morton_loop_S.
  change (Z.shiftl 0 3) with 0.
  change 1048576 with (2 ^ 20). rewrite !land_pow2_test, ci_val, !b2z_testbit by lia.
  change (Z.shiftr (2 ^ 20) 1) with (2 ^ 19).
  assert (S : forall v, 0 <= v < 2 ^ 21 -> (v / 2 ^ 20) mod 2 = v / 2 ^ 20).
  { intros v Hv. apply Z.mod_small. split; [apply Z.div_pos; lia|apply Z.div_lt_upper_bound; lia]. }
  rewrite !S by assumption.
  set (o := 4 * (x / 2 ^ 20) + 2 * (y / 2 ^ 20) + z / 2 ^ 20).
  replace (0 + o) with o by lia.
  rewrite morton_loop_key. change (3 * Z.of_nat 20) with 60.
  assert (B : 0 <= morton_loop 20 x y z (2 ^ 19) 0 < 2 ^ 60).
  { pose proof (morton_loop_spec 20 0 x y z) as H0. change (ileave 0 _ _ _) with 0 in H0.
    change (Z.of_nat 20 - 1) with 19 in H0. rewrite H0. replace (20 + 0)%nat with 20%nat by reflexivity.
    apply (ileave_range 20). }
  symmetry. apply Z.div_unique with (r := morton_loop 20 x y z (2 ^ 19) 0); [left; lia|lia].
Qed.

(* ------------------------------------------------------------------------- *)
(* C.  Cartesian grid                                                         *)

Theorem indices_long ny nz ix iy iz : 0 <= ix -> 0 <= iy < ny -> 0 <= iz < nz ->
  indices ny nz (long_index ny nz ix iy iz) = (ix, iy, iz).
Proof.
  intros Hx Hy Hz. unfold indices, long_index.
  assert (Q1 : (ix * (ny * nz) + iy * nz + iz) / (ny * nz) = ix).
  { symmetry. apply Z.div_unique with (r := iy * nz + iz); [left; nia|lia]. }
  rewrite Q1.
  replace (ix * (ny * nz) + iy * nz + iz - ix * ny * nz) with (iy * nz + iz) by lia.
  assert (Q2 : (iy * nz + iz) / nz = iy).
  { symmetry. apply Z.div_unique with (r := iz); [left; lia|lia]. }
  rewrite Q2. f_equal. lia.
Qed.

Theorem long_indices nx ny nz l : 0 < ny -> 0 < nz -> 0 <= l < nx * ny * nz ->
  let '(ix, iy, iz) := indices ny nz l in
  0 <= ix < nx /\ 0 <= iy < ny /\ 0 <= iz < nz /\ long_index ny nz ix iy iz = l.
Proof.
  intros Hy Hz Hl. unfold indices, long_index.
  pose proof (Z.div_mod l (ny * nz) ltac:(nia)) as D1.
  pose proof (Z.mod_pos_bound l (ny * nz) ltac:(nia)) as B1.
  set (ix := l / (ny * nz)) in *.
  replace (l - ix * ny * nz) with (l mod (ny * nz)) by lia.
  set (l1 := l mod (ny * nz)) in *.
  pose proof (Z.div_mod l1 nz ltac:(lia)) as D2.
  pose proof (Z.mod_pos_bound l1 nz Hz) as B2.
  set (iy := l1 / nz) in *.
  assert (0 <= ix) by (apply Z.div_pos; nia).
  assert (ix < nx) by (apply Z.div_lt_upper_bound; nia).
  assert (0 <= iy) by (apply Z.div_pos; lia).
  assert (iy < ny) by (apply Z.div_lt_upper_bound; nia).
  repeat split; try lia.
Qed.

Theorem long_index_range nx ny nz ix iy iz : 0 <= ix < nx -> 0 <= iy < ny -> 0 <= iz < nz ->
  0 <= long_index ny nz ix iy iz < nx * ny * nz.
Proof.
  intros Hx Hy Hz. unfold long_index.
  assert (0 <= ny * nz) by nia.
  assert (iy * nz + iz < ny * nz) by nia.
  assert (0 <= iy * nz) by nia.
  assert (ix * (ny * nz) <= (nx - 1) * (ny * nz)) by (apply Z.mul_le_mono_nonneg_r; lia).
  assert (0 <= ix * (ny * nz)) by nia.
  split; [lia|]. replace (nx * ny * nz) with ((nx - 1) * (ny * nz) + ny * nz) by ring. lia.
Qed.

(* for (l = 0; l < nx*ny*nz; ++l): every index triple exactly once *)
Theorem cartesian_enumeration nx ny nz : 0 < nx -> 0 < ny -> 0 < nz ->
  NoDup (map (indices ny nz) (zrange (nx * ny * nz))) /\
  forall ix iy iz, (0 <= ix < nx /\ 0 <= iy < ny /\ 0 <= iz < nz) <->
                   In (ix, iy, iz) (map (indices ny nz) (zrange (nx * ny * nz))).
Proof.
  intros Hx Hy Hz. split.
  - apply NoDup_map_inj_on; [apply zrange_NoDup|].
    intros a b Ha Hb E. apply in_zrange in Ha, Hb.
    pose proof (long_indices nx ny nz a Hy Hz Ha) as A. pose proof (long_indices nx ny nz b Hy Hz Hb) as B.
    rewrite E in A. destruct (indices ny nz b) as [[ix iy] iz]. lia.
  - intros ix iy iz. rewrite in_map_iff. split.
    + intros [Rx [Ry Rz]]. exists (long_index ny nz ix iy iz). split.
      * apply indices_long; lia.
      * apply in_zrange. apply long_index_range; assumption.
    + intros [l [E Hl]]. apply in_zrange in Hl.
      pose proof (long_indices nx ny nz l Hy Hz Hl) as A. rewrite E in A. lia.
Qed.

(* the cell that get_cell_indices returns contains the position; no other cell does *)
Theorem cell_index_contains m n k : 0 < m -> 0 <= k < n * m ->
  0 <= cell_index m k < n /\ cell_lo m (cell_index m k) <= k < cell_hi m (cell_index m k) /\
  forall i, cell_lo m i <= k < cell_hi m i -> i = cell_index m k.
Proof.
  intros Hm Hk. unfold cell_index, cell_lo, cell_hi.
  pose proof (Z.div_mod k m ltac:(lia)) as D. pose proof (Z.mod_pos_bound k m Hm) as B.
  assert (0 <= k / m) by (apply Z.div_pos; lia).
  assert (k / m < n) by (apply Z.div_lt_upper_bound; nia).
  repeat split; try lia. intros i Hi. nia.
Qed.

(* cell volumes sum to the box volume *)
Theorem cartesian_volume nx ny nz mx my mz : 0 <= nx -> 0 <= ny -> 0 <= nz ->
  zsum (map (fun _ => mx * my * mz) (zrange (nx * ny * nz))) = (nx * mx) * (ny * my) * (nz * mz).
Proof.
  intros. rewrite (zsum_const _ (mx * my * mz)) by reflexivity. rewrite zrange_length by nia. ring.
Qed.

(* neighbours along one axis are mutual, with and without periodic wrap *)
Theorem ngb_axis_mutual n per i j : 0 < n -> 0 <= i < n ->
  (ngb_high n per i = Some j -> 0 <= j < n /\ ngb_low n per j = Some i) /\
  (ngb_low n per i = Some j -> 0 <= j < n /\ ngb_high n per j = Some i).
Proof.
  intros Hn Hi. unfold ngb_high, ngb_low. split; intros H.
  - destruct (Z.ltb_spec i (n - 1)).
    + injection H as <-. split; [lia|]. destruct (Z.ltb_spec 0 (i + 1)); [f_equal; lia|lia].
    + destruct per; [|discriminate]. injection H as <-. split; [lia|].
      destruct (Z.ltb_spec 0 0); [lia|]. f_equal. lia.
  - destruct (Z.ltb_spec 0 i).
    + injection H as <-. split; [lia|]. destruct (Z.ltb_spec (i - 1) (n - 1)); [f_equal; lia|lia].
    + destruct per; [|discriminate]. injection H as <-. split; [lia|].
      destruct (Z.ltb_spec (n - 1) (n - 1)); [lia|]. f_equal. lia.
Qed.

Definition wfc (g : cgrid) : Prop := 0 < cnx g /\ 0 < cny g /\ 0 < cnz g.
Definition ctotal (g : cgrid) : Z := cnx g * cny g * cnz g.

Lemma axis_cases (a : nat) : (a < 3)%nat -> a = 0%nat \/ a = 1%nat \/ a = 2%nat.
Proof. lia. Qed.

(* if l' is the neighbour of l through the upper (lower) face along an axis then l is the neighbour of l'
   through its lower (upper) face along the same axis *)
Theorem neighbours_mutual g l l' a high : wfc g -> (a < 3)%nat -> 0 <= l < ctotal g ->
  neighbour g l a high = Some l' ->
  0 <= l' < ctotal g /\ neighbour g l' a (negb high) = Some l.
Proof.
  intros [Wx [Wy Wz]] Ha Hl H. unfold neighbour, ctotal in *.
  pose proof (long_indices (cnx g) (cny g) (cnz g) l Wy Wz Hl) as L.
  destruct (indices (cny g) (cnz g) l) as [[ix iy] iz] eqn:El. destruct L as [Rx [Ry [Rz EL]]].
  destruct (axis_cases a Ha) as [->|[->| ->]]; cbn [get_axis set_axis cn cper clong] in *.
  - destruct ((if high then ngb_high else ngb_low) (cnx g) (cpx g) ix) as [j|] eqn:Ej; [|discriminate].
    injection H as <-.
    assert (M : 0 <= j < cnx g /\ (if negb high then ngb_high else ngb_low) (cnx g) (cpx g) j = Some ix).
    { destruct high; cbn [negb]; [apply (ngb_axis_mutual (cnx g) (cpx g) ix j)|apply (ngb_axis_mutual (cnx g) (cpx g) ix j)]; auto. }
    destruct M as [Rj Mj]. split; [apply long_index_range; assumption|].
    rewrite indices_long by lia. cbn [get_axis set_axis]. rewrite Mj. f_equal. exact EL.
  - destruct ((if high then ngb_high else ngb_low) (cny g) (cpy g) iy) as [j|] eqn:Ej; [|discriminate].
    injection H as <-.
    assert (M : 0 <= j < cny g /\ (if negb high then ngb_high else ngb_low) (cny g) (cpy g) j = Some iy).
    { destruct high; cbn [negb]; [apply (ngb_axis_mutual (cny g) (cpy g) iy j)|apply (ngb_axis_mutual (cny g) (cpy g) iy j)]; auto. }
    destruct M as [Rj Mj]. split; [apply long_index_range; assumption|].
    rewrite indices_long by lia. cbn [get_axis set_axis]. rewrite Mj. f_equal. exact EL.
  - destruct ((if high then ngb_high else ngb_low) (cnz g) (cpz g) iz) as [j|] eqn:Ej; [|discriminate].
    injection H as <-.
    assert (M : 0 <= j < cnz g /\ (if negb high then ngb_high else ngb_low) (cnz g) (cpz g) j = Some iz).
    { destruct high; cbn [negb]; [apply (ngb_axis_mutual (cnz g) (cpz g) iz j)|apply (ngb_axis_mutual (cnz g) (cpz g) iz j)]; auto. }
    destruct M as [Rj Mj]. split; [apply long_index_range; assumption|].
    rewrite indices_long by lia. cbn [get_axis set_axis]. rewrite Mj. f_equal. exact EL.
Qed.

(* is_inside: after one step out of the grid the periodic wrap gives the index modulo n and moves the
   position by whole box sides in the same sense; without periodicity the flag is the range test *)
Theorem wrap_axis_spec n per i : 0 < n -> -1 <= i <= n ->
  let '(inside, j, shift) := wrap_axis n per i in
  (per = true -> inside = true /\ 0 <= j < n /\ j = i mod n /\ i + shift * n = j) /\
  (per = false -> j = i /\ shift = 0 /\ (inside = true <-> 0 <= i < n)).
Proof.
  intros Hn Hi. unfold wrap_axis. destruct per.
  - destruct (Z.ltb_spec i 0).
    + destruct (Z.leb_spec n (n - 1)); [lia|]. split; [intros _|discriminate].
      repeat split; try lia. apply Z.mod_unique with (q := -1); [left; lia|lia].
    + destruct (Z.leb_spec n i).
      * split; [intros _|discriminate]. repeat split; try lia.
        apply Z.mod_unique with (q := 1); [left; lia|lia].
      * split; [intros _|discriminate]. repeat split; try lia. symmetry. apply Z.mod_small. lia.
  - split; [discriminate|intros _]. split; [reflexivity|]. split; [reflexivity|].
    rewrite andb_true_iff, Z.leb_le, Z.ltb_lt. tauto.
Qed.

(* ------------------------------------------------------------------------- *)
(* D.  pruned search                                                          *)

Section SearchProof.
  Context {P B : Type} (hit : P -> bool) (open : B -> bool).

  (* the pruning rule is sound on a tree when a closed node has no hit below it *)
  Fixpoint prune_ok (t : @stree P B) : Prop :=
    match t with
    | SLeaf _ => True
    | SNode b ch => (open b = false -> forall p, In p (points (SNode b ch)) -> hit p = false) /\
                    (fix all (l : list stree) : Prop := match l with [] => True | c :: r => prune_ok c /\ all r end) ch
    end.

  Lemma filter_none (l : list P) : (forall p, In p l -> hit p = false) -> filter hit l = [].
  Proof.
    induction l as [|a l IH]; intros H; [reflexivity|]. cbn [filter].
    rewrite (H a) by (left; reflexivity). apply IH. intros p Hp. apply H. right; exact Hp.
  Qed.

  Lemma filter_flat_map {A} (f : A -> list P) l : filter hit (flat_map f l) = flat_map (fun a => filter hit (f a)) l.
  Proof. induction l as [|a l IH]; [reflexivity|]. cbn [flat_map]. rewrite filter_app, IH. reflexivity. Qed.

  Theorem search_is_brute : forall t, prune_ok t -> search hit open t = brute hit t.
  Proof.
    fix IH 1. intros [p|b ch] H.
    - unfold brute. cbn [search points filter]. destruct (hit p); reflexivity.
    - unfold brute. cbn [search]. destruct H as [Hc Hall]. destruct (open b) eqn:E.
      + cbn [points]. rewrite filter_flat_map. clear Hc E.
        induction ch as [|c r IHr]; [reflexivity|]. destruct Hall as [H1 H2].
        cbn [flat_map]. rewrite (IH c H1). unfold brute. f_equal. apply IHr. exact H2.
      + symmetry. apply filter_none. apply Hc. reflexivity.
  Qed.
End SearchProof.

(* the geometric half of the pruning rule on one axis (Box::get_distance): the distance from a query to an
   interval is not larger than its distance to any point of the interval *)
Definition axis_dist (a s v : Z) : Z := if a <=? v then (if a + s <? v then v - a - s else 0) else v - a.

Theorem axis_dist_lower a s v p : 0 <= s -> a <= p <= a + s -> Z.abs (axis_dist a s v) <= Z.abs (v - p).
Proof.
  intros Hs Hp. unfold axis_dist. destruct (Z.leb_spec a v); [destruct (Z.ltb_spec (a + s) v)|]; lia.
Qed.

(* ------------------------------------------------------------------------- *)
(* the hypotheses of the theorems are satisfiable                             *)

Definition ex_grid : grid := mkGrid (mkBox (-7) 0 5 (3 * 1024) 1024 (2 * 1024)) 3 1 2 (fun _ _ _ => uniform 2).

Example ex_wfgrid : wfgrid ex_grid.
Proof. unfold wfgrid, ex_grid; cbn [gnx gny gnz blk]. repeat split; try lia. intros. rewrite depth_uniform. lia. Qed.

Example ex_okside : okside 10 1024.
Proof. exists 1. split; [lia|reflexivity]. Qed.

Example ex_wfgeom : wfgeom ex_grid 10.
Proof.
  unfold wfgeom, ex_grid; cbn [gbox gnx gny gnz blk bsx bsy bsz].
  repeat split; try (exists 1024; split; [exact ex_okside|reflexivity]).
  intros. rewrite depth_uniform. lia.
Qed.

Example ex_position : inbox (mkVec 3000 17 2052) (gbox ex_grid).
Proof. unfold inbox, ex_grid; cbn. lia. Qed.

Example ex_key : grid_get_key ex_grid (mkVec 3000 17 2052) = full_key 2 0 1 (code [5; 5]).
Proof. vm_compute. reflexivity. Qed.

Example ex_prune : prune_ok (fun p : Z => p <=? 3) (fun b : Z => b <=? 3)
                            (SNode 1 [SLeaf 2; SNode 5 [SLeaf 7; SLeaf 5]; SLeaf 4]).
Proof.
  cbn. repeat split; try discriminate.
  intros _ p [<-|[<-|[]]]; reflexivity.
Qed.
