(* C16: proofs about the models of Cxx/C16_Defs.v, for every tree (= every refinement history),
   every block count, every lattice position. *)
From Coq Require Import ZArith List Bool Lia Znumtheory.
From CMI Require Import Cxx.C16_Defs.
Import ListNotations.
Local Open Scope Z_scope.

(* ------------------------------------------------------------------------- *)
(* shifts and masks as arithmetic                                             *)

Definition P8 (level : Z) : Z := 2 ^ (3 * level).

Lemma P8_pos l : 0 <= l -> 0 < P8 l.
Proof. intros. unfold P8. apply Z.pow_pos_nonneg; lia. Qed.

Lemma P8_succ l : 0 <= l -> P8 (l + 1) = 8 * P8 l.
Proof.
  intros. unfold P8. replace (3 * (l + 1)) with (3 + 3 * l) by lia.
  rewrite Z.pow_add_r by lia. reflexivity.
Qed.

Lemma P8_0 : P8 0 = 1. Proof. reflexivity. Qed.

Lemma shl_P8 a l : 0 <= l -> Z.shiftl a (3 * l) = a * P8 l.
Proof. intros. apply Z.shiftl_mul_pow2. lia. Qed.

Lemma shr_P8 a l : 0 <= l -> Z.shiftr a (3 * l) = a / P8 l.
Proof. intros. apply Z.shiftr_div_pow2. lia. Qed.

Lemma land7 a : Z.land a 7 = a mod 8.
Proof. change 7 with (Z.ones 3). rewrite Z.land_ones by lia. reflexivity. Qed.

Lemma shr3 a : Z.shiftr a 3 = a / 8.
Proof. rewrite Z.shiftr_div_pow2 by lia. reflexivity. Qed.

Lemma shl3 a : Z.shiftl a 3 = a * 8.
Proof. rewrite Z.shiftl_mul_pow2 by lia. reflexivity. Qed.

Lemma div_low low P m : 0 <= low < P -> (low + P * m) / P = m.
Proof.
  intros H. symmetry. apply Z.div_unique with (r := low); [left; lia|lia].
Qed.

(* the child number of level l and the bits below it, as the C++ extracts them *)
Lemma digit_extract level low d r :
  0 <= level -> 0 <= low < P8 level -> 0 <= d < 8 ->
  let key := low + P8 level * (d + 8 * r) in
  Z.land (Z.shiftr key (3 * level)) 7 = d /\
  key - Z.shiftl (Z.shiftr key (3 * level)) (3 * level) = low.
Proof.
  intros Hl Hlow Hd key. subst key.
  rewrite shr_P8, shl_P8, land7, div_low by lia. split.
  - symmetry. apply Z.mod_unique with (q := r); [left; lia|lia].
  - lia.
Qed.

(* ------------------------------------------------------------------------- *)
(* paths and codes                                                            *)

Definition digits (p : path) : Prop := Forall (fun d => 0 <= d < 8) p.

Lemma code_pos p : digits p -> 1 <= code p.
Proof. induction 1; cbn [code]; lia. Qed.

Lemma code_range p : digits p -> P8 (Z.of_nat (length p)) <= code p < 2 * P8 (Z.of_nat (length p)).
Proof.
  induction 1 as [|d q Hd Hq IH]; cbn [code length].
  - rewrite P8_0. lia.
  - rewrite Nat2Z.inj_succ. unfold Z.succ. rewrite P8_succ by lia. lia.
Qed.

Lemma code_inj p q : digits p -> digits q -> code p = code q -> p = q.
Proof.
  intros Hp. revert q. induction Hp as [|d p Hd Hp IH]; intros q Hq E.
  - destruct Hq as [|e q He Hq]; [reflexivity|]. cbn [code] in E.
    pose proof (code_pos q Hq). lia.
  - destruct Hq as [|e q He Hq]; cbn [code] in E.
    + pose proof (code_pos p Hp). lia.
    + assert (d = e) by lia. subst e. f_equal. apply IH; [exact Hq|lia].
Qed.

(* a number in [8^m, 2 * 8^m) is never the 32 bit sentinel *)
Lemma not_sentinel m x : 0 <= m -> P8 m <= x < 2 * P8 m -> x <> MAXKEY32.
Proof.
  intros Hm Hx. unfold MAXKEY32. destruct (Z_le_gt_dec m 10) as [L|G].
  - assert (P8 m <= P8 10) by (unfold P8; apply Z.pow_le_mono_r; lia).
    change (P8 10) with 1073741824 in *. lia.
  - assert (P8 11 <= P8 m) by (unfold P8; apply Z.pow_le_mono_r; lia).
    change (P8 11) with 8589934592 in *. lia.
Qed.

Lemma enc_range level low p :
  0 <= level -> 0 <= low < P8 level -> digits p ->
  P8 (level + Z.of_nat (length p)) <= low + P8 level * code p < 2 * P8 (level + Z.of_nat (length p)).
Proof.
  intros Hl Hlow Hp. pose proof (code_range p Hp) as Hc.
  assert (E : P8 (level + Z.of_nat (length p)) = P8 level * P8 (Z.of_nat (length p))).
  { unfold P8. rewrite <- Z.pow_add_r by lia. f_equal. lia. }
  rewrite E. pose proof (P8_pos level Hl). nia.
Qed.

(* ------------------------------------------------------------------------- *)
(* leaves                                                                     *)

Lemma leaves_nonempty t : exists p rest, leaves t = p :: rest.
Proof.
  induction t as [|c0 IH0 c1 _ c2 _ c3 _ c4 _ c5 _ c6 _ c7 _].
  - exists [], []. reflexivity.
  - destruct IH0 as [p [rest E]]. cbn [leaves]. rewrite E. cbn [map app].
    eexists; eexists; reflexivity.
Qed.

Definition first_leaf (t : tree) : path := hd [] (leaves t).

Lemma leaves_first t : exists rest, leaves t = first_leaf t :: rest.
Proof. unfold first_leaf. destruct (leaves_nonempty t) as [p [r E]]. rewrite E. exists r. reflexivity. Qed.

Lemma Forall_map_cons (Q : path -> Prop) d l :
  (forall p, In p l -> Q (d :: p)) -> Forall Q (map (cons d) l).
Proof. intros H. apply Forall_forall. intros x Hx. apply in_map_iff in Hx. destruct Hx as [p [<- Hp]]. auto. Qed.

Lemma leaves_digits t : Forall digits (leaves t).
Proof.
  induction t as [|c0 IH0 c1 IH1 c2 IH2 c3 IH3 c4 IH4 c5 IH5 c6 IH6 c7 IH7].
  - repeat constructor.
  - cbn [leaves]. rewrite !Forall_app.
    repeat split; apply Forall_map_cons; intros p Hp;
      (constructor; [lia|]);
      match goal with IH : Forall digits (leaves ?c), Hp : In _ (leaves ?c) |- _ =>
        exact (proj1 (Forall_forall _ _) IH _ Hp) end.
Qed.

Lemma in_leaves_digits t p : In p (leaves t) -> digits p.
Proof. apply (proj1 (Forall_forall _ _) (leaves_digits t)). Qed.

Lemma max8_le (a0 a1 a2 a3 a4 a5 a6 a7 : nat) :
  let m := Nat.max a0 (Nat.max a1 (Nat.max a2 (Nat.max a3 (Nat.max a4 (Nat.max a5 (Nat.max a6 a7)))))) in
  (a0 <= m /\ a1 <= m /\ a2 <= m /\ a3 <= m /\ a4 <= m /\ a5 <= m /\ a6 <= m /\ a7 <= m)%nat.
Proof. cbv zeta. lia. Qed.

Lemma leaves_length t : Forall (fun p => (length p <= depth t)%nat) (leaves t).
Proof.
  induction t as [|c0 IH0 c1 IH1 c2 IH2 c3 IH3 c4 IH4 c5 IH5 c6 IH6 c7 IH7].
  - repeat constructor.
  - cbn [leaves depth].
    pose proof (max8_le (depth c0) (depth c1) (depth c2) (depth c3) (depth c4) (depth c5) (depth c6) (depth c7)) as M.
    cbv zeta in M. rewrite !Forall_app.
    repeat split; apply Forall_map_cons; intros p Hp; cbn [length];
      match goal with IH : Forall _ (leaves ?c), Hp : In _ (leaves ?c) |- _ =>
        pose proof (proj1 (Forall_forall _ _) IH _ Hp) as HH; cbv beta in HH end; lia.
Qed.

(* leaves of a node as a concatenation of eight blocks *)
Lemma leaves_node c0 c1 c2 c3 c4 c5 c6 c7 :
  leaves (Node c0 c1 c2 c3 c4 c5 c6 c7) =
  concat [map (cons 0) (leaves c0); map (cons 1) (leaves c1); map (cons 2) (leaves c2);
          map (cons 3) (leaves c3); map (cons 4) (leaves c4); map (cons 5) (leaves c5);
          map (cons 6) (leaves c6); map (cons 7) (leaves c7)].
Proof. cbn [leaves concat]. rewrite app_nil_r. reflexivity. Qed.

(* an element of a concatenation lies in one block *)
Lemma concat_split {A} (L : list (list A)) l1 x l2 :
  concat L = l1 ++ x :: l2 ->
  exists La a Lb a1 a2, L = La ++ a :: Lb /\ a = a1 ++ x :: a2 /\ l1 = concat La ++ a1 /\ l2 = a2 ++ concat Lb.
Proof.
  revert l1. induction L as [|b L IH]; intros l1 H.
  - cbn in H. destruct l1; discriminate.
  - cbn [concat] in H. apply app_eq_app in H. destruct H as [l [[H1 H2]|[H1 H2]]].
    + (* b = l1 ++ l, x :: l2 = l ++ concat L *)
      destruct l as [|y l].
      * cbn in H2. rewrite app_nil_r in H1. subst b.
        destruct (IH [] (eq_sym H2)) as [La [a [Lb [a1 [a2 [E1 [E2 [E3 E4]]]]]]]].
        exists (l1 :: La), a, Lb, a1, a2. repeat split; auto.
        -- cbn. rewrite E1. reflexivity.
        -- cbn [concat]. rewrite <- app_assoc, <- E3. rewrite app_nil_r. reflexivity.
      * cbn in H2. injection H2 as -> ->.
        exists [], b, L, l1, l. repeat split; auto.
    + (* l1 = b ++ l, concat L = l ++ x :: l2 *)
      destruct (IH l H2) as [La [a [Lb [a1 [a2 [E1 [E2 [E3 E4]]]]]]]].
      exists (b :: La), a, Lb, a1, a2. repeat split; auto.
      * cbn. rewrite E1. reflexivity.
      * cbn [concat]. rewrite <- app_assoc, <- E3. exact H1.
Qed.

Lemma map_cons_split d (l : list path) a1 x a2 :
  map (cons d) l = a1 ++ x :: a2 ->
  exists m1 q m2, l = m1 ++ q :: m2 /\ x = d :: q /\ a1 = map (cons d) m1 /\ a2 = map (cons d) m2.
Proof.
  intros H. apply map_eq_app in H. destruct H as [m1 [m2' [E1 [E2 E3]]]].
  apply map_eq_cons in E3. destruct E3 as [q [m2 [E4 [E5 E6]]]].
  exists m1, q, m2. subst. repeat split; reflexivity.
Qed.

(* ------------------------------------------------------------------------- *)
(* get_first_key                                                              *)

Lemma first_key_spec t : forall level, 0 <= level ->
  first_key t level = P8 level * code (first_leaf t).
Proof.
  induction t as [|c0 IH0 c1 _ c2 _ c3 _ c4 _ c5 _ c6 _ c7 _]; intros level Hl.
  - cbn [first_key]. unfold first_leaf. cbn. rewrite shl_P8 by lia. lia.
  - cbn [first_key]. rewrite IH0 by lia. unfold first_leaf at 2. cbn [leaves].
    destruct (leaves_first c0) as [rest E]. rewrite E. cbn [map app hd code].
    rewrite P8_succ by lia. lia.
Qed.

(* ------------------------------------------------------------------------- *)
(* get_next_key: the key of the cell that follows in the depth first order, or the sentinel *)

Definition next_spec (t : tree) : Prop :=
  forall level low, 0 <= level -> 0 <= low < P8 level ->
  forall l1 p l2, leaves t = l1 ++ p :: l2 ->
  next_key t (low + P8 level * code p) level =
  match l2 with [] => MAXKEY32 | p' :: _ => low + P8 level * code p' end.

Lemma pick_eq {A} i (a0 a1 a2 a3 a4 a5 a6 a7 : A) :
  (i = 0 -> pick i a0 a1 a2 a3 a4 a5 a6 a7 = a0) /\ (i = 1 -> pick i a0 a1 a2 a3 a4 a5 a6 a7 = a1) /\
  (i = 2 -> pick i a0 a1 a2 a3 a4 a5 a6 a7 = a2) /\ (i = 3 -> pick i a0 a1 a2 a3 a4 a5 a6 a7 = a3) /\
  (i = 4 -> pick i a0 a1 a2 a3 a4 a5 a6 a7 = a4) /\ (i = 5 -> pick i a0 a1 a2 a3 a4 a5 a6 a7 = a5) /\
  (i = 6 -> pick i a0 a1 a2 a3 a4 a5 a6 a7 = a6) /\ (i = 7 -> pick i a0 a1 a2 a3 a4 a5 a6 a7 = a7).
Proof. repeat split; intros ->; reflexivity. Qed.

(* one child: the tactic below is run once per child number *)
Lemma next_key_node_case c0 c1 c2 c3 c4 c5 c6 c7 d cd level low q m2 :
  0 <= level -> 0 <= low < P8 level -> 0 <= d < 8 -> digits q ->
  pick d c0 c1 c2 c3 c4 c5 c6 c7 = cd ->
  (forall m1, True -> True) ->
  next_key cd ((low + P8 level * d) + P8 (level + 1) * code q) (level + 1) =
    match m2 with [] => MAXKEY32 | q' :: _ => (low + P8 level * d) + P8 (level + 1) * code q' end ->
  Forall digits m2 ->
  next_key (Node c0 c1 c2 c3 c4 c5 c6 c7) (low + P8 level * code (d :: q)) level =
  match m2 with
  | q' :: _ => low + P8 level * code (d :: q')
  | [] => if d =? 7 then MAXKEY32
          else low + P8 level * code ((d + 1) :: first_leaf (pick (d + 1) c0 c1 c2 c3 c4 c5 c6 c7))
  end.
Proof.
  intros Hl Hlow Hd Hq Hpick _ IH Hm2.
  cbn [next_key code].
  destruct (digit_extract level low d (code q) Hl Hlow Hd) as [E1 E2]. cbv zeta in E1, E2.
  rewrite E1, E2, Hpick.
  assert (K : low + P8 level * (d + 8 * code q) = low + P8 level * d + P8 (level + 1) * code q).
  { rewrite P8_succ by lia. lia. }
  rewrite K, IH.
  destruct m2 as [|q' m2'].
  - rewrite Z.eqb_refl. destruct (d =? 7) eqn:E7; [reflexivity|].
    rewrite first_key_spec by lia. rewrite shl_P8 by lia. rewrite P8_succ by lia. lia.
  - assert (Hq' : digits q') by (inversion Hm2; assumption).
    pose proof (P8_pos level Hl) as HP.
    assert (R : 0 <= low + P8 level * d < P8 (level + 1)) by (rewrite P8_succ by lia; nia).
    pose proof (enc_range (level + 1) (low + P8 level * d) q' ltac:(lia) R Hq') as Hr.
    apply not_sentinel in Hr; [|lia].
    apply Z.eqb_neq in Hr. rewrite Hr. rewrite P8_succ by lia. lia.
Qed.

Lemma next_key_spec t : next_spec t.
Proof.
  induction t as [|c0 IH0 c1 IH1 c2 IH2 c3 IH3 c4 IH4 c5 IH5 c6 IH6 c7 IH7];
    intros level low Hl Hlow l1 p l2 H.
  - cbn [leaves] in H. destruct l1 as [|? l1]; [|destruct l1; discriminate].
    injection H as <- <-. reflexivity.
  - pose proof (leaves_digits (Node c0 c1 c2 c3 c4 c5 c6 c7)) as HD. rewrite H in HD.
    rewrite leaves_node in H.
    apply concat_split in H. destruct H as [La [a [Lb [a1 [a2 [EL [Ea [E1 E2]]]]]]]].
    (* which of the eight blocks *)
    do 8 (destruct La as [|? La]; [cbn [app] in EL; injection EL as; subst;
      match goal with Hm : map (cons ?d) (leaves ?c) = _ ++ _ :: _ |- _ =>
        apply map_cons_split in Hm; destruct Hm as [m1 [q [m2 [Em [-> [-> ->]]]]]];
        match goal with IH : next_spec c |- _ =>
          pose proof (IH (level + 1) (low + P8 level * d) ltac:(lia)) as IHc end;
        assert (Hq : digits q /\ Forall digits m2) by
          (pose proof (leaves_digits c) as HDc; rewrite Em in HDc; apply Forall_app in HDc;
           destruct HDc as [_ HDc]; inversion HDc; split; assumption);
        destruct Hq as [Hq Hm2];
        assert (R : 0 <= low + P8 level * d < P8 (level + 1)) by
          (pose proof (P8_pos level Hl); rewrite P8_succ by lia; nia);
        specialize (IHc R m1 q m2 Em);
        rewrite (next_key_node_case c0 c1 c2 c3 c4 c5 c6 c7 d c level low q m2 Hl Hlow ltac:(lia) Hq
                   eq_refl (fun _ x => x) IHc Hm2);
        destruct m2 as [|q' m2']; cbn [map app concat]; [|reflexivity];
        cbn [Z.eqb Pos.eqb pick Z.add Pos.add Pos.succ];
        try (match goal with |- context [first_leaf ?c'] =>
               destruct (leaves_first c') as [rest' Er]; rewrite Er end; cbn [map app]);
        reflexivity
      end
    | cbn [app] in EL; injection EL as ? EL; subst ]).
    destruct La; discriminate.
Qed.
