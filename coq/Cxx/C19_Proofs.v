(* C19: proofs about the time line model, for every history of requests. *)
From Coq Require Import ZArith List Bool Lia Sorted Znumtheory.
From CMI Require Import Cxx.C19_Defs.
Import ListNotations.
Local Open Scope Z_scope.

Definition pow2 (z : Z) : Prop := exists k, 0 <= k <= 63 /\ z = 2 ^ k.

Definition Inv (s : tl) : Prop :=
  pow2 (tmin s) /\ pow2 (tmax s) /\ tmin s <= tmax s /\ 0 <= cur s <= TOP /\ (tmin s | cur s).

Lemma pow2_pos z : pow2 z -> 0 < z.
Proof. intros [k [Hk ->]]. apply Z.pow_pos_nonneg; lia. Qed.

Lemma TOP_val : TOP = 2 ^ 63. Proof. reflexivity. Qed.
Lemma W64_val : W64 = 2 * TOP. Proof. reflexivity. Qed.
Lemma TOP_pos : 0 < TOP. Proof. reflexivity. Qed.

Lemma pow2_half k : 0 < k -> 2 ^ k / 2 = 2 ^ (k - 1).
Proof.
  intros Hk. replace k with (1 + (k - 1)) at 1 by lia.
  rewrite Z.pow_add_r by lia. change (2 ^ 1) with 2.
  rewrite Z.mul_comm, Z.div_mul by lia. reflexivity.
Qed.

Lemma pow2_le_mono j k : 0 <= j -> 0 <= k -> 2 ^ j <= 2 ^ k -> j <= k.
Proof.
  intros Hj Hk H. destruct (Z_le_gt_dec j k) as [L|G]; [exact L|].
  exfalso. assert (2 ^ k < 2 ^ j) by (apply Z.pow_lt_mono_r; lia). lia.
Qed.

Lemma pow2_divide j k : 0 <= j <= k -> (2 ^ j | 2 ^ k).
Proof.
  intros H. exists (2 ^ (k - j)). rewrite <- Z.pow_add_r by lia. f_equal. lia.
Qed.

(* --- first loop ------------------------------------------------------- *)
Lemma halve_gt_spec gt (G0 : gt 0 = false) :
  forall fuel k, 0 <= k -> (Z.to_nat k + 2 <= fuel)%nat ->
  exists r, halve_gt gt fuel (2 ^ k) = Some r
    /\ (r = 0 \/ exists j, 0 <= j <= k /\ r = 2 ^ j)
    /\ gt r = false
    /\ (forall j, 0 <= j <= k -> r < 2 ^ j -> gt (2 ^ j) = true).
Proof.
  induction fuel as [|f IH]; intros k Hk Hf; [lia|].
  cbn [halve_gt]. destruct (gt (2 ^ k)) eqn:E.
  - destruct (Z.eq_dec k 0) as [->|Hnz].
    + change (2 ^ 0 / 2) with 0. destruct f as [|f']; [lia|].
      cbn [halve_gt]. rewrite G0. exists 0. repeat split; auto.
      intros j Hj _. replace j with 0 by lia. exact E.
    + rewrite pow2_half by lia.
      destruct (IH (k - 1)) as [r [Hr [Hs [Hg Hm]]]]; [lia|lia|].
      exists r. split; [exact Hr|]. split.
      { destruct Hs as [->|[j [Hj ->]]]; [left; reflexivity|right; exists j; split; [lia|reflexivity]]. }
      split; [exact Hg|].
      intros j Hj Hlt. destruct (Z.eq_dec j k) as [->|Hne]; [exact E|].
      apply Hm; [lia|exact Hlt].
  - exists (2 ^ k). split; [reflexivity|]. split; [right; exists k; split; [lia|reflexivity]|].
    split; [exact E|]. intros j Hj Hlt.
    exfalso. assert (2 ^ j <= 2 ^ k) by (apply Z.pow_le_mono_r; lia). lia.
Qed.

(* --- second loop ------------------------------------------------------ *)
Lemma halve_mod_spec left (Hl : 0 <= left) :
  forall fuel k, 0 <= k -> (Z.to_nat k + 1 <= fuel)%nat ->
  exists j, 0 <= j <= k /\ halve_mod fuel left (2 ^ k) = Some (2 ^ j)
    /\ (2 ^ j | left)
    /\ (forall i, j < i <= k -> ~ (2 ^ i | left)).
Proof.
  induction fuel as [|f IH]; intros k Hk Hf; [lia|].
  cbn [halve_mod].
  assert (Hp : 0 < 2 ^ k) by (apply Z.pow_pos_nonneg; lia).
  destruct (Z.eqb_spec (2 ^ k) 0) as [E0|_]; [lia|].
  destruct (Z.ltb_spec 0 (left mod 2 ^ k)) as [Hm|Hm].
  - destruct (Z.eq_dec k 0) as [->|Hnz].
    { change (2 ^ 0) with 1 in Hm. rewrite Z.mod_1_r in Hm. lia. }
    rewrite pow2_half by lia.
    destruct (IH (k - 1)) as [j [Hj [Hr [Hd Hn]]]]; [lia|lia|].
    exists j. split; [lia|]. split; [exact Hr|]. split; [exact Hd|].
    intros i Hi. destruct (Z.eq_dec i k) as [->|Hne].
    + intros D. apply Z.mod_divide in D; lia.
    + apply Hn. lia.
  - exists k. split; [lia|]. split; [reflexivity|]. split.
    + apply Z.mod_divide; [lia|]. pose proof (Z.mod_pos_bound left (2 ^ k) Hp). lia.
    + intros i Hi. lia.
Qed.

(* --- one call of advance ---------------------------------------------- *)
Definition step_ok (gt : Z -> bool) (s : tl) (o : outcome) (s' : tl) : Prop :=
  match o with
  | Step ts hn =>
      Inv s' /\ cur s' = cur s + ts /\ tmin s' = tmin s /\ tmax s' = tmax s
      /\ pow2 ts /\ tmin s <= ts <= tmax s
      /\ gt ts = false                                   (* not larger than requested *)
      /\ (ts | TOP - cur s)                              (* divides the time remaining *)
      /\ (ts | TOP)                                      (* power-of-two fraction of the whole line *)
      /\ cur s' <= TOP /\ hn = (cur s' <? TOP)
      /\ (forall i, 0 <= i -> ts < 2 ^ i <= tmax s ->    (* and it is the largest such step *)
            gt (2 ^ i) = true \/ ~ (2 ^ i | TOP - cur s))
  | StopMin ts => s' = s /\ gt (tmin s) = true /\ ts < tmin s
  | StopAbs => s' = s /\ gt (tmin s) = true
  end.

(* A * 2^k > request is monotone in k (multiplication by a non-negative constant and
   rounding are monotone).  It is needed for one clause only: a step that the
   divisibility loop shortened is still not larger than requested. *)
Definition mono (gt : Z -> bool) : Prop :=
  forall i j, 0 <= i <= j -> j <= 63 -> gt (2 ^ j) = false -> gt (2 ^ i) = false.

Lemma advance_spec fuel gt s :
  (66 <= fuel)%nat -> gt 0 = false -> mono gt -> Inv s -> cur s < TOP ->
  exists o s', advance_with fuel gt s = Some (o, s') /\ step_ok gt s o s'.
Proof.
  intros Hf G0 Hmono (Hmin & Hmax & Hle & Hcur & Hdiv) Hlt.
  destruct Hmax as [kx [Hkx Ex]]. destruct Hmin as [kn [Hkn En]].
  assert (Hknx : kn <= kx) by (apply pow2_le_mono; lia).
  unfold advance_with. rewrite Ex.
  destruct (halve_gt_spec gt G0 fuel kx) as [r [Hr [Hs [Hg Hm]]]]; [lia|lia|].
  rewrite Hr.
  assert (Gmin_if : r < 2 ^ kn -> gt (tmin s) = true).
  { intros Hlt'. rewrite En. apply Hm; lia. }
  destruct Hs as [->|[j [Hj ->]]].
  - (* below the absolute limit *)
    cbn [Z.eqb]. exists StopAbs, s. split; [reflexivity|]. split; [reflexivity|].
    apply Gmin_if. apply Z.pow_pos_nonneg; lia.
  - assert (Hpj : 0 < 2 ^ j) by (apply Z.pow_pos_nonneg; lia).
    destruct (Z.eqb_spec (2 ^ j) 0) as [E0|_]; [lia|].
    assert (Eleft : (TOP - cur s) mod W64 = TOP - cur s).
    { apply Z.mod_small. rewrite W64_val. lia. }
    rewrite Eleft.
    destruct (halve_mod_spec (TOP - cur s) ltac:(lia) fuel j) as [i [Hi [Hr2 [Hd Hn]]]]; [lia|lia|].
    rewrite Hr2.
    destruct (Z.ltb_spec (2 ^ i) (tmin s)) as [Hlo|Hhi].
    + (* below the minimum: only possible when the request itself is below it *)
      exists (StopMin (2 ^ i)), s. split; [reflexivity|]. split; [reflexivity|]. split; [|exact Hlo].
      apply Gmin_if.
      destruct (Z_lt_le_dec (2 ^ j) (2 ^ kn)) as [L|G]; [exact L|exfalso].
      (* tmin = 2^kn divides left and kn <= j, so the loop cannot go below kn *)
      assert (Hkj : kn <= j) by (apply pow2_le_mono; lia).
      assert (Hik : i < kn).
      { rewrite En in Hlo. destruct (Z_lt_le_dec i kn); [assumption|].
        assert (2 ^ kn <= 2 ^ i) by (apply Z.pow_le_mono_r; lia). lia. }
      apply (Hn kn); [lia|].
      apply Z.divide_sub_r.
      * rewrite TOP_val. apply pow2_divide. lia.
      * rewrite <- En. exact Hdiv.
    + set (ts := 2 ^ i) in *.
      assert (Hpi : 0 < ts) by (apply Z.pow_pos_nonneg; lia).
      assert (Hts_le : ts <= TOP - cur s) by (apply Z.divide_pos_le; [lia|exact Hd]).
      assert (Ec : (cur s + ts) mod W64 = cur s + ts).
      { apply Z.mod_small. rewrite W64_val. lia. }
      rewrite Ec.
      eexists (Step ts _), _. split; [reflexivity|].
      assert (Hij : ts <= 2 ^ j) by (apply Z.pow_le_mono_r; lia).
      assert (HtsTOP : (ts | TOP)) by (rewrite TOP_val; apply pow2_divide; lia).
      assert (A1 : pow2 (tmin s)) by (exists kn; split; [lia|exact En]).
      assert (A2 : pow2 (tmax s)) by (exists kx; split; [lia|exact Ex]).
      assert (A3 : (tmin s | cur s + ts)).
      { apply Z.divide_add_r; [exact Hdiv|].
        rewrite En. apply pow2_divide.
        split; [lia|]. apply pow2_le_mono; [lia|lia|]. rewrite <- En. exact Hhi. }
      assert (A4 : pow2 ts) by (exists i; split; [lia|reflexivity]).
      assert (A5 : ts <= tmax s).
      { rewrite Ex. assert (2 ^ j <= 2 ^ kx) by (apply Z.pow_le_mono_r; lia). lia. }
      assert (A6 : gt ts = false) by (apply (Hmono i j); [lia|lia|exact Hg]).
      assert (A7 : forall i', 0 <= i' -> ts < 2 ^ i' <= tmax s ->
                   gt (2 ^ i') = true \/ ~ (2 ^ i' | TOP - cur s)).
      { intros i' Hi' [Hlo' Hhi'].
        rewrite Ex in Hhi'.
        assert (Hi'kx : i' <= kx) by (apply pow2_le_mono; lia).
        destruct (Z_lt_le_dec (2 ^ j) (2 ^ i')) as [L|G].
        - left. apply Hm; [lia|exact L].
        - right. apply Hn. split.
          + destruct (Z_lt_le_dec i i'); [assumption|].
            assert (2 ^ i' <= 2 ^ i) by (apply Z.pow_le_mono_r; lia). unfold ts in Hlo'. lia.
          + apply pow2_le_mono; lia. }
      cbn [step_ok]. unfold Inv. cbn [cur tmin tmax]. rewrite <- Ex.
      refine (conj (conj A1 (conj A2 (conj Hle (conj _ A3))))
             (conj eq_refl (conj eq_refl (conj eq_refl (conj A4 (conj (conj Hhi A5)
             (conj A6 (conj Hd (conj HtsTOP (conj _ (conj eq_refl A7))))))))))); lia.
Qed.

(* --- executable check of the monotonicity premise (run on every request of every
       correspondence case; soundness proved here) --------------------------- *)
Definition mono_check (gt : Z -> bool) : bool :=
  forallb (fun j => implb (negb (gt (2 ^ (Z.of_nat j + 1)))) (negb (gt (2 ^ Z.of_nat j)))) (seq 0 63).

Lemma mono_check_sound gt : mono_check gt = true -> mono gt.
Proof.
  intros H. unfold mono_check in H. rewrite forallb_forall in H.
  assert (Adj : forall j, 0 <= j < 63 -> gt (2 ^ (j + 1)) = false -> gt (2 ^ j) = false).
  { intros j Hj Hf. specialize (H (Z.to_nat j)).
    rewrite Z2Nat.id in H by lia.
    assert (In (Z.to_nat j) (seq 0 63)) as HIn by (apply in_seq; lia).
    specialize (H HIn). rewrite Hf in H. cbn in H.
    destruct (gt (2 ^ j)); [discriminate|reflexivity]. }
  intros i j Hij Hj Hf.
  remember (Z.to_nat (j - i)) as d eqn:Ed. revert j Hij Hj Hf Ed.
  induction d as [|d IH]; intros j Hij Hj Hf Ed.
  - replace i with j by lia. exact Hf.
  - apply (IH (j - 1)); [lia|lia| |lia].
    apply Adj; [lia|]. replace (j - 1 + 1) with j by lia. exact Hf.
Qed.

(* --- histories --------------------------------------------------------- *)
Inductive chain : tl -> list (Z -> bool) -> list (outcome * tl) -> Prop :=
| ch_nil s : chain s [] []
| ch_more s gt rest ts s' tr :
    step_ok gt s (Step ts true) s' -> chain s' rest tr ->
    chain s (gt :: rest) ((Step ts true, s') :: tr)
| ch_last s gt rest o s' :
    step_ok gt s o s' -> (forall ts, o <> Step ts true) ->
    chain s (gt :: rest) [(o, s')].

Definition good_req (gt : Z -> bool) : Prop := gt 0 = false /\ mono gt.

Lemma run_chain fuel : (66 <= fuel)%nat ->
  forall reqs s, Forall good_req reqs -> Inv s -> cur s < TOP ->
  chain s reqs (run_with fuel reqs s).
Proof.
  intros Hf. induction reqs as [|gt rest IH]; intros s Hg HI Hlt; [constructor|].
  inversion Hg as [|? ? [G0 Gm] Hrest]; subst.
  destruct (advance_spec fuel gt s Hf G0 Gm HI Hlt) as [o [s' [E Hok]]].
  cbn [run_with]. rewrite E.
  destruct o as [|ts|ts [|]].
  - apply ch_last; [exact Hok|discriminate].
  - apply ch_last; [exact Hok|discriminate].
  - apply ch_more; [exact Hok|].
    apply IH; [exact Hrest| |].
    + exact (proj1 Hok).
    + destruct Hok as (_ & _ & _ & _ & _ & _ & _ & _ & _ & _ & Hn & _).
      symmetry in Hn. apply Z.ltb_lt in Hn. exact Hn.
  - apply ch_last; [exact Hok|]. intros ts' Hc. discriminate.
Qed.

Fixpoint steps (tr : list (outcome * tl)) : list Z :=
  match tr with
  | [] => []
  | (Step ts _, _) :: r => ts :: steps r
  | _ :: r => steps r
  end.

Fixpoint times (tr : list (outcome * tl)) : list Z :=
  match tr with
  | [] => []
  | (Step _ _, s) :: r => cur s :: times r
  | _ :: r => times r
  end.

Definition zsum (l : list Z) : Z := fold_right Z.add 0 l.

Definition final (s0 : tl) (tr : list (outcome * tl)) : tl := last (map snd tr) s0.

Lemma last_cons {A} (l : list A) : forall a d, last (a :: l) d = last l a.
Proof.
  induction l as [|b l IH]; intros a d; [reflexivity|].
  change (last (a :: b :: l) d) with (last (b :: l) d). rewrite IH.
  change (last (b :: l) a) with (match l with [] => b | _ :: _ => last l a end).
  destruct l as [|c l']; [reflexivity|]. rewrite <- (IH b a). reflexivity.
Qed.

Lemma final_cons s0 x tr : final s0 (x :: tr) = final (snd x) tr.
Proof. unfold final. cbn [map]. apply last_cons. Qed.

Lemma chain_facts s reqs tr : chain s reqs tr -> Inv s -> cur s <= TOP ->
  Inv (final s tr)
  /\ cur (final s tr) = cur s + zsum (steps tr)
  /\ cur (final s tr) <= TOP
  /\ Forall (fun ts => 0 < ts) (steps tr)
  /\ StronglySorted Z.lt (cur s :: times tr)
  /\ Forall (fun t => cur s < t <= TOP) (times tr).
Proof.
  induction 1 as [s|s gt rest ts s' tr Hok Hch IH|s gt rest o s' Hok Hns]; intros HI Hle.
  - cbn. split; [exact HI|]. split; [lia|]. split; [exact Hle|]. split; [constructor|]. split; [repeat constructor|constructor].
  - destruct Hok as (HI' & Ec & _ & _ & Hp & _ & _ & _ & _ & Hle' & _ & _).
    destruct (IH HI' Hle') as (A & B & C & D & E & F).
    rewrite final_cons. cbn [snd steps times zsum fold_right].
    pose proof (pow2_pos _ Hp) as Hpos.
    split; [exact A|]. split; [fold (zsum (steps tr)); lia|]. split; [exact C|].
    split; [constructor; assumption|].
    assert (F' : Forall (fun t => cur s < t <= TOP) (times tr)).
    { eapply Forall_impl; [|exact F]. cbn. intros; lia. }
    split.
    + constructor; [exact E|]. constructor; [lia|].
      eapply Forall_impl; [|exact F']. cbn. intros; lia.
    + constructor; [lia|exact F'].
  - rewrite final_cons. unfold final. cbn [map last snd].
    destruct o as [| ts | ts hn]; cbn [step_ok] in Hok.
    + destruct Hok as [-> _]. cbn. split; [exact HI|]. split; [lia|]. split; [exact Hle|]. split; [constructor|]. split; [repeat constructor|constructor].
    + destruct Hok as [-> _]. cbn. split; [exact HI|]. split; [lia|]. split; [exact Hle|]. split; [constructor|]. split; [repeat constructor|constructor].
    + destruct Hok as (HI' & Ec & _ & _ & Hp & _ & _ & _ & _ & Hle' & _ & _).
      pose proof (pow2_pos _ Hp) as Hpos.
      cbn [steps times zsum fold_right].
      split; [exact HI'|]. split; [lia|]. split; [exact Hle'|].
      split; [repeat constructor; assumption|].
      split; [repeat constructor; lia|repeat constructor; lia].
Qed.

(* the run ends by reaching the end of the time line exactly *)
Lemma chain_end s reqs tr ts s' : chain s reqs tr -> Inv s -> cur s <= TOP ->
  last tr (StopAbs, s) = (Step ts false, s') ->
  cur s' = TOP /\ zsum (steps tr) = TOP - cur s /\ final s tr = s'.
Proof.
  induction 1 as [s|s gt rest t1 s1 tr Hok Hch IH|s gt rest o s1 Hok Hns]; intros HI Hle Hl.
  - cbn in Hl. discriminate.
  - destruct Hok as (HI' & Ec & _ & _ & Hp & _ & _ & _ & _ & Hle' & _ & _).
    assert (Hl' : last tr (StopAbs, s1) = (Step ts false, s')).
    { destruct tr as [|y tr']; [cbn in Hl; discriminate|].
      change (last ((Step t1 true, s1) :: y :: tr') (StopAbs, s)) with (last (y :: tr') (StopAbs, s)) in Hl.
      rewrite <- Hl. clear. revert y. induction tr' as [|z tr' IH']; intros y; [reflexivity|].
      change (last (y :: z :: tr') (StopAbs, s1)) with (last (z :: tr') (StopAbs, s1)).
      change (last (y :: z :: tr') (StopAbs, s)) with (last (z :: tr') (StopAbs, s)). apply IH'. }
    destruct (IH HI' Hle' Hl') as (A & B & C).
    rewrite final_cons. cbn [snd steps zsum fold_right]. fold (zsum (steps tr)).
    split; [exact A|]. split; [lia|exact C].
  - cbn in Hl. injection Hl as -> ->.
    destruct Hok as (HI' & Ec & _ & _ & Hp & _ & _ & _ & _ & Hle' & Hn & _).
    symmetry in Hn. apply Z.ltb_ge in Hn.
    cbn [steps zsum fold_right]. unfold final. cbn [map last snd]. repeat split; lia.
Qed.

(* --- constructor -------------------------------------------------------- *)
Lemma construct_spec fuel minpos maxpos gtmin gtmax :
  (66 <= fuel)%nat ->
  (minpos = true -> gtmin 0 = false) -> (maxpos = true -> gtmax 0 = false) ->
  exists s, construct_with fuel minpos maxpos gtmin gtmax = Some s /\ Inv s /\ cur s = 0
    /\ (minpos = true -> gtmin (tmin s) = false \/ tmin s = 1)
    /\ (maxpos = true -> gtmax (tmax s) = false \/ tmax s = tmin s).
Proof.
  intros Hf Hmn Hmx. unfold construct_with.
  assert (P1 : pow2 1) by (exists 0; split; [lia|reflexivity]).
  assert (PT : pow2 TOP) by (exists 63; split; [lia|reflexivity]).
  assert (Hmin : exists mn, (if minpos then match halve_gt gtmin fuel TOP with
                       | Some m => Some (Z.max 1 m) | None => None end else Some 1) = Some mn
                 /\ pow2 mn /\ (minpos = true -> gtmin mn = false \/ mn = 1)).
  { destruct minpos.
    - destruct (halve_gt_spec gtmin (Hmn eq_refl) fuel 63) as [r [Hr [Hs [Hg _]]]]; [lia|lia|].
      rewrite TOP_val, Hr. eexists. split; [reflexivity|].
      destruct Hs as [->|[j [Hj ->]]].
      + split; [exact P1|]. intros _. right. reflexivity.
      + assert (0 < 2 ^ j) by (apply Z.pow_pos_nonneg; lia).
        rewrite Z.max_r by lia. split; [exists j; split; [lia|reflexivity]|]. intros _. left. exact Hg.
    - exists 1. split; [reflexivity|]. split; [exact P1|]. discriminate. }
  destruct Hmin as [mn [-> [Pmn Gmn]]].
  assert (Hmn63 : mn <= TOP).
  { destruct Pmn as [k [Hk ->]]. rewrite TOP_val. apply Z.pow_le_mono_r; lia. }
  destruct maxpos.
  - destruct (halve_gt_spec gtmax (Hmx eq_refl) fuel 63) as [r [Hr [Hs [Hg _]]]]; [lia|lia|].
    rewrite TOP_val, Hr. eexists. split; [reflexivity|].
    cbn [cur tmin tmax]. unfold Inv. cbn [cur tmin tmax].
    pose proof (pow2_pos _ Pmn) as Hpmn.
    assert (Pmx : pow2 (Z.max mn r)).
    { destruct Hs as [->|[j [Hj ->]]].
      - rewrite Z.max_l by lia. exact Pmn.
      - destruct (Z.max_spec mn (2 ^ j)) as [[_ ->]|[_ ->]]; [exists j; split; [lia|reflexivity]|exact Pmn]. }
    repeat split; try assumption; try lia; try apply Z.divide_0_r.
    intros _. destruct (Z.max_spec mn r) as [[_ ->]|[_ ->]]; [left; exact Hg|right; reflexivity].
  - eexists. split; [reflexivity|]. unfold Inv. cbn [cur tmin tmax].
    repeat split; try assumption; try lia; try apply Z.divide_0_r. discriminate.
Qed.

Lemma restart_roundtrip s a b : read_tl (write_tl s a b) = Some (s, a, b).
Proof. destruct s; reflexivity. Qed.

(* --- non-vacuity: a concrete history that ends exactly on TOP ------------ *)
Definition ex_req (lim : Z) : Z -> bool := fun ts => lim <? ts.   (* "A*ts > request" with A = 1 *)
Definition ex_s0 : tl := mkTl (2 ^ 10) (2 ^ 62) 0.
Definition ex_reqs : list (Z -> bool) := [ex_req (2 ^ 61 + 5); ex_req (2 ^ 62 + 1); ex_req (2 ^ 62); ex_req (2 ^ 62)].

Example ex_run_ends :
  map fst (run ex_reqs ex_s0) = [Step (2 ^ 61) true; Step (2 ^ 61) true; Step (2 ^ 62) false].
Proof. vm_compute. reflexivity. Qed.

Example ex_premises : Inv ex_s0 /\ cur ex_s0 < TOP /\ Forall (fun g => g 0 = false /\ mono_check g = true) ex_reqs.
Proof.
  split; [|split].
  - unfold Inv, ex_s0. cbn [tmin tmax cur]. repeat split.
    + exists 10. split; [lia|reflexivity].
    + exists 62. split; [lia|reflexivity].
    + apply Z.pow_le_mono_r; lia.
    + lia.
    + discriminate.
    + apply Z.divide_0_r.
  - reflexivity.
  - repeat constructor.
Qed.

Example ex_stop_below_min :
  map fst (run [ex_req 1000] ex_s0) = [StopMin 512] /\ map fst (run [ex_req 0] ex_s0) = [StopAbs].
Proof. split; vm_compute; reflexivity. Qed.

(* --- statements exported to Props/Properties_C19.v ------------------------ *)
Lemma FUEL_ok : (66 <= FUEL)%nat. Proof. unfold FUEL. lia. Qed.

Lemma advance_thm gt s : good_req gt -> Inv s -> cur s < TOP ->
  exists o s', advance gt s = Some (o, s') /\ step_ok gt s o s'.
Proof. intros [G0 Gm]. apply advance_spec; [exact FUEL_ok|exact G0|exact Gm]. Qed.

Lemma history_thm reqs s0 : Forall good_req reqs -> Inv s0 -> cur s0 < TOP ->
  let tr := run reqs s0 in
  chain s0 reqs tr
  /\ Inv (final s0 tr)
  /\ cur (final s0 tr) = cur s0 + zsum (steps tr)
  /\ cur (final s0 tr) <= TOP
  /\ Forall (fun ts => 0 < ts) (steps tr)
  /\ StronglySorted Z.lt (cur s0 :: times tr)
  /\ Forall (fun t => cur s0 < t <= TOP) (times tr)
  /\ (forall ts s', last tr (StopAbs, s0) = (Step ts false, s') ->
        cur s' = TOP /\ zsum (steps tr) = TOP - cur s0 /\ final s0 tr = s').
Proof.
  intros Hg HI Hlt tr.
  assert (Hc : chain s0 reqs tr) by (apply run_chain; [exact FUEL_ok|assumption..]).
  split; [exact Hc|].
  destruct (chain_facts _ _ _ Hc HI ltac:(lia)) as (A & B & C & D & E & F).
  repeat (split; [assumption|]).
  intros ts s' Hl. eapply chain_end; [exact Hc|exact HI|lia|exact Hl].
Qed.

Lemma construct_thm minpos maxpos gtmin gtmax :
  (minpos = true -> gtmin 0 = false) -> (maxpos = true -> gtmax 0 = false) ->
  exists s, construct minpos maxpos gtmin gtmax = Some s /\ Inv s /\ cur s = 0
    /\ (minpos = true -> gtmin (tmin s) = false \/ tmin s = 1)
    /\ (maxpos = true -> gtmax (tmax s) = false \/ tmax s = tmin s).
Proof. apply construct_spec. exact FUEL_ok. Qed.
