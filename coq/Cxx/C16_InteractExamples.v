(* C16 (traversal clauses): executable examples on the binary64 instance (all values exactly representable), among
   them the witnesses that the PINNED AMRDensityGrid::interact (flags false) violates the traversal clauses. *)
From Coq Require Import ZArith List Bool Floats.
From CMI Require Import Cxx.C02_Defs Cxx.C16_InteractDefs.
From CMI Require Cxx.C16_Defs.
Import ListNotations.
Local Open Scope float_scope.

Definition fuel100 : nat := 100.
Definition one_cell : cellc float := mkC 1 1 0.
Definition ph_of (p d : vec float) : lphoton float := mkLP p d 1 0 1.

(* ---- Cartesian: unit box, 8x8x8 cells, opacity 1 ---- *)
Definition cg_open : cgrid float := f_make_cgrid (mkV 0 0 0) (mkV 1 1 1) (mkI 8 8 8) (mkBV false false false).
Definition cg_per : cgrid float := f_make_cgrid (mkV 0 0 0) (mkV 1 1 1) (mkI 8 8 8) (mkBV true true true).

(* absorbed in an outermost cell while heading outward: the cell is returned, not end() *)
Example f_cart_absorbed_in_outermost_cell :
  exists r, f_cart_interact fuel100 cg_open (fun _ => one_cell) (ph_of (mkV 0.9375 0.5 0.5) (mkV 1 0 0)) 0.03125 = COk r /\
            cr_cell r = Some 484%Z /\ cr_pos r = mkV 0.96875 0.5 0.5 /\ cr_vis r = [(484%Z, 0.03125)].
Proof. vm_compute. eexists. repeat split; reflexivity. Qed.

(* the same photon with a larger target leaves through the open face: end() *)
Example f_cart_escapes :
  exists r, f_cart_interact fuel100 cg_open (fun _ => one_cell) (ph_of (mkV 0.9375 0.5 0.5) (mkV 1 0 0)) 1 = COk r /\
            cr_cell r = None /\ cr_pos r = mkV 1 0.5 0.5 /\ cr_vis r = [(484%Z, 0.0625)] /\ cs_tau (cr_fin r) = 0.9375.
Proof. vm_compute. eexists. repeat split; reflexivity. Qed.

(* periodic box: the photon stops in the last cell before the periodic face: no wrap *)
Example f_cart_periodic_stops_before_face :
  exists r, f_cart_interact fuel100 cg_per (fun _ => one_cell) (ph_of (mkV 0.9375 0.5 0.5) (mkV 1 0 0)) 0.03125 = COk r /\
            cr_cell r = Some 484%Z /\ cr_pos r = mkV 0.96875 0.5 0.5.
Proof. vm_compute. eexists. repeat split; reflexivity. Qed.

(* periodic box: absorbed right after the wrap, in the first cell on the other side *)
Example f_cart_periodic_absorbed_after_wrap :
  exists r, f_cart_interact fuel100 cg_per (fun _ => one_cell) (ph_of (mkV 0.9375 0.5 0.5) (mkV 1 0 0)) 0.09375 = COk r /\
            cr_cell r = Some 36%Z /\ cr_pos r = mkV 0.03125 0.5 0.5 /\ map fst (cr_vis r) = [484%Z; 36%Z].
Proof. vm_compute. eexists. repeat split; reflexivity. Qed.

(* ---- AMR: unit box, one cell, opacity 1 ---- *)
Definition ag_one (per : bvec) : agrid float := mkAG (mkV 0 0 0) (mkV 1 1 1) (mkI 1 1 1) per (fun _ _ _ => C16_Defs.Leaf).
Definition the_cell : cref := (mkI 0 0 0, []).
Definition ph_centre : lphoton float := ph_of (mkV 0.5 0.5 0.5) (mkV 1 0 0).

(* defect A of the pinned code: the target 0.25 is reached at x = 0.75 inside the only cell (the optical depth left
   is negative, the path 0.25 is credited), but end() is returned *)
Lemma amr_absorbed_reported_escaped_refuted_thm :
  exists r, f_amr_interact false false false fuel100 (ag_one (mkBV false false false)) (fun _ => one_cell) ph_centre 0.25 = AOk r /\
            ar_cell r = None /\ ar_pos r = mkV 0.75 0.5 0.5 /\ ar_vis r = [(the_cell, 0.25)] /\
            PrimFloat.ltb (as_tau (ar_fin r)) 0 = true.
Proof. vm_compute. eexists. repeat split; reflexivity. Qed.

(* the repaired code returns the cell *)
Example f_amr_absorbed_in_outermost_cell_fixed :
  exists r, f_amr_interact true true true fuel100 (ag_one (mkBV false false false)) (fun _ => one_cell) ph_centre 0.25 = AOk r /\
            ar_cell r = Some the_cell /\ ar_pos r = mkV 0.75 0.5 0.5 /\ ar_vis r = [(the_cell, 0.25)].
Proof. vm_compute. eexists. repeat split; reflexivity. Qed.

(* defect B of the pinned code: one cell along a periodic axis.  After reaching the face x = 1 the photon is never
   moved again: every further pass through the loop credits a visit of length 0 and leaves the state unchanged,
   so the loop does not end for ANY amount of fuel *)
Definition stuck_state (vis : list (cref * float)) (last : option cref) : astate float :=
  mkAS (mkV 1 0.5 0.5) (Some the_cell) 0.25 vis last.

Lemma amr_stuck_step vis last :
  abody FOps PrimFloat.sqrt 0.5 false false false (ag_one (mkBV true false false)) (mkV 1 0 0)
        (fun c ds => lod FOps ph_centre one_cell ds) the_cell (stuck_state vis last)
  = stuck_state ((the_cell, 0) :: vis) (Some the_cell).
Proof.
  unfold abody, stuck_state. cbn [as_pos as_tau as_vis].
  set (w := wall_intersection FOps PrimFloat.sqrt 0.5 false false (ag_one (mkBV true false false)) (mkV 1 0 0) the_cell (mkV 1 0.5 0.5)).
  assert (E : w = mkWI (mkV 1 0.5 0.5) 0 (Some the_cell) (mkV 0 0 0) 0%Z true) by (vm_compute; reflexivity).
  rewrite E. cbn [wi_ds wi_wall wi_corr wi_next].
  assert (T : lod FOps ph_centre one_cell 0 = 0) by (vm_compute; reflexivity). rewrite T.
  assert (S : o_sub FOps 0.25 0 = 0.25) by (vm_compute; reflexivity). rewrite S.
  assert (L : o_ltb FOps 0.25 (o_zero FOps) = false) by (vm_compute; reflexivity). rewrite L.
  assert (P : vplus FOps (mkV 1 0.5 0.5) (mkV 0 0 0) = mkV 1 0.5 0.5) by (vm_compute; reflexivity). rewrite P.
  reflexivity.
Qed.

Lemma amr_stuck_forever fuel : forall vis last,
  amarch FOps PrimFloat.sqrt 0.5 false false false (ag_one (mkBV true false false)) (mkV 1 0 0)
         (fun c ds => lod FOps ph_centre one_cell ds) fuel (stuck_state vis last) = None.
Proof.
  induction fuel; intros vis last.
  - reflexivity.
  - cbn [amarch stuck_state as_cur as_tau]. change (o_ltb FOps (o_zero FOps) 0.25) with true. cbn iota.
    rewrite amr_stuck_step. apply IHfuel.
Qed.

Lemma amr_periodic_single_cell_hang_refuted_thm : forall fuel,
  f_amr_interact false false false fuel (ag_one (mkBV true false false)) (fun _ => one_cell) ph_centre 0.75 = AErrFuel.
Proof.
  intros fuel. unfold f_amr_interact, amr_interact.
  set (st0 := mkAS (lp_pos ph_centre) (Some (amr_locate FOps 0.5 (ag_one (mkBV true false false)) (lp_pos ph_centre))) 0.75 [] None).
  assert (E0 : st0 = mkAS (mkV 0.5 0.5 0.5) (Some the_cell) 0.75 [] None) by (vm_compute; reflexivity).
  rewrite E0. clear E0 st0.
  destruct fuel as [|fuel]. reflexivity.
  cbn [amarch as_cur as_tau]. change (o_ltb FOps (o_zero FOps) 0.75) with true. cbn iota.
  assert (S1 : abody FOps PrimFloat.sqrt 0.5 false false false (ag_one (mkBV true false false)) (lp_dir ph_centre)
                 (fun c ds => lod FOps ph_centre one_cell ds) the_cell (mkAS (mkV 0.5 0.5 0.5) (Some the_cell) 0.75 [] None)
               = stuck_state [(the_cell, 0.5)] (Some the_cell)) by (vm_compute; reflexivity).
  rewrite S1. change (lp_dir ph_centre) with (mkV 1 0 0). rewrite amr_stuck_forever. reflexivity.
Qed.

(* the repaired code wraps the photon and absorbs it at x = 0.25 *)
Example f_amr_periodic_single_cell_fixed :
  exists r, f_amr_interact true true true fuel100 (ag_one (mkBV true false false)) (fun _ => one_cell) ph_centre 0.75 = AOk r /\
            ar_cell r = Some the_cell /\ ar_pos r = mkV 0.25 0.5 0.5 /\ ar_vis r = [(the_cell, 0.5); (the_cell, 0.25)].
Proof. vm_compute. eexists. repeat split; reflexivity. Qed.

(* defect C of the pinned code: box [0,2]x[0,1]x[0,1] of two blocks, periodic in x, the left block refined once.
   A photon leaving the right block through x = 2 re-enters at x = 0 and must continue in the child [0,0.5]^3
   (number 0); the pinned code continues in the child [0.5,1]x[0,0.5]^2 (number 4) on the far side, credits the path
   to it and returns it although the final position (0.25,0.25,0.25) is not in it *)
Definition ag_two : agrid float :=
  mkAG (mkV 0 0 0) (mkV 2 1 1) (mkI 2 1 1) (mkBV true false false)
       (fun x _ _ => if (x =? 0)%Z then C16_Defs.uniform 1 else C16_Defs.Leaf).
Definition right_block : cref := (mkI 1 0 0, []).
Definition near_child : cref := (mkI 0 0 0, [0%Z]).
Definition far_child : cref := (mkI 0 0 0, [4%Z]).

Lemma amr_periodic_wrong_child_refuted_thm :
  exists r, f_amr_interact true true false fuel100 ag_two (fun _ => one_cell) (ph_of (mkV 1.5 0.25 0.25) (mkV 1 0 0)) 0.75 = AOk r /\
            ar_cell r = Some far_child /\ ar_pos r = mkV 0.25 0.25 0.25 /\ ar_vis r = [(right_block, 0.5); (far_child, 0.25)] /\
            f_box_of ag_two far_child = mkTB (mkV 0.5 0 0) (mkV 0.5 0.5 0.5).
Proof. vm_compute. eexists. repeat split; reflexivity. Qed.

Example f_amr_periodic_child_fixed :
  exists r, f_amr_interact true true true fuel100 ag_two (fun _ => one_cell) (ph_of (mkV 1.5 0.25 0.25) (mkV 1 0 0)) 0.75 = AOk r /\
            ar_cell r = Some near_child /\ ar_pos r = mkV 0.25 0.25 0.25 /\ ar_vis r = [(right_block, 0.5); (near_child, 0.25)] /\
            f_box_of ag_two near_child = mkTB (mkV 0 0 0) (mkV 0.5 0.5 0.5).
Proof. vm_compute. eexists. repeat split; reflexivity. Qed.

(* ---- no termination bound exists with periodic boundaries: a photon in a periodic box of zero opacity goes round
   for ever (one cell, periodic in x, density 0): the loop does not end for ANY amount of fuel, as in the real code *)
Definition cg_ring : cgrid float := f_make_cgrid (mkV 0 0 0) (mkV 1 1 1) (mkI 1 1 1) (mkBV true false false).
Definition vacuum_cell : cellc float := mkC 0 1 0.
Definition ring_state (vis : list (Z * float)) (k : Z) : cstate float :=
  mkCS (mkV 1 0.5 0.5) (mkI 1 0 0) 1 vis (Some 0%Z) k.

Lemma cmarch_S g d invd od f (st : cstate float) :
  cmarch FOps g d invd od (S f) st =
  let '(ins, i, p) := cwrap FOps g (cs_idx st) (cs_pos st) in
  let st1 := mkCS p i (cs_tau st) (cs_vis st) (cs_last st) (cs_ncell st) in
  if ins && o_ltb FOps (o_zero FOps) (cs_tau st) then cmarch FOps g d invd od f (cbody FOps g d invd od st1) else Some (st1, ins).
Proof. reflexivity. Qed.

Lemma cart_ring_forever fuel : forall vis k,
  cmarch FOps cg_ring (mkV 1 0 0) (mkV 1 infinity infinity) (fun c ds => lod FOps ph_centre vacuum_cell ds) fuel (ring_state vis k) = None.
Proof.
  induction fuel; intros vis k.
  - reflexivity.
  - rewrite cmarch_S. unfold ring_state at 1 2 3 4 5 6. cbn [cs_idx cs_pos cs_tau cs_vis cs_last cs_ncell].
    assert (W : cwrap FOps cg_ring (mkI 1 0 0) (mkV 1 0.5 0.5) = (true, mkI 0 0 0, mkV 0 0.5 0.5)) by (vm_compute; reflexivity).
    rewrite W. change (o_ltb FOps (o_zero FOps) 1) with true. cbn [andb].
    assert (B : cbody FOps cg_ring (mkV 1 0 0) (mkV 1 infinity infinity) (fun c ds => lod FOps ph_centre vacuum_cell ds)
                  (mkCS (mkV 0 0.5 0.5) (mkI 0 0 0) 1 vis (Some 0%Z) k) = ring_state ((0%Z, 1) :: vis) (k + 1)).
    { unfold cbody. cbn [cs_idx cs_pos cs_tau cs_vis cs_last cs_ncell].
      set (l := cwalls FOps cg_ring (mkV 1 0 0) (mkV 1 infinity infinity) (mkCS (mkV 0 0.5 0.5) (mkI 0 0 0) 1 vis (Some 0%Z) k)).
      assert (El : l = mkV 1 0x1.fffffffffffffp+1023 0x1.fffffffffffffp+1023) by (vm_compute; reflexivity). rewrite El.
      assert (Em : lmin_of FOps (mkV 1 0x1.fffffffffffffp+1023 0x1.fffffffffffffp+1023) = 1) by (vm_compute; reflexivity). rewrite Em.
      assert (Ec : clong cg_ring (mkI 0 0 0) = 0%Z) by (vm_compute; reflexivity). rewrite Ec.
      assert (Et : lod FOps ph_centre vacuum_cell 1 = 0) by (vm_compute; reflexivity). rewrite Et.
      assert (Es : o_sub FOps 1 0 = 1) by (vm_compute; reflexivity). rewrite Es.
      change (o_ltb FOps 1 (o_zero FOps)) with false. cbn iota.
      assert (Ep : vplus FOps (mkV 0 0.5 0.5) (vscale FOps (mkV 1 0 0) 1) = mkV 1 0.5 0.5) by (vm_compute; reflexivity). rewrite Ep.
      unfold ring_state. f_equal. }
    rewrite B. apply IHfuel.
Qed.

Lemma cart_periodic_vacuum_never_ends_thm : forall fuel,
  f_cart_interact fuel cg_ring (fun _ => vacuum_cell) ph_centre 1 = CErrFuel.
Proof.
  intros fuel. unfold f_cart_interact, cart_interact.
  change (lp_dir ph_centre) with (mkV 1 0 0).
  assert (Ei : mkV (o_div FOps (o_one FOps) (vx (mkV 1 0 0))) (o_div FOps (o_one FOps) (vy (mkV 1 0 0))) (o_div FOps (o_one FOps) (vz (mkV 1 0 0)))
               = mkV 1 infinity infinity) by (vm_compute; reflexivity).
  rewrite Ei.
  assert (E0 : cell_indices FOps cg_ring (lp_pos ph_centre) = mkI 0 0 0) by (vm_compute; reflexivity). rewrite E0.
  destruct fuel as [|fuel]. reflexivity.
  rewrite cmarch_S. cbn [cs_idx cs_pos cs_tau cs_vis cs_last cs_ncell].
  assert (W : cwrap FOps cg_ring (mkI 0 0 0) (lp_pos ph_centre) = (true, mkI 0 0 0, mkV 0.5 0.5 0.5)) by (vm_compute; reflexivity).
  rewrite W. change (o_ltb FOps (o_zero FOps) 1) with true. cbn [andb].
  assert (B : cbody FOps cg_ring (mkV 1 0 0) (mkV 1 infinity infinity) (fun c ds => lod FOps ph_centre vacuum_cell ds)
                (mkCS (mkV 0.5 0.5 0.5) (mkI 0 0 0) 1 [] None 0) = ring_state [(0%Z, 0.5)] 1) by (vm_compute; reflexivity).
  rewrite B. rewrite cart_ring_forever. reflexivity.
Qed.
