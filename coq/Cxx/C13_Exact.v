(* C13: the integer model is the binary64 computation.  A numerator n with |n| <= 2^48 stands for the
   real n * 2^-48, which is a binary64 number (Flocq: generic_format radix2 (FLT_exp (-1074) 53)), so
   the double operations that produce it (a difference of two such numbers, +-2^-48, +-1) return it
   without rounding: IEEE-754 operations return the exact result whenever it is representable. *)
From Coq Require Import ZArith Reals List Lia.
From Flocq Require Import Core.
From CMI Require Import Cxx.C13_Defs Cxx.C13_Proofs.
Local Open Scope Z_scope.

Definition b64 : R -> Prop := generic_format radix2 (FLT_exp (-1074) 53).

Definition real_of (n : Z) : R := F2R (Float radix2 n (-48)).

Lemma real_of_scaled : forall n, real_of n = (IZR n * bpow radix2 (-48))%R.
Proof. reflexivity. Qed.

Lemma exact48_b64 : forall n, exact48 n -> b64 (real_of n).
Proof.
  intros n H. unfold b64, real_of. apply generic_format_FLT.
  apply (FLT_spec radix2 (-1074) 53 _ (Float radix2 n (-48))); cbn [Fnum Fexp]; try reflexivity; try lia.
  unfold exact48, W in H. change (radix2 ^ 53) with 9007199254740992. lia.
Qed.

(* the model's arithmetic on numerators is real arithmetic on the doubles they stand for *)
Lemma real_of_sub : forall a b, real_of (a - b) = (real_of a - real_of b)%R.
Proof. intros. unfold real_of, F2R. cbn [Fnum Fexp]. rewrite minus_IZR. ring. Qed.

Lemma real_of_add : forall a b, real_of (a + b) = (real_of a + real_of b)%R.
Proof. intros. unfold real_of, F2R. cbn [Fnum Fexp]. rewrite plus_IZR. ring. Qed.

Lemma real_of_W : real_of W = 1%R.
Proof.
  unfold real_of, F2R, W. cbn [Fnum Fexp].
  replace (IZR 281474976710656) with (bpow radix2 48) by (rewrite <- IZR_Zpower by lia; reflexivity).
  rewrite <- bpow_plus. reflexivity.
Qed.

Lemma real_of_1 : real_of 1 = (/ IZR 281474976710656)%R.
Proof.
  unfold real_of, F2R. cbn [Fnum Fexp]. rewrite Rmult_1_l.
  replace (IZR 281474976710656) with (bpow radix2 48) by (rewrite <- IZR_Zpower by lia; reflexivity).
  rewrite <- bpow_opp. reflexivity.
Qed.

Lemma exact_in_binary64 : forall l, locwf l ->
  Forall (fun v => b64 (real_of v)) (body_ivals l) /\
  (forall i1 i2, i2 = (lir l + 1) mod 12 -> i1 = (ljr l + 1) mod 12 -> i1 <> lir l ->
     Forall (fun v => b64 (real_of v)) (rs_ivals (lx l) (pend l) i1 i2)).
Proof.
  intros l H. split.
  - eapply Forall_impl; [|apply body_exact; auto]. apply exact48_b64.
  - intros i1 i2 H2 H1 Hne. eapply Forall_impl; [|apply (rs_exact l i1 i2 H H2 H1 Hne)]. apply exact48_b64.
Qed.
