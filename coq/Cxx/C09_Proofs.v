(* C09  stop/restart continues exactly -- proofs *)
From Coq Require Import List NArith Bool String PeanoNat Strings.Byte Lia.
From Coq Require Import Floats.
From CMI Require Import Cxx.C09_Defs.
Import ListNotations.
Open Scope N_scope.

(* ------------------------------------------------------------------------- *)
(** * codec *)

Lemma to_N_byte_of_N : forall n, Byte.to_N (byte_of_N n) = n mod 256.
Proof.
  intro n. unfold byte_of_N.
  destruct (Byte.of_N (n mod 256)) eqn:E.
  - apply Byte.to_of_N in E. exact E.
  - apply Byte.of_N_None_iff in E.
    assert (n mod 256 < 256) by (apply N.mod_lt; discriminate). lia.
Qed.

Lemma length_le_encode : forall w n, List.length (le_encode w n) = w.
Proof. induction w; intro n; cbn [le_encode List.length]; [reflexivity | now rewrite IHw]. Qed.

Lemma le_decode_encode : forall w n, n < 256 ^ N.of_nat w -> le_decode (le_encode w n) = n.
Proof.
  induction w; intros n H.
  - cbn in H. cbn [le_encode le_decode]. lia.
  - cbn [le_encode le_decode]. rewrite to_N_byte_of_N.
    rewrite IHw.
    + rewrite N.add_comm. symmetry. rewrite N.mul_comm. rewrite N.mul_comm. apply N.div_mod'.
    + rewrite Nat2N.inj_succ, N.pow_succ_r' in H.
      apply N.div_lt_upper_bound; [discriminate | exact H].
Qed.

Lemma take_n_app : forall h r, take_n (N.of_nat (List.length h)) (h ++ r) = Some (h, r).
Proof.
  intros h r. unfold take_n.
  rewrite app_length, Nat2N.inj_add.
  destruct (N.ltb_spec (N.of_nat (List.length h) + N.of_nat (List.length r)) (N.of_nat (List.length h))) as [H | H]; [lia |].
  rewrite Nat2N.id.
  rewrite firstn_app, Nat.sub_diag, firstn_all. cbn [firstn]. rewrite app_nil_r.
  rewrite skipn_app, Nat.sub_diag, skipn_all. cbn [skipn app]. reflexivity.
Qed.

Lemma take_n_len : forall n h r, N.of_nat (List.length h) = n -> take_n n (h ++ r) = Some (h, r).
Proof. intros n h r <-. apply take_n_app. Qed.

Definition nonul (s : bytes) : Prop := Forall (fun b => b <> x00) s.

Lemma is_nul_x00 : forall b, is_nul b = true -> b = x00.
Proof.
  intros b H. unfold is_nul in H. apply N.eqb_eq in H.
  pose proof (Byte.of_to_N b) as E. rewrite H in E. cbn in E. now inversion E.
Qed.

Lemma c_str_nonul : forall s, nonul s -> c_str s = s.
Proof.
  induction s as [| b s IH]; intro H; [reflexivity |].
  inversion H as [| ? ? Hb Hs]; subst. cbn [c_str].
  destruct (is_nul b) eqn:E.
  - apply is_nul_x00 in E. contradiction.
  - now rewrite IH.
Qed.

Lemma blt_asym : forall a b, blt a b = true -> blt b a = false.
Proof.
  induction a as [| x a IH]; destruct b as [| y b]; cbn [blt]; intro H; try discriminate; try reflexivity.
  destruct (N.ltb_spec (Byte.to_N x) (Byte.to_N y)) as [L | L];
    destruct (N.ltb_spec (Byte.to_N y) (Byte.to_N x)) as [M | M]; try lia; try discriminate; try reflexivity.
  now apply IH.
Qed.

Lemma minsert_append : forall k v acc,
    Forall (fun p => blt (fst p) k = true) acc -> minsert k v acc = acc ++ [(k, v)].
Proof.
  induction acc as [| [k' v'] acc IH]; intro H; [reflexivity |].
  inversion H as [| ? ? Hk Ha]; subst. cbn [fst] in Hk. cbn [minsert].
  rewrite (blt_asym _ _ Hk), Hk. cbn [app]. now rewrite IH.
Qed.

Fixpoint ssorted (m : list (bytes * bytes)) : Prop :=
  match m with
  | [] => True
  | p :: m' => Forall (fun q => blt (fst p) (fst q) = true) m' /\ ssorted m'
  end.

Section CodecProofs.
  Variable szw : nat.

  Definition wf_string (s : bytes) : Prop := nonul s /\ N.of_nat (List.length s) < 256 ^ N.of_nat szw.

  (* well-formed typed values: what a C++ object of that type can hold (plus: no NUL inside strings,
     because the reader builds its std::string from a C string) *)
  Definition wf (t : ty) (v : val) : Prop :=
    match t, v with
    | TBool, VBool _ => True
    | TInt w, VInt n => n < 256 ^ N.of_nat w
    | TDouble, VDouble n => n < 256 ^ 8
    | TRaw k, VRaw l => List.length l = k
    | TString, VString s => wf_string s
    | TMap, VMap m =>
        N.of_nat (List.length m) < 256 ^ N.of_nat szw /\ ssorted m
        /\ Forall (fun p => wf_string (fst p) /\ wf_string (snd p)) m
    | _, _ => False
    end.

  Lemma dec_enc_string : forall s rest, wf_string s -> dec_string szw (enc_string szw s ++ rest) = Some (s, rest).
  Proof.
    intros s rest [Hn Hl]. unfold dec_string, enc_string.
    rewrite <- app_assoc.
    rewrite (take_n_len (N.of_nat szw) (le_encode szw (N.of_nat (List.length s)))) by (now rewrite length_le_encode).
    rewrite le_decode_encode by exact Hl.
    rewrite take_n_app. now rewrite c_str_nonul.
  Qed.

  Lemma dec_pairs_ok : forall m acc rest,
      ssorted m ->
      Forall (fun p => wf_string (fst p) /\ wf_string (snd p)) m ->
      (forall p q, In p acc -> In q m -> blt (fst p) (fst q) = true) ->
      dec_pairs szw (List.length m) (enc_pairs szw m ++ rest) acc = Some (acc ++ m, rest).
  Proof.
    induction m as [| [k v] m IH]; intros acc rest Hs Hw Hacc.
    - cbn [List.length dec_pairs enc_pairs app]. now rewrite app_nil_r.
    - cbn [List.length dec_pairs enc_pairs].
      destruct Hs as [Hk Hs]. inversion Hw as [| ? ? [Hwk Hwv] Hw']; subst. cbn [fst snd] in *.
      rewrite <- !app_assoc.
      rewrite dec_enc_string by exact Hwk.
      rewrite dec_enc_string by exact Hwv.
      rewrite minsert_append.
      + rewrite IH; [| exact Hs | exact Hw' |].
        * now rewrite <- app_assoc.
        * intros p q Hp Hq. apply in_app_or in Hp. destruct Hp as [Hp | [<- | []]].
          -- apply Hacc; [exact Hp | now right].
          -- cbn [fst]. rewrite Forall_forall in Hk. now apply Hk.
      + apply Forall_forall. intros p Hp. apply (Hacc p (k, v)); [exact Hp | now left].
  Qed.

  Lemma enc_pairs_len : forall m, (1 <= szw)%nat -> (List.length m <= List.length (enc_pairs szw m))%nat.
  Proof.
    intros m H. induction m as [| [k v] m IH]; [apply Nat.le_refl |].
    cbn [enc_pairs List.length]. unfold enc_string. rewrite !app_length, length_le_encode. lia.
  Qed.

  Theorem codec_roundtrip : forall t v rest, wf t v -> decode szw t (encode szw t v ++ rest) = Some (v, rest).
  Proof.
    intros t v rest H. destruct t, v; cbn [wf] in H; try contradiction; cbn [encode decode].
    - (* bool *)
      change 1 with (N.of_nat (List.length [if b then x01 else x00])). rewrite take_n_app.
      destruct b; reflexivity.
    - (* int *)
      rewrite (take_n_len (N.of_nat w) (le_encode w n)) by (now rewrite length_le_encode).
      now rewrite le_decode_encode.
    - (* double *)
      rewrite (take_n_len 8 (le_encode 8 bits)) by reflexivity.
      now rewrite (le_decode_encode 8).
    - (* raw *)
      subst n. now rewrite take_n_app.
    - (* string *)
      now rewrite dec_enc_string.
    - (* map *)
      destruct H as [Hl [Hs Hw]].
      rewrite <- app_assoc.
      rewrite (take_n_len (N.of_nat szw) (le_encode szw (N.of_nat (List.length m)))) by (now rewrite length_le_encode).
      rewrite le_decode_encode by exact Hl.
      assert (Hb : N.of_nat (List.length (enc_pairs szw m ++ rest)) <? N.of_nat (List.length m) = false).
      { apply N.ltb_ge. destruct szw as [| s] eqn:Es.
        - cbn in Hl. destruct m; [cbn; lia | cbn [List.length] in Hl; lia].
        - rewrite app_length. pose proof (enc_pairs_len m) as E. rewrite Es in E. specialize (E ltac:(lia)). lia. }
      rewrite Hb. rewrite Nat2N.id.
      rewrite (dec_pairs_ok m [] rest Hs Hw) by (intros p q []).
      reflexivity.
  Qed.

  Theorem stream_roundtrip : forall ts rest,
      Forall (fun tv => wf (fst tv) (snd tv)) ts ->
      decode_stream szw (map fst ts) (encode_stream szw ts ++ rest) = Some (map snd ts, rest).
  Proof.
    induction ts as [| [t v] ts IH]; intros rest H; [reflexivity |].
    inversion H as [| ? ? Hv Hts]; subst. cbn [fst snd] in Hv.
    cbn [map fst snd encode_stream decode_stream].
    rewrite <- app_assoc, codec_roundtrip by exact Hv.
    now rewrite IH.
  Qed.

  (* write -> read -> write gives identical bytes *)
  Corollary rewrite_identical : forall ts vs r,
      Forall (fun tv => wf (fst tv) (snd tv)) ts ->
      decode_stream szw (map fst ts) (encode_stream szw ts) = Some (vs, r) ->
      r = [] /\ encode_stream szw (combine (map fst ts) vs) = encode_stream szw ts.
  Proof.
    intros ts vs r H E.
    pose proof (stream_roundtrip ts [] H) as R. rewrite app_nil_r in R. rewrite R in E.
    inversion E; subst. split; [reflexivity |].
    f_equal. clear. induction ts as [| [t v] ts IH]; [reflexivity |]. cbn [map fst snd combine]. now rewrite IH.
  Qed.
End CodecProofs.

(* the two preconditions are needed: a NUL inside a string is not read back ... *)
Example string_with_nul_not_roundtrip :
  decode 8 TString (encode 8 TString (VString [x61; x00; x62])) = Some (VString [x61], []).
Proof. vm_compute. reflexivity. Qed.

(* ... and reading with another type than the one written returns another value
   (RescaledICHydroMask reads its uint_fast32_t _snap_n with read<double>) *)
Example type_mismatch_changes_value :
  decode 8 TDouble (encode 8 (TInt 8) (VInt 7)) = Some (VDouble 7, []) /\ VDouble 7 <> VInt 7.
Proof. split; [vm_compute; reflexivity | discriminate]. Qed.

Example wf_satisfiable :
  wf 8 TMap (VMap [([x61], [x31]); ([x61; x62], []); ([x62], [x32; x33])])
  /\ wf 8 (TInt 4) (VInt 4294967295) /\ wf 8 TString (VString []) /\ wf 8 (TRaw 2) (VRaw [x00; xff]).
Proof.
  repeat split; cbn; try lia; repeat constructor; try discriminate; try (cbn; lia).
Qed.

(* ------------------------------------------------------------------------- *)
(** * inventory checker *)

Lemma ty_eqb_eq : forall a b, ty_eqb a b = true -> a = b.
Proof.
  destruct a, b; cbn; intro H; try discriminate; try reflexivity;
    apply Nat.eqb_eq in H; now subst.
Qed.

Section TokInd.
  Variable P : tok -> Prop.
  Hypothesis HPrim : forall t s, P (KPrim t s).
  Hypothesis HCall : forall c s, P (KCall c s).
  Hypothesis HDisp : forall c s, P (KDispatch c s).
  Hypothesis HLoop : forall body, Forall P body -> P (KLoop body).
  Hypothesis HIf : forall c a b, Forall P a -> Forall P b -> P (KIf c a b).
  Hypothesis HUnk : forall s, P (KUnknown s).

  Fixpoint tok_ind' (t : tok) : P t :=
    match t with
    | KPrim t s => HPrim t s
    | KCall c s => HCall c s
    | KDispatch c s => HDisp c s
    | KLoop body =>
        HLoop body ((fix go (l : list tok) : Forall P l :=
                       match l with [] => Forall_nil P | x :: l' => Forall_cons x (tok_ind' x) (go l') end) body)
    | KIf c a b =>
        HIf c a b
            ((fix go (l : list tok) : Forall P l :=
                match l with [] => Forall_nil P | x :: l' => Forall_cons x (tok_ind' x) (go l') end) a)
            ((fix go (l : list tok) : Forall P l :=
                match l with [] => Forall_nil P | x :: l' => Forall_cons x (tok_ind' x) (go l') end) b)
    | KUnknown s => HUnk s
    end.
End TokInd.

(* the anonymous list comparison inside tok_eqb is toks_eqb *)
Lemma tok_eqb_loop : forall x y, tok_eqb (KLoop x) (KLoop y) = toks_eqb x y.
Proof. intros x y. reflexivity. Qed.

Lemma tok_eqb_if : forall c c' x1 x2 y1 y2,
    tok_eqb (KIf c x1 x2) (KIf c' y1 y2) = Nat.eqb c c' && toks_eqb x1 y1 && toks_eqb x2 y2.
Proof.
  intros. change (tok_eqb (KIf c x1 x2) (KIf c' y1 y2))
    with (Nat.eqb c c' && tok_eqb (KLoop x1) (KLoop y1) && tok_eqb (KLoop x2) (KLoop y2)).
  now rewrite !tok_eqb_loop.
Qed.

Lemma toks_eqb_eq_aux : forall x, Forall (fun a => forall b, tok_eqb a b = true -> a = b) x ->
                                  forall y, toks_eqb x y = true -> x = y.
Proof.
  induction x as [| p x IH]; intros HF [| q y] H; try discriminate; [reflexivity |].
  cbn [toks_eqb] in H. apply andb_true_iff in H. destruct H as [H1 H2].
  inversion HF as [| ? ? Hp Hx]; subst.
  f_equal; [now apply Hp | now apply IH].
Qed.

Lemma tok_eqb_eq : forall a b, tok_eqb a b = true -> a = b.
Proof.
  induction a as [t s | c s | c s | body IHb | c x1 x2 IH1 IH2 | s] using tok_ind'; intros b' E; destruct b'; try (cbn in E; discriminate).
  - cbn in E. apply andb_true_iff in E. destruct E as [E1 E2].
    apply ty_eqb_eq in E1. apply String.eqb_eq in E2. now subst.
  - cbn in E. apply andb_true_iff in E. destruct E as [E1 E2].
    apply String.eqb_eq in E1. apply String.eqb_eq in E2. now subst.
  - cbn in E. apply andb_true_iff in E. destruct E as [E1 E2].
    apply String.eqb_eq in E1. apply String.eqb_eq in E2. now subst.
  - rewrite tok_eqb_loop in E. f_equal. now apply toks_eqb_eq_aux.
  - rewrite tok_eqb_if in E. apply andb_true_iff in E. destruct E as [E E3].
    apply andb_true_iff in E. destruct E as [E1 E2]. apply Nat.eqb_eq in E1. subst.
    f_equal; now apply toks_eqb_eq_aux.
Qed.

Lemma toks_eqb_eq : forall x y, toks_eqb x y = true -> x = y.
Proof.
  intros x y. apply toks_eqb_eq_aux. apply Forall_forall. intros a _. apply tok_eqb_eq.
Qed.

Lemma strs_eqb_eq : forall a b, strs_eqb a b = true -> a = b.
Proof.
  induction a as [| x a IH]; destruct b as [| y b]; cbn; intro H; try discriminate; [reflexivity |].
  apply andb_true_iff in H. destruct H as [H1 H2]. apply String.eqb_eq in H1. f_equal; [exact H1 | now apply IH].
Qed.

Lemma symmetric_envs : forall cs, forallb class_symmetric cs = true ->
                                  forall n, option_map c_writer (find_class cs n) = option_map c_reader (find_class cs n).
Proof.
  induction cs as [| c cs IH]; intros H n; [reflexivity |].
  cbn [forallb] in H. apply andb_true_iff in H. destruct H as [H1 H2].
  cbn [find_class]. destruct (String.eqb (c_name c) n).
  - cbn [option_map]. f_equal. now apply toks_eqb_eq.
  - now apply IH.
Qed.

Lemma symmetric_disp : forall ds, forallb dispatch_ok ds = true ->
                                  forall b, match find_dispatch ds b with Some (w, _) => w | None => [] end
                                            = match find_dispatch ds b with Some (_, r) => r | None => [] end.
Proof.
  induction ds as [| [[n w] r] ds IH]; intros H b; [reflexivity |].
  cbn [forallb] in H. apply andb_true_iff in H. destruct H as [H1 H2].
  cbn [find_dispatch]. destruct (String.eqb n b).
  - cbn in H1. now apply strs_eqb_eq.
  - now apply IH.
Qed.

Lemma expand_ext : forall e1 e2 d1 d2,
    (forall c, e1 c = e2 c) -> (forall b, d1 b = d2 b) ->
    forall fuel o ts, expand e1 d1 fuel o ts = expand e2 d2 fuel o ts.
Proof.
  intros e1 e2 d1 d2 He Hd. induction fuel as [| f IH]; intros o ts; [reflexivity |].
  cbn [expand]. destruct ts as [| t r]; [reflexivity |].
  destruct t.
  - now rewrite IH.
  - rewrite He. destruct (e2 c); [apply IH | reflexivity].
  - destruct o as [| i o']; [reflexivity |]. rewrite Hd. destruct (nth_error (d2 b) i); [| reflexivity].
    rewrite He. destruct (e2 s); [apply IH | reflexivity].
  - destruct o; [reflexivity | apply IH].
  - destruct o; [reflexivity | apply IH].
  - reflexivity.
Qed.

(* soundness of the checker: if the regenerated inventory is accepted, then whatever the loop counts, optional
   components and dynamic classes are (the oracle), the restart path reads exactly the type sequence the dump wrote *)
Theorem inventory_symmetric_sound : forall inv, symmetric inv = true ->
    forall fuel o, restart_types inv fuel o = dump_types inv fuel o.
Proof.
  intros inv H fuel o. unfold symmetric in H.
  apply andb_true_iff in H. destruct H as [H Hd]. apply andb_true_iff in H. destruct H as [Hc Ht].
  unfold restart_types, dump_types. rewrite <- (toks_eqb_eq _ _ Ht).
  apply expand_ext.
  - intro c. unfold renv, wenv. symmetry. now apply symmetric_envs.
  - intro b. unfold rdisp, wdisp. symmetry. now apply symmetric_disp.
Qed.

Theorem restart_reads_what_was_dumped : forall szw inv, symmetric inv = true ->
    forall fuel o tys o' ts rest,
      dump_types inv fuel o = Some (tys, o') ->
      map fst ts = tys ->
      Forall (fun tv => wf szw (fst tv) (snd tv)) ts ->
      exists rtys, restart_types inv fuel o = Some (rtys, o')
                   /\ decode_stream szw rtys (encode_stream szw ts ++ rest) = Some (map snd ts, rest).
Proof.
  intros szw inv H fuel o tys o' ts rest Hd Hm Hw.
  exists tys. split.
  - now rewrite inventory_symmetric_sound.
  - subst tys. now apply stream_roundtrip.
Qed.

(* a member the checker passes is dumped and restored, or listed in the committed table *)
Theorem members_accounted : forall inv, members_ok inv = true ->
    forall c m w r, In c (i_classes inv) -> In (m, w, r) (c_members c) ->
      (w = true /\ r = true) \/ (exists k, find_cat (i_table inv) (c_name c) m = Some k /\ k <> CDerived false).
Proof.
  intros inv H c m w r Hc Hm. unfold members_ok in H.
  rewrite forallb_forall in H. specialize (H c Hc). rewrite forallb_forall in H. specialize (H _ Hm).
  unfold member_verdict in H. destruct w, r; cbn [andb] in H; try (left; now split); right;
    destruct (find_cat (i_table inv) (c_name c) m) as [[[|] |] |]; try discriminate;
      eexists; (split; [reflexivity | discriminate]).
Qed.

(* ------------------------------------------------------------------------- *)
(** * continuation *)
Section SimProofs.
  Variables P D T : Type.
  Variable step : P -> D -> T -> P * D * T.
  Variable f g : P -> D.
  Variable t0 : T.

  (* the restart constructor recomputes the derived members by the same function *)
  Hypothesis same_f : forall p, g p = f p.
  (* derived members stay a function of the persisted ones across a step *)
  Hypothesis derived_inv : forall p t, snd (fst (step p (f p) t)) = f (fst (fst (step p (f p) t))).
  (* transient members are reset before use: a step's persisted and derived results do not depend on them *)
  Hypothesis transient_reset : forall p d t t', fst (step p d t) = fst (step p d t').

  Notation run := (run P D T step).
  Notation restore := (restore P D T g t0).
  Notation dump := (dump P D T).
  Notation pd := (pd P D T).
  Notation run_chain := (run_chain P D T step g t0).
  Notation step_state := (step_state P D T step).

  Definition good (s : state P D T) : Prop := snd (fst s) = f (fst (fst s)).

  Lemma step_pd : forall s s', pd s = pd s' -> pd (step_state s) = pd (step_state s').
  Proof.
    intros [[p d] t] [[p' d'] t'] H. cbn in H. inversion H; subst. cbn. apply transient_reset.
  Qed.

  Lemma run_pd : forall n s s', pd s = pd s' -> pd (run n s) = pd (run n s').
  Proof. induction n; intros s s' H; [exact H |]. cbn [C09_Defs.run]. apply IHn. now apply step_pd. Qed.

  Lemma step_good : forall s, good s -> good (step_state s).
  Proof. intros [[p d] t] H. unfold good in *. cbn in H. subst d. cbn. apply derived_inv. Qed.

  Lemma run_good : forall n s, good s -> good (run n s).
  Proof. induction n; intros s H; [exact H |]. cbn [C09_Defs.run]. apply IHn. now apply step_good. Qed.

  Lemma restore_good : forall p, good (restore p).
  Proof. intro p. unfold good. cbn. apply same_f. Qed.

  Lemma restore_dump : forall s, good s -> pd (restore (dump s)) = pd s.
  Proof. intros [[p d] t] H. unfold good in H. cbn in *. now rewrite same_f, H. Qed.

  Lemma run_add : forall a b s, run (a + b) s = run b (run a s).
  Proof. induction a; intros b s; [reflexivity |]. cbn [Nat.add C09_Defs.run]. apply IHa. Qed.

  Theorem continuation : forall N k s0, good s0 -> (k <= N)%nat ->
      pd (run N s0) = pd (run (N - k) (restore (dump (run k s0)))).
  Proof.
    intros N k s0 H Hk.
    replace N with (k + (N - k))%nat at 1 by lia.
    rewrite run_add. apply run_pd. symmetry. apply restore_dump. now apply run_good.
  Qed.

  Theorem restart_chain : forall ks m s0, good s0 ->
      pd (run m (run_chain ks s0)) = pd (run (list_sum ks + m) s0).
  Proof.
    induction ks as [| k ks IH]; intros m s0 H; [reflexivity |].
    cbn [C09_Defs.run_chain]. change (list_sum (k :: ks)) with (k + list_sum ks)%nat.
    rewrite IH by apply restore_good.
    rewrite <- Nat.add_assoc, (run_add k). apply run_pd. apply restore_dump. now apply run_good.
  Qed.
End SimProofs.

(* the hypotheses are satisfiable: a counter with a derived copy and a scratch cell *)
Example sim_hypotheses_satisfiable :
  let step := fun (p : nat) (d : nat) (t : nat) => ((p + d)%nat, S (p + d)%nat, p) in
  let f := fun p : nat => S p in
  (forall p t, snd (fst (step p (f p) t)) = f (fst (fst (step p (f p) t))))
  /\ (forall p d t t', fst (step p d t) = fst (step p d t')).
Proof. split; reflexivity. Qed.

(* ------------------------------------------------------------------------- *)
(** * D3: the derived member _inv_cell_size *)
Open Scope float_scope.

Lemma float_neq : forall a b : float, PrimFloat.eqb a b = false -> PrimFloat.eqb b b = true -> a <> b.
Proof. intros a b H1 H2 E. subst. rewrite H1 in H2. discriminate. Qed.

(* the pinned code's restart constructor does NOT recompute _inv_cell_size by the normal constructor's expression:
   9 cells on a 10 m subgrid side (the harness configuration), 49 cells on a unit side *)
Theorem inv_cell_size_refuted : exists n side, inv_ctor n side <> inv_restart n side.
Proof. exists 9, 10. apply float_neq; vm_compute; reflexivity. Qed.

Example inv_cell_size_refuted_49 : inv_ctor 49 1 <> inv_restart 49 1.
Proof. apply float_neq; vm_compute; reflexivity. Qed.

(* for power-of-two cell counts both expressions agree (why uniform dyadic test boxes never showed it) *)
Example inv_cell_size_dyadic_agree : inv_differs 8 10 = false /\ inv_differs 16 1 = false /\ inv_differs 64 3 = false.
Proof. repeat split; vm_compute; reflexivity. Qed.

(* and the continuation theorem really needs `same_f`: with the two expressions of the pinned code one step after a
   restart already differs from the uninterrupted run (persisted part) *)
Theorem continuation_needs_same_f :
  exists p0, let s0 := (p0, toy_f p0, tt) in
             dump _ _ _ (run _ _ _ toy_step 1 s0)
             <> dump _ _ _ (run _ _ _ toy_step 1 (restore _ _ _ toy_g tt (dump _ _ _ s0))).
Proof.
  exists (9, 10, 3). cbv zeta. intro H.
  apply (f_equal (fun p : float * float * float => let '(_, _, x) := p in x)) in H.
  revert H. apply float_neq; vm_compute; reflexivity.
Qed.
Close Scope float_scope.
