(* C14: executable model of RestartManager::get_restart_writer + RestartWriter
   (src/RestartManager.hpp, src/RestartWriter.hpp) over an abstract file system.
   Hand model; tie = correspondence with the real classes in a scratch directory,
   with a crash injected at every crash point (hook H5). *)
From Coq Require Import NArith List Bool.
Import ListNotations.
Local Open Scope N_scope.

Inductive name := Main | Back (i : N).

Definition name_eqb (a b : name) : bool :=
  match a, b with
  | Main, Main => true
  | Back i, Back j => i =? j
  | _, _ => false
  end.

(* a file: which state it holds, how many write calls reached it, closed (complete)? *)
Record file := mkFile { fid : N; fwritten : N; fcomplete : bool }.

Definition fs := name -> option file.
Definition empty_fs : fs := fun _ => None.
Definition upd (f : fs) (n : name) (v : option file) : fs :=
  fun m => if name_eqb m n then v else f m.

Inductive fsop :=
| Rename (src dst : name)
| OpenTrunc (n : name) (id : N)
| Write (n : name)
| Close (n : name).

(* None = the call fails; for rename the code then aborts (cmac_error) *)
Definition exec (f : fs) (o : fsop) : option fs :=
  match o with
  | Rename s d => match f s with
                  | None => None
                  | Some x => Some (upd (upd f d (Some x)) s None)
                  end
  | OpenTrunc n id => Some (upd f n (Some (mkFile id 0 false)))
  | Write n => match f n with
               | None => None
               | Some x => Some (upd f n (Some (mkFile (fid x) (fwritten x + 1) (fcomplete x))))
               end
  | Close n => match f n with
               | None => None
               | Some x => Some (upd f n (Some (mkFile (fid x) (fwritten x) true)))
               end
  end.

Fixpoint exec_all (f : fs) (ops : list fsop) : option fs :=
  match ops with
  | [] => Some f
  | o :: r => match exec f o with None => None | Some f' => exec_all f' r end
  end.

(* for (i = k; i > 0; --i) rename(back(i-1), back(i)) *)
Fixpoint chain_from (fuel : nat) (i : N) : list fsop :=
  match fuel with
  | O => []
  | S fu => if i =? 0 then [] else Rename (Back (i - 1)) (Back i) :: chain_from fu (i - 1)
  end.
Definition chain (k : N) : list fsop := chain_from (N.to_nat k) k.

Definition WORD : N := 2 ^ 64.     (* uint_fast32_t is 64 bits wide here; the harness prints sizeof *)

(* loop start as it was at the pinned commit: min(M - 1, nb - 1) in unsigned arithmetic *)
Definition start_wrapping (M nb : N) : N := N.min (M - 1) ((nb + WORD - 1) mod WORD).
(* loop start after the fix: min(M - 1, nb) *)
Definition start_fixed (M nb : N) : N := N.min (M - 1) nb.

Record mgr := mkMgr { nbackups : N; nrestarts : N }.

Section Dump.
  Variable start : N -> N -> N.

  (* get_restart_writer, then [chunks] write calls, then the destructor closes the file *)
  Definition dump_ops (M : N) (m : mgr) (id : N) (chunks : nat) : list fsop * mgr :=
    let pre :=
      if 0 <? M then
        chain (start M (nbackups m)) ++
        (if 0 <? nrestarts m then [Rename Main (Back 0)] else [])
      else [] in
    let nb' := if (0 <? M) && (0 <? nrestarts m) && (nbackups m <? M) then nbackups m + 1 else nbackups m in
    (pre ++ [OpenTrunc Main id] ++ repeat (Write Main) chunks ++ [Close Main],
     mkMgr nb' (nrestarts m + 1)).

  (* n dumps of states 1..n from an empty directory *)
  Fixpoint run_dumps_from (M : N) (chunks : nat) (n : nat) (first : N) (f : fs) (m : mgr) : option (fs * mgr) :=
    match n with
    | O => Some (f, m)
    | S n' =>
      let '(ops, m') := dump_ops M m first chunks in
      match exec_all f ops with
      | None => None
      | Some f' => run_dumps_from M chunks n' (first + 1) f' m'
      end
    end.

  Definition run_dumps (M : N) (chunks : nat) (n : nat) : option (fs * mgr) :=
    run_dumps_from M chunks n 1 empty_fs (mkMgr 0 0).
End Dump.

(* closed form of the directory after n >= 1 dumps *)
Definition fs_after (M : N) (chunks : nat) (n : N) : fs :=
  fun nm => match nm with
            | Main => if 0 <? n then Some (mkFile n (N.of_nat chunks) true) else None
            | Back i => if i <? N.min M (n - 1) then Some (mkFile (n - 1 - i) (N.of_nat chunks) true) else None
            end.

(* listing used by the correspondence: Main and Back 0 .. Back (lim-1) *)
Definition listing (f : fs) (lim : nat) : list (option file) :=
  f Main :: map (fun i => f (Back (N.of_nat i))) (seq 0 lim).
