(* C16 (traversal clauses): executable models of the LEGACY photon traversal
     CartesianDensityGrid::interact  (src/CartesianDensityGrid.cpp: get_cell_indices, get_cell, is_inside,
                                      get_wall_intersection, interact)
     AMRDensityGrid::interact        (src/AMRDensityGrid.hpp: get_cell_index, get_wall_intersection, interact;
                                      src/AMRGrid.hpp: get_block_index, block boxes, set_ngbs;
                                      src/AMRGridCell.hpp: get_half_index, child boxes, get_child(position), set_ngbs)
   Default configuration: HAS_HELIUM defined, VARIABLE_ABUNDANCES / USE_LOCKFREE not defined.
   The models are written ONCE over a scalar type T with the operations [Ops T] of Cxx/C02_Defs.v (plus sqrt and the
   constant 0.5 for the AMR grid); statement by statement, floating point operations in the order of the C++
   expressions.  Instances: binary64 (PrimFloat; extracted and compared bit for bit with the real classes) and R
   (Cxx/C16_InteractProofs.v).  The while loops are fuelled recursions (ErrFuel = the loop did not end).
   update_integrals(ds, cell, photon) is recorded as the visit (cell, ds); [deposit_J] replays the visits on the
   mean-intensity accumulator of one ion exactly as update_integrals does (skipped for cells of zero density).
   The three flags of the AMR model select the PINNED behaviour (false) or the repaired one (true):
     fxA  absorbed photon keeps its cell (pinned: current_cell is overwritten with the neighbour, end() if that is null)
     fxB  periodic correction also when the neighbour across the periodic face is the cell itself (pinned: strict
          comparison of the anchors, no correction, the loop never ends)
     fxC  descent into a refined neighbour uses the periodically corrected wall position (pinned: uncorrected) *)
From Coq Require Import ZArith List Bool Reals Floats.
From CMI Require Import Cxx.C02_Defs.
From CMI Require Cxx.C16_Defs.
Import ListNotations.
Local Open Scope Z_scope.

Record bvec := mkBV { bx : bool; by_ : bool; bz : bool }.

(* CartesianDensityGrid members read by interact *)
Record cgrid (T : Type) := mkCG {
  cg_anchor : vec T; cg_sides : vec T; cg_cs : vec T; cg_inv : vec T; cg_n : ivec; cg_per : bvec }.
Arguments mkCG {T}. Arguments cg_anchor {T}. Arguments cg_sides {T}. Arguments cg_cs {T}. Arguments cg_inv {T}.
Arguments cg_n {T}. Arguments cg_per {T}.

(* Photon: position, direction, cross sections sigma_H and the abundance corrected sigma_He, weight *)
Record lphoton (T : Type) := mkLP { lp_pos : vec T; lp_dir : vec T; lp_sH : T; lp_sHe : T; lp_w : T }.
Arguments mkLP {T}. Arguments lp_pos {T}. Arguments lp_dir {T}. Arguments lp_sH {T}. Arguments lp_sHe {T}. Arguments lp_w {T}.

(* loop state of CartesianDensityGrid::interact: photon_origin, index, optical_depth (what is left), the
   update_integrals calls so far (most recent first), last_cell (None = end()), ncell *)
Record cstate (T : Type) := mkCS {
  cs_pos : vec T; cs_idx : ivec; cs_tau : T; cs_vis : list (Z * T); cs_last : option Z; cs_ncell : Z }.
Arguments mkCS {T}. Arguments cs_pos {T}. Arguments cs_idx {T}. Arguments cs_tau {T}. Arguments cs_vis {T}.
Arguments cs_last {T}. Arguments cs_ncell {T}.

Record cresult (T : Type) := mkCR {
  cr_cell : option Z;        (* returned iterator: Some long index, None = end() *)
  cr_pos : vec T;            (* photon position after the call *)
  cr_vis : list (Z * T);     (* update_integrals calls in program order *)
  cr_fin : cstate T          (* loop state at loop exit (after the is_inside of the loop condition) *)
}.
Arguments mkCR {T}. Arguments cr_cell {T}. Arguments cr_pos {T}. Arguments cr_vis {T}. Arguments cr_fin {T}.

Inductive coutcome (T : Type) :=
| COk (r : cresult T)
| CErrLeaves      (* cmac_error: Photon leaves the system immediately *)
| CErrFuel.       (* the loop did not end within the fuel *)
Arguments COk {T}. Arguments CErrLeaves {T}. Arguments CErrFuel {T}.

(* ---- AMR ---- *)
Record tbox (T : Type) := mkTB { tb_a : vec T; tb_s : vec T }.
Arguments mkTB {T}. Arguments tb_a {T}. Arguments tb_s {T}.

(* a cell of the AMR hierarchy: top level block indices and the child numbers on the way down, DEEPEST FIRST *)
Definition cref : Type := ivec * list Z.

Record agrid (T : Type) := mkAG {
  ag_anchor : vec T; ag_sides : vec T; ag_n : ivec; ag_per : bvec; ag_blk : Z -> Z -> Z -> C16_Defs.tree }.
Arguments mkAG {T}. Arguments ag_anchor {T}. Arguments ag_sides {T}. Arguments ag_n {T}. Arguments ag_per {T}. Arguments ag_blk {T}.

Record astate (T : Type) := mkAS {
  as_pos : vec T; as_cur : option cref; as_tau : T; as_vis : list (cref * T); as_last : option cref }.
Arguments mkAS {T}. Arguments as_pos {T}. Arguments as_cur {T}. Arguments as_tau {T}. Arguments as_vis {T}. Arguments as_last {T}.

Record aresult (T : Type) := mkAR {
  ar_cell : option cref; ar_pos : vec T; ar_vis : list (cref * T); ar_fin : astate T }.
Arguments mkAR {T}. Arguments ar_cell {T}. Arguments ar_pos {T}. Arguments ar_vis {T}. Arguments ar_fin {T}.

Inductive aoutcome (T : Type) :=
| AOk (r : aresult T)
| AErrFuel.
Arguments AOk {T}. Arguments AErrFuel {T}.

(* what get_wall_intersection hands back: next_wall, ds, the neighbour cell (after the descent), periodic_correction *)
Record awi (T : Type) := mkWI { wi_wall : vec T; wi_ds : T; wi_next : option cref; wi_corr : vec T; wi_axis : Z; wi_high : bool }.
Arguments mkWI {T}. Arguments wi_wall {T}. Arguments wi_ds {T}. Arguments wi_next {T}. Arguments wi_corr {T}.
Arguments wi_axis {T}. Arguments wi_high {T}.

(* child number bits: ix = (i & 4) >> 2, iy = (i & 2) >> 1, iz = i & 1 *)
Definition cbit (c a : Z) : Z :=
  match a with 0 => Z.shiftr (Z.land c 4) 2 | 1 => Z.shiftr (Z.land c 2) 1 | _ => Z.land c 1 end.
Definition axbit (a : Z) : Z := match a with 0 => 4 | 1 => 2 | _ => 1 end.

Definition tpick (c : Z) (t : C16_Defs.tree) : option C16_Defs.tree :=
  match t with
  | C16_Defs.Leaf => None
  | C16_Defs.Node c0 c1 c2 c3 c4 c5 c6 c7 => Some (C16_Defs.pick c c0 c1 c2 c3 c4 c5 c6 c7)
  end.

(* the cell a reference points to (None = no such cell) *)
Fixpoint subtree (t : C16_Defs.tree) (rp : list Z) : option C16_Defs.tree :=
  match rp with
  | [] => Some t
  | c :: r => match subtree t r with Some s => tpick c s | None => None end
  end.

Definition vget {T} (a : Z) (v : vec T) : T := match a with 0 => vx v | 1 => vy v | _ => vz v end.
Definition iget (a : Z) (i : ivec) : Z := match a with 0 => ix i | 1 => iy i | _ => iz i end.
Definition bget (a : Z) (b : bvec) : bool := match a with 0 => bx b | 1 => by_ b | _ => bz b end.
Definition iset (a : Z) (v : Z) (i : ivec) : ivec :=
  match a with 0 => mkI v (iy i) (iz i) | 1 => mkI (ix i) v (iz i) | _ => mkI (ix i) (iy i) v end.

Section Model.
Variable T : Type.
Variable Op : Ops T.
Variable sqrtT : T -> T.
Variable half : T.

Local Notation "a +. b" := (o_add Op a b) (at level 50, left associativity).
Local Notation "a -. b" := (o_sub Op a b) (at level 50, left associativity).
Local Notation "a *. b" := (o_mul Op a b) (at level 40, left associativity).
Local Notation "a /. b" := (o_div Op a b) (at level 40, left associativity).
Local Notation "a <. b" := (o_ltb Op a b) (at level 70).
Local Notation "a ==. b" := (o_eqb Op a b) (at level 70).
Local Notation zero := (o_zero Op).
Local Notation one := (o_one Op).
Local Notation ofZ := (o_ofZ Op).

Definition vmap2 (f : T -> T -> T) (a b : vec T) : vec T := mkV (f (vx a) (vx b)) (f (vy a) (vy b)) (f (vz a) (vz b)).
Definition vplus := vmap2 (o_add Op).
Definition vminus := vmap2 (o_sub Op).
(* v *= s  and  v /= s *)
Definition vscale (v : vec T) (s : T) : vec T := mkV (vx v *. s) (vy v *. s) (vz v *. s).
Definition vdivs (v : vec T) (s : T) : vec T := mkV (vx v /. s) (vy v /. s) (vz v /. s).
(* _x * _x + _y * _y + _z * _z *)
Definition norm2 (v : vec T) : T := vx v *. vx v +. vy v *. vy v +. vz v *. vz v.

(* get_optical_depth(ds, ionization_variables, photon), HAS_HELIUM and not VARIABLE_ABUNDANCES *)
Definition lod (ph : lphoton T) (c : cellc T) (ds : T) : T :=
  ds *. c_n c *. (lp_sH ph *. c_xH c +. lp_sHe ph *. c_xHe c).

(* update_integrals on the hydrogen mean intensity: only when the number density is positive;
   dsw = ds * weight; dmean_intensity = dsw * sigma_H; J += dmean_intensity *)
Definition deposit_J (ph : lphoton T) (c : cellc T) (J ds : T) : T :=
  if zero <. c_n c then J +. ds *. lp_w ph *. lp_sH ph else J.

(* =========================================================================
   A.  CartesianDensityGrid *)

(* constructor: _cellside = sides / ncell, _inverse_cellside = 1. / _cellside *)
Definition make_cgrid (anchor sides : vec T) (n : ivec) (per : bvec) : cgrid T :=
  let cs := mkV (vx sides /. ofZ (ix n)) (vy sides /. ofZ (iy n)) (vz sides /. ofZ (iz n)) in
  mkCG anchor sides cs (mkV (one /. vx cs) (one /. vy cs) (one /. vz cs)) n per.

(* get_cell_indices, one coordinate *)
Definition cell_index1 (p a inv side : T) (n : Z) : Z :=
  let i := o_truncZ Op ((p -. a) *. inv) in
  if (i =? n) && (p <. a +. side) then i - 1 else i.

Definition cell_indices (g : cgrid T) (p : vec T) : ivec :=
  mkI (cell_index1 (vx p) (vx (cg_anchor g)) (vx (cg_inv g)) (vx (cg_sides g)) (ix (cg_n g)))
      (cell_index1 (vy p) (vy (cg_anchor g)) (vy (cg_inv g)) (vy (cg_sides g)) (iy (cg_n g)))
      (cell_index1 (vz p) (vz (cg_anchor g)) (vz (cg_inv g)) (vz (cg_sides g)) (iz (cg_n g))).

(* get_long_index *)
Definition clong (g : cgrid T) (i : ivec) : Z := one_index (cg_n g) i.

(* is_inside, one coordinate: (contribution to the flag, index, position) *)
Definition wrap1 (per : bool) (n : Z) (side : T) (i : Z) (p : T) : bool * Z * T :=
  if per then
    let '(i1, p1) := if i <? 0 then (n - 1, p +. side) else (i, p) in
    let '(i2, p2) := if n <=? i1 then (0, p1 -. side) else (i1, p1) in
    (true, i2, p2)
  else ((0 <=? i) && (i <? n), i, p).

Definition cwrap (g : cgrid T) (i : ivec) (p : vec T) : bool * ivec * vec T :=
  let '(fx, jx, px) := wrap1 (bx (cg_per g)) (ix (cg_n g)) (vx (cg_sides g)) (ix i) (vx p) in
  let '(fy, jy, py) := wrap1 (by_ (cg_per g)) (iy (cg_n g)) (vy (cg_sides g)) (iy i) (vy p) in
  let '(fz, jz, pz) := wrap1 (bz (cg_per g)) (iz (cg_n g)) (vz (cg_sides g)) (iz i) (vz p) in
  (fx && fy && fz, mkI jx jy jz, mkV px py pz).

(* get_cell(index): anchor + cellside * index *)
Definition ccell_low (g : cgrid T) (i : ivec) : vec T :=
  mkV (vx (cg_anchor g) +. vx (cg_cs g) *. ofZ (ix i)) (vy (cg_anchor g) +. vy (cg_cs g) *. ofZ (iy i))
      (vz (cg_anchor g) +. vz (cg_cs g) *. ofZ (iz i)).
(* Box::get_top_anchor *)
Definition ccell_high (g : cgrid T) (i : ivec) : vec T := vplus (ccell_low g i) (cg_cs g).

(* next_index[k] = (dk == ds) ? ((direction[k] > 0.) ? 1 : -1) : 0 *)
Definition nidx1 (l ds d : T) : Z := if l ==. ds then (if zero <. d then 1 else -1) else 0.

Section CMarch.
Variable g : cgrid T.
Variable d invd : vec T.
Variable od : Z -> T -> T.          (* get_optical_depth(ds, cell, photon) *)

Definition cwalls (st : cstate T) : vec T :=
  let lo := ccell_low g (cs_idx st) in let hi := ccell_high g (cs_idx st) in let p := cs_pos st in
  mkV (wall Op (vx d) (vx invd) (vx lo) (vx hi) (vx p))
      (wall Op (vy d) (vy invd) (vy lo) (vy hi) (vy p))
      (wall Op (vz d) (vz invd) (vz lo) (vz hi) (vz p)).

(* loop body *)
Definition cbody (st : cstate T) : cstate T :=
  let l := cwalls st in
  let ds := lmin_of Op l in
  let i := cs_idx st in
  let p := cs_pos st in
  let i' := mkI (ix i + nidx1 (vx l) ds (vx d)) (iy i + nidx1 (vy l) ds (vy d)) (iz i + nidx1 (vz l) ds (vz d)) in
  let next_wall := vplus p (vscale d ds) in
  let c := clong g i in
  let tau := od c ds in
  let odp := cs_tau st -. tau in
  if odp <. zero then
    let Scorr := ds *. odp /. tau in
    let p' := vplus p (vdivs (vscale (vminus next_wall p) (ds +. Scorr)) ds) in
    mkCS p' i odp ((c, ds +. Scorr) :: cs_vis st) (Some c) (cs_ncell st + 1)
  else
    mkCS next_wall i' odp ((c, ds) :: cs_vis st) (Some c) (cs_ncell st + 1).

(* while (is_inside(index, photon_origin) && optical_depth > 0.): the state handed back has the index and the
   position as is_inside left them; the flag is the value of is_inside *)
Fixpoint cmarch (fuel : nat) (st : cstate T) : option (cstate T * bool) :=
  let '(ins, i, p) := cwrap g (cs_idx st) (cs_pos st) in
  let st1 := mkCS p i (cs_tau st) (cs_vis st) (cs_last st) (cs_ncell st) in
  if ins && (zero <. cs_tau st) then
    match fuel with
    | O => None
    | S f => cmarch f (cbody st1)
    end
  else Some (st1, ins).
End CMarch.

Definition cart_interact (fuel : nat) (g : cgrid T) (cells : Z -> cellc T) (ph : lphoton T) (target : T) : coutcome T :=
  let d := lp_dir ph in
  let invd := mkV (one /. vx d) (one /. vy d) (one /. vz d) in
  let st0 := mkCS (lp_pos ph) (cell_indices g (lp_pos ph)) target [] None 0 in
  match cmarch g d invd (fun c ds => lod ph (cells c) ds) fuel st0 with
  | None => CErrFuel
  | Some (st, _) =>
    if (cs_ncell st =? 0) && (zero <. cs_tau st) then CErrLeaves
    else
      let '(ins, _, _) := cwrap g (cs_idx st) (cs_pos st) in
      COk (mkCR (if ins then cs_last st else None) (cs_pos st) (rev (cs_vis st)) st)
  end.

(* mean intensity of hydrogen in every cell after the call, all cells starting at j0 *)
Definition cart_J (cells : Z -> cellc T) (ph : lphoton T) (j0 : T) (vis : list (Z * T)) (c : Z) : T :=
  fold_left (fun J v => if fst v =? c then deposit_J ph (cells c) J (snd v) else J) vis j0.

(* =========================================================================
   B.  AMRDensityGrid *)

(* AMRGrid constructor: sides = box.sides / ncell; anchor = box.anchor + i * sides *)
Definition block_box (g : agrid T) (b : ivec) : tbox T :=
  let s := mkV (vx (ag_sides g) /. ofZ (ix (ag_n g))) (vy (ag_sides g) /. ofZ (iy (ag_n g))) (vz (ag_sides g) /. ofZ (iz (ag_n g))) in
  mkTB (mkV (vx (ag_anchor g) +. ofZ (ix b) *. vx s) (vy (ag_anchor g) +. ofZ (iy b) *. vy s) (vz (ag_anchor g) +. ofZ (iz b) *. vz s)) s.

(* box_copy.get_sides() *= 0.5; box_copy.get_anchor()[k] += i_k * box_copy.get_sides()[k] *)
Definition child_box (b : tbox T) (c : Z) : tbox T :=
  let s := vscale (tb_s b) half in
  mkTB (mkV (vx (tb_a b) +. ofZ (cbit c 0) *. vx s) (vy (tb_a b) +. ofZ (cbit c 1) *. vy s) (vz (tb_a b) +. ofZ (cbit c 2) *. vz s)) s.

Fixpoint box_of_rpath (bb : tbox T) (rp : list Z) : tbox T :=
  match rp with [] => bb | c :: r => child_box (box_of_rpath bb r) c end.

Definition box_of (g : agrid T) (r : cref) : tbox T := box_of_rpath (block_box g (fst r)) (snd r).
Definition blk_of (g : agrid T) (b : ivec) : C16_Defs.tree := ag_blk g (ix b) (iy b) (iz b).
Definition cell_of (g : agrid T) (r : cref) : option C16_Defs.tree := subtree (blk_of g (fst r)) (snd r).
Definition is_single (g : agrid T) (r : cref) : bool :=
  match cell_of g r with Some C16_Defs.Leaf => true | _ => false end.

(* AMRGrid::get_block_index *)
Definition block_index1 (n : Z) (x a side : T) : Z :=
  let i := o_truncZ Op (ofZ n *. (x -. a) /. side) in if i <? n then i else n - 1.
(* AMRGridCell::get_half_index *)
Definition half_index1 (x a side : T) : Z :=
  let i := o_truncZ Op (ofZ 2 *. (x -. a) /. side) in if 1 <? i then 1 else i.

(* AMRGridCell::get_cell(position, box): the running box is computed like the stored one *)
Fixpoint locate (t : C16_Defs.tree) (bb : tbox T) (rp : list Z) (p : vec T) : list Z :=
  match t with
  | C16_Defs.Leaf => rp
  | C16_Defs.Node c0 c1 c2 c3 c4 c5 c6 c7 =>
    let jx := half_index1 (vx p) (vx (tb_a bb)) (vx (tb_s bb)) in
    let jy := half_index1 (vy p) (vy (tb_a bb)) (vy (tb_s bb)) in
    let jz := half_index1 (vz p) (vz (tb_a bb)) (vz (tb_s bb)) in
    let c := 4 * jx + 2 * jy + jz in
    locate (C16_Defs.pick c c0 c1 c2 c3 c4 c5 c6 c7) (child_box bb c) (c :: rp) p
  end.

(* AMRDensityGrid::get_cell_index = AMRGrid::get_cell *)
Definition amr_locate (g : agrid T) (p : vec T) : cref :=
  let b := mkI (block_index1 (ix (ag_n g)) (vx p) (vx (ag_anchor g)) (vx (ag_sides g)))
               (block_index1 (iy (ag_n g)) (vy p) (vy (ag_anchor g)) (vy (ag_sides g)))
               (block_index1 (iz (ag_n g)) (vz p) (vz (ag_anchor g)) (vz (ag_sides g))) in
  (b, locate (blk_of g b) (block_box g b) [] p).

(* AMRGrid::set_ngbs, top level: the block next to block b along axis a (high = upper side) *)
Definition block_ngb (g : agrid T) (b : ivec) (a : Z) (high : bool) : option ivec :=
  let i := iget a b in let n := iget a (ag_n g) in
  if high then
    if i <? n - 1 then Some (iset a (i + 1) b) else if bget a (ag_per g) then Some (iset a 0 b) else None
  else
    if 0 <? i then Some (iset a (i - 1) b) else if bget a (ag_per g) then Some (iset a (n - 1) b) else None.

(* AMRGridCell::set_ngbs: _ngbs[2 a + high] of the cell (b, rp).  A child on the far side of its parent gets its
   sibling; a child on the near side gets get_child_safe(neighbour of the parent, mirrored child) *)
Fixpoint ngb_rp (g : agrid T) (b : ivec) (rp : list Z) (a : Z) (high : bool) : option cref :=
  match rp with
  | [] => match block_ngb g b a high with Some b' => Some (b', []) | None => None end
  | c :: r =>
    let bit := axbit a in
    let has := Z.land c bit =? bit in
    if high && negb has then Some (b, (c + bit) :: r)
    else if negb high && has then Some (b, (c - bit) :: r)
    else match ngb_rp g b r a high with
         | None => None
         | Some (b', r') =>
           if is_single g (b', r') then Some (b', r')
           else Some (b', (if high then c - bit else c + bit) :: r')
         end
  end.

Definition ngb (g : agrid T) (r : cref) (a : Z) (high : bool) : option cref := ngb_rp g (fst r) (snd r) a high.

(* AMRGridCell::get_child(position): compares with the cell centre anchor + 0.5 * sides *)
Definition child_of_pos (bb : tbox T) (p : vec T) : Z :=
  let jx := b2z (vx (tb_a bb) +. half *. vx (tb_s bb) <. vx p) in
  let jy := b2z (vy (tb_a bb) +. half *. vy (tb_s bb) <. vy p) in
  let jz := b2z (vz (tb_a bb) +. half *. vz (tb_s bb) <. vz p) in
  4 * jx + 2 * jy + jz.

(* while (!next_cell->is_single_cell()) next_cell = next_cell->get_child(next_wall) *)
Fixpoint descend (t : C16_Defs.tree) (bb : tbox T) (rp : list Z) (p : vec T) : list Z :=
  match t with
  | C16_Defs.Leaf => rp
  | C16_Defs.Node c0 c1 c2 c3 c4 c5 c6 c7 =>
    let c := child_of_pos bb p in
    descend (C16_Defs.pick c c0 c1 c2 c3 c4 c5 c6 c7) (child_box bb c) (c :: rp) p
  end.

(* one coordinate of get_wall_intersection: l and next_direction *)
Definition awall1 (d top bot p : T) : T * Z :=
  if zero <. d then ((top -. p) /. d, 1) else if d <. zero then ((bot -. p) /. d, -1) else (o_dblmax Op, 0).

Section AMarch.
Variables fxA fxB fxC : bool.
Variable g : agrid T.
Variable d : vec T.
Variable od : cref -> T -> T.

(* periodic_correction[a] *)
Definition acorr (a : Z) (nd : Z) (bot : vec T) (nm : vec T) : T :=
  if bget a (ag_per g) then
    if (0 <? nd) && (if fxB then negb (vget a bot <. vget a nm) else vget a nm <. vget a bot)
    then zero -. vget a (ag_sides g)
    else if (nd <? 0) && (if fxB then negb (vget a nm <. vget a bot) else vget a bot <. vget a nm)
    then vget a (ag_sides g)
    else zero
  else zero.

Definition vunit (a : Z) (x : T) : vec T :=
  match a with 0 => mkV x zero zero | 1 => mkV zero x zero | _ => mkV zero zero x end.

(* the geometric part of get_wall_intersection: the wall hit next: (axis, next_wall, squared distance, next_direction) *)
Definition wall_select (bb : tbox T) (p : vec T) : Z * vec T * T * Z :=
  let bot := tb_a bb in
  let top := vplus (tb_a bb) (tb_s bb) in
  let '(lx, ndx) := awall1 (vx d) (vx top) (vx bot) (vx p) in
  let next_x := vplus p (vscale d lx) in
  let dx := norm2 (vminus next_x p) in
  let '(ly, ndy) := awall1 (vy d) (vy top) (vy bot) (vy p) in
  let next_y := vplus p (vscale d ly) in
  let dy := norm2 (vminus next_y p) in
  let '(lz, ndz) := awall1 (vz d) (vz top) (vz bot) (vz p) in
  let next_z := vplus p (vscale d lz) in
  let dz := norm2 (vminus next_z p) in
  if (dx <. dy) && (dx <. dz) then (0, next_x, dx, ndx)
  else if (dy <. dx) && (dy <. dz) then (1, next_y, dy, ndy)
  else if (dz <. dx) && (dz <. dy) then (2, next_z, dz, ndz)
  else if (dx ==. dy) || (dx ==. dz) then (0, next_x, dx, ndx)
  else (1, next_y, dy, ndy).

(* the neighbour part: cell->get_ngb(ngbposition), the periodic correction, the descent to a single cell *)
Definition next_cell (cur : cref) (a : Z) (nd : Z) (bot next_wall : vec T) : option cref * vec T :=
  match ngb g cur a (negb (nd <? 0)) with
  | None => (None, mkV zero zero zero)
  | Some nc =>
    let corr := vunit a (acorr a nd bot (tb_a (box_of g nc))) in
    let q := if fxC then vplus next_wall corr else next_wall in
    let leaf :=
      match cell_of g nc with
      | Some t => (fst nc, descend t (box_of g nc) (snd nc) q)
      | None => nc
      end in
    (Some leaf, corr)
  end.

Definition wall_intersection (cur : cref) (p : vec T) : awi T :=
  let bb := box_of g cur in
  let '(a, next_wall, ds2, nd) := wall_select bb p in
  let ds := sqrtT ds2 in
  let '(nxt, corr) := next_cell cur a nd (tb_a bb) next_wall in
  mkWI next_wall ds nxt corr a (negb (nd <? 0)).

Definition abody (cur : cref) (st : astate T) : astate T :=
  let p := as_pos st in
  let w := wall_intersection cur p in
  let ds := wi_ds w in
  let tau := od cur ds in
  let odp := as_tau st -. tau in
  if odp <. zero then
    let Scorr := ds *. odp /. tau in
    let p' := vplus p (vdivs (vscale (vminus (wi_wall w) p) (ds +. Scorr)) ds) in
    mkAS p' (if fxA then Some cur else wi_next w) odp ((cur, ds +. Scorr) :: as_vis st) (Some cur)
  else
    mkAS (vplus (wi_wall w) (wi_corr w)) (wi_next w) odp ((cur, ds) :: as_vis st) (Some cur).

Fixpoint amarch (fuel : nat) (st : astate T) : option (astate T) :=
  match as_cur st with
  | Some cur =>
    if zero <. as_tau st then
      match fuel with
      | O => None
      | S f => amarch f (abody cur st)
      end
    else Some st
  | None => Some st
  end.
End AMarch.

Definition amr_interact (fxA fxB fxC : bool) (fuel : nat) (g : agrid T) (cells : cref -> cellc T) (ph : lphoton T) (target : T)
  : aoutcome T :=
  let st0 := mkAS (lp_pos ph) (Some (amr_locate g (lp_pos ph))) target [] None in
  match amarch fxA fxB fxC g (lp_dir ph) (fun c ds => lod ph (cells c) ds) fuel st0 with
  | None => AErrFuel
  | Some st =>
    AOk (mkAR (match as_cur st with None => None | Some _ => as_last st end) (as_pos st) (rev (as_vis st)) st)
  end.

End Model.

Arguments make_cgrid {T}. Arguments cell_indices {T}. Arguments cell_index1 {T}. Arguments clong {T}. Arguments wrap1 {T}.
Arguments cwrap {T}. Arguments ccell_low {T}. Arguments ccell_high {T}. Arguments nidx1 {T}. Arguments cwalls {T}.
Arguments cbody {T}. Arguments cmarch {T}. Arguments cart_interact {T}. Arguments cart_J {T}. Arguments lod {T}.
Arguments deposit_J {T}. Arguments vplus {T}. Arguments vminus {T}. Arguments vscale {T}. Arguments vdivs {T}. Arguments norm2 {T}.
Arguments vmap2 {T}.
Arguments block_box {T}. Arguments child_box {T}. Arguments box_of_rpath {T}. Arguments box_of {T}. Arguments blk_of {T}.
Arguments cell_of {T}. Arguments is_single {T}. Arguments block_index1 {T}. Arguments half_index1 {T}. Arguments locate {T}.
Arguments amr_locate {T}. Arguments block_ngb {T}. Arguments ngb_rp {T}. Arguments ngb {T}. Arguments child_of_pos {T}.
Arguments descend {T}. Arguments awall1 {T}. Arguments acorr {T}. Arguments vunit {T}. Arguments wall_intersection {T}.
Arguments wall_select {T}. Arguments next_cell {T}.
Arguments abody {T}. Arguments amarch {T}. Arguments amr_interact {T}.

(* ---------------------------------------------------------------------------
   binary64 instances *)
Definition f_make_cgrid := @make_cgrid float FOps.
Definition f_cart_interact := @cart_interact float FOps.
Definition f_cart_J := @cart_J float FOps.
Definition f_amr_interact := @amr_interact float FOps PrimFloat.sqrt 0.5%float.
Definition f_deposit_J := @deposit_J float FOps.
Definition f_box_of := @box_of float FOps 0.5%float.
Definition f_amr_locate := @amr_locate float FOps 0.5%float.

(* AMR key of a cell reference (as C16_Defs.gcode on the root-first path) *)
Definition cref_key (r : cref) : Z :=
  C16_Defs.full_key (ix (fst r)) (iy (fst r)) (iz (fst r)) (C16_Defs.code (rev (snd r))).
