(* C04 / C10 shared model, the discrete part (Z): which faces the hydro sweeps visit.
   The loop nests of HydroDensitySubGrid's sweeps (src/HydroDensitySubGrid.hpp: inner_flux_sweep /
   inner_gradient_sweep, outer_flux_sweep / outer_gradient_sweep, outer_ghost_flux_sweep /
   outer_ghost_gradient_sweep -- the flux and the gradient versions have the same index arithmetic, the tie
   checks both against this one model), composed over a grid of subgrids the way make_hydro_tasks
   (src/TaskBasedRadiationHydrodynamicsSimulation.cpp) creates the tasks: per subgrid the internal sweep, per axis the
   pair sweep with the positive neighbour (or the boundary sweep when that neighbour is outside the box) and the
   boundary sweep on the negative side when the negative neighbour is outside.  Neighbours as
   DensitySubGridCreator::create_subgrid wires them (C03 covers the wiring itself).
   The numerical part (per-face flux exchange, conserved update) is Cxx/C04_FluxDefs.v.
   Hand model; tie = the face lists logged by the real sweeps (harness/c04/faces_harness.cpp). *)
From Coq Require Import Bool ZArith List Sorting.Mergesort Orders.
Import ListNotations.
Local Open Scope Z_scope.

Definition range (n : Z) : list Z := map Z.of_nat (seq 0 (Z.to_nat n)).

(* for (a = 0; a < n1; ++a) for (b = 0; b < n2; ++b) [for (c = 0; c < n3; ++c)] *)
Definition loop2 {A} (n1 n2 : Z) (f : Z -> Z -> A) : list A :=
  flat_map (fun a => map (f a) (range n2)) (range n1).
Definition loop3 {A} (n1 n2 n3 : Z) (f : Z -> Z -> Z -> A) : list A :=
  flat_map (fun a => flat_map (fun b => map (f a b) (range n3)) (range n2)) (range n1).

(* one subgrid with _number_of_cells = {nx, ny, nz, ny*nz}; a visit of the internal sweep is
   (axis, index of the left cell, index of the right cell) *)
Definition inner_sweep (nx ny nz : Z) : list (Z * Z * Z) :=
  let n3 := ny * nz in
  loop3 (nx - 1) ny nz (fun ix iy iz => (0, ix * n3 + iy * nz + iz, (ix + 1) * n3 + iy * nz + iz))
  ++ loop3 nx (ny - 1) nz (fun ix iy iz => (1, ix * n3 + iy * nz + iz, ix * n3 + (iy + 1) * nz + iz))
  ++ loop3 nx ny (nz - 1) (fun ix iy iz => (2, ix * n3 + iy * nz + iz, ix * n3 + iy * nz + iz + 1)).

(* the switch of outer_*_sweep, positive directions (the only ones the simulation uses for pair tasks):
   (start_index_left, row_increment, row_length, column_increment, column_length); start_index_right = 0 *)
Definition outer_params (nx ny nz a : Z) : Z * Z * Z * Z * Z :=
  let n3 := ny * nz in
  if a =? 0 then ((nx - 1) * n3, 1, nz, nz, ny)
  else if a =? 1 then ((ny - 1) * nz, 1, nz, n3, nx)
  else (nz - 1, nz, ny, n3, nx).

(* for (ic < column_length) for (ir < row_length): left in this subgrid, right in the neighbour *)
Definition outer_sweep (nx ny nz a : Z) : list (Z * Z * Z) :=
  let '(start, ri, rl, ci, cl) := outer_params nx ny nz a in
  loop2 cl rl (fun ic ir => (a, start + ic * ci + ir * ri, 0 + ic * ci + ir * ri)).

(* boundary sweeps: positive side starts at the same index as the pair sweep, negative side at 0 *)
Definition ghost_sweep (nx ny nz a : Z) (positive : bool) : list (Z * Z) :=
  let '(start, ri, rl, ci, cl) := outer_params nx ny nz a in
  let st := if positive then start else 0 in
  loop2 cl rl (fun ic ir => (a, st + ic * ci + ir * ri)).

Record layout := mkLayout {
  nx : Z; ny : Z; nz : Z;        (* cells per subgrid *)
  sx : Z; sy : Z; sz : Z;        (* subgrids *)
  px : bool; py : bool; pz : bool (* periodicity *) }.

Definition wf_layout (L : layout) : Prop :=
  0 < nx L /\ 0 < ny L /\ 0 < nz L /\ 0 < sx L /\ 0 < sy L /\ 0 < sz L.

(* subgrid index as in DensitySubGridCreator::create_subgrid *)
Definition senc (L : layout) (gx gy gz : Z) : Z := gx * sy L * sz L + gy * sz L + gz.

(* positive neighbour along one axis: next subgrid, wrap to 0 if periodic, else outside *)
Definition ngb_p (s : Z) (per : bool) (g : Z) : option Z :=
  if g + 1 <? s then Some (g + 1) else if per then Some 0 else None.
(* does the negative neighbour exist? *)
Definition has_ngb_n (per : bool) (g : Z) : bool := (0 <? g) || per.

(* what is visited: a pair of cells (axis, subgrid/index of the left cell, subgrid/index of the right cell)
   or one cell against the box boundary (axis, side +1/-1, subgrid, index) *)
Inductive visit := VPair (a s l t r : Z) | VGhost (a sgn s l : Z).

Definition axis_visits (L : layout) (a : Z) (s : Z) (ngbp : option Z) (hasn : bool) : list visit :=
  (match ngbp with
   | Some t => map (fun '(a', l, r) => VPair a' s l t r) (outer_sweep (nx L) (ny L) (nz L) a)
   | None => map (fun '(a', l) => VGhost a' 1 s l) (ghost_sweep (nx L) (ny L) (nz L) a true)
   end)
  ++ (if hasn then [] else map (fun '(a', l) => VGhost a' (-1) s l) (ghost_sweep (nx L) (ny L) (nz L) a false)).

Definition subgrid_visits (L : layout) (gx gy gz : Z) : list visit :=
  let s := senc L gx gy gz in
  map (fun '(a, l, r) => VPair a s l s r) (inner_sweep (nx L) (ny L) (nz L))
  ++ axis_visits L 0 s (option_map (fun g => senc L g gy gz) (ngb_p (sx L) (px L) gx)) (has_ngb_n (px L) gx)
  ++ axis_visits L 1 s (option_map (fun g => senc L gx g gz) (ngb_p (sy L) (py L) gy)) (has_ngb_n (py L) gy)
  ++ axis_visits L 2 s (option_map (fun g => senc L gx gy g) (ngb_p (sz L) (pz L) gz)) (has_ngb_n (pz L) gz).

Definition global_visits (L : layout) : list visit :=
  flat_map (fun gx => flat_map (fun gy => flat_map (fun gz => subgrid_visits L gx gy gz) (range (sz L))) (range (sy L))) (range (sx L)).

(* global cell grid *)
Definition NX (L : layout) := sx L * nx L.
Definition NY (L : layout) := sy L * ny L.
Definition NZ (L : layout) := sz L * nz L.
Definition gid3 (L : layout) (X Y W : Z) : Z := (X * NY L + Y) * NZ L + W.

(* (subgrid index, cell index) -> global cell id, through the coordinates *)
Definition gid (L : layout) (s idx : Z) : Z :=
  let gx := s / (sy L * sz L) in let gy := (s / sz L) mod sy L in let gz := s mod sz L in
  let ix := idx / (ny L * nz L) in let iy := (idx / nz L) mod ny L in let iz := idx mod nz L in
  gid3 L (gx * nx L + ix) (gy * ny L + iy) (gz * nz L + iz).

(* faces of the global cell grid: Interior a l r = the face between cell l and its neighbour r in direction +a
   (for the last cell of a periodic axis r is the first cell: the wrap face);
   Boundary a sgn c = the box face of cell c on side sgn of axis a *)
Inductive face := Interior (a l r : Z) | Boundary (a sgn c : Z).

Definition gface (L : layout) (v : visit) : face :=
  match v with
  | VPair a s l t r => Interior a (gid L s l) (gid L t r)
  | VGhost a sgn s l => Boundary a sgn (gid L s l)
  end.

(* the face set of the global grid, every face once; u = coordinate along the axis, n = cells along it,
   c = the cell, cnext = its neighbour at u+1, cfirst = the cell at u = 0 on the same line *)
Definition faces_of_cell (a : Z) (per : bool) (n u c cnext cfirst : Z) : list face :=
  (if u + 1 <? n then [Interior a c cnext] else if per then [Interior a c cfirst] else [Boundary a 1 c])
  ++ (if (u =? 0) && negb per then [Boundary a (-1) c] else []).

Definition canonical_faces (L : layout) : list face :=
  concat (loop3 (NX L) (NY L) (NZ L) (fun X Y W =>
            faces_of_cell 0 (px L) (NX L) X (gid3 L X Y W) (gid3 L (X + 1) Y W) (gid3 L 0 Y W)))
  ++ concat (loop3 (NX L) (NY L) (NZ L) (fun X Y W =>
            faces_of_cell 1 (py L) (NY L) Y (gid3 L X Y W) (gid3 L X (Y + 1) W) (gid3 L X 0 W)))
  ++ concat (loop3 (NX L) (NY L) (NZ L) (fun X Y W =>
            faces_of_cell 2 (pz L) (NZ L) W (gid3 L X Y W) (gid3 L X Y (W + 1)) (gid3 L X Y 0))).

Definition global_faces (L : layout) : list face := map (gface L) (global_visits L).

(* executable checker: a list of faces is the face set of the grid, each face once.  Both lists are sorted by a
   numeric key and compared; soundness (C04_Faces.faces_once_check_sound) only needs that sorting permutes. *)
Definition face_key (f : face) : Z :=
  match f with
  | Interior a l r => ((a * 4) * 1099511627776 + l) * 1099511627776 + r
  | Boundary a sgn c => ((a * 4 + 2 + sgn) * 1099511627776 + c) * 1099511627776
  end.

Module FaceOrder <: TotalLeBool.
  Definition t := face.
  Definition leb (f g : face) : bool := face_key f <=? face_key g.
  Theorem leb_total : forall a1 a2, leb a1 a2 = true \/ leb a2 a1 = true.
  Proof. intros a1 a2. unfold leb. destruct (Z.leb_spec (face_key a1) (face_key a2)) as [H|H]; [left; reflexivity|right].
    apply Z.leb_le. apply Z.lt_le_incl. exact H. Qed.
End FaceOrder.
Module FaceSort := Sort FaceOrder.

Definition face_eqb (f g : face) : bool :=
  match f, g with
  | Interior a l r, Interior a' l' r' => (a =? a') && (l =? l') && (r =? r')
  | Boundary a s c, Boundary a' s' c' => (a =? a') && (s =? s') && (c =? c')
  | _, _ => false
  end.
Fixpoint face_list_eqb (l l' : list face) : bool :=
  match l, l' with
  | [], [] => true
  | f :: t, f' :: t' => face_eqb f f' && face_list_eqb t t'
  | _, _ => false
  end.

Definition faces_once_check (L : layout) (fs : list face) : bool :=
  face_list_eqb (FaceSort.sort fs) (FaceSort.sort (canonical_faces L)).
