(* C03, layers 2 and 4: executable model of a packet traced through a grid that is split into subgrids, i.e. of what
   src/PhotonTraversalTaskContext.hpp (execute), src/PhotonTraversalThreadContext.hpp (store_photon),
   src/DensitySubGridCreator.hpp (constructor, create_subgrid: geometry of the blocks; get_subgrid(position)) and
   src/DensitySubGrid.hpp (interact) do with ONE packet:

       igrid := get_subgrid(position); input := TRAVELDIRECTION_INSIDE                  (source tasks)
       loop:  result := subgrid[igrid].interact(photon, input)                          (C02's model, reused as is)
              result == INSIDE                      -> absorbed
              ngb := subgrid[igrid].get_neighbour(result);  ngb == NEIGHBOUR_OUTSIDE -> escaped
              igrid := ngb;  input := output_to_input_direction(result)                 (same PhotonPacket object:
                                                                                          absolute position, remaining
                                                                                          optical depth as interact left them)

   Written once over the scalar operations [Ops T] of Cxx/C02_Defs.v.  The binary64 instance is extracted and compared
   bit for bit with the real code on every run (harness/c03/trace_harness.cpp); the real-number instance is the subject
   of Cxx/C03_TraceProofs.v.  The neighbour table and the output->input table are parameters: the checks instantiate them
   with the wiring model of Cxx/C03_Defs.v (layer 3) and the table regenerated from src/TravelDirections.hpp (layer 1).
   Only definitions here. *)
From Coq Require Import ZArith List Bool Reals Floats.
From CMI Require Import Cxx.C03_Defs Cxx.C02_Defs.
Import ListNotations.
Local Open Scope Z_scope.

(* one call of interact during the trace *)
Record tstep (T : Type) := mkTS {
  ts_sub : Z;              (* index of the subgrid (an original or a copy) *)
  ts_in : Z;               (* input direction handed to interact *)
  ts_ppos : vec T;         (* photon position on entry (absolute) *)
  ts_ptau : T;             (* target optical depth on entry *)
  ts_start : option (vec T * ivec);   (* position relative to the anchor after update_photon_position, get_start_index *)
  ts_res : result T        (* what interact returned / left in the packet *)
}.
Arguments mkTS {T}. Arguments ts_sub {T}. Arguments ts_in {T}. Arguments ts_ppos {T}. Arguments ts_ptau {T}.
Arguments ts_start {T}. Arguments ts_res {T}.

Inductive tend := EAbsorbed | EEscaped | EFuel | EErr.

Record tresult (T : Type) := mkTR {
  tr_end : tend;
  tr_steps : list (tstep T);    (* the interact calls, in program order *)
  tr_pos : vec T;               (* packet position at the end *)
  tr_tau : T                    (* packet target optical depth at the end *)
}.
Arguments mkTR {T}. Arguments tr_end {T}. Arguments tr_steps {T}. Arguments tr_pos {T}. Arguments tr_tau {T}.

Section TraceModel.
Variable T : Type.
Variable Op : Ops T.

Local Notation "a +. b" := (o_add Op a b) (at level 50, left associativity).
Local Notation "a -. b" := (o_sub Op a b) (at level 50, left associativity).
Local Notation "a *. b" := (o_mul Op a b) (at level 40, left associativity).
Local Notation "a /. b" := (o_div Op a b) (at level 40, left associativity).

(* DensitySubGridCreator constructor: _subgrid_sides[k] = box.get_sides()[k] / number_of_subgrids[k] *)
Definition subgrid_sides (L : layout) (sides : vec T) : vec T :=
  mkV (vx sides /. o_ofZ Op (nx L)) (vy sides /. o_ofZ Op (ny L)) (vz sides /. o_ofZ Op (nz L)).

(* create_subgrid: box of the subgrid at lattice position (jx,jy,jz):
   anchor[k] + jk * _subgrid_sides[k], _subgrid_sides[k]; _subgrid_number_of_cells; then the DensitySubGrid
   constructor (C02's make_block) *)
Definition block_at (L : layout) (anchor sides : vec T) (j : C03_Defs.vec) : block T :=
  let '(jx, jy, jz) := j in
  let ss := subgrid_sides L sides in
  make_block Op (mkV (vx anchor +. o_ofZ Op jx *. vx ss) (vy anchor +. o_ofZ Op jy *. vy ss) (vz anchor +. o_ofZ Op jz *. vz ss))
             ss (mkI (cx L) (cy L) (cz L)).

Definition sub_block (L : layout) (anchor sides : vec T) (idx : Z) : block T :=
  block_at L anchor sides (pos_of_index L idx).

(* (int_fast32_t) std::floor(x) *)
Definition floorZ (x : T) : Z :=
  let t := o_truncZ Op x in if o_ltb Op x (o_ofZ Op t) then t - 1 else t.

(* DensitySubGridCreator::get_subgrid(position) *)
Definition locate (L : layout) (anchor sides pos : vec T) : Z :=
  let ss := subgrid_sides L sides in
  let jx := floorZ ((vx pos -. vx anchor) /. vx ss) in
  let jy := floorZ ((vy pos -. vy anchor) /. vy ss) in
  let jz := floorZ ((vz pos -. vz anchor) /. vz ss) in
  jx * ny L * nz L + jy * nz L + jz.

(* the first lines of interact: position - _anchor, update_photon_position, get_start_index
   (reported by the harness next to every interact call; the same expressions as in C02_Defs.interact_with) *)
Definition entry (b : block T) (ph : photon T) (input : Z) : option (vec T * ivec) :=
  let p0 := vsub Op (p_pos ph) (b_anchor b) in
  match zlookup input reposition_table, x_index_kind input, y_index_kind input, z_index_kind input with
  | Some (kx, ky, kz), Some jx, Some jy, Some jz =>
    let n := b_n b in
    let p1 := mkV (repos1 Op kx (ix n) (vx (b_cs b)) (vx p0)) (repos1 Op ky (iy n) (vy (b_cs b)) (vy p0))
                  (repos1 Op kz (iz n) (vz (b_cs b)) (vz p0)) in
    let i0 := mkI (start1 Op jx (ix n) (vx (b_inv b)) (vx p1)) (start1 Op jy (iy n) (vy (b_inv b)) (vy p1))
                  (start1 Op jz (iz n) (vz (b_inv b)) (vz p1)) in
    Some (p1, i0)
  | _, _, _, _ => None
  end.

(* the packet after a call of interact: position and target optical depth were overwritten, nothing else *)
Definition after (ph : photon T) (r : result T) : photon T :=
  mkP (r_pos r) (p_dir ph) (r_tau r) (p_sigma ph) (p_energy ph) (p_weight ph).

Section Trace.
Variable L : layout.
Variables anchor sides : vec T.
Variable geo : Z -> Z.                (* subgrid index -> index of its original (identity without copies) *)
Variable ngb : Z -> Z -> Z.           (* get_neighbour(output direction) of a subgrid *)
Variable o2i : list Z.                (* TravelDirections::output_to_input_direction as a table *)
Variable cells : Z -> Z -> cellc T.   (* original subgrid index -> cell index -> contents *)

Fixpoint trace (fuel : nat) (sub input : Z) (ph : photon T) : tresult T :=
  match fuel with
  | O => mkTR EFuel [] (p_pos ph) (p_tau ph)
  | S f =>
    let b := sub_block L anchor sides (geo sub) in
    match interact Op b (cells (geo sub)) ph input with
    | Ok r =>
      let s := mkTS sub input (p_pos ph) (p_tau ph) (entry b ph input) r in
      if r_out r =? INSIDE then mkTR EAbsorbed [s] (r_pos r) (r_tau r)
      else
        let nb := ngb sub (r_out r) in
        if nb =? OUTSIDE then mkTR EEscaped [s] (r_pos r) (r_tau r)
        else
          let t := trace f nb (tnth o2i (r_out r)) (after ph r) in
          mkTR (tr_end t) (s :: tr_steps t) (tr_pos t) (tr_tau t)
    | _ => mkTR EErr [] (p_pos ph) (p_tau ph)
    end
  end.

(* a source packet: located by get_subgrid(position), handed to interact as TRAVELDIRECTION_INSIDE *)
Definition trace_packet (fuel : nat) (ph : photon T) : tresult T :=
  trace fuel (locate L anchor sides (p_pos ph)) INSIDE ph.
End Trace.

End TraceModel.

Arguments subgrid_sides {T}. Arguments block_at {T}. Arguments sub_block {T}. Arguments floorZ {T}. Arguments locate {T}.
Arguments entry {T}. Arguments after {T}. Arguments trace {T}. Arguments trace_packet {T}.

(* ---------------------------------------------------------------------------
   binary64 instance (extracted) *)
Definition f_trace := @trace float FOps.
Definition f_locate := @locate float FOps.
Definition f_sub_block := @sub_block float FOps.

(* the trace through originals only (no copies): neighbour table of layer 3 *)
Definition f_trace_packet (L : layout) (anchor sides : vec float) (o2i : list Z) (cells : Z -> Z -> cellc float)
           (fuel : nat) (ph : photon float) : tresult float :=
  trace_packet FOps L anchor sides (fun s => s) (subgrid_ngb L) o2i cells fuel ph.

(* the trace through a grid with copies (copy levels lv): geometry and cell contents are those of the original,
   neighbours are the copy's own table *)
Definition f_trace_copies (L : layout) (lv : list Z) (anchor sides : vec float) (o2i : list Z)
           (cells : Z -> Z -> cellc float) (fuel : nat) (sub : Z) (ph : photon float) : tresult float :=
  trace FOps L anchor sides (original_of L lv) (ngb_at L lv) o2i cells fuel sub INSIDE ph.
