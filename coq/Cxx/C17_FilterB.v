(* C17: soundness of the floating point filters, part 2: from PrimFloat / Flocq binary_float to the real-number level.
     - [evalB_correct]: a tree evaluated with Bminus/Bmult/Bplus (round to nearest even) on finite leaves bounded by 2^L
       never overflows (all magnitudes stay below 2^1024), and its value is the rounded real evaluation [evalF];
     - [coordR_is_value]: the double whose bit pattern is in [1,2) is finite and has the value 1 + mantissa/2^52. *)
From Coq Require Import ZArith List Bool Lia Reals Lra Psatz Floats SpecFloat.
From Flocq Require Import Core Relative BinarySingleNaN.
Require Flocq.IEEE754.PrimFloat.
From CMI Require Import Cxx.C17_Defs Cxx.C17_Proofs Cxx.C17_Real Cxx.C17_Filter.
Import ListNotations.
Local Open Scope R_scope.
Module FP := Flocq.IEEE754.PrimFloat.

Notation bf := (binary_float FloatOps.prec emax).
Notation BSUB := (@Bminus FloatOps.prec emax FP.Hprec FP.Hmax mode_NE).
Notation BMUL := (@Bmult FloatOps.prec emax FP.Hprec FP.Hmax mode_NE).
Notation BADD := (@Bplus FloatOps.prec emax FP.Hprec FP.Hmax mode_NE).
Notation evalB := (eval BSUB BMUL BADD).
Notation B2R' := (@B2R FloatOps.prec emax).
Notation fin := (@is_finite FloatOps.prec emax).

(* magnitude exponent of a node when |leaf| <= 2^L *)
Fixpoint bexp (L : Z) (e : expr) : Z :=
  match e with
  | Var _ => L
  | Sub a b | Add a b => (Z.max (bexp L a) (bexp L b) + 1)%Z
  | Mul a b => (bexp L a + bexp L b)%Z
  end.

Fixpoint bok (L : Z) (e : expr) : bool :=
  ((emin <=? bexp L e) && (bexp L e <? 1024))%Z &&
  match e with
  | Var _ => true
  | Sub a b | Add a b | Mul a b => bok L a && bok L b
  end.

Lemma rnd_le_bpow : forall x e, (emin <= e)%Z -> Rabs x <= bpow radix2 e -> Rabs (rnd x) <= bpow radix2 e.
Proof.
  intros x e He H. apply abs_round_le_generic; [apply FLT_exp_valid; apply prec_gt_0_53 | apply valid_rnd_N | | exact H].
  apply generic_format_FLT_bpow; [apply prec_gt_0_53 | exact He].
Qed.

Section BLevel.
  Variable L : Z.
  Variable rhoB : nat -> bf.
  Hypothesis leaves_fin : forall i, fin (rhoB i) = true.
  Hypothesis leaves_bnd : forall i, Rabs (B2R' (rhoB i)) <= bpow radix2 L.
  Let rho := fun i => B2R' (rhoB i).

  Theorem evalB_correct : forall e, bok L e = true ->
    fin (evalB rhoB e) = true /\ B2R' (evalB rhoB e) = evalF rho e /\ Rabs (evalF rho e) <= bpow radix2 (bexp L e).
  Proof.
    induction e; simpl; intros Hb.
    - split; [apply leaves_fin |]. split; [reflexivity | apply leaves_bnd].
    - apply andb_prop in Hb. destruct Hb as [Hr Hb]. apply andb_prop in Hb. destruct Hb as [Ha Hb].
      apply andb_prop in Hr. destruct Hr as [Hlo Hhi]. apply Z.leb_le in Hlo. apply Z.ltb_lt in Hhi.
      destruct (IHe1 Ha) as [F1 [V1 B1]]. destruct (IHe2 Hb) as [F2 [V2 B2]].
      assert (HB : Rabs (rnd (evalF rho e1 - evalF rho e2)) <= bpow radix2 (Z.max (bexp L e1) (bexp L e2) + 1)).
      { apply rnd_le_bpow; [exact Hlo |]. eapply Rle_trans; [apply Rabs_triang |]. rewrite Rabs_Ropp.
        rewrite bpow_plus_1. simpl (IZR radix2).
        assert (bpow radix2 (bexp L e1) <= bpow radix2 (Z.max (bexp L e1) (bexp L e2))) by (apply bpow_le; lia).
        assert (bpow radix2 (bexp L e2) <= bpow radix2 (Z.max (bexp L e1) (bexp L e2))) by (apply bpow_le; lia). lra. }
      pose proof (Bminus_correct FloatOps.prec emax FP.Hprec FP.Hmax mode_NE _ _ F1 F2) as H.
      rewrite V1, V2 in H. rewrite Rlt_bool_true in H.
      + destruct H as [H1 [H2 _]]. split; [exact H2 |]. split; [exact H1 | exact HB].
      + eapply Rle_lt_trans; [exact HB |]. apply bpow_lt. exact Hhi.
    - apply andb_prop in Hb. destruct Hb as [Hr Hb]. apply andb_prop in Hb. destruct Hb as [Ha Hb].
      apply andb_prop in Hr. destruct Hr as [Hlo Hhi]. apply Z.leb_le in Hlo. apply Z.ltb_lt in Hhi.
      destruct (IHe1 Ha) as [F1 [V1 B1]]. destruct (IHe2 Hb) as [F2 [V2 B2]].
      assert (HB : Rabs (rnd (evalF rho e1 * evalF rho e2)) <= bpow radix2 (bexp L e1 + bexp L e2)).
      { apply rnd_le_bpow; [exact Hlo |]. rewrite Rabs_mult, bpow_plus. apply Rmult_le_compat; try apply Rabs_pos; assumption. }
      pose proof (Bmult_correct FloatOps.prec emax FP.Hprec FP.Hmax mode_NE (evalB rhoB e1) (evalB rhoB e2)) as H.
      rewrite V1, V2 in H. rewrite Rlt_bool_true in H.
      + destruct H as [H1 [H2 _]]. rewrite F1, F2 in H2. split; [exact H2 |]. split; [exact H1 | exact HB].
      + eapply Rle_lt_trans; [exact HB |]. apply bpow_lt. exact Hhi.
    - apply andb_prop in Hb. destruct Hb as [Hr Hb]. apply andb_prop in Hb. destruct Hb as [Ha Hb].
      apply andb_prop in Hr. destruct Hr as [Hlo Hhi]. apply Z.leb_le in Hlo. apply Z.ltb_lt in Hhi.
      destruct (IHe1 Ha) as [F1 [V1 B1]]. destruct (IHe2 Hb) as [F2 [V2 B2]].
      assert (HB : Rabs (rnd (evalF rho e1 + evalF rho e2)) <= bpow radix2 (Z.max (bexp L e1) (bexp L e2) + 1)).
      { apply rnd_le_bpow; [exact Hlo |]. eapply Rle_trans; [apply Rabs_triang |].
        rewrite bpow_plus_1. simpl (IZR radix2).
        assert (bpow radix2 (bexp L e1) <= bpow radix2 (Z.max (bexp L e1) (bexp L e2))) by (apply bpow_le; lia).
        assert (bpow radix2 (bexp L e2) <= bpow radix2 (Z.max (bexp L e1) (bexp L e2))) by (apply bpow_le; lia). lra. }
      pose proof (Bplus_correct FloatOps.prec emax FP.Hprec FP.Hmax mode_NE _ _ F1 F2) as H.
      rewrite V1, V2 in H. rewrite Rlt_bool_true in H.
      + destruct H as [H1 [H2 _]]. split; [exact H2 |]. split; [exact H1 | exact HB].
      + eapply Rle_lt_trans; [exact HB |]. apply bpow_lt. exact Hhi.
  Qed.
End BLevel.

(* ------------------------------------------------------------------------- *)
(* inputs: bit patterns in [1,2) *)

Lemma sf_of_bits_in_range : forall bits, in_range bits ->
  exists p, Zpos p = (MANT + get_mantissa bits)%Z /\ sf_of_bits bits = S754_finite false p (-52).
Proof.
  intros bits H. pose proof (get_mantissa_range bits) as Hm. pose proof (get_mantissa_in_range bits H) as Hb.
  unfold in_range, ONE_BITS, MANT in *.
  set (m := get_mantissa bits) in *.
  assert (Hmod : (bits mod 2 ^ 52 = m)%Z) by reflexivity.
  assert (Hdiv : (bits / 2 ^ 52 = 1023)%Z).
  { rewrite Hb. rewrite Z.div_add_l by (compute; discriminate). rewrite (Z.div_small m) by lia. reflexivity. }
  assert (Hsgn : (bits / 2 ^ 63 = 0)%Z) by (apply Z.div_small; lia).
  unfold sf_of_bits. rewrite Hmod, Hdiv, Hsgn.
  change ((1023 mod 2 ^ 11 =? 0)%Z) with false. change ((1023 mod 2 ^ 11 =? 2047)%Z) with false.
  change (1023 mod 2 ^ 11 - 1075)%Z with (-52)%Z. change (Z.odd 0) with false. cbv iota.
  destruct (m + 2 ^ 52)%Z as [| p | p] eqn:E; try lia.
  exists p. split; [lia | reflexivity].
Qed.

Lemma digits_53 : forall p, (2 ^ 52 <= Zpos p < 2 ^ 53)%Z -> Zpos (digits2_pos p) = 53%Z.
Proof.
  intros p H. rewrite Zpos_digits2_pos. apply Zdigits_unique. change (Zpower radix2 (53 - 1)) with (2 ^ 52)%Z.
  change (Zpower radix2 53) with (2 ^ 53)%Z. rewrite Z.abs_eq by lia. exact H.
Qed.

Lemma valid_in_range : forall p, (2 ^ 52 <= Zpos p < 2 ^ 53)%Z ->
  valid_binary FloatOps.prec emax (S754_finite false p (-52)) = true.
Proof.
  intros p H. unfold valid_binary, bounded, canonical_mantissa. rewrite (digits_53 p H). reflexivity.
Qed.

Lemma Prim2B_SF2Prim : forall s (H : valid_binary FloatOps.prec emax s = true), FP.Prim2B (SF2Prim s) = SF2B s H.
Proof.
  intros s H. rewrite <- (FP.Prim2B_B2Prim (SF2B s H)). unfold FP.B2Prim. rewrite B2SF_SF2B. reflexivity.
Qed.

(* the double with a bit pattern in [1,2) is finite and its value is coordR = 1 + mantissa / 2^52 *)
Theorem coordR_is_value : forall bits, in_range bits ->
  fin (FP.Prim2B (f_of_bits bits)) = true /\ B2R' (FP.Prim2B (f_of_bits bits)) = coordR bits.
Proof.
  intros bits H. destruct (sf_of_bits_in_range bits H) as [p [Hp Hs]].
  pose proof (get_mantissa_range bits) as Hm. unfold MANT in *.
  assert (Hr : (2 ^ 52 <= Zpos p < 2 ^ 53)%Z) by lia.
  unfold f_of_bits. rewrite Hs. rewrite (Prim2B_SF2Prim _ (valid_in_range p Hr)).
  split; [reflexivity |]. rewrite B2R_SF2B. unfold SF2R, cond_Zopp, F2R, coordR, SCALE, MANT. cbn [Fnum Fexp].
  rewrite Hp, plus_IZR. change (bpow radix2 (-52)) with (/ IZR (2 ^ 52)).
  field. apply not_0_IZR. compute; discriminate.
Qed.
