(* C17: executable model of src/ExactGeometricTests.hpp (hand model; tie = correspondence).

   A double is represented by its 64 bit pattern (a Z in [0,2^64)), exactly what
   the union binary_double of the header looks at.
     get_mantissa          the bit field  mantissa : 52  = the low 52 bits
     orient3d_exact        boost::multiprecision::int256_t  (256 bit magnitude + sign, unchecked)
     insphere_exact        cpp_int_backend<278,278,signed_magnitude,unchecked,void>
     orient3d_adaptive     binary64 filter (result, errbound), exact fall back
     insphere_adaptive     same
   The integer code is written once over abstract operations (Section Shape) in the
   operation order of the C++ source (both integer types have expression templates
   off, so the order is the C++ one); it is instantiated with
     - the ring Z ("ideal": what the comments of the header reason about), and
     - operations that truncate the magnitude to the fixed width after every
       operation ("fixed"), which is what an unchecked fixed width cpp_int does
       when a result does not fit.  An overflow is visible as a difference between
       the two instances; C17_no_overflow_* proves there is none.
   binary64 arithmetic is Coq's PrimFloat. *)
From Coq Require Import ZArith List Bool Floats Uint63 SpecFloat.
Import ListNotations.
Local Open Scope Z_scope.

(* ------------------------------------------------------------------------- *)
(* doubles as bit patterns *)

Definition MANT : Z := 2 ^ 52.

(* binary_double.parts.mantissa  (uint64_t mantissa : 52) *)
Definition get_mantissa (bits : Z) : Z := bits mod MANT.

(* bit pattern of a double in [1,2): sign 0, biased exponent 1023 *)
Definition ONE_BITS : Z := 1023 * 2 ^ 52.       (* 0x3ff0000000000000 *)
Definition in_range (bits : Z) : Prop := ONE_BITS <= bits < ONE_BITS + MANT.
Definition in_rangeb (bits : Z) : bool := (ONE_BITS <=? bits) && (bits <? ONE_BITS + MANT).

(* IEEE-754 decoding of all 2^64 patterns (NaN payloads collapse) *)
Definition sf_of_bits (z : Z) : spec_float :=
  let m := z mod 2 ^ 52 in
  let e := (z / 2 ^ 52) mod 2 ^ 11 in
  let s := Z.odd (z / 2 ^ 63) in
  if e =? 0 then
    match m with Z0 => S754_zero s | Zpos p => S754_finite s p (-1074) | Zneg _ => S754_nan end
  else if e =? 2047 then
    (if m =? 0 then S754_infinity s else S754_nan)
  else
    match m + 2 ^ 52 with Zpos p => S754_finite s p (e - 1075) | _ => S754_nan end.

Definition f_of_bits (z : Z) : float := SF2Prim (sf_of_bits z).

(* a point: three doubles *)
Record pt := mkPt { px : Z; py : Z; pz : Z }.

Definition pt_in_range (p : pt) : Prop := in_range (px p) /\ in_range (py p) /\ in_range (pz p).
Definition pt_in_rangeb (p : pt) : bool := in_rangeb (px p) && in_rangeb (py p) && in_rangeb (pz p).

(* ------------------------------------------------------------------------- *)
(* the two integer determinants, in the operation order of the source *)

Section Shape.
  Variable T : Type.
  Variables (sub mul add : T -> T -> T).
  Local Notation "x - y" := (sub x y).
  Local Notation "x * y" := (mul x y).
  Local Notation "x + y" := (add x y).

  (* arguments: the 12 mantissas already converted to the integer type *)
  Definition orient_shape (axp ayp azp bxp byp bzp cxp cyp czp dxp dyp dzp : T) : T :=
    let adx := axp - dxp in
    let ady := ayp - dyp in
    let adz := azp - dzp in
    let bdx := bxp - dxp in
    let bdy := byp - dyp in
    let bdz := bzp - dzp in
    let cdx := cxp - dxp in
    let cdy := cyp - dyp in
    let cdz := czp - dzp in
    let bdxcdy := bdx * cdy in
    let cdxbdy := cdx * bdy in
    let cdxady := cdx * ady in
    let adxcdy := adx * cdy in
    let adxbdy := adx * bdy in
    let bdxady := bdx * ady in
    (adz * (bdxcdy - cdxbdy) + bdz * (cdxady - adxcdy)) + cdz * (adxbdy - bdxady).

  Definition insphere_shape (axp ayp azp bxp byp bzp cxp cyp czp dxp dyp dzp exp eyp ezp : T) : T :=
    let aex := axp - exp in
    let aey := ayp - eyp in
    let aez := azp - ezp in
    let bex := bxp - exp in
    let bey := byp - eyp in
    let bez := bzp - ezp in
    let cex := cxp - exp in
    let cey := cyp - eyp in
    let cez := czp - ezp in
    let dex := dxp - exp in
    let dey := dyp - eyp in
    let dez := dzp - ezp in
    let ab := aex * bey - bex * aey in
    let bc := bex * cey - cex * bey in
    let cd := cex * dey - dex * cey in
    let da := dex * aey - aex * dey in
    let ac := aex * cey - cex * aey in
    let bd := bex * dey - dex * bey in
    let abc := (aez * bc - bez * ac) + cez * ab in
    let bcd := (bez * cd - cez * bd) + dez * bc in
    let cda := (cez * da + dez * ac) + aez * cd in
    let dab := (dez * ab + aez * bd) + bez * da in
    let aenrm2 := (aex * aex + aey * aey) + aez * aez in
    let benrm2 := (bex * bex + bey * bey) + bez * bez in
    let cenrm2 := (cex * cex + cey * cey) + cez * cez in
    let denrm2 := (dex * dex + dey * dey) + dez * dez in
    ((denrm2 * abc - cenrm2 * dab) + benrm2 * cda) - aenrm2 * bcd.
End Shape.

(* ideal instance: the determinants over Z *)
Definition orient_det : Z -> Z -> Z -> Z -> Z -> Z -> Z -> Z -> Z -> Z -> Z -> Z -> Z :=
  orient_shape Z Z.sub Z.mul Z.add.
Definition insphere_det : Z -> Z -> Z -> Z -> Z -> Z -> Z -> Z -> Z -> Z -> Z -> Z -> Z -> Z -> Z -> Z :=
  insphere_shape Z Z.sub Z.mul Z.add.

(* fixed width instance: sign + w bit magnitude, bits above w are dropped *)
Definition W_ORIENT : Z := 256.
Definition W_INSPHERE : Z := 278.
(* (the test only avoids a long division in the extracted program; both branches agree when it holds) *)
Definition wrap (w x : Z) : Z := if Z.abs x <? 2 ^ w then x else Z.sgn x * (Z.abs x mod 2 ^ w).
Definition wsub (w a b : Z) : Z := wrap w (a - b).
Definition wmul (w a b : Z) : Z := wrap w (a * b).
Definition wadd (w a b : Z) : Z := wrap w (a + b).

Definition orient_det_fixed := orient_shape Z (wsub W_ORIENT) (wmul W_ORIENT) (wadd W_ORIENT).
Definition insphere_det_fixed := insphere_shape Z (wsub W_INSPHERE) (wmul W_INSPHERE) (wadd W_INSPHERE).

(* if (result > 0) 1 else if (result < 0) -1 else 0 *)
Definition sign_of (r : Z) : Z := if 0 <? r then 1 else if r <? 0 then -1 else 0.

Definition orient_mant (det : Z -> Z -> Z -> Z -> Z -> Z -> Z -> Z -> Z -> Z -> Z -> Z -> Z) (a b c d : pt) : Z :=
  det (get_mantissa (px a)) (get_mantissa (py a)) (get_mantissa (pz a))
      (get_mantissa (px b)) (get_mantissa (py b)) (get_mantissa (pz b))
      (get_mantissa (px c)) (get_mantissa (py c)) (get_mantissa (pz c))
      (get_mantissa (px d)) (get_mantissa (py d)) (get_mantissa (pz d)).

Definition insphere_mant (det : Z -> Z -> Z -> Z -> Z -> Z -> Z -> Z -> Z -> Z -> Z -> Z -> Z -> Z -> Z -> Z) (a b c d e : pt) : Z :=
  det (get_mantissa (px a)) (get_mantissa (py a)) (get_mantissa (pz a))
      (get_mantissa (px b)) (get_mantissa (py b)) (get_mantissa (pz b))
      (get_mantissa (px c)) (get_mantissa (py c)) (get_mantissa (pz c))
      (get_mantissa (px d)) (get_mantissa (py d)) (get_mantissa (pz d))
      (get_mantissa (px e)) (get_mantissa (py e)) (get_mantissa (pz e)).

(* the functions of the header (fixed width arithmetic, as compiled) *)
Definition orient3d_exact (a b c d : pt) : Z := sign_of (orient_mant orient_det_fixed a b c d).
Definition insphere_exact (a b c d e : pt) : Z := sign_of (insphere_mant insphere_det_fixed a b c d e).

(* ------------------------------------------------------------------------- *)
(* the binary64 filters *)

Local Open Scope float_scope.

(* the literal 1.e-10 : nearest double 0x3ddb7cdfd9d7bdbb = 7737125245533627 * 2^-86 *)
Definition ERRFAC : float := 0x1.b7cdfd9d7bdbbp-34.

Record fpt := mkF { fx : float; fy : float; fz : float }.
Definition fpt_of (p : pt) : fpt := mkF (f_of_bits (px p)) (f_of_bits (py p)) (f_of_bits (pz p)).
(* CoordinateVector operator- *)
Definition fsubv (a b : fpt) : fpt := mkF (fx a - fx b) (fy a - fy b) (fz a - fz b).
(* CoordinateVector::norm2  _x*_x + _y*_y + _z*_z *)
Definition fnorm2 (a : fpt) : float := (fx a * fx a + fy a * fy a) + fz a * fz a.

(* (result, errbound) of orient3d_adaptive *)
Definition orient_filter (ar br cr dr : fpt) : float * float :=
  let ad := fsubv ar dr in
  let bd := fsubv br dr in
  let cd := fsubv cr dr in
  let bdxcdy := fx bd * fy cd in
  let cdxbdy := fx cd * fy bd in
  let cdxady := fx cd * fy ad in
  let adxcdy := fx ad * fy cd in
  let adxbdy := fx ad * fy bd in
  let bdxady := fx bd * fy ad in
  let errbound :=
    ERRFAC * (((abs bdxcdy + abs cdxbdy) * abs (fz ad) +
               (abs cdxady + abs adxcdy) * abs (fz bd)) +
              (abs adxbdy + abs bdxady) * abs (fz cd)) in
  let result := (fz ad * (bdxcdy - cdxbdy) + fz bd * (cdxady - adxcdy)) + fz cd * (adxbdy - bdxady) in
  (result, errbound).

Definition insphere_filter (ar br cr dr er : fpt) : float * float :=
  let ae := fsubv ar er in
  let be := fsubv br er in
  let ce := fsubv cr er in
  let de := fsubv dr er in
  let aexbey := fx ae * fy be in
  let bexaey := fx be * fy ae in
  let ab := aexbey - bexaey in
  let bexcey := fx be * fy ce in
  let cexbey := fx ce * fy be in
  let bc := bexcey - cexbey in
  let cexdey := fx ce * fy de in
  let dexcey := fx de * fy ce in
  let cd := cexdey - dexcey in
  let dexaey := fx de * fy ae in
  let aexdey := fx ae * fy de in
  let da := dexaey - aexdey in
  let aexcey := fx ae * fy ce in
  let cexaey := fx ce * fy ae in
  let ac := aexcey - cexaey in
  let bexdey := fx be * fy de in
  let dexbey := fx de * fy be in
  let bd := bexdey - dexbey in
  let abc := (fz ae * bc - fz be * ac) + fz ce * ab in
  let bcd := (fz be * cd - fz ce * bd) + fz de * bc in
  let cda := (fz ce * da + fz de * ac) + fz ae * cd in
  let dab := (fz de * ab + fz ae * bd) + fz be * da in
  let aenrm2 := fnorm2 ae in
  let benrm2 := fnorm2 be in
  let cenrm2 := fnorm2 ce in
  let denrm2 := fnorm2 de in
  let aezplus := abs (fz ae) in
  let bezplus := abs (fz be) in
  let cezplus := abs (fz ce) in
  let dezplus := abs (fz de) in
  let aexbeyplus := abs aexbey in
  let bexaeyplus := abs bexaey in
  let bexceyplus := abs bexcey in
  let cexbeyplus := abs cexbey in
  let cexdeyplus := abs cexdey in
  let dexceyplus := abs dexcey in
  let dexaeyplus := abs dexaey in
  let aexdeyplus := abs aexdey in
  let aexceyplus := abs aexcey in
  let cexaeyplus := abs cexaey in
  let bexdeyplus := abs bexdey in
  let dexbeyplus := abs dexbey in
  let errbound :=
    ERRFAC * ((((((cexdeyplus + dexceyplus) * bezplus + (dexbeyplus + bexdeyplus) * cezplus) +
                 (bexceyplus + cexbeyplus) * dezplus) * aenrm2 +
                (((dexaeyplus + aexdeyplus) * cezplus + (aexceyplus + cexaeyplus) * dezplus) +
                 (cexdeyplus + dexceyplus) * aezplus) * benrm2) +
               (((aexbeyplus + bexaeyplus) * dezplus + (bexdeyplus + dexbeyplus) * aezplus) +
                (dexaeyplus + aexdeyplus) * bezplus) * cenrm2) +
              (((bexceyplus + cexbeyplus) * aezplus + (cexaeyplus + aexceyplus) * bezplus) +
               (aexbeyplus + bexaeyplus) * cezplus) * denrm2) in
  let result := (denrm2 * abc - cenrm2 * dab) + (benrm2 * cda - aenrm2 * bcd) in
  (result, errbound).

Local Open Scope Z_scope.

(* if (result < -errbound) -1 else if (result > errbound) 1 else <exact>;  None = the filter cannot decide *)
Definition filter_decision (re : float * float) : option Z :=
  let (result, errbound) := re in
  if PrimFloat.ltb result (PrimFloat.opp errbound) then Some (-1)
  else if PrimFloat.ltb errbound result then Some 1
  else None.

Definition orient3d_filter (a b c d : pt) : option Z :=
  filter_decision (orient_filter (fpt_of a) (fpt_of b) (fpt_of c) (fpt_of d)).
Definition insphere_filter_dec (a b c d e : pt) : option Z :=
  filter_decision (insphere_filter (fpt_of a) (fpt_of b) (fpt_of c) (fpt_of d) (fpt_of e)).

(* ... else return <exact>(...)  : the exact function is only called when the filter cannot decide *)
Definition adaptive_of (f : option Z) (exact : unit -> Z) : Z :=
  match f with Some s => s | None => exact tt end.

Definition orient3d_adaptive (a b c d : pt) : Z :=
  adaptive_of (orient3d_filter a b c d) (fun _ => orient3d_exact a b c d).
Definition insphere_adaptive (a b c d e : pt) : Z :=
  adaptive_of (insphere_filter_dec a b c d e) (fun _ => insphere_exact a b c d e).

(* ------------------------------------------------------------------------- *)
(* permutations of the arguments (used by the statements and the driver) *)

Definition nth_pt (l : list pt) (i : nat) : pt := nth i l (mkPt 0 0 0).

Definition orient_l (f : pt -> pt -> pt -> pt -> Z) (l : list pt) : Z :=
  f (nth_pt l 0) (nth_pt l 1) (nth_pt l 2) (nth_pt l 3).
Definition insphere_l (f : pt -> pt -> pt -> pt -> pt -> Z) (l : list pt) : Z :=
  f (nth_pt l 0) (nth_pt l 1) (nth_pt l 2) (nth_pt l 3) (nth_pt l 4).

(* all permutations of a list, and the parity (+1 / -1) of a permutation of 0..n-1 given as a list of indices *)
Fixpoint insert_all {A} (x : A) (l : list A) : list (list A) :=
  match l with
  | [] => [[x]]
  | y :: t => (x :: y :: t) :: map (cons y) (insert_all x t)
  end.
Fixpoint perms {A} (l : list A) : list (list A) :=
  match l with
  | [] => [[]]
  | x :: t => flat_map (insert_all x) (perms t)
  end.
Fixpoint inversions_with (x : nat) (l : list nat) : nat :=
  match l with
  | [] => O
  | y :: t => ((if Nat.ltb y x then 1 else 0) + inversions_with x t)%nat
  end.
Fixpoint inversions (l : list nat) : nat :=
  match l with
  | [] => O
  | x :: t => (inversions_with x t + inversions t)%nat
  end.
Definition parity (l : list nat) : Z := if Nat.even (inversions l) then 1 else -1.
Definition permute {A} (d : A) (l : list A) (p : list nat) : list A := map (fun i => nth i l d) p.
